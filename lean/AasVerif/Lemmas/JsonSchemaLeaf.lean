import AasVerif.Lemmas.JsonSchemaInherit
/-!
Exact reading of the definition of a concrete class without concrete descendants — with or without
parents: it accepts a JSON value iff every referenced parent definition accepts it and the class body
(`BodyOK`) holds.  This is the induction step for whole-document statements along the `allOf` chain.
-/
namespace AasVerif.JsonSchema
open AasVerif AasVerif.Retree

variable (defs : Defs)

/-- what the `properties` entry generated for `p` demands of a member value: for an own property the
full annotation; for an inherited one only the tightening steps of the top node (`_define_properties`) -/
def PropOK (p : Prp) (v : Json) : Prop :=
  if p.own then Sat defs p.ty v
  else ∀ cs t, p.ty.cons = some cs → tightenAll cs p.parents = .ok t → TransSpec p.ty.shape t v

theorem defineProp_some_iff {p : Prp} {sp : Schema} (h : defineProp p = .ok (some sp)) (v : Json) :
    Valid defs sp v ↔ PropOK defs p v := by
  unfold PropOK
  by_cases hown : p.own = true
  · rw [if_pos hown]
    exact type_lemma defs p.ty sp (defineProp_own hown h) v
  · rw [if_neg hown]
    unfold defineProp at h
    rw [if_neg hown] at h
    cases hc : p.ty.cons with
    | none => simp [hc] at h
    | some cs =>
      simp only [hc] at h
      cases ht : tightenAll cs p.parents with
      | error e => simp [ht] at h
      | ok t =>
        simp only [ht] at h
        cases hr : translate p.ty.shape t with
        | error e => simp [hr] at h
        | ok o =>
          cases o with
          | none => simp [hr] at h
          | some ba =>
            obtain ⟨base, add⟩ := ba
            simp only [hr, Except.ok.injEq, Option.some.injEq] at h
            subst h
            rw [valid_allOfMapping, translate_some_iff defs hr v]
            constructor
            · intro hts cs' t' hcs' ht'
              cases hcs'
              rw [ht] at ht'
              cases ht'
              exact hts
            · intro hall
              exact hall cs t rfl ht

theorem defineProp_none_ok {p : Prp} (h : defineProp p = .ok none) (hown : p.own = false) (v : Json) :
    PropOK defs p v := by
  unfold PropOK
  simp only [hown, Bool.false_eq_true, if_false]
  intro cs t hcs ht
  unfold defineProp at h
  simp only [hown, Bool.false_eq_true, if_false, hcs, ht] at h
  cases hr : translate p.ty.shape t with
  | error e => simp [hr] at h
  | ok o =>
    cases o with
    | none => exact translate_none_spec hr v
    | some ba => simp [hr] at h

theorem valid_wrapAllOf_iff {ss : List Schema} (hne : ss ≠ []) (j : Json) :
    Valid defs (wrapAllOf ss) j ↔ ∀ s ∈ ss, Valid defs s j := by
  constructor
  · exact valid_wrapAllOf_elim defs
  · intro h
    unfold wrapAllOf
    split
    · exact absurd rfl hne
    · exact h _ (List.mem_singleton.mpr rfl)
    · rw [valid_iff_kws]
      intro k hk
      simp only [List.mem_singleton] at hk
      subst hk
      rw [kwv_allOf]
      exact h

/-- the three parts of a class body -/
theorem valid_body_iff (c : Cls) (P : List (Text × Schema)) (R : List Text) (j : Json) :
    Valid defs (.mk (bodyKws c P R)) j ↔
      (c.inh = [] → hasType .object j = true) ∧
      (P ≠ [] → KwValid defs (.properties P) j ∧ (R ≠ [] → KwValid defs (.required R) j)) := by
  rw [valid_iff_kws]
  cases hi : c.inh with
  | nil =>
    cases P with
    | nil => simp [bodyKws, hi]
    | cons a as =>
      cases R with
      | nil => simp [bodyKws, hi]
      | cons r rs => simp [bodyKws, hi]
  | cons i is =>
    cases P with
    | nil => simp [bodyKws, hi]
    | cons a as =>
      cases R with
      | nil => simp [bodyKws, hi]
      | cons r rs => simp [bodyKws, hi]

/-- what the body of a concrete leaf class demands of a JSON value -/
def BodyOK (c : Cls) (j : Json) : Prop :=
  (c.inh = [] → ∃ kvs, j = .obj kvs) ∧
  ∀ kvs, j = .obj kvs →
    (∀ p ∈ c.props, p.own = true → p.optional = false → hasKey p.name kvs = true) ∧
    (c.withModelType = true → ∀ v, lookup modelTypeKey kvs = some v → v = .str c.mt) ∧
    (c.withModelType = true → c.inh.any (·.withModelType) = false → hasKey modelTypeKey kvs = true) ∧
    (∀ p ∈ c.props, ∀ v, lookup p.name kvs = some v → PropOK defs p v)

theorem defineProps_ok_all (ps : List Prp) : ∀ (acc res : List (Text × Schema)),
    defineProps ps acc = .ok res → ∀ p ∈ ps, ∃ o, defineProp p = .ok o := by
  induction ps with
  | nil => intro _ _ _ p hp; cases hp
  | cons q qs ih =>
    intro acc res h p hp
    simp only [defineProps] at h
    cases hq : defineProp q with
    | error e => simp [hq] at h
    | ok o =>
      rcases List.mem_cons.mp hp with rfl | hp'
      · exact ⟨o, hq⟩
      · cases o with
        | none => simp only [hq] at h; exact ih _ _ h p hp'
        | some sq => simp only [hq] at h; exact ih _ _ h p hp'

theorem name_unique : ∀ (l : List Prp), (l.map (·.name)).Nodup → ∀ a ∈ l, ∀ b ∈ l, a.name = b.name → a = b := by
  intro l
  induction l with
  | nil => intro _ a ha; cases ha
  | cons x xs ih =>
    intro hn a ha b hb hab
    simp only [List.map_cons, List.nodup_cons] at hn
    rcases List.mem_cons.mp ha with rfl | ha'
    · rcases List.mem_cons.mp hb with rfl | hb'
      · rfl
      · exact absurd (List.mem_map.mpr ⟨b, hb', hab.symm⟩) hn.1
    · rcases List.mem_cons.mp hb with rfl | hb'
      · exact absurd (List.mem_map.mpr ⟨a, ha', hab⟩) hn.1
      · exact ih hn.2 a ha' b hb' hab

/-- an own property always gets an entry in `properties` -/
theorem own_defineProp_some {c : Cls} {props : List (Text × Schema)} (hp : defineProperties c = .ok props)
    (hnd : (c.props.map (·.name)).Nodup) {p : Prp} (hpm : p ∈ c.props) (hown : p.own = true) :
    ∃ sp, defineProp p = .ok (some sp) := by
  obtain ⟨o, ho⟩ := defineProps_ok_all c.props [] props hp p hpm
  cases o with
  | some sp => exact ⟨sp, ho⟩
  | none =>
    exfalso
    have ho' := ho
    unfold defineProp at ho
    simp only [hown, if_true] at ho
    cases hd : defineType p.ty with
    | error e => simp [hd] at ho
    | ok s' =>
      have h1 := own_property_defined hp hnd hpm hown hd
      rcases defineProps_entries c.props [] props hp p.name s' h1 with h2 | ⟨q, hq, hqn, hqd⟩
      · cases h2
      · have hqp : q = p := name_unique c.props hnd q hq p hpm hqn
        subst hqp
        rw [ho'] at hqd
        cases hqd

/-- **Exact reading of a concrete leaf definition** (C11 and C12 in one statement, one level of the
hierarchy): accepted iff every parent definition it references accepts and the body holds. -/
theorem concrete_leaf_iff {c : Cls} {k : Text} {s : Schema} (h : concreteDefinition c = .ok (k, s))
    (hleaf : c.cdesc = []) (hnd : (c.props.map (·.name)).Nodup)
    (hnm : ∀ p ∈ c.props, p.name ≠ modelTypeKey) (j : Json) :
    Valid defs s j ↔ (∀ i ∈ c.inh, Valid defs (refTo i.refName) j) ∧ BodyOK defs c j := by
  obtain ⟨props, hp, _, hs⟩ := concrete_leaf_shape h hleaf
  subst hs
  generalize hP : (if c.withModelType = true then setKey modelTypeKey (modelTypeConst c.mt) props else props) = P
  generalize hR : (if c.withModelType = true ∧ (!(c.inh.any (·.withModelType))) = true then
      requiredProps c ++ [modelTypeKey] else requiredProps c) = R
  rw [valid_wrapAllOf_iff defs (by simp)]
  -- entries of `P`
  have hPmem : ∀ pe ∈ P, (c.withModelType = true ∧ pe = (modelTypeKey, modelTypeConst c.mt)) ∨
      ∃ p ∈ c.props, p.name = pe.1 ∧ defineProp p = .ok (some pe.2) := by
    intro pe hpe
    obtain ⟨pk, psch⟩ := pe
    have hin : (pk, psch) ∈ props ∨ (c.withModelType = true ∧ (pk, psch) = (modelTypeKey, modelTypeConst c.mt)) := by
      rw [← hP] at hpe
      split at hpe
      · rename_i hw
        rcases mem_setKey_inv hpe with ⟨rfl, rfl⟩ | h'
        · exact Or.inr ⟨hw, rfl⟩
        · exact Or.inl h'
      · exact Or.inl hpe
    rcases hin with hin | hin
    · rcases defineProps_entries c.props [] props hp pk psch hin with h' | ⟨p, hpm, hn, hd⟩
      · cases h'
      · exact Or.inr ⟨p, hpm, hn, hd⟩
    · exact Or.inl hin
  have hPof : ∀ p ∈ c.props, ∀ sp, defineProp p = .ok (some sp) → (p.name, sp) ∈ P := by
    intro p hpm sp hd
    have := defineProps_mem c.props [] props p sp hp hpm hd hnd
    rw [← hP]
    split
    · exact mem_setKey_other this (Ne.symm (hnm p hpm))
    · exact this
  have hPmt : c.withModelType = true → (modelTypeKey, modelTypeConst c.mt) ∈ P := by
    intro hw; rw [← hP, if_pos hw]; exact mem_setKey_self _ _ _
  have hRmem : ∀ r, r ∈ R ↔ (∃ p ∈ c.props, p.own = true ∧ p.optional = false ∧ p.name = r) ∨
      (c.withModelType = true ∧ c.inh.any (·.withModelType) = false ∧ r = modelTypeKey) := by
    intro r
    rw [← hR]
    have hreq : r ∈ requiredProps c ↔ ∃ p ∈ c.props, p.own = true ∧ p.optional = false ∧ p.name = r := by
      simp only [requiredProps, List.mem_map, List.mem_filter, Bool.and_eq_true, Bool.not_eq_true']
      constructor
      · rintro ⟨p, ⟨hpm, ho, hopt⟩, rfl⟩; exact ⟨p, hpm, ho, hopt, rfl⟩
      · rintro ⟨p, hpm, ho, hopt, rfl⟩; exact ⟨p, ⟨hpm, ho, hopt⟩, rfl⟩
    split
    · rename_i hc
      simp only [List.mem_append, List.mem_singleton, hreq]
      constructor
      · rintro (h' | h')
        · exact Or.inl h'
        · exact Or.inr ⟨hc.1, by simpa using hc.2, h'⟩
      · rintro (h' | ⟨_, _, h'⟩)
        · exact Or.inl h'
        · exact Or.inr h'
    · rename_i hc
      rw [hreq]
      constructor
      · intro h'; exact Or.inl h'
      · rintro (h' | ⟨hw, hn, _⟩)
        · exact h'
        · exact absurd ⟨hw, by simpa using hn⟩ hc
  -- every required name has an entry in `P`, so `P = [] → R = []`
  have hRP : P = [] → R = [] := by
    intro hPnil
    cases hRc : R with
    | nil => rfl
    | cons r rs =>
      exfalso
      have hr : r ∈ R := by rw [hRc]; exact List.mem_cons_self
      rcases (hRmem r).mp hr with ⟨p, hpm, hown, _, _⟩ | ⟨hw, _, _⟩
      · obtain ⟨sp, ho⟩ := own_defineProp_some hp hnd hpm hown
        have := hPof p hpm sp ho; rw [hPnil] at this; cases this
      · have := hPmt hw; rw [hPnil] at this; cases this
  constructor
  · intro hall
    have hpar : ∀ i ∈ c.inh, Valid defs (refTo i.refName) j :=
      fun i hi => hall _ (List.mem_append_left _ (mem_inheritanceRefs hi))
    have hbody := hall _ (List.mem_append_right _ (List.mem_singleton.mpr rfl))
    rw [valid_body_iff] at hbody
    obtain ⟨hobj, hPR⟩ := hbody
    refine ⟨hpar, ?_, ?_⟩
    · intro hroot
      have := hobj hroot
      cases j <;> simp [hasType] at this
      exact ⟨_, rfl⟩
    · intro kvs hj
      subst hj
      have hprops : P ≠ [] → ∀ pe ∈ P, ∀ v, lookup pe.1 kvs = some v → Valid defs pe.2 v := by
        intro hne
        have := (hPR hne).1
        rw [kwv_properties] at this
        exact this kvs rfl
      have hreqs : ∀ r ∈ R, hasKey r kvs = true := by
        intro r hr
        have hne : R ≠ [] := by intro h0; rw [h0] at hr; cases hr
        have hPne : P ≠ [] := fun h0 => hne (hRP h0)
        have := (hPR hPne).2 hne
        rw [kwv_required] at this
        exact this kvs rfl r hr
      refine ⟨?_, ?_, ?_, ?_⟩
      · intro p hpm hown hopt
        exact hreqs _ ((hRmem _).mpr (Or.inl ⟨p, hpm, hown, hopt, rfl⟩))
      · intro hw v hl
        have hm := hPmt hw
        have hne : P ≠ [] := by intro h0; rw [h0] at hm; cases hm
        have := hprops hne _ hm v hl
        simpa [modelTypeConst, valid_iff_kws] using this
      · intro hw hn
        exact hreqs _ ((hRmem _).mpr (Or.inr ⟨hw, hn, rfl⟩))
      · intro p hpm v hl
        obtain ⟨o, ho⟩ := defineProps_ok_all c.props [] props hp p hpm
        cases o with
        | some sp =>
          have hm := hPof p hpm sp ho
          have hne : P ≠ [] := by intro h0; rw [h0] at hm; cases hm
          exact (defineProp_some_iff defs ho v).mp (hprops hne _ hm v hl)
        | none =>
          by_cases hown : p.own = true
          · obtain ⟨sp, hsp⟩ := own_defineProp_some hp hnd hpm hown
            rw [ho] at hsp
            cases hsp
          · exact defineProp_none_ok defs ho (by simpa using hown) v
  · rintro ⟨hpar, hobj, hbody⟩
    intro s' hs'
    rcases List.mem_append.mp hs' with hs' | hs'
    · unfold inheritanceRefs at hs'
      obtain ⟨i, hi, rfl⟩ := List.mem_map.mp hs'
      exact hpar i hi
    · simp only [List.mem_singleton] at hs'
      subst hs'
      rw [valid_body_iff]
      refine ⟨?_, ?_⟩
      · intro hroot
        obtain ⟨kvs, rfl⟩ := hobj hroot
        rfl
      · intro hPne
        constructor
        · rw [kwv_properties]
          intro kvs hj pe hpe v hl
          obtain ⟨_, hmt, _, hpo⟩ := hbody kvs hj
          rcases hPmem pe hpe with ⟨hw, rfl⟩ | ⟨p, hpm, hn, hd⟩
          · simp only at hl
            rw [hmt hw v hl]
            simp [modelTypeConst, valid_iff_kws]
          · rw [← hn] at hl
            exact (defineProp_some_iff defs hd v).mpr (hpo p hpm v hl)
        · intro _
          rw [kwv_required]
          intro kvs hj r hr
          obtain ⟨hreq, _, hmtk, _⟩ := hbody kvs hj
          rcases (hRmem r).mp hr with ⟨p, hpm, hown, hopt, rfl⟩ | ⟨hw, hn, rfl⟩
          · exact hreq p hpm hown hopt
          · exact hmtk hw hn

end AasVerif.JsonSchema
