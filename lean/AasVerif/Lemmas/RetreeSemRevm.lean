import AasVerif.Model.Retree.Sem
/-!
Helper lemmas about the denotational semantics of the regex tree (`Model/Retree/Sem.lean`) that
the correctness proof of the regex VM compiler (`Lemmas/RevmSem*.lean`) needs.

* `Rep` — a plain (non-mutual) copy of `MRep` over an arbitrary body language, so that the
  `induction` tactic is available; `MRep_iff_Rep`.
* `Rep2` — the same without the `pre` context (body language `Text → Text → Prop` on
  (matched part, rest)); unfolding lemmas; conversions from/to `Rep`.
* inversion lemmas for `MTerms` (cons, append), `MUnion`, `MTerm`, `MValue`.
-/
namespace AasVerif.Retree

/-! ## `Rep`: `MRep` over an abstract body language -/

inductive Rep (P : Text → Text → Text → Prop) : Nat → Option Nat → Text → Text → Text → Prop where
  | done (max : Option Nat) (pre post : Text) : Rep P 0 max pre [] post
  | more (min : Nat) (max : Option Nat) (pre s₁ s₂ post : Text) :
      max ≠ some 0 →
      P pre s₁ (s₂ ++ post) →
      Rep P (min - 1) (decMax max) (pre ++ s₁) s₂ post →
      Rep P min max pre (s₁ ++ s₂) post

theorem MRep.toRep {v : Value} {mn : Nat} {mx : Option Nat} {pre s post : Text}
    (h : MRep v mn mx pre s post) : Rep (MValue v) mn mx pre s post :=
  MRep.rec
    (motive_1 := fun _ _ _ _ _ => True)
    (motive_2 := fun v mn mx pre s post _ => Rep (MValue v) mn mx pre s post)
    (motive_3 := fun _ _ _ _ _ => True)
    (motive_4 := fun _ _ _ _ _ => True)
    (motive_5 := fun _ _ _ _ _ => True)
    (fun _ _ _ => trivial) (fun _ _ _ _ _ _ => trivial) (fun _ _ _ _ => trivial)
    (fun _ => trivial) (fun _ => trivial) (fun _ => trivial) (fun _ _ _ _ _ _ => trivial)
    (fun _ mx pre post => Rep.done mx pre post)
    (fun _ mn mx pre s₁ s₂ post hmx hv _ _ ih => Rep.more mn mx pre s₁ s₂ post hmx hv ih)
    (fun _ _ _ _ _ _ => trivial) (fun _ _ _ _ _ _ _ => trivial)
    (fun _ _ => trivial) (fun _ _ _ _ _ _ _ _ _ _ => trivial)
    (fun _ _ _ _ _ _ _ _ => trivial)
    h

theorem Rep.toMRep {v : Value} {mn : Nat} {mx : Option Nat} {pre s post : Text}
    (h : Rep (MValue v) mn mx pre s post) : MRep v mn mx pre s post := by
  induction h with
  | done mx pre post => exact MRep.done v mx pre post
  | more mn mx pre s₁ s₂ post hmx hv _ ih => exact MRep.more v mn mx pre s₁ s₂ post hmx hv ih

theorem MRep_iff_Rep (v : Value) (mn : Nat) (mx : Option Nat) (pre s post : Text) :
    MRep v mn mx pre s post ↔ Rep (MValue v) mn mx pre s post :=
  ⟨MRep.toRep, Rep.toMRep⟩

/-! ## `Rep2`: repetition of a context-free body language on (matched part, rest) -/

inductive Rep2 (P : Text → Text → Prop) : Nat → Option Nat → Text → Text → Prop where
  | done (max : Option Nat) (post : Text) : Rep2 P 0 max [] post
  | more (min : Nat) (max : Option Nat) (s₁ s₂ post : Text) :
      max ≠ some 0 →
      P s₁ (s₂ ++ post) →
      Rep2 P (min - 1) (decMax max) s₂ post →
      Rep2 P min max (s₁ ++ s₂) post

/-- A repetition in some context is a context-free repetition of "the body matches in some context". -/
theorem Rep.toRep2 {P : Text → Text → Text → Prop} {mn : Nat} {mx : Option Nat} {pre s post : Text}
    (h : Rep P mn mx pre s post) : Rep2 (fun u y => ∃ pre, P pre u y) mn mx s post := by
  induction h with
  | done mx pre post => exact Rep2.done mx post
  | more mn mx pre s₁ s₂ post hmx hv _ ih => exact Rep2.more mn mx s₁ s₂ post hmx ⟨pre, hv⟩ ih

/-- A context-free repetition of "the body matches in every context" is a repetition in every context. -/
theorem Rep2.toRep {P : Text → Text → Text → Prop} {mn : Nat} {mx : Option Nat} {s post : Text}
    (h : Rep2 (fun u y => ∀ pre, P pre u y) mn mx s post) : ∀ pre, Rep P mn mx pre s post := by
  induction h with
  | done mx post => exact fun pre => Rep.done mx pre post
  | more mn mx s₁ s₂ post hmx hv _ ih =>
    exact fun pre => Rep.more mn mx pre s₁ s₂ post hmx (hv pre) (ih (pre ++ s₁))

theorem MRep.toRep2 {v : Value} {mn : Nat} {mx : Option Nat} {pre s post : Text}
    (h : MRep v mn mx pre s post) : Rep2 (fun u y => ∃ pre, MValue v pre u y) mn mx s post :=
  h.toRep.toRep2

theorem Rep2.toMRep {v : Value} {mn : Nat} {mx : Option Nat} {s post : Text}
    (h : Rep2 (fun u y => ∀ pre, MValue v pre u y) mn mx s post) (pre : Text) :
    MRep v mn mx pre s post :=
  (h.toRep pre).toMRep

theorem decMax_map_succ (mx : Option Nat) : decMax (mx.map (· + 1)) = mx := by
  cases mx <;> simp [decMax]

theorem map_succ_ne_zero (mx : Option Nat) : mx.map (· + 1) ≠ some 0 := by
  cases mx <;> simp

namespace Rep2
variable {P : Text → Text → Prop}

theorem mono {Q : Text → Text → Prop} (hPQ : ∀ u y, P u y → Q u y) {mn mx u y}
    (h : Rep2 P mn mx u y) : Rep2 Q mn mx u y := by
  induction h with
  | done mx post => exact .done mx post
  | more mn mx s₁ s₂ post hmx hv _ ih => exact .more mn mx s₁ s₂ post hmx (hPQ _ _ hv) ih

/-- The lower bound may be weakened. -/
theorem min_le {mn mx u y} (h : Rep2 P mn mx u y) : ∀ mn', mn' ≤ mn → Rep2 P mn' mx u y := by
  induction h with
  | done mx post =>
    intro mn' h'
    have : mn' = 0 := by omega
    subst this
    exact .done mx post
  | more mn mx s₁ s₂ post hmx hv _ ih =>
    intro mn' h'
    exact .more mn' mx s₁ s₂ post hmx hv (ih (mn' - 1) (by omega))

/-- one more mandatory repetition in front -/
theorem succ {mn mx s₁ s₂ y} (h₁ : P s₁ (s₂ ++ y)) (h₂ : Rep2 P mn mx s₂ y) :
    Rep2 P (mn + 1) (mx.map (· + 1)) (s₁ ++ s₂) y :=
  .more (mn + 1) _ s₁ s₂ y (map_succ_ne_zero mx) h₁ (by simpa [decMax_map_succ] using h₂)

theorem succ_iff {mn mx u y} :
    Rep2 P (mn + 1) (mx.map (· + 1)) u y ↔
      ∃ s₁ s₂, u = s₁ ++ s₂ ∧ P s₁ (s₂ ++ y) ∧ Rep2 P mn mx s₂ y := by
  constructor
  · intro h
    generalize hm : mn + 1 = m at h
    generalize hx : mx.map (· + 1) = x at h
    cases h with
    | done => omega
    | more _ _ s₁ s₂ _ hmx hv hr =>
      subst hm hx
      exact ⟨s₁, s₂, rfl, hv, by simpa [decMax_map_succ] using hr⟩
  · rintro ⟨s₁, s₂, rfl, h₁, h₂⟩
    exact succ h₁ h₂

/-- `{0,k+1}`: nothing, or once followed by `{0,k}` -/
theorem zero_some_succ_iff {k u y} :
    Rep2 P 0 (some (k + 1)) u y ↔
      u = [] ∨ ∃ s₁ s₂, u = s₁ ++ s₂ ∧ P s₁ (s₂ ++ y) ∧ Rep2 P 0 (some k) s₂ y := by
  constructor
  · intro h
    generalize hm : (0 : Nat) = m at h
    generalize hx : some (k + 1) = x at h
    cases h with
    | done => exact .inl rfl
    | more _ _ s₁ s₂ _ hmx hv hr =>
      subst hm hx
      exact .inr ⟨s₁, s₂, rfl, hv, by simpa [decMax] using hr⟩
  · rintro (rfl | ⟨s₁, s₂, rfl, h₁, h₂⟩)
    · exact .done _ _
    · exact .more 0 _ s₁ s₂ y (by simp) h₁ (by simpa [decMax] using h₂)

/-- `{0,0}`: nothing -/
theorem zero_some_zero_iff {u y} : Rep2 P 0 (some 0) u y ↔ u = [] := by
  constructor
  · intro h
    generalize hx : some 0 = x at h
    generalize hm : (0 : Nat) = m at h
    cases h with
    | done => rfl
    | more _ _ s₁ s₂ _ hmx hv hr => exact absurd hx.symm hmx
  · rintro rfl
    exact .done _ _

/-- `*`: nothing, or once followed by `*` -/
theorem star_iff {u y} :
    Rep2 P 0 none u y ↔ u = [] ∨ ∃ s₁ s₂, u = s₁ ++ s₂ ∧ P s₁ (s₂ ++ y) ∧ Rep2 P 0 none s₂ y := by
  constructor
  · intro h
    generalize hm : (0 : Nat) = m at h
    generalize hx : (none : Option Nat) = x at h
    cases h with
    | done => exact .inl rfl
    | more _ _ s₁ s₂ _ hmx hv hr =>
      subst hm hx
      exact .inr ⟨s₁, s₂, rfl, hv, by simpa [decMax] using hr⟩
  · rintro (rfl | ⟨s₁, s₂, rfl, h₁, h₂⟩)
    · exact .done _ _
    · exact .more 0 _ s₁ s₂ y (by simp) h₁ (by simpa [decMax] using h₂)

/-- `{1,1}`: exactly once -/
theorem one_one_iff {u y} : Rep2 P 1 (some 1) u y ↔ P u y := by
  have h := @succ_iff P 0 (some 0) u y
  simp only [Option.map_some, Nat.zero_add] at h
  rw [h]
  constructor
  · rintro ⟨s₁, s₂, rfl, h₁, h₂⟩
    rw [zero_some_zero_iff] at h₂
    subst h₂
    simpa using h₁
  · intro h
    exact ⟨u, [], by simp, by simpa using h, .done _ _⟩

end Rep2

/-! ## Inversion lemmas for the mutual family (indices generalised for `cases`) -/

theorem MTerms_nil_iff {pre s post : Text} : MTerms [] pre s post ↔ s = [] := by
  constructor
  · intro h
    cases h
    rfl
  · rintro rfl
    exact .nil pre post

theorem MTerms_cons_iff {t : Term} {ts : List Term} {pre s post : Text} :
    MTerms (t :: ts) pre s post ↔
      ∃ s₁ s₂, s = s₁ ++ s₂ ∧ MTerm t pre s₁ (s₂ ++ post) ∧ MTerms ts (pre ++ s₁) s₂ post := by
  constructor
  · intro h
    cases h with
    | cons _ _ _ s₁ s₂ _ h₁ h₂ => exact ⟨s₁, s₂, rfl, h₁, h₂⟩
  · rintro ⟨s₁, s₂, rfl, h₁, h₂⟩
    exact .cons t ts pre s₁ s₂ post h₁ h₂

theorem MTerms_append_iff {as bs : List Term} {pre s post : Text} :
    MTerms (as ++ bs) pre s post ↔
      ∃ s₁ s₂, s = s₁ ++ s₂ ∧ MTerms as pre s₁ (s₂ ++ post) ∧ MTerms bs (pre ++ s₁) s₂ post := by
  induction as generalizing pre s with
  | nil =>
    constructor
    · intro h
      exact ⟨[], s, rfl, .nil _ _, by simpa using h⟩
    · rintro ⟨s₁, s₂, rfl, h₁, h₂⟩
      rw [MTerms_nil_iff] at h₁
      subst h₁
      simpa using h₂
  | cons a as ih =>
    rw [List.cons_append, MTerms_cons_iff]
    constructor
    · rintro ⟨s₁, s₂, rfl, h₁, h₂⟩
      rw [ih] at h₂
      obtain ⟨t₁, t₂, rfl, h₃, h₄⟩ := h₂
      refine ⟨s₁ ++ t₁, t₂, by simp, ?_, by simpa using h₄⟩
      rw [MTerms_cons_iff]
      exact ⟨s₁, t₁, rfl, by simpa using h₁, h₃⟩
    · rintro ⟨s₁, s₂, rfl, h₁, h₂⟩
      rw [MTerms_cons_iff] at h₁
      obtain ⟨t₁, t₂, rfl, h₃, h₄⟩ := h₁
      refine ⟨t₁, t₂ ++ s₂, by simp, by simpa using h₃, ?_⟩
      rw [ih]
      exact ⟨t₂, s₂, rfl, h₄, by simpa using h₂⟩

theorem MUnion_iff {us : List Concat} {pre s post : Text} :
    MUnion (.mk us) pre s post ↔ ∃ ts, Concat.mk ts ∈ us ∧ MTerms ts pre s post := by
  constructor
  · intro h
    cases h with
    | mk _ ts _ _ _ hmem hts => exact ⟨ts, hmem, hts⟩
  · rintro ⟨ts, hmem, hts⟩
    exact .mk us ts pre s post hmem hts

theorem MTerm_plain_iff {v : Value} {pre s post : Text} :
    MTerm (.mk v none) pre s post ↔ MValue v pre s post := by
  constructor
  · intro h
    cases h with
    | plain _ _ _ _ hv => exact hv
  · exact .plain v pre s post

theorem MTerm_quant_iff {v : Value} {q : Quant} {pre s post : Text} :
    MTerm (.mk v (some q)) pre s post ↔ MRep v q.min q.max pre s post := by
  constructor
  · intro h
    cases h with
    | quant _ _ _ _ _ hv => exact hv
  · exact .quant v q pre s post

theorem MValue_group_iff {u : Union} {pre s post : Text} :
    MValue (.group u) pre s post ↔ MUnion u pre s post := by
  constructor
  · intro h
    cases h with
    | group _ _ _ _ hu => exact hu
  · exact .group u pre s post

theorem MValue_char_iff {c : Chr} {pre s post : Text} :
    MValue (.char c) pre s post ↔ s = [c.code] := by
  constructor
  · intro h
    cases h
    rfl
  · rintro rfl
    exact .char c pre post

theorem MValue_set_iff {compl : Bool} {rs : List Rng} {pre s post : Text} :
    MValue (.set compl rs) pre s post ↔ ∃ c, s = [c] ∧ setAccepts compl rs c = true := by
  constructor
  · intro h
    cases h with
    | set _ _ c _ _ hc => exact ⟨c, rfl, hc⟩
  · rintro ⟨c, rfl, hc⟩
    exact .set compl rs c pre post hc

theorem MValue_dot_iff {pre s post : Text} :
    MValue (.sym .dot) pre s post ↔ ∃ c, s = [c] ∧ c ≠ 10 := by
  constructor
  · intro h
    cases h with
    | dot c _ _ hc => exact ⟨c, rfl, hc⟩
  · rintro ⟨c, rfl, hc⟩
    exact .dot c pre post hc

theorem MValue_stop_iff {pre s post : Text} :
    MValue (.sym .stop) pre s post ↔ s = [] ∧ (post = [] ∨ post = [10]) := by
  constructor
  · intro h
    cases h with
    | stopEnd => exact ⟨rfl, .inl rfl⟩
    | stopNl => exact ⟨rfl, .inr rfl⟩
  · rintro ⟨rfl, rfl | rfl⟩
    · exact .stopEnd pre
    · exact .stopNl pre

theorem MValue_start_iff {pre s post : Text} :
    MValue (.sym .start) pre s post ↔ pre = [] ∧ s = [] := by
  constructor
  · intro h
    cases h
    exact ⟨rfl, rfl⟩
  · rintro ⟨rfl, rfl⟩
    exact .start post

end AasVerif.Retree
