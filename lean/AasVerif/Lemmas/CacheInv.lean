import AasVerif.Lemmas.CacheStep
namespace AasVerif.Cache

/-- the skeleton is accepted by the static checker for both values of the flag -/
def SafeSkeleton (ops : List GOp) : Prop :=
  ∀ flag, Safe .running none .none false false false false (program ops flag) = true

/-- the global invariant -/
structure WF (cfg : Cfg) (s : St) : Prop where
  inv : Inv cfg s.fs
  tmpBound : ∀ h u c, s.fs (.tmp h u) = some c → u < s.n
  procBound : ∀ i p, s.procs i = some p → i < s.n
  pure : ∀ i p, s.procs i = some p → Pure cfg i p
  own : ∀ i p, s.procs i = some p → OwnTmp cfg s.fs i p

theorem WF_init (cfg : Cfg) : WF cfg St.init := by
  refine ⟨?_, ?_, ?_, ?_, ?_⟩
  · intro h c hc; simp [St.init] at hc
  · intro h u c hc; simp [St.init] at hc
  · intro i p hp; simp [St.init] at hp
  · intro i p hp; simp [St.init] at hp
  · intro i p hp; simp [St.init] at hp

theorem WF_update (cfg : Cfg) (s s' : St) (i : Nat) (p0 p1 : Proc) (h : WF cfg s)
    (hp0 : s.procs i = some p0) (hn : s'.n = s.n) (hprocs : s'.procs = setProc s i p1)
    (_htext : p1.text = p0.text) (hpure : Pure cfg i p1) (hframe : Frame cfg i p0.text s.fs s'.fs)
    (hown : OwnTmp cfg s'.fs i p1) : WF cfg s' := by
  have hi : i < s.n := h.procBound i p0 hp0
  refine ⟨?_, ?_, ?_, ?_, ?_⟩
  · intro hh c hc
    rcases hframe (.final hh) with hf | hf | ⟨hf, c', hc', h1, h2, h3⟩
    · rw [hf] at hc; exact h.inv hh c hc
    · simp [tmpOf] at hf
    · rw [hc'] at hc
      injection hc with hc
      subst hc
      simp only [finalOf, Path.final.injEq] at hf
      exact ⟨h1, by rw [h2, hf], by rw [h2]; exact h3⟩
  · intro hh u c hc
    rw [hn]
    rcases hframe (.tmp hh u) with hf | hf | ⟨hf, _⟩
    · rw [hf] at hc; exact h.tmpBound hh u c hc
    · simp only [tmpOf, Path.tmp.injEq] at hf
      rw [hf.2]; exact hi
    · simp [finalOf] at hf
  · intro j p hj
    rw [hn]
    rw [hprocs] at hj
    unfold setProc at hj
    split at hj
    · next hji => rw [hji]; exact hi
    · exact h.procBound j p hj
  · intro j p hj
    rw [hprocs] at hj
    unfold setProc at hj
    split at hj
    · next hji => injection hj with hj; subst hj; subst hji; exact hpure
    · exact h.pure j p hj
  · intro j p hj
    rw [hprocs] at hj
    unfold setProc at hj
    split at hj
    · next hji => injection hj with hj; subst hj; subst hji; exact hown
    · next hji =>
      intro c hc
      rcases hframe (tmpOf cfg j p.text) with hf | hf | ⟨hf, _⟩
      · rw [hf] at hc; exact h.own j p hj c hc
      · simp only [tmpOf, Path.tmp.injEq] at hf
        exact absurd hf.2 hji
      · simp [finalOf, tmpOf] at hf

theorem OwnTmp_settle (cfg : Cfg) (fs : FS) (i : Nat) (p : Proc) (h : OwnTmp cfg fs i p) :
    OwnTmp cfg fs i (settle p) := by
  intro c hc
  rw [settle_text] at hc
  rw [settle_text, settle_tc]
  exact h c hc

theorem step_WF (cfg : Cfg) (hinj : ∀ a b, cfg.hash a = cfg.hash b → a = b) (hsafe : SafeSkeleton cfg.ops)
    (s : St) (ev : Event) (h : WF cfg s) : WF cfg (step cfg s ev) := by
  cases ev with
  | spawn text flag =>
    simp only [step]
    refine ⟨h.inv, ?_, ?_, ?_, ?_⟩
    · intro hh u c hc
      exact Nat.lt_succ_of_lt (h.tmpBound hh u c hc)
    · intro j p hj
      simp only [setProc] at hj
      split at hj
      · next hji => rw [hji]; exact Nat.lt_succ_self _
      · exact Nat.lt_succ_of_lt (h.procBound j p hj)
    · intro j p hj
      simp only [setProc] at hj
      split at hj
      · next hji =>
        injection hj with hj; subst hj; subst hji
        unfold spawnProc
        apply Pure_settle
        refine ⟨?_, ?_, ?_, ?_, ?_, ?_, ?_⟩
        · intro _; exact hsafe flag
        · intro q d hqd; simp at hqd
        · intro q hqd; simp at hqd
        · intro hc; simp at hc
        · intro c hc; simp at hc
        · intro c hc; simp at hc
        · intro o ho; simp at ho
      · exact h.pure j p hj
    · intro j p hj
      simp only [setProc] at hj
      split at hj
      · next hji =>
        injection hj with hj; subst hj; subst hji
        intro c hc
        have := h.tmpBound _ _ c hc
        exact absurd this (Nat.lt_irrefl _)
      · exact h.own j p hj
  | step i =>
    simp only [step]
    split
    · exact h
    · next p0 hp0 =>
      split
      · exact h
      · next g rest htodo =>
        have hP := h.pure i p0 hp0
        have hO := h.own i p0 hp0
        split
        · next e he =>
          obtain ⟨hf, hpp, ho, ht⟩ := exec_ok cfg hinj i p0 g rest s.fs s.dir e h.inv hP hO htodo he
          exact WF_update cfg s _ i p0 (settle e.p) h hp0 rfl rfl (by rw [settle_text]; exact ht)
            (Pure_settle cfg i e.p hpp) hf (OwnTmp_settle cfg _ i e.p ho)
        · obtain ⟨hf, hpp, ho, ht⟩ := raise_ok cfg i p0 g rest s.fs hP hO htodo
          exact WF_update cfg s _ i p0 (settle (raise { p0 with todo := rest } s.fs g).1) h hp0 rfl rfl
            (by rw [settle_text]; exact ht) (Pure_settle cfg i _ hpp) hf (OwnTmp_settle cfg _ i _ ho)
  | exc i =>
    simp only [step]
    split
    · exact h
    · next p0 hp0 =>
      split
      · exact h
      · next g rest htodo =>
        have hP := h.pure i p0 hp0
        have hO := h.own i p0 hp0
        obtain ⟨hf, hpp, ho, ht⟩ := raise_ok cfg i p0 g rest s.fs hP hO htodo
        exact WF_update cfg s _ i p0 (settle { (raise { p0 with todo := rest } s.fs g).1 with faulted := true }) h hp0 rfl rfl
          (by rw [settle_text]; exact ht)
          (Pure_settle cfg i _ ⟨hpp.safe, hpp.handle, hpp.dumped, hpp.comp, hpp.rh, hpp.loaded, hpp.outcome⟩) hf
          (OwnTmp_settle cfg _ i _ ho)
  | kill i =>
    simp only [step]
    split
    · exact h
    · next p0 hp0 =>
      split
      · exact h
      · next g rest htodo =>
        have hP := h.pure i p0 hp0
        have hO := h.own i p0 hp0
        refine WF_update cfg s _ i p0 { p0 with todo := [], mode := .finished .killed, w := none, faulted := true } h hp0 rfl rfl rfl
          ?_ (Frame_refl _ _ _ _) hO
        refine ⟨⟨?_, ?_, ?_, hP.comp, hP.rh, hP.loaded, ?_⟩, ?_⟩
        · intro hh; exact absurd rfl (hh _)
        · intro q d hqd; simp at hqd
        · intro q hqd; simp at hqd
        · intro o ho
          simp only [Mode.finished.injEq] at ho
          right; right; exact ho.symm
        · exact ⟨by intro g rest hg; simp at hg, by intro _ _; rfl⟩

theorem run_WF (cfg : Cfg) (hinj : ∀ a b, cfg.hash a = cfg.hash b → a = b) (hsafe : SafeSkeleton cfg.ops)
    (sched : List Event) (s : St) (h : WF cfg s) : WF cfg (run cfg sched s) := by
  induction sched generalizing s with
  | nil => exact h
  | cons ev rest ih => exact ih (step cfg s ev) (step_WF cfg hinj hsafe s ev h)

end AasVerif.Cache
