import AasVerif.Model.JsonSchemaClosed
/-!
C11a: every `$ref` the generator writes names a definition it writes.

`clsRefs`/`clsKeys` compute, from the INPUT, which names a class's definitions reference and which
definitions the class contributes; `classDefinitions_spec` shows the generator's output stays
within them.  `generate_refs_resolve` then needs, as its only hypothesis, that on the input every
referenced name is a contributed one (`RefsClosed`, decidable, evaluated by the driver on every
correspondence input).
-/
namespace AasVerif.JsonSchema
open AasVerif AasVerif.Retree

/-! ## membership in the `refs…` lists -/

@[simp] theorem refsKws_nil : refsKws [] = [] := by simp [refsKws]
@[simp] theorem refsKws_cons (k : Kw) (ks : List Kw) : refsKws (k :: ks) = refsKw k ++ refsKws ks := by
  simp [refsKws]
@[simp] theorem refsSchema_mk (ks : List Kw) : refsSchema (.mk ks) = refsKws ks := by simp [refsSchema]
@[simp] theorem refsSchemas_nil : refsSchemas [] = [] := by simp [refsSchemas]
@[simp] theorem refsSchemas_cons (s : Schema) (ss : List Schema) :
    refsSchemas (s :: ss) = refsSchema s ++ refsSchemas ss := by simp [refsSchemas]
@[simp] theorem refsProps_nil : refsProps [] = [] := by simp [refsProps]
@[simp] theorem refsProps_cons (k : Text) (s : Schema) (ps : List (Text × Schema)) :
    refsProps ((k, s) :: ps) = refsSchema s ++ refsProps ps := by simp [refsProps]

theorem refsKws_append (a b : List Kw) : refsKws (a ++ b) = refsKws a ++ refsKws b := by
  induction a with
  | nil => simp
  | cons k ks ih => simp [ih]

theorem refsSchemas_append (a b : List Schema) : refsSchemas (a ++ b) = refsSchemas a ++ refsSchemas b := by
  induction a with
  | nil => simp
  | cons k ks ih => simp [ih]

theorem refsDefs_append (a b : Defs) : refsDefs (a ++ b) = refsDefs a ++ refsDefs b := by
  induction a with
  | nil => simp [refsDefs]
  | cons k ks ih => obtain ⟨k, s⟩ := k; simp [refsDefs, ih]

theorem refsDefs_eq_refsProps (d : Defs) : refsDefs d = refsProps d := by
  induction d with
  | nil => simp [refsDefs]
  | cons k ks ih => obtain ⟨k, s⟩ := k; simp [refsDefs, ih]

theorem mem_refsProps {r : Text} {ps : List (Text × Schema)} :
    r ∈ refsProps ps ↔ ∃ p ∈ ps, r ∈ refsSchema p.2 := by
  induction ps with
  | nil => simp
  | cons p ps ih => obtain ⟨k, s⟩ := p; simp [ih]

theorem mem_refsSchemas {r : Text} {ss : List Schema} :
    r ∈ refsSchemas ss ↔ ∃ s ∈ ss, r ∈ refsSchema s := by
  induction ss with
  | nil => simp
  | cons s ss ih => simp [ih]

@[simp] theorem refsKw_leaf_type (t : JType) : refsKw (.type t) = [] := by simp [refsKw]
@[simp] theorem refsKw_ref (n : Text) : refsKw (.ref n) = [n] := by simp [refsKw]
@[simp] theorem refsKw_props (ps : List (Text × Schema)) : refsKw (.properties ps) = refsProps ps := by
  simp [refsKw]
@[simp] theorem refsKw_items (s : Schema) : refsKw (.items s) = refsSchema s := by simp [refsKw]
@[simp] theorem refsKw_allOf (ss : List Schema) : refsKw (.allOf ss) = refsSchemas ss := by simp [refsKw]
@[simp] theorem refsKw_oneOf (ss : List Schema) : refsKw (.oneOf ss) = refsSchemas ss := by simp [refsKw]
@[simp] theorem refsKw_required (rs : List Text) : refsKw (.required rs) = [] := by simp [refsKw]
@[simp] theorem refsKw_const (c : Text) : refsKw (.const c) = [] := by simp [refsKw]
@[simp] theorem refsKw_enum (c : List Text) : refsKw (.enum c) = [] := by simp [refsKw]
@[simp] theorem refsKw_minLength (c : Int) : refsKw (.minLength c) = [] := by simp [refsKw]
@[simp] theorem refsKw_maxLength (c : Int) : refsKw (.maxLength c) = [] := by simp [refsKw]
@[simp] theorem refsKw_minItems (c : Int) : refsKw (.minItems c) = [] := by simp [refsKw]
@[simp] theorem refsKw_maxItems (c : Int) : refsKw (.maxItems c) = [] := by simp [refsKw]
@[simp] theorem refsKw_pattern (c : Regex) : refsKw (.pattern c) = [] := by simp [refsKw]
@[simp] theorem refsKw_contentEncoding (c : Text) : refsKw (.contentEncoding c) = [] := by simp [refsKw]

@[simp] theorem refsSchema_refTo (n : Text) : refsSchema (refTo n) = [n] := by simp [refTo]

/-! ## the translated constraints reference nothing -/

theorem refs_optKw (f : Int → Kw) (hf : ∀ n, refsKw (f n) = []) (o : Option Int) : refsKws (optKw f o) = [] := by
  cases o <;> simp [optKw, hf]

theorem refs_lenKws (p : Prim) (l : LenC) : refsKws (lenKws p l) = [] := by
  simp [lenKws, refsKws_append, refs_optKw]

theorem refs_lenPart (sh : Shape) (cs : Cons) : refsKws (lenPart sh cs) = [] := by
  unfold lenPart
  split <;> simp [refs_lenKws]

theorem refs_itemsPart (sh : Shape) (cs : Cons) : refsKws (itemsPart sh cs) = [] := by
  unfold itemsPart
  split <;> simp [refsKws_append, refs_optKw]

theorem refs_patPart (pats : List Regex) : refsKws (patPart pats) = [] := by
  cases pats <;> simp [patPart]

theorem refs_additionalOf (pats : List Regex) : refsSchemas (additionalOf pats) = [] := by
  unfold additionalOf
  induction pats.drop 1 with
  | nil => simp
  | cons r rs ih => simp [ih]

theorem refs_translate {sh : Shape} {cs : Cons} {base : List Kw} {add : List Schema}
    (h : translate sh cs = .ok (some (base, add))) : refsKws base = [] ∧ refsSchemas add = [] := by
  unfold translate at h
  cases hp : patsOf sh cs with
  | error c => simp [hp] at h
  | ok pats =>
    simp only [hp] at h
    split at h
    · cases h
    · split at h
      · cases h
      · simp only [Except.ok.injEq, Option.some.injEq, Prod.mk.injEq] at h
        obtain ⟨rfl, rfl⟩ := h
        simp [refsKws_append, refs_lenPart, refs_itemsPart, refs_patPart, refs_additionalOf]

theorem refs_allOfMapping (base : List Kw) (add : List Schema) :
    refsSchema (allOfMapping base add) = refsKws base ++ refsSchemas add := by
  unfold allOfMapping
  split
  · rename_i h
    have : add = [] := by simpa [List.isEmpty_iff] using h
    subst this; simp
  · simp [refsKws_append]

/-! ## names a type annotation references -/

theorem refs_defineType (τ : TA) : ∀ s, defineType τ = .ok s → refsSchema s = taRefs τ := by
  induction τ with
  | enum mt => intro s h; simp only [defineType, Except.ok.injEq] at h; subst h; simp [taRefs]
  | cls mt ch => intro s h; simp only [defineType, Except.ok.injEq] at h; subst h; simp [taRefs]
  | prim p cs =>
    intro s h
    simp only [defineType] at h
    cases hjt : primType p with
    | none => simp [hjt] at h
    | some jt =>
      simp only [hjt] at h
      have hd : refsKws (Kw.type jt :: (if p = Prim.bytes then [Kw.contentEncoding (ascii "base64")] else [])) = [] := by
        split <;> simp
      cases cs with
      | none => simp only [Except.ok.injEq] at h; subst h; simp [taRefs, hd]
      | some c =>
        simp only at h
        cases ht : translate (.prim p) c with
        | error e => simp [ht] at h
        | ok o =>
          cases o with
          | none => simp only [ht, Except.ok.injEq] at h; subst h; simp [taRefs, hd]
          | some ba =>
            obtain ⟨base, add⟩ := ba
            simp only [ht, Except.ok.injEq] at h
            subst h
            obtain ⟨h1, h2⟩ := refs_translate ht
            rw [refs_allOfMapping, refsKws_append, hd, h1, h2]
            simp [taRefs]
  | list items cs ih =>
    intro s h
    simp only [defineType] at h
    cases hi : defineType items with
    | error e => simp [hi] at h
    | ok itemsDef =>
      simp only [hi] at h
      have hd : refsKws [Kw.type .array, Kw.items itemsDef] = taRefs items := by
        simp [ih itemsDef hi]
      cases cs with
      | none => simp only [Except.ok.injEq] at h; subst h; simp [taRefs, ih itemsDef hi]
      | some c =>
        simp only at h
        cases ht : translate .list c with
        | error e => simp [ht] at h
        | ok o =>
          cases o with
          | none => simp only [ht, Except.ok.injEq] at h; subst h; simp [taRefs, ih itemsDef hi]
          | some ba =>
            obtain ⟨base, add⟩ := ba
            simp only [ht, Except.ok.injEq] at h
            subst h
            obtain ⟨h1, h2⟩ := refs_translate ht
            rw [refs_allOfMapping, refsKws_append, hd, h1, h2]
            simp [taRefs]

/-! ## properties -/

theorem refs_defineProp {p : Prp} {o : Option Schema} (h : defineProp p = .ok o) :
    ∀ s, o = some s → ∀ r ∈ refsSchema s, p.own = true ∧ r ∈ taRefs p.ty := by
  intro s hs r hr
  subst hs
  unfold defineProp at h
  split at h
  · rename_i hown
    cases hd : defineType p.ty with
    | error e => simp [hd] at h
    | ok s' =>
      simp only [hd, Except.ok.injEq] at h
      split at h
      · cases h
      · simp only [Option.some.injEq] at h
        subst h
        rw [refs_defineType _ _ hd] at hr
        exact ⟨hown, hr⟩
  · cases hc : p.ty.cons with
    | none => simp [hc] at h
    | some cs =>
      simp only [hc] at h
      cases ht : tightenAll cs p.parents with
      | error e => simp [ht] at h
      | ok t =>
        simp only [ht] at h
        cases hr' : translate p.ty.shape t with
        | error e => simp [hr'] at h
        | ok o' =>
          cases o' with
          | none => simp [hr'] at h
          | some ba =>
            obtain ⟨base, add⟩ := ba
            simp only [hr', Except.ok.injEq, Option.some.injEq] at h
            subst h
            obtain ⟨h1, h2⟩ := refs_translate hr'
            rw [refs_allOfMapping, h1, h2] at hr
            cases hr

theorem mem_refsProps_setKey {r k : Text} {s : Schema} {acc : List (Text × Schema)}
    (h : r ∈ refsProps (setKey k s acc)) : r ∈ refsSchema s ∨ r ∈ refsProps acc := by
  induction acc with
  | nil => simpa [setKey] using h
  | cons a acc ih =>
    obtain ⟨k', s'⟩ := a
    simp only [setKey] at h
    split at h
    · simp only [refsProps_cons, List.mem_append] at h ⊢
      rcases h with h | h
      · exact Or.inl h
      · exact Or.inr (Or.inr h)
    · simp only [refsProps_cons, List.mem_append] at h ⊢
      rcases h with h | h
      · exact Or.inr (Or.inl h)
      · rcases ih h with h | h
        · exact Or.inl h
        · exact Or.inr (Or.inr h)

theorem refs_defineProps (ps : List Prp) : ∀ acc res, defineProps ps acc = .ok res →
    ∀ r ∈ refsProps res, r ∈ refsProps acc ∨ r ∈ propRefs ps := by
  induction ps with
  | nil => intro acc res h r hr; simp only [defineProps, Except.ok.injEq] at h; subst h; exact Or.inl hr
  | cons p ps ih =>
    intro acc res h r hr
    simp only [defineProps] at h
    cases hp : defineProp p with
    | error e => simp [hp] at h
    | ok o =>
      cases o with
      | none =>
        simp only [hp] at h
        rcases ih acc res h r hr with h' | h'
        · exact Or.inl h'
        · exact Or.inr (by simp only [propRefs, List.flatMap_cons, List.mem_append]; exact Or.inr h')
      | some s =>
        simp only [hp] at h
        rcases ih _ res h r hr with h' | h'
        · rcases mem_refsProps_setKey h' with h'' | h''
          · obtain ⟨hown, hm⟩ := refs_defineProp hp s rfl r h''
            exact Or.inr (by simp only [propRefs, List.flatMap_cons, List.mem_append, hown, if_true]; exact Or.inl hm)
          · exact Or.inl h''
        · exact Or.inr (by simp only [propRefs, List.flatMap_cons, List.mem_append]; exact Or.inr h')

theorem refs_defineProperties {c : Cls} {res : List (Text × Schema)} (h : defineProperties c = .ok res) :
    ∀ r ∈ refsProps res, r ∈ propRefs c.props := by
  intro r hr
  rcases refs_defineProps c.props [] res h r hr with h' | h'
  · simp at h'
  · exact h'

/-! ## what a class contributes and references (computed from the input) -/

theorem refs_inheritanceRefs (c : Cls) : refsSchemas (inheritanceRefs c) = inhNames c := by
  unfold inheritanceRefs inhNames
  induction c.inh with
  | nil => simp
  | cons i is ih => simp [ih]

theorem refs_wrapAllOf (ss : List Schema) : refsSchema (wrapAllOf ss) = refsSchemas ss := by
  unfold wrapAllOf
  split <;> simp

theorem refs_bodyKws (c : Cls) (props : List (Text × Schema)) (req : List Text) :
    ∀ r ∈ refsKws (bodyKws c props req), r ∈ refsProps props := by
  intro r hr
  unfold bodyKws at hr
  rw [refsKws_append] at hr
  rcases List.mem_append.mp hr with h | h
  · split at h <;> simp at h
  · split at h
    · simp at h
    · split at h <;> simpa using h

theorem ite_nil_or {α : Type} (b : Prop) [Decidable b] (x : α) :
    (if b then [] else [x]) = ([] : List α) ∨ (if b then [] else [x]) = [x] := by
  split <;> simp

/-- references of a class body wrapped with the inheritance references -/
theorem refs_classBody (c : Cls) (props' : List (Text × Schema)) (req' : List Text) (X : List Schema)
    (hX : X = [] ∨ X = [.mk (bodyKws c props' req')]) :
    ∀ r ∈ refsSchema (wrapAllOf (inheritanceRefs c ++ X)), r ∈ inhNames c ∨ r ∈ refsProps props' := by
  intro r hr
  rw [refs_wrapAllOf, refsSchemas_append, refs_inheritanceRefs] at hr
  rcases List.mem_append.mp hr with h' | h'
  · exact Or.inl h'
  · rcases hX with rfl | rfl
    · simp at h'
    · simp only [refsSchemas_cons, refsSchema_mk, refsSchemas_nil, List.append_nil] at h'
      exact Or.inr (refs_bodyKws c _ _ r h')

theorem refs_inheritable {c : Cls} {k : Text} {s : Schema} (h : inheritableDefinition c = .ok (k, s)) :
    k = (if c.abstract then c.mt else sfx c.mt "_abstract") ∧
    ∀ r ∈ refsSchema s, r ∈ bodyRefs c ++ [modelTypeName] := by
  unfold inheritableDefinition at h
  cases hp : defineProperties c with
  | error e => simp [hp] at h
  | ok props =>
    simp only [hp] at h
    generalize (c.withModelType && !(c.inh.any (·.withModelType))) = w at h
    by_cases hbad : (w = true ∧ hasKey modelTypeKey props = true)
    · rw [if_pos hbad] at h; cases h
    · rw [if_neg hbad] at h
      simp only [Except.ok.injEq, Prod.mk.injEq] at h
      obtain ⟨hk, hs⟩ := h
      refine ⟨hk.symm, ?_⟩
      subst hs
      intro r hr
      have := refs_classBody c _ _ _ (ite_nil_or _ _) r hr
      simp only [List.mem_append, bodyRefs, List.mem_singleton]
      rcases this with h' | h'
      · exact Or.inl (Or.inl h')
      · cases w with
        | false => exact Or.inl (Or.inr (refs_defineProperties hp r (by simpa using h')))
        | true =>
          simp only [if_true] at h'
          rcases mem_refsProps_setKey h' with h'' | h''
          · simp only [refsSchema_refTo, List.mem_singleton] at h''
            exact Or.inr h''
          · exact Or.inl (Or.inr (refs_defineProperties hp r h''))

theorem refs_choice (c : Cls) :
    (choiceDefinition c).1 = sfx c.mt "_choice" ∧
    refsSchema (choiceDefinition c).2 = (if c.abstract then [] else [c.mt]) ++ c.cdesc := by
  refine ⟨rfl, ?_⟩
  simp only [choiceDefinition, refsSchema_mk, refsKws_cons, refsKw_oneOf, refsKws_nil, List.append_nil,
    refsSchemas_append]
  congr 1
  · split <;> simp
  · induction c.cdesc with
    | nil => simp
    | cons d ds ih => simp [ih]

theorem refs_concrete {c : Cls} {k : Text} {s : Schema} (h : concreteDefinition c = .ok (k, s)) :
    k = c.mt ∧
    ∀ r ∈ refsSchema s, r ∈ (if !c.cdesc.isEmpty then [sfx c.mt "_abstract"] else bodyRefs c) := by
  unfold concreteDefinition at h
  by_cases hcd : (!c.cdesc.isEmpty) = true
  · rw [if_pos hcd] at h
    by_cases hw : (!c.withModelType) = true
    · rw [if_pos hw] at h; cases h
    · rw [if_neg hw] at h
      simp only [Except.ok.injEq, Prod.mk.injEq] at h
      obtain ⟨hk, hs⟩ := h
      refine ⟨hk.symm, ?_⟩
      subst hs
      intro r hr
      rw [if_pos hcd]
      simpa [modelTypeConst] using hr
  · rw [if_neg hcd] at h
    cases hp : defineProperties c with
    | error e => simp [hp] at h
    | ok props =>
      simp only [hp, Except.ok.injEq, Prod.mk.injEq] at h
      obtain ⟨hk, hs⟩ := h
      refine ⟨hk.symm, ?_⟩
      subst hs
      intro r hr
      rw [if_neg hcd]
      have := refs_classBody c _ _ [_] (Or.inr rfl) r hr
      simp only [bodyRefs, List.mem_append]
      rcases this with h' | h'
      · exact Or.inl h'
      · cases hwm : c.withModelType with
        | false =>
          simp only [hwm, Bool.false_eq_true, if_false] at h'
          exact Or.inr (refs_defineProperties hp r h')
        | true =>
          simp only [hwm, if_true] at h'
          rcases mem_refsProps_setKey h' with h'' | h''
          · simp [modelTypeConst] at h''
          · exact Or.inr (refs_defineProperties hp r h'')

/-- **what `classDefinitions` writes**: exactly the keys `clsKeys`, only references in `clsRefs` -/
theorem classDefinitions_spec {inProps : List Text} {c : Cls} {ds : List (Text × Schema)}
    (h : classDefinitions inProps c = .ok ds) :
    ds.map (·.1) = clsKeys inProps c ∧ ∀ r ∈ refsProps ds, r ∈ clsRefs inProps c := by
  unfold classDefinitions at h
  cases hce : c.cdesc.isEmpty with
  | true =>
    simp only [hce, Bool.not_true, Bool.false_eq_true, if_false] at h
    cases hca : c.abstract with
    | true =>
      simp only [hca, if_true, Except.ok.injEq] at h
      subst h
      simp [clsKeys, clsRefs, hce, hca]
    | false =>
      simp only [hca, Bool.false_eq_true, if_false] at h
      cases hc : concreteDefinition c with
      | error e => simp [hc] at h
      | ok d =>
        obtain ⟨k, s⟩ := d
        simp only [hc, Except.ok.injEq, List.nil_append] at h
        subst h
        obtain ⟨hk, hr⟩ := refs_concrete hc
        refine ⟨by simp [clsKeys, hce, hca, hk], ?_⟩
        intro r hr'
        simp only [refsProps_cons, refsProps_nil, List.append_nil] at hr'
        have := hr r hr'
        simp only [hce, Bool.not_true, Bool.false_eq_true, if_false] at this
        simp [clsRefs, hce, hca, this]
  | false =>
    simp only [hce, Bool.not_false, if_true] at h
    cases hi : inheritableDefinition c with
    | error e => simp [hi] at h
    | ok d =>
      obtain ⟨ki, si⟩ := d
      simp only [hi] at h
      obtain ⟨hki, hri⟩ := refs_inheritable hi
      obtain ⟨hkc, hrc⟩ := refs_choice c
      generalize choiceDefinition c = cd at h hkc hrc
      obtain ⟨kc, sc⟩ := cd
      simp only at hkc hrc
      have hri' : ∀ r ∈ refsSchema si, r ∈ bodyRefs c ∨ r = modelTypeName := by
        intro r hr; simpa using hri r hr
      cases hca : c.abstract with
      | true =>
        simp only [hca, if_true, Bool.not_true, Bool.false_or, Except.ok.injEq] at h hki hrc
        subst h
        cases hin : inProps.contains c.mt with
        | true =>
          have hin' : c.mt ∈ inProps := by simpa using hin
          refine ⟨by simp [clsKeys, hce, hca, hasChoice, hin', hki, hkc], ?_⟩
          intro r hr'
          simp only [if_true, refsProps_cons, refsProps_nil, List.append_nil, List.mem_append, hrc,
            List.nil_append] at hr'
          simp only [clsRefs, hce, hca, hasChoice, hin, Bool.not_false, Bool.not_true, Bool.false_or,
            if_true, List.append_nil, List.mem_append, List.mem_singleton, List.nil_append]
          rcases hr' with h' | h'
          · exact Or.inl (hri' r h')
          · exact Or.inr (by simpa using h')
        | false =>
          have hin' : ¬ c.mt ∈ inProps := by simpa using hin
          refine ⟨by simp [clsKeys, hce, hca, hasChoice, hin', hki], ?_⟩
          intro r hr'
          simp only [Bool.false_eq_true, if_false, refsProps_cons, refsProps_nil, List.append_nil] at hr'
          simp only [clsRefs, hce, hca, hasChoice, hin, Bool.not_false, Bool.not_true, Bool.false_or,
            if_true, Bool.false_eq_true, if_false, List.append_nil, List.mem_append, List.mem_singleton]
          exact hri' r hr'
      | false =>
        simp only [hca, Bool.false_eq_true, if_false, Bool.not_false, Bool.true_or, if_true] at h hki hrc
        cases hc : concreteDefinition c with
        | error e => simp [hc] at h
        | ok d =>
          obtain ⟨k, s⟩ := d
          simp only [hc, Except.ok.injEq] at h
          subst h
          obtain ⟨hk, hr⟩ := refs_concrete hc
          refine ⟨by simp [clsKeys, hce, hca, hasChoice, hki, hkc, hk], ?_⟩
          intro r hr'
          simp only [List.cons_append, List.nil_append, refsProps_cons, refsProps_nil, List.append_nil,
            List.mem_append, hrc] at hr'
          simp only [clsRefs, hce, hca, hasChoice, Bool.not_false, Bool.true_or, if_true,
            Bool.false_eq_true, if_false, List.mem_append, List.mem_cons]
          have h1 := hri' r
          have h2 := hr r
          simp only [hce, Bool.not_false, if_true, List.mem_singleton] at h2
          grind

end AasVerif.JsonSchema
