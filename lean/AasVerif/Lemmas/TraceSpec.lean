import AasVerif.Model.EvalOrder
/-!
The trace of the source expression tells where its evaluation raises: when `Expr.eval` gives a
value no operation of the trace raised; when it gives an exception, the **last** operation of
the trace raised exactly that exception and no operation before it raised (`trace_spec`).
(For an expression without an empty `and` / `or`, which Python cannot write.)
-/
namespace AasVerif.Expr

/-- no operation raised -/
def Quiet (evs : List Ev) : Prop := ∀ ev ∈ evs, ev.raised = none

/-- The trace matches the outcome. -/
def TraceOK (evs : List Ev) (o : Out) : Prop :=
  match o with
  | .val _ => Quiet evs
  | e => ∃ init ev, evs = init ++ [ev] ∧ Quiet init ∧ ev.raised = some e

theorem quiet_nil : Quiet [] := fun _ h => by cases h

theorem quiet_append {a b : List Ev} (ha : Quiet a) (hb : Quiet b) : Quiet (a ++ b) := by
  intro ev h
  rcases List.mem_append.mp h with h | h
  · exact ha ev h
  · exact hb ev h

theorem quiet_cons {e : Ev} {b : List Ev} (he : e.raised = none) (hb : Quiet b) : Quiet (e :: b) := by
  intro ev h
  rcases List.mem_cons.mp h with h | h
  · exact h ▸ he
  · exact hb ev h

theorem traceOK_val {evs : List Ev} {v : Val} : TraceOK evs (.val v) ↔ Quiet evs := Iff.rfl

/-- a quiet prefix changes nothing -/
theorem ok_prefix {a b : List Ev} {o : Out} (ha : Quiet a) (hb : TraceOK b o) : TraceOK (a ++ b) o := by
  cases o with
  | val v => exact quiet_append ha hb
  | typeError =>
    obtain ⟨init, ev, h1, h2, h3⟩ := hb
    exact ⟨a ++ init, ev, by rw [h1, List.append_assoc], quiet_append ha h2, h3⟩
  | noneDeref =>
    obtain ⟨init, ev, h1, h2, h3⟩ := hb
    exact ⟨a ++ init, ev, by rw [h1, List.append_assoc], quiet_append ha h2, h3⟩
  | indexError =>
    obtain ⟨init, ev, h1, h2, h3⟩ := hb
    exact ⟨a ++ init, ev, by rw [h1, List.append_assoc], quiet_append ha h2, h3⟩
  | otherError =>
    obtain ⟨init, ev, h1, h2, h3⟩ := hb
    exact ⟨a ++ init, ev, by rw [h1, List.append_assoc], quiet_append ha h2, h3⟩

theorem ok_cons {e : Ev} {b : List Ev} {o : Out} (he : e.raised = none) (hb : TraceOK b o) : TraceOK (e :: b) o :=
  ok_prefix (a := [e]) (quiet_cons he quiet_nil) hb

/-- one operation whose exception is the exception of the outcome -/
theorem ok_single {ev : Ev} {o : Out} (h : ev.raised = errOf o) : TraceOK [ev] o := by
  cases o with
  | val v => exact quiet_cons h quiet_nil
  | typeError => exact ⟨[], ev, rfl, quiet_nil, h⟩
  | noneDeref => exact ⟨[], ev, rfl, quiet_nil, h⟩
  | indexError => exact ⟨[], ev, rfl, quiet_nil, h⟩
  | otherError => exact ⟨[], ev, rfl, quiet_nil, h⟩

/-- the operation raised `e` -/
theorem ok_raise {ev : Ev} {e : Out} (hne : ∀ v, e ≠ .val v) (h : ev.raised = some e) : TraceOK [ev] e := by
  cases e with
  | val v => exact absurd rfl (hne v)
  | typeError => exact ⟨[], ev, rfl, quiet_nil, h⟩
  | noneDeref => exact ⟨[], ev, rfl, quiet_nil, h⟩
  | indexError => exact ⟨[], ev, rfl, quiet_nil, h⟩
  | otherError => exact ⟨[], ev, rfl, quiet_nil, h⟩

-- no empty `and` / `or`
mutual
  def wfBool : Expr → Bool
    | .name _ | .const _ => true
    | .member e _ | .isNone e | .isNotNone e | .not e => wfBool e
    | .index a b | .cmp a _ b | .isIn a b | .impl a b | .add a b | .sub a b => wfBool a && wfBool b
    | .methodCall e _ args => wfBool e && wfBoolList args
    | .funCall _ args => wfBoolList args
    | .and es | .or es => !es.isEmpty && wfBoolList es
    | .joinedStr ps => wfBoolParts ps
    | .any g c | .all g c => wfBoolGen g && wfBool c
  def wfBoolList : List Expr → Bool
    | [] => true
    | e :: es => wfBool e && wfBoolList es
  def wfBoolParts : List JPart → Bool
    | [] => true
    | .lit _ :: ps => wfBoolParts ps
    | .fv e :: ps => wfBool e && wfBoolParts ps
  def wfBoolGen : Gen → Bool
    | .forEach _ it => wfBool it
    | .forRange _ a b => wfBool a && wfBool b
end

/-- the loop of `any` / `all` -/
theorem traceLoop_ok (fo : FloatOps) (isAny : Bool) (tr : Val → List Ev) (ev : Val → Out)
    (h : ∀ item, TraceOK (tr item) (ev item)) :
    ∀ items : List Val, TraceOK (traceLoop fo isAny tr ev items) (quantLoop fo isAny ev items)
  | [] => by simp only [traceLoop, quantLoop, Out.ofBool]; exact quiet_nil
  | x :: xs => by
    have hx := h x
    simp only [traceLoop, quantLoop]
    cases hv : ev x with
    | val v =>
      rw [hv] at hx
      simp only [onVal_val]
      split
      · simpa [Out.ofBool] using (traceOK_val (v := .bool isAny)).mpr (quiet_append hx quiet_nil)
      · exact ok_prefix hx (traceLoop_ok fo isAny tr ev h xs)
    | typeError => rw [hv] at hx; simpa [onVal] using hx
    | noneDeref => rw [hv] at hx; simpa [onVal] using hx
    | indexError => rw [hv] at hx; simpa [onVal] using hx
    | otherError => rw [hv] at hx; simpa [onVal] using hx

theorem traceRange_ok (fo : FloatOps) (isAny : Bool) (tr : Val → List Ev) (ev : Val → Out)
    (h : ∀ item, TraceOK (tr item) (ev item)) :
    ∀ (n : Nat) (start : Int), TraceOK (traceRange fo isAny tr ev start n) (rangeLoop fo isAny ev start n)
  | 0, _ => by simp only [traceRange, rangeLoop, Out.ofBool]; exact quiet_nil
  | n + 1, start => by
    have hx := h (.int start)
    simp only [traceRange, rangeLoop]
    cases hv : ev (.int start) with
    | val v =>
      rw [hv] at hx
      simp only [onVal_val]
      split
      · simpa [Out.ofBool] using (traceOK_val (v := .bool isAny)).mpr (quiet_append hx quiet_nil)
      · exact ok_prefix hx (traceRange_ok fo isAny tr ev h n (start + 1))
    | typeError => rw [hv] at hx; simpa [onVal] using hx
    | noneDeref => rw [hv] at hx; simpa [onVal] using hx
    | indexError => rw [hv] at hx; simpa [onVal] using hx
    | otherError => rw [hv] at hx; simpa [onVal] using hx

/-- an f-string evaluates to a string -/
theorem evalParts_str (ρ : Env) : ∀ (ps : List JPart) (v : Val), evalParts ρ ps = .val v → ∃ s, v = .str s
  | [], v, h => by simp only [evalParts, Out.val.injEq] at h; exact ⟨_, h.symm⟩
  | .lit s :: ps, v, h => by
    simp only [evalParts] at h
    cases hp : evalParts ρ ps with
    | val pv =>
      obtain ⟨r, rfl⟩ := evalParts_str ρ ps pv hp
      simp only [hp, Out.val.injEq] at h
      exact ⟨_, h.symm⟩
    | typeError => simp [hp] at h
    | noneDeref => simp [hp] at h
    | indexError => simp [hp] at h
    | otherError => simp [hp] at h
  | .fv e :: ps, v, h => by
    simp only [evalParts] at h
    cases he : eval ρ e with
    | val ev =>
      cases hf : fmtVal ρ ev with
      | val fv =>
        cases fv with
        | str t =>
          cases hp : evalParts ρ ps with
          | val pv =>
            obtain ⟨r, rfl⟩ := evalParts_str ρ ps pv hp
            simp only [he, hf, hp, Out.val.injEq] at h
            exact ⟨_, h.symm⟩
          | typeError => simp [he, hf, hp] at h
          | noneDeref => simp [he, hf, hp] at h
          | indexError => simp [he, hf, hp] at h
          | otherError => simp [he, hf, hp] at h
        | _ => simp [he, hf] at h
      | typeError => simp [he, hf] at h
      | noneDeref => simp [he, hf] at h
      | indexError => simp [he, hf] at h
      | otherError => simp [he, hf] at h
    | typeError => simp [he] at h
    | noneDeref => simp [he] at h
    | indexError => simp [he] at h
    | otherError => simp [he] at h

/-- the arguments of a call: quiet when all have a value, else the exception of the first that raises -/
def ArgsOK (evs : List Ev) : Args → Prop
  | .ok _ => Quiet evs
  | .err o => (∀ v, o ≠ .val v) ∧ TraceOK evs o

/-- the generator of an `any` / `all` -/
def GenOK (evs : List Ev) : GenRes → Prop
  | .err o => (∀ v, o ≠ .val v) ∧ TraceOK evs o
  | _ => Quiet evs

theorem errOf_of_ne {o : Out} (h : ∀ v, o ≠ .val v) : errOf o = some o := by
  cases o with
  | val v => exact absurd rfl (h v)
  | _ => rfl

/-- the outcome of a call once the arguments have been evaluated -/
def argsOut (f : List Val → Out) : Args → Out
  | .ok vs => f vs
  | .err o => o

theorem callEvents_ok {targs : List Ev} {args : Args} {mk : List Val → Ev} (f : List Val → Out)
    (ha : ArgsOK targs args) (hmk : ∀ vs, (mk vs).raised = errOf (f vs)) :
    TraceOK (callEvents targs args mk) (argsOut f args) := by
  cases args with
  | ok vs => exact ok_prefix ha (ok_single (hmk vs))
  | err o => simpa [callEvents, argsOut] using ha.2

/-- after the method has been found: the arguments, then the call -/
def methodRest (ρ : Env) (recv : Val) (n : Text) (args : Args) : Out :=
  match ρ.meths recv n with
  | none => .otherError
  | some f => argsOut f args

theorem method_ok (ρ : Env) (recv : Val) (n : Text) {targs : List Ev} {args : Args} {o : Out}
    (hm : methodEvents ρ recv n targs args =
      if (ρ.meths recv n).isSome then ⟨.getmeth recv n, none⟩ :: callEvents targs args (evCallMethod ρ recv n)
      else [⟨.getmeth recv n, some .otherError⟩])
    (ho : o = methodRest ρ recv n args) (ha : ArgsOK targs args) :
    TraceOK (methodEvents ρ recv n targs args) o := by
  rw [hm, ho]
  simp only [methodRest]
  cases hmeth : ρ.meths recv n with
  | none => simp only [Option.isSome_none, Bool.false_eq_true, if_false]; exact ok_raise (by simp) rfl
  | some f =>
    simp only [Option.isSome_some, if_true]
    exact ok_cons rfl (callEvents_ok f ha (fun vs => by simp only [evCallMethod, hmeth]))

/-- two operands left to right, then one value-level operation -/
theorem binary_ok (ρ : Env) (a b : Expr) (_ha : wfBool a = true) (_hb : wfBool b = true)
    (iha : TraceOK (trace ρ a) (eval ρ a)) (ihb : TraceOK (trace ρ b) (eval ρ b))
    (mk : Val → Val → Ev) (f : Val → Val → Out) (hmk : ∀ x y, (mk x y).raised = errOf (f x y))
    (t : List Ev) (o : Out)
    (ht : t = trace ρ a ++ onVal (eval ρ a) fun x => trace ρ b ++ onVal (eval ρ b) fun y => [mk x y])
    (ho : o = match eval ρ a with
      | .val x =>
        match eval ρ b with
        | .val y => f x y
        | err => err
      | err => err) : TraceOK t o := by
  subst ht; subst ho
  cases hea : eval ρ a with
  | val x =>
    rw [hea] at iha
    cases heb : eval ρ b with
    | val y => rw [heb] at ihb; exact ok_prefix iha (ok_prefix ihb (ok_single (hmk x y)))
    | typeError => rw [heb] at ihb; simpa [onVal] using ok_prefix iha ihb
    | noneDeref => rw [heb] at ihb; simpa [onVal] using ok_prefix iha ihb
    | indexError => rw [heb] at ihb; simpa [onVal] using ok_prefix iha ihb
    | otherError => rw [heb] at ihb; simpa [onVal] using ok_prefix iha ihb
  | typeError => rw [hea] at iha; simpa [onVal] using iha
  | noneDeref => rw [hea] at iha; simpa [onVal] using iha
  | indexError => rw [hea] at iha; simpa [onVal] using iha
  | otherError => rw [hea] at iha; simpa [onVal] using iha

mutual
  /-- **trace_spec.** -/
  theorem trace_spec : ∀ (e : Expr) (ρ : Env), wfBool e = true → TraceOK (trace ρ e) (eval ρ e)
    | .name x, ρ, _ => by
      simp only [trace, eval]
      refine ok_single ?_
      simp only [evLoad, loadOut]
      cases lookup x ρ.vars <;> rfl
    | .const c, ρ, _ => by simp only [trace, eval]; exact quiet_nil
    | .member e n, ρ, hw => by
      simp only [wfBool] at hw
      have ih := trace_spec e ρ hw
      cases he : eval ρ e with
      | val v =>
        rw [he] at ih
        simp only [trace, eval, he, onVal_val]
        refine ok_prefix ih (ok_single ?_)
        cases v <;> simp only [evGetattr, memberOut] <;> (try rfl)
        all_goals (split <;> rfl)
      | typeError => rw [he] at ih; simpa [trace, eval, he, onVal] using ih
      | noneDeref => rw [he] at ih; simpa [trace, eval, he, onVal] using ih
      | indexError => rw [he] at ih; simpa [trace, eval, he, onVal] using ih
      | otherError => rw [he] at ih; simpa [trace, eval, he, onVal] using ih
    | .index c i, ρ, hw => by
      simp only [wfBool, Bool.and_eq_true] at hw
      exact binary_ok ρ c i hw.1 hw.2 (trace_spec c ρ hw.1) (trace_spec i ρ hw.2) (fun cv iv => evIndex cv iv)
        (fun cv iv => indexVals cv iv) (fun _ _ => rfl) _ _ (by simp only [trace]) (by simp only [eval]; repeat' (first | rfl | split))
    | .cmp l op r, ρ, hw => by
      simp only [wfBool, Bool.and_eq_true] at hw
      exact binary_ok ρ l r hw.1 hw.2 (trace_spec l ρ hw.1) (trace_spec r ρ hw.2) (fun lv rv => evCmp ρ.fops op lv rv)
        (fun lv rv => cmpVals ρ.fops op lv rv) (fun _ _ => rfl) _ _ (by simp only [trace]) (by simp only [eval]; repeat' (first | rfl | split))
    | .isIn m c, ρ, hw => by
      simp only [wfBool, Bool.and_eq_true] at hw
      exact binary_ok ρ m c hw.1 hw.2 (trace_spec m ρ hw.1) (trace_spec c ρ hw.2) (fun lv rv => evIsIn ρ.fops lv rv)
        (fun lv rv => isInVals ρ.fops lv rv) (fun _ _ => rfl) _ _ (by simp only [trace]) (by simp only [eval]; repeat' (first | rfl | split))
    | .add l r, ρ, hw => by
      simp only [wfBool, Bool.and_eq_true] at hw
      exact binary_ok ρ l r hw.1 hw.2 (trace_spec l ρ hw.1) (trace_spec r ρ hw.2) (fun lv rv => evArith ρ.fops true lv rv)
        (fun lv rv => arithVals ρ.fops true lv rv) (fun _ _ => rfl) _ _ (by simp only [trace]) (by simp only [eval]; repeat' (first | rfl | split))
    | .sub l r, ρ, hw => by
      simp only [wfBool, Bool.and_eq_true] at hw
      exact binary_ok ρ l r hw.1 hw.2 (trace_spec l ρ hw.1) (trace_spec r ρ hw.2) (fun lv rv => evArith ρ.fops false lv rv)
        (fun lv rv => arithVals ρ.fops false lv rv) (fun _ _ => rfl) _ _ (by simp only [trace]) (by simp only [eval]; repeat' (first | rfl | split))
    | .impl a c, ρ, hw => by
      simp only [wfBool, Bool.and_eq_true] at hw
      have iha := trace_spec a ρ hw.1
      have ihc := trace_spec c ρ hw.2
      cases ha : eval ρ a with
      | val av =>
        rw [ha] at iha
        simp only [trace, eval, ha, onVal_val]
        split
        · exact ok_prefix iha ihc
        · simpa [Out.ofBool] using (traceOK_val (v := .bool true)).mpr (quiet_append iha quiet_nil)
      | typeError => rw [ha] at iha; simpa [trace, eval, ha, onVal] using iha
      | noneDeref => rw [ha] at iha; simpa [trace, eval, ha, onVal] using iha
      | indexError => rw [ha] at iha; simpa [trace, eval, ha, onVal] using iha
      | otherError => rw [ha] at iha; simpa [trace, eval, ha, onVal] using iha
    | .methodCall inst n args, ρ, hw => by
      simp only [wfBool, Bool.and_eq_true] at hw
      have ih := trace_spec inst ρ hw.1
      have iha := traceArgs_spec args ρ hw.2
      cases he : eval ρ inst with
      | val recv =>
        rw [he] at ih
        have hkey : TraceOK (methodEvents ρ recv n (traceArgs ρ args) (evalArgs ρ args))
            (eval ρ (.methodCall inst n args)) := by
          cases recv with
          | none => simp only [eval, he, methodEvents]; exact ok_raise (by simp) rfl
          | bool _ => exact method_ok ρ _ n rfl (by simp only [eval, he, methodRest, argsOut]; repeat' (first | rfl | split)) iha
          | int _ => exact method_ok ρ _ n rfl (by simp only [eval, he, methodRest, argsOut]; repeat' (first | rfl | split)) iha
          | float _ => exact method_ok ρ _ n rfl (by simp only [eval, he, methodRest, argsOut]; repeat' (first | rfl | split)) iha
          | str _ => exact method_ok ρ _ n rfl (by simp only [eval, he, methodRest, argsOut]; repeat' (first | rfl | split)) iha
          | bytes _ => exact method_ok ρ _ n rfl (by simp only [eval, he, methodRest, argsOut]; repeat' (first | rfl | split)) iha
          | list _ => exact method_ok ρ _ n rfl (by simp only [eval, he, methodRest, argsOut]; repeat' (first | rfl | split)) iha
          | enumLit _ _ => exact method_ok ρ _ n rfl (by simp only [eval, he, methodRest, argsOut]; repeat' (first | rfl | split)) iha
          | enumCls _ _ => exact method_ok ρ _ n rfl (by simp only [eval, he, methodRest, argsOut]; repeat' (first | rfl | split)) iha
          | inst _ _ _ => exact method_ok ρ _ n rfl (by simp only [eval, he, methodRest, argsOut]; repeat' (first | rfl | split)) iha
          | set _ => exact method_ok ρ _ n rfl (by simp only [eval, he, methodRest, argsOut]; repeat' (first | rfl | split)) iha
        simp only [trace, he, onVal_val]
        exact ok_prefix ih hkey
      | typeError => rw [he] at ih; simpa [trace, eval, he, onVal] using ih
      | noneDeref => rw [he] at ih; simpa [trace, eval, he, onVal] using ih
      | indexError => rw [he] at ih; simpa [trace, eval, he, onVal] using ih
      | otherError => rw [he] at ih; simpa [trace, eval, he, onVal] using ih
    | .funCall n args, ρ, hw => by
      simp only [wfBool] at hw
      have iha := traceArgs_spec args ρ hw
      simp only [trace, funEvents]
      by_cases hr : calleeResolves ρ n = true
      · simp only [hr, if_true]
        refine ok_cons rfl ?_
        have heq : eval ρ (.funCall n args) = argsOut (callOut ρ n) (evalArgs ρ args) := by
          simp only [eval, callOut, argsOut]
          cases hl : lookup n ρ.vars with
          | some v => cases evalArgs ρ args <;> rfl
          | none =>
            cases hf : ρ.funs n with
            | some f => cases evalArgs ρ args <;> rfl
            | none =>
              have hlen : n = [108, 101, 110] := by
                simpa [calleeResolves, hl, hf] using hr
              simp only [hlen, if_true]
              cases hargs : evalArgs ρ args with
              | err o => rfl
              | ok vs =>
                match vs with
                | [] => rfl
                | [v] => rfl
                | _ :: _ :: _ => rfl
        rw [heq]
        exact callEvents_ok _ iha (fun vs => rfl)
      · have hr' : calleeResolves ρ n = false := by simpa using hr
        simp only [hr', Bool.false_eq_true, if_false]
        have heq : eval ρ (.funCall n args) = .otherError := by
          simp only [calleeResolves, Bool.or_eq_false_iff, decide_eq_false_iff_not, Option.isSome_eq_false_iff,
            Option.isNone_iff_eq_none] at hr'
          simp only [eval, hr'.1.1, hr'.1.2, hr'.2, if_false]
        rw [heq]
        exact ok_raise (by simp) rfl
    | .isNone e, ρ, hw => by
      simp only [wfBool] at hw
      have ih := trace_spec e ρ hw
      simp only [trace, eval]
      cases he : eval ρ e with
      | val v => rw [he] at ih; cases v <;> exact ih
      | typeError => rw [he] at ih; exact ih
      | noneDeref => rw [he] at ih; exact ih
      | indexError => rw [he] at ih; exact ih
      | otherError => rw [he] at ih; exact ih
    | .isNotNone e, ρ, hw => by
      simp only [wfBool] at hw
      have ih := trace_spec e ρ hw
      simp only [trace, eval]
      cases he : eval ρ e with
      | val v => rw [he] at ih; cases v <;> exact ih
      | typeError => rw [he] at ih; exact ih
      | noneDeref => rw [he] at ih; exact ih
      | indexError => rw [he] at ih; exact ih
      | otherError => rw [he] at ih; exact ih
    | .not e, ρ, hw => by
      simp only [wfBool] at hw
      have ih := trace_spec e ρ hw
      simp only [trace, eval]
      cases he : eval ρ e with
      | val v => rw [he] at ih; exact ih
      | typeError => rw [he] at ih; exact ih
      | noneDeref => rw [he] at ih; exact ih
      | indexError => rw [he] at ih; exact ih
      | otherError => rw [he] at ih; exact ih
    | .and es, ρ, hw => by
      simp only [wfBool, Bool.and_eq_true, Bool.not_eq_eq_eq_not, Bool.not_true, List.isEmpty_eq_false_iff] at hw
      simp only [trace, eval]
      exact traceAnd_spec es ρ hw.1 hw.2
    | .or es, ρ, hw => by
      simp only [wfBool, Bool.and_eq_true, Bool.not_eq_eq_eq_not, Bool.not_true, List.isEmpty_eq_false_iff] at hw
      simp only [trace, eval]
      exact traceOr_spec es ρ hw.1 hw.2
    | .joinedStr ps, ρ, hw => by
      simp only [wfBool] at hw
      simp only [trace, eval]
      exact traceParts_spec ps ρ hw
    | .any g c, ρ, hw => by
      simp only [wfBool, Bool.and_eq_true] at hw
      have ihg := traceGen_spec g ρ hw.1
      simp only [trace, eval]
      cases hg : evalGen ρ g with
      | items x items =>
        rw [hg] at ihg
        exact ok_prefix ihg (traceLoop_ok _ _ _ _ (fun item => trace_spec c (ρ.bind x item) hw.2) items)
      | range x s n =>
        rw [hg] at ihg
        exact ok_prefix ihg (traceRange_ok _ _ _ _ (fun item => trace_spec c (ρ.bind x item) hw.2) n s)
      | err o => rw [hg] at ihg; simpa using ihg.2
    | .all g c, ρ, hw => by
      simp only [wfBool, Bool.and_eq_true] at hw
      have ihg := traceGen_spec g ρ hw.1
      simp only [trace, eval]
      cases hg : evalGen ρ g with
      | items x items =>
        rw [hg] at ihg
        exact ok_prefix ihg (traceLoop_ok _ _ _ _ (fun item => trace_spec c (ρ.bind x item) hw.2) items)
      | range x s n =>
        rw [hg] at ihg
        exact ok_prefix ihg (traceRange_ok _ _ _ _ (fun item => trace_spec c (ρ.bind x item) hw.2) n s)
      | err o => rw [hg] at ihg; simpa using ihg.2
  theorem traceGen_spec : ∀ (g : Gen) (ρ : Env), wfBoolGen g = true → GenOK (traceGen ρ g) (evalGen ρ g)
    | .forEach x it, ρ, hw => by
      simp only [wfBoolGen] at hw
      have ih := trace_spec it ρ hw
      simp only [traceGen, evalGen]
      cases he : eval ρ it with
      | val iv =>
        rw [he] at ih
        simp only [onVal_val]
        cases hit : iterItems iv with
        | some items => exact quiet_append ih (quiet_cons (by simp [evIter, hit]) quiet_nil)
        | none => exact ⟨by simp, ok_prefix ih (ok_raise (by simp) (by simp [evIter, hit]))⟩
      | typeError => rw [he] at ih; exact ⟨by simp, by simpa [onVal] using ih⟩
      | noneDeref => rw [he] at ih; exact ⟨by simp, by simpa [onVal] using ih⟩
      | indexError => rw [he] at ih; exact ⟨by simp, by simpa [onVal] using ih⟩
      | otherError => rw [he] at ih; exact ⟨by simp, by simpa [onVal] using ih⟩
    | .forRange x a b, ρ, hw => by
      simp only [wfBoolGen, Bool.and_eq_true] at hw
      have iha := trace_spec a ρ hw.1
      have ihb := trace_spec b ρ hw.2
      simp only [traceGen, evalGen]
      cases hea : eval ρ a with
      | val av =>
        rw [hea] at iha
        cases heb : eval ρ b with
        | val bv =>
          rw [heb] at ihb
          simp only [onVal_val]
          cases h1 : rangeArg av with
          | none => exact ⟨by simp, ok_prefix iha (ok_prefix ihb (ok_raise (by simp) (by simp [evRange, h1])))⟩
          | some s =>
            cases h2 : rangeArg bv with
            | none => exact ⟨by simp, ok_prefix iha (ok_prefix ihb (ok_raise (by simp) (by simp [evRange, h1, h2])))⟩
            | some e => exact quiet_append iha (quiet_append ihb (quiet_cons (by simp [evRange, h1, h2]) quiet_nil))
        | typeError => rw [heb] at ihb; exact ⟨by simp, by simpa [onVal] using ok_prefix iha ihb⟩
        | noneDeref => rw [heb] at ihb; exact ⟨by simp, by simpa [onVal] using ok_prefix iha ihb⟩
        | indexError => rw [heb] at ihb; exact ⟨by simp, by simpa [onVal] using ok_prefix iha ihb⟩
        | otherError => rw [heb] at ihb; exact ⟨by simp, by simpa [onVal] using ok_prefix iha ihb⟩
      | typeError => rw [hea] at iha; exact ⟨by simp, by simpa [onVal] using iha⟩
      | noneDeref => rw [hea] at iha; exact ⟨by simp, by simpa [onVal] using iha⟩
      | indexError => rw [hea] at iha; exact ⟨by simp, by simpa [onVal] using iha⟩
      | otherError => rw [hea] at iha; exact ⟨by simp, by simpa [onVal] using iha⟩
  theorem traceAnd_spec : ∀ (es : List Expr) (ρ : Env), es ≠ [] → wfBoolList es = true →
      TraceOK (traceAnd ρ es) (evalAnd ρ es)
    | [], _, hne, _ => absurd rfl hne
    | [e], ρ, _, hw => by
      simp only [wfBoolList, Bool.and_true] at hw
      simp only [traceAnd, evalAnd]
      exact trace_spec e ρ hw
    | e :: e2 :: es, ρ, _, hw => by
      simp only [wfBoolList, Bool.and_eq_true] at hw
      have ih := trace_spec e ρ hw.1
      have ihr := traceAnd_spec (e2 :: es) ρ (by simp) (by simp [wfBoolList, hw.2.1, hw.2.2])
      simp only [traceAnd, evalAnd]
      cases he : eval ρ e with
      | val v =>
        rw [he] at ih
        simp only [onVal_val]
        split
        · exact ok_prefix ih ihr
        · exact quiet_append ih quiet_nil
      | typeError => rw [he] at ih; simpa [onVal] using ih
      | noneDeref => rw [he] at ih; simpa [onVal] using ih
      | indexError => rw [he] at ih; simpa [onVal] using ih
      | otherError => rw [he] at ih; simpa [onVal] using ih
  theorem traceOr_spec : ∀ (es : List Expr) (ρ : Env), es ≠ [] → wfBoolList es = true →
      TraceOK (traceOr ρ es) (evalOr ρ es)
    | [], _, hne, _ => absurd rfl hne
    | [e], ρ, _, hw => by
      simp only [wfBoolList, Bool.and_true] at hw
      simp only [traceOr, evalOr]
      exact trace_spec e ρ hw
    | e :: e2 :: es, ρ, _, hw => by
      simp only [wfBoolList, Bool.and_eq_true] at hw
      have ih := trace_spec e ρ hw.1
      have ihr := traceOr_spec (e2 :: es) ρ (by simp) (by simp [wfBoolList, hw.2.1, hw.2.2])
      simp only [traceOr, evalOr]
      cases he : eval ρ e with
      | val v =>
        rw [he] at ih
        simp only [onVal_val]
        split
        · exact quiet_append ih quiet_nil
        · exact ok_prefix ih ihr
      | typeError => rw [he] at ih; simpa [onVal] using ih
      | noneDeref => rw [he] at ih; simpa [onVal] using ih
      | indexError => rw [he] at ih; simpa [onVal] using ih
      | otherError => rw [he] at ih; simpa [onVal] using ih
  theorem traceArgs_spec : ∀ (es : List Expr) (ρ : Env), wfBoolList es = true →
      ArgsOK (traceArgs ρ es) (evalArgs ρ es)
    | [], _, _ => by simp only [traceArgs, evalArgs]; exact quiet_nil
    | e :: es, ρ, hw => by
      simp only [wfBoolList, Bool.and_eq_true] at hw
      have ih := trace_spec e ρ hw.1
      have ihr := traceArgs_spec es ρ hw.2
      simp only [traceArgs, evalArgs]
      cases he : eval ρ e with
      | val v =>
        rw [he] at ih
        simp only [onVal_val]
        cases hes : evalArgs ρ es with
        | ok vs => rw [hes] at ihr; exact quiet_append ih ihr
        | err o => rw [hes] at ihr; exact ⟨ihr.1, ok_prefix ih ihr.2⟩
      | typeError => rw [he] at ih; exact ⟨by simp, by simpa [onVal] using ih⟩
      | noneDeref => rw [he] at ih; exact ⟨by simp, by simpa [onVal] using ih⟩
      | indexError => rw [he] at ih; exact ⟨by simp, by simpa [onVal] using ih⟩
      | otherError => rw [he] at ih; exact ⟨by simp, by simpa [onVal] using ih⟩
  theorem traceParts_spec : ∀ (ps : List JPart) (ρ : Env), wfBoolParts ps = true →
      TraceOK (traceParts ρ ps) (evalParts ρ ps)
    | [], _, _ => by simp only [traceParts, evalParts]; exact quiet_nil
    | .lit s :: ps, ρ, hw => by
      simp only [wfBoolParts] at hw
      have ih := traceParts_spec ps ρ hw
      simp only [traceParts, evalParts]
      cases hp : evalParts ρ ps with
      | val v =>
        obtain ⟨r, hr⟩ := evalParts_str ρ ps v hp
        subst hr
        rw [hp] at ih
        exact ih
      | typeError => rw [hp] at ih; exact ih
      | noneDeref => rw [hp] at ih; exact ih
      | indexError => rw [hp] at ih; exact ih
      | otherError => rw [hp] at ih; exact ih
    | .fv e :: ps, ρ, hw => by
      simp only [wfBoolParts, Bool.and_eq_true] at hw
      have ih := trace_spec e ρ hw.1
      have ihr := traceParts_spec ps ρ hw.2
      simp only [traceParts, evalParts]
      cases he : eval ρ e with
      | val v =>
        rw [he] at ih
        simp only [onVal_val]
        refine ok_prefix ih ?_
        cases hf : fmtVal ρ v with
        | val fv =>
          cases fv with
          | str t =>
            refine ok_cons (by simp [evFmt, hf]) ?_
            cases hp : evalParts ρ ps with
            | val pv =>
              obtain ⟨r, hr⟩ := evalParts_str ρ ps pv hp
              subst hr
              rw [hp] at ihr
              exact ihr
            | typeError => rw [hp] at ihr; exact ihr
            | noneDeref => rw [hp] at ihr; exact ihr
            | indexError => rw [hp] at ihr; exact ihr
            | otherError => rw [hp] at ihr; exact ihr
          | _ => exact ok_raise (by simp) (by simp [evFmt, hf])
        | typeError => exact ok_raise (by simp) (by simp [evFmt, hf])
        | noneDeref => exact ok_raise (by simp) (by simp [evFmt, hf])
        | indexError => exact ok_raise (by simp) (by simp [evFmt, hf])
        | otherError => exact ok_raise (by simp) (by simp [evFmt, hf])
      | typeError => rw [he] at ih; simpa [onVal] using ih
      | noneDeref => rw [he] at ih; simpa [onVal] using ih
      | indexError => rw [he] at ih; simpa [onVal] using ih
      | otherError => rw [he] at ih; simpa [onVal] using ih
end

end AasVerif.Expr
