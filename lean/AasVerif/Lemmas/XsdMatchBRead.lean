import AasVerif.Lemmas.XsdMatchB
/-!
An invariant of the reader of XSD regular expressions: `XsdRe.read` never produces a `Value.sym`
node (no `^`, no `$`, and the wildcard is the set `[^\n\r]`, not the Python dot).  These are the
trees for which the executable matcher `matchB` is complete (`Lemmas/XsdMatchB.lean`), so on every
tree the driver ever matches with, `matchB` decides `Matches`.
-/
namespace AasVerif.XsdPattern
open AasVerif AasVerif.Retree
namespace XsdRe

theorem nsTerms_append (a b : List Term) : nsTerms (a ++ b) = (nsTerms a && nsTerms b) := by
  induction a with
  | nil => simp [nsTerms]
  | cons t ts ih =>
    obtain ⟨v, q⟩ := t
    simp only [List.cons_append, nsTerms, ih, Bool.and_assoc]

theorem nsConcats_append (a b : List Concat) : nsConcats (a ++ b) = (nsConcats a && nsConcats b) := by
  induction a with
  | nil => simp [nsConcats]
  | cons t ts ih =>
    obtain ⟨ts'⟩ := t
    simp only [List.cons_append, nsConcats, ih, Bool.and_assoc]

def nsPend : Option Value → Bool
  | none => true
  | some v => nsValue v

def nsFrame (f : Frame) : Bool := nsConcats f.alts && nsTerms f.pieces

/-- the invariant of the reader's state: no `sym` node in the pending atom, the open frame or the stack -/
def nsSt (st : St) : Bool := nsPend st.pend && nsFrame st.cur && st.stack.all nsFrame

theorem nsFrame_flush {p : Option Value} {f : Frame} (hp : nsPend p = true) (hf : nsFrame f = true) :
    nsFrame (flush p f) = true := by
  cases p with
  | none => exact hf
  | some v =>
    simp only [nsFrame, Bool.and_eq_true] at hf
    simp only [flush, nsFrame, nsTerms_append, nsTerms, Bool.and_true, Bool.and_eq_true]
    exact ⟨hf.1, hf.2, hp⟩

theorem nsUnion_of_frame {f : Frame} (hf : nsFrame f = true) : nsUnion f.union = true := by
  simp only [nsFrame, Bool.and_eq_true] at hf
  simp only [Frame.union, nsUnion, nsConcats_append, nsConcats, Bool.and_true, Bool.and_eq_true]
  exact hf

theorem nsSt_atom {st : St} {v : Value} (hst : nsSt st = true) (hv : nsValue v = true) :
    nsSt (atom st v) = true := by
  simp only [nsSt, Bool.and_eq_true] at hst
  simp only [atom, nsSt, nsPend, Bool.and_eq_true]
  exact ⟨⟨hv, nsFrame_flush hst.1.1 hst.1.2⟩, hst.2⟩

theorem nsSt_applyQuant {st st' : St} {q : Quant} (hst : nsSt st = true) (h : applyQuant st q = .ok st') :
    nsSt st' = true := by
  simp only [nsSt, Bool.and_eq_true] at hst
  unfold applyQuant at h
  split at h
  · next v hv =>
    injection h with h
    subst h
    have hp : nsValue v = true := by have := hst.1.1; rw [hv] at this; exact this
    have hf := hst.1.2
    simp only [nsFrame, Bool.and_eq_true] at hf
    simp only [nsSt, nsPend, nsFrame, nsTerms_append, nsTerms, Bool.and_true, Bool.and_eq_true, Bool.true_and]
    exact ⟨⟨hf.1, hf.2, hp⟩, hst.2⟩
  · cases h

theorem nsSt_mode {st : St} (m : Mode) (hst : nsSt st = true) : nsSt { st with mode := m } = true := hst

theorem nsValue_dotSet : nsValue dotSet = true := rfl

theorem nsValue_clsClose {k : Cls} {v : Value} (h : clsClose k = .ok v) : nsValue v = true := by
  unfold clsClose at h
  simp only at h
  repeat' split at h
  all_goals first | (injection h with h; subst h; rfl) | cases h

theorem step_ns {st st' : St} {c : Nat} (hst : nsSt st = true) (h : step st c = .ok st') :
    nsSt st' = true := by
  have hst' := hst
  simp only [nsSt, Bool.and_eq_true] at hst'
  obtain ⟨⟨hp, hc⟩, hs⟩ := hst'
  have hfl := nsFrame_flush hp hc
  unfold step at h
  cases hm : st.mode with
  | normal =>
    rw [hm] at h
    simp only at h
    by_cases h1 : c = 92
    · rw [if_pos h1] at h; injection h with h; subst h
      simp only [nsSt, nsPend, Bool.true_and, Bool.and_eq_true]; exact ⟨hfl, hs⟩
    rw [if_neg h1] at h
    by_cases h2 : c = 40
    · rw [if_pos h2] at h; injection h with h; subst h
      simp only [nsSt, nsPend, List.all_cons, Bool.true_and, Bool.and_eq_true]
      exact ⟨rfl, hfl, hs⟩
    rw [if_neg h2] at h
    by_cases h3 : c = 41
    · rw [if_pos h3] at h
      cases hstk : st.stack with
      | nil => rw [hstk] at h; cases h
      | cons p ps =>
        rw [hstk] at h
        injection h with h; subst h
        rw [hstk, List.all_cons, Bool.and_eq_true] at hs
        simp only [nsSt, nsPend, nsValue, Bool.and_eq_true]
        exact ⟨⟨nsUnion_of_frame hfl, hs.1⟩, hs.2⟩
    rw [if_neg h3] at h
    by_cases h4 : c = 124
    · rw [if_pos h4] at h; injection h with h; subst h
      have hu := nsUnion_of_frame hfl
      simp only [Frame.union, nsUnion] at hu
      simp only [nsSt, nsPend, nsFrame, nsTerms, Bool.true_and, Bool.and_true, Bool.and_eq_true]
      exact ⟨hu, hs⟩
    rw [if_neg h4] at h
    by_cases h5 : c = 46
    · rw [if_pos h5] at h; injection h with h; subst h; exact nsSt_atom hst rfl
    rw [if_neg h5] at h
    by_cases h6 : c = 91
    · rw [if_pos h6] at h; injection h with h; subst h
      simp only [nsSt, nsPend, Bool.true_and, Bool.and_eq_true]; exact ⟨hfl, hs⟩
    rw [if_neg h6] at h
    by_cases h7 : c = 63
    · rw [if_pos h7] at h; exact nsSt_applyQuant hst h
    rw [if_neg h7] at h
    by_cases h8 : c = 42
    · rw [if_pos h8] at h; exact nsSt_applyQuant hst h
    rw [if_neg h8] at h
    by_cases h9 : c = 43
    · rw [if_pos h9] at h; exact nsSt_applyQuant hst h
    rw [if_neg h9] at h
    by_cases h10 : c = 123
    · rw [if_pos h10] at h
      split at h
      · injection h with h; subst h; exact hst
      · cases h
    rw [if_neg h10] at h
    split at h
    · cases h
    · injection h with h; subst h; exact nsSt_atom hst rfl
  | esc =>
    rw [hm] at h
    simp only at h
    split at h
    · injection h with h; subst h; exact nsSt_atom hst rfl
    · cases h
  | qmin acc =>
    rw [hm] at h
    simp only at h
    repeat' split at h
    all_goals first
      | exact nsSt_applyQuant hst h
      | (injection h with h; subst h; exact hst)
      | cases h
  | qmax mn acc =>
    rw [hm] at h
    simp only at h
    repeat' split at h
    all_goals first
      | exact nsSt_applyQuant hst h
      | (injection h with h; subst h; exact hst)
      | cases h
  | cls k =>
    rw [hm] at h
    simp only at h
    split at h
    · injection h with h; subst h; exact hst
    · next v hk =>
      injection h with h; subst h
      refine nsSt_atom hst ?_
      -- the only value a class yields is a set
      unfold clsStep at hk
      repeat' split at hk
      all_goals first
        | cases hk
        | (cases hc' : clsChar k _ <;> rw [hc'] at hk <;> cases hk)
        | (cases hc' : clsClose k with
           | error e => rw [hc'] at hk; cases hk
           | ok v' => rw [hc'] at hk; injection hk with hk; injection hk with hk; subst hk; exact nsValue_clsClose hc')
    · cases h

theorem feed_ns : ∀ (t : Text) {st st' : St}, nsSt st = true → feed st t = .ok st' → nsSt st' = true
  | [], st, st', hst, h => by
    simp only [feed] at h
    injection h with h
    subst h
    exact hst
  | c :: t, st, st', hst, h => by
    simp only [feed] at h
    split at h
    · next st1 h1 => exact feed_ns t (step_ns hst h1) h
    · cases h

/-- **The reader's trees hold no `sym` node.** -/
theorem read_ns {t : Text} {x : Union} (h : read t = .ok x) : nsUnion x = true := by
  unfold read at h
  split at h
  · next st hf =>
    have hst : nsSt st = true := feed_ns t (st := init) rfl hf
    simp only [nsSt, Bool.and_eq_true] at hst
    unfold finish at h
    split at h
    · split at h
      · injection h with h
        subst h
        exact nsUnion_of_frame (nsFrame_flush hst.1.1 hst.1.2)
      · cases h
    · cases h
  · cases h

/-- On every tree the reader produces, the executable matcher decides the semantics. -/
theorem read_matchB_iff {t : Text} {x : Union} (h : read t = .ok x) (s : Text) :
    matchB x s = true ↔ Matches x s :=
  matchB_iff x (read_ns h) s

end XsdRe
end AasVerif.XsdPattern
