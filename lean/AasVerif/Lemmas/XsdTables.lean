import AasVerif.Lemmas.XsdRead
/-!
Decidable checks of the escaping tables against the XSD reader (`XsdRe.read`).
-/
namespace AasVerif.XsdPattern
open AasVerif AasVerif.Retree

/-- the text is read as the single literal character `k` -/
def readsAsChar (t : Text) (k : Nat) : Bool :=
  match XsdRe.read t with
  | .ok (.mk [.mk [.mk (.char c) none]]) => c.code == k && !c.enc
  | _ => false

/-- the text, inside brackets, is read as the set with the single member `k` -/
def readsAsMember (t : Text) (k : Nat) : Bool :=
  match XsdRe.read ([91] ++ t ++ [93]) with
  | .ok (.mk [.mk [.mk (.set false [⟨c, none⟩]) none]]) => c.code == k && !c.enc
  | _ => false

/-- Every entry of a literal table is read back as its key, and every metacharacter has an entry. -/
def litTableOk (tbl : EscTable) : Bool :=
  tbl.all (fun p => readsAsChar p.2 p.1) && metaLit.all (fun m => (escLookup m tbl).isSome)

def rngTableOk (tbl : EscTable) : Bool :=
  tbl.all (fun p => readsAsMember p.2 p.1) && metaRng.all (fun m => (escLookup m tbl).isSome)

end AasVerif.XsdPattern
