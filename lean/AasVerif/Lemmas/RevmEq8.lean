import AasVerif.Lemmas.RevmEq7
import AasVerif.Lemmas.RevmRunBase
/-!
Facts about *every* program that `translate` returns (no hypothesis on the regex): jump/split targets
are in range, labels are the indices, there is no no-op and the last instruction is `match`.
-/
set_option linter.unusedSimpArgs false
namespace AasVerif.Revm
open AasVerif.Retree

theorem labelPos_lt (ls : List Leaf) (l k : Nat) (h : labelPos ls l = some k)
    (hn : labelledNoopAtEnd ls = false) : k < countReal ls := by
  induction ls generalizing k with
  | nil => simp [labelPos] at h
  | cons x rest ih =>
    have hrest : labelledNoopAtEnd rest = false := by
      simp only [labelledNoopAtEnd] at hn
      by_cases hr : labelledNoopAtEnd rest = true
      · simp [hr] at hn
      · simpa using hr
    simp only [labelledNoopAtEnd, hrest, Bool.false_eq_true, if_false] at hn
    by_cases hx : x.label = some l
    · simp [labelPos, hx] at h
      subst h
      rw [countReal_cons]
      by_cases hreal : x.real = true
      · simp [hreal]; omega
      · simp [hreal, hx] at hn
        simp [hreal]; omega
    · simp only [labelPos, hx, if_false, Option.map_eq_some_iff] at h
      obtain ⟨k', hk', hk⟩ := h
      have := ih k' hk' hrest
      rw [countReal_cons]
      omega

theorem mapTargets_some (ρo : Nat → Option Nat) (i j : Instr) (h : i.mapTargets ρo = some j) :
    ∀ t ∈ i.targets, ∃ t', ρo t = some t' := by
  intro t ht
  cases i with
  | jump t0 =>
    simp [Instr.targets] at ht
    subst ht
    cases hρ : ρo t with
    | none => simp [Instr.mapTargets, hρ] at h
    | some v => exact ⟨v, rfl⟩
  | split a b =>
    simp [Instr.targets] at ht
    cases hρa : ρo a with
    | none => simp [Instr.mapTargets, hρa] at h
    | some va =>
      cases hρb : ρo b with
      | none => simp [Instr.mapTargets, hρa, hρb] at h
      | some vb =>
        rcases ht with ht | ht
        · subst ht; exact ⟨va, hρa⟩
        · subst ht; exact ⟨vb, hρb⟩
  | _ => simp [Instr.targets] at ht

theorem relabelFrom_targets (ρo : Nat → Option Nat) (nl : List Nat) :
    ∀ (ls : List Leaf) (idx : Nat) (ls' : List Leaf), relabelFrom ρo nl idx ls = .ok ls' →
      ∀ t ∈ targetsOf ls, ∃ t', ρo t = some t' := by
  intro ls
  induction ls with
  | nil => intro idx ls' _ t ht; simp at ht
  | cons x rest ih =>
    intro idx ls' h t ht
    simp only [targetsOf, List.mem_append] at ht
    by_cases hreal : x.real = true
    · simp only [relabelFrom, hreal, if_true] at h
      cases hm : x.instr.mapTargets ρo with
      | none => simp [hm] at h
      | some i =>
        simp only [hm] at h
        cases hr : relabelFrom ρo nl (idx + 1) rest with
        | crash s => simp [hr] at h
        | ok rest' =>
          rcases ht with ht | ht
          · exact mapTargets_some ρo x.instr i hm t ht
          · exact ih (idx + 1) rest' hr t ht
    · have hnoop : x.instr = .noop := by
        have : x.instr.isNoop = true := by simpa [Leaf.real] using hreal
        cases hi : x.instr <;> simp [hi, Instr.isNoop] at this
        rfl
      simp only [relabelFrom, hreal] at h
      cases hr : relabelFrom ρo nl idx rest with
      | crash s => simp [hr] at h
      | ok rest' =>
        rcases ht with ht | ht
        · simp [hnoop, Instr.targets] at ht
        · exact ih idx rest' hr t ht

/-- Every successful `transform_regex` ends with the `match` leaf. -/
theorem transformRegex_shape (r : Regex) (n : Nat) (t : Tree) (n' : Nat)
    (h : transformRegex r n = .ok (t, n')) : ∃ xs, t = .node (xs ++ [lf .matched]) := by
  unfold transformRegex at h
  split at h
  · simp at h
  · split at h
    · simp at h
    · simp at h
    · simp only at h
      split at h
      · simp at h
      · split at h
        · simp at h
        · simp only [em_bind] at h
          split at h
          · simp at h
            exact ⟨_, h.1.symm⟩
          · simp at h

theorem instrs_length (ls : List Leaf) : (instrs ls).length = ls.length := by simp [instrs]

theorem mem_strip (ρ : Nat → Nat) (ls : List Leaf) (i : Instr) (h : i ∈ strip ρ ls) :
    ∃ x ∈ ls, x.real = true ∧ i = x.instr.mapT ρ := by
  induction ls with
  | nil => simp at h
  | cons x rest ih =>
    by_cases hreal : x.real = true
    · simp [strip, hreal] at h
      rcases h with h | h
      · exact ⟨x, by simp, hreal, h⟩
      · obtain ⟨y, hy, h1, h2⟩ := ih h
        exact ⟨y, by simp [hy], h1, h2⟩
    · simp [strip, hreal] at h
      obtain ⟨y, hy, h1, h2⟩ := ih h
      exact ⟨y, by simp [hy], h1, h2⟩

theorem mem_targetsOf (ls : List Leaf) (x : Leaf) (hx : x ∈ ls) (t : Nat) (ht : t ∈ x.instr.targets) :
    t ∈ targetsOf ls := by
  induction ls with
  | nil => simp at hx
  | cons y rest ih =>
    simp at hx
    rcases hx with h | h
    · subst h; simp [targetsOf, ht]
    · simp [targetsOf, ih h]

theorem targetsValid_of (p : Program) (h : ∀ i ∈ p, ∀ t ∈ i.targets, t < p.length) : targetsValid p = true := by
  unfold targetsValid
  rw [List.all_eq_true]
  intro i hi
  have := h i hi
  cases i <;> simp [Instr.targets] at this ⊢
  · exact this
  · exact this

/-- What holds of every translated program. -/
theorem translate_props (r : Regex) (p : List Leaf) (h : translate r = .ok p) :
    WfProg (instrs p) ∧ LabelsAreIndices 0 p ∧ (instrs p).getLast? = some .matched := by
  unfold translate translateFrom at h
  cases htr : transformRegex r 0 with
  | crash s => simp [htr] at h
  | ok res =>
    obtain ⟨t, n'⟩ := res
    simp only [htr] at h
    obtain ⟨xs, hxs⟩ := transformRegex_shape r 0 t n' htr
    subst hxs
    simp only [linearize_node, linearizeList_append, linearizeList_cons, linearize_lf, linearizeList_nil,
      List.append_nil] at h
    cases hrel : relabel (linearizeList xs ++ [⟨.matched, none⟩]) with
    | crash s => simp [hrel] at h
    | ok ls1 =>
      simp only [hrel] at h
      cases hrm : removeNoops ls1 with
      | crash s => simp [hrm] at h
      | ok p' =>
        simp only [hrm] at h
        have hp : p' = p := by simpa using h
        subst hp
        have hend := labelledNoopAtEnd_append_real (linearizeList xs) ⟨.matched, none⟩ rfl
        unfold relabel at hrel
        rw [hend] at hrel
        simp only [Bool.false_eq_true, if_false] at hrel
        have htg := relabelFrom_targets _ _ _ _ _ hrel
        let ρ : Nat → Nat := fun t => (labelPos (linearizeList xs ++ [⟨.matched, none⟩]) t).getD 0
        have hρ : ∀ t ∈ targetsOf (linearizeList xs ++ [⟨.matched, none⟩]),
            labelPos (linearizeList xs ++ [⟨.matched, none⟩]) t = some (ρ t) := by
          intro t ht
          obtain ⟨t', ht'⟩ := htg t ht
          simp [ρ, ht']
        obtain ⟨ls'', p'', h1, h2, h3, h4⟩ := relabelFrom_ok _ ρ _ _ 0 hρ
        rw [hrel] at h1
        have e1 : ls1 = ls'' := by simpa using h1
        subst e1
        rw [hrm] at h2
        have e2 : p' = p'' := by simpa using h2
        subst e2
        have hlen : (instrs p').length = countReal (linearizeList xs ++ [⟨.matched, none⟩]) := by
          rw [h3, length_strip]
        have hlast : instrs p' = strip ρ (linearizeList xs) ++ [.matched] := by
          rw [h3, strip_append]
          simp [strip, Leaf.real, Instr.isNoop, Instr.mapT]
        refine ⟨⟨?_, ?_, ?_⟩, h4, ?_⟩
        · apply targetsValid_of
          intro i hi t ht
          rw [h3] at hi
          obtain ⟨x, hx, _, hxi⟩ := mem_strip ρ _ i hi
          subst hxi
          rw [hlen]
          -- a target of the resolved instruction is the resolution of a target of the leaf
          have : ∃ t0 ∈ x.instr.targets, t = ρ t0 := by
            cases hxi : x.instr <;> simp [hxi, Instr.mapT, Instr.targets] at ht ⊢
            · exact ht
            · exact ht
          obtain ⟨t0, ht0, he⟩ := this
          subst he
          have := hρ t0 (mem_targetsOf _ x hx t0 ht0)
          exact labelPos_lt _ _ _ this hend
        · intro i hi
          rw [h3] at hi
          obtain ⟨x, _, hreal, hxi⟩ := mem_strip ρ _ i hi
          intro hn
          have : (x.instr.mapT ρ).isNoop = true := by rw [← hxi, hn]; rfl
          rw [mapT_isNoop] at this
          simp [Leaf.real, this] at hreal
        · intro pc i hpc hm _ _
          rw [hlast] at hpc ⊢
          simp only [List.length_append, List.length_singleton]
          by_cases hlt : pc < (strip ρ (linearizeList xs)).length
          · omega
          · rw [List.getElem?_append_right (by omega)] at hpc
            cases hk : pc - (strip ρ (linearizeList xs)).length with
            | zero => simp [hk] at hpc; exact absurd hpc.symm hm
            | succ k => simp [hk] at hpc
        · rw [hlast]; simp

end AasVerif.Revm
