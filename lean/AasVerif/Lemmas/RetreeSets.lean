import AasVerif.Lemmas.RetreeLeaf
/-!
`Good` outcomes of the character-set part of the parser and of `_parse_char_literal`.
-/
namespace AasVerif.Retree

theorem parseRangeEnd_good (ts1 : List Tok) :
    Good (fun e r => ∀ x, e = some x → inRangeChrSet x = true) ts1.length False (parseRangeEnd ts1) := by
  unfold parseRangeEnd
  split
  · exact ⟨Nat.le_refl _, by simp⟩
  · simp only [Good, List.length_cons]; omega
  · simp [Good]
  · next r h1 h2 h3 =>
    have hg := parseRangeChar_good r (by intro h; subst h; exact h3 rfl) (by intro r' h; subst h; exact h2 _ rfl)
    cases hrc : parseRangeChar r with
    | ok v =>
      obtain ⟨e, r'⟩ := v
      rw [hrc] at hg
      simp only [Good, List.length_cons] at hg ⊢
      refine ⟨by omega, ?_⟩
      intro x hx; injection hx with hx; subst hx; exact hg.2.1
    | err k n => rw [hrc] at hg; simp only [Good, List.length_cons] at hg ⊢; omega
    | crash s => rw [hrc] at hg; exact absurd hg.2 id
  · exact ⟨Nat.le_refl _, by simp⟩

theorem parseRangesLoop_good : ∀ (g : Nat) (first : Bool) (ts : List Tok), ts.length < g →
    Good (fun items _ => ∀ x ∈ items, inRangeRng x.1 = true ∧ x.2 ≤ ts.length) ts.length False
      (parseRangesLoop first g ts) := by
  intro g
  induction g with
  | zero => intro first ts h; omega
  | succ g ih =>
    intro first ts hlt
    unfold parseRangesLoop
    split
    · simp [Good]
    · refine ⟨by simp; omega, ?_⟩
      intro x hx
      simp only [List.mem_singleton] at hx
      subst hx
      simp [inRangeRng, inRangeChrSet]
    · simp [Good]
    · next h1 h2 h4 =>
      split
      · refine ⟨by simp, ?_⟩
        intro x hx; cases hx
      have hg := parseRangeChar_good ts (by intro h; subst h; exact h1 rfl) (by intro r h; subst h; exact h4 _ rfl)
      cases hrc : parseRangeChar ts with
      | err k n => rw [hrc] at hg; exact hg
      | crash s => rw [hrc] at hg; exact absurd hg.2 id
      | ok v =>
        obtain ⟨start, ts1⟩ := v
        rw [hrc] at hg
        obtain ⟨_, hstart, hlt1⟩ := hg
        simp only
        have he := parseRangeEnd_good ts1
        cases hre : parseRangeEnd ts1 with
        | err k n => rw [hre] at he; simp only [Good] at he ⊢; omega
        | crash s => rw [hre] at he; exact absurd he.2 id
        | ok v =>
          obtain ⟨e, ts2⟩ := v
          rw [hre] at he
          obtain ⟨hlt2, hestop⟩ := he
          simp only
          split
          · simp only [Good]; omega
          · next hrev =>
            have hrec := ih false ts2 (by omega)
            cases hr : parseRangesLoop false g ts2 with
            | err k n => rw [hr] at hrec; simp only [Good] at hrec ⊢; omega
            | crash s => rw [hr] at hrec; exact absurd hrec.2 id
            | ok v =>
              obtain ⟨rs, r⟩ := v
              rw [hr] at hrec
              obtain ⟨hlr, hrs⟩ := hrec
              refine ⟨by omega, ?_⟩
              intro x hx
              simp only [List.mem_cons] at hx
              cases hx with
              | inl hx =>
                subst hx
                refine ⟨?_, Nat.le_refl _⟩
                cases e with
                | none => simp [inRangeRng, hstart]
                | some e =>
                  have := hestop e rfl
                  simp only [rangeReversed, decide_eq_true_eq] at hrev
                  simp [inRangeRng, hstart, this]
                  omega
              | inr hx =>
                obtain ⟨h1', h2'⟩ := hrs x hx
                exact ⟨h1', by omega⟩

/-! ### the overlap check returns the position of one of the ranges -/

theorem firstOverlap_mem (l : List (Rng × Nat)) (t : Nat) (h : firstOverlap l = some t) : ∃ x ∈ l, x.2 = t := by
  induction l with
  | nil => simp [firstOverlap] at h
  | cons x l ih =>
    cases l with
    | nil => simp [firstOverlap] at h
    | cons y l =>
      simp only [firstOverlap] at h
      split at h
      · injection h with h; exact ⟨x, by simp, h⟩
      · obtain ⟨z, hz, hz'⟩ := ih h
        exact ⟨z, List.mem_cons_of_mem _ hz, hz'⟩

theorem mem_insertByStart (x y : Rng × Nat) (l : List (Rng × Nat)) : y ∈ insertByStart x l ↔ y = x ∨ y ∈ l := by
  induction l with
  | nil => simp [insertByStart]
  | cons z l ih =>
    simp only [insertByStart]
    split
    · simp
    · simp only [List.mem_cons, ih]
      constructor
      · rintro (h | h | h) <;> simp [h]
      · rintro (h | h | h) <;> simp [h]

theorem mem_sortByStart (y : Rng × Nat) (l : List (Rng × Nat)) : y ∈ sortByStart l ↔ y ∈ l := by
  induction l with
  | nil => simp [sortByStart]
  | cons z l ih => simp [sortByStart, mem_insertByStart, ih]

theorem mem_indexed (k : Nat) (rs : List Rng) (x : Rng × Nat) (h : x ∈ indexed k rs) : k ≤ x.2 ∧ x.2 < k + rs.length := by
  induction rs generalizing k with
  | nil => simp [indexed] at h
  | cons r rs ih =>
    simp only [indexed, List.mem_cons] at h
    cases h with
    | inl h => subst h; simp
    | inr h => have := ih (k + 1) h; simp only [List.length_cons]; omega

theorem overlapIdx_lt (rs : List Rng) (i : Nat) (h : overlapIdx rs = some i) : i < rs.length := by
  unfold overlapIdx at h
  obtain ⟨x, hx, hx'⟩ := firstOverlap_mem _ _ h
  rw [mem_sortByStart] at hx
  have := mem_indexed 0 rs x hx
  omega

theorem checkOverlap_good (all : List (Rng × Nat)) (r : List Tok) (n : Nat) (hr : r.length ≤ n) (hne : all ≠ [])
    (hall : ∀ x ∈ all, inRangeRng x.1 = true ∧ x.2 ≤ n) :
    Good (fun rs _ => rs ≠ [] ∧ rs.all inRangeRng = true ∧ overlapIdx rs = none) n False (checkOverlap all r) := by
  unfold checkOverlap
  cases ho : overlapIdx (List.map (fun x => x.1) all) with
  | none =>
    refine ⟨hr, ?_, ?_, ho⟩
    · intro h; apply hne; simpa using h
    · rw [List.all_eq_true]
      intro x hx
      rw [List.mem_map] at hx
      obtain ⟨y, hy, rfl⟩ := hx
      exact (hall y hy).1
  | some i =>
    have hi := overlapIdx_lt _ _ ho
    simp only [List.length_map] at hi
    have : (List.map (fun x => x.2) all)[i]? = some (all[i]).2 := by
      simp [hi]
    simp only [this, Good]
    exact (hall _ (List.getElem_mem hi)).2

theorem parseRanges_good (ts : List Tok) :
    Good (fun rs _ => rs ≠ [] ∧ rs.all inRangeRng = true ∧ overlapIdx rs = none) ts.length False (parseRanges ts) := by
  unfold parseRanges
  have hlen' : (afterPrefixDash ts).length ≤ ts.length := by
    unfold afterPrefixDash; split <;> simp
  have hpre' : ∀ x ∈ prefixDash ts, inRangeRng x.1 = true ∧ x.2 ≤ ts.length := by
    unfold prefixDash
    split
    · intro x hx; simp only [List.mem_singleton] at hx; subst hx; simp [inRangeRng, inRangeChrSet]
    · intro x hx; cases hx
  have hg := parseRangesLoop_good ((afterPrefixDash ts).length + 1) (prefixDash ts).isEmpty (afterPrefixDash ts) (by omega)
  generalize afterPrefixDash ts = ts' at *
  generalize prefixDash ts = pre at *
  cases hl : parseRangesLoop pre.isEmpty (ts'.length + 1) ts' with
  | err k n => rw [hl] at hg; simp only [Good] at hg ⊢; omega
  | crash s => rw [hl] at hg; exact absurd hg.2 id
  | ok v =>
    obtain ⟨items, r⟩ := v
    rw [hl] at hg
    obtain ⟨hr, hitems⟩ := hg
    have hall : ∀ x ∈ pre ++ items, inRangeRng x.1 = true ∧ x.2 ≤ ts.length := by
      intro x hx
      rw [List.mem_append] at hx
      cases hx with
      | inl hx => exact hpre' x hx
      | inr hx => have := hitems x hx; exact ⟨this.1, by omega⟩
    simp only
    split
    · simp only [Good]; omega
    · next hne => exact checkOverlap_good _ r _ (by omega) hne hall

/-! ### `_parse_char_literal` -/

theorem parseCharLiteral_good (ts : List Tok)
    (hsp : ∀ c r, ts = .ch c :: r → ¬ (c = 94 ∨ c = 36 ∨ c = 42 ∨ c = 43 ∨ c = 63 ∨ c = 123))
    (hfv : ∀ i r, ts ≠ .fv i :: r) :
    Good (fun c r => (c = none → r = ts) ∧ (∀ x, c = some x → inRangeChrLit x = true ∧ r.length < ts.length))
      ts.length False (parseCharLiteral ts) := by
  unfold parseCharLiteral
  split
  · exact ⟨Nat.le_refl _, by simp, by simp⟩
  · next c r =>
    split
    · have hg := parseEscape_good litEscapes litClasses r
      cases he : parseEscape litEscapes litClasses r with
      | err k n => rw [he] at hg; simp only [Good, List.length_cons] at hg ⊢; omega
      | crash s => rw [he] at hg; exact absurd hg.2 id
      | ok v =>
        obtain ⟨x, r'⟩ := v
        rw [he] at hg
        obtain ⟨hr', hx⟩ := hg
        simp only
        refine ⟨by simp; omega, by simp, ?_⟩
        intro y hy
        injection hy with hy
        subst hy
        refine ⟨?_, by simp; omega⟩
        unfold EscChr at hx
        unfold inRangeChrLit
        split
        · next henc => simpa [henc] using hx
        · next henc =>
          simp only [henc, Bool.false_eq_true, if_false] at hx
          have h124 : 124 ∉ litEscapes.map (·.2) := by decide
          simp only [bne_iff_ne, ne_eq]
          intro h; rw [h] at hx; exact h124 hx
    · split
      · next hc => exact absurd hc (hsp c r rfl)
      · split
        · exact ⟨Nat.le_refl _, by simp, by simp⟩
        · next hc1 hc2 hc3 =>
          refine ⟨by simp, by simp, ?_⟩
          intro y hy
          injection hy with hy
          subst hy
          refine ⟨?_, by simp⟩
          simp only [inRangeChrLit, Bool.false_eq_true, if_false, bne_iff_ne, ne_eq]
          intro h; exact hc3 (Or.inr h)
  · next i r => exact absurd rfl (hfv i r)

end AasVerif.Retree
