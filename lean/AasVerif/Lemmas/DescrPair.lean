import AasVerif.Model.Descr
/-!
`noPair a b`: a text does not contain the two code points `a b` next to each other
(`*/`, `\u`); how `str.replace`, `splitlines` and the assembly of the comment lines keep it.
-/
namespace AasVerif.Descr

/-- No occurrence of the pair `a b`; `prev`: the code point before the text was `a`. -/
def noPair (a b : Nat) : Bool → Text → Bool
  | _, [] => true
  | prev, c :: r => !(prev && c == b) && noPair a b (c == a) r

/-- A piece of text after which (and into which) no pair can reach. -/
def Inert (a b : Nat) (p : Text) : Prop := ∀ prev x, noPair a b prev (p ++ x) = noPair a b false x

theorem noPair_weaken (a b : Nat) : ∀ (x : Text), noPair a b true x = true → noPair a b false x = true
  | [], _ => rfl
  | c :: r, h => by
    simp only [noPair, Bool.and_eq_true, Bool.false_and, Bool.not_false, Bool.true_and] at h ⊢
    exact h.2

theorem noPair_any (a b : Nat) (p : Bool) (x : Text) (h : noPair a b p x = true) : noPair a b false x = true := by
  cases p
  · exact h
  · exact noPair_weaken a b x h

/-! ### `str.replace` of a pair -/

theorem replaceAux_nil (old new : Text) (k : Nat) : replaceAux old new k [] = [] := by
  cases k <;> rfl

theorem replaceAux_pair_hit (a b : Nat) (new r : Text) :
    replaceAux [a, b] new 0 (a :: b :: r) = new ++ replaceAux [a, b] new 0 r := by
  simp [replaceAux, List.isPrefixOf]

theorem replaceAux_pair_miss (a b c : Nat) (new r : Text) (h : ¬ (c = a ∧ r.head? = some b)) :
    replaceAux [a, b] new 0 (c :: r) = c :: replaceAux [a, b] new 0 r := by
  cases r with
  | nil => simp [replaceAux, List.isPrefixOf]
  | cons d r' =>
    have : ¬ (a = c ∧ b = d) := by
      intro ⟨h1, h2⟩; exact h ⟨h1.symm, by simp [h2]⟩
    simp [replaceAux, List.isPrefixOf, this]

/-- The replaced text contains no pair `a b` when the replacement text is inert. -/
theorem noPair_replace (a b : Nat) (new : Text) (hnew : Inert a b new) :
    ∀ (n : Nat) (t : Text) (prev : Bool), t.length ≤ n → (prev = true → t.head? ≠ some b) →
      noPair a b prev (replaceAux [a, b] new 0 t) = true := by
  intro n
  induction n with
  | zero =>
    intro t prev hl _
    have : t = [] := List.eq_nil_of_length_eq_zero (Nat.le_zero.mp hl)
    subst this; simp [replaceAux, noPair]
  | succ n ih =>
    intro t prev hl hp
    match t, hl, hp with
    | [], _, _ => simp [replaceAux, noPair]
    | c :: r, hl, hp =>
      by_cases hit : c = a ∧ r.head? = some b
      · obtain ⟨hc, hr⟩ := hit
        match r, hr, hl with
        | d :: r', hr, hl =>
          simp only [List.head?_cons, Option.some.injEq] at hr
          subst hc; subst hr
          rw [replaceAux_pair_hit, hnew]
          apply ih r' false
          · simp only [List.length_cons] at hl; omega
          · intro h; cases h
      · rw [replaceAux_pair_miss _ _ _ _ _ hit]
        simp only [noPair, Bool.and_eq_true, Bool.not_eq_true', Bool.and_eq_false_iff]
        refine ⟨?_, ?_⟩
        · cases prev with
          | false => left; rfl
          | true =>
            right
            have := hp rfl
            simp only [List.head?_cons, ne_eq, Option.some.injEq] at this
            simpa using this
        · apply ih r (c == a)
          · simp only [List.length_cons] at hl; omega
          · intro hca
            have hca' : c = a := by simpa using hca
            intro hb
            exact hit ⟨hca', hb⟩

/-- Replacing another pair `c d` by a text inert for `a b` keeps the absence of `a b`. -/
theorem noPair_preserved (a b c d : Nat) (new : Text) (hnew : Inert a b new) :
    ∀ (n : Nat) (t : Text) (prev : Bool), t.length ≤ n → noPair a b prev t = true →
      noPair a b prev (replaceAux [c, d] new 0 t) = true := by
  intro n
  induction n with
  | zero =>
    intro t prev hl _
    have : t = [] := List.eq_nil_of_length_eq_zero (Nat.le_zero.mp hl)
    subst this; simp [replaceAux, noPair]
  | succ n ih =>
    intro t prev hl hp
    match t, hl, hp with
    | [], _, _ => simp [replaceAux, noPair]
    | e :: r, hl, hp =>
      by_cases hit : e = c ∧ r.head? = some d
      · obtain ⟨hc, hr⟩ := hit
        match r, hr, hl, hp with
        | f :: r', hr, hl, hp =>
          simp only [List.head?_cons, Option.some.injEq] at hr
          subst hc; subst hr
          rw [replaceAux_pair_hit, hnew]
          apply ih r' false
          · simp only [List.length_cons] at hl; omega
          · simp only [noPair, Bool.and_eq_true] at hp
            exact noPair_any a b _ r' hp.2.2
      · rw [replaceAux_pair_miss _ _ _ _ _ hit]
        simp only [noPair, Bool.and_eq_true] at hp ⊢
        refine ⟨hp.1, ?_⟩
        apply ih r (e == a)
        · simp only [List.length_cons] at hl; omega
        · exact hp.2

/-! ### `splitlines` -/

theorem noPair_splitLines (a b : Nat) : ∀ (t : Text) (p : Bool), noPair a b p t = true →
    match splitLines t with
    | [] => True
    | l :: ls => noPair a b p l = true ∧ ∀ l' ∈ ls, noPair a b false l' = true := by
  intro t
  induction t using splitLines.induct with
  | case1 => intro p _; simp [splitLines]
  | case2 rest ih =>
    intro p h
    simp only [splitLines]
    refine ⟨rfl, ?_⟩
    simp only [noPair, Bool.and_eq_true] at h
    have h2 := ih _ h.2.2
    intro l' hl'
    split at h2
    · rename_i heq; rw [heq] at hl'; cases hl'
    · rename_i l ls heq
      rw [heq] at hl'
      rcases List.mem_cons.mp hl' with rfl | hm
      · exact noPair_any a b _ _ h2.1
      · exact h2.2 _ hm
  | case3 c rest hnot hbr ih =>
    intro p h
    rw [splitLines]
    · simp only [hbr, if_true]
      refine ⟨rfl, ?_⟩
      simp only [noPair, Bool.and_eq_true] at h
      have h2 := ih _ h.2
      intro l' hl'
      split at h2
      · rename_i heq; rw [heq] at hl'; cases hl'
      · rename_i l ls heq
        rw [heq] at hl'
        rcases List.mem_cons.mp hl' with rfl | hm
        · exact noPair_any a b _ _ h2.1
        · exact h2.2 _ hm
    · exact hnot
  | case4 c rest hnot hbr hnil ih =>
    intro p h
    rw [splitLines]
    · simp only [hbr, hnil]
      simp only [noPair, Bool.and_eq_true] at h
      simp [noPair, h.1]
    · exact hnot
  | case5 c rest hnot hbr l ls hcons ih =>
    intro p h
    rw [splitLines]
    · simp only [hbr, hcons]
      simp only [noPair, Bool.and_eq_true] at h
      have h2 := ih _ h.2
      rw [hcons] at h2
      simp only at h2
      refine ⟨?_, h2.2⟩
      simp only [noPair, Bool.and_eq_true]
      exact ⟨h.1, h2.1⟩
    · exact hnot

theorem noPair_lines (a b : Nat) (t : Text) (h : noPair a b false t = true) :
    ∀ l ∈ splitLines t, noPair a b false l = true := by
  have h2 := noPair_splitLines a b t false h
  intro l hl
  split at h2
  · rename_i heq; rw [heq] at hl; cases hl
  · rename_i l0 ls heq
    rw [heq] at hl
    rcases List.mem_cons.mp hl with rfl | hm
    · exact h2.1
    · exact h2.2 _ hm

/-! ### assembling lines -/

theorem noPair_append_inert_tail (a b : Nat) (suf : Text) (hsuf : Inert a b suf) :
    ∀ (l : Text) (p : Bool) (x : Text), noPair a b p l = true →
      noPair a b p (l ++ suf ++ x) = noPair a b false x
  | [], p, x, _ => by simpa using hsuf p x
  | c :: r, p, x, h => by
    simp only [noPair, Bool.and_eq_true] at h
    simp only [List.cons_append, noPair, h.1, Bool.true_and]
    exact noPair_append_inert_tail a b suf hsuf r _ x h.2

theorem inert_piece (a b : Nat) (pre suf l : Text) (hpre : Inert a b pre) (hsuf : Inert a b suf)
    (hl : noPair a b false l = true) : Inert a b (pre ++ l ++ suf) := by
  intro prev x
  rw [List.append_assoc, List.append_assoc, hpre, ← List.append_assoc]
  exact noPair_append_inert_tail a b suf hsuf l false x hl

theorem inert_flatten (a b : Nat) : ∀ (ps : List Text), (∀ p ∈ ps, Inert a b p) →
    ∀ x, noPair a b false (ps.flatten ++ x) = noPair a b false x
  | [], _, x => by simp
  | p :: ps, h, x => by
    rw [List.flatten_cons, List.append_assoc, h p (List.mem_cons_self ..)]
    exact inert_flatten a b ps (fun q hq => h q (List.mem_cons_of_mem _ hq)) x

end AasVerif.Descr
