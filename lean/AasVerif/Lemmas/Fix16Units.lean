import AasVerif.Model.Fix16
import AasVerif.Model.Retree.Sem
/-!
Arithmetic of surrogates and structural facts about `utf16` (no regex semantics here).
-/
namespace AasVerif.Fix16
open AasVerif.Retree

/-- Unfold the constants regenerated from the source into numerals (for `omega`/`decide`). -/
macro "gen_consts" : tactic =>
  `(tactic| try simp only [planeStart, planeEnd, Gen.Fix16.planeStart, Gen.Fix16.planeEnd,
      Gen.Fix16.hiSub, Gen.Fix16.hiDiv, Gen.Fix16.hiBase, Gen.Fix16.loSub, Gen.Fix16.loMod,
      Gen.Fix16.loBase, Gen.Fix16.ensHiMin, Gen.Fix16.ensHiMax, Gen.Fix16.ensLoMin,
      Gen.Fix16.ensLoMax] at *)

theorem surrogates_fst (c : Nat) : (surrogates c).1 = (c - 65536) / 1024 + 55296 := rfl
theorem surrogates_snd (c : Nat) : (surrogates c).2 = (c - 65536) % 1024 + 56320 := rfl

theorem convert_ok_iff {c : Nat} {p : Nat × Nat} :
    convert c = .ok p ↔ 65536 ≤ c ∧ c ≤ 1114111 ∧ p = surrogates c := by
  unfold convert
  gen_consts
  split
  · next h =>
    have h1 := surrogates_fst c
    have h2 := surrogates_snd c
    rw [if_pos (by omega)]
    constructor
    · intro e; cases e; exact ⟨h.1, h.2, rfl⟩
    · rintro ⟨_, _, rfl⟩; rfl
  · next h =>
    constructor
    · intro e; cases e
    · rintro ⟨a, b, _⟩; exact absurd ⟨a, b⟩ h

theorem convert_error {c : Nat} {e : Crash} (h : convert c = .error e) :
    e = .surrogatesPre ∧ ¬ (65536 ≤ c ∧ c ≤ 1114111) := by
  unfold convert at h
  gen_consts
  split at h
  · next hc =>
    have h1 := surrogates_fst c
    have h2 := surrogates_snd c
    rw [if_pos (by omega)] at h
    cases h
  · next hc => cases h; exact ⟨rfl, hc⟩

theorem surrogates_inj {c d : Nat} (hc : 65536 ≤ c) (hd : 65536 ≤ d)
    (h : surrogates c = surrogates d) : c = d := by
  have h1 : (surrogates c).1 = (surrogates d).1 := by rw [h]
  have h2 : (surrogates c).2 = (surrogates d).2 := by rw [h]
  simp only [surrogates_fst, surrogates_snd] at h1 h2
  omega

theorem isSurrogate_iff {c : Nat} : isSurrogate c = true ↔ 55296 ≤ c ∧ c ≤ 57343 := by
  simp [isSurrogate]

theorem isSurrogate_false_iff {c : Nat} : isSurrogate c = false ↔ c < 55296 ∨ 57343 < c := by
  simp [isSurrogate]
  omega

/-! ### `utf16` -/

theorem utf16_nil : utf16 [] = [] := rfl
theorem utf16_cons (c : Nat) (s : Text) : utf16 (c :: s) = enc1 c ++ utf16 s := rfl

theorem utf16_append (a b : Text) : utf16 (a ++ b) = utf16 a ++ utf16 b := by
  induction a with
  | nil => rfl
  | cons c a ih => simp [utf16_cons, ih]

theorem enc1_bmp {c : Nat} (h : c < 65536) : enc1 c = [c] := by
  unfold enc1; gen_consts; rw [if_pos h]

theorem enc1_astral {c : Nat} (h : 65536 ≤ c) : enc1 c = [(surrogates c).1, (surrogates c).2] := by
  unfold enc1; gen_consts; rw [if_neg (by omega)]

theorem enc1_ne_nil (c : Nat) : enc1 c ≠ [] := by
  unfold enc1; split <;> simp

theorem utf16_eq_nil_iff {s : Text} : utf16 s = [] ↔ s = [] := by
  cases s with
  | nil => simp [utf16_nil]
  | cons c s => simp [utf16_cons, enc1_ne_nil]

theorem utf16_single_bmp {c : Nat} (h : c < 65536) : utf16 [c] = [c] := by
  simp [utf16_cons, utf16_nil, enc1_bmp h]

theorem utf16_single_astral {c : Nat} (h : 65536 ≤ c) :
    utf16 [c] = [(surrogates c).1, (surrogates c).2] := by
  simp [utf16_cons, utf16_nil, enc1_astral h]

/-- `utf16` of BMP-only text is the text itself. -/
theorem utf16_bmpOnly {s : Text} (h : BmpOnly s) : utf16 s = s := by
  induction s with
  | nil => rfl
  | cons c s ih =>
    have hc : c < 65536 := h c (by simp)
    rw [utf16_cons, enc1_bmp hc, ih (fun d hd => h d (by simp [hd]))]
    rfl

/-! ### Positions in well-formed text

`OkC b c`: `c` is a Unicode scalar value, and below U+10000 if the flag `b` (BMP-only text) is set. -/

def OkC (b : Bool) (c : Nat) : Prop := c ≤ 1114111 ∧ isSurrogate c = false ∧ (b = true → c < 65536)

/-- The text `pre ++ rest` around the current position is well-formed. -/
def Ok (b : Bool) (pre rest : Text) : Prop := ∀ c ∈ pre ++ rest, OkC b c

theorem Ok.shift {b : Bool} {pre s post : Text} (h : Ok b pre (s ++ post)) : Ok b (pre ++ s) post := by
  intro c hc; apply h; simpa using hc

theorem Ok.unshift {b : Bool} {pre s post : Text} (h : Ok b (pre ++ s) post) : Ok b pre (s ++ post) := by
  intro c hc; apply h; simpa using hc

theorem Ok.rest {b : Bool} {pre rest : Text} (h : Ok b pre rest) : ∀ c ∈ rest, OkC b c :=
  fun c hc => h c (by simp [hc])

/-- The first code unit of `utf16 rest` determines the first code point of `rest`. -/
theorem utf16_uncons {b : Bool} {rest : Text} {x : Nat} {tail : List Nat}
    (hs : ∀ c ∈ rest, OkC b c) (h : utf16 rest = x :: tail) :
    ∃ d rest', rest = d :: rest' ∧
      ((d < 65536 ∧ isSurrogate d = false ∧ x = d ∧ tail = utf16 rest') ∨
       (65536 ≤ d ∧ d ≤ 1114111 ∧ b = false ∧ x = (surrogates d).1 ∧
          tail = (surrogates d).2 :: utf16 rest')) := by
  cases rest with
  | nil => simp [utf16_nil] at h
  | cons d rest' =>
    refine ⟨d, rest', rfl, ?_⟩
    have hd := hs d (by simp)
    rw [utf16_cons] at h
    by_cases hlt : d < 65536
    · left
      rw [enc1_bmp hlt] at h
      simp only [List.singleton_append, List.cons.injEq] at h
      exact ⟨hlt, hd.2.1, h.1.symm, h.2.symm⟩
    · right
      rw [enc1_astral (by omega)] at h
      simp only [List.cons_append, List.nil_append, List.cons.injEq] at h
      refine ⟨by omega, hd.1, ?_, h.1.symm, h.2.symm⟩
      cases b with
      | false => rfl
      | true => exact absurd (hd.2.2 rfl) hlt

end AasVerif.Fix16
