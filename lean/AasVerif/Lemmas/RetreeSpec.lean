import AasVerif.Lemmas.RetreeSets
/-!
The specification of the recursive part of the parser, by induction on the fuel:
every outcome is a value in the parser's image with no more tokens left than it was given,
or a positioned error, or — only below the stated fuel — `crash fuel`.
-/
namespace AasVerif.Retree

def PV (ts : List Tok) (v : Option Value) (r : List Tok) : Prop :=
  (v = none → r = ts) ∧ (∀ x, v = some x → inRangeValue x = true ∧ r.length < ts.length)

def PT (ts : List Tok) (xs : List Term) (r : List Tok) : Prop :=
  inRangeTerms xs = true ∧ (xs = [] → r = ts)

def PA (ts : List Tok) (cs : List Concat) (r : List Tok) : Prop :=
  inRangeConcats cs = true ∧ (cs = [] → r = ts)

def PU (ts : List Tok) (u : Union) (r : List Tok) : Prop :=
  inRangeUnion u = true ∧ (ts = [] → u = .mk []) ∧
  (ts ≠ [] → u.uniates ≠ [] ∧ (u = .mk [.mk []] → r = ts))

def SpecV (f : Nat) : Prop := ∀ ts, Good (PV ts) ts.length (f < 3 * ts.length + 2) (parseValue f ts)
def SpecT (f : Nat) : Prop := ∀ ts, Good (PT ts) ts.length (f < 3 * ts.length + 3) (parseTerms f ts)
def SpecA (f : Nat) : Prop := ∀ ts, Good (PA ts) ts.length (f < 3 * ts.length + 1) (parseAlts f ts)
def SpecU (f : Nat) : Prop := ∀ ts, Good (PU ts) ts.length (f < 3 * ts.length + 4) (parseUnion f ts)

theorem stepV (f : Nat) (ihU : SpecU f) : SpecV (f + 1) := by
  intro ts
  unfold parseValue
  split
  · simp [Good, PV, inRangeValue]
  · simp [Good, PV, inRangeValue]
  · simp [Good, PV, inRangeValue]
  · simp only [Good, List.length_cons]; omega
  · next r _ =>
    have hu := ihU r
    cases hp : parseUnion f r with
    | err k n => rw [hp] at hu; simp only [Good, List.length_cons] at hu ⊢; omega
    | crash s => rw [hp] at hu; simp only [Good, List.length_cons] at hu ⊢; exact ⟨hu.1, by omega⟩
    | ok v =>
      obtain ⟨u, r1⟩ := v
      rw [hp] at hu
      obtain ⟨hr1, hin, _, hne⟩ := hu
      simp only
      split
      · next r2 =>
        simp only [List.length_cons] at hr1
        refine ⟨by simp only [List.length_cons]; omega, by simp, ?_⟩
        intro x hx
        injection hx with hx
        subst hx
        refine ⟨?_, by simp only [List.length_cons]; omega⟩
        have hrne : r ≠ [] := by intro h; subst h; simp at hr1
        have := (hne hrne).1
        simp only [inRangeValue, hin, Bool.true_and, Bool.not_eq_true', List.isEmpty_eq_false_iff]
        exact this
      · simp only [Good, List.length_cons]; omega
  · next r =>
    have hg := parseRanges_good r
    cases hp : parseRanges r with
    | err k n => rw [hp] at hg; simp only [Good, List.length_cons] at hg ⊢; omega
    | crash s => rw [hp] at hg; exact absurd hg.2 id
    | ok v =>
      obtain ⟨rs, r1⟩ := v
      rw [hp] at hg
      obtain ⟨hr1, hne, hall, hov⟩ := hg
      simp only
      split
      · simp only [Good, List.length_cons]; omega
      · next hast =>
        refine ⟨by simp only [List.length_cons]; omega, by simp, ?_⟩
        intro x hx
        injection hx with hx
        subst hx
        refine ⟨?_, by simp only [List.length_cons]; omega⟩
        simp only [inRangeValue, inRangeSet, hall, hov, Option.isNone_none, Bool.and_true, Bool.not_true,
          Bool.false_or, Bool.and_eq_true, Bool.not_eq_true', List.isEmpty_eq_false_iff]
        exact ⟨hne, by simpa using hast⟩
  · next r _ =>
    have hg := parseRanges_good r
    cases hp : parseRanges r with
    | err k n => rw [hp] at hg; simp only [Good, List.length_cons] at hg ⊢; omega
    | crash s => rw [hp] at hg; exact absurd hg.2 id
    | ok v =>
      obtain ⟨rs, r1⟩ := v
      rw [hp] at hg
      obtain ⟨hr1, hne, hall, hov⟩ := hg
      simp only
      refine ⟨by simp only [List.length_cons]; omega, by simp, ?_⟩
      intro x hx
      injection hx with hx
      subst hx
      refine ⟨?_, by simp only [List.length_cons]; omega⟩
      simp only [inRangeValue, inRangeSet, hall, hov, Option.isNone_none, Bool.and_true, Bool.not_false,
        Bool.true_or, Bool.not_eq_true', List.isEmpty_eq_false_iff]
      exact hne
  · simp [Good, PV, inRangeValue]
  · simp only [Good, List.length_cons]; omega
  · simp only [Good, List.length_cons]; omega
  · simp only [Good, List.length_cons]; omega
  · simp only [Good, List.length_cons]; omega
  · next h1 h2 h3 h4 h5 h6 h7 h8 h9 h10 h11 h12 =>
    have hg := parseCharLiteral_good ts
      (by
        intro c r h
        subst h
        rintro (rfl | rfl | rfl | rfl | rfl | rfl)
        · exact h1 _ rfl
        · exact h2 _ rfl
        · exact h9 _ rfl
        · exact h10 _ rfl
        · exact h11 _ rfl
        · exact h12 _ rfl)
      (by intro i r h; exact h8 _ _ h)
    cases hp : parseCharLiteral ts with
    | err k n => rw [hp] at hg; exact hg
    | crash s => rw [hp] at hg; exact absurd hg.2 id
    | ok v =>
      obtain ⟨c, r⟩ := v
      rw [hp] at hg
      obtain ⟨hr, hnone, hsome⟩ := hg
      cases c with
      | none => exact ⟨hr, by simp [hnone], by simp⟩
      | some c =>
        refine ⟨hr, by simp, ?_⟩
        intro x hx
        injection hx with hx
        subst hx
        have := hsome c rfl
        exact ⟨by simpa [inRangeValue] using this.1, this.2⟩

theorem stepT (f : Nat) (ihV : SpecV f) (ihT : SpecT f) : SpecT (f + 1) := by
  intro ts
  unfold parseTerms
  split
  · exact ⟨Nat.le_refl _, rfl, fun _ => rfl⟩
  · exact ⟨Nat.le_refl _, rfl, fun _ => rfl⟩
  · have hv := ihV ts
    cases hp : parseValue f ts with
    | err k n => rw [hp] at hv; exact hv
    | crash s => rw [hp] at hv; exact ⟨hv.1, by have := hv.2; omega⟩
    | ok v =>
      obtain ⟨v, ts1⟩ := v
      rw [hp] at hv
      obtain ⟨hr1, hnone, hsome⟩ := hv
      cases v with
      | none => exact ⟨hr1, rfl, fun _ => hnone rfl⟩
      | some v =>
        obtain ⟨hvin, hlt1⟩ := hsome v rfl
        simp only
        have hq := parseQuant_good ts1
        cases hpq : parseQuant ts1 with
        | err k n => rw [hpq] at hq; simp only [Good] at hq ⊢; omega
        | crash s => rw [hpq] at hq; exact absurd hq.2 id
        | ok w =>
          obtain ⟨q, ts2⟩ := w
          rw [hpq] at hq
          obtain ⟨hr2, hqin, _⟩ := hq
          simp only
          split
          · simp only [Good]; omega
          · next hanch =>
            split
            · next hviol =>
              exfalso; apply hanch
              simp only [termRequireViolated, Bool.and_eq_true] at hviol
              simp [hviol.1, hviol.2]
            · split
              · next hlt => exfalso; apply hlt; omega
              · have ht := ihT ts2
                cases hpt : parseTerms f ts2 with
                | err k n => rw [hpt] at ht; simp only [Good] at ht ⊢; omega
                | crash s => rw [hpt] at ht; exact ⟨ht.1, by have := ht.2; omega⟩
                | ok w =>
                  obtain ⟨terms, r⟩ := w
                  rw [hpt] at ht
                  obtain ⟨hr, hterms, _⟩ := ht
                  refine ⟨by omega, ?_, by simp⟩
                  simp only [inRangeTerms, inRangeTerm, hvin, hterms, Bool.true_and, Bool.and_true]
                  cases q with
                  | none => rfl
                  | some q =>
                    simp only [Option.isSome_some, Bool.true_and, Bool.not_eq_true] at hanch
                    simp [hqin q rfl, hanch]

theorem stepA (f : Nat) (ihT : SpecT f) (ihA : SpecA f) : SpecA (f + 1) := by
  intro ts
  unfold parseAlts
  split
  · exact ⟨by simp, by simp [inRangeConcats, inRangeTerms], by simp⟩
  · next r _ =>
    have ht := ihT r
    cases hp : parseTerms f r with
    | err k n => rw [hp] at ht; simp only [Good, List.length_cons] at ht ⊢; omega
    | crash s => rw [hp] at ht; simp only [Good, List.length_cons] at ht ⊢; exact ⟨ht.1, by omega⟩
    | ok v =>
      obtain ⟨c, r1⟩ := v
      rw [hp] at ht
      obtain ⟨hr1, hc, _⟩ := ht
      simp only
      have ha := ihA r1
      cases hpa : parseAlts f r1 with
      | err k n => rw [hpa] at ha; simp only [Good, List.length_cons] at ha ⊢; omega
      | crash s => rw [hpa] at ha; simp only [Good, List.length_cons] at ha ⊢; exact ⟨ha.1, by omega⟩
      | ok w =>
        obtain ⟨cs, r2⟩ := w
        rw [hpa] at ha
        obtain ⟨hr2, hcs, _⟩ := ha
        exact ⟨by simp only [List.length_cons]; omega, by simp [inRangeConcats, hc, hcs], by simp⟩
  · exact ⟨Nat.le_refl _, rfl, fun _ => rfl⟩

theorem stepU (f : Nat) (ihT : SpecT f) (ihA : SpecA f) : SpecU (f + 1) := by
  intro ts
  unfold parseUnion
  split
  · exact ⟨Nat.le_refl _, rfl, fun _ => rfl, fun h => absurd rfl h⟩
  · next hne =>
    have ht := ihT ts
    cases hp : parseTerms f ts with
    | err k n => rw [hp] at ht; exact ht
    | crash s => rw [hp] at ht; exact ⟨ht.1, by have := ht.2; omega⟩
    | ok v =>
      obtain ⟨c, r1⟩ := v
      rw [hp] at ht
      obtain ⟨hr1, hc, hcnil⟩ := ht
      simp only
      have ha := ihA r1
      cases hpa : parseAlts f r1 with
      | err k n => rw [hpa] at ha; simp only [Good] at ha ⊢; omega
      | crash s => rw [hpa] at ha; exact ⟨ha.1, by have := ha.2; omega⟩
      | ok w =>
        obtain ⟨cs, r2⟩ := w
        rw [hpa] at ha
        obtain ⟨hr2, hcs, hcsnil⟩ := ha
        refine ⟨by omega, by simp [inRangeUnion, inRangeConcats, hc, hcs], fun h => absurd h (by intro h'; subst h'; exact hne rfl), ?_⟩
        intro _
        refine ⟨by simp [Union.uniates], ?_⟩
        intro hu
        injection hu with hu
        simp only [List.cons.injEq, Concat.mk.injEq] at hu
        rw [hcsnil hu.2, hcnil hu.1]

theorem spec_all (f : Nat) : SpecV f ∧ SpecT f ∧ SpecA f ∧ SpecU f := by
  induction f with
  | zero =>
    refine ⟨?_, ?_, ?_, ?_⟩ <;> intro ts
    · unfold parseValue; exact ⟨rfl, by omega⟩
    · unfold parseTerms; exact ⟨rfl, by omega⟩
    · unfold parseAlts; exact ⟨rfl, by omega⟩
    · unfold parseUnion; exact ⟨rfl, by omega⟩
  | succ f ih =>
    obtain ⟨hV, hT, hA, hU⟩ := ih
    exact ⟨stepV f hU, stepT f hV hT, stepA f hT hA, stepU f hT hA⟩

end AasVerif.Retree
