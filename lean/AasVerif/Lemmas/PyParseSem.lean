import AasVerif.Lemmas.PyParse
/-!
Parentheses carry no meaning (`eval_strip`), hence the meaning Python gives to the printed
token sequence (`evalToks`: read it with the grammar, evaluate the tree) is the meaning of the
expression printed.
-/
namespace AasVerif.PyEmit
open AasVerif AasVerif.Expr

mutual
  theorem eval_strip : ∀ (x : PyExpr) (ρ : Env), PyExpr.eval ρ (strip x) = PyExpr.eval ρ x
    | .that, _ | .var _, _ | .constRef _, _ | .enumRef _, _ | .funRef _, _ | .noneC, _ | .tru, _ | .fls, _
    | .int _, _ | .float _, _ | .str _, _ => rfl
    | .neg e, ρ => by simp only [strip, PyExpr.eval, eval_strip e]
    | .attr e k n, ρ => by simp only [strip, PyExpr.eval, eval_strip e]
    | .subscript e i, ρ => by simp only [strip, PyExpr.eval, eval_strip e, eval_strip i]
    | .callMethod e m args, ρ => by simp only [strip, PyExpr.eval, eval_strip e, evalArgs_strip args]
    | .callFun f args, ρ => by simp only [strip, PyExpr.eval, evalArgs_strip args]
    | .compare l op r, ρ => by simp only [strip, PyExpr.eval, eval_strip l, eval_strip r]
    | .not e, ρ => by simp only [strip, PyExpr.eval, eval_strip e]
    | .boolop a vals, ρ => by simp only [strip, PyExpr.eval, evalBool_strip a vals]
    | .binop a l r, ρ => by simp only [strip, PyExpr.eval, eval_strip l, eval_strip r]
    | .fstring ps, ρ => by simp only [strip, PyExpr.eval, evalParts_strip ps]
    | .quant a elt x it, ρ => by
      have h : (fun item => PyExpr.eval (ρ.bind x item) (strip elt)) = (fun item => PyExpr.eval (ρ.bind x item) elt) :=
        funext fun item => eval_strip elt _
      simp only [strip, PyExpr.eval, evalIter_strip it, h]
    | .paren e, ρ => by simp only [strip, PyExpr.eval, eval_strip e]
  theorem evalArgs_strip : ∀ (xs : List PyExpr) (ρ : Env), evalArgs ρ (stripList xs) = evalArgs ρ xs
    | [], _ => rfl
    | x :: xs, ρ => by simp only [stripList, evalArgs, eval_strip x, evalArgs_strip xs]
  theorem evalBool_strip (a : Bool) : ∀ (xs : List PyExpr) (ρ : Env), evalBool ρ a (stripList xs) = evalBool ρ a xs
    | [], _ => rfl
    | [x], ρ => by simp only [stripList, evalBool, eval_strip x]
    | x :: y :: ys, ρ => by
      have ih := evalBool_strip a (y :: ys) ρ
      simp only [stripList] at ih
      simp only [stripList, evalBool, eval_strip x, ih]
  theorem evalParts_strip : ∀ (ps : List PyPart) (ρ : Env), evalParts ρ (stripParts ps) = evalParts ρ ps
    | [], _ => rfl
    | .lit s :: ps, ρ => by simp only [stripParts, evalParts, evalParts_strip ps]
    | .fv e :: ps, ρ => by simp only [stripParts, evalParts, eval_strip e, evalParts_strip ps]
  theorem evalIter_strip : ∀ (it : PyIter) (ρ : Env), evalIter ρ (stripIter it) = evalIter ρ it
    | .each e, ρ => by simp only [stripIter, evalIter, eval_strip e]
    | .range a b, ρ => by simp only [stripIter, evalIter, eval_strip a, eval_strip b]
end

/-- The meaning of the printed token sequence is the meaning of the expression. -/
theorem evalToks_print (x : PyExpr) (h : parenOK x = true) (ρ : Env) :
    evalToks ρ (print x) = some (PyExpr.eval ρ x) := by
  simp only [evalToks, parse_print x h, eval_strip]

end AasVerif.PyEmit
