import AasVerif.Model.Naming
/-!
Helper lemmas about the ASCII case functions and `split("_")`/`join`.
-/
namespace AasVerif.Naming
open AasVerif

/-! ### characters -/

theorem loC_loC (c : Nat) : loC (loC c) = loC c := by
  simp only [loC, isUpperC, Bool.and_eq_true, decide_eq_true_eq]
  repeat' split
  all_goals omega

theorem upC_upC (c : Nat) : upC (upC c) = upC c := by
  simp only [upC, isLowerC, Bool.and_eq_true, decide_eq_true_eq]
  repeat' split
  all_goals omega

theorem upC_loC (c : Nat) : upC (loC c) = upC c := by
  simp only [upC, loC, isLowerC, isUpperC, Bool.and_eq_true, decide_eq_true_eq]
  repeat' split
  all_goals omega

theorem loC_upC (c : Nat) : loC (upC c) = loC c := by
  simp only [upC, loC, isLowerC, isUpperC, Bool.and_eq_true, decide_eq_true_eq]
  repeat' split
  all_goals omega

theorem loC_eq_sep (c : Nat) : loC c = 95 ↔ c = 95 := by
  simp only [loC, isUpperC, Bool.and_eq_true, decide_eq_true_eq]
  repeat' split
  all_goals omega

theorem upC_eq_sep (c : Nat) : upC c = 95 ↔ c = 95 := by
  simp only [upC, isLowerC, Bool.and_eq_true, decide_eq_true_eq]
  repeat' split
  all_goals omega

/-- Upper-casing identifies exactly the same characters as lower-casing. -/
theorem upC_eq_iff_loC_eq (c d : Nat) : upC c = upC d ↔ loC c = loC d := by
  simp only [upC, loC, isLowerC, isUpperC, Bool.and_eq_true, decide_eq_true_eq]
  repeat' split
  all_goals omega

theorem isAlnumC_upC {c : Nat} (h : isAlnumC c = true) : isAlnumC (upC c) = true := by
  simp only [isAlnumC, upC, isLowerC, isUpperC, isDigitC, Bool.or_eq_true, Bool.and_eq_true,
    decide_eq_true_eq] at h ⊢
  repeat' split
  all_goals omega

theorem isAlnumC_loC {c : Nat} (h : isAlnumC c = true) : isAlnumC (loC c) = true := by
  simp only [isAlnumC, loC, isLowerC, isUpperC, isDigitC, Bool.or_eq_true, Bool.and_eq_true,
    decide_eq_true_eq] at h ⊢
  repeat' split
  all_goals omega

theorem isAlnumC_not_special {c : Nat} (h : isAlnumC c = true) : c ≠ 95 ∧ c ≠ 34 ∧ c ≠ 39 ∧ c ≠ 92 := by
  simp only [isAlnumC, isLowerC, isUpperC, isDigitC, Bool.or_eq_true, Bool.and_eq_true,
    decide_eq_true_eq] at h
  omega

/-! ### texts -/

theorem lower_lower (t : Text) : lower (lower t) = lower t := by
  simp [lower, List.map_map, Function.comp_def, loC_loC]

theorem upper_upper (t : Text) : upper (upper t) = upper t := by
  simp [upper, List.map_map, Function.comp_def, upC_upC]

theorem upper_eq_iff_lower_eq (a b : Text) : upper a = upper b ↔ lower a = lower b := by
  unfold upper lower
  induction a generalizing b with
  | nil => cases b <;> simp
  | cons c cs ih =>
    cases b with
    | nil => simp
    | cons d ds => simp only [List.map_cons, List.cons.injEq, ih, upC_eq_iff_loC_eq]

theorem capitalize_lower (p : Text) : capitalize (lower p) = capitalize p := by
  cases p with
  | nil => rfl
  | cons c cs =>
    show upC (loC c) :: lower (lower cs) = upC c :: lower cs
    rw [upC_loC, lower_lower]

/-! ### split / join -/

theorem splitC_ne_nil (sep : Nat) (t : Text) : splitC sep t ≠ [] := by
  induction t with
  | nil => simp [splitC]
  | cons c cs ih =>
    unfold splitC
    split
    · simp
    · split <;> simp

theorem joinC_cons_cons (sep : Nat) (p q : Text) (ps : List Text) :
    joinC sep (p :: q :: ps) = p ++ sep :: joinC sep (q :: ps) := rfl

theorem joinC_cons_head (sep c : Nat) (p : Text) (ps : List Text) :
    joinC sep ((c :: p) :: ps) = c :: joinC sep (p :: ps) := by
  cases ps with
  | nil => rfl
  | cons q qs => rfl

/-- `sep.join(f(part) for part in t.split(sep))` is `f` applied to the whole text when `f` is a
character map that fixes the separator. -/
theorem joinC_map_splitC (f : Nat → Nat) (sep : Nat) (hf : f sep = sep) (t : Text) :
    joinC sep ((splitC sep t).map (List.map f)) = t.map f := by
  induction t with
  | nil => rfl
  | cons c cs ih =>
    unfold splitC
    split
    · next h =>
      subst h
      cases hs : splitC c cs with
      | nil => exact absurd hs (splitC_ne_nil c cs)
      | cons p ps =>
        rw [hs] at ih
        simp only [List.map_cons, List.map_nil, joinC_cons_cons, List.nil_append, hf]
        rw [← ih]
        rfl
    · cases hs : splitC sep cs with
      | nil => exact absurd hs (splitC_ne_nil sep cs)
      | cons p ps =>
        rw [hs] at ih
        simp only [List.map_cons, joinC_cons_head]
        rw [← ih]
        rfl

theorem lowerSnakeRaw_eq_lower (t : Text) : lowerSnakeRaw t = lower t :=
  joinC_map_splitC loC 95 (by decide) t

theorem upperSnakeRaw_eq_upper (t : Text) : upperSnakeRaw t = upper t :=
  joinC_map_splitC upC 95 (by decide) t

/-- Splitting commutes with a character map that neither creates nor destroys separators. -/
theorem splitC_map (f : Nat → Nat) (sep : Nat) (hf : ∀ c, f c = sep ↔ c = sep) (t : Text) :
    splitC sep (t.map f) = (splitC sep t).map (List.map f) := by
  induction t with
  | nil => rfl
  | cons c cs ih =>
    simp only [List.map_cons]
    unfold splitC
    by_cases h : c = sep
    · subst h
      have : f c = c := (hf c).mpr rfl
      simp only [this, if_true, List.map_cons, List.map_nil]
      rw [← ih]
    · have : ¬ f c = sep := fun e => h ((hf c).mp e)
      simp only [this, h, if_false]
      rw [ih]
      cases splitC sep cs with
      | nil => rfl
      | cons p ps => rfl

theorem parts_lower (t : Text) : parts (lower t) = (parts t).map lower :=
  splitC_map loC 95 loC_eq_sep t

/-- Every character of every part comes from the text and is not the separator. -/
theorem mem_splitC {sep : Nat} {t p : Text} {c : Nat} (hp : p ∈ splitC sep t) (hc : c ∈ p) :
    c ∈ t ∧ c ≠ sep := by
  induction t generalizing p with
  | nil =>
    simp only [splitC, List.mem_singleton] at hp
    subst hp
    cases hc
  | cons d ds ih =>
    unfold splitC at hp
    split at hp
    · rcases List.mem_cons.mp hp with rfl | hp
      · cases hc
      · obtain ⟨h1, h2⟩ := ih hp hc
        exact ⟨List.mem_cons_of_mem _ h1, h2⟩
    · next hne =>
      cases hs : splitC sep ds with
      | nil => exact absurd hs (splitC_ne_nil sep ds)
      | cons q qs =>
        rw [hs] at hp ih
        rcases List.mem_cons.mp hp with rfl | hp
        · rcases List.mem_cons.mp hc with rfl | hc
          · exact ⟨List.mem_cons_self, hne⟩
          · obtain ⟨h1, h2⟩ := ih List.mem_cons_self hc
            exact ⟨List.mem_cons_of_mem _ h1, h2⟩
        · obtain ⟨h1, h2⟩ := ih (List.mem_cons_of_mem _ hp) hc
          exact ⟨List.mem_cons_of_mem _ h1, h2⟩

/-- The head of the first part of a text that does not start with the separator. -/
theorem splitC_head {sep c : Nat} {cs : Text} (h : c ≠ sep) :
    ∃ p ps, splitC sep (c :: cs) = (c :: p) :: ps := by
  unfold splitC
  simp only [h, if_false]
  cases hs : splitC sep cs with
  | nil => exact ⟨[], [], rfl⟩
  | cons q qs => exact ⟨q, qs, rfl⟩

end AasVerif.Naming
