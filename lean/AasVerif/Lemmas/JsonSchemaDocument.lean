import AasVerif.Lemmas.JsonSchemaChain
import AasVerif.Lemmas.JsonSchemaLookup
/-!
Whole documents against the output of `generate`: for every concrete class of a meta-model with a
consistent hierarchy (`hierOK`), `{"$ref": "#/definitions/<Class>"}` accepts a JSON value iff it is an
object that carries the class's `modelType` and whose members meet the complete inferred constraints
of the class and of every ancestor (`DocOK`) — through `allOf`/`$ref` chains of any length, for leaf
classes and for classes with concrete descendants (`X = allOf[X_abstract, const]`) alike.
-/
namespace AasVerif.JsonSchema
open AasVerif AasVerif.Retree

/-! ## what `generate` provides -/

theorem generate_defsFor (mm : MM) (defs : Defs) (h : generate mm = .ok defs) : DefsFor defs mm.types := by
  intro a ha hdesc
  obtain ⟨k, s, hs, hk, hl⟩ := generate_inheritable_lookup mm defs h ha hdesc
  have : k = inhKey a := hk
  subst this
  exact ⟨s, hs, hl⟩

theorem generate_typeDefinitions_ok (mm : MM) (defs : Defs) (h : generate mm = .ok defs) {t : OurType}
    (ht : t ∈ mm.types) : ∃ ds, typeDefinitions (classesInProperties mm) t = .ok ds := by
  unfold generate at h
  cases hcl : collect (classesInProperties mm) mm.types [] false with
  | crash e => simp [hcl] at h
  | err => simp [hcl] at h
  | ok p =>
    obtain ⟨d0, dup⟩ := p
    cases dup with
    | true => simp [hcl] at h
    | false => exact collect_all_ok _ _ _ _ _ hcl _ ht

/-- the concrete definition of a concrete class (leaf or not), as found in `generate mm` -/
theorem generate_concrete_lookup (mm : MM) (defs : Defs) (h : generate mm = .ok defs) {c : Cls}
    (hc : OurType.cls c ∈ mm.types) (hconc : c.abstract = false) :
    ∃ s, concreteDefinition c = .ok (c.mt, s) ∧ lookup c.mt defs = some s := by
  by_cases hleaf : c.cdesc = []
  · exact generate_leaf_lookup mm defs h hc hleaf hconc
  · obtain ⟨ds, hds⟩ := generate_typeDefinitions_ok mm defs h hc
    have hne : c.cdesc.isEmpty = false := by cases hcc : c.cdesc <;> simp_all
    have hds' := hds
    simp only [typeDefinitions, classDefinitions, hne, Bool.not_false, if_true, hconc,
      Bool.false_eq_true, if_false] at hds'
    cases hi : inheritableDefinition c with
    | error e => simp [hi] at hds'
    | ok d =>
      simp only [hi] at hds'
      cases hcd : concreteDefinition c with
      | error e => simp [hcd] at hds'
      | ok d2 =>
        obtain ⟨k, s⟩ := d2
        simp only [hcd, Except.ok.injEq] at hds'
        have hk : k = c.mt := (concrete_desc_iff defs hcd hleaf .null).1
        subst hk
        refine ⟨s, rfl, generate_lookup mm defs h hc hds ?_⟩
        rw [← hds']
        exact List.mem_append_right _ (List.mem_singleton.mpr rfl)

/-- `definitions.ModelType` is the enumeration of the model types, unless a type contributes a
definition of that name -/
theorem generate_modelType_lookup (mm : MM) (defs : Defs) (h : generate mm = .ok defs)
    (hfree : (mm.types.flatMap (typeKeys (classesInProperties mm))).contains modelTypeName = false) :
    lookup (ascii "ModelType") defs = some (.mk [.type .string, .enum (modelTypes mm)]) := by
  unfold generate at h
  cases hc : collect (classesInProperties mm) mm.types [] false with
  | crash c => simp [hc] at h
  | err => simp [hc] at h
  | ok p =>
    obtain ⟨d0, dup⟩ := p
    cases dup with
    | true => simp [hc] at h
    | false =>
      simp only [hc, Res.ok.injEq] at h
      obtain ⟨hn, _, _⟩ := collect_mem _ _ _ _ _ hc (by simp)
      obtain ⟨hk, _⟩ := collect_spec _ _ _ _ _ hc
      simp only [List.map_nil, List.nil_append] at hk
      have hnk : hasKey (ascii "ModelType") d0 = false := by
        cases hh : hasKey (ascii "ModelType") d0 with
        | false => rfl
        | true =>
          exfalso
          have := (hasKey_iff _ _).mp hh
          rw [hk] at this
          have hc' : (mm.types.flatMap (typeKeys (classesInProperties mm))).contains modelTypeName = true := by
            simpa [modelTypeName] using this
          rw [hfree] at hc'
          cases hc'
      simp only [hnk, Bool.false_eq_true, if_false] at h
      subst h
      apply lookup_of_mem_nodup
      · have hperm := sortBy_perm (fun (a b : Text × Schema) => ltText a.1 b.1)
          (d0 ++ [(ascii "ModelType", Schema.mk [Kw.type JType.string, Kw.enum (modelTypes mm)])])
        unfold sortDefs
        rw [(hperm.map (·.1)).nodup_iff]
        simp only [List.map_append, List.map_cons, List.map_nil]
        rw [List.nodup_append]
        refine ⟨hn, by simp, ?_⟩
        intro a ha b hb
        simp only [List.mem_singleton] at hb
        subst hb
        intro heq
        subst heq
        have := (hasKey_iff _ _).mpr ha
        rw [hnk] at this
        cases this
      · unfold sortDefs
        rw [mem_sortBy]
        exact List.mem_append_right _ (List.mem_singleton.mpr rfl)

theorem mem_modelTypes {mm : MM} {c : Cls} (hc : OurType.cls c ∈ mm.types) (hconc : c.abstract = false)
    (hw : c.withModelType = true) : c.mt ∈ modelTypes mm := by
  unfold modelTypes sortTexts
  rw [mem_sortBy, List.mem_filterMap]
  exact ⟨.cls c, hc, by simp [hconc, hw]⟩

/-- the model type of a concrete class of the meta-model validates against `#/definitions/ModelType` -/
theorem modelType_accepts (mm : MM) (defs : Defs) (h : generate mm = .ok defs)
    (hfree : (mm.types.flatMap (typeKeys (classesInProperties mm))).contains modelTypeName = false)
    {c : Cls} (hc : OurType.cls c ∈ mm.types) (hconc : c.abstract = false) (hw : c.withModelType = true) :
    Valid defs (refTo (ascii "ModelType")) (.str c.mt) := by
  rw [valid_ref_iff]
  refine ⟨_, generate_modelType_lookup mm defs h hfree, ?_⟩
  rw [valid_iff_kws]
  intro k hk
  simp only [List.mem_cons, List.not_mem_nil, or_false] at hk
  rcases hk with rfl | rfl
  · simp [hasType]
  · rw [kwv_enum]
    exact ⟨c.mt, rfl, mem_modelTypes hc hconc hw⟩

/-! ## `with_model_type` along the chain -/

/-- a class with model type has a top-most carrier among itself and its ancestors -/
theorem exists_topMT {types : List OurType} : ∀ (n : Nat) (c : Cls), grounded types n c = true →
    c.withModelType = true → ∃ b ∈ c :: ancestors types n c, b.topMT = true := by
  intro n
  induction n with
  | zero => intro c hg; simp [grounded] at hg
  | succ n ih =>
    intro c hg hw
    by_cases hany : c.inh.any (·.withModelType) = true
    · obtain ⟨i, hi, hiw⟩ := List.any_eq_true.mp hany
      obtain ⟨a, hf, _, _, _, hwa, _, hg'⟩ := grounded_link hg hi
      obtain ⟨b, hb, hbt⟩ := ih a hg' (by rw [← hwa]; exact hiw)
      refine ⟨b, List.mem_cons_of_mem _ (mem_ancestors_succ.mpr ⟨i, hi, a, hf, ?_⟩), hbt⟩
      rcases List.mem_cons.mp hb with rfl | hb
      · exact Or.inl rfl
      · exact Or.inr hb
    · refine ⟨c, List.mem_cons_self, ?_⟩
      unfold Cls.topMT
      simp only [Bool.not_eq_true] at hany
      rw [hw, hany]
      rfl

/-- `with_model_type` is inherited -/
theorem anc_withModelType {types : List OurType} : ∀ (n : Nat) (c b : Cls), grounded types n c = true →
    b ∈ ancestors types n c → b.withModelType = true → c.withModelType = true := by
  intro n
  induction n with
  | zero => intro c b hg; simp [grounded] at hg
  | succ n ih =>
    intro c b hg hb hbw
    obtain ⟨i, hi, a, hf, hba⟩ := mem_ancestors_succ.mp hb
    obtain ⟨a', hf', _, _, _, _, hinh, hg'⟩ := grounded_link hg hi
    rw [hf] at hf'
    cases hf'
    rcases hba with rfl | hba
    · exact hinh hbw
    · exact hinh (ih a b hg' hba hbw)

theorem topMT_withModelType {b : Cls} (h : b.topMT = true) : b.withModelType = true := by
  unfold Cls.topMT at h
  simp only [Bool.and_eq_true] at h
  exact h.1

/-! ## whole documents -/

/-- **what a document of class `c` must look like**: an object; `modelType` is the class's model
type if the class carries one; for the class and for each of its ancestors: the own required members
are present, and every present member value meets the annotation (declaring class) resp. the complete
merged constraint of the top node (inheriting classes) -/
def DocOK (mm : MM) (defs : Defs) (c : Cls) (j : Json) : Prop :=
  ∃ kvs, j = .obj kvs ∧
    (c.withModelType = true → lookup modelTypeKey kvs = some (.str c.mt)) ∧
    ∀ b ∈ c :: ancestorsOf mm c, MembersOK defs b kvs

theorem hierOK_spec {mm : MM} (h : hierOK mm = true) :
    (∀ c, OurType.cls c ∈ mm.types → (c.abstract = false ∨ c.cdesc ≠ []) →
      grounded mm.types mm.types.length c = true) ∧
    (mm.types.flatMap (typeKeys (classesInProperties mm))).contains modelTypeName = false := by
  simp only [hierOK, Bool.and_eq_true, List.all_eq_true, Bool.not_eq_true'] at h
  refine ⟨fun c hc hrel => ?_, h.2⟩
  have := h.1 (.cls c) hc
  simp only [Bool.or_eq_true, Bool.and_eq_true, List.isEmpty_iff] at this
  rcases this with ⟨ha, hd⟩ | hg
  · rcases hrel with hrel | hrel
    · rw [ha] at hrel; cases hrel
    · exact absurd hd hrel
  · exact hg

/-- `modelType` as the top-most carriers among the ancestors want it -/
theorem mtop_of_doc {defs : Defs} {c b : Cls} {kvs : List (Text × Json)}
    (hmt : c.withModelType = true → lookup modelTypeKey kvs = some (.str c.mt))
    (hacc : c.withModelType = true → Valid defs (refTo (ascii "ModelType")) (.str c.mt))
    (hinh : b.withModelType = true → c.withModelType = true) : MTopOK defs b kvs := by
  intro htop
  have hw := hinh (topMT_withModelType htop)
  exact ⟨_, hmt hw, hacc hw⟩

/-- **Whole documents, exactly** (C11 `⇐`, C12 `⇒`). -/
theorem document_iff (mm : MM) (defs : Defs) (h : generate mm = .ok defs) (hwf : hierOK mm = true)
    {c : Cls} (hc : OurType.cls c ∈ mm.types) (hconc : c.abstract = false) (j : Json) :
    Valid defs (refTo c.mt) j ↔ DocOK mm defs c j := by
  obtain ⟨hgr, hfree⟩ := hierOK_spec hwf
  have hg := hgr c hc (Or.inl hconc)
  have hD := generate_defsFor mm defs h
  obtain ⟨s, hs, hlk⟩ := generate_concrete_lookup mm defs h hc hconc
  have hvs : Valid defs (refTo c.mt) j ↔ Valid defs s j := by
    rw [valid_ref_iff, hlk]
    constructor
    · rintro ⟨s', hs', hv⟩; cases hs'; exact hv
    · intro hv; exact ⟨s, rfl, hv⟩
  have hacc : c.withModelType = true → Valid defs (refTo (ascii "ModelType")) (.str c.mt) :=
    fun hw => modelType_accepts mm defs h hfree hc hconc hw
  unfold DocOK ancestorsOf
  rw [hvs]
  by_cases hleaf : c.cdesc = []
  · -- a class without concrete descendants
    obtain ⟨n, hn⟩ : ∃ n, mm.types.length = n + 1 := by
      cases hlen : mm.types.length with
      | zero => rw [hlen] at hg; simp [grounded] at hg
      | succ n => exact ⟨n, rfl⟩
    rw [hn] at hg ⊢
    obtain ⟨hloc, _⟩ := grounded_succ hg
    obtain ⟨hnd, hnm⟩ := namesOK_spec (localOK_spec hloc).1
    obtain ⟨props, hprops, _, _⟩ := concrete_leaf_shape hs hleaf
    rw [concrete_leaf_iff defs hs hleaf hnd hnm j]
    constructor
    · rintro ⟨hpv, hbody⟩
      have hch : ∀ i ∈ c.inh, ∀ a', findCls mm.types i.mt = some a' → ChainOK defs mm.types n a' j := by
        intro i hi a' hf
        obtain ⟨a'', hf', hmem, hd', hrn, _, _, hg'⟩ := grounded_link hg hi
        rw [hf] at hf'
        cases hf'
        exact (chain_iff defs hD n a' hmem hd' hg' j).mp (hrn ▸ hpv i hi)
      have hobj : ∃ kvs, j = .obj kvs := by
        cases hi : c.inh with
        | nil => exact hbody.1 hi
        | cons i is =>
          have him : i ∈ c.inh := by rw [hi]; exact List.mem_cons_self
          obtain ⟨a', hf, _⟩ := grounded_link hg him
          obtain ⟨kvs, hj, _⟩ := hch i him a' hf
          exact ⟨kvs, hj⟩
      obtain ⟨kvs, rfl⟩ := hobj
      obtain ⟨hreq, hpin, hmtk, hpo⟩ := hbody.2 kvs rfl
      refine ⟨kvs, rfl, ?_, ?_⟩
      · intro hw
        have hpresent : ∃ v, lookup modelTypeKey kvs = some v := by
          by_cases hany : c.inh.any (·.withModelType) = true
          · obtain ⟨i, hi, hiw⟩ := List.any_eq_true.mp hany
            obtain ⟨a, hf, _, _, _, hwa, _, hg'⟩ := grounded_link hg hi
            obtain ⟨b, hb, hbt⟩ := exists_topMT n a hg' (by rw [← hwa]; exact hiw)
            obtain ⟨kvs', hj, hall⟩ := hch i hi a hf
            cases hj
            obtain ⟨v, hv, _⟩ := (hall b hb).2 hbt
            exact ⟨v, hv⟩
          · simp only [Bool.not_eq_true] at hany
            have hk := hmtk hw hany
            unfold hasKey at hk
            cases hl : lookup modelTypeKey kvs with
            | none => simp [hl] at hk
            | some v => exact ⟨v, rfl⟩
        obtain ⟨v, hv⟩ := hpresent
        rw [hv, hpin hw v hv]
      · intro b hb
        rcases List.mem_cons.mp hb with rfl | hb
        · refine members_of_props defs mm.types hprops hloc hreq hpo ?_
          intro i hi a' hf
          obtain ⟨kvs', hj, hall⟩ := hch i hi a' hf
          cases hj
          exact (hall a' List.mem_cons_self).1
        · obtain ⟨i, hi, a', hf, hba⟩ := mem_ancestors_succ.mp hb
          obtain ⟨kvs', hj, hall⟩ := hch i hi a' hf
          cases hj
          rcases hba with rfl | hba
          · exact (hall _ List.mem_cons_self).1
          · exact (hall _ (List.mem_cons_of_mem _ hba)).1
    · rintro ⟨kvs, rfl, hmt, hall⟩
      constructor
      · intro i hi
        obtain ⟨a', hf, hmem', hd', hrn, _, _, hg'⟩ := grounded_link hg hi
        rw [hrn]
        refine (chain_iff defs hD n a' hmem' hd' hg' _).mpr ⟨kvs, rfl, ?_⟩
        intro b hb
        have hbanc : b ∈ ancestors mm.types (n + 1) c := by
          refine mem_ancestors_succ.mpr ⟨i, hi, a', hf, ?_⟩
          rcases List.mem_cons.mp hb with rfl | hb
          · exact Or.inl rfl
          · exact Or.inr hb
        exact ⟨hall b (List.mem_cons_of_mem _ hbanc),
          mtop_of_doc hmt hacc (anc_withModelType (n + 1) c b hg hbanc)⟩
      · refine ⟨fun _ => ⟨kvs, rfl⟩, ?_⟩
        intro kvs' hj
        cases hj
        have hmem := hall c List.mem_cons_self
        refine ⟨hmem.1, ?_, ?_, props_of_members defs hmem⟩
        · intro hw v hl
          rw [hmt hw] at hl
          cases hl
          rfl
        · intro hw _
          unfold hasKey
          rw [hmt hw]
          rfl
  · -- a class with concrete descendants: `allOf[X_abstract, const]`
    obtain ⟨_, hw, hiff⟩ := concrete_desc_iff defs hs hleaf j
    have hkey : inhKey c = sfx c.mt "_abstract" := by unfold inhKey; rw [hconc]; rfl
    rw [hiff, ← hkey, chain_iff defs hD _ c hc hleaf hg j]
    constructor
    · rintro ⟨⟨kvs, rfl, hall⟩, hpin⟩
      refine ⟨kvs, rfl, ?_, fun b hb => (hall b hb).1⟩
      intro _
      obtain ⟨b, hb, hbt⟩ := exists_topMT _ c hg hw
      obtain ⟨v, hv, _⟩ := (hall b hb).2 hbt
      rw [hv, hpin kvs rfl v hv]
    · rintro ⟨kvs, rfl, hmt, hall⟩
      refine ⟨⟨kvs, rfl, fun b hb => ⟨hall b hb, mtop_of_doc hmt hacc (fun _ => hw)⟩⟩, ?_⟩
      intro kvs' hj v hl
      cases hj
      rw [hmt hw] at hl
      cases hl
      rfl

end AasVerif.JsonSchema
