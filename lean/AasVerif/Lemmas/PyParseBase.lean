import AasVerif.Model.PyParse
/-!
Basic facts about the token printer and the reader of `Model/PyParse.lean`:
the first token of a printed expression, where the loops of the reader stop, and the lifting
of a reading at one grammar level to the looser levels.
-/
namespace AasVerif.PyEmit
open AasVerif AasVerif.Expr

@[simp] theorem PR.bind_ok {α β} (x : α) (r : List Tok) (f : α → List Tok → PR β) :
    (PR.ok x r).bind f = f x r := rfl
@[simp] theorem PR.bind_fail {α β} (f : α → List Tok → PR β) : (PR.fail : PR α).bind f = .fail := rfl
@[simp] theorem PR.bind_outside {α β} (f : α → List Tok → PR β) : (PR.outside : PR α).bind f = .outside := rfl

@[simp] theorem wrapB_one {b : Bool} (a : PyExpr) (r : List Tok) : wrapB (isAnd := b) (.ok [a] r) = .ok a r := rfl
@[simp] theorem wrapB_two {b : Bool} (a c : PyExpr) (as : List PyExpr) (r : List Tok) :
    wrapB (isAnd := b) (.ok (a :: c :: as) r) = .ok (.boolop b (a :: c :: as)) r := rfl

/-- Binding strength of a token met *after* a complete operand: the level of the production
it continues (`or` 1, `and` 2, comparison operators — `not` starts `not in` — 4, `+ -` 5,
trailers 7), 0 for a token that continues nothing. -/
def binPrec : Tok → Nat
  | .kwOr => 1
  | .kwAnd => 2
  | .kwNot | .kwIn | .kwIs | .cmp _ => 4
  | .plus | .minus => 5
  | .dot | .lbrack | .lpar => 7
  | _ => 0

/-- the tokens that follow do not continue a production of level `lvl` or tighter -/
def stops (lvl : Nat) : List Tok → Bool
  | [] => true
  | t :: _ => decide (binPrec t < lvl)

theorem stops_mono {a b : Nat} (h : a ≤ b) : ∀ {r : List Tok}, stops a r = true → stops b r = true
  | [], _ => rfl
  | t :: _, hs => by
    simp only [stops, decide_eq_true_eq] at hs ⊢
    omega

/-- a token that can start an expression -/
def starter : Tok → Bool
  | .that | .var _ | .constRef _ | .enumRef _ | .funRef _ | .noneK | .trueK | .falseK
  | .int _ | .float _ | .str _ | .fstart | .lpar | .minus | .kwNot | .anyK | .allK => true
  | _ => false

/-- What the first token says about the expression. -/
structure Starts (t : Tok) (lvl : Nat) : Prop where
  st : starter t = true
  notK : t = .kwNot → lvl ≤ 3
  minusK : t = .minus → lvl ≤ 6

theorem starts_atom {t : Tok} (h : starter t = true) (h1 : t ≠ .kwNot) (h2 : t ≠ .minus) (lvl : Nat) :
    Starts t lvl := ⟨h, fun e => absurd e h1, fun e => absurd e h2⟩

/-- the first token of a printed expression -/
theorem head_print : ∀ (x : PyExpr), parenOK x = true →
    ∃ t ts, print x = t :: ts ∧ Starts t x.level
  | .that, _ => ⟨_, _, rfl, starts_atom rfl (by simp) (by simp) _⟩
  | .var _, _ => ⟨_, _, rfl, starts_atom rfl (by simp) (by simp) _⟩
  | .constRef _, _ => ⟨_, _, rfl, starts_atom rfl (by simp) (by simp) _⟩
  | .enumRef _, _ => ⟨_, _, rfl, starts_atom rfl (by simp) (by simp) _⟩
  | .funRef _, _ => ⟨_, _, rfl, starts_atom rfl (by simp) (by simp) _⟩
  | .noneC, _ => ⟨_, _, rfl, starts_atom rfl (by simp) (by simp) _⟩
  | .tru, _ => ⟨_, _, rfl, starts_atom rfl (by simp) (by simp) _⟩
  | .fls, _ => ⟨_, _, rfl, starts_atom rfl (by simp) (by simp) _⟩
  | .int _, _ => ⟨_, _, rfl, starts_atom rfl (by simp) (by simp) _⟩
  | .float _, _ => ⟨_, _, rfl, starts_atom rfl (by simp) (by simp) _⟩
  | .str _, _ => ⟨_, _, rfl, starts_atom rfl (by simp) (by simp) _⟩
  | .neg e, _ => ⟨_, _, rfl, ⟨rfl, by simp, fun _ => by simp [PyExpr.level]⟩⟩
  | .attr e k n, h => by
    simp only [parenOK, Bool.and_eq_true, decide_eq_true_eq] at h
    obtain ⟨t, ts, hp, hs⟩ := head_print e h.2
    refine ⟨t, ts ++ [.dot, .attrName k n], by simp [print, hp], hs.st, fun e => ?_, fun e => ?_⟩
    · have := hs.notK e; omega
    · have := hs.minusK e; omega
  | .subscript e i, h => by
    simp only [parenOK, Bool.and_eq_true, decide_eq_true_eq] at h
    obtain ⟨t, ts, hp, hs⟩ := head_print e h.1.2
    refine ⟨t, ts ++ .lbrack :: (print i ++ [.rbrack]), by simp [print, hp], hs.st, fun e => ?_, fun e => ?_⟩
    · have := hs.notK e; omega
    · have := hs.minusK e; omega
  | .callMethod e m args, h => by
    simp only [parenOK, Bool.and_eq_true, decide_eq_true_eq] at h
    obtain ⟨t, ts, hp, hs⟩ := head_print e h.1.2
    refine ⟨t, ts ++ .dot :: .attrName .method m :: .lpar :: printArgs args, by simp [print, hp], hs.st,
      fun e => ?_, fun e => ?_⟩
    · have := hs.notK e; omega
    · have := hs.minusK e; omega
  | .callFun _ _, _ => ⟨_, _, rfl, starts_atom rfl (by simp) (by simp) _⟩
  | .compare l op r, h => by
    simp only [parenOK, Bool.and_eq_true, decide_eq_true_eq] at h
    obtain ⟨t, ts, hp, hs⟩ := head_print l h.1.2
    refine ⟨t, ts ++ (opToks op ++ print r), by simp [print, hp], hs.st, fun e => ?_, fun e => ?_⟩
    · have := hs.notK e; omega
    · simp [PyExpr.level]
  | .not e, _ => ⟨_, _, rfl, ⟨rfl, fun _ => by simp [PyExpr.level], by simp⟩⟩
  | .boolop a [], h => by cases a <;> simp [parenOK] at h
  | .boolop a (v :: vs), h => by
    have hv : parenOK v = true := by
      cases a <;> simp only [parenOK, parenOKList, Bool.and_eq_true] at h <;> exact h.2.1.2
    obtain ⟨t, ts, hp, hs⟩ := head_print v hv
    refine ⟨t, ts ++ printValsTail (boolKw a) vs, by simp [print, printVals, hp], hs.st, fun _ => ?_, fun _ => ?_⟩
    · cases a <;> simp [PyExpr.level]
    · cases a <;> simp [PyExpr.level]
  | .binop a l r, h => by
    simp only [parenOK, Bool.and_eq_true, decide_eq_true_eq] at h
    obtain ⟨t, ts, hp, hs⟩ := head_print l h.1.2
    refine ⟨t, ts ++ (if a then Tok.plus else Tok.minus) :: print r, by simp [print, hp], hs.st, fun e => ?_, fun e => ?_⟩
    · have := hs.notK e; omega
    · simp [PyExpr.level]
  | .fstring _, _ => ⟨_, _, rfl, starts_atom rfl (by simp) (by simp) _⟩
  | .quant a _ _ _, _ => by
    cases a
    · exact ⟨_, _, rfl, starts_atom rfl (by simp) (by simp) _⟩
    · exact ⟨_, _, rfl, starts_atom rfl (by simp) (by simp) _⟩
  | .paren _, _ => ⟨_, _, rfl, starts_atom rfl (by simp) (by simp) _⟩

theorem print_pos (x : PyExpr) (h : parenOK x = true) : 1 ≤ (print x).length := by
  obtain ⟨t, ts, hp, _⟩ := head_print x h
  simp [hp]

/-! ## where the loops stop -/

theorem pArithRest_stop (m : Nat) (acc : PyExpr) {rest : List Tok} (h : stops 5 rest = true) :
    pArithRest (m + 1) acc rest = .ok acc rest := by
  match rest, h with
  | [], _ => simp [pArithRest]
  | t :: r, h => cases t <;> simp [pArithRest, stops, binPrec] at h ⊢

theorem pTrailers_stop (m : Nat) (acc : PyExpr) {rest : List Tok} (h : stops 7 rest = true) :
    pTrailers (m + 1) acc rest = .ok acc rest := by
  match rest, h with
  | [], _ => simp [pTrailers]
  | t :: r, h => cases t <;> simp [pTrailers, stops, binPrec] at h ⊢

theorem readOp_stop {rest : List Tok} (h : stops 4 rest = true) : readOp rest = .noOp := by
  match rest, h with
  | [], _ => rfl
  | t :: r, h => cases t <;> simp [readOp, stops, binPrec] at h ⊢

theorem stops_cons {lvl : Nat} {t : Tok} {r : List Tok} : stops lvl (t :: r) = decide (binPrec t < lvl) := rfl

end AasVerif.PyEmit
