import AasVerif.Lemmas.CacheInv
/-!
No spurious crash: a run into which no fault was injected never raises — for every op skeleton
accepted by `Safe` AND by the second static checker `Live` (files exist when they are opened /
renamed, handles are open when used, the directory was created before the tmp file, `exist_ok` /
`missing_ok` are set where another run may have been faster).
-/
namespace AasVerif.Cache

def liveOp (o : Op) (hit : Option Bool) (w : WK) (computed rd ld mkd te : Bool) : Bool :=
  match o with
  | .openR _ => hit == some true
  | .load => rd
  | .retCached => ld
  | .mkdir eok => eok
  | .openW _ => mkd && w == .none
  | .dump => w == .opened && computed
  | .closeW => w != .none
  | .rename _ _ => te
  | .unlink _ mok => mok || te
  | .ret => computed
  | _ => true

def Live (hit : Option Bool) (w : WK) (computed rd ld mkd te : Bool) : List GOp → Bool
  | [] => false
  | g :: rest =>
    if skip .running hit g then Live hit w computed rd ld mkd te rest
    else
      liveOp g.op hit w computed rd ld mkd te &&
      (match g.op with
       | .exists _ => Live (some true) w computed rd ld mkd te rest && Live (some false) w computed rd ld mkd te rest
       | .retCached => true
       | .ret => true
       | .openR _ => Live hit w computed true ld mkd te rest
       | .load => Live hit w computed rd true mkd te rest
       | .compute => Live hit w true rd ld mkd te rest
       | .mkdir _ => Live hit w computed rd ld true te rest
       | .openW _ => Live hit .opened computed rd ld mkd true rest
       | .dump => Live hit .dumped computed rd ld mkd te rest
       | .closeW => Live hit .none computed rd ld mkd te rest
       | .rename _ _ => Live hit w computed rd ld mkd false rest
       | .unlink _ _ => Live hit w computed rd ld mkd false rest
       | _ => Live hit w computed rd ld mkd te rest)

def LiveSkeleton (ops : List GOp) : Prop :=
  ∀ flag, Live none .none false false false false false (program ops flag) = true

def LiveOf (p : Proc) : Prop :=
  Live p.hit (wkOf p.w) p.computed p.rh.isSome p.loaded.isSome p.mkd p.te p.todo = true

structure LiveP (cfg : Cfg) (fs : FS) (dir : Bool) (i : Nat) (p : Proc) : Prop where
  alive : p.faulted = false → (p.mode = .running ∧ LiveOf p) ∨ p.mode = .finished (uncached cfg p.text)
  hitF : p.hit = some true → (fs (finalOf cfg p.text)).isSome = true
  mkdF : p.mkd = true → dir = true
  teF : p.te = true → (fs (tmpOf cfg i p.text)).isSome = true

theorem Live_dropSkipped (hit : Option Bool) (w : WK) (c rd ld mkd te : Bool) (l : List GOp)
    (h : Live hit w c rd ld mkd te l = true) : Live hit w c rd ld mkd te (dropSkipped .running hit l) = true := by
  induction l with
  | nil => simp [Live] at h
  | cons g rest ih =>
    unfold dropSkipped
    by_cases hs : skip .running hit g = true
    · simp only [hs, if_true]
      apply ih
      unfold Live at h
      simpa [hs] using h
    · simp only [hs]
      exact h

theorem Live_cons (hit : Option Bool) (w : WK) (c rd ld mkd te : Bool) (g : GOp) (rest : List GOp)
    (hsk : skip .running hit g = false) (h : Live hit w c rd ld mkd te (g :: rest) = true) :
    liveOp g.op hit w c rd ld mkd te = true ∧
    (match g.op with
       | .exists _ => Live (some true) w c rd ld mkd te rest = true ∧ Live (some false) w c rd ld mkd te rest = true
       | .retCached => True
       | .ret => True
       | .openR _ => Live hit w c true ld mkd te rest = true
       | .load => Live hit w c rd true mkd te rest = true
       | .compute => Live hit w true rd ld mkd te rest = true
       | .mkdir _ => Live hit w c rd ld true te rest = true
       | .openW _ => Live hit .opened c rd ld mkd true rest = true
       | .dump => Live hit .dumped c rd ld mkd te rest = true
       | .closeW => Live hit .none c rd ld mkd te rest = true
       | .rename _ _ => Live hit w c rd ld mkd false rest = true
       | .unlink _ _ => Live hit w c rd ld mkd false rest = true
       | _ => Live hit w c rd ld mkd te rest = true) := by
  unfold Live at h
  simp only [hsk, Bool.false_eq_true, if_false, Bool.and_eq_true] at h
  refine ⟨h.1, ?_⟩
  have h2 := h.2
  cases hop : g.op <;> simp_all

/-- settling a live running run keeps it running and live -/
theorem settle_live (p : Proc) (hm : p.mode = .running) (hl : LiveOf p) :
    (settle p).mode = .running ∧ LiveOf (settle p) := by
  have hd := Live_dropSkipped _ _ _ _ _ _ _ _ hl
  unfold settle
  rw [hm]
  simp only
  split
  · next he =>
    have : dropSkipped Mode.running p.hit p.todo = [] := by simpa using he
    rw [this] at hd
    simp [Live] at hd
  · exact ⟨rfl, by unfold LiveOf; simpa using hd⟩

end AasVerif.Cache
