import AasVerif.Lemmas.TargetEval
import AasVerif.Lemmas.PyEmit
/-!
C09, TypeScript: what `Ts.transpile` emits means, under any semantics that is sound with respect
to Python (`SemSound`), what the source expression means — or the evaluation leaves the modelled
domain.  Whole expression language.
-/
namespace AasVerif.TargetEmit
open AasVerif AasVerif.Expr
open AasVerif.PyEmit (Res hasFv litsOf evalParts_noFv)

mutual
  /-- no generator variable is called `len` (it would shadow the built-in) -/
  def noLenVar : Expr → Bool
    | .const _ | .name _ => true
    | .member e _ => noLenVar e
    | .index a b | .cmp a _ b | .isIn a b | .impl a b | .add a b | .sub a b => noLenVar a && noLenVar b
    | .methodCall e _ args => noLenVar e && noLenVarList args
    | .funCall _ args => noLenVarList args
    | .isNone e | .isNotNone e | .not e => noLenVar e
    | .and es | .or es => noLenVarList es
    | .joinedStr ps => noLenVarParts ps
    | .any g c | .all g c => noLenVarGen g && noLenVar c
  def noLenVarList : List Expr → Bool
    | [] => true
    | e :: es => noLenVar e && noLenVarList es
  def noLenVarParts : List JPart → Bool
    | [] => true
    | .lit _ :: ps => noLenVarParts ps
    | .fv e :: ps => noLenVar e && noLenVarParts ps
  def noLenVarGen : Gen → Bool
    | .forEach x it => !(x == lenName) && noLenVar it
    | .forRange x a b => !(x == lenName) && noLenVar a && noLenVar b
end

@[simp] theorem evalT_paren (sem : Sem) (ρ : Env) (x : TExpr) : evalT sem ρ (.paren x) = evalT sem ρ x := by
  simp [evalT]

@[simp] theorem evalT_parenUnless (sem : Sem) (ρ : Env) (tbl : List Kind) (c : Expr) (x : TExpr) :
    evalT sem ρ (parenUnless tbl c x) = evalT sem ρ x := by
  unfold parenUnless; split <;> simp

theorem bind_val (p : TOut) : (p.bind fun v => .val v) = p := by cases p <;> rfl

theorem LenBuiltin_bind {ρ : Env} {x : Text} (v : Val) (h : LenBuiltin ρ) (hx : (x == lenName) = false) :
    LenBuiltin (ρ.bind x v) := by
  refine ⟨?_, h.2⟩
  have hne : x ≠ lenName := by simpa using hx
  simp only [Env.bind, lookup, hne, if_false]
  exact h.1

theorem evalGen_err (ρ : Env) (g : Gen) (o : Out) (h : Expr.evalGen ρ g = .err o) : coarse o = .raised := by
  cases g with
  | forEach x it =>
    simp only [Expr.evalGen] at h
    cases he : Expr.eval ρ it <;> simp only [he] at h
    · split at h <;> cases h; rfl
    all_goals (cases h; rfl)
  | forRange x a b =>
    simp only [Expr.evalGen] at h
    cases ha : Expr.eval ρ a <;> simp only [ha] at h
    · cases hb : Expr.eval ρ b <;> simp only [hb] at h
      · split at h <;> cases h; rfl
      all_goals (cases h; rfl)
    all_goals (cases h; rfl)

theorem coarse_evalParts_lit (ρ : Env) (s : Text) (ps : List JPart) :
    coarse (Expr.evalParts ρ (.lit s :: ps)) = (coarse (Expr.evalParts ρ ps)).bind fun r => joinStr (.str s) r := by
  simp only [Expr.evalParts]
  cases Expr.evalParts ρ ps with
  | val v => cases v <;> simp [coarse, TOut.bind, joinStr]
  | _ => simp [coarse, TOut.bind]

theorem coarse_evalParts_fv (ρ : Env) (e : Expr) (ps : List JPart) :
    coarse (Expr.evalParts ρ (.fv e :: ps)) =
      (coarse (Expr.eval ρ e)).bind fun v =>
        (coarse (fmtVal ρ v)).bind fun t =>
          (coarse (Expr.evalParts ρ ps)).bind fun r => joinStr t r := by
  simp only [Expr.evalParts]
  cases Expr.eval ρ e with
  | val v =>
    simp only [coarse, TOut.bind]
    cases fmtVal ρ v with
    | val t =>
      cases Expr.evalParts ρ ps with
      | val r => cases t <;> cases r <;> simp [coarse, TOut.bind, joinStr]
      | _ => cases t <;> simp [coarse, TOut.bind]
    | _ => simp [coarse, TOut.bind]
  | _ => simp [coarse, TOut.bind]

theorem Ts.emitCmp_ok (op : Cmp) : emitCmp Gen.TargetEmit.Ts.comparisonMap op = .ok op := by
  cases op <;> rfl

theorem R_lastOperand {sem : Sem} (hs : SemSound sem) (f : FloatOps) {a : TOut} {p : TOut} (h : R a p) :
    R (a.bind (lastOp sem f)) p := by
  rcases h with h | h
  · subst h; exact Or.inl rfl
  · subst h
    cases a with
    | val v =>
      simp only [TOut.bind, lastOp]
      cases hl : sem.lastOperand f v with
      | none => exact Or.inl rfl
      | some w => rw [hs.lastOperand f v w hl]; exact Or.inr rfl
    | raised => exact Or.inr rfl
    | off => exact Or.inl rfl

/-- `!a || c` is the implication -/
theorem R_impl {sem : Sem} (hs : SemSound sem) (ρ : Env) {a' c' : TExpr} {a c : Expr}
    (iha : R (evalT sem ρ a') (coarse (Expr.eval ρ a))) (ihc : R (evalT sem ρ c') (coarse (Expr.eval ρ c))) :
    R (evalT sem ρ (.boolop false [.not a', c'])) (coarse (Expr.eval ρ (.impl a c))) := by
  rw [coarse_impl]
  simp only [evalT, evalBoolT]
  rcases iha with iha | iha
  · rw [iha]; exact Or.inl rfl
  · rw [iha]
    cases Expr.eval ρ a with
    | val av =>
      simp only [coarse, TOut.bind]
      cases hta : sem.truthy ρ.fops av with
      | none => exact Or.inl rfl
      | some b =>
        have hb := hs.truthy _ _ _ hta
        subst hb
        simp only [TOut.bind]
        cases htb : sem.truthy ρ.fops (.bool (!av.truthy ρ.fops)) with
        | none => exact Or.inl rfl
        | some b2 =>
          have hb2 : b2 = !av.truthy ρ.fops := hs.truthy _ _ _ htb
          subst hb2
          cases hav : av.truthy ρ.fops
          · exact Or.inr rfl
          · exact R_lastOperand hs ρ.fops ihc
    | _ => exact Or.inr rfl

/-- quantifiers, in any of the three shapes -/
theorem R_quant {sem : Sem} (hs : SemSound sem) (ρ : Env) (isAny : Bool) {l : Lang} {g : Gen} {c : Expr}
    {v : Text} {it : TIter} {c' : TExpr}
    (ihg : RI v (evalIterT sem ρ it) (Expr.evalGen ρ g))
    (ihc : ∀ item, R (evalT sem (ρ.bind v item) c') (coarse (Expr.eval (ρ.bind v item) c))) :
    R (evalT sem ρ (.quant l isAny c' v it)) (coarse (Expr.eval ρ (if isAny then .any g c else .all g c))) := by
  rw [coarse_quant]
  simp only [evalT]
  cases hT : evalIterT sem ρ it with
  | off => exact Or.inl rfl
  | items ws =>
    cases hG : Expr.evalGen ρ g <;> simp only [hT, hG, RI] at ihg
    obtain ⟨h1, h2⟩ := ihg
    subst h1 h2
    exact R_quantLoop (hs.truthy ρ.fops) isAny ihc ws
  | range s n =>
    cases hG : Expr.evalGen ρ g <;> simp only [hT, hG, RI] at ihg
    obtain ⟨h1, h2, h3⟩ := ihg
    subst h1 h2 h3
    exact R_rangeLoop (hs.truthy ρ.fops) isAny ihc n s
  | raised =>
    cases hG : Expr.evalGen ρ g <;> simp only [hT, hG, RI] at ihg
    simp only []
    rw [evalGen_err ρ g _ hG]
    exact Or.inr rfl

theorem Ts.genVar_notLen (cfg : TCfg) (g : Gen) (vs : List Text) (v : Text) (it : TIter)
    (hng : noLenVarGen g = true) (hg : Ts.transpileGen cfg vs g = .ok (v, it)) : (v == lenName) = false := by
  cases g with
  | forEach y e =>
    simp only [Ts.transpileGen, Res.bind_eq_ok] at hg
    obtain ⟨_, _, hg⟩ := hg
    cases hg
    simp only [noLenVarGen, Bool.and_eq_true, Bool.not_eq_true'] at hng
    exact hng.1
  | forRange y a b =>
    simp only [Ts.transpileGen, Res.bind_eq_ok] at hg
    obtain ⟨_, _, _, _, hg⟩ := hg
    cases hg
    simp only [noLenVarGen, Bool.and_eq_true, Bool.not_eq_true'] at hng
    exact hng.1.1

mutual
  theorem ts_preserves (sem : Sem) (hs : SemSound sem) (cfg : TCfg) :
      ∀ (e : Expr) (vs : List Text) (x : TExpr), noLenVar e = true → Ts.transpile cfg vs e = .ok x →
        ∀ ρ : Env, LenBuiltin ρ → R (evalT sem ρ x) (coarse (Expr.eval ρ e))
    | .name n, vs, x, _, h, ρ, _ => by
      simp only [Ts.transpile, transpileName] at h
      rw [coarse_name]
      split at h
      · cases h; exact Or.inr (by simp only [evalT])
      · split at h
        · next hsf => cases h; subst hsf; exact Or.inr (by simp only [evalT])
        · split at h <;> first | (cases h; exact Or.inr (by simp only [evalT])) | cases h
    | .const c, vs, x, _, h, ρ, _ => by
      simp only [Ts.transpile, Ts.transpileConst] at h
      have : x = .lit c := by
        split at h
        · split at h <;> first | (cases h; rfl) | cases h
        · cases h; rfl
      subst this
      exact Or.inr (by simp only [evalT, Expr.eval, coarse])
    | .member inst n, vs, x, hn, h, ρ, hl => by
      simp only [Ts.transpile, Res.bind_eq_ok] at h
      obtain ⟨i', hi, h⟩ := h
      simp only [noLenVar] at hn
      have ih := ts_preserves sem hs cfg inst vs i' hn hi ρ hl
      split at h
      · cases h
        simp only [evalT]; rw [coarse_member]
        exact R_bind ih (fun v => Or.inr rfl)
      · cases h
    | .index c i, vs, x, hn, h, ρ, hl => by
      simp only [Ts.transpile, Res.bind_eq_ok] at h
      obtain ⟨c', hc, i', hi, h⟩ := h
      simp only [noLenVar, Bool.and_eq_true] at hn
      cases h
      simp only [evalT, evalT_parenUnless]; rw [coarse_index]
      exact R_bind2 (ts_preserves sem hs cfg c vs c' hn.1 hc ρ hl) (ts_preserves sem hs cfg i vs i' hn.2 hi ρ hl)
        (fun a b => R_ofOpt (hs.index _ a b))
    | .cmp l op r, vs, x, hn, h, ρ, hl => by
      simp only [Ts.transpile, Res.bind_eq_ok, Ts.emitCmp_ok] at h
      obtain ⟨o, ho, l', hl', r', hr', h⟩ := h
      cases ho
      simp only [noLenVar, Bool.and_eq_true] at hn
      have ihl := ts_preserves sem hs cfg l vs l' hn.1 hl' ρ hl
      have ihr := ts_preserves sem hs cfg r vs r' hn.2 hr' ρ hl
      split at h <;> cases h <;> simp only [evalT, evalT_paren] <;> rw [coarse_cmp] <;>
        exact R_bind2 ihl ihr (fun a b => R_ofOpt (hs.cmp _ _ _ _ a b))
    | .isIn m c, vs, x, hn, h, ρ, hl => by
      simp only [Ts.transpile, Res.bind_eq_ok] at h
      obtain ⟨m', hm, c', hc, h⟩ := h
      simp only [noLenVar, Bool.and_eq_true] at hn
      have ihm := ts_preserves sem hs cfg m vs m' hn.1 hm ρ hl
      have ihc := ts_preserves sem hs cfg c vs c' hn.2 hc ρ hl
      have key : ∀ k, R (evalT sem ρ (.contains k (parenUnless Gen.TargetEmit.Ts.isIn c c') m'))
          (coarse (Expr.eval ρ (.isIn m c))) := by
        intro k
        simp only [evalT, evalT_parenUnless]; rw [coarse_isIn, bind2_swap]
        exact R_bind2 ihm ihc (fun mv cv => R_ofOpt (hs.contains _ k cv mv))
      split at h
      · cases h
      · split at h
        · cases h
        · split at h <;> first | (cases h; exact key _) | cases h
    | .impl a c, vs, x, hn, h, ρ, hl => by
      simp only [Ts.transpile, Res.bind_eq_ok] at h
      obtain ⟨a', ha, c', hc, h⟩ := h
      simp only [noLenVar, Bool.and_eq_true] at hn
      cases h
      exact R_impl hs ρ (by simpa using ts_preserves sem hs cfg a vs a' hn.1 ha ρ hl)
        (by simpa using ts_preserves sem hs cfg c vs c' hn.2 hc ρ hl)
    | .methodCall inst n args, vs, x, hn, h, ρ, hl => by
      simp only [Ts.transpile, Res.bind_eq_ok] at h
      obtain ⟨i', hi, as', has, h⟩ := h
      simp only [noLenVar, Bool.and_eq_true] at hn
      cases h
      simp only [evalT, evalT_parenUnless]; rw [coarse_methodCall]
      exact R_bind (ts_preserves sem hs cfg inst vs i' hn.1 hi ρ hl)
        (fun recv => RA_bind (ts_preservesArgs sem hs cfg args vs as' hn.2 has ρ hl) (fun _ => Or.inr rfl))
    | .funCall n [], vs, x, hn, h, ρ, hl => by
      simp only [Ts.transpile] at h
      simp only [noLenVar] at hn
      split at h
      · cases h
      · simp only [Res.bind_eq_ok] at h
        obtain ⟨as', has, h⟩ := h
        cases h
        simp only [evalT]; rw [coarse_funCall]
        exact RA_bind (ts_preservesArgs sem hs cfg _ vs as' hn has ρ hl) (fun _ => Or.inr rfl)
      · split at h <;> cases h
      · cases h
    | .funCall n [a], vs, x, hn, h, ρ, hl => by
      simp only [Ts.transpile] at h
      simp only [noLenVar] at hn
      split at h
      · cases h
      · simp only [Res.bind_eq_ok] at h
        obtain ⟨as', has, h⟩ := h
        cases h
        simp only [evalT]; rw [coarse_funCall]
        exact RA_bind (ts_preservesArgs sem hs cfg _ vs as' hn has ρ hl) (fun _ => Or.inr rfl)
      · split at h
        · next hnl =>
          subst hnl
          simp only [Res.bind_eq_ok] at h
          obtain ⟨a', ha, h⟩ := h
          simp only [noLenVarList, Bool.and_eq_true] at hn
          have ih := ts_preserves sem hs cfg a vs a' hn.1 ha ρ hl
          have key : ∀ k, R (evalT sem ρ (.len k (parenUnless Gen.TargetEmit.Ts.len a a')))
              (coarse (Expr.eval ρ (.funCall lenName [a]))) := by
            intro k
            simp only [evalT, evalT_parenUnless]; rw [coarse_len ρ hl a]
            exact R_bind ih (fun v => R_ofOpt (hs.len k v))
          split at h
          · cases h
          · split at h
            · cases h; exact key _
            · cases h; exact key _
            · split at h <;> first | (cases h; exact key _) | cases h
        · cases h
      · cases h
    | .funCall n (a :: b :: rest), vs, x, hn, h, ρ, hl => by
      simp only [Ts.transpile] at h
      simp only [noLenVar] at hn
      split at h
      · cases h
      · simp only [Res.bind_eq_ok] at h
        obtain ⟨as', has, h⟩ := h
        cases h
        simp only [evalT]; rw [coarse_funCall]
        exact RA_bind (ts_preservesArgs sem hs cfg _ vs as' hn has ρ hl) (fun _ => Or.inr rfl)
      · split at h <;> cases h
      · cases h
    | .isNone e, vs, x, hn, h, ρ, hl => by
      simp only [Ts.transpile, Res.bind_eq_ok] at h
      obtain ⟨e', he, h⟩ := h
      simp only [noLenVar] at hn
      cases h
      simp only [evalT, evalT_parenUnless]; rw [coarse_isNone]
      refine R_bind (ts_preserves sem hs cfg e vs e' hn he ρ hl) (fun v => ?_)
      cases hk : sem.isNull .tsStrict v with
      | none => exact Or.inl rfl
      | some b => rw [hs.isNull _ _ _ hk]; exact Or.inr (by cases v <;> rfl)
    | .isNotNone e, vs, x, hn, h, ρ, hl => by
      simp only [Ts.transpile, Res.bind_eq_ok] at h
      obtain ⟨e', he, h⟩ := h
      simp only [noLenVar] at hn
      cases h
      simp only [evalT, evalT_parenUnless]; rw [coarse_isNotNone]
      refine R_bind (ts_preserves sem hs cfg e vs e' hn he ρ hl) (fun v => ?_)
      cases hk : sem.isNull .tsStrict v with
      | none => exact Or.inl rfl
      | some b => rw [hs.isNull _ _ _ hk]; exact Or.inr (by cases v <;> rfl)
    | .not e, vs, x, hn, h, ρ, hl => by
      simp only [Ts.transpile, Res.bind_eq_ok] at h
      obtain ⟨e', he, h⟩ := h
      simp only [noLenVar] at hn
      cases h
      simp only [evalT, evalT_parenUnless]; rw [coarse_not]
      refine R_bind (ts_preserves sem hs cfg e vs e' hn he ρ hl) (fun v => ?_)
      cases hk : sem.truthy ρ.fops v with
      | none => exact Or.inl rfl
      | some b => rw [hs.truthy _ _ _ hk]; exact Or.inr rfl
    | .and [], vs, x, _, h, ρ, _ => by
      simp only [Ts.transpile, Ts.transpileVals, Res.bind_eq_ok] at h
      obtain ⟨vals, hv, h⟩ := h
      cases hv; cases h
    | .or [], vs, x, _, h, ρ, _ => by
      simp only [Ts.transpile, Ts.transpileVals, Res.bind_eq_ok] at h
      obtain ⟨vals, hv, h⟩ := h
      cases hv; cases h
    | .and [e], vs, x, hn, h, ρ, hl => by
      simp only [Ts.transpile, Ts.transpileVals, Res.bind_eq_ok] at h
      obtain ⟨vals, ⟨e', he, es', hes, hv⟩, h⟩ := h
      cases hes; cases hv; cases h
      simp only [noLenVar, noLenVarList, Bool.and_eq_true] at hn
      simpa [Expr.eval, coarse_evalAnd_one] using ts_preserves sem hs cfg e vs e' hn.1 he ρ hl
    | .or [e], vs, x, hn, h, ρ, hl => by
      simp only [Ts.transpile, Ts.transpileVals, Res.bind_eq_ok] at h
      obtain ⟨vals, ⟨e', he, es', hes, hv⟩, h⟩ := h
      cases hes; cases hv; cases h
      simp only [noLenVar, noLenVarList, Bool.and_eq_true] at hn
      simpa [Expr.eval, coarse_evalOr_one] using ts_preserves sem hs cfg e vs e' hn.1 he ρ hl
    | .and (e :: e2 :: es), vs, x, hn, h, ρ, hl => by
      simp only [Ts.transpile, Res.bind_eq_ok] at h
      obtain ⟨vals, hv, h⟩ := h
      simp only [noLenVar] at hn
      have ih := ts_preservesVals sem hs cfg true (e :: e2 :: es) vs vals hn hv (by simp) ρ hl
      simp only [Ts.transpileVals, Res.bind_eq_ok] at hv
      obtain ⟨e', he, es', ⟨e2', he2, es2', hes2, h2⟩, hv⟩ := hv
      cases h2; cases hv; cases h
      simp only [evalT_paren, evalT, Expr.eval]
      simpa using ih
    | .or (e :: e2 :: es), vs, x, hn, h, ρ, hl => by
      simp only [Ts.transpile, Res.bind_eq_ok] at h
      obtain ⟨vals, hv, h⟩ := h
      simp only [noLenVar] at hn
      have ih := ts_preservesVals sem hs cfg false (e :: e2 :: es) vs vals hn hv (by simp) ρ hl
      simp only [Ts.transpileVals, Res.bind_eq_ok] at hv
      obtain ⟨e', he, es', ⟨e2', he2, es2', hes2, h2⟩, hv⟩ := hv
      cases h2; cases hv; cases h
      simp only [evalT_paren, evalT, Expr.eval]
      simpa using ih
    | .add l r, vs, x, hn, h, ρ, hl => by
      simp only [Ts.transpile, Res.bind_eq_ok] at h
      obtain ⟨l', hl', r', hr', h⟩ := h
      simp only [noLenVar, Bool.and_eq_true] at hn
      cases h
      simp only [evalT, evalT_parenUnless]; rw [coarse_add]
      exact R_bind2 (ts_preserves sem hs cfg l vs l' hn.1 hl' ρ hl) (ts_preserves sem hs cfg r vs r' hn.2 hr' ρ hl)
        (fun a b => R_ofOpt (hs.arith _ _ a b))
    | .sub l r, vs, x, hn, h, ρ, hl => by
      simp only [Ts.transpile, Res.bind_eq_ok] at h
      obtain ⟨l', hl', r', hr', h⟩ := h
      simp only [noLenVar, Bool.and_eq_true] at hn
      cases h
      simp only [evalT, evalT_parenUnless]; rw [coarse_sub]
      exact R_bind2 (ts_preserves sem hs cfg l vs l' hn.1 hl' ρ hl) (ts_preserves sem hs cfg r vs r' hn.2 hr' ρ hl)
        (fun a b => R_ofOpt (hs.arith _ _ a b))
    | .joinedStr ps, vs, x, hn, h, ρ, hl => by
      simp only [Ts.transpile] at h
      simp only [noLenVar] at hn
      split at h
      · simp only [Res.bind_eq_ok] at h
        obtain ⟨ps', hp, h⟩ := h
        cases h
        simp only [evalT, Expr.eval]
        exact ts_preservesParts sem hs cfg ps vs ps' hn hp ρ hl
      · next hf =>
        cases h
        simp only [evalT, Expr.eval, evalParts_noFv ρ ps (by simpa using hf), constVal, coarse]
        exact Or.inr rfl
    | .any g c, vs, x, hn, h, ρ, hl => by
      simp only [Ts.transpile, Res.bind_eq_ok] at h
      obtain ⟨⟨v, it⟩, hg, c', hc, h⟩ := h
      simp only [noLenVar, Bool.and_eq_true] at hn
      cases h
      have hv := Ts.genVar_notLen cfg g vs v it hn.1 hg
      exact R_quant hs ρ true (ts_preservesGen sem hs cfg g vs v it hn.1 hg ρ hl)
        (fun item => ts_preserves sem hs cfg c (v :: vs) c' hn.2 hc (ρ.bind v item) (LenBuiltin_bind item hl hv))
    | .all g c, vs, x, hn, h, ρ, hl => by
      simp only [Ts.transpile, Res.bind_eq_ok] at h
      obtain ⟨⟨v, it⟩, hg, c', hc, h⟩ := h
      simp only [noLenVar, Bool.and_eq_true] at hn
      cases h
      have hv := Ts.genVar_notLen cfg g vs v it hn.1 hg
      exact R_quant hs ρ false (ts_preservesGen sem hs cfg g vs v it hn.1 hg ρ hl)
        (fun item => ts_preserves sem hs cfg c (v :: vs) c' hn.2 hc (ρ.bind v item) (LenBuiltin_bind item hl hv))
  theorem ts_preservesGen (sem : Sem) (hs : SemSound sem) (cfg : TCfg) :
      ∀ (g : Gen) (vs : List Text) (v : Text) (it : TIter), noLenVarGen g = true →
        Ts.transpileGen cfg vs g = .ok (v, it) → ∀ ρ : Env, LenBuiltin ρ →
          RI v (evalIterT sem ρ it) (Expr.evalGen ρ g)
    | .forEach y e, vs, v, it, hn, h, ρ, hl => by
      simp only [Ts.transpileGen, Res.bind_eq_ok] at h
      obtain ⟨e', he, h⟩ := h
      simp only [noLenVarGen, Bool.and_eq_true] at hn
      cases h
      have ih := ts_preserves sem hs cfg e vs e' hn.2 he ρ hl
      simp only [evalIterT, evalT_parenUnless, Expr.evalGen]
      rcases ih with ih | ih
      · rw [ih]; simp [RI]
      · rw [ih]
        cases Expr.eval ρ e with
        | val iv =>
          simp only [coarse]
          cases hi : sem.iter iv with
          | none => simp [RI]
          | some l => simp [hs.iter iv l hi, RI]
        | _ => simp [coarse, RI]
    | .forRange y a b, vs, v, it, hn, h, ρ, hl => by
      simp only [Ts.transpileGen, Res.bind_eq_ok] at h
      obtain ⟨a', ha, b', hb, h⟩ := h
      simp only [noLenVarGen, Bool.and_eq_true] at hn
      cases h
      have iha := ts_preserves sem hs cfg a vs a' hn.1.2 ha ρ hl
      have ihb := ts_preserves sem hs cfg b vs b' hn.2 hb ρ hl
      simp only [evalIterT, Expr.evalGen]
      rcases iha with iha | iha
      · rw [iha]; simp [RI]
      · rcases ihb with ihb | ihb
        · rw [ihb]; cases evalT sem ρ a' <;> simp [RI]
        · rw [iha, ihb]
          cases Expr.eval ρ a with
          | val av =>
            cases Expr.eval ρ b with
            | val bv => cases av <;> cases bv <;> simp [coarse, RI, rangeArg]
            | _ => cases av <;> simp [coarse, RI]
          | _ => cases Expr.eval ρ b <;> simp [coarse, RI]
  theorem ts_preservesArgs (sem : Sem) (hs : SemSound sem) (cfg : TCfg) :
      ∀ (es : List Expr) (vs : List Text) (xs : List TExpr), noLenVarList es = true →
        Ts.transpileArgs cfg vs es = .ok xs → ∀ ρ : Env, LenBuiltin ρ →
          RA (evalArgsT sem ρ xs) (Expr.evalArgs ρ es)
    | [], vs, xs, _, h, ρ, _ => by
      simp only [Ts.transpileArgs] at h; cases h; simp [evalArgsT, Expr.evalArgs, RA]
    | e :: es, vs, xs, hn, h, ρ, hl => by
      simp only [Ts.transpileArgs, Res.bind_eq_ok] at h
      obtain ⟨e', he, es', hes, h⟩ := h
      simp only [noLenVarList, Bool.and_eq_true] at hn
      cases h
      simp only [evalArgsT]
      exact RA_cons (ts_preserves sem hs cfg e vs e' hn.1 he ρ hl) (ts_preservesArgs sem hs cfg es vs es' hn.2 hes ρ hl)
  theorem ts_preservesVals (sem : Sem) (hs : SemSound sem) (cfg : TCfg) (isAnd : Bool) :
      ∀ (es : List Expr) (vs : List Text) (xs : List TExpr), noLenVarList es = true →
        Ts.transpileVals cfg vs es = .ok xs → es ≠ [] → ∀ ρ : Env, LenBuiltin ρ →
          R (evalBoolT sem ρ isAnd xs) (coarse (if isAnd then Expr.evalAnd ρ es else Expr.evalOr ρ es))
    | [], vs, xs, _, _, hne, ρ, _ => absurd rfl hne
    | [e], vs, xs, hn, h, _, ρ, hl => by
      simp only [Ts.transpileVals, Res.bind_eq_ok] at h
      obtain ⟨e', he, es', hes, h⟩ := h
      cases hes; cases h
      simp only [noLenVarList, Bool.and_eq_true] at hn
      have ih := ts_preserves sem hs cfg e vs e' hn.1 he ρ hl
      simp only [evalBoolT, evalT_parenUnless]
      have := R_lastOperand hs ρ.fops ih
      cases isAnd <;> simpa [coarse_evalAnd_one, coarse_evalOr_one] using this
    | e :: e2 :: es, vs, xs, hn, h, _, ρ, hl => by
      simp only [Ts.transpileVals, Res.bind_eq_ok] at h
      obtain ⟨e', he, es', ⟨e2', he2, es2', hes2, h2⟩, h⟩ := h
      simp only [noLenVarList, Bool.and_eq_true] at hn
      have ihr := ts_preservesVals sem hs cfg isAnd (e2 :: es) vs es' (by simp [noLenVarList, hn.2]) (by
        simp only [Ts.transpileVals, Res.bind_eq_ok]; exact ⟨e2', he2, es2', hes2, h2⟩) (by simp) ρ hl
      have ih := ts_preserves sem hs cfg e vs e' hn.1 he ρ hl
      cases h2; cases h
      simp only [evalBoolT, evalT_parenUnless] at ihr ⊢
      cases isAnd
      · simp only [Bool.false_eq_true, if_false] at ihr ⊢
        rw [coarse_evalOr_cons]
        refine R_bind ih (fun v => ?_)
        cases hk : sem.truthy ρ.fops v with
        | none => exact Or.inl rfl
        | some b =>
          rw [hs.truthy _ _ _ hk]
          cases v.truthy ρ.fops
          · simpa using ihr
          · simp; exact Or.inr rfl
      · simp only [if_true] at ihr ⊢
        rw [coarse_evalAnd_cons]
        refine R_bind ih (fun v => ?_)
        cases hk : sem.truthy ρ.fops v with
        | none => exact Or.inl rfl
        | some b =>
          rw [hs.truthy _ _ _ hk]
          cases v.truthy ρ.fops
          · simp; exact Or.inr rfl
          · simpa using ihr
  theorem ts_preservesParts (sem : Sem) (hs : SemSound sem) (cfg : TCfg) :
      ∀ (ps : List JPart) (vs : List Text) (xs : List TPart), noLenVarParts ps = true →
        Ts.transpileParts cfg vs ps = .ok xs → ∀ ρ : Env, LenBuiltin ρ →
          R (evalPartsT sem ρ .ts xs) (coarse (Expr.evalParts ρ ps))
    | [], vs, xs, _, h, ρ, _ => by
      simp only [Ts.transpileParts] at h; cases h
      exact Or.inr (by simp [evalPartsT, Expr.evalParts, coarse])
    | .lit s :: ps, vs, xs, hn, h, ρ, hl => by
      simp only [Ts.transpileParts, Res.bind_eq_ok] at h
      obtain ⟨ps', hp, h⟩ := h
      simp only [noLenVarParts] at hn
      cases h
      simp only [evalPartsT]; rw [coarse_evalParts_lit]
      exact R_bind (ts_preservesParts sem hs cfg ps vs ps' hn hp ρ hl) (fun _ => Or.inr rfl)
    | .fv e :: ps, vs, xs, hn, h, ρ, hl => by
      simp only [Ts.transpileParts, Res.bind_eq_ok] at h
      obtain ⟨e', he, h⟩ := h
      simp only [noLenVarParts, Bool.and_eq_true] at hn
      split at h
      · cases h
      · simp only [Res.bind_eq_ok] at h
        obtain ⟨ps', hp, h⟩ := h
        cases h
        simp only [evalPartsT]; rw [coarse_evalParts_fv]
        refine R_bind (ts_preserves sem hs cfg e vs e' hn.1 he ρ hl) (fun v => ?_)
        refine R_bind (R_ofOpt (hs.fmt _ _ ρ v)) (fun t => ?_)
        exact R_bind (ts_preservesParts sem hs cfg ps vs ps' hn.2 hp ρ hl) (fun _ => Or.inr rfl)
end

end AasVerif.TargetEmit
