import AasVerif.Model.Infer
/-! Lemmas about the set and pattern operations of `Model.Infer`. -/
namespace AasVerif.Infer

theorem mem_dedupAux (seen l : List Nat) (x : Nat) :
    x ∈ dedupAux seen l ↔ x ∈ l ∧ x ∉ seen := by
  induction l generalizing seen with
  | nil => simp [dedupAux]
  | cons y ys ih =>
    unfold dedupAux
    split
    · rename_i hy
      rw [ih]
      constructor
      · rintro ⟨h1, h2⟩; exact ⟨List.mem_cons_of_mem _ h1, h2⟩
      · rintro ⟨h1, h2⟩
        rcases List.mem_cons.mp h1 with h | h
        · subst h; exact absurd hy h2
        · exact ⟨h, h2⟩
    · rename_i hy
      rw [List.mem_cons, ih]
      constructor
      · rintro (h | ⟨h1, h2⟩)
        · subst h; exact ⟨List.mem_cons_self, hy⟩
        · exact ⟨List.mem_cons_of_mem _ h1, fun h => h2 (List.mem_cons_of_mem _ h)⟩
      · rintro ⟨h1, h2⟩
        rcases List.mem_cons.mp h1 with h | h
        · exact Or.inl h
        · by_cases hxy : x = y
          · exact Or.inl hxy
          · right
            refine ⟨h, ?_⟩
            intro hm
            rcases List.mem_cons.mp hm with h' | h'
            · exact hxy h'
            · exact h2 h'

theorem nodup_dedupAux (seen l : List Nat) : (dedupAux seen l).Nodup := by
  induction l generalizing seen with
  | nil => simp [dedupAux]
  | cons y ys ih =>
    unfold dedupAux
    split
    · exact ih seen
    · rw [List.nodup_cons]
      refine ⟨?_, ih _⟩
      rw [mem_dedupAux]
      rintro ⟨_, h⟩
      exact h List.mem_cons_self

theorem mem_mergePats (a b : List Nat) (x : Nat) : x ∈ mergePats a b ↔ x ∈ a ∨ x ∈ b := by
  simp [mergePats, mem_dedupAux]

theorem mem_mergeSet (a b : List Nat) (x : Nat) : x ∈ mergeSet a b ↔ x ∈ a ∧ x ∈ b := by
  simp only [mergeSet, List.mem_filter, mem_dedupAux, List.mem_append, histo]
  by_cases ha : x ∈ a <;> by_cases hb : x ∈ b <;> simp [ha, hb]

theorem mem_intersect (l0 : List Nat) (rest : List (List Nat)) (x : Nat) :
    x ∈ l0.filter (fun v => rest.countP (fun l => decide (v ∈ l)) = rest.length) ↔
      ∀ l ∈ l0 :: rest, x ∈ l := by
  simp only [List.mem_filter, decide_eq_true_eq, List.countP_eq_length, List.mem_cons, forall_eq_or_imp]

end AasVerif.Infer
