import AasVerif.Lemmas.InferBasic
import AasVerif.Lemmas.EvalTyped
/-!
One lemma per expression form: if the inferrer accepts the form and the sub-expressions are
`Good` (induction hypotheses: a value of the inferred type, or `IndexError`), the form is `Good`.
-/
namespace AasVerif.Expr

variable {κ : Type} [DecidableEq κ]

variable {key : Expr → κ} {Γ : TEnv} {F : Facts κ} {ρ : Env}

theorem fact_ne_none (inv : Inv key Γ F ρ) {e : Expr} (hk : key e ∈ F) {v : Val} (hv : eval ρ e = .val v) :
    v ≠ .none := by
  obtain ⟨w, hw, hne⟩ := inv.fact_val hk
  rw [hv] at hw
  cases hw
  exact hne

/-- the value of an instance expression of class type is an instance with the declared fields -/
theorem inst_of_class {D : Decls} {v : Val} {c : Text} {cd : ClassDecl} (h : HasTy D v (.our c))
    (hc : D.findOur c = some (.cls cd)) :
    ∃ oid d fields, v = .inst oid d fields ∧
      (∀ p τ, assoc p cd.props = some τ → (lookup p fields).isSome = true) ∧
      (∀ p τ w, assoc p cd.props = some τ → lookup p fields = some w → HasTy D w τ) := by
  cases h with
  | enumLit h1 _ => rw [hc] at h1; cases h1
  | cprim h1 _ _ => rw [hc] at h1; cases h1
  | inst h1 h2 h3 =>
    rw [hc] at h1; cases h1
    exact ⟨_, _, _, rfl, h2, h3⟩

theorem member_good {i : Expr} {n : Text} {τ : Ty} (inv : Inv key Γ F ρ)
    (ih : ∀ ti, infer key Γ F i = .ok ti → Good Γ.decls (eval ρ i) ti) (hnf : τ.isFn = false)
    (h : infer key Γ F (.member i n) = .ok τ) : Good Γ.decls (eval ρ (.member i n)) τ := by
  simp only [infer] at h
  cases hi : infer key Γ F i with
  | err es => simp [hi, memberRes] at h
  | crash s => simp [hi, memberRes] at h
  | ok ti =>
    rw [hi] at h
    rcases ih ti hi with he | ⟨v, he, hv⟩
    · have : eval ρ (.member i n) = .indexError := by simp [eval, he]
      rw [this]; exact Good.index
    · cases ti with
      | our c =>
        simp only [memberRes] at h
        cases hc : Γ.decls.findOur c with
        | none => simp [hc] at h
        | some d =>
          cases d with
          | enum _ => simp [hc] at h
          | cprim _ _ _ => simp [hc] at h
          | cls cd =>
            obtain ⟨oid, d, fields, rfl, hsome, hty⟩ := inst_of_class hv hc
            simp only [hc] at h
            cases hp : assoc n cd.props with
            | some τ0 =>
              simp only [hp, Res.ok.injEq] at h
              subst h
              have hs := hsome n τ0 hp
              cases hl : lookup n fields with
              | none => simp [hl] at hs
              | some w =>
                have hev : eval ρ (.member i n) = .val w := by simp [eval, he, hl]
                rw [hev]
                exact Good.val (strip_hasTy (hty n τ0 w hp hl) (fun hk => fact_ne_none inv hk hev))
            | none =>
              simp only [hp] at h
              cases hm : assoc n cd.methods with
              | none => simp [hm] at h
              | some ret =>
                simp only [hm, Res.ok.injEq] at h
                subst h
                simp [Ty.isFn] at hnf
      | enumType en =>
        cases hv with
        | enumCls hf =>
          simp only [memberRes, hf] at h
          split at h
          · rename_i hcont
            simp only [Res.ok.injEq] at h
            subst h
            have hmem := by simpa using hcont
            have hev : eval ρ (.member i n) = .val (.enumLit en n) := by simp [eval, he, hmem]
            rw [hev]
            exact Good.val (HasTy.enumLit hf hmem)
          · simp at h
      | prim _ => simp [memberRes] at h
      | verif _ _ => simp [memberRes] at h
      | builtin _ _ => simp [memberRes] at h
      | method _ _ => simp [memberRes] at h
      | list _ => simp [memberRes] at h
      | set _ => simp [memberRes] at h
      | opt _ => simp [memberRes] at h

theorem strip_isFn {F : Facts κ} {k : κ} {τ : Ty} (h : τ.isFn = true) : strip F k τ = τ := by
  cases τ <;> simp_all [strip, Ty.isFn]

theorem name_good {x : Text} {τ : Ty} (inv : Inv key Γ F ρ) (hnf : τ.isFn = false)
    (h : infer key Γ F (.name x) = .ok τ) : Good Γ.decls (eval ρ (.name x)) τ := by
  simp only [infer, inferName] at h
  cases hf : Γ.find x with
  | none => simp [hf] at h
  | some τ0 =>
    simp only [hf, Res.ok.injEq] at h
    subst h
    rcases inv.conf x τ0 hf with hfn | ⟨v, hv, hty⟩
    · rw [strip_isFn hfn] at hnf
      rw [hfn] at hnf; cases hnf
    · have hev : eval ρ (.name x) = .val v := by simp [eval, hv]
      rw [hev]
      exact Good.val (strip_hasTy hty (fun hk => fact_ne_none inv hk hev))

theorem const_good {c : Const} {τ : Ty} (h : infer key Γ F (.const c) = .ok τ) :
    Good Γ.decls (eval ρ (.const c)) τ := by
  simp only [infer, Res.ok.injEq] at h
  subst h
  simp only [eval]
  refine Good.val ?_
  cases c
  · exact HasTy.bool _
  · exact HasTy.int _
  · exact HasTy.float _
  · exact HasTy.str _

/-- unary forms whose result is `bool` -/
theorem isNone_good {e : Expr} {τ : Ty}
    (ih : ∀ ti, infer key Γ F e = .ok ti → Good Γ.decls (eval ρ e) ti)
    (h : infer key Γ F (.isNone e) = .ok τ) : Good Γ.decls (eval ρ (.isNone e)) τ := by
  simp only [infer] at h
  cases hi : infer key Γ F e with
  | err es => simp [hi] at h
  | crash s => simp [hi] at h
  | ok ti =>
    rw [hi] at h
    have hτ : τ = .bool := by cases ti <;> simp_all
    subst hτ
    rcases ih ti hi with he | ⟨v, he, _⟩
    · have : eval ρ (.isNone e) = .indexError := by simp [eval, he]
      rw [this]; exact Good.index
    · cases v <;> simp only [eval, he, Out.ofBool] <;> exact Good.ofBool _

theorem isNotNone_good {e : Expr} {τ : Ty}
    (ih : ∀ ti, infer key Γ F e = .ok ti → Good Γ.decls (eval ρ e) ti)
    (h : infer key Γ F (.isNotNone e) = .ok τ) : Good Γ.decls (eval ρ (.isNotNone e)) τ := by
  simp only [infer] at h
  cases hi : infer key Γ F e with
  | err es => simp [hi] at h
  | crash s => simp [hi] at h
  | ok ti =>
    rw [hi] at h
    have hτ : τ = .bool := by cases ti <;> simp_all
    subst hτ
    rcases ih ti hi with he | ⟨v, he, _⟩
    · have : eval ρ (.isNotNone e) = .indexError := by simp [eval, he]
      rw [this]; exact Good.index
    · cases v <;> simp only [eval, he, Out.ofBool] <;> exact Good.ofBool _

theorem not_good {e : Expr} {τ : Ty}
    (ih : ∀ ti, infer key Γ F e = .ok ti → Good Γ.decls (eval ρ e) ti)
    (h : infer key Γ F (.not e) = .ok τ) : Good Γ.decls (eval ρ (.not e)) τ := by
  simp only [infer] at h
  cases hi : infer key Γ F e with
  | err es => simp [hi] at h
  | crash s => simp [hi] at h
  | ok ti =>
    rw [hi] at h
    have hτ : τ = .bool := by
      simp only at h
      repeat' split at h
      all_goals simp_all
    subst hτ
    rcases ih ti hi with he | ⟨v, he, _⟩
    · have : eval ρ (.not e) = .indexError := by simp [eval, he]
      rw [this]; exact Good.index
    · simp only [eval, he, Out.ofBool]; exact Good.ofBool _

/-- a binary form: both operands evaluated left to right, then a value-level operation -/
theorem cmp_good {l r : Expr} {op : Cmp} {τ : Ty} (inv : Inv key Γ F ρ)
    (ihl : ∀ ti, infer key Γ F l = .ok ti → Good Γ.decls (eval ρ l) ti)
    (ihr : ∀ ti, infer key Γ F r = .ok ti → Good Γ.decls (eval ρ r) ti)
    (h : infer key Γ F (.cmp l op r) = .ok τ) : Good Γ.decls (eval ρ (.cmp l op r)) τ := by
  simp only [infer] at h
  cases hl : infer key Γ F l with
  | err es => simp [hl] at h
  | crash s => simp [hl] at h
  | ok tl =>
    cases hr : infer key Γ F r with
    | err es => simp [hl, hr] at h
    | crash s => simp [hl, hr] at h
    | ok tr =>
      simp only [hl, hr] at h
      have hchk : (op.isOrdering && !orderable Γ.decls tl tr) = false ∧ τ = .bool := by
        by_cases h1 : ((if tl.isOpt then [Err.leftOptional] else []) ++ (if tr.isOpt then [Err.rightOptional] else [])) ≠ []
        · simp [h1] at h
        · by_cases h2 : (op.isOrdering && !orderable Γ.decls tl tr) = true
          · simp [h1, h2] at h
          · simp [h1, h2] at h
            exact ⟨by simpa using h2, h.symm⟩
      obtain ⟨hchk, rfl⟩ := hchk
      rcases ihl tl hl with hel | ⟨lv, hel, hlv⟩
      · have : eval ρ (.cmp l op r) = .indexError := by simp [eval, hel]
        rw [this]; exact Good.index
      · rcases ihr tr hr with her | ⟨rv, her, hrv⟩
        · have : eval ρ (.cmp l op r) = .indexError := by simp [eval, hel, her]
          rw [this]; exact Good.index
        · obtain ⟨b, hb⟩ := cmpVals_typed inv.ok hlv hrv hchk
          have : eval ρ (.cmp l op r) = .val (.bool b) := by simp [eval, hel, her, hb]
          rw [this]; exact Good.ofBool b

theorem isInCheck_bool {D : Decls} {mt ct τ : Ty} (h : isInCheck D mt ct = .ok τ) : τ = .bool := by
  unfold isInCheck at h
  repeat' split at h
  all_goals first | (cases h; done) | (simp only [Res.ok.injEq] at h; exact h.symm)

theorem isIn_good {m c : Expr} {τ : Ty} (inv : Inv key Γ F ρ)
    (ihl : ∀ ti, infer key Γ F m = .ok ti → Good Γ.decls (eval ρ m) ti)
    (ihr : ∀ ti, infer key Γ F c = .ok ti → Good Γ.decls (eval ρ c) ti)
    (h : infer key Γ F (.isIn m c) = .ok τ) : Good Γ.decls (eval ρ (.isIn m c)) τ := by
  simp only [infer] at h
  cases hl : infer key Γ F m with
  | err es => cases hr : infer key Γ F c <;> simp [hl, hr] at h
  | crash s => simp [hl] at h
  | ok tl =>
    cases hr : infer key Γ F c with
    | err es => simp [hl, hr] at h
    | crash s => simp [hl, hr] at h
    | ok tr =>
      simp only [hl, hr] at h
      have hchk : isInCheck Γ.decls tl tr = .ok τ := by
        by_cases h1 : ((if tl.isOpt then [Err.isInMemberOptional] else []) ++ (if tr.isOpt then [Err.containerOptional] else [])) ≠ []
        · simp [h1] at h
        · simpa [h1] using h
      have hτ := isInCheck_bool hchk
      subst hτ
      rcases ihl tl hl with hel | ⟨lv, hel, hlv⟩
      · have : eval ρ (.isIn m c) = .indexError := by simp [eval, hel]
        rw [this]; exact Good.index
      · rcases ihr tr hr with her | ⟨rv, her, hrv⟩
        · have : eval ρ (.isIn m c) = .indexError := by simp [eval, hel, her]
          rw [this]; exact Good.index
        · obtain ⟨b, hb⟩ := isInVals_typed ρ.fops hlv hrv hchk
          have : eval ρ (.isIn m c) = .val (.bool b) := by simp [eval, hel, her, hb]
          rw [this]; exact Good.ofBool b

theorem arithRes_ok {rl rr : Res Ty} {τ : Ty} (h : arithRes rl rr = .ok τ) :
    ∃ lt rt, rl = .ok lt ∧ rr = .ok rt ∧ arithTy lt rt = .ok τ := by
  cases rl with
  | err es => simp [arithRes] at h
  | crash s => simp [arithRes] at h
  | ok lt =>
    cases rr with
    | err es => simp [arithRes] at h
    | crash s => simp [arithRes] at h
    | ok rt =>
      refine ⟨lt, rt, rfl, rfl, ?_⟩
      simp only [arithRes] at h
      repeat' split at h
      all_goals first | (cases h; done) | exact h

theorem add_good {l r : Expr} {τ : Ty} (inv : Inv key Γ F ρ)
    (ihl : ∀ ti, infer key Γ F l = .ok ti → Good Γ.decls (eval ρ l) ti)
    (ihr : ∀ ti, infer key Γ F r = .ok ti → Good Γ.decls (eval ρ r) ti)
    (h : infer key Γ F (.add l r) = .ok τ) : Good Γ.decls (eval ρ (.add l r)) τ := by
  simp only [infer] at h
  obtain ⟨tl, tr, hl, hr, hty⟩ := arithRes_ok h
  rcases ihl tl hl with hel | ⟨lv, hel, hlv⟩
  · have : eval ρ (.add l r) = .indexError := by simp [eval, hel]
    rw [this]; exact Good.index
  · rcases ihr tr hr with her | ⟨rv, her, hrv⟩
    · have : eval ρ (.add l r) = .indexError := by simp [eval, hel, her]
      rw [this]; exact Good.index
    · obtain ⟨v, hv, hvt⟩ := arithVals_typed inv.ok true hlv hrv hty
      have : eval ρ (.add l r) = .val v := by simp [eval, hel, her, hv]
      rw [this]; exact Good.val hvt

theorem sub_good {l r : Expr} {τ : Ty} (inv : Inv key Γ F ρ)
    (ihl : ∀ ti, infer key Γ F l = .ok ti → Good Γ.decls (eval ρ l) ti)
    (ihr : ∀ ti, infer key Γ F r = .ok ti → Good Γ.decls (eval ρ r) ti)
    (h : infer key Γ F (.sub l r) = .ok τ) : Good Γ.decls (eval ρ (.sub l r)) τ := by
  simp only [infer] at h
  obtain ⟨tl, tr, hl, hr, hty⟩ := arithRes_ok h
  rcases ihl tl hl with hel | ⟨lv, hel, hlv⟩
  · have : eval ρ (.sub l r) = .indexError := by simp [eval, hel]
    rw [this]; exact Good.index
  · rcases ihr tr hr with her | ⟨rv, her, hrv⟩
    · have : eval ρ (.sub l r) = .indexError := by simp [eval, hel, her]
      rw [this]; exact Good.index
    · obtain ⟨v, hv, hvt⟩ := arithVals_typed inv.ok false hlv hrv hty
      have : eval ρ (.sub l r) = .val v := by simp [eval, hel, her, hv]
      rw [this]; exact Good.val hvt

theorem index_good {c i : Expr} {τ : Ty}
    (ihl : ∀ ti, infer key Γ F c = .ok ti → Good Γ.decls (eval ρ c) ti)
    (ihr : ∀ ti, infer key Γ F i = .ok ti → Good Γ.decls (eval ρ i) ti)
    (h : infer key Γ F (.index c i) = .ok τ) : Good Γ.decls (eval ρ (.index c i)) τ := by
  simp only [infer] at h
  cases hl : infer key Γ F c with
  | err es => simp [hl] at h
  | crash s => simp [hl] at h
  | ok tl =>
    cases hr : infer key Γ F i with
    | err es => simp [hl, hr] at h
    | crash s => simp [hl, hr] at h
    | ok tr =>
      simp only [hl, hr] at h
      have hτ : tl = .list τ ∧ tr.isIntLike = true := by
        repeat' split at h
        all_goals first | (cases h; done) | skip
        all_goals simp_all
      obtain ⟨rfl, hint⟩ := hτ
      rcases ihl _ hl with hel | ⟨lv, hel, hlv⟩
      · have : eval ρ (.index c i) = .indexError := by simp [eval, hel]
        rw [this]; exact Good.index
      · rcases ihr tr hr with her | ⟨rv, her, hrv⟩
        · have : eval ρ (.index c i) = .indexError := by simp [eval, hel, her]
          rw [this]; exact Good.index
        · have hev : eval ρ (.index c i) = indexVals lv rv := by simp [eval, hel, her]
          rw [hev]
          exact indexVals_typed hlv hrv hint

/-- a good outcome of a boolean type is a `bool` or `IndexError` -/
theorem Good.boolOrIndex {D : Decls} {o : Out} {τ : Ty} (h : Good D o τ) (hb : D.isBool τ = true) : BoolOrIndex o := by
  rcases h with rfl | ⟨v, rfl, hv⟩
  · exact Or.inl rfl
  · obtain ⟨b, rfl⟩ := isBool_inv hv hb
    exact Or.inr ⟨b, rfl⟩

theorem impl_good {a c : Expr} {τ : Ty} (hk : KeySound key) (inv : Inv key Γ F ρ)
    (iha : ∀ ti, infer key Γ F a = .ok ti → Good Γ.decls (eval ρ a) ti)
    (ihc : ∀ ti, Inv key Γ (implFacts key F a) ρ → infer key Γ (implFacts key F a) c = .ok ti →
      Good Γ.decls (eval ρ c) ti)
    (h : infer key Γ F (.impl a c) = .ok τ) : Good Γ.decls (eval ρ (.impl a c)) τ := by
  simp only [infer] at h
  cases ha : infer key Γ F a with
  | err es => simp [ha] at h
  | crash s => simp [ha] at h
  | ok ta =>
    simp only [ha] at h
    cases hc : infer key Γ (implFacts key F a) c with
    | err es => simp [hc] at h
    | crash s => simp [hc] at h
    | ok tc =>
      simp only [hc] at h
      have hb : Γ.decls.isBool ta = true ∧ Γ.decls.isBool tc = true ∧ τ = .bool := by
        by_cases h1 : ta.isOpt = true
        · simp [h1] at h
        · by_cases h2 : Γ.decls.isBool ta = true
          · by_cases h3 : Γ.decls.isBool tc = true
            · simp [h1, h2, h3] at h
              exact ⟨h2, h3, h.symm⟩
            · simp [h1, h2, h3] at h
          · simp [h1, h2] at h
      obtain ⟨hba, hbc, rfl⟩ := hb
      rcases iha ta ha with hea | ⟨av, hea, hav⟩
      · have : eval ρ (.impl a c) = .indexError := by simp [eval, hea]
        rw [this]; exact Good.index
      · obtain ⟨b, rfl⟩ := isBool_inv hav hba
        cases b with
        | false =>
          have : eval ρ (.impl a c) = .val (.bool true) := by simp [eval, hea, Val.truthy, Out.ofBool]
          rw [this]; exact Good.ofBool _
        | true =>
          have hev : eval ρ (.impl a c) = eval ρ c := by simp [eval, hea, Val.truthy]
          rw [hev]
          have := ihc tc (inv.implFacts hk hea (by simp [Val.truthy]) ha) hc
          exact Good.of_boolOrIndex (this.boolOrIndex hbc)

theorem and_cons_good {e : Expr} {es : List Expr} (hk : KeySound key) (inv : Inv key Γ F ρ)
    (ihe : ∀ ti, infer key Γ F e = .ok ti → Good Γ.decls (eval ρ e) ti)
    (ihes : es ≠ [] → Inv key Γ (andFact key F e) ρ → inferAnd key Γ (andFact key F e) es = .ok () →
      BoolOrIndex (evalAnd ρ es))
    (h : inferAnd key Γ F (e :: es) = .ok ()) : BoolOrIndex (evalAnd ρ (e :: es)) := by
  simp only [inferAnd] at h
  cases he : infer key Γ F e with
  | err xs => simp [he] at h
  | crash s => simp [he] at h
  | ok te =>
    simp only [he] at h
    cases hes : inferAnd key Γ (andFact key F e) es with
    | err xs => simp [hes] at h
    | crash s => simp [hes] at h
    | ok u =>
      simp only [hes] at h
      have hb : Γ.decls.isBool te = true := by
        by_cases h1 : te.isOpt = true
        · simp [h1] at h
        · by_cases h2 : Γ.decls.isBool te = true
          · exact h2
          · simp [h1, h2] at h
      have ge := (ihe te he).boolOrIndex hb
      cases es with
      | nil => simpa [evalAnd] using ge
      | cons e2 es2 =>
        simp only [evalAnd]
        rcases ge with hev | ⟨b, hev⟩
        · rw [hev]; exact Or.inl rfl
        · rw [hev]
          cases b with
          | false => simp only [Val.truthy]; exact Or.inr ⟨false, rfl⟩
          | true =>
            simp only [Val.truthy, if_true]
            exact ihes (by simp) (inv.andFact hk hev (by simp [Val.truthy]) ⟨F, te, he⟩) hes

theorem or_cons_good {e : Expr} {es : List Expr} (hk : KeySound key) (inv : Inv key Γ F ρ)
    (ihe : ∀ ti, infer key Γ F e = .ok ti → Good Γ.decls (eval ρ e) ti)
    (ihes : es ≠ [] → Inv key Γ (orFact key F e) ρ → inferOr key Γ (orFact key F e) es = .ok () →
      BoolOrIndex (evalOr ρ es))
    (h : inferOr key Γ F (e :: es) = .ok ()) : BoolOrIndex (evalOr ρ (e :: es)) := by
  simp only [inferOr] at h
  cases he : infer key Γ F e with
  | err xs => simp [he] at h
  | crash s => simp [he] at h
  | ok te =>
    simp only [he] at h
    cases hes : inferOr key Γ (orFact key F e) es with
    | err xs => simp [hes] at h
    | crash s => simp [hes] at h
    | ok u =>
      simp only [hes] at h
      have hb : Γ.decls.isBool te = true := by
        by_cases h1 : te.isOpt = true
        · simp [h1] at h
        · by_cases h2 : Γ.decls.isBool te = true
          · exact h2
          · simp [h1, h2] at h
      have ge := (ihe te he).boolOrIndex hb
      cases es with
      | nil => simpa [evalOr] using ge
      | cons e2 es2 =>
        simp only [evalOr]
        rcases ge with hev | ⟨b, hev⟩
        · rw [hev]; exact Or.inl rfl
        · rw [hev]
          cases b with
          | true => simp only [Val.truthy, if_true]; exact Or.inr ⟨true, rfl⟩
          | false =>
            simp only [Val.truthy]
            exact ihes (by simp) (inv.orFact hk hev (by simp [Val.truthy]) ⟨F, te, he⟩) hes

/-- the outcome of an argument list: values of the inferred types, or `IndexError` -/
def ArgsGood (D : Decls) (ts : List Ty) : Args → Prop
  | .ok vs => ArgsHave D vs ts
  | .err o => o = .indexError

theorem args_cons_good {e : Expr} {es : List Expr} {ts : List Ty}
    (ihe : ∀ ti, infer key Γ F e = .ok ti → Good Γ.decls (eval ρ e) ti)
    (ihes : ∀ ts', inferArgs key Γ F es = .ok ts' → ArgsGood Γ.decls ts' (evalArgs ρ es))
    (h : inferArgs key Γ F (e :: es) = .ok ts) : ArgsGood Γ.decls ts (evalArgs ρ (e :: es)) := by
  simp only [inferArgs] at h
  cases he : infer key Γ F e with
  | crash s => simp [he] at h
  | err xs =>
    simp only [he] at h
    cases hes : inferArgs key Γ F es <;> simp [hes] at h
  | ok te =>
    simp only [he] at h
    cases hes : inferArgs key Γ F es with
    | crash s => simp [hes] at h
    | err xs => simp [hes] at h
    | ok ts' =>
      simp only [hes, Res.ok.injEq] at h
      subst h
      have gs := ihes ts' hes
      simp only [evalArgs]
      rcases ihe te he with hev | ⟨v, hev, hv⟩
      · rw [hev]; rfl
      · rw [hev]
        simp only
        cases hr : evalArgs ρ es with
        | ok vs =>
          rw [hr] at gs
          exact ArgsHave.cons hv gs
        | err o =>
          rw [hr] at gs
          exact gs

/-- an f-string outcome: a `str` or `IndexError` -/
def StrOrIndex (o : Out) : Prop := o = .indexError ∨ ∃ s, o = .val (.str s)

theorem parts_lit_good {s : Text} {ps : List JPart} (ih : StrOrIndex (evalParts ρ ps)) :
    StrOrIndex (evalParts ρ (.lit s :: ps)) := by
  simp only [evalParts]
  rcases ih with h | ⟨r, h⟩
  · rw [h]; exact Or.inl rfl
  · rw [h]; exact Or.inr ⟨_, rfl⟩

theorem parts_fv_good {e : Expr} {ps : List JPart} (inv : Inv key Γ F ρ)
    (ihe : ∀ ti, infer key Γ F e = .ok ti → Good Γ.decls (eval ρ e) ti)
    (ihps : inferParts key Γ F ps = .ok () → StrOrIndex (evalParts ρ ps))
    (h : inferParts key Γ F (.fv e :: ps) = .ok ()) : StrOrIndex (evalParts ρ (.fv e :: ps)) := by
  simp only [inferParts] at h
  cases he : infer key Γ F e with
  | crash s => simp [he] at h
  | err xs =>
    simp only [he] at h
    cases hes : inferParts key Γ F ps <;> simp [hes] at h
  | ok te =>
    simp only [he] at h
    have hps : inferParts key Γ F ps = .ok () := by
      split at h
      · cases hes : inferParts key Γ F ps <;> simp [hes] at h
      · exact h
    have gs := ihps hps
    simp only [evalParts]
    rcases ihe te he with hev | ⟨v, hev, _⟩
    · rw [hev]; exact Or.inl rfl
    · rw [hev]
      obtain ⟨t, ht⟩ := fmtVal_typed inv.ok v
      simp only [ht]
      rcases gs with hr | ⟨r, hr⟩
      · rw [hr]; exact Or.inl rfl
      · rw [hr]; exact Or.inr ⟨_, rfl⟩

theorem isValTy_strip_not_fn {F : Facts κ} {k : κ} {τ : Ty} (h : τ.isValTy = true) : (strip F k τ).isFn = false := by
  cases τ with
  | opt τ' =>
    simp only [strip]
    split
    · cases τ' <;> simp_all [Ty.isValTy, Ty.isFn]
    · simp [Ty.isFn]
  | _ => simp_all [strip, Ty.isValTy, Ty.isFn]

/-- the result of a call: a value of the declared return type (narrowed when the call itself is
known to be non-`None`), or `IndexError` -/
theorem call_result_good (inv : Inv key Γ F ρ) {e : Expr} {o : Out} {ret : Ty} (hev : eval ρ e = o)
    (ho : OutOK Γ.decls o ret) : Good Γ.decls o (strip F (key e) ret) := by
  rcases ho with rfl | ⟨w, rfl, hw⟩
  · exact Good.index
  · exact Good.val (strip_hasTy hw (fun hk => fact_ne_none inv hk hev))

theorem methodCall_good {i : Expr} {n : Text} {args : List Expr} {τ : Ty} (inv : Inv key Γ F ρ)
    (ihi : ∀ ti, infer key Γ F i = .ok ti → Good Γ.decls (eval ρ i) ti)
    (ihargs : ∀ ts, inferArgs key Γ F args = .ok ts → ArgsGood Γ.decls ts (evalArgs ρ args))
    (h : infer key Γ F (.methodCall i n args) = .ok τ) : Good Γ.decls (eval ρ (.methodCall i n args)) τ := by
  simp only [infer] at h
  cases ha : inferArgs key Γ F args with
  | crash s => simp [ha] at h
  | err ea =>
    simp only [ha] at h
    cases hm : memberRes Γ F (key (.member i n)) n (infer key Γ F i) with
    | crash s => simp [hm] at h
    | err es => simp [hm] at h
    | ok mt => cases mt <;> simp [hm] at h
  | ok ts =>
    have gargs := ihargs ts ha
    simp only [ha] at h
    cases hi : infer key Γ F i with
    | err es => simp [hi, memberRes] at h
    | crash s => simp [hi, memberRes] at h
    | ok ti =>
      rw [hi] at h
      rcases ihi ti hi with he | ⟨v, he, hv⟩
      · have : eval ρ (.methodCall i n args) = .indexError := by simp [eval, he]
        rw [this]; exact Good.index
      · cases ti with
        | our c =>
          have hvn : v ≠ .none := hv.our_ne_none
          simp only [memberRes, methodParams] at h
          cases hc : Γ.decls.findOur c with
          | none => simp [hc] at h
          | some d =>
            cases d with
            | enum _ => simp [hc] at h
            | cprim _ _ _ => simp [hc] at h
            | cls cd =>
              simp only [hc] at h
              cases hp : assoc n cd.props with
              | some τ0 =>
                -- a property is not a method
                simp only [hp] at h
                have hnf := isValTy_strip_not_fn (F := F) (k := key (.member i n)) (inv.wf.props c cd n τ0 hc hp)
                cases hs : strip F (key (.member i n)) τ0 <;> simp [hs] at h
                simp [hs, Ty.isFn] at hnf
              | none =>
                simp only [hp] at h
                cases hm : assoc n cd.methods with
                | none => simp [hm] at h
                | some ret =>
                  simp only [hm] at h
                  cases hps : assoc n cd.mparams with
                  | none => simp [hps] at h
                  | some ps =>
                    simp only [hps] at h
                    have hchk : checkArgs Γ.decls ps ts = [] ∧ τ = strip F (key (.methodCall i n args)) ret := by
                      split at h
                      · cases h
                      · rename_i hne
                        simp only [retTy, Res.ok.injEq] at h
                        exact ⟨by simpa using hne, h.symm⟩
                    obtain ⟨hchk, rfl⟩ := hchk
                    -- evaluation: receiver, method, arguments
                    obtain ⟨g, hg, hcall⟩ := inv.calls.meths v c cd n ret ps hv hc hm hps
                    obtain ⟨oid, dcls, fields, rfl, _, _⟩ := inst_of_class hv hc
                    cases hargs : evalArgs ρ args with
                    | err o =>
                      rw [hargs] at gargs
                      have hev : eval ρ (.methodCall i n args) = o := by simp [eval, he, hg, hargs]
                      rw [hev, show o = .indexError from gargs]
                      exact Good.index
                    | ok vs =>
                      rw [hargs] at gargs
                      have hev : eval ρ (.methodCall i n args) = g vs := by simp [eval, he, hg, hargs]
                      rw [hev]
                      exact call_result_good inv hev (hcall vs (checkArgs_sound inv.wf hchk gargs))
        | enumType en =>
          simp only [memberRes] at h
          cases hc : Γ.decls.findOur en with
          | none => simp [hc] at h
          | some d =>
            cases d with
            | enum lits =>
              simp only [hc] at h
              by_cases hcont : n ∈ lits
              · simp [hcont] at h
              · simp [hcont] at h
            | cprim _ _ _ => simp [hc] at h
            | cls cd => simp [hc] at h
        | prim _ => simp [memberRes] at h
        | verif _ _ => simp [memberRes] at h
        | builtin _ _ => simp [memberRes] at h
        | method _ _ => simp [memberRes] at h
        | list _ => simp [memberRes] at h
        | set _ => simp [memberRes] at h
        | opt _ => simp [memberRes] at h

theorem HasTy.opt_fn_none {D : Decls} {v : Val} {τ : Ty} (h : HasTy D v (.opt τ)) (hfn : τ.isFn = true) : v = .none := by
  cases h with
  | optNone _ => rfl
  | optSome h' => rw [h'.not_fn] at hfn; cases hfn

theorem funCall_good {n : Text} {args : List Expr} {τ : Ty} (inv : Inv key Γ F ρ) (hback : Γ.backend = true)
    (ihargs : ∀ ts, inferArgs key Γ F args = .ok ts → ArgsGood Γ.decls ts (evalArgs ρ args))
    (h : infer key Γ F (.funCall n args) = .ok τ) : Good Γ.decls (eval ρ (.funCall n args)) τ := by
  simp only [infer] at h
  cases hn : inferName key Γ F n with
  | crash s => simp [hn] at h
  | err e0 => cases ha : inferArgs key Γ F args <;> simp [hn, ha] at h
  | ok tf =>
    cases ha : inferArgs key Γ F args with
    | crash s => simp [hn, ha] at h
    | err ea => cases tf <;> simp [hn, ha, errsOf] at h
    | ok ts =>
      have gargs := ihargs ts ha
      simp only [hn, ha] at h
      unfold inferName at hn
      cases hf : Γ.find n with
      | none => simp [hf] at hn
      | some τ0 =>
        simp only [hf, Res.ok.injEq] at hn
        -- the declared type of the name is the function type itself
        have hτ0 : τ0 = tf ∧ tf.isFn = true := by
          have htf : tf.isFn = true := by cases tf <;> simp_all [Ty.isFn]
          cases τ0 with
          | opt σ =>
            simp only [strip] at hn
            split at hn
            · -- narrowed from `Optional[function]`: such a name would be a variable whose value is `None`
              rename_i hin
              subst hn
              rcases inv.conf n _ hf with hfn | ⟨v, hv, hty⟩
              · simp [Ty.isFn] at hfn
              · have hev : eval ρ (.name n) = .val v := by simp [eval, hv]
                have := fact_ne_none inv (by simpa using hin) hev
                exact absurd (hty.opt_fn_none htf) this
            · subst hn; simp [Ty.isFn] at htf
          | _ => simp only [strip] at hn; exact ⟨hn, htf⟩
        obtain ⟨rfl, hfn⟩ := hτ0
        have hl : lookup n ρ.vars = none := inv.calls.notVar n _ hf hfn
        cases τ0 with
        | verif m ret =>
          simp only at h
          cases hfd : Γ.decls.findFn m with
          | none => simp [hfd] at h
          | some f =>
            simp only [hfd] at h
            have hchk : checkArgs Γ.decls f.params ts = [] ∧ τ = strip F (key (.funCall n args)) ret := by
              split at h
              · cases h
              · rename_i hne
                simp only [retTy, Res.ok.injEq] at h
                exact ⟨by simpa using hne, h.symm⟩
            obtain ⟨hchk, rfl⟩ := hchk
            obtain ⟨g, hg, hcall⟩ := inv.calls.funs n m ret f hf hfd
            cases hargs : evalArgs ρ args with
            | err o =>
              rw [hargs] at gargs
              have hev : eval ρ (.funCall n args) = o := by simp [eval, hl, hg, hargs]
              rw [hev, show o = .indexError from gargs]
              exact Good.index
            | ok vs =>
              rw [hargs] at gargs
              have hev : eval ρ (.funCall n args) = g vs := by simp [eval, hl, hg, hargs]
              rw [hev]
              exact call_result_good inv hev (hcall vs (checkArgs_sound inv.wf hchk gargs))
        | builtin m ret =>
          obtain ⟨rfl, rfl, rfl, hfun⟩ := inv.calls.builtin n m ret hf
          simp only [ne_eq, not_true_eq_false, if_false] at h
          -- `len` of exactly one argument, which has a length
          cases ts with
          | nil => simp at h
          | cons t rest =>
            cases rest with
            | cons _ _ => simp at h
            | nil =>
              simp only [hback, Bool.true_and] at h
              have hlen : lenable Γ.decls t = true ∧ τ = .prim .length := by
                split at h
                · cases h
                · split at h
                  · cases h
                  · rename_i hl
                    simp only [retTy, strip, Res.ok.injEq] at h
                    exact ⟨by simpa using hl, h.symm⟩
              obtain ⟨hlen, rfl⟩ := hlen
              have hl' : lookup [108, 101, 110] ρ.vars = none := hl
              have hfun' : ρ.funs [108, 101, 110] = none := hfun
              cases hargs : evalArgs ρ args with
              | err o =>
                rw [hargs] at gargs
                have hev : eval ρ (.funCall lenName args) = o := by simp [eval, hl', hfun', hargs, lenName]
                rw [hev, show o = .indexError from gargs]
                exact Good.index
              | ok vs =>
                rw [hargs] at gargs
                cases gargs with
                | cons hv hrest =>
                  cases hrest
                  obtain ⟨k, hk⟩ := lenVal_typed hv hlen
                  have hev : eval ρ (.funCall lenName args) = .val (.int k) := by
                    simp [eval, hl', hfun', hargs, lenName, hk]
                  rw [hev]
                  exact Good.val (HasTy.length k)
        | method _ _ => simp [errsOf] at h
        | _ => simp [Ty.isFn] at hfn

/-- what the evaluation of a generator yields when the inferrer bound `x : τx` -/
def GenGood (D : Decls) (x : Text) (τx : Ty) : GenRes → Prop
  | .items z items => z = x ∧ ∀ item, item ∈ items → HasTy D item τx
  | .range z _ _ => z = x ∧ (τx = .prim .int ∨ τx = .prim .length)
  | .err o => o = .indexError

theorem forEach_good {y x : Text} {it : Expr} {τx : Ty}
    (ihit : ∀ ti, infer key Γ F it = .ok ti → Good Γ.decls (eval ρ it) ti)
    (h : inferGen key Γ F (.forEach y it) = .ok (x, τx)) :
    Γ.find x = none ∧ GenGood Γ.decls x τx (evalGen ρ (.forEach y it)) := by
  simp only [inferGen] at h
  split at h
  · simp at h
  · rename_i hfind
    cases hi : infer key Γ F it with
    | err es => simp [hi] at h
    | crash s => simp [hi] at h
    | ok ti =>
      have g := ihit ti hi
      simp only [hi] at h
      cases ti <;> simp at h
      rename_i items
      obtain ⟨rfl, rfl⟩ := h
      refine ⟨by simpa using hfind, ?_⟩
      simp only [evalGen]
      rcases g with he | ⟨iv, he, hty⟩
      · rw [he]; rfl
      · rw [he]
        obtain ⟨l, rfl, hall⟩ := hty.inv_list
        simpa [iterItems, GenGood] using hall

theorem intLike_rangeArg {D : Decls} {v : Val} {τ : Ty} (h : HasTy D v τ) (hint : τ.isIntLike = true) :
    ∃ k, rangeArg v = some k := by
  cases τ with
  | prim p =>
    cases p <;> simp [Ty.isIntLike] at hint
    · obtain ⟨k, rfl⟩ := h.inv_int; exact ⟨k, rfl⟩
    · obtain ⟨k, rfl⟩ := h.inv_length; exact ⟨k, rfl⟩
  | _ => simp [Ty.isIntLike] at hint

theorem forRange_good {y x : Text} {a b : Expr} {τx : Ty}
    (iha : ∀ ti, infer key Γ F a = .ok ti → Good Γ.decls (eval ρ a) ti)
    (ihb : ∀ ti, infer key Γ F b = .ok ti → Good Γ.decls (eval ρ b) ti)
    (h : inferGen key Γ F (.forRange y a b) = .ok (x, τx)) :
    Γ.find x = none ∧ GenGood Γ.decls x τx (evalGen ρ (.forRange y a b)) := by
  simp only [inferGen] at h
  split at h
  · simp at h
  · rename_i hfind
    cases ha : infer key Γ F a with
    | err es => simp [ha] at h
    | crash s => simp [ha] at h
    | ok ta =>
      cases hb : infer key Γ F b with
      | err es => simp [ha, hb] at h
      | crash s => simp [ha, hb] at h
      | ok tb =>
        simp only [ha, hb] at h
        have hx : y = x ∧ (τx = .prim .int ∨ τx = .prim .length) ∧ ta.isIntLike = true ∧ tb.isIntLike = true := by
          by_cases h1 : ((if ta.isOpt then [Err.startOptional] else []) ++ (if tb.isOpt then [Err.endOptional] else [])) ≠ []
          · simp [h1] at h
          · by_cases h2 : ta.isIntLike = true
            · by_cases h3 : tb.isIntLike = true
              · simp [h1, h2, h3] at h
                refine ⟨h.1, ?_, h2, h3⟩
                rw [← h.2]
                split <;> simp
              · simp [h1, h2, h3] at h
            · simp [h1, h2] at h
        obtain ⟨rfl, hτ, hia, hib⟩ := hx
        refine ⟨by simpa using hfind, ?_⟩
        simp only [evalGen]
        rcases iha ta ha with hea | ⟨av, hea, hav⟩
        · rw [hea]; rfl
        · rcases ihb tb hb with heb | ⟨bv, heb, hbv⟩
          · rw [hea, heb]; rfl
          · obtain ⟨s, hs⟩ := intLike_rangeArg hav hia
            obtain ⟨e, he⟩ := intLike_rangeArg hbv hib
            rw [hea, heb]
            simp only [hs, he]
            exact ⟨rfl, hτ⟩

theorem any_good {g : Gen} {c : Expr} {x : Text} {τx : Ty}
    (hgen : GenGood Γ.decls x τx (evalGen ρ g))
    (hbody : ∀ item, HasTy Γ.decls item τx → Good Γ.decls (eval (ρ.bind x item) c) (.prim .bool)) :
    Good Γ.decls (eval ρ (.any g c)) .bool := by
  have hval : ∀ item, HasTy Γ.decls item τx →
      eval (ρ.bind x item) c = .indexError ∨ ∃ v, eval (ρ.bind x item) c = .val v := by
    intro item hi
    rcases hbody item hi with h | ⟨v, h, _⟩
    · exact Or.inl h
    · exact Or.inr ⟨v, h⟩
  simp only [eval]
  cases hg : evalGen ρ g with
  | items z items =>
    simp only [hg, GenGood] at hgen
    obtain ⟨rfl, hall⟩ := hgen
    exact Good.of_boolOrIndex (quantLoop_typed _ _ _ items (fun item hi => hval item (hall item hi)))
  | range z s n =>
    simp only [hg, GenGood] at hgen
    obtain ⟨rfl, hτ⟩ := hgen
    refine Good.of_boolOrIndex (rangeLoop_typed _ _ _ (fun i => hval (.int i) ?_) n s)
    rcases hτ with rfl | rfl
    · exact HasTy.int i
    · exact HasTy.length i
  | err o =>
    simp only [hg, GenGood] at hgen
    subst hgen
    exact Good.index

theorem all_good {g : Gen} {c : Expr} {x : Text} {τx : Ty}
    (hgen : GenGood Γ.decls x τx (evalGen ρ g))
    (hbody : ∀ item, HasTy Γ.decls item τx → Good Γ.decls (eval (ρ.bind x item) c) (.prim .bool)) :
    Good Γ.decls (eval ρ (.all g c)) .bool := by
  have hval : ∀ item, HasTy Γ.decls item τx →
      eval (ρ.bind x item) c = .indexError ∨ ∃ v, eval (ρ.bind x item) c = .val v := by
    intro item hi
    rcases hbody item hi with h | ⟨v, h, _⟩
    · exact Or.inl h
    · exact Or.inr ⟨v, h⟩
  simp only [eval]
  cases hg : evalGen ρ g with
  | items z items =>
    simp only [hg, GenGood] at hgen
    obtain ⟨rfl, hall⟩ := hgen
    exact Good.of_boolOrIndex (quantLoop_typed _ _ _ items (fun item hi => hval item (hall item hi)))
  | range z s n =>
    simp only [hg, GenGood] at hgen
    obtain ⟨rfl, hτ⟩ := hgen
    refine Good.of_boolOrIndex (rangeLoop_typed _ _ _ (fun i => hval (.int i) ?_) n s)
    rcases hτ with rfl | rfl
    · exact HasTy.int i
    · exact HasTy.length i
  | err o =>
    simp only [hg, GenGood] at hgen
    subst hgen
    exact Good.index

end AasVerif.Expr
