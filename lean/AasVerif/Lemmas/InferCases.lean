import AasVerif.Lemmas.InferBasic
import AasVerif.Lemmas.EvalOps
/-!
One lemma per expression form: if the inferrer accepts the form and the sub-expressions are
`Good` (induction hypotheses), the form is `Good`.
-/
namespace AasVerif.Expr

variable {κ : Type} [DecidableEq κ]

variable {key : Expr → κ} {Γ : TEnv} {F : Facts κ} {ρ : Env}

theorem fact_ne_none (inv : Inv key Γ F ρ) {e : Expr} (hk : key e ∈ F) {v : Val} (hv : eval ρ e = .val v) :
    v ≠ .none := by
  obtain ⟨w, hw, hne⟩ := inv.fact_val hk
  rw [hv] at hw
  cases hw
  exact hne

/-- the value of an instance expression of class type is an instance with the declared fields -/
theorem inst_of_class {D : Decls} {v : Val} {c : Text} {cd : ClassDecl} (h : HasTy D v (.our c))
    (hc : D.findOur c = some (.cls cd)) :
    ∃ oid d fields, v = .inst oid d fields ∧
      (∀ p τ, assoc p cd.props = some τ → (lookup p fields).isSome = true) ∧
      (∀ p τ w, assoc p cd.props = some τ → lookup p fields = some w → HasTy D w τ) := by
  cases h with
  | enumLit h1 _ => rw [hc] at h1; cases h1
  | cprim h1 _ _ => rw [hc] at h1; cases h1
  | inst h1 h2 h3 =>
    rw [hc] at h1; cases h1
    exact ⟨_, _, _, rfl, h2, h3⟩

theorem member_good {i : Expr} {n : Text} {τ : Ty} (inv : Inv key Γ F ρ)
    (ih : ∀ ti, infer key Γ F i = .ok ti → Good Γ.decls (eval ρ i) ti)
    (h : infer key Γ F (.member i n) = .ok τ) : Good Γ.decls (eval ρ (.member i n)) τ := by
  simp only [infer] at h
  cases hi : infer key Γ F i with
  | err es => simp [hi, memberRes] at h
  | crash s => simp [hi, memberRes] at h
  | ok ti =>
    have g := ih ti hi
    rw [hi] at h
    cases he : eval ρ i with
    | noneDeref => exact absurd he g.1
    | typeError => exact ⟨by simp [eval, he], by simp [eval, he]⟩
    | indexError => exact ⟨by simp [eval, he], by simp [eval, he]⟩
    | otherError => exact ⟨by simp [eval, he], by simp [eval, he]⟩
    | val v =>
      have ag := g.2 v he
      cases ti with
      | our c =>
        have hv : HasTy Γ.decls v (.our c) := by
          rcases ag with ag | ag
          · simp [Ty.isLoose] at ag
          · exact ag
        simp only [memberRes] at h
        cases hc : Γ.decls.findOur c with
        | none => simp [hc] at h
        | some d =>
          cases d with
          | enum _ => simp [hc] at h
          | cprim _ => simp [hc] at h
          | cls cd =>
            obtain ⟨oid, d, fields, rfl, hsome, hty⟩ := inst_of_class hv hc
            simp only [hc] at h
            cases hp : assoc n cd.props with
            | some τ0 =>
              simp only [hp, Res.ok.injEq] at h
              subst h
              have hs := hsome n τ0 hp
              cases hl : lookup n fields with
              | none => simp [hl] at hs
              | some w =>
                have hev : eval ρ (.member i n) = .val w := by simp [eval, he, hl]
                refine ⟨by simp [hev], ?_⟩
                intro w' hw'
                rw [hev] at hw'; cases hw'
                exact strip_agrees (Or.inr (hty n τ0 w hp hl)) (fun hk => fact_ne_none inv hk hev)
            | none =>
              simp only [hp] at h
              cases hm : assoc n cd.methods with
              | none => simp [hm] at h
              | some ret =>
                simp only [hm, Res.ok.injEq] at h
                subst h
                refine good_loose ?_ (by simp [Ty.isLoose])
                cases hl : lookup n fields <;> simp [eval, he, hl]
      | enumType en =>
        have hv : HasTy Γ.decls v (.enumType en) := by
          rcases ag with ag | ag
          · simp [Ty.isLoose] at ag
          · exact ag
        cases hv with
        | enumCls hf =>
          simp only [memberRes, hf] at h
          split at h
          · rename_i hcont
            simp only [Res.ok.injEq] at h
            subst h
            have hmem := by simpa using hcont
            have hev : eval ρ (.member i n) = .val (.enumLit en n) := by simp [eval, he, hmem]
            refine ⟨by simp [hev], ?_⟩
            intro w' hw'
            rw [hev] at hw'; cases hw'
            exact Or.inr (HasTy.enumLit hf hmem)
          · simp at h
      | prim _ => simp [memberRes] at h
      | verif _ _ => simp [memberRes] at h
      | builtin _ _ => simp [memberRes] at h
      | method _ _ => simp [memberRes] at h
      | list _ => simp [memberRes] at h
      | set _ => simp [memberRes] at h
      | opt _ => simp [memberRes] at h

theorem strip_isFn {F : Facts κ} {k : κ} {τ : Ty} (h : τ.isFn = true) : strip F k τ = τ := by
  cases τ <;> simp_all [strip, Ty.isFn]

theorem isFn_loose {τ : Ty} (h : τ.isFn = true) : τ.isLoose = true := by
  cases τ <;> simp_all [Ty.isFn, Ty.isLoose]

theorem name_good {x : Text} {τ : Ty} (inv : Inv key Γ F ρ)
    (h : infer key Γ F (.name x) = .ok τ) : Good Γ.decls (eval ρ (.name x)) τ := by
  simp only [infer, inferName] at h
  cases hf : Γ.find x with
  | none => simp [hf] at h
  | some τ0 =>
    simp only [hf, Res.ok.injEq] at h
    subst h
    rcases inv.conf x τ0 hf with hfn | ⟨v, hv, hty⟩
    · rw [strip_isFn hfn]
      refine good_loose ?_ (isFn_loose hfn)
      cases hl : lookup x ρ.vars <;> simp [eval, hl]
    · have hev : eval ρ (.name x) = .val v := by simp [eval, hv]
      refine ⟨by simp [hev], ?_⟩
      intro w hw
      rw [hev] at hw; cases hw
      exact strip_agrees (Or.inr hty) (fun hk => fact_ne_none inv hk hev)

theorem const_good {c : Const} {τ : Ty} (h : infer key Γ F (.const c) = .ok τ) :
    Good Γ.decls (eval ρ (.const c)) τ := by
  simp only [infer, Res.ok.injEq] at h
  subst h
  exact good_loose (by simp [eval]) (by cases c <;> simp [constTy, Ty.isLoose])

/-- unary forms whose result is `bool`: the operand must not be a none-dereference -/
theorem isNone_good {e : Expr} {τ : Ty}
    (ih : ∀ ti, infer key Γ F e = .ok ti → Good Γ.decls (eval ρ e) ti)
    (h : infer key Γ F (.isNone e) = .ok τ) : Good Γ.decls (eval ρ (.isNone e)) τ := by
  simp only [infer] at h
  cases hi : infer key Γ F e with
  | err es => simp [hi] at h
  | crash s => simp [hi] at h
  | ok ti =>
    have g := (ih ti hi).1
    rw [hi] at h
    have hτ : τ = .bool := by cases ti <;> simp_all
    subst hτ
    refine good_loose ?_ (by simp [Ty.bool, Ty.isLoose])
    cases he : eval ρ e with
    | val v => cases v <;> simp [eval, he, Out.ofBool]
    | noneDeref => exact absurd he g
    | _ => simp [eval, he]

theorem isNotNone_good {e : Expr} {τ : Ty}
    (ih : ∀ ti, infer key Γ F e = .ok ti → Good Γ.decls (eval ρ e) ti)
    (h : infer key Γ F (.isNotNone e) = .ok τ) : Good Γ.decls (eval ρ (.isNotNone e)) τ := by
  simp only [infer] at h
  cases hi : infer key Γ F e with
  | err es => simp [hi] at h
  | crash s => simp [hi] at h
  | ok ti =>
    have g := (ih ti hi).1
    rw [hi] at h
    have hτ : τ = .bool := by cases ti <;> simp_all
    subst hτ
    refine good_loose ?_ (by simp [Ty.bool, Ty.isLoose])
    cases he : eval ρ e with
    | val v => cases v <;> simp [eval, he, Out.ofBool]
    | noneDeref => exact absurd he g
    | _ => simp [eval, he]

theorem not_good {e : Expr} {τ : Ty}
    (ih : ∀ ti, infer key Γ F e = .ok ti → Good Γ.decls (eval ρ e) ti)
    (h : infer key Γ F (.not e) = .ok τ) : Good Γ.decls (eval ρ (.not e)) τ := by
  simp only [infer] at h
  cases hi : infer key Γ F e with
  | err es => simp [hi] at h
  | crash s => simp [hi] at h
  | ok ti =>
    have g := (ih ti hi).1
    rw [hi] at h
    have hτ : τ = .bool := by
      simp only at h
      split at h <;> simp_all
    subst hτ
    refine good_loose ?_ (by simp [Ty.bool, Ty.isLoose])
    cases he : eval ρ e with
    | val v => simp [eval, he, Out.ofBool]
    | noneDeref => exact absurd he g
    | _ => simp [eval, he]

/-- a binary form: both operands evaluated left to right, then a value-level operation -/
theorem cmp_good {l r : Expr} {op : Cmp} {τ : Ty} (inv : Inv key Γ F ρ)
    (ihl : ∀ ti, infer key Γ F l = .ok ti → Good Γ.decls (eval ρ l) ti)
    (ihr : ∀ ti, infer key Γ F r = .ok ti → Good Γ.decls (eval ρ r) ti)
    (h : infer key Γ F (.cmp l op r) = .ok τ) : Good Γ.decls (eval ρ (.cmp l op r)) τ := by
  simp only [infer] at h
  cases hl : infer key Γ F l with
  | err es => simp [hl] at h
  | crash s => simp [hl] at h
  | ok tl =>
    cases hr : infer key Γ F r with
    | err es => simp [hl, hr] at h
    | crash s => simp [hl, hr] at h
    | ok tr =>
      have gl := (ihl tl hl).1
      have gr := (ihr tr hr).1
      simp only [hl, hr] at h
      have hτ : τ = .bool := by (repeat' split at h) <;> simp_all
      subst hτ
      refine good_loose ?_ (by simp [Ty.bool, Ty.isLoose])
      cases hel : eval ρ l with
      | val lv =>
        cases her : eval ρ r with
        | val rv => simpa [eval, hel, her] using cmpVals_ne _ _ inv.safe.cmp _ _
        | noneDeref => exact absurd her gr
        | _ => simp [eval, hel, her]
      | noneDeref => exact absurd hel gl
      | _ => simp [eval, hel]

theorem isIn_good {m c : Expr} {τ : Ty} (inv : Inv key Γ F ρ)
    (ihl : ∀ ti, infer key Γ F m = .ok ti → Good Γ.decls (eval ρ m) ti)
    (ihr : ∀ ti, infer key Γ F c = .ok ti → Good Γ.decls (eval ρ c) ti)
    (h : infer key Γ F (.isIn m c) = .ok τ) : Good Γ.decls (eval ρ (.isIn m c)) τ := by
  simp only [infer] at h
  cases hl : infer key Γ F m with
  | err es => cases hr : infer key Γ F c <;> simp [hl, hr] at h
  | crash s => simp [hl] at h
  | ok tl =>
    cases hr : infer key Γ F c with
    | err es => simp [hl, hr] at h
    | crash s => simp [hl, hr] at h
    | ok tr =>
      have gl := (ihl tl hl).1
      have gr := (ihr tr hr).1
      simp only [hl, hr] at h
      have hτ : τ = .bool := by (repeat' split at h) <;> simp_all
      subst hτ
      refine good_loose ?_ (by simp [Ty.bool, Ty.isLoose])
      cases hel : eval ρ m with
      | val lv =>
        cases her : eval ρ c with
        | val rv => simpa [eval, hel, her] using isInVals_ne _ _ _
        | noneDeref => exact absurd her gr
        | _ => simp [eval, hel, her]
      | noneDeref => exact absurd hel gl
      | _ => simp [eval, hel]

theorem arithTy_loose {a b τ : Ty} (h : arithTy a b = .ok τ) : τ.isLoose = true := by
  unfold arithTy at h
  split at h <;> simp_all [Ty.isLoose]
  all_goals (subst_vars; rfl)

theorem arithRes_ok {rl rr : Res Ty} {τ : Ty} (h : arithRes rl rr = .ok τ) :
    (∃ lt, rl = .ok lt) ∧ (∃ rt, rr = .ok rt) ∧ τ.isLoose = true := by
  cases rl with
  | err es => simp [arithRes] at h
  | crash s => simp [arithRes] at h
  | ok lt =>
    cases rr with
    | err es => simp [arithRes] at h
    | crash s => simp [arithRes] at h
    | ok rt =>
      refine ⟨⟨lt, rfl⟩, ⟨rt, rfl⟩, ?_⟩
      simp only [arithRes] at h
      repeat' split at h
      all_goals first | (simp at h; done) | exact arithTy_loose h

theorem add_good {l r : Expr} {τ : Ty} (inv : Inv key Γ F ρ)
    (ihl : ∀ ti, infer key Γ F l = .ok ti → Good Γ.decls (eval ρ l) ti)
    (ihr : ∀ ti, infer key Γ F r = .ok ti → Good Γ.decls (eval ρ r) ti)
    (h : infer key Γ F (.add l r) = .ok τ) : Good Γ.decls (eval ρ (.add l r)) τ := by
  simp only [infer] at h
  obtain ⟨⟨tl, hl⟩, ⟨tr, hr⟩, hloose⟩ := arithRes_ok h
  have gl := (ihl tl hl).1
  have gr := (ihr tr hr).1
  refine good_loose ?_ hloose
  cases hel : eval ρ l with
  | val lv =>
    cases her : eval ρ r with
    | val rv => simpa [eval, hel, her] using arithVals_ne _ _ inv.safe.arith _ _
    | noneDeref => exact absurd her gr
    | _ => simp [eval, hel, her]
  | noneDeref => exact absurd hel gl
  | _ => simp [eval, hel]

theorem sub_good {l r : Expr} {τ : Ty} (inv : Inv key Γ F ρ)
    (ihl : ∀ ti, infer key Γ F l = .ok ti → Good Γ.decls (eval ρ l) ti)
    (ihr : ∀ ti, infer key Γ F r = .ok ti → Good Γ.decls (eval ρ r) ti)
    (h : infer key Γ F (.sub l r) = .ok τ) : Good Γ.decls (eval ρ (.sub l r)) τ := by
  simp only [infer] at h
  obtain ⟨⟨tl, hl⟩, ⟨tr, hr⟩, hloose⟩ := arithRes_ok h
  have gl := (ihl tl hl).1
  have gr := (ihr tr hr).1
  refine good_loose ?_ hloose
  cases hel : eval ρ l with
  | val lv =>
    cases her : eval ρ r with
    | val rv => simpa [eval, hel, her] using arithVals_ne _ _ inv.safe.arith _ _
    | noneDeref => exact absurd her gr
    | _ => simp [eval, hel, her]
  | noneDeref => exact absurd hel gl
  | _ => simp [eval, hel]

theorem indexVals_list_mem {l : List Val} {i x : Val} (h : indexVals (.list l) i = .val x) : x ∈ l := by
  unfold indexVals at h
  simp only [] at h
  repeat' split at h
  all_goals (try (simp at h; done))
  all_goals (repeat' split at h)
  all_goals (try (simp at h; done))
  all_goals
    rename_i hget
    simp only [id, Out.val.injEq] at h
    subst h
    exact List.mem_of_getElem? hget

theorem index_good {c i : Expr} {τ : Ty}
    (ihl : ∀ ti, infer key Γ F c = .ok ti → Good Γ.decls (eval ρ c) ti)
    (ihr : ∀ ti, infer key Γ F i = .ok ti → Good Γ.decls (eval ρ i) ti)
    (h : infer key Γ F (.index c i) = .ok τ) : Good Γ.decls (eval ρ (.index c i)) τ := by
  simp only [infer] at h
  cases hl : infer key Γ F c with
  | err es => simp [hl] at h
  | crash s => simp [hl] at h
  | ok tl =>
    cases hr : infer key Γ F i with
    | err es => simp [hl, hr] at h
    | crash s => simp [hl, hr] at h
    | ok tr =>
      have gl := ihl tl hl
      have gr := (ihr tr hr).1
      simp only [hl, hr] at h
      have hτ : tl = .list τ := by (repeat' split at h) <;> simp_all
      subst hτ
      cases hel : eval ρ c with
      | val lv =>
        cases her : eval ρ i with
        | val rv =>
          have hev : eval ρ (.index c i) = indexVals lv rv := by simp [eval, hel, her]
          refine ⟨by rw [hev]; exact indexVals_ne _ _, ?_⟩
          intro x hx
          rw [hev] at hx
          rcases gl.2 lv hel with hlo | hty
          · simp [Ty.isLoose] at hlo
          · cases hty with
            | list hall => exact Or.inr (hall x (indexVals_list_mem hx))
        | noneDeref => exact absurd her gr
        | _ => exact ⟨by simp [eval, hel, her], by simp [eval, hel, her]⟩
      | noneDeref => exact absurd hel gl.1
      | _ => exact ⟨by simp [eval, hel], by simp [eval, hel]⟩

theorem impl_good {a c : Expr} {τ : Ty} (hk : KeySound key) (inv : Inv key Γ F ρ)
    (iha : ∀ ti, infer key Γ F a = .ok ti → Good Γ.decls (eval ρ a) ti)
    (ihc : ∀ ti, Inv key Γ (implFacts key F a) ρ → infer key Γ (implFacts key F a) c = .ok ti →
      Good Γ.decls (eval ρ c) ti)
    (h : infer key Γ F (.impl a c) = .ok τ) : Good Γ.decls (eval ρ (.impl a c)) τ := by
  simp only [infer] at h
  cases ha : infer key Γ F a with
  | err es => simp [ha] at h
  | crash s => simp [ha] at h
  | ok ta =>
    have ga := (iha ta ha).1
    simp only [ha] at h
    cases hc : infer key Γ (implFacts key F a) c with
    | err es => simp [hc] at h
    | crash s => simp [hc] at h
    | ok tc =>
      simp only [hc] at h
      have hτ : τ = .bool := by (repeat' split at h) <;> simp_all
      subst hτ
      refine good_loose ?_ (by simp [Ty.bool, Ty.isLoose])
      cases hea : eval ρ a with
      | val av =>
        by_cases ht : av.truthy ρ.fops = true
        · have := (ihc tc (inv.implFacts hk hea ht ha) hc).1
          simpa [eval, hea, ht] using this
        · simp [eval, hea, ht, Out.ofBool]
      | noneDeref => exact absurd hea ga
      | _ => simp [eval, hea]

theorem and_cons_ne {e : Expr} {es : List Expr} (hk : KeySound key) (inv : Inv key Γ F ρ)
    (ihe : ∀ ti, infer key Γ F e = .ok ti → Good Γ.decls (eval ρ e) ti)
    (ihes : Inv key Γ (andFact key F e) ρ → inferAnd key Γ (andFact key F e) es = .ok () → evalAnd ρ es ≠ .noneDeref)
    (h : inferAnd key Γ F (e :: es) = .ok ()) : evalAnd ρ (e :: es) ≠ .noneDeref := by
  simp only [inferAnd] at h
  cases he : infer key Γ F e with
  | err xs => simp [he] at h
  | crash s => simp [he] at h
  | ok te =>
    have ge := (ihe te he).1
    simp only [he] at h
    cases hes : inferAnd key Γ (andFact key F e) es with
    | err xs => simp [hes] at h
    | crash s => simp [hes] at h
    | ok u =>
      cases es with
      | nil => simpa [evalAnd] using ge
      | cons e2 es2 =>
        simp only [evalAnd]
        cases hev : eval ρ e with
        | val v =>
          by_cases ht : v.truthy ρ.fops = true
          · simpa [ht] using ihes (inv.andFact hk hev ht ⟨F, te, he⟩) hes
          · simp [ht]
        | noneDeref => exact absurd hev ge
        | _ => simp

theorem or_cons_ne {e : Expr} {es : List Expr} (hk : KeySound key) (inv : Inv key Γ F ρ)
    (ihe : ∀ ti, infer key Γ F e = .ok ti → Good Γ.decls (eval ρ e) ti)
    (ihes : Inv key Γ (orFact key F e) ρ → inferOr key Γ (orFact key F e) es = .ok () → evalOr ρ es ≠ .noneDeref)
    (h : inferOr key Γ F (e :: es) = .ok ()) : evalOr ρ (e :: es) ≠ .noneDeref := by
  simp only [inferOr] at h
  cases he : infer key Γ F e with
  | err xs => simp [he] at h
  | crash s => simp [he] at h
  | ok te =>
    have ge := (ihe te he).1
    simp only [he] at h
    cases hes : inferOr key Γ (orFact key F e) es with
    | err xs => simp [hes] at h
    | crash s => simp [hes] at h
    | ok u =>
      cases es with
      | nil => simpa [evalOr] using ge
      | cons e2 es2 =>
        simp only [evalOr]
        cases hev : eval ρ e with
        | val v =>
          by_cases ht : v.truthy ρ.fops = true
          · simp [ht]
          · have hf : v.truthy ρ.fops = false := by simpa using ht
            simpa [ht] using ihes (inv.orFact hk hev hf ⟨F, te, he⟩) hes
        | noneDeref => exact absurd hev ge
        | _ => simp

/-- the outcome of an argument list is not a none-dereference -/
def ArgsSafe : Args → Prop
  | .ok _ => True
  | .err o => o ≠ .noneDeref

theorem args_cons_safe {e : Expr} {es : List Expr}
    (ihe : ∀ ti, infer key Γ F e = .ok ti → Good Γ.decls (eval ρ e) ti)
    (ihes : inferArgs key Γ F es = .ok () → ArgsSafe (evalArgs ρ es))
    (h : inferArgs key Γ F (e :: es) = .ok ()) : ArgsSafe (evalArgs ρ (e :: es)) := by
  simp only [inferArgs] at h
  cases he : infer key Γ F e with
  | crash s => simp [he] at h
  | err xs =>
    simp only [he] at h
    cases hes : inferArgs key Γ F es <;> simp [hes] at h
  | ok te =>
    have ge := (ihe te he).1
    simp only [he] at h
    have gs := ihes h
    simp only [evalArgs]
    cases hev : eval ρ e with
    | val v =>
      simp only
      cases hr : evalArgs ρ es with
      | ok vs => simp [ArgsSafe]
      | err o => simp only [hr] at gs; simpa [ArgsSafe] using gs
    | noneDeref => exact absurd hev ge
    | _ => simp [ArgsSafe]

theorem parts_lit_ne {s : Text} {ps : List JPart} (ih : evalParts ρ ps ≠ .noneDeref) :
    evalParts ρ (.lit s :: ps) ≠ .noneDeref := by
  simp only [evalParts]
  cases h : evalParts ρ ps with
  | val v => cases v <;> simp
  | noneDeref => exact absurd h ih
  | _ => simp

theorem parts_fv_ne {e : Expr} {ps : List JPart} (inv : Inv key Γ F ρ)
    (ihe : ∀ ti, infer key Γ F e = .ok ti → Good Γ.decls (eval ρ e) ti)
    (ihps : inferParts key Γ F ps = .ok () → evalParts ρ ps ≠ .noneDeref)
    (h : inferParts key Γ F (.fv e :: ps) = .ok ()) : evalParts ρ (.fv e :: ps) ≠ .noneDeref := by
  simp only [inferParts] at h
  cases he : infer key Γ F e with
  | crash s => simp [he] at h
  | err xs =>
    simp only [he] at h
    cases hes : inferParts key Γ F ps <;> simp [hes] at h
  | ok te =>
    have ge := (ihe te he).1
    simp only [he] at h
    have hps : inferParts key Γ F ps = .ok () := by
      split at h
      · cases hes : inferParts key Γ F ps <;> simp [hes] at h
      · exact h
    have gs := ihps hps
    simp only [evalParts]
    cases hev : eval ρ e with
    | val v =>
      simp only
      have hf := fmtVal_ne ρ inv.safe.fmt v
      cases hfm : fmtVal ρ v with
      | val w =>
        cases w <;> simp
        cases hr : evalParts ρ ps with
        | val r => cases r <;> simp
        | noneDeref => exact absurd hr gs
        | _ => simp
      | noneDeref => exact absurd hfm hf
      | _ => simp
    | noneDeref => exact absurd hev ge
    | _ => simp

theorem evalArgs_err_not_val (ρ : Env) : ∀ (args : List Expr) (o : Out), evalArgs ρ args = .err o → ∀ v, o ≠ .val v
  | [], o, h => by simp [evalArgs] at h
  | e :: es, o, h => by
    simp only [evalArgs] at h
    cases he : eval ρ e with
    | val v =>
      simp only [he] at h
      cases hr : evalArgs ρ es with
      | ok vs => simp [hr] at h
      | err o' =>
        simp only [hr, Args.err.injEq] at h
        subst h
        exact evalArgs_err_not_val ρ es _ hr
    | _ => simp [he] at h; subst h; simp

theorem isValTy_strip_not_fn {F : Facts κ} {k : κ} {τ : Ty} (h : τ.isValTy = true) : (strip F k τ).isFn = false := by
  cases τ with
  | opt τ' =>
    simp only [strip]
    split
    · cases τ' <;> simp_all [Ty.isValTy, Ty.isFn]
    · simp [Ty.isFn]
  | _ => simp_all [strip, Ty.isValTy, Ty.isFn]

theorem methodCall_good {i : Expr} {n : Text} {args : List Expr} {τ : Ty} (inv : Inv key Γ F ρ)
    (ihi : ∀ ti, infer key Γ F i = .ok ti → Good Γ.decls (eval ρ i) ti)
    (ihargs : inferArgs key Γ F args = .ok () → ArgsSafe (evalArgs ρ args))
    (h : infer key Γ F (.methodCall i n args) = .ok τ) : Good Γ.decls (eval ρ (.methodCall i n args)) τ := by
  simp only [infer] at h
  cases ha : inferArgs key Γ F args with
  | crash s => simp [ha] at h
  | err ea =>
    simp only [ha] at h
    cases hm : memberRes Γ F (key (.member i n)) n (infer key Γ F i) with
    | crash s => simp [hm] at h
    | err es => simp [hm] at h
    | ok mt => cases mt <;> simp [hm] at h
  | ok u =>
    have gargs := ihargs ha
    simp only [ha] at h
    cases hi : infer key Γ F i with
    | err es => simp [hi, memberRes] at h
    | crash s => simp [hi, memberRes] at h
    | ok ti =>
      have g := ihi ti hi
      rw [hi] at h
      -- the fact about the call itself
      have hfact : ∀ v, eval ρ (.methodCall i n args) = .val v → key (.methodCall i n args) ∈ F → v ≠ .none :=
        fun v hv hk => fact_ne_none inv hk hv
      cases he : eval ρ i with
      | noneDeref => exact absurd he g.1
      | typeError => exact ⟨by simp [eval, he], by simp [eval, he]⟩
      | indexError => exact ⟨by simp [eval, he], by simp [eval, he]⟩
      | otherError => exact ⟨by simp [eval, he], by simp [eval, he]⟩
      | val v =>
        have ag := g.2 v he
        cases ti with
        | our c =>
          have hv : HasTy Γ.decls v (.our c) := by
            rcases ag with ag | ag
            · simp [Ty.isLoose] at ag
            · exact ag
          have hvn : v ≠ .none := hv.our_ne_none
          simp only [memberRes] at h
          cases hc : Γ.decls.findOur c with
          | none => simp [hc] at h
          | some d =>
            cases d with
            | enum _ => simp [hc] at h
            | cprim _ => simp [hc] at h
            | cls cd =>
              simp only [hc] at h
              cases hp : assoc n cd.props with
              | some τ0 =>
                -- a property is not a method
                simp only [hp] at h
                have hnf := isValTy_strip_not_fn (F := F) (k := key (.member i n)) (inv.wf c cd n τ0 hc hp)
                cases hs : strip F (key (.member i n)) τ0 <;> simp [hs] at h
                simp [hs, Ty.isFn] at hnf
              | none =>
                simp only [hp] at h
                cases hm : assoc n cd.methods with
                | none => simp [hm] at h
                | some ret =>
                  simp only [hm, retTy, Res.ok.injEq] at h
                  subst h
                  -- evaluation: receiver, method, arguments
                  obtain ⟨oid, dcls, fields, rfl, _, _⟩ := inst_of_class hv hc
                  cases hmeth : ρ.meths (.inst oid dcls fields) n with
                  | none => exact ⟨by simp [eval, he, hmeth], by simp [eval, he, hmeth]⟩
                  | some f =>
                    cases hargs : evalArgs ρ args with
                    | err o =>
                      simp only [hargs, ArgsSafe] at gargs
                      have : eval ρ (.methodCall i n args) = o := by simp [eval, he, hmeth, hargs]
                      refine ⟨by rw [this]; exact gargs, ?_⟩
                      intro w hw
                      rw [this] at hw
                      subst hw
                      -- an argument "error" that is a value cannot happen: `evalArgs` only reports non-values
                      exact absurd hargs (by
                        intro hcontra
                        have := evalArgs_err_not_val ρ args _ hcontra
                        exact this _ rfl)
                    | ok vs =>
                      have hcall : eval ρ (.methodCall i n args) = f vs := by simp [eval, he, hmeth, hargs]
                      refine ⟨by rw [hcall]; exact inv.safe.meths _ n f vs hmeth, ?_⟩
                      intro w hw
                      have hty := inv.calls.meths _ c cd n ret f vs w hv hc hm hmeth (by rw [← hcall]; exact hw)
                      exact strip_agrees (Or.inr hty) (fun hk => hfact w hw hk)
        | enumType en =>
          simp only [memberRes] at h
          cases hc : Γ.decls.findOur en with
          | none => simp [hc] at h
          | some d =>
            cases d with
            | enum lits =>
              simp only [hc] at h
              by_cases hcont : n ∈ lits
              · simp [hcont] at h
              · simp [hcont] at h
            | cprim _ => simp [hc] at h
            | cls cd => simp [hc] at h
        | prim _ => simp [memberRes] at h
        | verif _ _ => simp [memberRes] at h
        | builtin _ _ => simp [memberRes] at h
        | method _ _ => simp [memberRes] at h
        | list _ => simp [memberRes] at h
        | set _ => simp [memberRes] at h
        | opt _ => simp [memberRes] at h

theorem args_out_good {args : List Expr} {o : Out} {D : Decls} {τ : Ty} (hs : ArgsSafe (evalArgs ρ args))
    (h : evalArgs ρ args = .err o) : Good D o τ := by
  rw [h] at hs
  exact ⟨hs, fun v hv => absurd hv (evalArgs_err_not_val ρ args o h v)⟩

theorem funCall_good {n : Text} {args : List Expr} {τ : Ty} (inv : Inv key Γ F ρ)
    (ihargs : inferArgs key Γ F args = .ok () → ArgsSafe (evalArgs ρ args))
    (h : infer key Γ F (.funCall n args) = .ok τ) : Good Γ.decls (eval ρ (.funCall n args)) τ := by
  simp only [infer] at h
  cases hn : inferName key Γ F n with
  | crash s => simp [hn] at h
  | err e0 => cases ha : inferArgs key Γ F args <;> simp [hn, ha] at h
  | ok tf =>
    cases ha : inferArgs key Γ F args with
    | crash s => simp [hn, ha] at h
    | err ea => cases tf <;> simp [hn, ha] at h
    | ok u =>
      have gargs := ihargs ha
      simp only [hn, ha] at h
      unfold inferName at hn
      cases hf : Γ.find n with
      | none => simp [hf] at hn
      | some τ0 =>
        simp only [hf, Res.ok.injEq] at hn
        cases hl : lookup n ρ.vars with
        | some w =>
          -- a variable of that name: values are not callable
          cases hargs : evalArgs ρ args with
          | ok vs => exact ⟨by simp [eval, hl, hargs], by simp [eval, hl, hargs]⟩
          | err o =>
            have : eval ρ (.funCall n args) = o := by simp [eval, hl, hargs]
            rw [this]; exact args_out_good gargs hargs
        | none =>
          rcases inv.conf n τ0 hf with hfn | ⟨v, hv, _⟩
          · rw [strip_isFn hfn] at hn
            subst hn
            have hfact : ∀ v, eval ρ (.funCall n args) = .val v → key (.funCall n args) ∈ F → v ≠ .none :=
              fun v hv hk => fact_ne_none inv hk hv
            cases τ0 with
            | verif m ret =>
              simp only [retTy, Res.ok.injEq] at h
              subst h
              have himpl := inv.calls.impl n m ret hf
              cases hfun : ρ.funs n with
              | none => simp [hfun] at himpl
              | some f =>
                cases hargs : evalArgs ρ args with
                | err o =>
                  have : eval ρ (.funCall n args) = o := by simp [eval, hl, hfun, hargs]
                  rw [this]; exact args_out_good gargs hargs
                | ok vs =>
                  have hcall : eval ρ (.funCall n args) = f vs := by simp [eval, hl, hfun, hargs]
                  refine ⟨by rw [hcall]; exact inv.safe.funs n f vs hfun, ?_⟩
                  intro w hw
                  have hty := inv.calls.funs n m ret f vs w (Or.inl hf) hfun (by rw [← hcall]; exact hw)
                  exact strip_agrees (Or.inr hty) (fun hk => hfact w hw hk)
            | builtin m ret =>
              simp only [retTy, Res.ok.injEq] at h
              subst h
              obtain ⟨p, rfl⟩ := inv.calls.builtin n m ret hf
              refine good_loose ?_ (by simp [strip, Ty.isLoose])
              cases hfun : ρ.funs n with
              | some f =>
                cases hargs : evalArgs ρ args with
                | err o =>
                  have : eval ρ (.funCall n args) = o := by simp [eval, hl, hfun, hargs]
                  rw [this]; exact (args_out_good (D := Γ.decls) (τ := .bool) gargs hargs).1
                | ok vs =>
                  have hcall : eval ρ (.funCall n args) = f vs := by simp [eval, hl, hfun, hargs]
                  rw [hcall]; exact inv.safe.funs n f vs hfun
              | none =>
                by_cases hlen : n = [108, 101, 110]
                · subst hlen
                  cases hargs : evalArgs ρ args with
                  | err o =>
                    have : eval ρ (.funCall [108, 101, 110] args) = o := by simp [eval, hl, hfun, hargs]
                    rw [this]; exact (args_out_good (D := Γ.decls) (τ := .bool) gargs hargs).1
                  | ok vs =>
                    cases vs with
                    | nil => simp [eval, hl, hfun, hargs]
                    | cons a r =>
                      cases r with
                      | nil => simpa [eval, hl, hfun, hargs] using lenVal_ne a
                      | cons _ _ => simp [eval, hl, hfun, hargs]
                · simp [eval, hl, hfun, hlen]
            | method _ _ => simp at h
            | _ => simp [Ty.isFn] at hfn
          · rw [hl] at hv; cases hv

/-- what the evaluation of a generator yields when the inferrer bound `x : τx` -/
def GenGood (D : Decls) (x : Text) (τx : Ty) : GenRes → Prop
  | .items z items => z = x ∧ ∀ item, item ∈ items → HasTy D item τx
  | .range z _ _ => z = x ∧ (τx = .prim .int ∨ τx = .prim .length)
  | .err o => o ≠ .noneDeref

theorem forEach_good {y x : Text} {it : Expr} {τx : Ty}
    (ihit : ∀ ti, infer key Γ F it = .ok ti → Good Γ.decls (eval ρ it) ti)
    (h : inferGen key Γ F (.forEach y it) = .ok (x, τx)) :
    Γ.find x = none ∧ GenGood Γ.decls x τx (evalGen ρ (.forEach y it)) := by
  simp only [inferGen] at h
  split at h
  · simp at h
  · rename_i hfind
    cases hi : infer key Γ F it with
    | err es => simp [hi] at h
    | crash s => simp [hi] at h
    | ok ti =>
      have g := ihit ti hi
      simp only [hi] at h
      cases ti <;> simp at h
      rename_i items
      obtain ⟨rfl, rfl⟩ := h
      refine ⟨by simpa using hfind, ?_⟩
      simp only [evalGen]
      cases he : eval ρ it with
      | val iv =>
        rcases g.2 iv he with hl | hty
        · simp [Ty.isLoose] at hl
        · cases hty with
          | list hall => simpa [iterItems, GenGood] using hall
      | noneDeref => exact absurd he g.1
      | _ => simp [GenGood]

theorem forRange_good {y x : Text} {a b : Expr} {τx : Ty}
    (iha : ∀ ti, infer key Γ F a = .ok ti → Good Γ.decls (eval ρ a) ti)
    (ihb : ∀ ti, infer key Γ F b = .ok ti → Good Γ.decls (eval ρ b) ti)
    (h : inferGen key Γ F (.forRange y a b) = .ok (x, τx)) :
    Γ.find x = none ∧ GenGood Γ.decls x τx (evalGen ρ (.forRange y a b)) := by
  simp only [inferGen] at h
  split at h
  · simp at h
  · rename_i hfind
    cases ha : infer key Γ F a with
    | err es => simp [ha] at h
    | crash s => simp [ha] at h
    | ok ta =>
      cases hb : infer key Γ F b with
      | err es => simp [ha, hb] at h
      | crash s => simp [ha, hb] at h
      | ok tb =>
        have ga := (iha ta ha).1
        have gb := (ihb tb hb).1
        simp only [ha, hb] at h
        have hx : y = x ∧ (τx = .prim .int ∨ τx = .prim .length) := by
          repeat' split at h
          all_goals first | (simp at h; done) | (simp at h; exact ⟨h.1, by rw [← h.2]; simp⟩)
        obtain ⟨rfl, hτ⟩ := hx
        refine ⟨by simpa using hfind, ?_⟩
        simp only [evalGen]
        cases hea : eval ρ a with
        | val av =>
          cases heb : eval ρ b with
          | val bv =>
            simp only
            cases rangeArg av <;> cases rangeArg bv <;> simp [GenGood, hτ]
          | noneDeref => exact absurd heb gb
          | _ => simp [GenGood]
        | noneDeref => exact absurd hea ga
        | _ => simp [GenGood]

theorem any_good {g : Gen} {c : Expr} {x : Text} {τx τ : Ty} (inv : Inv key Γ F ρ)
    (hx : Γ.find x = none) (hgen : GenGood Γ.decls x τx (evalGen ρ g))
    (hbody : ∀ item, HasTy Γ.decls item τx → eval (ρ.bind x item) c ≠ .noneDeref) (hτ : τ = .bool) :
    Good Γ.decls (eval ρ (.any g c)) τ := by
  subst hτ
  refine good_loose ?_ (by simp [Ty.bool, Ty.isLoose])
  simp only [eval]
  cases hg : evalGen ρ g with
  | items z items =>
    simp only [hg, GenGood] at hgen
    obtain ⟨rfl, hall⟩ := hgen
    exact quantLoop_ne _ _ _ items (fun item hi => hbody item (hall item hi))
  | range z s n =>
    simp only [hg, GenGood] at hgen
    obtain ⟨rfl, hτ⟩ := hgen
    refine rangeLoop_ne _ _ _ (fun i => hbody (.int i) ?_) n s
    rcases hτ with rfl | rfl
    · exact HasTy.int i
    · exact HasTy.length i
  | err o => simpa [hg, GenGood] using hgen

theorem all_good {g : Gen} {c : Expr} {x : Text} {τx τ : Ty} (inv : Inv key Γ F ρ)
    (hx : Γ.find x = none) (hgen : GenGood Γ.decls x τx (evalGen ρ g))
    (hbody : ∀ item, HasTy Γ.decls item τx → eval (ρ.bind x item) c ≠ .noneDeref) (hτ : τ = .bool) :
    Good Γ.decls (eval ρ (.all g c)) τ := by
  subst hτ
  refine good_loose ?_ (by simp [Ty.bool, Ty.isLoose])
  simp only [eval]
  cases hg : evalGen ρ g with
  | items z items =>
    simp only [hg, GenGood] at hgen
    obtain ⟨rfl, hall⟩ := hgen
    exact quantLoop_ne _ _ _ items (fun item hi => hbody item (hall item hi))
  | range z s n =>
    simp only [hg, GenGood] at hgen
    obtain ⟨rfl, hτ⟩ := hgen
    refine rangeLoop_ne _ _ _ (fun i => hbody (.int i) ?_) n s
    rcases hτ with rfl | rfl
    · exact HasTy.int i
    · exact HasTy.length i
  | err o => simpa [hg, GenGood] using hgen

end AasVerif.Expr
