import AasVerif.Lemmas.Fix16Good
/-!
The leaves of the preservation proof: unchanged one-unit values, anchors, the surrogate pair of
an astral literal, and the union emitted for a character set with astral ranges.
-/
namespace AasVerif.Fix16
open AasVerif.Retree

/-- A matcher of exactly one unit, unchanged by the rewriting: good if (outside BMP-only text)
it accepts only BMP non-surrogate units. -/
theorem Good.unit {b : Bool} {M : Matcher} {acc : Nat → Bool}
    (hM : ∀ p s q, M p s q ↔ ∃ c, s = [c] ∧ acc c = true)
    (hacc : b = false → ∀ c, acc c = true → c < 65536 ∧ isSurrogate c = false) : Good b M M := by
  intro pre rest u post' hok hu
  simp only [hM]
  constructor
  · rintro ⟨x, rfl, hx⟩
    obtain ⟨d, rest', rfl, h | h⟩ := utf16_uncons hok.rest (by simpa using hu)
    · obtain ⟨hd, _, rfl, rfl⟩ := h
      exact ⟨[x], rest', rfl, (utf16_single_bmp hd).symm, rfl, x, rfl, hx⟩
    · obtain ⟨hd1, hd2, hb, rfl, _⟩ := h
      have := (hacc hb _ hx).2
      rw [isSurrogate_false_iff, surrogates_fst] at this
      omega
  · rintro ⟨s, post, rfl, rfl, rfl, c, rfl, hc⟩
    have hok' : OkC b c := hok c (by simp)
    have hlt : c < 65536 := by
      cases b with
      | true => exact hok'.2.2 rfl
      | false => exact (hacc rfl c hc).1
    exact ⟨c, utf16_single_bmp hlt, hc⟩

theorem good_start {b : Bool} : Good b (MValue (.sym .start)) (MValue (.sym .start)) := by
  intro pre rest u post' hok hu
  simp only [MValue_start_iff, utf16_eq_nil_iff]
  constructor
  · rintro ⟨rfl, rfl⟩
    exact ⟨[], rest, rfl, rfl, by simpa using hu.symm, rfl, rfl⟩
  · rintro ⟨s, post, rfl, rfl, rfl, rfl, rfl⟩
    exact ⟨rfl, rfl⟩

theorem utf16_eq_nl {b : Bool} {rest : Text} (hs : ∀ c ∈ rest, OkC b c) :
    utf16 rest = [10] ↔ rest = [10] := by
  constructor
  · intro h
    obtain ⟨d, rest', rfl, h | h⟩ := utf16_uncons hs h
    · obtain ⟨_, _, rfl, h2⟩ := h
      rw [utf16_eq_nil_iff.mp h2.symm]
    · obtain ⟨_, _, _, h1, _⟩ := h
      rw [surrogates_fst] at h1; omega
  · rintro rfl; exact utf16_single_bmp (by omega)

theorem good_stop {b : Bool} : Good b (MValue (.sym .stop)) (MValue (.sym .stop)) := by
  intro pre rest u post' hok hu
  simp only [MValue_stop_iff]
  constructor
  · rintro ⟨rfl, h⟩
    have hu' : utf16 rest = post' := by simpa using hu
    refine ⟨[], rest, rfl, rfl, hu'.symm, rfl, ?_⟩
    rcases h with rfl | rfl
    · exact .inl (utf16_eq_nil_iff.mp hu')
    · exact .inr ((utf16_eq_nl hok.rest).mp hu')
  · rintro ⟨s, post, rfl, rfl, rfl, rfl, h⟩
    refine ⟨rfl, ?_⟩
    rcases h with rfl | rfl
    · exact .inl rfl
    · exact .inr (utf16_single_bmp (by omega))

theorem good_fv {b : Bool} {i : Nat} : Good b (MValue (.fv i)) (MValue (.fv i)) := by
  intro pre rest u post' _ _
  simp only [MValue_fv_iff]
  constructor
  · exact False.elim
  · rintro ⟨_, _, _, _, _, h⟩; exact h

/-! ### Astral literal -/

theorem good_pair_core {b : Bool} {c : Nat} (h1 : 65536 ≤ c) (h2 : c ≤ 1114111) :
    Good b (fun _ s _ => s = [c]) (fun _ u _ => u = [(surrogates c).1, (surrogates c).2]) := by
  intro pre rest u post' hok hu
  constructor
  · rintro rfl
    obtain ⟨d, rest', rfl, h | h⟩ := utf16_uncons hok.rest (by simpa using hu)
    · obtain ⟨_, hs, hx, _⟩ := h
      rw [isSurrogate_false_iff, ← hx, surrogates_fst] at hs
      omega
    · obtain ⟨hd1, hd2, _, hx, ht⟩ := h
      simp only [List.cons.injEq] at ht
      have : c = d := surrogates_inj h1 hd1 (Prod.ext hx ht.1)
      subst this
      exact ⟨[c], rest', rfl, (utf16_single_astral h1).symm, ht.2, rfl⟩
  · rintro ⟨s, post, rfl, rfl, rfl, rfl⟩
    exact utf16_single_astral h1

theorem MTerms_chch_iff {h l : Nat} {p u q : Text} : MTerms [ch h, ch l] p u q ↔ u = [h, l] := by
  rw [MTerms_pair_iff (ts := [ch h, ch l]) rfl]
  have := acc_charChar h l
  simp only [charChar] at this
  simp only [this]
  constructor
  · rintro ⟨x, y, rfl, rfl, rfl⟩; rfl
  · rintro rfl; exact ⟨h, l, rfl, rfl, rfl⟩

/-- Unquantified astral literal → the two surrogate literals spliced into the concatenation. -/
theorem good_astral_plain {b : Bool} {c : Chr} (h1 : 65536 ≤ c.code) (h2 : c.code ≤ 1114111) :
    Good b (MTerms [.mk (.char c) none])
      (MTerms [ch (surrogates c.code).1, ch (surrogates c.code).2]) :=
  (good_pair_core h1 h2).congr
    (fun _ _ _ => by rw [MTerms_single_iff, MTerm_plain_iff, MValue_char_iff])
    (fun _ _ _ => MTerms_chch_iff.symm)

/-- Quantified astral literal → the group of the two surrogate literals. -/
theorem good_astral_group {b : Bool} {c : Chr} (h1 : 65536 ≤ c.code) (h2 : c.code ≤ 1114111) :
    Good b (MValue (.char c))
      (MValue (.group (.mk [.mk [ch (surrogates c.code).1, ch (surrogates c.code).2]]))) :=
  (good_pair_core h1 h2).congr
    (fun _ _ _ => MValue_char_iff.symm)
    (fun _ _ _ => by
      rw [MValue_group_iff, MUnion_iff]
      simp only [List.mem_singleton, Concat.mk.injEq]
      constructor
      · rintro rfl; exact ⟨_, rfl, MTerms_chch_iff.mpr rfl⟩
      · rintro ⟨ts, rfl, h⟩; exact MTerms_chch_iff.mp h)

/-! ### Character sets -/

theorem isBmpRange_iff {r : Rng} :
    isBmpRange r = true ↔ r.start.code < 65536 ∧ ∀ e, r.stop = some e → e.code < 65536 := by
  unfold isBmpRange
  gen_consts
  cases r.stop <;> simp

theorem isStraddling_iff {r : Rng} :
    isStraddling r = true ↔ r.start.code < 65536 ∧ ∃ e, r.stop = some e ∧ 65536 ≤ e.code := by
  unfold isStraddling
  gen_consts
  cases r.stop <;> simp

theorem wo_contains {rs : List Rng} {c : Nat} (hc : c < 65536) :
    (woRanges rs).any (·.contains c) = rs.any (·.contains c) := by
  induction rs with
  | nil => rfl
  | cons r rs ih =>
    unfold woRanges
    split
    · simp [ih]
    · next hb =>
      split
      · next hstr =>
        obtain ⟨h1, e, he, h2⟩ := isStraddling_iff.mp hstr
        simp only [List.any_cons, ih]
        congr 1
        rw [Bool.eq_iff_iff, contains_some (r := ⟨r.start, some ⟨65535, true⟩⟩) rfl, contains_some he]
        simp only
        omega
      · next hstr =>
        simp only [List.any_cons, ih]
        have : r.contains c = false := by
          rw [Bool.eq_false_iff]
          intro hcon
          rw [Bool.not_eq_true, ← Bool.not_eq_true, isBmpRange_iff] at hb
          rw [Bool.not_eq_true, ← Bool.not_eq_true, isStraddling_iff] at hstr
          cases hst : r.stop with
          | none =>
            rw [contains_none hst] at hcon
            apply hb; exact ⟨by omega, by simp [hst]⟩
          | some e =>
            rw [contains_some hst] at hcon
            by_cases hs : r.start.code < 65536
            · by_cases he : e.code < 65536
              · apply hb; refine ⟨hs, ?_⟩; intro e' he'; rw [hst] at he'; cases he'; exact he
              · apply hstr; exact ⟨hs, e, hst, by omega⟩
            · omega
        simp [this]

theorem wo_lt {rs : List Rng} {x : Nat} (h : (woRanges rs).any (·.contains x) = true) : x < 65536 := by
  induction rs with
  | nil => simp [woRanges] at h
  | cons r rs ih =>
    unfold woRanges at h
    split at h
    · next hb =>
      simp only [List.any_cons, Bool.or_eq_true] at h
      rcases h with h | h
      · obtain ⟨h1, h2⟩ := isBmpRange_iff.mp hb
        cases hst : r.stop with
        | none => rw [contains_none hst] at h; omega
        | some e => rw [contains_some hst] at h; have := h2 e hst; omega
      · exact ih h
    · split at h
      · simp only [List.any_cons, Bool.or_eq_true] at h
        rcases h with h | h
        · rw [contains_some (r := ⟨r.start, some ⟨65535, true⟩⟩) rfl] at h
          simp only at h; omega
        · exact ih h
      · exact ih h

theorem w_contains {rs : List Rng} {c : Nat} (hc : 65536 ≤ c) :
    (wRanges rs).any (·.contains c) = rs.any (·.contains c) := by
  induction rs with
  | nil => rfl
  | cons r rs ih =>
    unfold wRanges
    split
    · next hb =>
      obtain ⟨h1, h2⟩ := isBmpRange_iff.mp hb
      have : r.contains c = false := by
        rw [Bool.eq_false_iff]
        intro hcon
        cases hst : r.stop with
        | none => rw [contains_none hst] at hcon; omega
        | some e => rw [contains_some hst] at hcon; have := h2 e hst; omega
      simp [ih, this]
    · split
      · next hstr =>
        obtain ⟨h1, e, he, h2⟩ := isStraddling_iff.mp hstr
        simp only [List.any_cons, ih]
        congr 1
        rw [Bool.eq_iff_iff, contains_some (r := ⟨⟨planeStart, true⟩, r.stop⟩) he, contains_some he]
        gen_consts
        omega
      · simp [ih]

theorem rngNoSurrogate_contains {r : Rng} {x : Nat} (h : rngNoSurrogate r = true)
    (hc : r.contains x = true) : isSurrogate x = false := by
  unfold rngNoSurrogate at h
  cases hst : r.stop with
  | none =>
    rw [hst] at h
    rw [contains_none hst] at hc
    subst hc
    simpa using h
  | some e =>
    rw [hst] at h
    rw [contains_some hst] at hc
    simp only [Bool.or_eq_true, decide_eq_true_eq] at h
    rw [isSurrogate_false_iff]
    omega

theorem wo_nosurr {rs : List Rng} {x : Nat} (hn : rs.all rngNoSurrogate = true)
    (h : (woRanges rs).any (·.contains x) = true) : isSurrogate x = false := by
  induction rs with
  | nil => simp [woRanges] at h
  | cons r rs ih =>
    simp only [List.all_cons, Bool.and_eq_true] at hn
    unfold woRanges at h
    split at h
    · simp only [List.any_cons, Bool.or_eq_true] at h
      rcases h with h | h
      · exact rngNoSurrogate_contains hn.1 h
      · exact ih hn.2 h
    · split at h
      · next hstr =>
        obtain ⟨h1, e, he, h2⟩ := isStraddling_iff.mp hstr
        simp only [List.any_cons, Bool.or_eq_true] at h
        rcases h with h | h
        · rw [contains_some (r := ⟨r.start, some ⟨65535, true⟩⟩) rfl] at h
          simp only at h
          have hn1 := hn.1
          unfold rngNoSurrogate at hn1
          rw [he] at hn1
          simp only [Bool.or_eq_true, decide_eq_true_eq] at hn1
          rw [isSurrogate_false_iff]
          omega
        · exact ih hn.2 h
      · exact ih hn.2 h

theorem allPieces_isPair {rs : List Rng} {ps : List Concat} (h : allPieces rs = .ok ps) :
    ∀ c ∈ ps, isPair c = true := by
  induction rs generalizing ps with
  | nil => unfold allPieces at h; cases h; simp
  | cons r rs ih =>
    unfold allPieces at h
    split at h
    · cases h
    · next pcs hr =>
      split at h
      · cases h
      · next qs hq =>
        cases h
        intro c hc
        rcases List.mem_append.mp hc with hc | hc
        · exact rangePieces_isPair hr c hc
        · exact ih hq c hc

theorem allPieces_acc {rs : List Rng} {ps : List Concat} (h : allPieces rs = .ok ps) (x y : Nat) :
    ps.any (concatAcc2 · x y) = true ↔
      (55296 ≤ x ∧ x ≤ 56319) ∧ (56320 ≤ y ∧ y ≤ 57343) ∧
        rs.any (·.contains (combine x y)) = true := by
  induction rs generalizing ps with
  | nil => unfold allPieces at h; cases h; simp
  | cons r rs ih =>
    unfold allPieces at h
    split at h
    · cases h
    · next pcs hr =>
      split at h
      · cases h
      · next qs hq =>
        cases h
        simp only [List.any_append, Bool.or_eq_true, rangePieces_acc hr, ih hq, List.any_cons]
        constructor
        · rintro (⟨a, b, c⟩ | ⟨a, b, c⟩)
          · exact ⟨a, b, .inl c⟩
          · exact ⟨a, b, .inr c⟩
        · rintro ⟨a, b, c | c⟩
          · exact .inl ⟨a, b, c⟩
          · exact .inr ⟨a, b, c⟩

/-- What the group emitted for a set with astral ranges matches, in closed form. -/
theorem set_group_iff {rs : List Rng} {ps : List Concat} (h : allPieces (wRanges rs) = .ok ps)
    {p u q : Text} :
    MValue (.group (.mk (bmpUniate rs ++ ps))) p u q ↔
      (∃ x, u = [x] ∧ (woRanges rs).any (·.contains x) = true) ∨
      (∃ x y, u = [x, y] ∧ (55296 ≤ x ∧ x ≤ 56319) ∧ (56320 ≤ y ∧ y ≤ 57343) ∧
        (wRanges rs).any (·.contains (combine x y)) = true) := by
  rw [MValue_group_iff, MUnion_iff]
  have hps := pieces_match_iff (pre := p) (u := u) (post := q) (allPieces_isPair h)
  simp only [allPieces_acc h] at hps
  rw [← hps]
  constructor
  · rintro ⟨ts, hm, ht⟩
    rcases List.mem_append.mp hm with hm | hm
    · left
      unfold bmpUniate at hm
      split at hm
      · simp at hm
      · simp only [List.mem_singleton, Concat.mk.injEq] at hm
        subst hm
        rw [MTerms_single_iff, MTerm_plain_iff, MValue_set_iff] at ht
        obtain ⟨x, rfl, hx⟩ := ht
        exact ⟨x, rfl, by simpa [setAccepts] using hx⟩
    · exact .inr ⟨ts, hm, ht⟩
  · rintro (⟨x, rfl, hx⟩ | ⟨ts, hm, ht⟩)
    · refine ⟨[.mk (.set false (woRanges rs)) none], List.mem_append.mpr (.inl ?_), ?_⟩
      · unfold bmpUniate
        split
        · next hemp =>
          rw [List.isEmpty_iff] at hemp
          rw [hemp] at hx; simp at hx
        · simp
      · rw [MTerms_single_iff, MTerm_plain_iff, MValue_set_iff]
        exact ⟨x, rfl, by simpa [setAccepts] using hx⟩
    · exact ⟨ts, List.mem_append.mpr (.inr hm), ht⟩

/-- A non-complemented set with astral ranges → the emitted group. -/
theorem good_set_group {b : Bool} {rs : List Rng} {ps : List Concat}
    (h : allPieces (wRanges rs) = .ok ps) (hn : b = false → rs.all rngNoSurrogate = true) :
    Good b (MValue (.set false rs)) (MValue (.group (.mk (bmpUniate rs ++ ps)))) := by
  intro pre rest u post' hok hu
  rw [set_group_iff h]
  simp only [MValue_set_iff]
  constructor
  · rintro (⟨x, rfl, hx⟩ | ⟨x, y, rfl, hx, hy, hc⟩)
    · obtain ⟨d, rest', rfl, hd | hd⟩ := utf16_uncons hok.rest (by simpa using hu)
      · obtain ⟨hd, _, rfl, rfl⟩ := hd
        refine ⟨[x], rest', rfl, (utf16_single_bmp hd).symm, rfl, x, rfl, ?_⟩
        rw [wo_contains hd] at hx
        simpa [setAccepts] using hx
      · obtain ⟨hd1, hd2, hb, rfl, _⟩ := hd
        have := wo_nosurr (hn hb) hx
        rw [isSurrogate_false_iff, surrogates_fst] at this
        omega
    · obtain ⟨d, rest', rfl, hd | hd⟩ := utf16_uncons hok.rest (by simpa using hu)
      · obtain ⟨_, hs, rfl, _⟩ := hd
        rw [isSurrogate_false_iff] at hs; omega
      · obtain ⟨hd1, hd2, _, rfl, ht⟩ := hd
        simp only [List.cons.injEq] at ht
        obtain ⟨rfl, rfl⟩ := ht
        rw [combine_surrogates hd1, w_contains hd1] at hc
        exact ⟨[d], rest', rfl, (utf16_single_astral hd1).symm, rfl, d, rfl,
          by simpa [setAccepts] using hc⟩
  · rintro ⟨s, post, rfl, rfl, rfl, c, rfl, hc⟩
    have hc' : rs.any (·.contains c) = true := by simpa [setAccepts] using hc
    by_cases hlt : c < 65536
    · left
      rw [utf16_single_bmp hlt]
      exact ⟨c, rfl, by rw [wo_contains hlt]; exact hc'⟩
    · right
      have hge : 65536 ≤ c := by omega
      have hok' : OkC b c := hok c (by simp)
      rw [utf16_single_astral hge]
      refine ⟨_, _, rfl, ?_, ?_, ?_⟩
      · rw [surrogates_fst]; have := hok'.1; omega
      · rw [surrogates_snd]; omega
      · rw [combine_surrogates hge, w_contains hge]; exact hc'

theorem w_nil_contains_lt {rs : List Rng} (h : wRanges rs = []) {c : Nat}
    (hc : rs.any (·.contains c) = true) : c < 65536 := by
  have := wo_contains (rs := rs) (c := c)
  by_cases hlt : c < 65536
  · exact hlt
  · have h2 := w_contains (rs := rs) (c := c) (by omega)
    rw [h] at h2
    rw [← h2] at hc
    simp at hc

/-- A set without astral ranges stays as it is. -/
theorem good_set_same {b : Bool} {compl : Bool} {rs : List Rng} (h : wRanges rs = [])
    (hn : b = false → compl = false ∧ rs.all rngNoSurrogate = true) :
    Good b (MValue (.set compl rs)) (MValue (.set compl rs)) := by
  refine Good.unit (acc := setAccepts compl rs) (fun _ _ _ => MValue_set_iff) ?_
  intro hb c hc
  obtain ⟨rfl, hall⟩ := hn hb
  have hc' : rs.any (·.contains c) = true := by simpa [setAccepts] using hc
  refine ⟨w_nil_contains_lt h hc', ?_⟩
  obtain ⟨r, hr, hrc⟩ := List.any_eq_true.mp hc'
  exact rngNoSurrogate_contains (List.all_eq_true.mp hall r hr) hrc

theorem good_char_same {b : Bool} {c : Chr} (h : c.code < 65536)
    (hn : b = false → isSurrogate c.code = false) :
    Good b (MValue (.char c)) (MValue (.char c)) := by
  refine Good.unit (acc := fun x => x == c.code) (fun _ _ _ => ?_) ?_
  · rw [MValue_char_iff]
    constructor
    · rintro rfl; exact ⟨_, rfl, by simp⟩
    · rintro ⟨x, rfl, hx⟩; simp at hx; rw [hx]
  · intro hb x hx
    simp at hx
    subst hx
    exact ⟨h, hn hb⟩

theorem good_dot {b : Bool} (hb : b = true) : Good b (MValue (.sym .dot)) (MValue (.sym .dot)) := by
  refine Good.unit (acc := fun x => x != 10) (fun _ _ _ => ?_) ?_
  · rw [MValue_dot_iff]; simp
  · intro h; rw [hb] at h; cases h

end AasVerif.Fix16
