import AasVerif.Lemmas.CacheLive3
namespace AasVerif.Cache
set_option linter.unusedSimpArgs false

def LiveAll (cfg : Cfg) (s : St) : Prop := ∀ i p, s.procs i = some p → LiveP cfg s.fs s.dir i p

theorem settle_mkd (p : Proc) : (settle p).mkd = p.mkd := by
  unfold settle; split <;> (try split) <;> rfl
theorem settle_te (p : Proc) : (settle p).te = p.te := by
  unfold settle; split <;> (try split) <;> rfl
theorem settle_faulted (p : Proc) : (settle p).faulted = p.faulted := by
  unfold settle; split <;> (try split) <;> rfl

theorem settle_finished (p : Proc) (o : Outcome) (h : p.mode = .finished o) : (settle p).mode = .finished o := by
  unfold settle; split
  · exact h
  · next hm => exact absurd h (hm o)

theorem exec_faulted (cfg : Cfg) (i : Nat) (p : Proc) (fs : FS) (dir : Bool) (g : GOp) (e : Eff)
    (he : exec cfg i p fs dir g = some e) : e.p.faulted = p.faulted ∧ (dir = true → e.dir = true) := by
  unfold exec at he
  cases hop : g.op <;> simp only [hop] at he <;> (repeat' split at he) <;>
    first | (cases he; done) | (cases he; exact ⟨rfl, fun h => h⟩) | (cases he; exact ⟨rfl, fun _ => rfl⟩)

theorem LiveP_frame (cfg : Cfg) (i j t : Nat) (hji : j ≠ i) (fs fs' : FS) (dir dir' : Bool) (p : Proc)
    (h : LiveP cfg fs dir j p) (hf : Frame cfg i t fs fs') (hd : dir = true → dir' = true) :
    LiveP cfg fs' dir' j p := by
  refine ⟨h.alive, ?_, fun hm => hd (h.mkdF hm), ?_⟩
  · intro hh
    have := h.hitF hh
    rcases hf (finalOf cfg p.text) with hq | hq | ⟨_, c, hc, _⟩
    · rw [hq]; exact this
    · simp [finalOf, tmpOf] at hq
    · rw [hc]; rfl
  · intro hh
    have := h.teF hh
    rcases hf (tmpOf cfg j p.text) with hq | hq | ⟨hq, _⟩
    · rw [hq]; exact this
    · simp only [tmpOf, Path.tmp.injEq] at hq; exact absurd hq.2 hji
    · simp [finalOf, tmpOf] at hq

theorem raise_mono (p : Proc) (fs : FS) (g : GOp) (x : Path) (h : (fs x).isSome = true) :
    ((raise p fs g).2 x).isSome = true := by
  unfold raise
  cases hw : p.w with
  | none => exact h
  | some qd =>
    obtain ⟨q, d⟩ := qd
    cases d
    · exact h
    · simp only
      by_cases hx : x = q
      · subst hx; rw [FS.set_same]; rfl
      · rw [FS.set_other _ _ _ _ hx]; exact h

theorem raise_fields (p : Proc) (fs : FS) (g : GOp) :
    (raise p fs g).1.hit = p.hit ∧ (raise p fs g).1.mkd = p.mkd ∧ (raise p fs g).1.te = p.te ∧
    (raise p fs g).1.faulted = p.faulted ∧ (raise p fs g).1.text = p.text := by
  unfold raise; exact ⟨rfl, rfl, rfl, rfl, rfl⟩

theorem LiveAll_update (cfg : Cfg) (s s' : St) (i : Nat) (p0 p1 : Proc) (h : LiveAll cfg s)
    (hprocs : s'.procs = setProc s i p1) (hframe : Frame cfg i p0.text s.fs s'.fs)
    (hd : s.dir = true → s'.dir = true) (hp1 : LiveP cfg s'.fs s'.dir i p1) : LiveAll cfg s' := by
  intro j p hj
  rw [hprocs] at hj
  unfold setProc at hj
  split at hj
  · next hji => injection hj with hj; subst hj; subst hji; exact hp1
  · next hji => exact LiveP_frame cfg i j p0.text hji _ _ _ _ p (h j p hj) hframe hd

theorem step_LiveAll (cfg : Cfg) (hinj : ∀ a b, cfg.hash a = cfg.hash b → a = b) (hlive : LiveSkeleton cfg.ops)
    (s : St) (ev : Event) (hwf : WF cfg s) (h : LiveAll cfg s) : LiveAll cfg (step cfg s ev) := by
  cases ev with
  | spawn text flag =>
    simp only [step]
    intro j p hj
    simp only [setProc] at hj
    split at hj
    · next hji =>
      injection hj with hj; subst hj; subst hji
      unfold spawnProc
      have hl := settle_live { text := text, flag := flag, todo := program cfg.ops flag, mode := .running, hit := none, rh := none, loaded := none, w := none, tc := false, computed := false } rfl (hlive flag)
      refine ⟨fun _ => Or.inl hl, ?_, ?_, ?_⟩
      · intro hh; rw [settle_hit] at hh; simp at hh
      · intro hh; rw [settle_mkd] at hh; simp at hh
      · intro hh; rw [settle_te] at hh; simp at hh
    · exact h j p hj
  | step i =>
    simp only [step]
    split
    · exact h
    · next p0 hp0 =>
      split
      · exact h
      · next g rest htodo =>
        have hP := hwf.pure i p0 hp0
        have hO := hwf.own i p0 hp0
        have hL := h i p0 hp0
        split
        · next e he =>
          obtain ⟨hf, _, _, ht⟩ := exec_ok cfg hinj i p0 g rest s.fs s.dir e hwf.inv hP hO htodo he
          obtain ⟨f1, f2, f3⟩ := exec_facts cfg i p0 g rest s.fs s.dir e hP htodo he hL.hitF hL.mkdF hL.teF
          obtain ⟨hfa, hdm⟩ := exec_faulted cfg i _ s.fs s.dir g e he
          refine LiveAll_update cfg s _ i p0 (settle e.p) h rfl hf hdm ⟨?_, ?_, ?_, ?_⟩
          · intro hfl
            rw [settle_faulted, hfa] at hfl
            rw [settle_text, ht]
            rcases hL.alive hfl with ⟨hm, hl⟩ | hfin
            · obtain ⟨e', he', hal⟩ := exec_alive cfg i p0 g rest s.fs s.dir hP htodo hm hl hL.hitF hL.mkdF hL.teF
              rw [he] at he'
              injection he' with he'
              subst he'
              rcases hal with ⟨hm', hl'⟩ | hfin'
              · exact Or.inl (settle_live e.p hm' hl')
              · exact Or.inr (settle_finished e.p _ hfin')
            · have := hP.settled.2 _ hfin
              rw [htodo] at this; cases this
          · intro hh; rw [settle_hit] at hh; rw [settle_text, ht]; exact f1 hh
          · intro hh; rw [settle_mkd] at hh; exact f2 hh
          · intro hh; rw [settle_te] at hh; rw [settle_text, ht]; exact f3 hh
        · next hnone =>
          obtain ⟨hf, _, _, ht⟩ := raise_ok cfg i p0 g rest s.fs hP hO htodo
          obtain ⟨r1, r2, r3, r4, r5⟩ := raise_fields { p0 with todo := rest } s.fs g
          refine LiveAll_update cfg s _ i p0 (settle (raise { p0 with todo := rest } s.fs g).1) h rfl hf (fun x => x) ⟨?_, ?_, ?_, ?_⟩
          · intro hfl
            rw [settle_faulted, r4] at hfl
            exfalso
            rcases hL.alive hfl with ⟨hm, hl⟩ | hfin
            · obtain ⟨e', he', _⟩ := exec_alive cfg i p0 g rest s.fs s.dir hP htodo hm hl hL.hitF hL.mkdF hL.teF
              rw [he'] at hnone; cases hnone
            · have := hP.settled.2 _ hfin
              rw [htodo] at this; cases this
          · intro hh; rw [settle_hit, r1] at hh; rw [settle_text, r5]
            exact raise_mono { p0 with todo := rest } s.fs g _ (hL.hitF hh)
          · intro hh; rw [settle_mkd, r2] at hh; exact hL.mkdF hh
          · intro hh; rw [settle_te, r3] at hh; rw [settle_text, r5]
            exact raise_mono { p0 with todo := rest } s.fs g _ (hL.teF hh)
  | exc i =>
    simp only [step]
    split
    · exact h
    · next p0 hp0 =>
      split
      · exact h
      · next g rest htodo =>
        have hP := hwf.pure i p0 hp0
        have hO := hwf.own i p0 hp0
        have hL := h i p0 hp0
        obtain ⟨hf, _, _, ht⟩ := raise_ok cfg i p0 g rest s.fs hP hO htodo
        obtain ⟨r1, r2, r3, r4, r5⟩ := raise_fields { p0 with todo := rest } s.fs g
        refine LiveAll_update cfg s _ i p0 (settle { (raise { p0 with todo := rest } s.fs g).1 with faulted := true }) h rfl hf (fun x => x) ⟨?_, ?_, ?_, ?_⟩
        · intro hfl
          rw [settle_faulted] at hfl
          cases hfl
        · intro hh; rw [settle_hit] at hh; rw [settle_text]
          exact raise_mono { p0 with todo := rest } s.fs g _ (hL.hitF (r1 ▸ hh))
        · intro hh; rw [settle_mkd] at hh; exact hL.mkdF (r2 ▸ hh)
        · intro hh; rw [settle_te] at hh; rw [settle_text]
          exact raise_mono { p0 with todo := rest } s.fs g _ (hL.teF (r3 ▸ hh))
  | kill i =>
    simp only [step]
    split
    · exact h
    · next p0 hp0 =>
      split
      · exact h
      · next g rest htodo =>
        have hL := h i p0 hp0
        refine LiveAll_update cfg s _ i p0 { p0 with todo := [], mode := .finished .killed, w := none, faulted := true } h rfl
          (Frame_refl _ _ _ _) (fun x => x) ⟨?_, hL.hitF, hL.mkdF, hL.teF⟩
        intro hfl; cases hfl

theorem LiveAll_init (cfg : Cfg) : LiveAll cfg St.init := by
  intro i p hp; simp [St.init] at hp

theorem run_LiveAll (cfg : Cfg) (hinj : ∀ a b, cfg.hash a = cfg.hash b → a = b) (hsafe : SafeSkeleton cfg.ops)
    (hlive : LiveSkeleton cfg.ops) (sched : List Event) (s : St) (hwf : WF cfg s) (h : LiveAll cfg s) :
    LiveAll cfg (run cfg sched s) := by
  induction sched generalizing s with
  | nil => exact h
  | cons ev rest ih =>
    exact ih (step cfg s ev) (step_WF cfg hinj hsafe s ev hwf) (step_LiveAll cfg hinj hlive s ev hwf h)

end AasVerif.Cache
