import AasVerif.Lemmas.XsdReadTree
/-!
Reading the rendering of a character set (`SetLemma`): the class automaton of `XsdRe.step`
follows `transform_char_set` member by member.
-/
namespace AasVerif.XsdPattern
open AasVerif AasVerif.Retree AasVerif.XsdPattern.XsdRe

/-- a state inside a character class -/
abbrev C (k : Cls) (cur : Frame) (stk : List Frame) : St := ⟨.cls k, none, cur, stk⟩

/-- the members read so far are `done`; a single character may still become a range start -/
def Inv (k : Cls) (done : List Rng) : Prop :=
  k.esc = false ∧ ((k.cur = .none ∧ k.items = done) ∨ ∃ c, k.cur = .one c ∧ k.items ++ [single c] = done)

theorem step_cls_inl {k k' : Cls} {c : Nat} (cur : Frame) (stk : List Frame) (h : clsStep k c = .ok (.inl k')) :
    step (C k cur stk) c = .ok (C k' cur stk) := by
  simp [step, h]

theorem step_cls_inr {k : Cls} {v : Value} {c : Nat} (cur : Frame) (stk : List Frame) (h : clsStep k c = .ok (.inr v)) :
    step (C k cur stk) c = .ok (N (some v) cur stk) := by
  simp [step, h, atom, flush]

theorem clsChar_esc (k : Cls) (x : Nat) : clsChar { k with esc := true, start := false } x = clsChar k x := by
  unfold clsChar
  cases k.cur <;> simp

theorem feed_member_escaped (k k' : Cls) (hesc : k.esc = false) (e x : Nat) (he : unesc e = .ok x)
    (hk' : clsChar k x = .ok k') (cur : Frame) (stk : List Frame) (rest : Text) :
    feed (C k cur stk) (92 :: e :: rest) = feed (C k' cur stk) rest := by
  have h1 : clsStep k 92 = .ok (.inl { k with esc := true, start := false }) := by simp [clsStep, hesc]
  have h2 : clsStep { k with esc := true, start := false } e = .ok (.inl k') := by
    simp only [clsStep, if_true, he]
    rw [clsChar_esc, hk']
    rfl
  rw [feed_cons_ok _ (step_cls_inl cur stk h1), feed_cons_ok _ (step_cls_inl cur stk h2)]

theorem feed_member (rng : EscTable) (hok : shapeOk metaRng rng = true) (c : Chr) (k k' : Cls) (hesc : k.esc = false)
    (hcaret : c.code = 94 → c.enc = false → k.start = false) (hk' : clsChar k c.code = .ok k')
    (cur : Frame) (stk : List Frame) (rest : Text) :
    feed (C k cur stk) (xsdChr rng c ++ rest) = feed (C k' cur stk) rest := by
  simp only [shapeOk, Bool.and_eq_true] at hok
  unfold xsdChr
  split
  · next h =>
    simp only [Bool.and_eq_true, beq_iff_eq] at h
    rw [h.2] at hk'
    exact feed_member_escaped k k' hesc 94 94 unesc_caret hk' cur stk rest
  · next hne =>
    split
    · next t hl =>
      obtain ⟨e, rfl, he⟩ := escLookup_entry rng hok.1 _ _ hl
      exact feed_member_escaped k k' hesc e c.code he hk' cur stk rest
    · next hl =>
      have hm := escLookup_none_of_metas metaRng rng hok.2 _ hl
      simp only [metaRng, List.mem_cons, List.not_mem_nil, or_false, not_or] at hm
      obtain ⟨h92, h91, h93, h45⟩ := hm
      have hst : ¬ (c.code = 94 ∧ k.start = true) := by
        rintro ⟨h94, hs⟩
        have henc : c.enc = false := by
          cases hcenc : c.enc with
          | false => rfl
          | true => exact absurd (by simp [hcenc, h94]) hne
        rw [hcaret h94 henc] at hs
        cases hs
      have h1 : clsStep k c.code = .ok (.inl k') := by
        simp only [clsStep, hesc, Bool.false_eq_true, if_false, h92, h93, h91, h45, hst, hk']
        rfl
      simp only [List.cons_append, List.nil_append]
      rw [feed_cons_ok _ (step_cls_inl cur stk h1)]

theorem isRawDash_norm (r : Rng) (h : isRawDash r = true) : normRng r = single 45 := by
  obtain ⟨⟨code, enc⟩, stop⟩ := r
  simp only [isRawDash, Bool.and_eq_true, Option.isNone_iff_eq_none, beq_iff_eq, Bool.not_eq_true'] at h
  obtain ⟨⟨h1, h2⟩, _⟩ := h
  subst h1; subst h2
  rfl

/-- one member that is not a trailing raw dash keeps the invariant -/
theorem feed_rng (rng : EscTable) (hok : shapeOk metaRng rng = true) (first last fresh : Bool) (r : Rng)
    (hr : inRangeRng r = true) (k : Cls) (done : List Rng) (hinv : Inv k done)
    (hfirst : first = true ↔ done = []) (hstart : k.start = true → first = true ∧ fresh = true)
    (hnt : ¬ (first = false ∧ last = true ∧ isRawDash r = true))
    (cur : Frame) (stk : List Frame) (rest : Text) :
    ∃ k', feed (C k cur stk) (xsdRng rng first last fresh r ++ rest) = feed (C k' cur stk) rest ∧
      Inv k' (done ++ [normRng r]) ∧ k'.start = false ∧ k'.neg = k.neg := by
  obtain ⟨hesc, hcur⟩ := hinv
  unfold xsdRng
  split
  · next hraw =>
    simp only [Bool.and_eq_true, Bool.or_eq_true] at hraw
    have hf : first = true := by
      cases hfc : first with
      | true => rfl
      | false =>
        exfalso
        apply hnt
        refine ⟨hfc, ?_, hraw.2⟩
        rcases hraw.1 with h | h
        · rw [hfc] at h; cases h
        · exact h
    have hd : done = [] := hfirst.mp hf
    subst hd
    have hk : k.cur = .none ∧ k.items = [] := by
      rcases hcur with h | ⟨c, _, h⟩
      · exact h
      · simp at h
    have h1 : clsStep k 45 = .ok (.inl { k with items := [single 45], start := false }) := by
      simp [clsStep, hesc, hk.1, hk.2]
    refine ⟨{ k with items := [single 45], start := false }, ?_, ?_, rfl, rfl⟩
    · simp only [List.cons_append, List.nil_append]
      rw [feed_cons_ok _ (step_cls_inl cur stk h1)]
    · rw [isRawDash_norm r hraw.2]
      exact ⟨hesc, Or.inl ⟨hk.1, rfl⟩⟩
  · next hraw =>
    obtain ⟨⟨x, xenc⟩, stop⟩ := r
    -- the state after the start character
    have hk1 : ∃ k1, clsChar k x = .ok k1 ∧ k1.esc = false ∧ k1.cur = .one x ∧ k1.items = done ∧
        k1.start = false ∧ k1.neg = k.neg := by
      rcases hcur with ⟨hc, hi⟩ | ⟨c, hc, hi⟩
      · exact ⟨{ k with cur := .one x, start := false, esc := false }, by simp only [clsChar, hc], rfl, rfl, hi, rfl, rfl⟩
      · exact ⟨{ k with items := k.items ++ [single c], cur := .one x, start := false, esc := false },
          by simp only [clsChar, hc], rfl, rfl, hi, rfl, rfl⟩
    obtain ⟨k1, hk1, h1esc, h1cur, h1items, h1start, h1neg⟩ := hk1
    have hstartfeed : ∀ rest', feed (C k cur stk)
        ((if (first && x == 94 && !xenc && fresh) = true then [92, 94] else xsdChr rng ⟨x, xenc⟩) ++ rest')
        = feed (C k1 cur stk) rest' := by
      intro rest'
      split
      · next hc =>
        simp only [Bool.and_eq_true, beq_iff_eq, Bool.not_eq_true'] at hc
        have hx : x = 94 := hc.1.1.2
        subst hx
        exact feed_member_escaped k k1 hesc 94 94 unesc_caret hk1 cur stk rest'
      · next hc =>
        refine feed_member rng hok ⟨x, xenc⟩ k k1 hesc ?_ hk1 cur stk rest'
        intro h94 henc
        simp only at h94 henc
        cases hs : k.start with
        | false => rfl
        | true =>
          exfalso
          obtain ⟨hf, hfr⟩ := hstart hs
          apply hc
          simp [hf, hfr, h94, henc]
    cases stop with
    | none =>
      refine ⟨k1, ?_, ?_, h1start, h1neg⟩
      · simp only [List.append_nil]
        exact hstartfeed rest
      · refine ⟨h1esc, Or.inr ⟨x, h1cur, ?_⟩⟩
        rw [h1items]
        rfl
    | some e =>
      obtain ⟨y, yenc⟩ := e
      simp only [inRangeRng, Bool.and_eq_true, decide_eq_true_eq] at hr
      have hxy : x ≤ y := hr.2.2
      have h2 : clsStep k1 45 = .ok (.inl { k1 with cur := .dash x, start := false }) := by
        simp [clsStep, h1esc, h1cur]
      have h3 : clsChar { k1 with cur := .dash x, start := false } y
          = .ok { k1 with items := k1.items ++ [⟨⟨x, false⟩, some ⟨y, false⟩⟩], cur := .none, start := false, esc := false } := by
        simp [clsChar, hxy]
      refine ⟨{ k1 with items := k1.items ++ [⟨⟨x, false⟩, some ⟨y, false⟩⟩], cur := .none, start := false, esc := false },
        ?_, ?_, rfl, h1neg⟩
      · simp only [List.append_assoc, List.cons_append, List.nil_append]
        rw [hstartfeed, feed_cons_ok _ (step_cls_inl cur stk h2)]
        exact feed_member rng hok ⟨y, yenc⟩ { k1 with cur := .dash x, start := false } _ h1esc (fun _ _ => rfl) h3 cur stk rest
      · refine ⟨rfl, Or.inl ⟨rfl, ?_⟩⟩
        simp only [h1items]
        rfl

/-- the closing bracket -/
theorem feed_close (k : Cls) (done : List Rng) (hinv : Inv k done) (hne : done ≠ [])
    (cur : Frame) (stk : List Frame) (rest : Text) :
    feed (C k cur stk) (93 :: rest) = feed (N (some (.set k.neg done)) cur stk) rest := by
  obtain ⟨hesc, hcur⟩ := hinv
  have h1 : clsStep k 93 = .ok (.inr (.set k.neg done)) := by
    rcases hcur with ⟨hc, hi⟩ | ⟨c, hc, hi⟩
    · have : k.items.isEmpty = false := by rw [hi]; cases done with | nil => exact absurd rfl hne | cons _ _ => rfl
      simp [clsStep, hesc, clsClose, hc, this, hi, Except.map, hne]
    · simp [clsStep, hesc, clsClose, hc, hi, Except.map, hne]
  rw [feed_cons_ok _ (step_cls_inr cur stk h1)]

/-- a raw dash as the last member, after other members -/
theorem feed_trailing_dash (k : Cls) (done : List Rng) (hinv : Inv k done) (hne : done ≠ [])
    (cur : Frame) (stk : List Frame) (rest : Text) :
    feed (C k cur stk) (45 :: 93 :: rest) = feed (N (some (.set k.neg (done ++ [single 45]))) cur stk) rest := by
  obtain ⟨hesc, hcur⟩ := hinv
  rcases hcur with ⟨hc, hi⟩ | ⟨c, hc, hi⟩
  · have hnE : k.items.isEmpty = false := by rw [hi]; cases done with | nil => exact absurd rfl hne | cons _ _ => rfl
    have h1 : clsStep k 45 = .ok (.inl { k with cur := .trailing, start := false }) := by
      simp [clsStep, hesc, hc, hnE]
    have h2 : clsStep { k with cur := .trailing, start := false } 93 = .ok (.inr (.set k.neg (done ++ [single 45]))) := by
      simp [clsStep, hesc, clsClose, hi, Except.map]
    rw [feed_cons_ok _ (step_cls_inl cur stk h1), feed_cons_ok _ (step_cls_inr cur stk h2)]
  · have h1 : clsStep k 45 = .ok (.inl { k with cur := .dash c, start := false }) := by
      simp [clsStep, hesc, hc]
    have h2 : clsStep { k with cur := .dash c, start := false } 93 = .ok (.inr (.set k.neg (done ++ [single 45]))) := by
      simp [clsStep, hesc, clsClose, ← hi, Except.map]
    rw [feed_cons_ok _ (step_cls_inl cur stk h1), feed_cons_ok _ (step_cls_inr cur stk h2)]

theorem feed_rngs (rng : EscTable) (hok : shapeOk metaRng rng = true) (fresh : Bool) :
    ∀ (rs : List Rng) (first : Bool) (k : Cls) (done : List Rng),
      rs.all inRangeRng = true → Inv k done → (first = true ↔ done = []) →
      (k.start = true → first = true ∧ fresh = true) → (done ≠ [] ∨ rs ≠ []) →
      ∀ (cur : Frame) (stk : List Frame) (rest : Text),
        feed (C k cur stk) (xsdRngs rng fresh first rs ++ 93 :: rest)
          = feed (N (some (.set k.neg (done ++ rs.map normRng))) cur stk) rest := by
  intro rs
  induction rs with
  | nil =>
    intro first k done _ hinv _ _ hne cur stk rest
    have hd : done ≠ [] := by rcases hne with h | h; exact h; exact absurd rfl h
    simp only [xsdRngs, List.nil_append, List.map_nil, List.append_nil]
    exact feed_close k done hinv hd cur stk rest
  | cons r rs ih =>
    intro first k done hall hinv hfirst hstart _ cur stk rest
    simp only [List.all_cons, Bool.and_eq_true] at hall
    cases rs with
    | nil =>
      simp only [xsdRngs, List.map_cons, List.map_nil]
      by_cases htr : first = false ∧ isRawDash r = true
      · have hd : done ≠ [] := by
          intro h
          have := hfirst.mpr h
          rw [htr.1] at this
          cases this
        have htxt : xsdRng rng first true fresh r = [45] := by simp [xsdRng, htr.2]
        rw [htxt, isRawDash_norm r htr.2]
        exact feed_trailing_dash k done hinv hd cur stk rest
      · obtain ⟨k', hfeed, hinv', hst', hneg'⟩ := feed_rng rng hok first true fresh r hall.1 k done hinv hfirst hstart
          (by rintro ⟨h1, _, h3⟩; exact htr ⟨h1, h3⟩) cur stk (93 :: rest)
        rw [hfeed, feed_close k' _ hinv' (by simp) cur stk rest, hneg']
    | cons r' rs =>
      obtain ⟨k', hfeed, hinv', hst', hneg'⟩ := feed_rng rng hok first false fresh r hall.1 k done hinv hfirst hstart
        (by rintro ⟨_, h2, _⟩; cases h2) cur stk (xsdRngs rng fresh false (r' :: rs) ++ 93 :: rest)
      simp only [xsdRngs, List.append_assoc]
      rw [hfeed, ih false k' (done ++ [normRng r]) hall.2 hinv' (by simp) (by rw [hst']; intro h; cases h) (Or.inl (by simp))
        cur stk rest, hneg']
      simp

/-- **Character sets are read back.** -/
theorem setLemma (rng : EscTable) (hok : shapeOk metaRng rng = true) : SetLemma rng := by
  intro compl rs hin p cur stk rest
  simp only [inRangeSet, Bool.and_eq_true, Bool.not_eq_true', List.isEmpty_eq_false_iff] at hin
  have hne : rs ≠ [] := hin.1.1.1
  have hall := hin.1.1.2
  have h0 : step (N p cur stk) 91 = .ok (C ⟨false, true, [], .none, false⟩ (flush p cur) stk) := by simp [step]
  unfold xsdSet
  cases compl with
  | false =>
    simp only [Bool.false_eq_true, if_false, List.append_nil, Bool.not_false, List.append_assoc, List.cons_append,
      List.nil_append]
    rw [feed_cons_ok _ h0]
    have := feed_rngs rng hok true rs true ⟨false, true, [], .none, false⟩ [] hall ⟨rfl, Or.inl ⟨rfl, rfl⟩⟩ (by simp)
      (by intro _; exact ⟨rfl, rfl⟩) (Or.inr hne) (flush p cur) stk rest
    simpa using this
  | true =>
    simp only [if_true, Bool.not_true, List.append_assoc, List.cons_append, List.nil_append]
    have h1 : clsStep ⟨false, true, [], .none, false⟩ 94 = .ok (.inl ⟨true, false, [], .none, false⟩) := by
      simp [clsStep]
    rw [feed_cons_ok _ h0, feed_cons_ok _ (step_cls_inl _ stk h1)]
    have := feed_rngs rng hok false rs true ⟨true, false, [], .none, false⟩ [] hall ⟨rfl, Or.inl ⟨rfl, rfl⟩⟩ (by simp)
      (by intro h; cases h) (Or.inr hne) (flush p cur) stk rest
    simpa using this

end AasVerif.XsdPattern
