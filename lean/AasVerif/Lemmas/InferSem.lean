import AasVerif.Model.InferSem
/-! Inversion lemmas of the matchers and their soundness with respect to `eval`. -/
namespace AasVerif.Infer
open AasVerif.Len

theorem tryProperty_inv {e : Expr} {p : Ident} (h : tryProperty e = some p) :
    e = .member (.name idSelf) p := by
  cases e with
  | member i q =>
    cases i with
    | name x =>
      simp only [tryProperty] at h
      split at h
      · rename_i hx; cases h; rw [hx]
      · cases h
    | _ => simp [tryProperty] at h
  | _ => simp [tryProperty] at h

theorem eval_self (env : Env) : eval env (.name idSelf) = some env.selfVal := by
  simp [eval]

theorem eval_selfProp (env : Env) (hs : env.selfVal = .inst) (p : Ident) :
    eval env (.member (.name idSelf) p) = env.props p := by
  simp [eval, hs]

theorem matchIntConst_inv {e : Expr} {c : Int} (h : matchIntConst e = some c) : e = .const c := by
  cases e <;> simp [matchIntConst] at h
  rw [h]

theorem trySingleArgCall_inv {e : Expr} {f : Ident} {arg : Expr} (h : trySingleArgCall e = some (f, arg)) :
    e = .call f [arg] := by
  cases e with
  | call g args =>
    cases args with
    | nil => simp [trySingleArgCall] at h
    | cons a rest =>
      cases rest with
      | nil =>
        cases a <;> simp [trySingleArgCall] at h <;> (obtain ⟨h1, h2⟩ := h; subst h1; subst h2; rfl)
      | cons b rest' => cases a <;> simp [trySingleArgCall] at h
  | _ => simp [trySingleArgCall] at h

theorem matchLenCall_inv {e arg : Expr} (h : matchLenCall e = some arg) : e = .call idLen [arg] := by
  unfold matchLenCall at h
  split at h
  · rename_i f a hs
    split at h
    · rename_i hf; cases h; rw [trySingleArgCall_inv hs, hf]
    · cases h
  · cases h


theorem matchLenCmp_inv {e arg : Expr} {b : Bound} (h : matchLenCmp e = .ok (some (arg, b))) :
    ∃ op c, (e = .cmp op (.call idLen [arg]) (.const c) ∧ ofComparison op true c = .ok (some b)) ∨
            (e = .cmp op (.const c) (.call idLen [arg]) ∧ ofComparison op false c = .ok (some b)) := by
  cases e with
  | cmp op l r =>
    refine ⟨op, ?_⟩
    simp only [matchLenCmp] at h
    cases hl : matchLenCall l with
    | some a1 =>
      cases hr : matchIntConst r with
      | some c =>
        rw [hl, hr] at h
        simp only at h
        cases ho : ofComparison op true c with
        | ok ob =>
          rw [ho] at h
          cases ob with
          | some b' =>
            simp only [Res.ok.injEq, Option.some.injEq, Prod.mk.injEq] at h
            obtain ⟨h1, h2⟩ := h
            subst h1; subst h2
            exact ⟨c, Or.inl ⟨by rw [matchLenCall_inv hl, matchIntConst_inv hr], ho⟩⟩
          | none =>
            simp only at h
            -- the second block needs a constant on the left, but the left is a call
            rw [matchLenCall_inv hl] at h
            simp [matchIntConst] at h
        | err m => rw [ho] at h; simp at h
        | crash s => rw [ho] at h; simp at h
      | none =>
        rw [hl, hr] at h
        simp only at h
        rw [matchLenCall_inv hl] at h
        simp [matchIntConst] at h
    | none =>
      rw [hl] at h
      simp only at h
      cases hl2 : matchIntConst l with
      | none => rw [hl2] at h; simp at h
      | some c =>
        cases hr2 : matchLenCall r with
        | none => rw [hl2, hr2] at h; simp at h
        | some a2 =>
          rw [hl2, hr2] at h
          simp only at h
          cases ho : ofComparison op false c with
          | ok ob =>
            rw [ho] at h
            cases ob with
            | some b' =>
              simp only [Res.ok.injEq, Option.some.injEq, Prod.mk.injEq] at h
              obtain ⟨h1, h2⟩ := h
              subst h1; subst h2
              exact ⟨c, Or.inr ⟨by rw [matchIntConst_inv hl2, matchLenCall_inv hr2], ho⟩⟩
            | none => simp at h
          | err m => rw [ho] at h; simp at h
          | crash s => rw [ho] at h; simp at h
  | _ => simp [matchLenCmp] at h


theorem ofComparison_sound {op : Op} {side : Bool} {c : Int} {b : Bound}
    (h : ofComparison op side c = .ok (some b)) (n : Nat) : b.holds n ↔ cmpInt op (if side then n else c) (if side then c else n) = true := by
  cases op <;> cases side <;>
    simp [ofComparison, ofComparisonIn, lookup, Gen.Len.lenOnLeft, Gen.Len.constOnLeft, Bound.mk'] at h <;>
    subst h <;> simp [Bound.holds, cmpInt] <;> omega

/-- `len(self.p)` evaluates to the length of the data held by the property, or fails. -/
theorem eval_len_selfProp (env : Env) (hs : env.selfVal = .inst) (p : Ident) (v : Val)
    (h : eval env (.call idLen [.member (.name idSelf) p]) = some v) :
    ∃ t, env.props p = some (.data t) ∧ v = .int t.length := by
  simp only [eval, evalArgs, hs] at h
  cases hp : env.props p with
  | none => simp [hp] at h
  | some w =>
    cases w with
    | data t =>
      simp [hp] at h
      exact ⟨t, rfl, h.symm⟩
    | _ => simp [hp] at h

theorem eval_cmp_true {env : Env} {op : Op} {l r : Expr} (h : eval env (.cmp op l r) = some (.bool true)) :
    ∃ a b, eval env l = some (.int a) ∧ eval env r = some (.int b) ∧ cmpInt op a b = true := by
  rw [eval] at h
  split at h
  · rename_i a b hl hr
    exact ⟨a, b, hl, hr, by simpa using h⟩
  · cases h

theorem eval_const (env : Env) (c : Int) : eval env (.const c) = some (.int c) := by
  rw [eval]

/-- L1: a recognised length comparison on `self.p` that evaluates to `True` bounds the length of `p`. -/
theorem matchLenOnProp_sound (env : Env) (hs : env.selfVal = .inst) {e : Expr} {p : Ident} {b : Bound}
    (h : matchLenOnProp e = .ok (some (p, b))) (he : eval env e = some (.bool true)) :
    ∃ t, env.props p = some (.data t) ∧ b.holds t.length := by
  unfold matchLenOnProp at h
  split at h
  · rename_i arg b' hm
    split at h
    · rename_i q hq
      simp only [Res.ok.injEq, Option.some.injEq, Prod.mk.injEq] at h
      obtain ⟨h1, h2⟩ := h
      subst h1; subst h2
      have harg := tryProperty_inv hq
      subst harg
      obtain ⟨op, c, ⟨he', ho⟩ | ⟨he', ho⟩⟩ := matchLenCmp_inv hm
      · subst he'
        obtain ⟨a, b2, hl, hr, hc⟩ := eval_cmp_true he
        rw [eval_const] at hr
        cases hr
        obtain ⟨t, hp, hv⟩ := eval_len_selfProp env hs q _ hl
        cases hv
        exact ⟨t, hp, (ofComparison_sound ho t.length).mpr (by simpa using hc)⟩
      · subst he'
        obtain ⟨a, b2, hl, hr, hc⟩ := eval_cmp_true he
        rw [eval_const] at hl
        cases hl
        obtain ⟨t, hp, hv⟩ := eval_len_selfProp env hs q _ hr
        cases hv
        exact ⟨t, hp, (ofComparison_sound ho t.length).mpr (by simpa using hc)⟩
    · cases h
  · cases h
  · cases h
  · cases h


theorem matchPat_inv {pats : List (Ident × Nat)} {e : Expr} {p : Ident} {k : Nat}
    (h : matchPat pats e = some (p, k)) :
    ∃ f, e = .call f [.member (.name idSelf) p] ∧ lookupId f pats = some k := by
  cases e with
  | call f args =>
    cases args with
    | nil => simp [matchPat] at h
    | cons a rest =>
      cases rest with
      | cons b r => simp [matchPat] at h
      | nil =>
        simp only [matchPat] at h
        split at h
        · rename_i q hq
          cases hk : lookupId f pats with
          | none => rw [hk] at h; simp at h
          | some k' =>
            rw [hk] at h
            simp only [Option.map_some, Option.some.injEq, Prod.mk.injEq] at h
            obtain ⟨h1, h2⟩ := h
            subst h1; subst h2
            exact ⟨f, by rw [tryProperty_inv hq], hk⟩
        · cases h
  | _ => simp [matchPat] at h

/-- L2: a recognised pattern call on `self.p` that evaluates to `True`. -/
theorem matchPat_sound (env : Env) {pats : List (Ident × Nat)} (hok : env.OK pats) {e : Expr} {p : Ident} {k : Nat}
    (h : matchPat pats e = some (p, k)) (he : eval env e = some (.bool true)) :
    env.props p = some .none ∨ ∃ t, env.props p = some (.data t) ∧ env.matchesPat k t = true := by
  obtain ⟨f, hf, hk⟩ := matchPat_inv h
  subst hf
  rw [eval] at he
  simp only [evalArgs, eval_selfProp env hok.selfInst] at he
  cases hp : env.props p with
  | none => rw [hp] at he; simp at he
  | some v =>
    rw [hp] at he
    simp only at he
    rcases hok.propsTyped p v hp with hv | ⟨t, hv⟩
    · left; rw [hv]
    · right
      subst hv
      refine ⟨t, rfl, ?_⟩
      split at he
      · simp at he
      · rw [hok.patFns f k t hk] at he
        simpa using he

theorem matchIn_inv {e : Expr} {p x : Ident} (h : matchIn e = some (p, x)) :
    e = .isIn (.member (.name idSelf) p) (.name x) := by
  cases e with
  | isIn m c =>
    cases c with
    | name y =>
      simp only [matchIn] at h
      cases hm : tryProperty m with
      | none => rw [hm] at h; simp at h
      | some q =>
        rw [hm] at h
        simp only [Option.map_some, Option.some.injEq, Prod.mk.injEq] at h
        obtain ⟨h1, h2⟩ := h
        subst h1; subst h2
        rw [tryProperty_inv hm]
    | _ => simp [matchIn] at h
  | _ => simp [matchIn] at h

theorem eval_isIn_true {env : Env} {m : Expr} {x : Ident} (h : eval env (.isIn m (.name x)) = some (.bool true)) :
    ∃ t ms, eval env m = some (.data t) ∧ env.sets x = some ms ∧ t ∈ ms := by
  unfold eval at h
  cases hm : eval env m with
  | none => rw [hm] at h; simp at h
  | some v =>
    rw [hm] at h
    cases v with
    | data t =>
      simp only at h
      cases hs : env.sets x with
      | none => rw [hs] at h; simp at h
      | some ms =>
        rw [hs] at h
        exact ⟨t, ms, rfl, rfl, by simpa using h⟩
    | _ => simp at h

/-- L3: a recognised membership `self.p in X` that evaluates to `True`. -/
theorem matchIn_sound (env : Env) (hs : env.selfVal = .inst) {e : Expr} {p x : Ident}
    (h : matchIn e = some (p, x)) (he : eval env e = some (.bool true)) :
    ∃ t, env.props p = some (.data t) ∧ ∃ ms, env.sets x = some ms ∧ t ∈ ms := by
  rw [matchIn_inv h] at he
  obtain ⟨t, ms, hm, hset, ht⟩ := eval_isIn_true he
  rw [eval_selfProp env hs] at hm
  exact ⟨t, hm, ms, hset, ht⟩

/-- L4: a conjunction that evaluates to `True` has only `True` operands. -/
theorem evalAnd_true {env : Env} {es : List Expr} (h : evalAnd env es = some (.bool true)) :
    ∀ e ∈ es, eval env e = some (.bool true) := by
  induction es with
  | nil => intro e he; cases he
  | cons x xs ih =>
    rw [evalAnd] at h
    split at h
    · rename_i hx
      intro e he
      rcases List.mem_cons.mp he with h' | h'
      · rw [h']; exact hx
      · exact ih h e h'
    · cases h
    · cases h

theorem eval_and {env : Env} {es : List Expr} : eval env (.and es) = evalAnd env es := by
  rw [eval]

theorem tryConditional_inv {e cons : Expr} {g : Ident} (h : tryConditional e = some (g, cons)) :
    e = .implies (.isNotNone (.member (.name idSelf) g)) cons ∨
    e = .or [.isNone (.member (.name idSelf) g), cons] := by
  cases e with
  | implies a c =>
    cases a with
    | isNotNone v =>
      simp only [tryConditional] at h
      cases hv : tryProperty v with
      | none => rw [hv] at h; simp at h
      | some q =>
        rw [hv] at h
        simp only [Option.map_some, Option.some.injEq, Prod.mk.injEq] at h
        obtain ⟨h1, h2⟩ := h
        subst h1; subst h2
        left; rw [tryProperty_inv hv]
    | _ => simp [tryConditional] at h
  | or es =>
    match es, h with
    | [.isNone v, c], h =>
      simp only [tryConditional] at h
      cases hv : tryProperty v with
      | none => rw [hv] at h; simp at h
      | some q =>
        rw [hv] at h
        simp only [Option.map_some, Option.some.injEq, Prod.mk.injEq] at h
        obtain ⟨h1, h2⟩ := h
        subst h1; subst h2
        right; rw [tryProperty_inv hv]
  | _ => simp [tryConditional] at h

theorem eval_isNone_of {env : Env} {e : Expr} {v : Val} (h : eval env e = some v) :
    eval env (.isNone e) = some (.bool (decide (v = .none))) := by
  rw [eval, h]

theorem eval_isNone_none {env : Env} {e : Expr} (h : eval env e = none) : eval env (.isNone e) = none := by
  rw [eval, h]

theorem eval_isNotNone_of {env : Env} {e : Expr} {v : Val} (h : eval env e = some v) :
    eval env (.isNotNone e) = some (.bool (decide (v ≠ .none))) := by
  rw [eval, h]

theorem eval_isNotNone_none {env : Env} {e : Expr} (h : eval env e = none) : eval env (.isNotNone e) = none := by
  rw [eval, h]

/-- L5: a guarded invariant that evaluates to `True`: the guarding property is `None`, or the consequent is `True`. -/
theorem tryConditional_sound (env : Env) (hs : env.selfVal = .inst) {e cons : Expr} {g : Ident}
    (h : tryConditional e = some (g, cons)) (he : eval env e = some (.bool true)) :
    env.props g = some .none ∨ eval env cons = some (.bool true) := by
  rcases tryConditional_inv h with h' | h'
  · subst h'
    rw [eval] at he
    cases hp : env.props g with
    | none =>
      rw [eval_isNotNone_none (by rw [eval_selfProp env hs]; exact hp)] at he
      simp at he
    | some v =>
      rw [eval_isNotNone_of (by rw [eval_selfProp env hs]; exact hp)] at he
      by_cases hv : v = .none
      · left; rw [hv]
      · right
        simp only [ne_eq, hv, not_false_eq_true, decide_true] at he
        exact he
  · subst h'
    rw [eval, evalOr] at he
    cases hp : env.props g with
    | none =>
      rw [eval_isNone_none (by rw [eval_selfProp env hs]; exact hp)] at he
      simp at he
    | some v =>
      rw [eval_isNone_of (by rw [eval_selfProp env hs]; exact hp)] at he
      by_cases hv : v = .none
      · left; rw [hv]
      · right
        simp only [hv, decide_false] at he
        rw [evalOr] at he
        split at he
        · rename_i hc; exact hc
        · rw [evalOr] at he; cases he
        · cases he


theorem recogLen_sound (env : Env) (hs : env.selfVal = .inst) {inv : Expr} {p : Ident} {b : Bound}
    (hr : recogLen inv = .ok (some (p, b))) (he : eval env inv = some (.bool true)) :
    env.props p = some .none ∨ ∃ t, env.props p = some (.data t) ∧ b.holds t.length := by
  unfold recogLen at hr
  split at hr
  · rename_i g cons hc
    split at hr
    · rename_i q b' hm
      split at hr
      · cases hr
      · rename_i hpg
        simp only [Res.ok.injEq, Option.some.injEq, Prod.mk.injEq] at hr
        obtain ⟨h1, h2⟩ := hr
        subst h1; subst h2
        have hqg : q = g := by simpa using hpg
        rcases tryConditional_sound env hs hc he with h | h
        · left; rw [hqg]; exact h
        · right; exact matchLenOnProp_sound env hs hm h
    · rename_i hneg
      exact absurd hr (hneg p b)
  · right; exact matchLenOnProp_sound env hs hr he

theorem recogPat_sound (env : Env) {pats : List (Ident × Nat)} (hok : env.OK pats) {inv : Expr} {p : Ident} {k : Nat}
    (hr : (p, k) ∈ recogPat pats inv) (he : eval env inv = some (.bool true)) :
    env.props p = some .none ∨ ∃ t, env.props p = some (.data t) ∧ env.matchesPat k t = true := by
  have hs := hok.selfInst
  unfold recogPat at hr
  split at hr
  · rename_i g cons hc
    rcases tryConditional_sound env hs hc he with h | h
    · -- the guard is `None`; whatever was recognised is on the guarded property
      split at hr
      · rename_i vs
        obtain ⟨v, _, hv⟩ := List.mem_filterMap.mp hr
        split at hv
        · rename_i q k' _
          split at hv
          · rename_i hqg; cases hv; left; rw [hqg]; exact h
          · cases hv
        · cases hv
      · rename_i f args
        split at hr
        · rename_i q k' _
          split at hr
          · rename_i hqg
            simp only [List.mem_singleton, Prod.mk.injEq] at hr
            left; rw [hr.1, hqg]; exact h
          · cases hr
        · cases hr
      · cases hr
    · split at hr
      · rename_i vs
        obtain ⟨v, hvm, hv⟩ := List.mem_filterMap.mp hr
        split at hv
        · rename_i q k' hm
          split at hv
          · cases hv
            rw [eval_and] at h
            exact matchPat_sound env hok hm (evalAnd_true h v hvm)
          · cases hv
        · cases hv
      · rename_i f args
        split at hr
        · rename_i q k' hm
          split at hr
          · simp only [List.mem_singleton, Prod.mk.injEq] at hr
            obtain ⟨h1, h2⟩ := hr
            subst h1; subst h2
            exact matchPat_sound env hok hm h
          · cases hr
        · cases hr
      · cases hr
  · split at hr
    · rename_i vs
      obtain ⟨v, hvm, hv⟩ := List.mem_filterMap.mp hr
      rw [eval_and] at he
      exact matchPat_sound env hok hv (evalAnd_true he v hvm)
    · rename_i f args
      rw [Option.mem_toList] at hr
      exact matchPat_sound env hok hr he
    · cases hr

theorem recogSet_sound (env : Env) (hs : env.selfVal = .inst) {inv : Expr} {p x : Ident}
    (hr : (p, x) ∈ recogSet inv) (he : eval env inv = some (.bool true)) :
    env.props p = some .none ∨ ∃ t, env.props p = some (.data t) ∧ ∃ ms, env.sets x = some ms ∧ t ∈ ms := by
  unfold recogSet at hr
  split at hr
  · rename_i g cons hc
    simp only [List.mem_filter, decide_eq_true_eq] at hr
    obtain ⟨hmem, hpg⟩ := hr
    rcases tryConditional_sound env hs hc he with h | h
    · left; rw [hpg]; exact h
    · right
      split at hmem
      · rename_i vs
        obtain ⟨v, hvm, hv⟩ := List.mem_filterMap.mp hmem
        rw [eval_and] at h
        exact matchIn_sound env hs hv (evalAnd_true h v hvm)
      · rw [Option.mem_toList] at hmem
        exact matchIn_sound env hs hmem h
  · right
    split at hr
    · rename_i vs
      obtain ⟨v, hvm, hv⟩ := List.mem_filterMap.mp hr
      rw [eval_and] at he
      exact matchIn_sound env hs hv (evalAnd_true he v hvm)
    · rw [Option.mem_toList] at hr
      exact matchIn_sound env hs hr he

/-- "Never misread": whatever the recognisers infer from an invariant is implied by the invariant. -/
theorem recognise_sound (env : Env) (pats : List (Ident × Nat)) (hok : env.OK pats) (inv : Expr) (p : Ident) (k : K)
    (hk : (p, k) ∈ recognise pats inv) (he : eval env inv = some (.bool true)) :
    env.props p = some .none ∨ ∃ t, env.props p = some (.data t) ∧ k.holds env t := by
  unfold recognise at hk
  rcases List.mem_append.mp hk with hk | hk
  · rcases List.mem_append.mp hk with hk | hk
    · split at hk
      · rename_i q b hr
        simp only [List.mem_singleton, Prod.mk.injEq] at hk
        obtain ⟨h1, h2⟩ := hk
        subst h1; subst h2
        exact recogLen_sound env hok.selfInst hr he
      · cases hk
    · obtain ⟨⟨q, k'⟩, hm, heq⟩ := List.mem_map.mp hk
      simp only [Prod.mk.injEq] at heq
      obtain ⟨h1, h2⟩ := heq
      subst h1; subst h2
      exact recogPat_sound env hok hm he
  · obtain ⟨⟨q, x⟩, hm, heq⟩ := List.mem_map.mp hk
    simp only [Prod.mk.injEq] at heq
    obtain ⟨h1, h2⟩ := heq
    subst h1; subst h2
    exact recogSet_sound env hok.selfInst hm he


/-! ### invariants of constrained primitives (`self` is the value itself) -/

theorem eval_len_self (env : Env) (t : List Nat) (hs : env.selfVal = .data t) :
    eval env (.call idLen [.name idSelf]) = some (.int t.length) := by
  simp [eval, evalArgs, hs]

theorem recogLenSelf_sound (env : Env) (t : List Nat) (hs : env.selfVal = .data t) {inv : Expr} {b : Bound}
    (hr : recogLenSelf inv = .ok (some b)) (he : eval env inv = some (.bool true)) : b.holds t.length := by
  unfold recogLenSelf at hr
  split at hr
  · rename_i x b' hm
    split at hr
    · rename_i hx
      simp only [Res.ok.injEq, Option.some.injEq] at hr
      subst hr
      subst hx
      obtain ⟨op, c, ⟨he', ho⟩ | ⟨he', ho⟩⟩ := matchLenCmp_inv hm
      · subst he'
        obtain ⟨a, b2, hl, hr, hc⟩ := eval_cmp_true he
        rw [eval_const] at hr
        cases hr
        rw [eval_len_self env t hs] at hl
        cases hl
        exact (ofComparison_sound ho t.length).mpr (by simpa using hc)
      · subst he'
        obtain ⟨a, b2, hl, hr, hc⟩ := eval_cmp_true he
        rw [eval_const] at hl
        cases hl
        rw [eval_len_self env t hs] at hr
        cases hr
        exact (ofComparison_sound ho t.length).mpr (by simpa using hc)
    · cases hr
  · cases hr
  · cases hr
  · cases hr

theorem matchPatSelf_inv {pats : List (Ident × Nat)} {e : Expr} {k : Nat} (h : matchPatSelf pats e = some k) :
    ∃ f, e = .call f [.name idSelf] ∧ lookupId f pats = some k := by
  cases e with
  | call f args =>
    match args, h with
    | [.name x], h =>
      simp only [matchPatSelf] at h
      split at h
      · rename_i hx; subst hx; exact ⟨f, rfl, h⟩
      · cases h
  | _ => simp [matchPatSelf] at h

theorem matchPatSelf_sound (env : Env) (pats : List (Ident × Nat)) (t : List Nat) (hs : env.selfVal = .data t)
    (hfn : ∀ f k t, lookupId f pats = some k → env.fn f [.data t] = some (.bool (env.matchesPat k t)))
    {e : Expr} {k : Nat} (h : matchPatSelf pats e = some k) (he : eval env e = some (.bool true)) :
    env.matchesPat k t = true := by
  obtain ⟨f, hf, hk⟩ := matchPatSelf_inv h
  subst hf
  rw [eval] at he
  simp only [evalArgs, eval_self, hs] at he
  split at he
  · simp at he
  · rw [hfn f k t hk] at he
    simpa using he

/-- What is inferred from an invariant of a constrained primitive is implied by the invariant. -/
theorem recogniseSelf_sound (env : Env) (pats : List (Ident × Nat)) (t : List Nat) (hs : env.selfVal = .data t)
    (hfn : ∀ f k t, lookupId f pats = some k → env.fn f [.data t] = some (.bool (env.matchesPat k t)))
    (inv : Expr) (k : K) (hk : k ∈ recogniseSelf pats inv) (he : eval env inv = some (.bool true)) :
    k.holds env t := by
  unfold recogniseSelf at hk
  rcases List.mem_append.mp hk with hk | hk
  · split at hk
    · rename_i b hr
      simp only [List.mem_singleton] at hk
      subst hk
      exact recogLenSelf_sound env t hs hr he
    · cases hk
  · obtain ⟨k', hm, heq⟩ := List.mem_map.mp hk
    subst heq
    unfold recogPatSelf at hm
    split at hm
    · rename_i vs
      obtain ⟨v, hvm, hv⟩ := List.mem_filterMap.mp hm
      rw [eval_and] at he
      exact matchPatSelf_sound env pats t hs hfn hv (evalAnd_true he v hvm)
    · rename_i f args
      rw [Option.mem_toList] at hm
      exact matchPatSelf_sound env pats t hs hfn hm he
    · cases hm

end AasVerif.Infer
