import AasVerif.Lemmas.HierBasic
/-!
Ancestors and descendants: the ontology's lists along a topological order are the
transitive closure of the parent relation; the intermediate lists are duplicate free
and inverse to each other.
-/
namespace AasVerif.Hier

theorem flatMap_congr' {α β : Type} {l : List α} {f g : α → List β} (h : ∀ x ∈ l, f x = g x) :
    l.flatMap f = l.flatMap g := by
  induction l with
  | nil => rfl
  | cons x xs ih =>
    simp only [List.flatMap_cons]
    rw [h x (by simp), ih (fun y hy => h y (by simp [hy]))]

theorem mem_insertByIdx {order : List Name} {p x : Name} {l : List Name} :
    x ∈ insertByIdx order p l ↔ x = p ∨ x ∈ l := by
  induction l with
  | nil => simp [insertByIdx]
  | cons q qs ih =>
    unfold insertByIdx
    split
    · simp
    · simp only [List.mem_cons, ih]
      constructor
      · rintro (h | h | h)
        · exact Or.inr (Or.inl h)
        · exact Or.inl h
        · exact Or.inr (Or.inr h)
      · rintro (h | h | h)
        · exact Or.inr (Or.inl h)
        · exact Or.inl h
        · exact Or.inr (Or.inr h)

theorem mem_sortByIdx {order ps : List Name} {x : Name} : x ∈ sortByIdx order ps ↔ x ∈ ps := by
  unfold sortByIdx
  induction ps with
  | nil => simp
  | cons p ps ih => simp only [List.foldr_cons, mem_insertByIdx, ih, List.mem_cons]

/-- the parent relation of a hierarchy given by its parent lists -/
def ParentRel (par : Name → List Name) (a c : Name) : Prop := a ∈ par c

/-- The order lists every class that takes part in the inheritance. -/
def Covers (par : Name → List Name) (order : List Name) : Prop :=
  ∀ c p, p ∈ par c → c ∈ order ∧ p ∈ order

section Anc
variable {par : Name → List Name} {order : List Name}

theorem ontAnc_eq (hnd : order.Nodup) (hts : TopoSorted par order) {c : Name} (hc : c ∈ order) :
    ontAnc par order c = (sortByIdx order (par c)).flatMap (fun p => ontAnc par order p ++ [p]) := by
  unfold ontAnc ontAncL
  have := foldUpd_spec (κ := Name) id (fun _ => ([] : List Name))
    (fun st c => (sortByIdx order (par c)).flatMap (fun p => st p ++ [p])) par order
    (by simpa using hnd)
    (by
      intro x st st' h
      apply flatMap_congr'
      intro p hp
      rw [h p (mem_sortByIdx.mp hp)])
    (by
      intro l1 x l2 hs p hp
      simpa using hts.not_after hnd hs hp)
    c hc
  simpa using this

theorem ontAnc_of_not_mem {c : Name} (hc : c ∉ order) : ontAnc par order c = [] := by
  unfold ontAnc ontAncL
  rw [get_foldUpd_of_not_mem]
  simpa using hc

theorem mem_ontAnc (hnd : order.Nodup) (hts : TopoSorted par order) {c a : Name} (hc : c ∈ order) :
    a ∈ ontAnc par order c ↔ ∃ p ∈ par c, a ∈ ontAnc par order p ∨ a = p := by
  rw [ontAnc_eq hnd hts hc]
  simp only [List.mem_flatMap, mem_sortByIdx, List.mem_append, List.mem_singleton]

/-- The ontology's ancestor list of a class holds exactly the transitive closure of its parents. -/
theorem mem_ontAnc_iff_transGen (hnd : order.Nodup) (hts : TopoSorted par order) (hcov : Covers par order)
    {c a : Name} (hc : c ∈ order) :
    a ∈ ontAnc par order c ↔ Relation.TransGen (ParentRel par) a c := by
  constructor
  · have := topo_induction (P := fun c => ∀ a, a ∈ ontAnc par order c → Relation.TransGen (ParentRel par) a c)
      hts (by
        intro c hc ih a ha
        obtain ⟨p, hp, h⟩ := (mem_ontAnc hnd hts hc).mp ha
        rcases h with h | rfl
        · exact Relation.TransGen.tail (ih p hp a h) hp
        · exact Relation.TransGen.single hp)
    exact this c hc a
  · intro h
    induction h with
    | single h => exact (mem_ontAnc hnd hts (hcov _ _ h).1).mpr ⟨_, h, Or.inr rfl⟩
    | tail _ hbc ih => exact (mem_ontAnc hnd hts (hcov _ _ hbc).1).mpr ⟨_, hbc, Or.inl (ih (hcov _ _ hbc).2)⟩

theorem transGen_mem_order (hcov : Covers par order) {a c : Name}
    (h : Relation.TransGen (ParentRel par) a c) : a ∈ order ∧ c ∈ order := by
  induction h with
  | single h => exact ⟨(hcov _ _ h).2, (hcov _ _ h).1⟩
  | tail _ hbc ih => exact ⟨ih.1, (hcov _ _ hbc).1⟩

end Anc

/-! ## descendants and the intermediate lists -/

theorem mem_ontDesc {anc : Name → List Name} {order : List Name} {a d : Name} :
    d ∈ ontDesc anc order a ↔ d ∈ order ∧ a ∈ anc d := by
  unfold ontDesc
  simp only [List.mem_flatMap, List.mem_map, List.mem_filter, decide_eq_true_eq]
  constructor
  · rintro ⟨x, hx, y, ⟨hy, rfl⟩, rfl⟩
    exact ⟨hx, hy⟩
  · rintro ⟨hd, ha⟩
    exact ⟨d, hd, a, ⟨ha, rfl⟩, rfl⟩

theorem mem_irDesc {desc : Name → List Name} {a d : Name} : d ∈ irDesc desc a ↔ d ∈ desc a := by
  unfold irDesc
  simp [mem_addAll]

theorem nodup_irDesc (desc : Name → List Name) (a : Name) : (irDesc desc a).Nodup :=
  nodup_addAll List.nodup_nil

theorem filter_eq_map_const {l : List Name} (hl : l.Nodup) (c a : Name) :
    (l.filter (· = c)).map (fun _ => a) = if c ∈ l then [a] else [] := by
  induction l with
  | nil => simp
  | cons x xs ih =>
    have hx := List.nodup_cons.mp hl
    by_cases hxc : x = c
    · subst hxc
      have : xs.filter (· = x) = [] := by
        simp only [List.filter_eq_nil_iff, decide_eq_true_eq]
        intro y hy hyx
        subst hyx
        exact hx.1 hy
      simp [this]
    · have hne : ¬ c = x := fun h => hxc h.symm
      simp only [List.filter_cons, hxc, decide_false, List.mem_cons, hne, false_or]
      simpa using ih hx.2

theorem irAnc_eq_filter {ns : List Name} {ird : Name → List Name} (hird : ∀ a, (ird a).Nodup) (c : Name) :
    irAnc ns ird c = ns.filter (fun a => decide (c ∈ ird a)) := by
  unfold irAnc
  induction ns with
  | nil => rfl
  | cons a ns ih =>
    simp only [List.flatMap_cons, ih, filter_eq_map_const (hird a), List.filter_cons]
    by_cases h : c ∈ ird a <;> simp [h]

theorem mem_irAnc {ns : List Name} {ird : Name → List Name} (hird : ∀ a, (ird a).Nodup) {a c : Name} :
    a ∈ irAnc ns ird c ↔ a ∈ ns ∧ c ∈ ird a := by
  rw [irAnc_eq_filter hird]
  simp

theorem nodup_irAnc {ns : List Name} {ird : Name → List Name} (hns : ns.Nodup) (hird : ∀ a, (ird a).Nodup)
    (c : Name) : (irAnc ns ird c).Nodup := by
  rw [irAnc_eq_filter hird]
  exact List.filter_sublist.nodup hns

theorem get_map_table {β : Type} (d : Name → β) (f : Name → β) (l : List Name) (k : Name) :
    get d (l.map (fun a => (a, f a))) k = if k ∈ l then f k else d k := by
  induction l with
  | nil => simp
  | cons x xs ih =>
    simp only [List.map_cons, get_cons, ih, List.mem_cons]
    by_cases h : k = x
    · subst h; simp
    · simp [h]

end AasVerif.Hier
