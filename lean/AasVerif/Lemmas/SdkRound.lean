import AasVerif.Lemmas.SdkPlan
import AasVerif.Lemmas.Base64
/-! `fromJson (toJson i) = ok i`: the mutual induction over values. -/
namespace AasVerif.Sdk

/-! ### conformance helpers -/

theorem conformsNN_none (mm : MM) (t : Ty) : conformsNN mm t .none = false := by
  cases t with
  | prim p => cases p <;> simp [conformsNN]
  | _ => simp [conformsNN]

theorem conforms_none_isOpt {mm : MM} {t : Ty} (h : conforms mm t .none = true) : t.isOpt = true := by
  cases t with
  | opt t => rfl
  | prim p => simp [conforms, conformsNN_none] at h
  | enum e => simp [conforms, conformsNN_none] at h
  | cls c => simp [conforms, conformsNN_none] at h
  | list t => simp [conforms, conformsNN_none] at h

theorem conforms_beneath {mm : MM} {t : Ty} {v : Val} (hv : v ≠ .none)
    (h : conforms mm t v = true) : conformsNN mm t.beneathOpt v = true := by
  cases t with
  | opt t => cases v <;> first | exact absurd rfl hv | simpa [conforms, Ty.beneathOpt] using h
  | prim p => cases v <;> simpa [conforms, Ty.beneathOpt] using h
  | enum e => cases v <;> simpa [conforms, Ty.beneathOpt] using h
  | cls c => cases v <;> simpa [conforms, Ty.beneathOpt] using h
  | list t => cases v <;> simpa [conforms, Ty.beneathOpt] using h

theorem conformsFields_shape {mm : MM} :
    ∀ (ps : List PropDecl) (fs : Vals), conformsFields mm ps fs = true → fieldsShape ps fs = true
  | [], .nil, _ => rfl
  | [], .cons _ _, h => by simp [conformsFields] at h
  | _ :: _, .nil, h => by simp [conformsFields] at h
  | p :: ps, .cons v vs, h => by
    simp only [conformsFields, Bool.and_eq_true] at h
    have ih := conformsFields_shape ps vs h.2
    by_cases hv : v = .none
    · subst hv
      simp [fieldsShape, ih, conforms_none_isOpt h.1]
    · cases v <;> first | exact absurd rfl hv | simp [fieldsShape, ih]

/-! ### members -/

theorem getLast_membersOf (mm : MM) (key : Text) (x : Json) :
    ∀ (ps : List PropDecl) (fs : Vals) (tail : Members),
      getLast tail key = some x → getLast (membersOf mm ps fs tail) key = some x
  | [], fs, tail, h => by cases fs <;> simpa [membersOf] using h
  | _ :: _, .nil, tail, h => by simpa [membersOf] using h
  | p :: ps, .cons v vs, tail, h => by
    have ih := getLast_membersOf mm key x ps vs tail h
    cases v <;> simp [membersOf, getLast, ih]

theorem setterFor_modelType (all : List PropDecl) : setterFor all modelTypeKey = .ignore := by
  unfold setterFor
  rw [lookupLast_append_single]
  simp

theorem setterFor_prop (all : List PropDecl)
    (hn : nodupB (all.map (fun p => jsonProperty p.name)) = true)
    (hk : modelTypeKey ∉ all.map (fun p => jsonProperty p.name)) (p : PropDecl) (hp : p ∈ all) :
    setterFor all (jsonProperty p.name) = .prop p := by
  unfold setterFor
  rw [lookupLast_append_single]
  have hne : (modelTypeKey == jsonProperty p.name) = false := by
    apply Bool.eq_false_iff.mpr
    intro e
    have : modelTypeKey = jsonProperty p.name := by simpa using e
    exact hk (this ▸ List.mem_map_of_mem (f := fun p => jsonProperty p.name) hp)
  rw [hne]
  simp only [Bool.false_eq_true, if_false]
  have hkeys : (all.map (fun p => (jsonProperty p.name, Setter.prop p))).map (fun q => q.1)
      = all.map (fun p => jsonProperty p.name) := by
    rw [List.map_map]; rfl
  rw [lookupLast_of_mem_nodup _ (jsonProperty p.name) (Setter.prop p) (by rw [hkeys]; exact hn)
    (List.mem_map.mpr ⟨p, hp, rfl⟩)]

/-! ### enumerations -/

theorem enum_roundtrip {mm : MM} (hwf : mm.wf = true) {e l : Name} {ed : EnumDecl}
    (hfe : mm.findEnum e = some ed) (hl : ed.literals.any (fun p => p.1 == l) = true) :
    lookupLast (ed.literals.map (fun p => (p.2, p.1))) (mm.enumValue e l) = some l := by
  have hed := findEnum_some hfe
  have hok := (wf_parts hwf).2.2.2.2 ed hed.1
  simp only [EnumDecl.ok, Bool.and_eq_true] at hok
  obtain ⟨q, hq, hql⟩ := List.any_eq_true.mp hl
  have hql' : q.1 = l := by simpa using hql
  -- the literal found by name is `q`
  have hfind : ed.literals.find? (fun p => p.1 == l) = some q := by
    cases hf : ed.literals.find? (fun p => p.1 == l) with
    | none =>
      have := List.find?_eq_none.mp hf q hq
      simp [hql'] at this
    | some q' =>
      have hq' := List.mem_of_find?_eq_some hf
      have hq'l : q'.1 = l := by simpa using List.find?_some hf
      have := inj_of_nodupB_map (fun p : Name × Text => p.1) ed.literals hok.1 q' hq' q hq
        (by rw [hq'l, hql'])
      rw [this]
  have hval : mm.enumValue e l = q.2 := by
    unfold MM.enumValue
    rw [hfe]
    simp only [hfind]
  rw [hval]
  have hkeys : (ed.literals.map (fun p => (p.2, p.1))).map (fun r => r.1)
      = ed.literals.map (fun p => p.2) := by
    rw [List.map_map]; rfl
  rw [lookupLast_of_mem_nodup _ q.2 q.1 (by rw [hkeys]; exact hok.2)
    (List.mem_map.mpr ⟨q, hq, rfl⟩), hql']

/-! ### the round trip -/

theorem tyReadable_list_item {mm : MM} {t : Ty} (h : mm.tyReadable (.list t) = true) :
    t.atomic = true ∧ mm.tyReadable t = true := by
  cases t with
  | prim p => simp [MM.tyReadable, Ty.atomic]
  | enum e => simpa [MM.tyReadable, Ty.atomic] using h
  | cls c => simpa [MM.tyReadable, Ty.atomic] using h
  | list t => simp [MM.tyReadable, Ty.atomic] at h
  | opt t => simp [MM.tyReadable, Ty.atomic] at h

mutual
  theorem rt_val (mm : MM) (hwf : mm.wf = true) :
      ∀ (v : Val) (t : Ty), mm.tyReadable t = true → conformsNN mm t v = true →
        readVal mm t (toJson mm v) = .ok v
    | .none, t, _, hc => by rw [conformsNN_none] at hc; cases hc
    | .bool b, t, _, hc => by
      cases t with
      | prim p =>
        cases p <;> simp [conformsNN] at hc
        simp [readVal, toJson, readPrim, primAccepts, Gen.SdkJson.boolAccepts, Json.kind, rawVal]
      | _ => simp [conformsNN] at hc
    | .int i, t, _, hc => by
      cases t with
      | prim p =>
        cases p <;> simp [conformsNN] at hc
        simp [readVal, toJson, readPrim, primAccepts, Gen.SdkJson.intAccepts, Json.kind, rawVal]
      | _ => simp [conformsNN] at hc
    | .float r, t, _, hc => by
      cases t with
      | prim p =>
        cases p <;> simp [conformsNN] at hc
        simp [readVal, toJson, readPrim, primAccepts, Gen.SdkJson.floatAccepts, Json.kind, rawVal]
      | _ => simp [conformsNN] at hc
    | .str s, t, _, hc => by
      cases t with
      | prim p =>
        cases p <;> simp [conformsNN] at hc
        simp [readVal, toJson, readPrim, primAccepts, Gen.SdkJson.strAccepts, Json.kind, rawVal]
      | _ => simp [conformsNN] at hc
    | .bytes bs, t, _, hc => by
      cases t with
      | prim p =>
        cases p <;> simp [conformsNN] at hc
        have hb : ∀ x ∈ bs, x < 256 := by
          intro x hx
          have := List.all_eq_true.mp hc x hx
          simpa using this
        simp [readVal, toJson, readPrim, primAccepts, Gen.SdkJson.bytesAccepts, Json.kind,
          Base64.decode_encode bs hb]
      | _ => simp [conformsNN] at hc
    | .enum e l, t, _, hc => by
      cases t with
      | enum e' =>
        simp only [conformsNN, Bool.and_eq_true, beq_iff_eq] at hc
        obtain ⟨he, hl⟩ := hc
        subst he
        cases hfe : mm.findEnum e' with
        | none => rw [hfe] at hl; cases hl
        | some ed =>
          rw [hfe] at hl
          simp only [readVal, toJson, readEnum, hfe, enum_roundtrip hwf hfe hl]
      | _ => simp [conformsNN] at hc
    | .list vs, t, hr, hc => by
      cases t with
      | list t' =>
        simp only [conformsNN] at hc
        have hit := tyReadable_list_item hr
        have := rt_items mm hwf vs t' hit.1 hit.2 hc
        simp only [readVal, toJson, this]
      | _ => simp [conformsNN] at hc
    | .inst d fs, t, hr, hc => by
      cases t with
      | cls c =>
        simp only [conformsNN, Bool.and_eq_true] at hc
        obtain ⟨hc1, hc2⟩ := hc
        cases hfc : mm.findClass c with
        | none => rw [hfc] at hc1; cases hc1
        | some cd =>
          cases hfd : mm.findClass d with
          | none => rw [hfd] at hc2; cases hc2
          | some dd =>
            rw [hfc] at hc1
            rw [hfd] at hc2
            simp only [Bool.and_eq_true, Bool.not_eq_true', Bool.or_eq_true, beq_iff_eq,
              List.contains_eq_mem, decide_eq_true_eq] at hc1 hc2
            obtain ⟨hconc, hcf⟩ := hc2
            have hdd := findClass_some hfd
            have hdn := hdd.2
            subst hdn
            have hok := okIn_parts ((wf_parts hwf).2.2.1 dd hdd.1)
            have hdisp : mm.dispatchOkFor c = true := by simpa [MM.tyReadable] using hr
            -- the document
            have htj : toJson mm (.inst dd.name fs) = .obj (membersOf mm dd.props fs
                (if dd.withModelType then .cons modelTypeKey (.str (jsonModelType dd.name)) .nil else .nil)) := by
              simp only [toJson, hfd]
            rw [htj]
            have hmt : dd.withModelType = true →
                getLast (membersOf mm dd.props fs
                  (if dd.withModelType then .cons modelTypeKey (.str (jsonModelType dd.name)) .nil else .nil))
                  modelTypeKey = some (.str (jsonModelType dd.name)) := by
              intro hw
              apply getLast_membersOf
              simp [hw, getLast]
            have hplan := classPlan_read hwf hfc hfd hc1 hconc hdisp _ hmt
            -- the property loop
            have hset : ∀ p ∈ dd.props, setterFor dd.props (jsonProperty p.name) = .prop p :=
              fun p hp => setterFor_prop dd.props hok.2.1 hok.2.2.1 p hp
            have hloop := rt_fields mm hwf fs dd.props dd.props
              (if dd.withModelType then .cons modelTypeKey (.str (jsonModelType dd.name)) .nil else .nil)
              [] hset hok.2.2.2.1 hcf
            have htail : readMembers mm dd.props
                (if dd.withModelType then .cons modelTypeKey (.str (jsonModelType dd.name)) .nil else .nil)
                (pushAll dd.props fs []) = .ok (pushAll dd.props fs []) := by
              by_cases hw : dd.withModelType = true
              · simp [hw, readMembers, setterFor_modelType]
              · simp [hw, readMembers]
            have hasm := assemble_pushAll dd.props fs [] hok.1 (fun _ _ => rfl)
              (conformsFields_shape dd.props fs hcf)
            simp only [readVal, hplan, hloop, htail, hasm]
      | _ => simp [conformsNN] at hc
  theorem rt_items (mm : MM) (hwf : mm.wf = true) :
      ∀ (vs : Vals) (t : Ty), t.atomic = true → mm.tyReadable t = true →
        conformsAll mm t vs = true → readItems mm t (toJsons mm vs) = .ok vs
    | .nil, _, _, _, _ => by simp [toJsons, readItems]
    | .cons v vs, t, ha, hr, hc => by
      simp only [conformsAll, Bool.and_eq_true] at hc
      have h1 := rt_val mm hwf v t hr hc.1
      have h2 := rt_items mm hwf vs t ha hr hc.2
      cases t with
      | list t' => simp [Ty.atomic] at ha
      | prim p => simp only [toJsons, readItems, h1, h2]
      | enum e => simp only [toJsons, readItems, h1, h2]
      | cls c => simp only [toJsons, readItems, h1, h2]
      | opt t' => simp [Ty.atomic] at ha
  theorem rt_fields (mm : MM) (hwf : mm.wf = true) :
      ∀ (fs : Vals) (ps all : List PropDecl) (tail : Members) (st : State),
        (∀ p ∈ ps, setterFor all (jsonProperty p.name) = .prop p) →
        (∀ p ∈ ps, mm.tyReadable p.ty.beneathOpt = true) →
        conformsFields mm ps fs = true →
        readMembers mm all (membersOf mm ps fs tail) st = readMembers mm all tail (pushAll ps fs st)
    | .nil, ps, all, tail, st, _, _, _ => by cases ps <;> simp [membersOf, pushAll]
    | .cons v vs, [], all, tail, st, _, _, hc => by simp [conformsFields] at hc
    | .cons v vs, p :: ps, all, tail, st, hset, hrd, hc => by
      simp only [conformsFields, Bool.and_eq_true] at hc
      have hset' : ∀ q ∈ ps, setterFor all (jsonProperty q.name) = .prop q :=
        fun q hq => hset q (List.mem_cons_of_mem _ hq)
      have hrd' : ∀ q ∈ ps, mm.tyReadable q.ty.beneathOpt = true :=
        fun q hq => hrd q (List.mem_cons_of_mem _ hq)
      by_cases hv : v = .none
      · subst hv
        have ih := rt_fields mm hwf vs ps all tail st hset' hrd' hc.2
        simp only [membersOf, pushAll, ih]
      · have hval := rt_val mm hwf v p.ty.beneathOpt (hrd p List.mem_cons_self)
          (conforms_beneath hv hc.1)
        have ih := rt_fields mm hwf vs ps all tail ((p.name, v) :: st) hset' hrd' hc.2
        have hm : membersOf mm (p :: ps) (.cons v vs) tail
            = .cons (jsonProperty p.name) (toJson mm v) (membersOf mm ps vs tail) := by
          cases v <;> first | exact absurd rfl hv | rfl
        have hp : pushAll (p :: ps) (.cons v vs) st = pushAll ps vs ((p.name, v) :: st) := by
          cases v <;> first | exact absurd rfl hv | rfl
        rw [hm, hp]
        simp only [readMembers, hset p List.mem_cons_self, hval, ih]
end

end AasVerif.Sdk
