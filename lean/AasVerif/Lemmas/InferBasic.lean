import AasVerif.Model.Expr.Conforms
/-!
Basic facts for the none-safety proof of the inferrer: the invariant that is carried through
the traversal, inversion lemmas for `HasTy`, and how the fact-flow helpers keep the invariant.
-/
namespace AasVerif.Expr

/-- types about whose values the inferrer's result says nothing reliable (primitives: the
operand checks are missing; functions: not values) -/
def Ty.isLoose : Ty → Bool
  | .prim _ | .verif .. | .builtin .. | .method .. => true
  | _ => false

/-- what is known about the value of a well-typed expression *without* the missing checks -/
def Agrees (D : Decls) (v : Val) (τ : Ty) : Prop := τ.isLoose = true ∨ HasTy D v τ

def Good (D : Decls) (o : Out) (τ : Ty) : Prop := o ≠ .noneDeref ∧ ∀ v, o = .val v → Agrees D v τ

/-- The invariant of the traversal. -/
structure Inv (key : Expr → Text) (Γ : TEnv) (F : Facts) (ρ : Env) : Prop where
  conf : Conforms ρ Γ
  wf : Γ.decls.WF
  safe : EnvSafe ρ
  calls : CallsConform ρ Γ
  /-- every assumed fact is true: the expression with that key evaluates to a non-`None` value -/
  facts : ∀ e, key e ∈ F → ∃ v, eval ρ e = .val v ∧ v ≠ .none

theorem HasTy.prim_ne_none {D : Decls} {v : Val} {p : Prim} (h : HasTy D v (.prim p)) (hp : p ≠ .none) :
    v ≠ .none := by
  cases h <;> simp_all

theorem HasTy.our_ne_none {D : Decls} {v : Val} {c : Text} (h : HasTy D v (.our c)) : v ≠ .none := by
  cases h with
  | enumLit _ _ => simp
  | cprim _ hp hv => exact hv.prim_ne_none hp
  | inst _ _ _ => simp

theorem HasTy.of_opt {D : Decls} {v : Val} {τ : Ty} (h : HasTy D v (.opt τ)) (hv : v ≠ .none) : HasTy D v τ := by
  cases h with
  | optNone _ => exact absurd rfl hv
  | optSome h => exact h

theorem strip_agrees {D : Decls} {v : Val} {τ : Ty} {F : Facts} {k : Text}
    (h : Agrees D v τ) (hn : k ∈ F → v ≠ .none) : Agrees D v (strip F k τ) := by
  cases τ <;> try exact h
  rename_i τ'
  simp only [strip]
  split
  · rename_i hc
    have hv : v ≠ .none := hn (by simpa using hc)
    rcases h with h | h
    · simp [Ty.isLoose] at h
    · exact Or.inr (h.of_opt hv)
  · exact h

theorem Good.of_eq {D : Decls} {o : Out} {τ : Ty} (h1 : o ≠ .noneDeref) (h2 : ∀ v, o = .val v → Agrees D v τ) :
    Good D o τ := ⟨h1, h2⟩

theorem good_loose {D : Decls} {o : Out} {τ : Ty} (h1 : o ≠ .noneDeref) (hl : τ.isLoose = true) : Good D o τ :=
  ⟨h1, fun _ _ => Or.inl hl⟩

/-- truthiness of `x is not None` -/
theorem isNotNone_truthy {ρ : Env} {x : Expr} {v : Val} (h : eval ρ (.isNotNone x) = .val v)
    (ht : v.truthy ρ.fops = true) : ∃ w, eval ρ x = .val w ∧ w ≠ .none := by
  cases he : eval ρ x with
  | val w =>
    refine ⟨w, rfl, ?_⟩
    intro hc; subst hc
    simp [eval, he, Out.ofBool] at h; subst h; simp [Val.truthy] at ht
  | _ => simp [eval, he] at h

theorem isNone_falsy {ρ : Env} {x : Expr} {v : Val} (h : eval ρ (.isNone x) = .val v)
    (ht : v.truthy ρ.fops = false) : ∃ w, eval ρ x = .val w ∧ w ≠ .none := by
  cases he : eval ρ x with
  | val w =>
    refine ⟨w, rfl, ?_⟩
    intro hc; subst hc
    simp [eval, he, Out.ofBool] at h; subst h; simp [Val.truthy] at ht
  | _ => simp [eval, he] at h

variable {key : Expr → Text}

theorem Inv.addFact {Γ : TEnv} {F : Facts} {ρ : Env} (hk : Function.Injective key) (inv : Inv key Γ F ρ)
    {x : Expr} (hx : ∃ w, eval ρ x = .val w ∧ w ≠ .none) : Inv key Γ (key x :: F) ρ :=
  { inv with
    facts := by
      intro e he
      rcases List.mem_cons.mp he with h | h
      · have : e = x := hk h
        subst this; exact hx
      · exact inv.facts e h }

theorem Inv.andFact {Γ : TEnv} {F : Facts} {ρ : Env} (hk : Function.Injective key) (inv : Inv key Γ F ρ)
    {e : Expr} {v : Val} (h : eval ρ e = .val v) (ht : v.truthy ρ.fops = true) :
    Inv key Γ (andFact key F e) ρ := by
  cases e <;> try exact inv
  exact inv.addFact hk (isNotNone_truthy h ht)

theorem Inv.orFact {Γ : TEnv} {F : Facts} {ρ : Env} (hk : Function.Injective key) (inv : Inv key Γ F ρ)
    {e : Expr} {v : Val} (h : eval ρ e = .val v) (ht : v.truthy ρ.fops = false) :
    Inv key Γ (orFact key F e) ρ := by
  cases e <;> try exact inv
  exact inv.addFact hk (isNone_falsy h ht)

theorem evalAnd_truthy_all {ρ : Env} : ∀ (vs : List Expr) {v : Val}, evalAnd ρ vs = .val v → v.truthy ρ.fops = true →
    ∀ e, e ∈ vs → ∃ w, eval ρ e = .val w ∧ w.truthy ρ.fops = true
  | [], v, h, _ => by simp [evalAnd] at h
  | [e], v, h, ht => by
    intro e' he'
    simp only [evalAnd] at h
    simp only [List.mem_singleton] at he'
    subst he'
    exact ⟨v, h, ht⟩
  | e :: e2 :: es, v, h, ht => by
    intro e' he'
    simp only [evalAnd] at h
    cases he : eval ρ e with
    | val w =>
      simp only [he] at h
      by_cases hw : w.truthy ρ.fops = true
      · simp only [hw, if_true] at h
        rcases List.mem_cons.mp he' with rfl | hmem
        · exact ⟨w, he, hw⟩
        · exact evalAnd_truthy_all (e2 :: es) h ht e' hmem
      · simp only [hw] at h
        simp at h
        subst h
        exact absurd ht hw
    | _ => simp [he] at h

theorem Inv.andFacts {Γ : TEnv} {ρ : Env} (hk : Function.Injective key) :
    ∀ (vs : List Expr) {F : Facts}, Inv key Γ F ρ →
      (∀ e, e ∈ vs → ∃ w, eval ρ e = .val w ∧ w.truthy ρ.fops = true) → Inv key Γ (andFacts key F vs) ρ
  | [], _, inv, _ => by simpa [Expr.andFacts] using inv
  | e :: es, F, inv, h => by
    simp only [Expr.andFacts]
    obtain ⟨w, hw, ht⟩ := h e (by simp)
    exact Inv.andFacts hk es (inv.andFact hk hw ht) (fun e' he' => h e' (by simp [he']))

theorem Inv.implFacts {Γ : TEnv} {F : Facts} {ρ : Env} (hk : Function.Injective key) (inv : Inv key Γ F ρ)
    {a : Expr} {v : Val} (h : eval ρ a = .val v) (ht : v.truthy ρ.fops = true) :
    Inv key Γ (implFacts key F a) ρ := by
  cases a <;> try exact inv
  · exact inv.addFact hk (isNotNone_truthy h ht)
  · rename_i vs
    simp only [eval] at h
    exact Inv.andFacts hk vs inv (evalAnd_truthy_all vs h ht)

end AasVerif.Expr
