import AasVerif.Model.Expr.Conforms
import AasVerif.Lemmas.EvalAgree
import AasVerif.Lemmas.EvalTyped
/-!
Basic facts for the soundness proof of the inferrer: the invariant that is carried through
the traversal, inversion lemmas for `HasTy`, and how the fact-flow helpers keep the invariant.
-/
namespace AasVerif.Expr

variable {κ : Type} [DecidableEq κ]

/-- the outcome of a well-typed expression: a value of the inferred type, or `IndexError` -/
abbrev Good (D : Decls) (o : Out) (τ : Ty) : Prop := OutOK D o τ

theorem Good.index {D : Decls} {τ : Ty} : Good D .indexError τ := Or.inl rfl

theorem Good.val {D : Decls} {v : Val} {τ : Ty} (h : HasTy D v τ) : Good D (.val v) τ := Or.inr ⟨v, rfl, h⟩

/-- a `bool` outcome -/
theorem Good.ofBool {D : Decls} (b : Bool) : Good D (.val (.bool b)) .bool := Good.val (HasTy.bool b)

theorem Good.of_boolOrIndex {D : Decls} {o : Out} (h : BoolOrIndex o) : Good D o .bool := by
  rcases h with rfl | ⟨b, rfl⟩
  · exact Good.index
  · exact Good.ofBool b

/-- case analysis of a good outcome -/
theorem Good.cases {D : Decls} {o : Out} {τ : Ty} (h : Good D o τ) : o = .indexError ∨ ∃ v, o = .val v ∧ HasTy D v τ := h

/-- What the proof needs of the keys: two expressions with the same key have the same value in
every environment.  (Injective keys trivially; the real canonical strings identify `f"x"` with
`"x"`, which is harmless.) -/
def KeySound (key : Expr → κ) : Prop := ∀ e1 e2, key e1 = key e2 → ∀ ρ, eval ρ e1 = eval ρ e2

theorem KeySound.of_injective {key : Expr → κ} (h : Function.Injective key) : KeySound key := by
  intro e1 e2 hk ρ
  rw [h hk]

/-- A fact about `e` established in an enclosing scope `(Γ0, ρ0)`: in every environment that only
adds variables to that scope `e` evaluates to a non-`None` value, and the current environments
are such extensions. -/
def FactOK (Γ : TEnv) (ρ : Env) (e : Expr) : Prop :=
  ∃ (Γ0 : TEnv) (ρ0 : Env), AgreeOn Γ0 ρ0 ρ ∧
    (∀ y, (Γ0.find y).isSome = true → (Γ.find y).isSome = true) ∧
    ∀ ρ', AgreeOn Γ0 ρ0 ρ' → ∃ v, eval ρ' e = .val v ∧ v ≠ .none

/-- The invariant of the traversal. -/
structure Inv (key : Expr → κ) (Γ : TEnv) (F : Facts κ) (ρ : Env) : Prop where
  conf : Conforms ρ Γ
  wf : Γ.decls.WF
  ok : EnvOK ρ
  calls : CallsOK ρ Γ
  /-- every assumed fact is true: the expression with that key evaluates to a non-`None` value -/
  facts : ∀ e, key e ∈ F → FactOK Γ ρ e

theorem HasTy.prim_ne_none {D : Decls} {v : Val} {p : Prim} (h : HasTy D v (.prim p)) (hp : p ≠ .none) :
    v ≠ .none := by
  cases h <;> simp_all

theorem HasTy.our_ne_none {D : Decls} {v : Val} {c : Text} (h : HasTy D v (.our c)) : v ≠ .none := by
  cases h with
  | enumLit _ _ => simp
  | cprim _ hp hv => exact hv.prim_ne_none hp
  | inst _ _ _ => simp

theorem HasTy.of_opt {D : Decls} {v : Val} {τ : Ty} (h : HasTy D v (.opt τ)) (hv : v ≠ .none) : HasTy D v τ := by
  cases h with
  | optNone _ => exact absurd rfl hv
  | optSome h => exact h

theorem strip_hasTy {D : Decls} {v : Val} {τ : Ty} {F : Facts κ} {k : κ}
    (h : HasTy D v τ) (hn : k ∈ F → v ≠ .none) : HasTy D v (strip F k τ) := by
  cases τ <;> try exact h
  rename_i τ'
  simp only [strip]
  split
  · rename_i hc
    exact h.of_opt (hn (by simpa using hc))
  · exact h

/-- truthiness of `x is not None` -/
theorem isNotNone_truthy {ρ : Env} {x : Expr} {v : Val} (h : eval ρ (.isNotNone x) = .val v)
    (ht : v.truthy ρ.fops = true) : ∃ w, eval ρ x = .val w ∧ w ≠ .none := by
  cases he : eval ρ x with
  | val w =>
    refine ⟨w, rfl, ?_⟩
    intro hc; subst hc
    simp [eval, he, Out.ofBool] at h; subst h; simp [Val.truthy] at ht
  | _ => simp [eval, he] at h

theorem isNone_falsy {ρ : Env} {x : Expr} {v : Val} (h : eval ρ (.isNone x) = .val v)
    (ht : v.truthy ρ.fops = false) : ∃ w, eval ρ x = .val w ∧ w ≠ .none := by
  cases he : eval ρ x with
  | val w =>
    refine ⟨w, rfl, ?_⟩
    intro hc; subst hc
    simp [eval, he, Out.ofBool] at h; subst h; simp [Val.truthy] at ht
  | _ => simp [eval, he] at h

variable {key : Expr → κ}

theorem Inv.fact_val {Γ : TEnv} {F : Facts κ} {ρ : Env} (inv : Inv key Γ F ρ) {e : Expr} (hk : key e ∈ F) :
    ∃ v, eval ρ e = .val v ∧ v ≠ .none := by
  obtain ⟨Γ0, ρ0, hag, _, hall⟩ := inv.facts e hk
  exact hall ρ hag

theorem Inv.addFact {Γ : TEnv} {F : Facts κ} {ρ : Env} (hk : KeySound key) (inv : Inv key Γ F ρ)
    {x : Expr} (hx : ∃ w, eval ρ x = .val w ∧ w ≠ .none) (ht : ∃ (F' : Facts κ) (τ : Ty), infer key Γ F' x = .ok τ) :
    Inv key Γ (key x :: F) ρ :=
  { inv with
    facts := by
      intro e he
      rcases List.mem_cons.mp he with h | h
      · obtain ⟨F', τ, hinf⟩ := ht
        refine ⟨Γ, ρ, AgreeOn.refl Γ ρ, fun _ h => h, ?_⟩
        intro ρ' hag
        rw [hk e x h ρ', eval_agree x Γ F' ρ ρ' τ hinf hag]
        exact hx
      · exact inv.facts e h }

theorem isNotNone_inf {Γ : TEnv} {F : Facts κ} {x : Expr} {τ : Ty} (h : infer key Γ F (.isNotNone x) = .ok τ) :
    ∃ (F' : Facts κ) (τx : Ty), infer key Γ F' x = .ok τx := by
  simp only [infer] at h
  cases hx : infer key Γ F x with
  | ok τx => exact ⟨F, τx, hx⟩
  | err es => simp [hx] at h
  | crash s => simp [hx] at h

theorem isNone_inf {Γ : TEnv} {F : Facts κ} {x : Expr} {τ : Ty} (h : infer key Γ F (.isNone x) = .ok τ) :
    ∃ (F' : Facts κ) (τx : Ty), infer key Γ F' x = .ok τx := by
  simp only [infer] at h
  cases hx : infer key Γ F x with
  | ok τx => exact ⟨F, τx, hx⟩
  | err es => simp [hx] at h
  | crash s => simp [hx] at h

theorem Inv.andFact {Γ : TEnv} {F : Facts κ} {ρ : Env} (hk : KeySound key) (inv : Inv key Γ F ρ)
    {e : Expr} {v : Val} (h : eval ρ e = .val v) (ht : v.truthy ρ.fops = true)
    (hinf : ∃ (F' : Facts κ) (τ : Ty), infer key Γ F' e = .ok τ) :
    Inv key Γ (andFact key F e) ρ := by
  cases e <;> try exact inv
  obtain ⟨F', τ, hinf⟩ := hinf
  exact inv.addFact hk (isNotNone_truthy h ht) (isNotNone_inf hinf)

theorem Inv.orFact {Γ : TEnv} {F : Facts κ} {ρ : Env} (hk : KeySound key) (inv : Inv key Γ F ρ)
    {e : Expr} {v : Val} (h : eval ρ e = .val v) (ht : v.truthy ρ.fops = false)
    (hinf : ∃ (F' : Facts κ) (τ : Ty), infer key Γ F' e = .ok τ) :
    Inv key Γ (orFact key F e) ρ := by
  cases e <;> try exact inv
  obtain ⟨F', τ, hinf⟩ := hinf
  exact inv.addFact hk (isNone_falsy h ht) (isNone_inf hinf)

theorem inferAnd_ok_each {Γ : TEnv} : ∀ (vs : List Expr) {F : Facts κ} {u : Unit}, inferAnd key Γ F vs = .ok u →
    ∀ e, e ∈ vs → ∃ (F' : Facts κ) (τ : Ty), infer key Γ F' e = .ok τ
  | [], _, _, _ => by simp
  | e :: es, F, u, h => by
    simp only [inferAnd] at h
    cases he : infer key Γ F e with
    | err xs => simp [he] at h
    | crash s => simp [he] at h
    | ok te =>
      simp only [he] at h
      cases hes : inferAnd key Γ (Expr.andFact key F e) es with
      | err xs => simp [hes] at h
      | crash s => simp [hes] at h
      | ok u' =>
        intro e' he'
        rcases List.mem_cons.mp he' with rfl | hmem
        · exact ⟨F, te, he⟩
        · exact inferAnd_ok_each es hes e' hmem

theorem evalAnd_truthy_all {ρ : Env} : ∀ (vs : List Expr) {v : Val}, evalAnd ρ vs = .val v → v.truthy ρ.fops = true →
    ∀ e, e ∈ vs → ∃ w, eval ρ e = .val w ∧ w.truthy ρ.fops = true
  | [], v, h, _ => by simp [evalAnd] at h
  | [e], v, h, ht => by
    intro e' he'
    simp only [evalAnd] at h
    simp only [List.mem_singleton] at he'
    subst he'
    exact ⟨v, h, ht⟩
  | e :: e2 :: es, v, h, ht => by
    intro e' he'
    simp only [evalAnd] at h
    cases he : eval ρ e with
    | val w =>
      simp only [he] at h
      by_cases hw : w.truthy ρ.fops = true
      · simp only [hw, if_true] at h
        rcases List.mem_cons.mp he' with rfl | hmem
        · exact ⟨w, he, hw⟩
        · exact evalAnd_truthy_all (e2 :: es) h ht e' hmem
      · simp only [hw] at h
        simp at h
        subst h
        exact absurd ht hw
    | _ => simp [he] at h

theorem Inv.andFacts {Γ : TEnv} {ρ : Env} (hk : KeySound key) :
    ∀ (vs : List Expr) {F : Facts κ}, Inv key Γ F ρ →
      (∀ e, e ∈ vs → ∃ w, eval ρ e = .val w ∧ w.truthy ρ.fops = true) →
      (∀ e, e ∈ vs → ∃ (F' : Facts κ) (τ : Ty), infer key Γ F' e = .ok τ) → Inv key Γ (andFacts key F vs) ρ
  | [], _, inv, _, _ => by simpa [Expr.andFacts] using inv
  | e :: es, F, inv, h, ht => by
    simp only [Expr.andFacts]
    obtain ⟨w, hw, htr⟩ := h e (by simp)
    exact Inv.andFacts hk es (inv.andFact hk hw htr (ht e (by simp))) (fun e' he' => h e' (by simp [he']))
      (fun e' he' => ht e' (by simp [he']))

theorem Inv.implFacts {Γ : TEnv} {F : Facts κ} {ρ : Env} (hk : KeySound key) (inv : Inv key Γ F ρ)
    {a : Expr} {v : Val} (h : eval ρ a = .val v) (ht : v.truthy ρ.fops = true)
    {τ : Ty} (hinf : infer key Γ F a = .ok τ) :
    Inv key Γ (implFacts key F a) ρ := by
  cases a <;> try exact inv
  · exact inv.addFact hk (isNotNone_truthy h ht) (isNotNone_inf hinf)
  · rename_i vs
    simp only [eval] at h
    simp only [infer] at hinf
    cases ha : inferAnd key Γ F vs with
    | err xs => simp [ha] at hinf
    | crash s => simp [ha] at hinf
    | ok u => exact Inv.andFacts hk vs inv (evalAnd_truthy_all vs h ht) (inferAnd_ok_each vs ha)

theorem HasTy.not_fn {D : Decls} {v : Val} {τ : Ty} (h : HasTy D v τ) : τ.isFn = false := by
  cases h <;> rfl

/-- entering a generator: the loop variable is new and its value has the item type -/
theorem Inv.bind {Γ : TEnv} {F : Facts κ} {ρ : Env} (inv : Inv key Γ F ρ) {x : Text} {τx : Ty} {item : Val}
    (hx : Γ.find x = none) (hty : HasTy Γ.decls item τx) : Inv key (Γ.bind x τx) F (ρ.bind x item) := by
  have hnf : τx.isFn = false := hty.not_fn
  have hfind : ∀ n σ, (Γ.bind x τx).find n = some σ → σ.isFn = true → Γ.find n = some σ ∧ x ≠ n := by
    intro n σ h hfn
    rw [find_bind] at h
    by_cases hxn : x = n
    · simp only [hxn, if_true, Option.some.injEq] at h
      subst h
      rw [hnf] at hfn; cases hfn
    · exact ⟨by simpa [hxn] using h, hxn⟩
  refine { conf := ?_, wf := inv.wf, ok := ⟨inv.ok.cmp, inv.ok.arith, inv.ok.fmt⟩, calls := ?_, facts := ?_ }
  · intro y σ h
    rw [find_bind] at h
    rw [lookup_bind]
    by_cases hxy : x = y
    · simp only [hxy, if_true, Option.some.injEq] at h
      subst h
      exact Or.inr ⟨item, by simp [hxy], hty⟩
    · simp only [hxy, if_false] at h ⊢
      exact inv.conf y σ h
  · exact
      { notVar := fun n σ h hfn => by
          obtain ⟨h', hxn⟩ := hfind n σ h hfn
          rw [lookup_bind]
          simp only [hxn, if_false]
          exact inv.calls.notVar n σ h' hfn
        builtin := fun n m ret h => inv.calls.builtin n m ret (hfind n _ h rfl).1
        funs := fun n m ret f h hf => inv.calls.funs n m ret f (hfind n _ h rfl).1 hf
        meths := inv.calls.meths }
  · intro e he
    obtain ⟨Γ0, ρ0, hag, hsub, hv⟩ := inv.facts e he
    refine ⟨Γ0, ρ0, ?_, ?_, hv⟩
    · exact
        { funs := hag.funs, meths := hag.meths, fops := hag.fops, fmtOther := hag.fmtOther
          vars := by
            intro y hy
            rw [lookup_bind]
            by_cases hxy : x = y
            · subst hxy
              have := hsub x hy
              rw [hx] at this; cases this
            · simp only [hxy, if_false]
              exact hag.vars y hy }
    · intro y hy
      rw [find_bind]
      by_cases hxy : x = y
      · simp [hxy]
      · simpa [hxy] using hsub y hy

end AasVerif.Expr
