import AasVerif.Lemmas.Lit.Bytes
namespace AasVerif.Lit

def IsWs (s : Text) : Prop := ∀ c ∈ s, c = 32 ∨ c = 9 ∨ c = 13 ∨ c = 10

/-- `, <ws> 0x..` repeated: what follows the first item -/
def tailNF : List (Text × Nat) → Text
  | [] => []
  | (s, x) :: r => [44] ++ s ++ hexByte x ++ tailNF r

theorem skipWsB_ws (b : Bool) (s : Text) (hs : IsWs s) (y : Nat) (t : Text)
    (hy : ¬ (y = 32 ∨ y = 9 ∨ y = 13) ∧ y ≠ 10) :
    skipWsB false b (s ++ y :: t) = some (y :: t) := by
  induction s with
  | nil => simp [skipWsB, hy.1, hy.2]
  | cons c s ih =>
    have hc := hs c (by simp)
    have := ih (fun x hx => hs x (by simp [hx]))
    rcases hc with rfl | rfl | rfl | rfl <;> simp [skipWsB, this]

theorem hexByte_eq (x : Nat) (hx : x < 256) : hexByte x = [48, 120, hexDigit (x / 16 % 16), hexDigit (x % 16)] := by
  simp [hexByte, fmtHex2 x hx]

theorem readHexByte_ok (x : Nat) (hx : x < 256) (y : Nat) (t : Text) (hy : hexVal? y = none) :
    readHexByte (hexByte x ++ y :: t) = some (x, y :: t) := by
  rw [hexByte_eq x hx]
  simp only [List.cons_append, List.nil_append, readHexByte, List.length_cons]
  simp [takeHexGreedy, hexVal_hexDigit_mod, hy]
  omega

theorem tailNF_length (ps : List (Text × Nat)) : ps.length ≤ (tailNF ps).length := by
  induction ps with
  | nil => simp [tailNF]
  | cons p ps ih =>
    obtain ⟨s, x⟩ := p
    simp only [tailNF, List.length_append, List.length_cons, List.length_nil]
    omega

/-- reading `<ws> 0x.. , <ws> 0x.. … <ws> close` -/
theorem readItems_ok (close : Nat) (hclose : close = 125 ∨ close = 93) (ps : List (Text × Nat)) :
    ∀ (f : Nat) (first : Bool) (s : Text) (x : Nat) (wEnd after : Text),
      ps.length ≤ f → IsWs s → x < 256 → IsWs wEnd → (∀ p ∈ ps, IsWs p.1 ∧ p.2 < 256) →
      readItems false close (f + 1) first (s ++ hexByte x ++ tailNF ps ++ wEnd ++ close :: after)
        = some (x :: ps.map (·.2), after) := by
  have hcl : ¬ (close = 32 ∨ close = 9 ∨ close = 13) ∧ close ≠ 10 := by omega
  have hclhex : hexVal? close = none := by rcases hclose with rfl | rfl <;> decide
  induction ps with
  | nil =>
    intro f first s x wEnd after _ hs hx hw _
    have h1 : skipWsB false (!first) (s ++ hexByte x ++ tailNF [] ++ wEnd ++ close :: after)
        = some (hexByte x ++ wEnd ++ close :: after) := by
      rw [hexByte_eq x hx]
      simpa [tailNF] using skipWsB_ws (!first) s hs 48 ([120, hexDigit (x / 16 % 16), hexDigit (x % 16)] ++ wEnd ++ close :: after) (by omega)
    have h48 : ¬ 48 = close := by omega
    -- what follows the item: white space then the closing bracket
    have hY : ∃ y t, wEnd ++ close :: after = y :: t ∧ hexVal? y = none := by
      cases wEnd with
      | nil => exact ⟨close, after, rfl, hclhex⟩
      | cons w ws =>
        refine ⟨w, ws ++ close :: after, rfl, ?_⟩
        rcases hw w (by simp) with rfl | rfl | rfl | rfl <;> decide
    obtain ⟨y, t, hyt, hyhex⟩ := hY
    have h2 : readHexByte (hexByte x ++ wEnd ++ close :: after) = some (x, wEnd ++ close :: after) := by
      rw [List.append_assoc, hyt]; exact readHexByte_ok x hx y t hyhex
    have h3 : skipWsB false true (wEnd ++ close :: after) = some (close :: after) :=
      skipWsB_ws true wEnd hw close after hcl
    unfold readItems
    rw [h1]
    rw [hexByte_eq x hx] at h2 ⊢
    simp only [List.cons_append, List.nil_append] at h2 ⊢
    simp [h48, h2, h3]
  | cons p ps ih =>
    intro f first s x wEnd after hf hs hx hw hps
    obtain ⟨s', x'⟩ := p
    have hp := hps (s', x') (by simp)
    obtain ⟨f', rfl⟩ : ∃ f', f = f' + 1 := ⟨f - 1, by simp at hf; omega⟩
    have ihh := ih f' false s' x' wEnd after (by simp at hf; omega) hp.1 hp.2 hw
      (fun q hq => hps q (by simp [hq]))
    have h1 : skipWsB false (!first) (s ++ hexByte x ++ tailNF ((s', x') :: ps) ++ wEnd ++ close :: after)
        = some (hexByte x ++ tailNF ((s', x') :: ps) ++ wEnd ++ close :: after) := by
      rw [hexByte_eq x hx]
      simpa using skipWsB_ws (!first) s hs 48 ([120, hexDigit (x / 16 % 16), hexDigit (x % 16)] ++ tailNF ((s', x') :: ps) ++ wEnd ++ close :: after) (by omega)
    have h48 : ¬ 48 = close := by omega
    have h44 : ¬ 44 = close := by omega
    have h2 : readHexByte (hexByte x ++ tailNF ((s', x') :: ps) ++ wEnd ++ close :: after)
        = some (x, tailNF ((s', x') :: ps) ++ wEnd ++ close :: after) := by
      have := readHexByte_ok x hx 44 (s' ++ hexByte x' ++ tailNF ps ++ wEnd ++ close :: after) (by decide)
      simpa [tailNF] using this
    have h3 : skipWsB false true (tailNF ((s', x') :: ps) ++ wEnd ++ close :: after)
        = some (44 :: (s' ++ hexByte x' ++ tailNF ps ++ wEnd ++ close :: after)) := by
      simp [tailNF, skipWsB]
    unfold readItems
    rw [h1]
    rw [hexByte_eq x hx] at h2 ⊢
    simp only [List.cons_append, List.nil_append, List.append_assoc] at h2 h3 ihh ⊢
    simp only [h48, if_false, h2, h3, h44, ihh]
    simp

theorem dropPrefix_append' (p t : Text) : dropPrefix? p (p ++ t) = some t := by
  induction p with
  | nil => rfl
  | cons a p ih => simp [dropPrefix?, ih]

/-! ### the emitted text in normal form -/

def rowText (c : List Nat) : Text := joinWith [44, 32] (c.map hexByte)

theorem tailNF_append (a b : List (Text × Nat)) : tailNF (a ++ b) = tailNF a ++ tailNF b := by
  induction a with
  | nil => rfl
  | cons p a ih => obtain ⟨s, x⟩ := p; simp [tailNF, ih]

theorem row_eq (x : Nat) (xs : List Nat) :
    rowText (x :: xs) = hexByte x ++ tailNF (xs.map (fun y => ([32], y))) := by
  induction xs generalizing x with
  | nil => simp [rowText, joinWith, tailNF]
  | cons y ys ih =>
    have := ih y
    simp only [rowText, List.map_cons] at this ⊢
    rw [show joinWith [44, 32] (hexByte x :: hexByte y :: List.map hexByte ys)
      = hexByte x ++ [44, 32] ++ joinWith [44, 32] (hexByte y :: List.map hexByte ys) from rfl, this]
    simp [tailNF]

/-- pairs (separator, value) of the rows after the first item -/
def restPairs (sep : Text) : List (List Nat) → List (Text × Nat)
  | [] => []
  | [] :: rs => restPairs sep rs
  | (y :: ys) :: rs => ((sep, y) :: ys.map (fun z => ([32], z))) ++ restPairs sep rs

theorem rows_eq (sep : Text) (rs : List (List Nat)) (hne : ∀ r ∈ rs, r ≠ []) (x : Nat) (xs : List Nat) :
    joinWith (44 :: sep) (((x :: xs) :: rs).map rowText)
      = hexByte x ++ tailNF (xs.map (fun y => ([32], y)) ++ restPairs sep rs) := by
  induction rs generalizing x xs with
  | nil => simp [joinWith, row_eq, restPairs]
  | cons r rs ih =>
    cases r with
    | nil => exact absurd rfl (hne [] (by simp))
    | cons y ys =>
      have := ih (fun r hr => hne r (by simp [hr])) y ys
      simp only [List.map_cons] at this ⊢
      rw [show joinWith (44 :: sep) (rowText (x :: xs) :: rowText (y :: ys) :: List.map rowText rs)
        = rowText (x :: xs) ++ (44 :: sep) ++ joinWith (44 :: sep) (rowText (y :: ys) :: List.map rowText rs) from rfl,
        this, row_eq]
      simp [restPairs, tailNF_append, tailNF]

theorem restPairs_vals (sep : Text) (rs : List (List Nat)) : (restPairs sep rs).map (·.2) = rs.flatten := by
  induction rs with
  | nil => rfl
  | cons r rs ih =>
    cases r with
    | nil => simpa [restPairs] using ih
    | cons y ys => simp [restPairs, ih, Function.comp_def]

theorem restPairs_ok (sep : Text) (hsep : IsWs sep) (rs : List (List Nat)) (h : ∀ r ∈ rs, ∀ x ∈ r, x < 256) :
    ∀ p ∈ restPairs sep rs, IsWs p.1 ∧ p.2 < 256 := by
  induction rs with
  | nil => intro p hp; simp [restPairs] at hp
  | cons r rs ih =>
    have ih' := ih (fun r' hr' => h r' (by simp [hr']))
    cases r with
    | nil => simpa [restPairs] using ih'
    | cons y ys =>
      intro p hp
      simp only [restPairs, List.cons_append, List.mem_cons, List.mem_append, List.mem_map] at hp
      rcases hp with rfl | ⟨z, hz, rfl⟩ | hp
      · exact ⟨hsep, h (y :: ys) (by simp) y (by simp)⟩
      · exact ⟨by intro c hc; simp at hc; omega, h (y :: ys) (by simp) z (by simp [hz])⟩
      · exact ih' p hp

theorem rowPairs_ok (xs : List Nat) (h : ∀ x ∈ xs, x < 256) :
    ∀ p ∈ xs.map (fun y => (([32] : Text), y)), IsWs p.1 ∧ p.2 < 256 := by
  intro p hp
  simp only [List.mem_map] at hp
  obtain ⟨z, hz, rfl⟩ := hp
  exact ⟨by intro c hc; simp at hc; omega, h z hz⟩

theorem chunks8_elem_ne : ∀ (f : Nat) (l : List Nat), ∀ c ∈ chunks8 f l, c ≠ [] := by
  intro f
  induction f with
  | zero => intro l c hc; simp [chunks8] at hc
  | succ f ih =>
    intro l c hc
    cases l with
    | nil => simp [chunks8] at hc
    | cons a t =>
      simp only [chunks8, List.mem_cons] at hc
      rcases hc with rfl | hc
      · simp
      · exact ih _ c hc

/-- the general reading statement for a braced list of rows -/
theorem readRows (close : Nat) (hclose : close = 125 ∨ close = 93) (sep s wEnd after : Text)
    (hsep : IsWs sep) (hs : IsWs s) (hw : IsWs wEnd)
    (x : Nat) (xs : List Nat) (rs : List (List Nat)) (hne : ∀ r ∈ rs, r ≠ [])
    (hb : ∀ r ∈ (x :: xs) :: rs, ∀ y ∈ r, y < 256) (f : Nat)
    (hf : (s ++ joinWith (44 :: sep) (((x :: xs) :: rs).map rowText) ++ wEnd ++ close :: after).length ≤ f) :
    readItems false close (f + 1) true
        (s ++ joinWith (44 :: sep) (((x :: xs) :: rs).map rowText) ++ wEnd ++ close :: after)
      = some (((x :: xs) :: rs).flatten, after) := by
  rw [rows_eq sep rs hne x xs] at hf ⊢
  have hps : ∀ p ∈ xs.map (fun y => (([32] : Text), y)) ++ restPairs sep rs, IsWs p.1 ∧ p.2 < 256 := by
    intro p hp
    rw [List.mem_append] at hp
    rcases hp with hp | hp
    · exact rowPairs_ok xs (fun y hy => hb (x :: xs) (by simp) y (by simp [hy])) p hp
    · exact restPairs_ok sep hsep rs (fun r hr => hb r (by simp [hr])) p hp
  have hlen := tailNF_length (xs.map (fun y => (([32] : Text), y)) ++ restPairs sep rs)
  have := readItems_ok close hclose _ f true s x wEnd after
    (by simp only [List.length_append, List.length_cons] at hf hlen ⊢; omega) hs
    (hb (x :: xs) (by simp) x (by simp)) hw hps
  simp only [List.append_assoc] at this ⊢
  rw [this]
  simp [restPairs_vals, Function.comp_def]

theorem decBraced_rows (pre w0 s wEnd w1 tailT sep : Text) (open_ close : Nat)
    (hclose : close = 125 ∨ close = 93) (hopen : ¬ (open_ = 32 ∨ open_ = 9 ∨ open_ = 13) ∧ open_ ≠ 10)
    (hw0 : IsWs w0) (hs : IsWs s) (hw : IsWs wEnd) (hsep : IsWs sep)
    (htail : skipWsB false false (w1 ++ tailT) = some tailT)
    (x : Nat) (xs : List Nat) (rs : List (List Nat)) (hne : ∀ r ∈ rs, r ≠ [])
    (hb : ∀ r ∈ (x :: xs) :: rs, ∀ y ∈ r, y < 256) :
    decBytesBraced false pre open_ close tailT
        (pre ++ (w0 ++ open_ :: (s ++ joinWith (44 :: sep) (((x :: xs) :: rs).map rowText) ++ wEnd ++ close :: (w1 ++ tailT))))
      = some (((x :: xs) :: rs).flatten) := by
  unfold decBytesBraced
  simp only [dropPrefix_append', skipWsB_ws false w0 hw0 open_ _ hopen, if_true]
  rw [readRows close hclose sep s wEnd (w1 ++ tailT) hsep hs hw x xs rs hne hb _ (Nat.le_refl _)]
  simp [htail]

theorem chunks8_cons (n x : Nat) (xs : List Nat) :
    chunks8 (n + 1) (x :: xs) = (x :: xs.take 7) :: chunks8 n (xs.drop 7) := by
  simp [chunks8]

theorem isWs_nil : IsWs [] := by intro c hc; simp at hc
theorem isWs_of (l : Text) (h : ∀ c ∈ l, c = 32 ∨ c = 9 ∨ c = 13 ∨ c = 10) : IsWs l := h

theorem vecText_head : (Text.ofString "std::vector<std::uint8_t>()").head? = some 115 := by decide
theorem u8Text_head : (Text.ofString "new Uint8Array()").length = 16 := by decide

/-- C++ `bytes_literal`: the initialiser denotes the original bytes. -/
theorem bytes_cpp_roundtrip (b : List Nat) (hb : ∀ x ∈ b, x < 256) :
    decbytes_cpp (bytes_cpp b).1 = some b := by
  cases b with
  | nil => simp [bytes_cpp, decbytes_cpp]
  | cons x xs =>
    have hne : ∀ t : Text, (123 :: t) ≠ Text.ofString "std::vector<std::uint8_t>()" := by
      intro t h; have := congrArg List.head? h; rw [vecText_head] at this; simp at this
    by_cases hlen : (x :: xs).length ≤ 8
    · have hl0 : ¬ (x :: xs).length = 0 := by simp
      have hd := decBraced_rows [] [] [] [] [] [] [32] 123 125 (Or.inl rfl) (by decide) isWs_nil isWs_nil isWs_nil
        (by intro c hc; simp at hc; omega) (by simp [skipWsB]) x xs [] (by intro r hr; simp at hr)
        (by intro r hr y hy; simp at hr; subst hr; exact hb y hy)
      simp only [bytes_cpp, hl0, hlen, if_true, if_false, decbytes_cpp]
      simp only [List.cons_append, List.nil_append]
      rw [if_neg (hne _)]
      simpa [joinWith, rowText] using hd
    · have hl0 : ¬ (x :: xs).length = 0 := by simp
      have hch : chunks8 (x :: xs).length (x :: xs) = (x :: xs.take 7) :: chunks8 xs.length (xs.drop 7) := by
        simp [chunks8]
      have hfl := chunks8_flatten (x :: xs).length (x :: xs) (Nat.le_refl _)
      rw [hch] at hfl
      have hd := decBraced_rows [] [] [10, 32, 32] [10] [] [] [10, 32, 32] 123 125 (Or.inl rfl) (by decide) isWs_nil
        (by intro c hc; simp at hc; omega) (by intro c hc; simp at hc; omega) (by intro c hc; simp at hc; omega)
        (by simp [skipWsB]) x (xs.take 7) (chunks8 xs.length (xs.drop 7))
        (chunks8_elem_ne _ _)
        (by
          intro r hr y hy
          have : y ∈ x :: xs := chunks8_mem (x :: xs).length (x :: xs) r (by rw [hch]; exact hr) y hy
          exact hb y this)
      rw [hfl] at hd
      simp only [bytes_cpp, hl0, hlen, if_true, if_false, decbytes_cpp, bytesRows]
      simp only [List.cons_append, List.nil_append]
      rw [if_neg (hne _)]
      rw [hch]
      have hrt : (fun c => joinWith [44, 32] (List.map hexByte c)) = rowText := rfl
      simp only [hrt]
      simpa using hd

def u8Pre : Text := Text.ofString "new Uint8Array("
theorem u8_empty_eq : Text.ofString "new Uint8Array()" = u8Pre ++ [41] := by decide
theorem u8_open_eq : Text.ofString "new Uint8Array([" = u8Pre ++ [91] := by decide

/-- TypeScript `bytes_literal`: `new Uint8Array([...])` denotes the original bytes. -/
theorem bytes_ts_roundtrip (b : List Nat) (hb : ∀ x ∈ b, x < 256) :
    decbytes_ts (bytes_ts b).1 = some b := by
  cases b with
  | nil => simp [bytes_ts, decbytes_ts]
  | cons x xs =>
    have hne : ∀ (a : Nat) (t : Text), a ≠ 41 → u8Pre ++ a :: t ≠ Text.ofString "new Uint8Array()" := by
      intro a t ha h
      rw [u8_empty_eq] at h
      have := List.append_cancel_left h
      simp at this; exact ha this.1
    have hl0 : ¬ (x :: xs).length = 0 := by simp
    by_cases hlen : (x :: xs).length ≤ 8
    · have hd := decBraced_rows u8Pre [] [] [] [] [41] [32] 91 93 (Or.inr rfl) (by decide)
        isWs_nil isWs_nil isWs_nil (by intro c hc; simp at hc; omega) (by simp [skipWsB]) x xs []
        (by intro r hr; simp at hr) (by intro r hr y hy; simp at hr; subst hr; exact hb y hy)
      simp only [bytes_ts, hl0, hlen, if_true, if_false, decbytes_ts, u8_open_eq]
      simp only [List.cons_append, List.nil_append, List.append_assoc]
      rw [if_neg (hne 91 _ (by decide))]
      simpa [joinWith, rowText, u8Pre] using hd
    · have hch : chunks8 (x :: xs).length (x :: xs) = (x :: xs.take 7) :: chunks8 xs.length (xs.drop 7) := by
        simp [chunks8]
      have hfl := chunks8_flatten (x :: xs).length (x :: xs) (Nat.le_refl _)
      rw [hch] at hfl
      have hd := decBraced_rows u8Pre [10, 32, 32] [10, 32, 32, 32, 32] [10, 32, 32] [10] [41] [10, 32, 32, 32, 32] 91 93
        (Or.inr rfl) (by decide)
        (by intro c hc; simp at hc; omega) (by intro c hc; simp at hc; omega) (by intro c hc; simp at hc; omega)
        (by intro c hc; simp at hc; omega)
        (by simp [skipWsB]) x (xs.take 7) (chunks8 xs.length (xs.drop 7))
        (chunks8_elem_ne _ _)
        (by
          intro r hr y hy
          have : y ∈ x :: xs := chunks8_mem (x :: xs).length (x :: xs) r (by rw [hch]; exact hr) y hy
          exact hb y this)
      rw [hfl] at hd
      simp only [bytes_ts, hl0, hlen, if_true, if_false, decbytes_ts, bytesRows]
      have e : (Text.ofString "new Uint8Array(" : Text) = u8Pre := rfl
      rw [e]
      simp only [List.cons_append, List.nil_append, List.append_assoc]
      rw [if_neg (hne 10 _ (by decide))]
      rw [hch]
      have hrt : (fun c => joinWith [44, 32] (List.map hexByte c)) = rowText := rfl
      simp only [hrt]
      simpa [u8Pre] using hd

end AasVerif.Lit
