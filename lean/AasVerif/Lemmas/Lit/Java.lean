import AasVerif.Lemmas.Lit.Basic
namespace AasVerif.Lit

theorem java_class (c : Nat) :
    c = 9 ∨ c = 8 ∨ c = 10 ∨ c = 13 ∨ c = 12 ∨ c = 39 ∨ c = 34 ∨ c = 92 ∨
    (0xD800 ≤ c ∧ c ≤ 0xDFFF) ∨
    (c ≠ 9 ∧ c ≠ 8 ∧ c ≠ 10 ∧ c ≠ 13 ∧ c ≠ 12 ∧ c ≠ 39 ∧ c ≠ 34 ∧ c ≠ 92 ∧ ¬ (0xD800 ≤ c ∧ c ≤ 0xDFFF)) := by
  omega

macro "java_ne" c:ident : tactic => `(tactic| (
  have : ¬ $c = 9 := by omega
  have : ¬ $c = 8 := by omega
  have : ¬ $c = 10 := by omega
  have : ¬ $c = 13 := by omega
  have : ¬ $c = 12 := by omega
  have : ¬ $c = 39 := by omega
  have : ¬ $c = 34 := by omega
  have : ¬ $c = 92 := by omega))

theorem escJava_sur (c : Nat) (h : 0xD800 ≤ c ∧ c ≤ 0xDFFF) :
    escJava c = 92 :: 117 :: 100 :: List.drop 1 (fmtHex 4 c) := by
  java_ne c
  have h16 : c < 65536 := by omega
  have hd : c / 16 / 16 / 16 % 16 = 13 := by omega
  have h13 : hexDigit 13 = 100 := by decide
  rw [fmtHex4 c h16, hd, h13]
  simp [escJava, *]
  rw [fmtHex4 c h16, hd, h13]

theorem escJava_raw (c : Nat)
    (h : c ≠ 9 ∧ c ≠ 8 ∧ c ≠ 10 ∧ c ≠ 13 ∧ c ≠ 12 ∧ c ≠ 39 ∧ c ≠ 34 ∧ c ≠ 92 ∧ ¬ (0xD800 ≤ c ∧ c ≤ 0xDFFF)) :
    escJava c = [c] := by
  java_ne c
  have := h.2.2.2.2.2.2.2.2
  simp [escJava, *]

/-- what the Unicode pre-pass makes of the escape of one character -/
def preVal (c : Nat) : List Nat :=
  if 0xD800 ≤ c ∧ c ≤ 0xDFFF then [c] else (escJava c).flatMap utf16cp

theorem java_pre_char (c : Nat) (tail : Text) :
    javaPre .norm (escJava c ++ tail) = (javaPre .norm tail).map (preVal c ++ ·) := by
  rcases java_class c with rfl | rfl | rfl | rfl | rfl | rfl | rfl | rfl | h' | h'
  · simp [escJava, preVal, javaPre, utf16cp]
  · simp [escJava, preVal, javaPre, utf16cp]
  · simp [escJava, preVal, javaPre, utf16cp]
  · simp [escJava, preVal, javaPre, utf16cp]
  · simp [escJava, preVal, javaPre, utf16cp]
  · simp [escJava, preVal, javaPre, utf16cp]
  · simp [escJava, preVal, javaPre, utf16cp]
  · simp [escJava, preVal, javaPre, utf16cp]
  · rw [escJava_sur c h']
    have h16 : c < 65536 := by omega
    have hd : c / 16 / 16 / 16 % 16 = 13 := by omega
    have h13 : hexDigit 13 = 100 := by decide
    have hv : hexVal? 100 = some 13 := by decide
    rw [fmtHex4 c h16]
    simp only [List.drop_succ_cons, List.drop_zero, List.cons_append, List.nil_append, preVal, h', and_self,
      if_true]
    simp only [javaPre, hexVal_hexDigit_mod, hv]
    simp
    congr 1
    funext l
    congr 1
    omega
  · rw [escJava_raw c h']
    have : ¬ c = 92 := h'.2.2.2.2.2.2.2.1
    simp [preVal, h'.2.2.2.2.2.2.2.2, javaPre, escJava_raw c h', *]

theorem java_pre_all (s : Text) :
    javaPre .norm (s.flatMap escJava ++ [34]) = some (s.flatMap preVal ++ [34]) := by
  induction s with
  | nil => simp [javaPre, utf16cp]
  | cons c s ih =>
    simp only [List.flatMap_cons, List.append_assoc]
    rw [java_pre_char, ih]
    simp

theorem java_char (c : Nat) (tail : Text) (v : List Nat) (hc : c < 0x110000) (h : Runs stepJava tail v) :
    Runs stepJava (preVal c ++ tail) (utf16cp c ++ v) := by
  rcases java_class c with rfl | rfl | rfl | rfl | rfl | rfl | rfl | rfl | h' | h'
  · exact Runs.step1 (out := [9]) (rest := tail) (by simp [preVal, escJava, utf16cp, stepJava]) (by simp [preVal, escJava, utf16cp]; omega) h (by simp [utf16cp])
  · exact Runs.step1 (out := [8]) (rest := tail) (by simp [preVal, escJava, utf16cp, stepJava]) (by simp [preVal, escJava, utf16cp]; omega) h (by simp [utf16cp])
  · exact Runs.step1 (out := [10]) (rest := tail) (by simp [preVal, escJava, utf16cp, stepJava]) (by simp [preVal, escJava, utf16cp]; omega) h (by simp [utf16cp])
  · exact Runs.step1 (out := [13]) (rest := tail) (by simp [preVal, escJava, utf16cp, stepJava]) (by simp [preVal, escJava, utf16cp]; omega) h (by simp [utf16cp])
  · exact Runs.step1 (out := [12]) (rest := tail) (by simp [preVal, escJava, utf16cp, stepJava]) (by simp [preVal, escJava, utf16cp]; omega) h (by simp [utf16cp])
  · exact Runs.step1 (out := [39]) (rest := tail) (by simp [preVal, escJava, utf16cp, stepJava]) (by simp [preVal, escJava, utf16cp]; omega) h (by simp [utf16cp])
  · exact Runs.step1 (out := [34]) (rest := tail) (by simp [preVal, escJava, utf16cp, stepJava]) (by simp [preVal, escJava, utf16cp]; omega) h (by simp [utf16cp])
  · exact Runs.step1 (out := [92]) (rest := tail) (by simp [preVal, escJava, utf16cp, stepJava]) (by simp [preVal, escJava, utf16cp]; omega) h (by simp [utf16cp])
  · have h16 : c < 65536 := by omega
    have hp : preVal c = [c] := by simp [preVal, h']
    rw [hp]
    refine Runs.step1 (out := [c]) (rest := tail) ?_ (by len_tac) h (by simp [utf16cp, h16])
    have : ¬ c = 34 := by omega
    have : ¬ c = 10 := by omega
    have : ¬ c = 13 := by omega
    have : ¬ c = 92 := by omega
    simp [stepJava, *]
  · have hp : preVal c = utf16cp c := by
      simp [preVal, h'.2.2.2.2.2.2.2.2, escJava_raw c h']
    rw [hp]
    have : ¬ c = 34 := h'.2.2.2.2.2.2.1
    have : ¬ c = 10 := h'.2.2.1
    have : ¬ c = 13 := h'.2.2.2.1
    have : ¬ c = 92 := h'.2.2.2.2.2.2.2.1
    by_cases hb : c < 0x10000
    · simp only [utf16cp, hb, if_true]
      refine Runs.step1 (out := [c]) (rest := tail) ?_ (by len_tac) h rfl
      simp [stepJava, *]
    · simp only [utf16cp, hb, if_false]
      refine Runs.step1 (out := [0xD800 + (c - 0x10000) / 1024]) (rest := (0xDC00 + (c - 0x10000) % 1024) :: tail) ?_ (by len_tac) ?_ rfl
      · have : ¬ 0xD800 + (c - 0x10000) / 1024 = 34 := by omega
        have : ¬ 0xD800 + (c - 0x10000) / 1024 = 10 := by omega
        have : ¬ 0xD800 + (c - 0x10000) / 1024 = 13 := by omega
        have : ¬ 0xD800 + (c - 0x10000) / 1024 = 92 := by omega
        simp [stepJava, *]
      · refine Runs.step1 (out := [0xDC00 + (c - 0x10000) % 1024]) (rest := tail) ?_ (by len_tac) h rfl
        have : ¬ 0xDC00 + (c - 0x10000) % 1024 = 34 := by omega
        have : ¬ 0xDC00 + (c - 0x10000) % 1024 = 10 := by omega
        have : ¬ 0xDC00 + (c - 0x10000) % 1024 = 13 := by omega
        have : ¬ 0xDC00 + (c - 0x10000) % 1024 = 92 := by omega
        simp [stepJava, *]

theorem java_okSrc (c : Nat) (hc : c < 0x110000) : ∀ x ∈ escJava c, okSrc x := by
  intro x hx
  rcases java_class c with rfl | rfl | rfl | rfl | rfl | rfl | rfl | rfl | h' | h'
  all_goals try (simp [escJava] at hx; exact okSrc_small (by omega))
  · rw [escJava_sur c h'] at hx
    simp only [List.mem_cons] at hx
    rcases hx with rfl | rfl | rfl | hx
    · exact okSrc_small (by decide)
    · exact okSrc_small (by decide)
    · exact okSrc_small (by decide)
    · exact okSrc_small (fmtHex4_small c (by omega) x (List.mem_of_mem_drop hx))
  · rw [escJava_raw c h'] at hx
    simp only [List.mem_singleton] at hx; subst hx
    exact ⟨hc, h'.2.2.2.2.2.2.2.2⟩

theorem java_needs_false (c : Nat) (h : needsCharJava c = false) : escJava c = [c] := by
  rcases java_class c with rfl | rfl | rfl | rfl | rfl | rfl | rfl | rfl | h' | h'
  all_goals try (exact absurd h (by decide))
  · java_ne c
    simp [needsCharJava, *] at h
  · exact escJava_raw c h'

theorem java_needs_true (c : Nat) (h : needsCharJava c = true) : 2 ≤ (escJava c).length := by
  rcases java_class c with rfl | rfl | rfl | rfl | rfl | rfl | rfl | rfl | h' | h'
  all_goals try decide
  · rw [escJava_sur c h']; simp
  · java_ne c
    have := h'.2.2.2.2.2.2.2.2
    simp [needsCharJava, *] at h

end AasVerif.Lit
