import AasVerif.Lemmas.Lit.Basic
namespace AasVerif.Lit

def escB (c : List Nat) : Text := c.flatMap (fun x => [92, 120] ++ fmtHex 2 x)
def lineB (c : List Nat) : Text := [98, 34] ++ escB c ++ [34]

theorem bytes_py_eq (b : List Nat) :
    bytes_py b = if b.length ≤ 8 then (lineB b, false)
      else (joinWith [10] ((chunks8 b.length b).map lineB), true) := rfl

theorem pyb_char (x : Nat) (tail : Text) (v : List Nat) (hx : x < 256) (h : Runs stepPyB tail v) :
    Runs stepPyB (([92, 120] ++ fmtHex 2 x) ++ tail) ([x] ++ v) := by
  refine Runs.step1 (out := [x]) (rest := tail) ?_ (by len_tac) h rfl
  simp only [List.cons_append, List.nil_append, stepPyB]
  simp [takeHexN2_fmt x tail hx]

theorem flatMap_single' (s : List Nat) : s.flatMap (fun c => [c]) = s := by
  induction s with
  | nil => rfl
  | cons c s ih => simp [List.flatMap_cons, ih]

theorem pyb_chunk (c : List Nat) (tail : Text) (v : List Nat) (hc : ∀ x ∈ c, x < 256) (h : Runs stepPyB tail v) :
    Runs stepPyB (escB c ++ tail) (c ++ v) := by
  induction c with
  | nil => simpa [escB] using h
  | cons x c ih =>
    have hx := hc x (by simp)
    have := ih (fun y hy => hc y (by simp [hy]))
    simp only [escB, List.flatMap_cons, List.append_assoc] at this ⊢
    exact pyb_char x _ _ hx this

/-- the text after the first `b"` of a sequence of lines -/
def linesTail : List (List Nat) → Text
  | [] => []
  | [c] => escB c ++ [34]
  | c :: cs => escB c ++ [34] ++ [10] ++ [98, 34] ++ linesTail cs

theorem joinWith_lines (c : List Nat) (cs : List (List Nat)) :
    joinWith [10] ((c :: cs).map lineB) = [98, 34] ++ linesTail (c :: cs) := by
  induction cs generalizing c with
  | nil => simp [joinWith, lineB, linesTail]
  | cons d ds ih =>
    have := ih d
    simp only [List.map_cons] at this ⊢
    rw [show joinWith [10] (lineB c :: lineB d :: List.map lineB ds)
      = lineB c ++ [10] ++ joinWith [10] (lineB d :: List.map lineB ds) from rfl, this]
    simp only [lineB, linesTail, List.append_assoc]

theorem runs_lines (cs : List (List Nat)) (hne : cs ≠ []) (hcs : ∀ c ∈ cs, ∀ x ∈ c, x < 256) :
    Runs stepPyB (linesTail cs) cs.flatten := by
  induction cs with
  | nil => exact absurd rfl hne
  | cons c cs ih =>
    cases cs with
    | nil =>
      simp only [linesTail, List.flatten_cons, List.flatten_nil]
      exact pyb_chunk c [34] [] (hcs c (by simp)) (Runs.done (by simp [stepPyB, skipWs]))
    | cons d ds =>
      have hrest := ih (by simp) (fun c' hc' => hcs c' (by simp [hc']))
      simp only [linesTail, List.flatten_cons, List.append_assoc] at hrest ⊢
      refine pyb_chunk c _ _ (hcs c (by simp)) ?_
      refine Runs.step1 (out := []) (rest := linesTail (d :: ds)) ?_ (by simp only [List.cons_append, List.nil_append, List.length_cons]; omega) hrest (by simp)
      simp [stepPyB, skipWs]

theorem chunks8_flatten : ∀ (f : Nat) (l : List Nat), l.length ≤ f → (chunks8 f l).flatten = l := by
  intro f
  induction f with
  | zero => intro l hl; cases l with
    | nil => rfl
    | cons a t => simp at hl
  | succ f ih =>
    intro l hl
    cases l with
    | nil => rfl
    | cons a t =>
      simp only [chunks8, List.flatten_cons]
      rw [ih _ (by simp only [List.length_drop, List.length_cons] at hl ⊢; omega)]
      exact List.take_append_drop 8 (a :: t)

theorem chunks8_mem : ∀ (f : Nat) (l : List Nat) (c : List Nat), c ∈ chunks8 f l → ∀ x ∈ c, x ∈ l := by
  intro f
  induction f with
  | zero => intro l c hc; simp [chunks8] at hc
  | succ f ih =>
    intro l c hc x hx
    cases l with
    | nil => simp [chunks8] at hc
    | cons a t =>
      simp only [chunks8, List.mem_cons] at hc
      rcases hc with rfl | hc
      · exact List.mem_of_mem_take hx
      · exact List.mem_of_mem_drop (ih _ c hc x hx)

theorem chunks8_ne (f : Nat) (l : List Nat) (hl : l ≠ []) (hf : 0 < f) : chunks8 f l ≠ [] := by
  cases f with
  | zero => omega
  | succ f => cases l with
    | nil => exact absurd rfl hl
    | cons a t => simp [chunks8]

theorem decbytes_py_lines (cs : List (List Nat)) (hne : cs ≠ []) (hcs : ∀ c ∈ cs, ∀ x ∈ c, x < 256) :
    decbytes_py (joinWith [10] (cs.map lineB)) = some cs.flatten := by
  cases cs with
  | nil => exact absurd rfl hne
  | cons c cs =>
    rw [joinWith_lines]
    have := run_of_runs (runs_lines (c :: cs) hne hcs)
    simpa [decbytes_py] using this

/-- Python `bytes_literal`: the (parenthesised) literal evaluates to the original bytes. -/
theorem bytes_py_roundtrip (b : List Nat) (hb : ∀ x ∈ b, x < 256) :
    decbytes_py (bytes_py b).1 = some b := by
  rw [bytes_py_eq]
  split
  · have := decbytes_py_lines [b] (by simp) (by intro c hc; simp at hc; subst hc; exact hb)
    simpa [joinWith] using this
  · next hlen =>
    have hne : b ≠ [] := by intro h; subst h; simp at hlen
    have := decbytes_py_lines (chunks8 b.length b) (chunks8_ne _ _ hne (by omega))
      (fun c hc x hx => hb x (chunks8_mem _ _ c hc x hx))
    rw [chunks8_flatten _ _ (Nat.le_refl _)] at this
    exact this

end AasVerif.Lit
