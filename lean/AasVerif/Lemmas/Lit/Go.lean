import AasVerif.Lemmas.Lit.Basic
namespace AasVerif.Lit

/-- the text of an `.ok` outcome -/
def okPart (f : Nat → Res Text) (c : Nat) : Text :=
  match f c with
  | .ok e => e
  | .err _ => []

theorem mapRes_ok (f : Nat → Res Text) (s : Text) (h : ∀ c ∈ s, ∃ e, f c = .ok e) :
    mapRes f s = .ok (s.flatMap (okPart f)) := by
  induction s with
  | nil => rfl
  | cons c s ih =>
    obtain ⟨e, he⟩ := h c (by simp)
    have := ih (fun x hx => h x (by simp [hx]))
    simp [mapRes, he, this, okPart]

theorem mapRes_err (f : Nat → Res Text) (site : String) (s : Text)
    (hsite : ∀ c e, f c = .err e → e = site) (h : ∃ c ∈ s, ∃ e, f c = .err e) :
    mapRes f s = .err site := by
  induction s with
  | nil => simp at h
  | cons c s ih =>
    unfold mapRes
    cases hc : f c with
    | err e => simp [hsite c e hc]
    | ok x =>
      obtain ⟨d, hd, e, he⟩ := h
      simp only [List.mem_cons] at hd
      rcases hd with rfl | hd
      · rw [hc] at he; cases he
      · simp [ih ⟨d, hd, e, he⟩]

def goDom (c : Nat) : Prop := c < 0x110000 ∧ ¬ (0xD800 ≤ c ∧ c ≤ 0xDFFF)

/-- the text `escGo` produces outside the error branch -/
def escGoT (c : Nat) : Text :=
  if c = 7 then [92, 97]
  else if c = 8 then [92, 98]
  else if c = 12 then [92, 102]
  else if c = 10 then [92, 110]
  else if c = 13 then [92, 114]
  else if c = 9 then [92, 116]
  else if c = 11 then [92, 118]
  else if c = 34 then [92, 34]
  else if c = 92 then [92, 92]
  else if c < 32 then 92 :: 120 :: fmtHex 2 c
  else if 255 < c ∧ c < 65536 then 92 :: 117 :: fmtHex 4 c
  else if c ≥ 65536 then 92 :: 85 :: fmtHex 8 c
  else [c]

/-- the disequalities that `omega` knows and `simp` needs -/
macro "ne_facts" c:ident : tactic => `(tactic| (
  have : ¬ $c = 7 := by omega
  have : ¬ $c = 8 := by omega
  have : ¬ $c = 12 := by omega
  have : ¬ $c = 10 := by omega
  have : ¬ $c = 13 := by omega
  have : ¬ $c = 9 := by omega
  have : ¬ $c = 11 := by omega
  have : ¬ $c = 34 := by omega
  have : ¬ $c = 92 := by omega))

theorem go_class (c : Nat) :
    c = 7 ∨ c = 8 ∨ c = 12 ∨ c = 10 ∨ c = 13 ∨ c = 9 ∨ c = 11 ∨ c = 34 ∨ c = 92 ∨
    (c < 32 ∧ c ≠ 7 ∧ c ≠ 8 ∧ c ≠ 12 ∧ c ≠ 10 ∧ c ≠ 13 ∧ c ≠ 9 ∧ c ≠ 11) ∨
    (0xD800 ≤ c ∧ c ≤ 0xDFFF) ∨
    (255 < c ∧ c < 65536 ∧ ¬ (0xD800 ≤ c ∧ c ≤ 0xDFFF)) ∨
    65536 ≤ c ∨
    (32 ≤ c ∧ c ≤ 255 ∧ c ≠ 34 ∧ c ≠ 92) := by omega

theorem go_eq (c : Nat) (hc : goDom c) : escGo c = .ok (escGoT c) := by
  unfold goDom at hc
  rcases go_class c with rfl | rfl | rfl | rfl | rfl | rfl | rfl | rfl | rfl | h | h | h | h | h
  any_goals rfl
  · have : ¬ c = 34 := by omega
    have : ¬ c = 92 := by omega
    simp [escGo, escGoT, *]
  · omega
  · ne_facts c
    have : ¬ c < 32 := by omega
    simp [escGo, escGoT, *]
  · ne_facts c
    have : ¬ c < 32 := by omega
    have : ¬ (55296 ≤ c ∧ c ≤ 57343) := by omega
    have : ¬ (255 < c ∧ c < 65536) := by omega
    simp [escGo, escGoT, *]
  · ne_facts c
    have : ¬ c < 32 := by omega
    have : ¬ (55296 ≤ c ∧ c ≤ 57343) := by omega
    have : ¬ (255 < c ∧ c < 65536) := by omega
    have : ¬ 65536 ≤ c := by omega
    simp [escGo, escGoT, *]

theorem go_ok (c : Nat) (hc : goDom c) : ∃ e, escGo c = .ok e := ⟨_, go_eq c hc⟩

theorem okPart_go (c : Nat) (hc : goDom c) : okPart escGo c = escGoT c := by
  unfold okPart; rw [go_eq c hc]

theorem go_err_of_surrogate (c : Nat) (h : 0xD800 ≤ c ∧ c ≤ 0xDFFF) : escGo c = .err "ValueError" := by
  ne_facts c
  have : ¬ c < 32 := by omega
  simp [escGo, *]

theorem go_err_site (c : Nat) (e : String) (h : escGo c = .err e) : e = "ValueError" := by
  by_cases hs : 0xD800 ≤ c ∧ c ≤ 0xDFFF
  · rw [go_err_of_surrogate c hs] at h; injection h with h; exact h.symm
  · by_cases hlt : c < 0x110000
    · rw [go_eq c ⟨hlt, hs⟩] at h; cases h
    · ne_facts c
      have : ¬ c < 32 := by omega
      have : ¬ (255 < c ∧ c < 65536) := by omega
      have : 65536 ≤ c := by omega
      simp [escGo, *] at h

theorem escGoT_c0 (c : Nat) (h : c < 32 ∧ c ≠ 7 ∧ c ≠ 8 ∧ c ≠ 12 ∧ c ≠ 10 ∧ c ≠ 13 ∧ c ≠ 9 ∧ c ≠ 11) :
    escGoT c = 92 :: 120 :: fmtHex 2 c := by
  have : ¬ c = 34 := by omega
  have : ¬ c = 92 := by omega
  simp [escGoT, *]

theorem escGoT_bmp (c : Nat) (h : 255 < c ∧ c < 65536) : escGoT c = 92 :: 117 :: fmtHex 4 c := by
  ne_facts c
  have : ¬ c < 32 := by omega
  simp [escGoT, *]

theorem escGoT_astral (c : Nat) (h : 65536 ≤ c) : escGoT c = 92 :: 85 :: fmtHex 8 c := by
  ne_facts c
  have : ¬ c < 32 := by omega
  have : ¬ (255 < c ∧ c < 65536) := by omega
  simp [escGoT, *]

theorem escGoT_raw (c : Nat) (h : 32 ≤ c ∧ c ≤ 255 ∧ c ≠ 34 ∧ c ≠ 92) : escGoT c = [c] := by
  ne_facts c
  have : ¬ c < 32 := by omega
  have : ¬ (255 < c ∧ c < 65536) := by omega
  have : ¬ 65536 ≤ c := by omega
  simp [escGoT, *]

theorem go_char (c : Nat) (tail : Text) (v : List Nat) (hc : goDom c) (h : Runs stepGo tail v) :
    Runs stepGo (escGoT c ++ tail) (utf8cp c ++ v) := by
  obtain ⟨hc1, hc2⟩ := hc
  rcases go_class c with rfl | rfl | rfl | rfl | rfl | rfl | rfl | rfl | rfl | h' | h' | h' | h' | h'
  · exact Runs.step1 (out := [7]) (rest := tail) (by simp [escGoT, stepGo]) (by simp [escGoT]; omega) h (by simp [utf8cp])
  · exact Runs.step1 (out := [8]) (rest := tail) (by simp [escGoT, stepGo]) (by simp [escGoT]; omega) h (by simp [utf8cp])
  · exact Runs.step1 (out := [12]) (rest := tail) (by simp [escGoT, stepGo]) (by simp [escGoT]; omega) h (by simp [utf8cp])
  · exact Runs.step1 (out := [10]) (rest := tail) (by simp [escGoT, stepGo]) (by simp [escGoT]; omega) h (by simp [utf8cp])
  · exact Runs.step1 (out := [13]) (rest := tail) (by simp [escGoT, stepGo]) (by simp [escGoT]; omega) h (by simp [utf8cp])
  · exact Runs.step1 (out := [9]) (rest := tail) (by simp [escGoT, stepGo]) (by simp [escGoT]; omega) h (by simp [utf8cp])
  · exact Runs.step1 (out := [11]) (rest := tail) (by simp [escGoT, stepGo]) (by simp [escGoT]; omega) h (by simp [utf8cp])
  · exact Runs.step1 (out := [34]) (rest := tail) (by simp [escGoT, stepGo]) (by simp [escGoT]; omega) h (by simp [utf8cp])
  · exact Runs.step1 (out := [92]) (rest := tail) (by simp [escGoT, stepGo]) (by simp [escGoT]; omega) h (by simp [utf8cp])
  · rw [escGoT_c0 c h']
    have h8 : c < 256 := by omega
    have h7 : c < 128 := by omega
    refine Runs.step1 (out := [c]) (rest := tail) ?_ (by len_tac) h (by simp [utf8cp, h7])
    simp only [List.cons_append, stepGo]
    simp [takeHexN2_fmt c tail h8]
  · omega
  · rw [escGoT_bmp c ⟨h'.1, h'.2.1⟩]
    have h16 : c < 65536 := by omega
    refine Runs.step1 (out := utf8cp c) (rest := tail) ?_ (by len_tac) h rfl
    simp only [List.cons_append, stepGo]
    simp [takeHexN4_fmt c tail h16, isSurrogate, hc2]
  · rw [escGoT_astral c h']
    have h32 : c < 4294967296 := by omega
    refine Runs.step1 (out := utf8cp c) (rest := tail) ?_ (by len_tac) h rfl
    simp only [List.cons_append, stepGo]
    simp [takeHexN8_fmt c tail h32, isSurrogate, hc2, hc1]
  · rw [escGoT_raw c h']
    refine Runs.step1 (out := utf8cp c) (rest := tail) ?_ (by len_tac) h rfl
    have : ¬ c = 34 := h'.2.2.1
    have : ¬ c = 92 := h'.2.2.2
    have : ¬ c = 10 := by omega
    have : ¬ c = 0 := by omega
    have : ¬ c = 65279 := by omega
    simp [stepGo, *]

theorem go_okSrc (c : Nat) (hc : goDom c) : ∀ x ∈ escGoT c, okSrc x := by
  intro x hx
  obtain ⟨hc1, hc2⟩ := hc
  rcases go_class c with rfl | rfl | rfl | rfl | rfl | rfl | rfl | rfl | rfl | h' | h' | h' | h' | h'
  all_goals try (simp [escGoT] at hx; rcases hx with rfl | rfl <;> exact okSrc_small (by decide))
  · rw [escGoT_c0 c h'] at hx
    simp only [List.mem_cons] at hx
    rcases hx with rfl | rfl | hx
    · exact okSrc_small (by decide)
    · exact okSrc_small (by decide)
    · exact okSrc_small (fmtHex2_small c (by omega) x hx)
  · omega
  · rw [escGoT_bmp c ⟨h'.1, h'.2.1⟩] at hx
    simp only [List.mem_cons] at hx
    rcases hx with rfl | rfl | hx
    · exact okSrc_small (by decide)
    · exact okSrc_small (by decide)
    · exact okSrc_small (fmtHex4_small c (by omega) x hx)
  · rw [escGoT_astral c h'] at hx
    simp only [List.mem_cons] at hx
    rcases hx with rfl | rfl | hx
    · exact okSrc_small (by decide)
    · exact okSrc_small (by decide)
    · exact okSrc_small (fmtHex8_small c (by omega) x hx)
  · rw [escGoT_raw c h'] at hx
    simp only [List.mem_singleton] at hx; subst hx
    exact ⟨hc1, hc2⟩

theorem mapRes_go (s : Text) (hs : ∀ c ∈ s, goDom c) : mapRes escGo s = .ok (s.flatMap escGoT) := by
  induction s with
  | nil => rfl
  | cons c s ih =>
    simp [mapRes, go_eq c (hs c (by simp)), ih (fun x hx => hs x (by simp [hx]))]

theorem enc_go_ok (s : Text) (hs : ∀ c ∈ s, goDom c) : enc_go s = .ok ([34] ++ s.flatMap escGoT ++ [34]) := by
  unfold enc_go
  rw [mapRes_go s hs]
  simp only [stripped]
  rw [isStripped_quoted 34 _ (by decide)]; rfl

theorem go_needs_false (c : Nat) (h : needsCharGo c = false) : escGoT c = [c] := by
  rcases go_class c with rfl | rfl | rfl | rfl | rfl | rfl | rfl | rfl | rfl | h' | h' | h' | h' | h'
  all_goals try (exact absurd h (by decide))
  · have : ¬ c = 34 := by omega
    have : ¬ c = 92 := by omega
    simp [needsCharGo, *] at h
  · ne_facts c
    have : c < 32 ∨ c > 255 := by omega
    simp [needsCharGo, *] at h
  · ne_facts c
    have : c < 32 ∨ c > 255 := by omega
    simp [needsCharGo, *] at h
  · ne_facts c
    have : c < 32 ∨ c > 255 := by omega
    simp [needsCharGo, *] at h
  · exact escGoT_raw c h'

theorem go_needs_true (c : Nat) (h : needsCharGo c = true) : 2 ≤ (escGoT c).length := by
  rcases go_class c with rfl | rfl | rfl | rfl | rfl | rfl | rfl | rfl | rfl | h' | h' | h' | h' | h'
  all_goals try decide
  · rw [escGoT_c0 c h']; simp
  · rw [escGoT_bmp c (by omega)]; simp
  · rw [escGoT_bmp c ⟨h'.1, h'.2.1⟩]; simp
  · rw [escGoT_astral c h']; simp
  · ne_facts c
    have : ¬ (c < 32 ∨ c > 255) := by omega
    simp [needsCharGo, *] at h

end AasVerif.Lit
