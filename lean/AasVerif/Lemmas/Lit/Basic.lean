import AasVerif.Model.Lit.Enc
import AasVerif.Model.Lit.Dec
/-! Generic lemmas for the literal round trips (C19): the fuel-free reading relation `Runs`,
its agreement with `run`, digit formatting/reading, and the `flatMap` induction. -/
namespace AasVerif.Lit

/-- closes `rest.length < (consumed ++ rest).length` goals -/
macro "len_tac" : tactic =>
  `(tactic| (simp only [List.length_append, List.length_cons, List.length_nil]; omega))

/-- Fuel-free description of a successful `run`. -/
inductive Runs (step : Text → Step) : Text → List Nat → Prop
  | done {inp : Text} : step inp = .done → Runs step inp []
  | emit {inp : Text} {out : List Nat} {rest : Text} {v : List Nat} :
      step inp = .emit out rest → rest.length < inp.length → Runs step rest v →
      Runs step inp (out ++ v)

theorem Runs.step1 {step : Text → Step} {inp : Text} {out : List Nat} {rest : Text} {v w : List Nat}
    (hs : step inp = .emit out rest) (hl : rest.length < inp.length) (h : Runs step rest v)
    (hw : w = out ++ v) : Runs step inp w := by
  subst hw; exact Runs.emit hs hl h

theorem run_mono (step : Text → Step) :
    ∀ (f : Nat) (inp : Text) (v : List Nat), run step f inp = some v →
      ∀ g, f ≤ g → run step g inp = some v := by
  intro f
  induction f with
  | zero => intro inp v h; simp [run] at h
  | succ f ih =>
    intro inp v h g hg
    obtain ⟨g', rfl⟩ : ∃ g', g = g' + 1 := ⟨g - 1, by omega⟩
    unfold run at h ⊢
    cases hst : step inp with
    | done => simpa [hst] using h
    | fail => simp [hst] at h
    | emit out rest =>
      simp only [hst] at h ⊢
      split at h
      · next hl =>
        simp only [hl, if_true]
        cases hr : run step f rest with
        | none => simp [hr] at h
        | some v' =>
          simp only [hr, Option.map_some, Option.some.injEq] at h
          rw [ih rest v' hr g' (by omega)]
          simp [h]
      · simp at h

theorem run_of_runs {step : Text → Step} {inp : Text} {v : List Nat} (h : Runs step inp v) :
    run step (inp.length + 1) inp = some v := by
  induction h with
  | done hs => simp [run, hs]
  | @emit inp out rest v hs hl _ ih =>
    unfold run
    simp only [hs, hl, if_true]
    rw [run_mono step _ _ _ ih inp.length (by omega)]
    rfl

/-- The per-character induction for encoders of the form `flatMap esc`. -/
theorem runs_flatMap (step : Text → Step) (esc : Nat → Text) (val : Nat → List Nat) (close : Text)
    (P : Nat → Prop)
    (hs : ∀ c tail v, P c → Runs step tail v → Runs step (esc c ++ tail) (val c ++ v))
    (hd : Runs step close []) :
    ∀ s : Text, (∀ c ∈ s, P c) → Runs step (s.flatMap esc ++ close) (s.flatMap val) := by
  intro s
  induction s with
  | nil => intro _; simpa using hd
  | cons c s ih =>
    intro hP
    simp only [List.flatMap_cons, List.append_assoc]
    exact hs c _ _ (hP c (by simp)) (ih (fun x hx => hP x (by simp [hx])))

/-! ### digits -/

theorem hexVal_hexDigit : ∀ d, d < 16 → hexVal? (hexDigit d) = some d := by decide

theorem hexVal_hexDigit_mod (n : Nat) : hexVal? (hexDigit (n % 16)) = some (n % 16) :=
  hexVal_hexDigit _ (Nat.mod_lt _ (by decide))

theorem hexDigit_lt : ∀ d, d < 16 → hexDigit d < 128 := by decide

theorem hexDigit_mod_lt (n : Nat) : hexDigit (n % 16) < 128 := hexDigit_lt _ (Nat.mod_lt _ (by decide))

theorem fmtHex2 (c : Nat) (h : c < 256) : fmtHex 2 c = [hexDigit (c / 16 % 16), hexDigit (c % 16)] := by
  unfold fmtHex; rw [if_pos (by simpa using h)]; simp [fixedHex]

theorem fmtHex4 (c : Nat) (h : c < 65536) :
    fmtHex 4 c = [hexDigit (c / 16 / 16 / 16 % 16), hexDigit (c / 16 / 16 % 16), hexDigit (c / 16 % 16), hexDigit (c % 16)] := by
  unfold fmtHex; rw [if_pos (by simpa using h)]; simp [fixedHex]

theorem fmtHex8 (c : Nat) (h : c < 4294967296) :
    fmtHex 8 c = [hexDigit (c / 16 / 16 / 16 / 16 / 16 / 16 / 16 % 16), hexDigit (c / 16 / 16 / 16 / 16 / 16 / 16 % 16),
      hexDigit (c / 16 / 16 / 16 / 16 / 16 % 16), hexDigit (c / 16 / 16 / 16 / 16 % 16),
      hexDigit (c / 16 / 16 / 16 % 16), hexDigit (c / 16 / 16 % 16), hexDigit (c / 16 % 16), hexDigit (c % 16)] := by
  unfold fmtHex; rw [if_pos (by simpa using h)]; simp [fixedHex]

theorem takeHexN2_fmt (c : Nat) (tail : Text) (h : c < 256) :
    takeHexN 2 0 (fmtHex 2 c ++ tail) = some (c, tail) := by
  rw [fmtHex2 c h]
  simp only [List.cons_append, List.nil_append, takeHexN, hexVal_hexDigit_mod]
  congr 2; omega

theorem takeHexN4_fmt (c : Nat) (tail : Text) (h : c < 65536) :
    takeHexN 4 0 (fmtHex 4 c ++ tail) = some (c, tail) := by
  rw [fmtHex4 c h]
  simp only [List.cons_append, List.nil_append, takeHexN, hexVal_hexDigit_mod]
  congr 2; omega

theorem takeHexN8_fmt (c : Nat) (tail : Text) (h : c < 4294967296) :
    takeHexN 8 0 (fmtHex 8 c ++ tail) = some (c, tail) := by
  rw [fmtHex8 c h]
  simp only [List.cons_append, List.nil_append, takeHexN, hexVal_hexDigit_mod]
  congr 2; omega

theorem fmtHex4_small (c : Nat) (h : c < 65536) : ∀ x ∈ fmtHex 4 c, x < 128 := by
  rw [fmtHex4 c h]; intro x hx
  simp only [List.mem_cons, List.not_mem_nil, or_false] at hx
  rcases hx with rfl | rfl | rfl | rfl <;> exact hexDigit_mod_lt _

theorem fmtHex2_small (c : Nat) (h : c < 256) : ∀ x ∈ fmtHex 2 c, x < 128 := by
  rw [fmtHex2 c h]; intro x hx
  simp only [List.mem_cons, List.not_mem_nil, or_false] at hx
  rcases hx with rfl | rfl <;> exact hexDigit_mod_lt _

theorem fmtHex8_small (c : Nat) (h : c < 4294967296) : ∀ x ∈ fmtHex 8 c, x < 128 := by
  rw [fmtHex8 c h]; intro x hx
  simp only [List.mem_cons, List.not_mem_nil, or_false] at hx
  rcases hx with rfl | rfl | rfl | rfl | rfl | rfl | rfl | rfl <;> exact hexDigit_mod_lt _

/-! ### storable -/

def okSrc (c : Nat) : Prop := c < 0x110000 ∧ ¬ (0xD800 ≤ c ∧ c ≤ 0xDFFF)

theorem okSrc_small {c : Nat} (h : c < 128) : okSrc c := by unfold okSrc; omega

theorem storable_iff (t : Text) : storable t = true ↔ ∀ c ∈ t, okSrc c := by
  unfold storable okSrc isSurrogate
  simp only [List.all_eq_true, Bool.and_eq_true, Bool.not_eq_true', decide_eq_false_iff_not, decide_eq_true_eq]
  constructor
  · intro h c hc; exact ⟨(h c hc).2, (h c hc).1⟩
  · intro h c hc; exact ⟨(h c hc).2, (h c hc).1⟩

theorem okSrc_flatMap (esc : Nat → Text) (P : Nat → Prop) (h : ∀ c, P c → ∀ x ∈ esc c, okSrc x) (s : Text)
    (hs : ∀ c ∈ s, P c) : ∀ x ∈ s.flatMap esc, okSrc x := by
  intro x hx
  rw [List.mem_flatMap] at hx
  obtain ⟨c, hc, hxc⟩ := hx
  exact h c (hs c hc) x hxc

/-! ### `needs_escaping` -/

theorem flatMap_eq_self_iff (esc : Nat → Text) (needs : Nat → Bool)
    (h1 : ∀ c, needs c = false → esc c = [c]) (h2 : ∀ c, needs c = true → 2 ≤ (esc c).length) (s : Text) :
    s.flatMap esc = s ↔ s.any needs = false := by
  have hlen : ∀ t : Text, t.length ≤ (t.flatMap esc).length := by
    intro t
    induction t with
    | nil => simp
    | cons c t ih =>
      simp only [List.flatMap_cons, List.length_append, List.length_cons]
      cases hn : needs c with
      | false => rw [h1 c hn]; simp only [List.length_cons, List.length_nil]; omega
      | true => have := h2 c hn; omega
  induction s with
  | nil => simp
  | cons c s ih =>
    simp only [List.flatMap_cons, List.any_cons, Bool.or_eq_false_iff]
    cases hn : needs c with
    | false =>
      rw [h1 c hn]
      simp only [List.cons_append, List.nil_append, List.cons.injEq, true_and]
      exact ih
    | true =>
      simp only [Bool.true_eq_false, false_and, iff_false]
      intro heq
      have := congrArg List.length heq
      simp only [List.length_append, List.length_cons] at this
      have := h2 c hn
      have := hlen s
      omega

theorem storable_wrap (pre body close : Text) (hpre : ∀ x ∈ pre, okSrc x) (hbody : ∀ x ∈ body, okSrc x)
    (hclose : ∀ x ∈ close, okSrc x) : storable (pre ++ body ++ close) = true := by
  rw [storable_iff]
  intro x hx
  simp only [List.mem_append] at hx
  rcases hx with (hx | hx) | hx
  · exact hpre x hx
  · exact hbody x hx
  · exact hclose x hx

theorem okSrc_list_small (l : Text) (h : ∀ x ∈ l, x < 128) : ∀ x ∈ l, okSrc x :=
  fun x hx => okSrc_small (h x hx)

theorem isStripped_wrap (p q : Nat) (pre body : Text) (hp : ¬ (p = 10 ∨ p = 32 ∨ p = 9)) (hq : ¬ (q = 10 ∨ q = 32 ∨ q = 9)) :
    isStripped (p :: pre ++ body ++ [q]) = true := by
  unfold isStripped
  have h1 : (p :: pre ++ body ++ [q]).getLast? = some q := by
    rw [List.getLast?_append]; simp
  rw [h1]
  simp only [List.cons_append]
  simp only [not_or] at hp hq
  simp [hp.1, hp.2.1, hp.2.2, hq.1, hq.2.1, hq.2.2]

theorem isStripped_quoted (q : Nat) (body : Text) (hq : ¬ (q = 10 ∨ q = 32 ∨ q = 9)) :
    isStripped ([q] ++ body ++ [q]) = true := by
  unfold isStripped
  have h1 : ([q] ++ body ++ [q]).getLast? = some q := by
    rw [List.getLast?_append]; simp
  rw [h1]
  simp only [List.cons_append, List.nil_append]
  simp only [not_or] at hq
  simp [hq.1, hq.2.1, hq.2.2]

end AasVerif.Lit
