import AasVerif.Lemmas.Lit.Cpp
namespace AasVerif.Lit

theorem wchar_class (c : Nat) :
    c = 7 ∨ c = 8 ∨ c = 12 ∨ c = 10 ∨ c = 13 ∨ c = 9 ∨ c = 11 ∨ c = 39 ∨ c = 92 ∨
    (c < 16 ∧ c ≠ 7 ∧ c ≠ 8 ∧ c ≠ 12 ∧ c ≠ 10 ∧ c ≠ 13 ∧ c ≠ 9 ∧ c ≠ 11) ∨
    (16 ≤ c ∧ c < 32) ∨
    (32 ≤ c ∧ c ≤ 127 ∧ c ≠ 39 ∧ c ≠ 92) ∨
    (127 < c ∧ c < 255) ∨
    (0xD800 ≤ c ∧ c ≤ 0xDFFF) ∨
    (255 ≤ c ∧ c < 65536 ∧ ¬ (0xD800 ≤ c ∧ c ≤ 0xDFFF)) ∨
    65536 ≤ c := by omega

macro "wc_ne" c:ident : tactic => `(tactic| (
  have : ¬ $c = 7 := by omega
  have : ¬ $c = 8 := by omega
  have : ¬ $c = 12 := by omega
  have : ¬ $c = 10 := by omega
  have : ¬ $c = 13 := by omega
  have : ¬ $c = 9 := by omega
  have : ¬ $c = 11 := by omega
  have : ¬ $c = 39 := by omega
  have : ¬ $c = 92 := by omega))

theorem hexMin_two (c : Nat) (h : 16 ≤ c ∧ c < 256) : hexMin c = [hexDigit (c / 16 % 16), hexDigit (c % 16)] := by
  have h1 : ¬ c < 16 := by omega
  have h2 : c / 16 < 16 := by omega
  have h3 : c / 16 % 16 = c / 16 := by omega
  simp [hexMin, hexMinAux, h1, h2, h3]

theorem fmtHex1_small (c : Nat) (h : c < 16) : fmtHex 1 c = [hexDigit (c % 16)] := by
  unfold fmtHex; rw [if_pos (by simpa using h)]; simp [fixedHex]

theorem fmtHex1_two (c : Nat) (h : 16 ≤ c ∧ c < 256) : fmtHex 1 c = [hexDigit (c / 16 % 16), hexDigit (c % 16)] := by
  unfold fmtHex; rw [if_neg (by simp; omega)]; exact hexMin_two c h

theorem dropPrefix_append (p t : Text) : dropPrefix? p (p ++ t) = some t := by
  induction p with
  | nil => rfl
  | cons a p ih => simp [dropPrefix?, ih]

theorem hexVal_39 : hexVal? 39 = none := by decide
theorem hexVal_41 : hexVal? 41 = none := by decide

theorem castPrefix_eq : castPrefix =
    115 :: [116, 97, 116, 105, 99, 95, 99, 97, 115, 116, 60, 119, 99, 104, 97, 114, 95, 116, 62, 40, 48, 120] := by
  decide

theorem wcharOne_ok (c : Nat) (t : Text) (h : wcharOne c = .ok t) (p : Nat) (pre body : Text) (q : Nat)
    (ht : t = p :: pre ++ body ++ [q]) (hp : ¬ (p = 10 ∨ p = 32 ∨ p = 9)) (hq : ¬ (q = 10 ∨ q = 32 ∨ q = 9)) :
    enc_cppc [c] = .ok t := by
  simp only [enc_cppc, h, stripped]
  rw [ht, isStripped_wrap p q pre body hp hq]; rfl

theorem dec_cppc_char (body : Text) (v : Nat) (hst : storable (76 :: 39 :: body) = true)
    (h : stepCpp true 39 body = .emit [v] [39]) : dec_cppc (76 :: 39 :: body) = some [v] := by
  unfold dec_cppc
  rw [if_pos hst, castPrefix_eq]
  simp [dropPrefix?, h]

theorem storable_small (t : Text) (h : ∀ x ∈ t, x < 128) : storable t = true := by
  rw [storable_iff]; exact fun x hx => okSrc_small (h x hx)

/-- The wide character literal (or the cast expression for surrogates) denotes the character. -/
theorem wchar_roundtrip (c : Nat) (hc : c < 0x110000) :
    ∃ lit, enc_cppc [c] = .ok lit ∧ dec_cppc lit = some [c] := by
  rcases wchar_class c with rfl | rfl | rfl | rfl | rfl | rfl | rfl | rfl | rfl | h' | h' | h' | h' | h' | h' | h'
  · exact ⟨[76, 39, 92, 97, 39], by decide, by decide⟩
  · exact ⟨[76, 39, 92, 98, 39], by decide, by decide⟩
  · exact ⟨[76, 39, 92, 102, 39], by decide, by decide⟩
  · exact ⟨[76, 39, 92, 110, 39], by decide, by decide⟩
  · exact ⟨[76, 39, 92, 114, 39], by decide, by decide⟩
  · exact ⟨[76, 39, 92, 116, 39], by decide, by decide⟩
  · exact ⟨[76, 39, 92, 118, 39], by decide, by decide⟩
  · exact ⟨[76, 39, 92, 39, 39], by decide, by decide⟩
  · exact ⟨[76, 39, 92, 92, 39], by decide, by decide⟩
  · -- `\x` + one hex digit
    wc_ne c
    have h32 : c < 32 := by omega
    have hw : wcharOne c = .ok ([76, 39, 92, 120] ++ fmtHex 1 c ++ [39]) := by simp [wcharOne, *]
    rw [fmtHex1_small c h'.1] at hw
    refine ⟨_, wcharOne_ok c _ hw 76 [39, 92, 120] [hexDigit (c % 16)] 39 rfl (by decide) (by decide), ?_⟩
    have hd := hexDigit_mod_lt c
    refine dec_cppc_char _ c (storable_small _ (by intro x hx; simp at hx; omega)) ?_
    have hcm : c % 16 = c := by omega
    simp [stepCpp, takeHexGreedy, hexVal_hexDigit_mod, hexVal_39]
    split <;> first | omega | (simp; omega)
  · -- `\x` + two hex digits (16..31)
    wc_ne c
    have h32 : c < 32 := by omega
    have hw : wcharOne c = .ok ([76, 39, 92, 120] ++ fmtHex 1 c ++ [39]) := by simp [wcharOne, *]
    rw [fmtHex1_two c ⟨h'.1, by omega⟩] at hw
    refine ⟨_, wcharOne_ok c _ hw 76 [39, 92, 120] [hexDigit (c / 16 % 16), hexDigit (c % 16)] 39 rfl (by decide) (by decide), ?_⟩
    have hd := hexDigit_mod_lt c
    have hd2 := hexDigit_mod_lt (c / 16)
    refine dec_cppc_char _ c (storable_small _ (by intro x hx; simp at hx; omega)) ?_
    simp [stepCpp, takeHexGreedy, hexVal_hexDigit_mod, hexVal_39]
    split <;> first | omega | (simp; omega)
  · -- printable ASCII
    wc_ne c
    have : ¬ c < 32 := by omega
    have : c ≤ 127 := h'.2.1
    have hw : wcharOne c = .ok [76, 39, c, 39] := by simp [wcharOne, *]
    refine ⟨_, wcharOne_ok c _ hw 76 [39] [c] 39 rfl (by decide) (by decide), ?_⟩
    refine dec_cppc_char _ c (storable_small _ (by intro x hx; simp at hx; omega)) ?_
    simp [stepCpp, *]
  · -- `\x` + two hex digits (128..254)
    wc_ne c
    have : ¬ c < 32 := by omega
    have : ¬ c ≤ 127 := by omega
    have hw : wcharOne c = .ok ([76, 39, 92, 120] ++ fmtHex 1 c ++ [39]) := by simp [wcharOne, *]
    rw [fmtHex1_two c ⟨by omega, by omega⟩] at hw
    refine ⟨_, wcharOne_ok c _ hw 76 [39, 92, 120] [hexDigit (c / 16 % 16), hexDigit (c % 16)] 39 rfl (by decide) (by decide), ?_⟩
    have hd := hexDigit_mod_lt c
    have hd2 := hexDigit_mod_lt (c / 16)
    refine dec_cppc_char _ c (storable_small _ (by intro x hx; simp at hx; omega)) ?_
    simp [stepCpp, takeHexGreedy, hexVal_hexDigit_mod, hexVal_39]
    split <;> first | omega | (simp; omega)
  · -- surrogates: `static_cast<wchar_t>(0xd800)`
    wc_ne c
    have : ¬ c < 32 := by omega
    have : ¬ c ≤ 127 := by omega
    have : ¬ (127 < c ∧ c < 255) := by omega
    have h16 : c < 65536 := by omega
    have hw : wcharOne c = .ok (castPrefix ++ fmtHex 4 c ++ [41]) := by simp [wcharOne, castPrefix, *]
    refine ⟨castPrefix ++ fmtHex 4 c ++ [41], ?_, ?_⟩
    · exact wcharOne_ok c _ hw 115 _ (fmtHex 4 c) 41 (by rw [castPrefix_eq]) (by decide) (by decide)
    · have hst : storable (castPrefix ++ fmtHex 4 c ++ [41]) = true :=
        storable_wrap _ _ _ (okSrc_list_small _ (by rw [castPrefix_eq]; decide))
          (okSrc_list_small _ (fmtHex4_small c h16)) (okSrc_list_small _ (by decide))
      unfold dec_cppc
      rw [if_pos hst, List.append_assoc, dropPrefix_append, fmtHex4 c h16]
      simp [takeHexGreedy, hexVal_hexDigit_mod, hexVal_41]
      omega
  · -- BMP: `\uXXXX`
    wc_ne c
    have : ¬ c < 32 := by omega
    have : ¬ c ≤ 127 := by omega
    have : ¬ (127 < c ∧ c < 255) := by omega
    have := h'.2.2
    have : 255 ≤ c ∧ c < 65536 := ⟨h'.1, h'.2.1⟩
    have h16 : c < 65536 := by omega
    have hw : wcharOne c = .ok ([76, 39, 92, 117] ++ fmtHex 4 c ++ [39]) := by simp [wcharOne, *]
    refine ⟨_, wcharOne_ok c _ hw 76 [39, 92, 117] (fmtHex 4 c) 39 rfl (by decide) (by decide), ?_⟩
    have hsm := fmtHex4_small c h16
    have hst : storable ([76, 39, 92, 117] ++ fmtHex 4 c ++ [39]) = true :=
      storable_wrap _ _ _ (okSrc_list_small _ (by decide)) (okSrc_list_small _ hsm) (okSrc_list_small _ (by decide))
    refine dec_cppc_char _ c hst ?_
    have : ¬ c < 160 := by omega
    simp only [List.cons_append, List.nil_append, stepCpp]
    simp [takeHexN4_fmt c [39] h16, isSurrogate, *]
  · -- astral: `\UXXXXXXXX`
    wc_ne c
    have : ¬ c < 32 := by omega
    have : ¬ c ≤ 127 := by omega
    have : ¬ (127 < c ∧ c < 255) := by omega
    have : ¬ (0xD800 ≤ c ∧ c ≤ 0xDFFF) := by omega
    have : ¬ (255 ≤ c ∧ c < 65536) := by omega
    have h32 : c < 4294967296 := by omega
    have hw : wcharOne c = .ok ([76, 39, 92, 85] ++ fmtHex 8 c ++ [39]) := by simp [wcharOne, *]
    refine ⟨_, wcharOne_ok c _ hw 76 [39, 92, 85] (fmtHex 8 c) 39 rfl (by decide) (by decide), ?_⟩
    have hsm := fmtHex8_small c h32
    have hst : storable ([76, 39, 92, 85] ++ fmtHex 8 c ++ [39]) = true :=
      storable_wrap _ _ _ (okSrc_list_small _ (by decide)) (okSrc_list_small _ hsm) (okSrc_list_small _ (by decide))
    refine dec_cppc_char _ c hst ?_
    have : ¬ c < 160 := by omega
    simp only [List.cons_append, List.nil_append, stepCpp]
    simp [takeHexN8_fmt c [39] h32, isSurrogate, hc, *]

end AasVerif.Lit
