import AasVerif.Lemmas.Lit.Basic
namespace AasVerif.Lit

/-- (quote character, escaping table) pairs `string_literal` can choose (no curly duplication) -/
def PyMode (q : Nat) (tbl : List (Nat × Text)) : Prop :=
  (q = 39 ∧ tbl = Gen.Lit.pySingle) ∨ (q = 34 ∧ tbl = Gen.Lit.pyDouble)

theorem py_class (c q : Nat) :
    c = 92 ∨ c = 7 ∨ c = 8 ∨ c = 12 ∨ c = 10 ∨ c = 13 ∨ c = 9 ∨ c = 11 ∨ c = q ∨ c = 0 ∨
    (0xD800 ≤ c ∧ c ≤ 0xDFFF ∨ c = 28 ∨ c = 29 ∨ c = 30 ∨ c = 133 ∨ c = 8232 ∨ c = 8233) ∨
    (c ≠ 92 ∧ c ≠ 7 ∧ c ≠ 8 ∧ c ≠ 12 ∧ c ≠ 10 ∧ c ≠ 13 ∧ c ≠ 9 ∧ c ≠ 11 ∧ c ≠ q ∧ c ≠ 0 ∧
      ¬ (0xD800 ≤ c ∧ c ≤ 0xDFFF ∨ c = 28 ∨ c = 29 ∨ c = 30 ∨ c = 133 ∨ c = 8232 ∨ c = 8233)) := by omega

macro "py_ne" c:ident : tactic => `(tactic| (
  have : ¬ 92 = $c := by omega
  have : ¬ 7 = $c := by omega
  have : ¬ 8 = $c := by omega
  have : ¬ 12 = $c := by omega
  have : ¬ 10 = $c := by omega
  have : ¬ 13 = $c := by omega
  have : ¬ 9 = $c := by omega
  have : ¬ 11 = $c := by omega
  have : ¬ 39 = $c := by omega
  have : ¬ 34 = $c := by omega
  have : ¬ $c = 0 := by omega))

theorem pyEsc_sur (q : Nat) (tbl : List (Nat × Text)) (hm : PyMode q tbl) (c : Nat)
    (h : 0xD800 ≤ c ∧ c ≤ 0xDFFF ∨ c = 28 ∨ c = 29 ∨ c = 30 ∨ c = 133 ∨ c = 8232 ∨ c = 8233) :
    pyEscChar tbl c = 92 :: 117 :: fmtHex 4 c := by
  py_ne c
  rcases hm with ⟨rfl, rfl⟩ | ⟨rfl, rfl⟩ <;> simp [pyEscChar, lookup, Gen.Lit.pySingle, Gen.Lit.pyDouble, *]

theorem pyEsc_raw (q : Nat) (tbl : List (Nat × Text)) (hm : PyMode q tbl) (c : Nat)
    (h : c ≠ 92 ∧ c ≠ 7 ∧ c ≠ 8 ∧ c ≠ 12 ∧ c ≠ 10 ∧ c ≠ 13 ∧ c ≠ 9 ∧ c ≠ 11 ∧ c ≠ q ∧ c ≠ 0 ∧
      ¬ (0xD800 ≤ c ∧ c ≤ 0xDFFF ∨ c = 28 ∨ c = 29 ∨ c = 30 ∨ c = 133 ∨ c = 8232 ∨ c = 8233)) :
    pyEscChar tbl c = [c] := by
  have hns : ¬ (0xD800 ≤ c ∧ c ≤ 0xDFFF ∨ c = 28 ∨ c = 29 ∨ c = 30 ∨ c = 133 ∨ c = 8232 ∨ c = 8233) := h.2.2.2.2.2.2.2.2.2.2
  rcases hm with ⟨rfl, rfl⟩ | ⟨rfl, rfl⟩
  · have : ¬ 92 = c := by omega
    have : ¬ 7 = c := by omega
    have : ¬ 8 = c := by omega
    have : ¬ 12 = c := by omega
    have : ¬ 10 = c := by omega
    have : ¬ 13 = c := by omega
    have : ¬ 9 = c := by omega
    have : ¬ 11 = c := by omega
    have : ¬ 39 = c := by omega
    have : ¬ c = 0 := by omega
    simp [pyEscChar, lookup, Gen.Lit.pySingle, *]
  · have : ¬ 92 = c := by omega
    have : ¬ 7 = c := by omega
    have : ¬ 8 = c := by omega
    have : ¬ 12 = c := by omega
    have : ¬ 10 = c := by omega
    have : ¬ 13 = c := by omega
    have : ¬ 9 = c := by omega
    have : ¬ 11 = c := by omega
    have : ¬ 34 = c := by omega
    have : ¬ c = 0 := by omega
    simp [pyEscChar, lookup, Gen.Lit.pyDouble, *]

theorem py_char (q : Nat) (tbl : List (Nat × Text)) (hm : PyMode q tbl) (c : Nat) (tail : Text) (v : List Nat)
    (hc : c < 0x110000) (h : Runs (stepPy q false) tail v) :
    Runs (stepPy q false) (pyEscChar tbl c ++ tail) ([c] ++ v) := by
  rcases py_class c q with rfl | rfl | rfl | rfl | rfl | rfl | rfl | rfl | hq | rfl | h' | h'
  · rcases hm with ⟨rfl, rfl⟩ | ⟨rfl, rfl⟩ <;>
      exact Runs.step1 (out := [92]) (rest := tail) (by simp [pyEscChar, lookup, Gen.Lit.pySingle, Gen.Lit.pyDouble, stepPy]) (by simp [pyEscChar, lookup, Gen.Lit.pySingle, Gen.Lit.pyDouble]; omega) h rfl
  · rcases hm with ⟨rfl, rfl⟩ | ⟨rfl, rfl⟩ <;>
      exact Runs.step1 (out := [7]) (rest := tail) (by simp [pyEscChar, lookup, Gen.Lit.pySingle, Gen.Lit.pyDouble, stepPy]) (by simp [pyEscChar, lookup, Gen.Lit.pySingle, Gen.Lit.pyDouble]; omega) h rfl
  · rcases hm with ⟨rfl, rfl⟩ | ⟨rfl, rfl⟩ <;>
      exact Runs.step1 (out := [8]) (rest := tail) (by simp [pyEscChar, lookup, Gen.Lit.pySingle, Gen.Lit.pyDouble, stepPy]) (by simp [pyEscChar, lookup, Gen.Lit.pySingle, Gen.Lit.pyDouble]; omega) h rfl
  · rcases hm with ⟨rfl, rfl⟩ | ⟨rfl, rfl⟩ <;>
      exact Runs.step1 (out := [12]) (rest := tail) (by simp [pyEscChar, lookup, Gen.Lit.pySingle, Gen.Lit.pyDouble, stepPy]) (by simp [pyEscChar, lookup, Gen.Lit.pySingle, Gen.Lit.pyDouble]; omega) h rfl
  · rcases hm with ⟨rfl, rfl⟩ | ⟨rfl, rfl⟩ <;>
      exact Runs.step1 (out := [10]) (rest := tail) (by simp [pyEscChar, lookup, Gen.Lit.pySingle, Gen.Lit.pyDouble, stepPy]) (by simp [pyEscChar, lookup, Gen.Lit.pySingle, Gen.Lit.pyDouble]; omega) h rfl
  · rcases hm with ⟨rfl, rfl⟩ | ⟨rfl, rfl⟩ <;>
      exact Runs.step1 (out := [13]) (rest := tail) (by simp [pyEscChar, lookup, Gen.Lit.pySingle, Gen.Lit.pyDouble, stepPy]) (by simp [pyEscChar, lookup, Gen.Lit.pySingle, Gen.Lit.pyDouble]; omega) h rfl
  · rcases hm with ⟨rfl, rfl⟩ | ⟨rfl, rfl⟩ <;>
      exact Runs.step1 (out := [9]) (rest := tail) (by simp [pyEscChar, lookup, Gen.Lit.pySingle, Gen.Lit.pyDouble, stepPy]) (by simp [pyEscChar, lookup, Gen.Lit.pySingle, Gen.Lit.pyDouble]; omega) h rfl
  · rcases hm with ⟨rfl, rfl⟩ | ⟨rfl, rfl⟩ <;>
      exact Runs.step1 (out := [11]) (rest := tail) (by simp [pyEscChar, lookup, Gen.Lit.pySingle, Gen.Lit.pyDouble, stepPy]) (by simp [pyEscChar, lookup, Gen.Lit.pySingle, Gen.Lit.pyDouble]; omega) h rfl
  · subst hq
    rcases hm with ⟨rfl, rfl⟩ | ⟨rfl, rfl⟩
    · exact Runs.step1 (out := [39]) (rest := tail) (by simp [pyEscChar, lookup, Gen.Lit.pySingle, stepPy]) (by simp [pyEscChar, lookup, Gen.Lit.pySingle]; omega) h rfl
    · exact Runs.step1 (out := [34]) (rest := tail) (by simp [pyEscChar, lookup, Gen.Lit.pyDouble, stepPy]) (by simp [pyEscChar, lookup, Gen.Lit.pyDouble]; omega) h rfl
  · rcases hm with ⟨rfl, rfl⟩ | ⟨rfl, rfl⟩ <;>
      exact Runs.step1 (out := [0]) (rest := tail) (by simp [pyEscChar, lookup, Gen.Lit.pySingle, Gen.Lit.pyDouble, stepPy, takeHexN, hexVal?]) (by simp [pyEscChar, lookup, Gen.Lit.pySingle, Gen.Lit.pyDouble]; omega) h rfl
  · rw [pyEsc_sur q tbl hm c h']
    have h16 : c < 65536 := by omega
    refine Runs.step1 (out := [c]) (rest := tail) ?_ (by len_tac) h rfl
    have : ¬ 92 = q := by rcases hm with ⟨rfl, _⟩ | ⟨rfl, _⟩ <;> decide
    simp only [List.cons_append, stepPy]
    simp [takeHexN4_fmt c tail h16, *]
  · rw [pyEsc_raw q tbl hm c h']
    refine Runs.step1 (out := [c]) (rest := tail) ?_ (by len_tac) h rfl
    have : ¬ c = q := h'.2.2.2.2.2.2.2.2.1
    have : ¬ c = 10 := h'.2.2.2.2.1
    have : ¬ c = 13 := h'.2.2.2.2.2.1
    have : ¬ c = 92 := h'.1
    simp [stepPy, *]

theorem hexDigit_ge : ∀ d, d < 16 → 48 ≤ hexDigit d := by decide

theorem fmtHex4_ge (c : Nat) (h : c < 65536) : ∀ x ∈ fmtHex 4 c, 48 ≤ x := by
  rw [fmtHex4 c h]; intro x hx
  simp only [List.mem_cons, List.not_mem_nil, or_false] at hx
  rcases hx with rfl | rfl | rfl | rfl <;> exact hexDigit_ge _ (Nat.mod_lt _ (by decide))

/-- every character of an escape can be stored in a Python source file and is not NUL -/
theorem py_okSrc (q : Nat) (tbl : List (Nat × Text)) (hm : PyMode q tbl) (c : Nat) (hc : c < 0x110000) :
    ∀ x ∈ pyEscChar tbl c, okSrc x ∧ x ≠ 0 := by
  intro x hx
  rcases py_class c q with rfl | rfl | rfl | rfl | rfl | rfl | rfl | rfl | hq | rfl | h' | h'
  all_goals try (rcases hm with ⟨rfl, rfl⟩ | ⟨rfl, rfl⟩ <;>
    (simp [pyEscChar, lookup, Gen.Lit.pySingle, Gen.Lit.pyDouble] at hx
     have : x < 128 ∧ x ≠ 0 := by omega
     exact ⟨okSrc_small this.1, this.2⟩))
  · subst hq
    rcases hm with ⟨rfl, rfl⟩ | ⟨rfl, rfl⟩ <;>
      (simp [pyEscChar, lookup, Gen.Lit.pySingle, Gen.Lit.pyDouble] at hx
       have : x < 128 ∧ x ≠ 0 := by omega
       exact ⟨okSrc_small this.1, this.2⟩)
  · rw [pyEsc_sur q tbl hm c h'] at hx
    have h16 : c < 65536 := by omega
    simp only [List.mem_cons] at hx
    rcases hx with rfl | rfl | hx
    · exact ⟨okSrc_small (by decide), by decide⟩
    · exact ⟨okSrc_small (by decide), by decide⟩
    · have := fmtHex4_ge c h16 x hx
      exact ⟨okSrc_small (fmtHex4_small c h16 x hx), by omega⟩
  · rw [pyEsc_raw q tbl hm c h'] at hx
    simp only [List.mem_singleton] at hx; subst hx
    exact ⟨⟨hc, by have := h'.2.2.2.2.2.2.2.2.2.2; omega⟩, h'.2.2.2.2.2.2.2.2.2.1⟩

/-- an escape is never empty and never starts with the quote -/
theorem py_head (q : Nat) (tbl : List (Nat × Text)) (hm : PyMode q tbl) (c : Nat) :
    ∃ a r, pyEscChar tbl c = a :: r ∧ a ≠ q := by
  rcases py_class c q with rfl | rfl | rfl | rfl | rfl | rfl | rfl | rfl | hq | rfl | h' | h'
  · rcases hm with ⟨rfl, rfl⟩ | ⟨rfl, rfl⟩ <;> simp [pyEscChar, lookup, Gen.Lit.pySingle, Gen.Lit.pyDouble]
  · rcases hm with ⟨rfl, rfl⟩ | ⟨rfl, rfl⟩ <;> simp [pyEscChar, lookup, Gen.Lit.pySingle, Gen.Lit.pyDouble]
  · rcases hm with ⟨rfl, rfl⟩ | ⟨rfl, rfl⟩ <;> simp [pyEscChar, lookup, Gen.Lit.pySingle, Gen.Lit.pyDouble]
  · rcases hm with ⟨rfl, rfl⟩ | ⟨rfl, rfl⟩ <;> simp [pyEscChar, lookup, Gen.Lit.pySingle, Gen.Lit.pyDouble]
  · rcases hm with ⟨rfl, rfl⟩ | ⟨rfl, rfl⟩ <;> simp [pyEscChar, lookup, Gen.Lit.pySingle, Gen.Lit.pyDouble]
  · rcases hm with ⟨rfl, rfl⟩ | ⟨rfl, rfl⟩ <;> simp [pyEscChar, lookup, Gen.Lit.pySingle, Gen.Lit.pyDouble]
  · rcases hm with ⟨rfl, rfl⟩ | ⟨rfl, rfl⟩ <;> simp [pyEscChar, lookup, Gen.Lit.pySingle, Gen.Lit.pyDouble]
  · rcases hm with ⟨rfl, rfl⟩ | ⟨rfl, rfl⟩ <;> simp [pyEscChar, lookup, Gen.Lit.pySingle, Gen.Lit.pyDouble]
  · subst hq
    rcases hm with ⟨rfl, rfl⟩ | ⟨rfl, rfl⟩ <;> simp [pyEscChar, lookup, Gen.Lit.pySingle, Gen.Lit.pyDouble]
  · rcases hm with ⟨rfl, rfl⟩ | ⟨rfl, rfl⟩ <;> simp [pyEscChar, lookup, Gen.Lit.pySingle, Gen.Lit.pyDouble]
  · rw [pyEsc_sur q tbl hm c h']
    exact ⟨92, _, rfl, by rcases hm with ⟨rfl, _⟩ | ⟨rfl, _⟩ <;> decide⟩
  · rw [pyEsc_raw q tbl hm c h']
    exact ⟨c, [], rfl, h'.2.2.2.2.2.2.2.2.1⟩

theorem flatMap_single (s : Text) : s.flatMap (fun c => [c]) = s := by
  induction s with
  | nil => rfl
  | cons c s ih => simp [List.flatMap_cons, ih]

/-- reading back the literal built with quote `q` and table `tbl` -/
theorem py_dec (q : Nat) (tbl : List (Nat × Text)) (hm : PyMode q tbl) (s : Text) (hs : ∀ c ∈ s, c < 0x110000) :
    dec_py false ([q] ++ s.flatMap (pyEscChar tbl) ++ [q]) = some s := by
  have hq : q = 39 ∨ q = 34 := by rcases hm with ⟨rfl, _⟩ | ⟨rfl, _⟩ <;> simp
  have hq128 : q < 128 ∧ q ≠ 0 := by omega
  have hbody : ∀ x ∈ s.flatMap (pyEscChar tbl), okSrc x ∧ x ≠ 0 := by
    intro x hx
    rw [List.mem_flatMap] at hx
    obtain ⟨c, hc, hxc⟩ := hx
    exact py_okSrc q tbl hm c (hs c hc) x hxc
  have hst : storable ([q] ++ s.flatMap (pyEscChar tbl) ++ [q]) = true :=
    storable_wrap _ _ _ (by intro x hx; simp at hx; subst hx; exact okSrc_small hq128.1)
      (fun x hx => (hbody x hx).1) (by intro x hx; simp at hx; subst hx; exact okSrc_small hq128.1)
  have h0 : ¬ (0 ∈ [q] ++ s.flatMap (pyEscChar tbl) ++ [q]) := by
    intro h
    simp only [List.mem_append, List.mem_singleton] at h
    rcases h with (h | h) | h
    · omega
    · exact (hbody 0 h).2 rfl
    · omega
  have hrun := run_of_runs (runs_flatMap (stepPy q false) (pyEscChar tbl) (fun c => [c]) [q] (· < 0x110000)
      (fun c tail v hc h => py_char q tbl hm c tail v hc h) (Runs.done (by simp [stepPy])) s hs)
  rw [flatMap_single] at hrun
  unfold dec_py
  rw [if_pos ⟨hst, h0⟩]
  simp only [List.cons_append, List.nil_append, hq, if_true]
  split
  · next a b t heq =>
    have hne : ¬ (a = q ∧ b = q) := by
      cases s with
      | nil => simp at heq
      | cons c s' =>
        obtain ⟨a', r, he, hne⟩ := py_head q tbl hm c
        simp only [List.flatMap_cons, he, List.cons_append, List.cons.injEq] at heq
        intro hab
        exact hne (heq.1 ▸ hab.1)
    rw [if_neg hne]
    exact hrun
  · exact hrun

theorem py_needs_false (c : Nat) (h : needsCharPy c = false) : pyEscChar Gen.Lit.pyDouble c = [c] := by
  have hm : PyMode 34 Gen.Lit.pyDouble := Or.inr ⟨rfl, rfl⟩
  rcases py_class c 34 with rfl | rfl | rfl | rfl | rfl | rfl | rfl | rfl | rfl | rfl | h' | h'
  all_goals try (exact absurd h (by decide))
  · have : ¬ c = 7 := by omega
    have : ¬ c = 8 := by omega
    have : ¬ c = 12 := by omega
    have : ¬ c = 10 := by omega
    have : ¬ c = 13 := by omega
    have : ¬ c = 9 := by omega
    have : ¬ c = 11 := by omega
    have : ¬ c = 34 := by omega
    have : ¬ c = 92 := by omega
    have : ¬ c = 0 := by omega
    simp [needsCharPy, *] at h
  · exact pyEsc_raw 34 _ hm c h'

theorem py_needs_true (c : Nat) (h : needsCharPy c = true) : 2 ≤ (pyEscChar Gen.Lit.pyDouble c).length := by
  have hm : PyMode 34 Gen.Lit.pyDouble := Or.inr ⟨rfl, rfl⟩
  rcases py_class c 34 with rfl | rfl | rfl | rfl | rfl | rfl | rfl | rfl | rfl | rfl | h' | h'
  all_goals try decide
  · rw [pyEsc_sur 34 _ hm c h']; simp
  · have := h'.2.2.2.2.2.2.2.2.2.2
    simp [needsCharPy, h'.1, h'.2.1, h'.2.2.1, h'.2.2.2.1, h'.2.2.2.2.1, h'.2.2.2.2.2.1, h'.2.2.2.2.2.2.1,
      h'.2.2.2.2.2.2.2.1, h'.2.2.2.2.2.2.2.2.1, h'.2.2.2.2.2.2.2.2.2.1, this] at h

end AasVerif.Lit
