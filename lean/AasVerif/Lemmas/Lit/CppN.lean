import AasVerif.Lemmas.Lit.Cpp
import AasVerif.Lemmas.Lit.Go
/-! The narrow C++ `string_literal` after the repair of C02-F2: ASCII as before, every other scalar value as the
octal escapes of its UTF-8 bytes, surrogates → `ValueError`. -/
namespace AasVerif.Lit

/-- the text `escCppN` produces outside the error branch -/
def escCppNT (c : Nat) : Text := if c ≤ 127 then escCppW c else (utf8cp c).flatMap octEsc

theorem cppn_eq_all (c : Nat) (hc : okSrc c) : escCppN c = .ok (escCppNT c) := by
  by_cases h : c ≤ 127
  · rw [cppn_eq c h]; simp [escCppNT, h]
  · unfold okSrc at hc
    cpp_ne c
    have : ¬ c < 32 := by omega
    have : ¬ (55296 ≤ c ∧ c ≤ 57343) := by omega
    simp [escCppN, escCppNT, *]

theorem cppn_ok (c : Nat) (hc : okSrc c) : ∃ e, escCppN c = .ok e := ⟨_, cppn_eq_all c hc⟩

theorem okPart_cppn (c : Nat) (hc : okSrc c) : okPart escCppN c = escCppNT c := by
  unfold okPart; rw [cppn_eq_all c hc]

theorem cppn_err_of_surrogate (c : Nat) (h : 0xD800 ≤ c ∧ c ≤ 0xDFFF) : escCppN c = .err "ValueError" := by
  cpp_ne c
  have : ¬ c < 32 := by omega
  have : ¬ c ≤ 127 := by omega
  simp [escCppN, *]

theorem cppn_err_site (c : Nat) (e : String) (h : escCppN c = .err e) : e = "ValueError" := by
  by_cases hs : 0xD800 ≤ c ∧ c ≤ 0xDFFF
  · rw [cppn_err_of_surrogate c hs] at h; injection h with h; exact h.symm
  · by_cases hle : c ≤ 127
    · rw [cppn_eq c hle] at h; cases h
    · cpp_ne c
      have : ¬ c < 32 := by omega
      simp [escCppN, *] at h

theorem fmtOct3_byte (b : Nat) (hb : b < 256) : fmtOct3 b = [48 + b / 64, 48 + b / 8 % 8, 48 + b % 8] := by
  have : b < 512 := by omega
  simp [fmtOct3, *]

/-- the reader takes one octal escape as one byte -/
theorem octEsc_run (b : Nat) (hb : b < 256) (tail : Text) (v : List Nat) (h : Runs (stepCpp false 34) tail v) :
    Runs (stepCpp false 34) (octEsc b ++ tail) (b :: v) := by
  unfold octEsc
  rw [fmtOct3_byte b hb]
  refine Runs.step1 (out := [b]) (rest := tail) ?_ (by len_tac) h rfl
  have := stepCpp_oct false (b / 64) (b / 8 % 8) (b % 8) tail (by omega) (by omega) (by omega)
  simp only [List.cons_append, List.nil_append]
  rw [this]; congr 2; omega

theorem octEsc_small (b : Nat) (hb : b < 256) : ∀ x ∈ octEsc b, x < 128 := by
  unfold octEsc
  rw [fmtOct3_byte b hb]
  intro x hx
  simp only [List.mem_cons, List.not_mem_nil, or_false] at hx
  rcases hx with rfl | rfl | rfl | rfl <;> omega

theorem cppn_char_all (c : Nat) (tail : Text) (v : List Nat) (hc : okSrc c) (h : Runs (stepCpp false 34) tail v) :
    Runs (stepCpp false 34) (escCppNT c ++ tail) (utf8cp c ++ v) := by
  by_cases hle : c ≤ 127
  · have hu : utf8cp c = [c] := by simp [utf8cp]; omega
    have he : escCppNT c = escCppW c := by simp [escCppNT, hle]
    rw [hu, he]
    exact cppn_char c tail v hle h
  · have he : escCppNT c = (utf8cp c).flatMap octEsc := by simp [escCppNT, hle]
    rw [he]
    unfold okSrc at hc
    unfold utf8cp
    have h1 : ¬ c < 128 := by omega
    rw [if_neg h1]
    by_cases h2 : c < 2048
    · rw [if_pos h2]
      simp only [List.flatMap_cons, List.flatMap_nil, List.append_nil, List.append_assoc, List.cons_append,
        List.nil_append]
      exact octEsc_run _ (by omega) _ _ (octEsc_run _ (by omega) _ _ h)
    · rw [if_neg h2]
      by_cases h3 : c < 65536
      · rw [if_pos h3]
        simp only [List.flatMap_cons, List.flatMap_nil, List.append_nil, List.append_assoc, List.cons_append,
          List.nil_append]
        exact octEsc_run _ (by omega) _ _ (octEsc_run _ (by omega) _ _ (octEsc_run _ (by omega) _ _ h))
      · rw [if_neg h3]
        simp only [List.flatMap_cons, List.flatMap_nil, List.append_nil, List.append_assoc, List.cons_append,
          List.nil_append]
        exact octEsc_run _ (by omega) _ _ (octEsc_run _ (by omega) _ _
          (octEsc_run _ (by omega) _ _ (octEsc_run _ (by omega) _ _ h)))

theorem utf8cp_byte (c : Nat) (hc : c < 0x110000) : ∀ b ∈ utf8cp c, b < 256 := by
  intro b hb
  unfold utf8cp at hb
  split at hb
  · simp at hb; omega
  · split at hb
    · simp at hb; omega
    · split at hb
      · simp at hb; omega
      · simp at hb; omega

theorem cppn_okSrc (c : Nat) (hc : okSrc c) : ∀ x ∈ escCppNT c, okSrc x := by
  intro x hx
  unfold escCppNT at hx
  split at hx
  · exact cppw_okSrc c hc.1 x hx
  · rw [List.mem_flatMap] at hx
    obtain ⟨b, hb, hxb⟩ := hx
    exact okSrc_small (octEsc_small b (utf8cp_byte c hc.1 b hb) x hxb)

theorem mapRes_cppn_all (s : Text) (hs : ∀ c ∈ s, okSrc c) : mapRes escCppN s = .ok (s.flatMap escCppNT) := by
  induction s with
  | nil => rfl
  | cons c s ih =>
    simp [mapRes, cppn_eq_all c (hs c (by simp)), ih (fun x hx => hs x (by simp [hx]))]

theorem enc_cppn_ok (s : Text) (hs : ∀ c ∈ s, okSrc c) :
    enc_cppn s = .ok ([34] ++ s.flatMap escCppNT ++ [34]) := by
  unfold enc_cppn
  rw [mapRes_cppn_all s hs]
  simp only [stripped]
  rw [isStripped_quoted 34 _ (by decide)]; rfl

end AasVerif.Lit
