import AasVerif.Lemmas.Lit.Basic
namespace AasVerif.Lit


theorem cs_char (c : Nat) (tail : Text) (v : List Nat) (hc : c < 0x110000) (h : Runs stepCs tail v) :
    Runs stepCs (escCs c ++ tail) (utf16cp c ++ v) := by
  unfold escCs
  split
  · subst_vars; exact Runs.step1 (out := [7]) (rest := tail) (by simp [stepCs, isNewLineCs]) (by len_tac) h (by simp [utf16cp])
  split
  · subst_vars; exact Runs.step1 (out := [8]) (rest := tail) (by simp [stepCs, isNewLineCs]) (by len_tac) h (by simp [utf16cp])
  split
  · subst_vars; exact Runs.step1 (out := [12]) (rest := tail) (by simp [stepCs, isNewLineCs]) (by len_tac) h (by simp [utf16cp])
  split
  · subst_vars; exact Runs.step1 (out := [10]) (rest := tail) (by simp [stepCs, isNewLineCs]) (by len_tac) h (by simp [utf16cp])
  split
  · subst_vars; exact Runs.step1 (out := [13]) (rest := tail) (by simp [stepCs, isNewLineCs]) (by len_tac) h (by simp [utf16cp])
  split
  · subst_vars; exact Runs.step1 (out := [9]) (rest := tail) (by simp [stepCs, isNewLineCs]) (by len_tac) h (by simp [utf16cp])
  split
  · subst_vars; exact Runs.step1 (out := [11]) (rest := tail) (by simp [stepCs, isNewLineCs]) (by len_tac) h (by simp [utf16cp])
  split
  · subst_vars; exact Runs.step1 (out := [34]) (rest := tail) (by simp [stepCs, isNewLineCs]) (by len_tac) h (by simp [utf16cp])
  split
  · subst_vars; exact Runs.step1 (out := [92]) (rest := tail) (by simp [stepCs, isNewLineCs]) (by len_tac) h (by simp [utf16cp])
  split
  · next hnl =>
    have h16 : c < 65536 := by omega
    refine Runs.step1 (out := [c]) (rest := tail) ?_ (by len_tac) h (by simp [utf16cp, h16])
    simp only [List.cons_append, stepCs, isNewLineCs]
    simp [takeHexN4_fmt c tail h16]
  split
  · next hs =>
    have h16 : c < 65536 := by omega
    refine Runs.step1 (out := [c]) (rest := tail) ?_ (by len_tac) h (by simp [utf16cp, h16])
    simp only [List.cons_append, stepCs, isNewLineCs]
    simp [takeHexN4_fmt c tail h16]
  · refine Runs.step1 (out := utf16cp c) (rest := tail) ?_ (by len_tac) h rfl
    simp only [List.cons_append, List.nil_append, stepCs, isNewLineCs]
    simp [*]
    omega

theorem cs_okSrc (c : Nat) (hc : c < 0x110000) : ∀ x ∈ escCs c, okSrc x := by
  intro x hx
  unfold escCs at hx
  repeat' split at hx
  all_goals first
    | (simp only [List.mem_cons, List.not_mem_nil, or_false] at hx
       rcases hx with rfl | rfl <;> exact okSrc_small (by decide))
    | (have h16 : c < 65536 := by omega
       simp only [List.mem_cons] at hx
       rcases hx with rfl | rfl | hx
       · exact okSrc_small (by decide)
       · exact okSrc_small (by decide)
       · exact okSrc_small (fmtHex4_small c h16 x hx))
    | (simp only [List.mem_singleton] at hx; subst hx
       unfold okSrc; omega)

theorem cs_needs_false (c : Nat) (h : needsCharCs c = false) : escCs c = [c] := by
  unfold needsCharCs at h; unfold escCs
  repeat' split at h
  all_goals first | (simp at h; done) | simp [*]

theorem cs_needs_true (c : Nat) (h : needsCharCs c = true) : 2 ≤ (escCs c).length := by
  unfold needsCharCs at h; unfold escCs
  repeat' split at h
  all_goals first | (simp at h; done) | simp [*]

end AasVerif.Lit
