import AasVerif.Lemmas.Lit.Basic
namespace AasVerif.Lit

/-! ### TypeScript, quoted form -/

theorem tsBody_false (s : Text) : tsBody false s = s.flatMap (fun c => escTs false c none) := by
  induction s with
  | nil => rfl
  | cons c s ih =>
    simp only [tsBody, List.flatMap_cons, ih]
    congr 1

theorem tsq_class (c : Nat) :
    c = 92 ∨ c = 8 ∨ c = 9 ∨ c = 10 ∨ c = 11 ∨ c = 12 ∨ c = 13 ∨ c = 34 ∨
    (0xD800 ≤ c ∧ c ≤ 0xDFFF) ∨
    (c ≠ 92 ∧ c ≠ 8 ∧ c ≠ 9 ∧ c ≠ 10 ∧ c ≠ 11 ∧ c ≠ 12 ∧ c ≠ 13 ∧ c ≠ 34 ∧ ¬ (0xD800 ≤ c ∧ c ≤ 0xDFFF)) := by
  omega

macro "ts_ne" c:ident : tactic => `(tactic| (
  have : ¬ 92 = $c := by omega
  have : ¬ 8 = $c := by omega
  have : ¬ 9 = $c := by omega
  have : ¬ 10 = $c := by omega
  have : ¬ 11 = $c := by omega
  have : ¬ 12 = $c := by omega
  have : ¬ 13 = $c := by omega))

theorem escTs_sur (bt : Bool) (c : Nat) (nx : Option Nat) (h : 0xD800 ≤ c ∧ c ≤ 0xDFFF) :
    escTs bt c nx = 92 :: 117 :: 100 :: List.drop 1 (fmtHex 4 c) := by
  ts_ne c
  have h16 : c < 65536 := by omega
  have hd : c / 16 / 16 / 16 % 16 = 13 := by omega
  have h13 : hexDigit 13 = 100 := by decide
  rw [fmtHex4 c h16, hd, h13]
  simp [escTs, lookup, Gen.Lit.tsBase, *]
  rw [fmtHex4 c h16, hd, h13]

theorem escTsQ_raw (c : Nat) (nx : Option Nat)
    (h : c ≠ 92 ∧ c ≠ 8 ∧ c ≠ 9 ∧ c ≠ 10 ∧ c ≠ 11 ∧ c ≠ 12 ∧ c ≠ 13 ∧ c ≠ 34 ∧ ¬ (0xD800 ≤ c ∧ c ≤ 0xDFFF)) :
    escTs false c nx = [c] := by
  ts_ne c
  have : ¬ c = 34 := by omega
  have := h.2.2.2.2.2.2.2.2
  simp [escTs, lookup, Gen.Lit.tsBase, *]

/-- reading `\udXXX` -/
theorem jsEscape_sur (t : Bool) (c : Nat) (tail : Text) (h : 0xD800 ≤ c ∧ c ≤ 0xDFFF) :
    jsEscape t (117 :: 100 :: List.drop 1 (fmtHex 4 c) ++ tail) = .emit [c] tail := by
  have h16 : c < 65536 := by omega
  have hd : c / 16 / 16 / 16 % 16 = 13 := by omega
  have h13 : hexDigit 13 = 100 := by decide
  have := takeHexN4_fmt c tail h16
  rw [fmtHex4 c h16, hd, h13] at this
  rw [fmtHex4 c h16]
  simp only [List.drop_succ_cons, List.drop_zero, List.cons_append, List.nil_append] at this ⊢
  simp [jsEscape, isLineTerminatorJs, this]

theorem tsq_char (c : Nat) (tail : Text) (v : List Nat) (hc : c < 0x110000) (h : Runs stepTsQ tail v) :
    Runs stepTsQ (escTs false c none ++ tail) (utf16cp c ++ v) := by
  rcases tsq_class c with rfl | rfl | rfl | rfl | rfl | rfl | rfl | rfl | h' | h'
  · exact Runs.step1 (out := [92]) (rest := tail) (by simp [escTs, lookup, Gen.Lit.tsBase, stepTsQ, jsEscape, isLineTerminatorJs]) (by simp [escTs, lookup, Gen.Lit.tsBase]; omega) h (by simp [utf16cp])
  · exact Runs.step1 (out := [8]) (rest := tail) (by simp [escTs, lookup, Gen.Lit.tsBase, stepTsQ, jsEscape, isLineTerminatorJs]) (by simp [escTs, lookup, Gen.Lit.tsBase]; omega) h (by simp [utf16cp])
  · exact Runs.step1 (out := [9]) (rest := tail) (by simp [escTs, lookup, Gen.Lit.tsBase, stepTsQ, jsEscape, isLineTerminatorJs]) (by simp [escTs, lookup, Gen.Lit.tsBase]; omega) h (by simp [utf16cp])
  · exact Runs.step1 (out := [10]) (rest := tail) (by simp [escTs, lookup, Gen.Lit.tsBase, stepTsQ, jsEscape, isLineTerminatorJs]) (by simp [escTs, lookup, Gen.Lit.tsBase]; omega) h (by simp [utf16cp])
  · exact Runs.step1 (out := [11]) (rest := tail) (by simp [escTs, lookup, Gen.Lit.tsBase, stepTsQ, jsEscape, isLineTerminatorJs]) (by simp [escTs, lookup, Gen.Lit.tsBase]; omega) h (by simp [utf16cp])
  · exact Runs.step1 (out := [12]) (rest := tail) (by simp [escTs, lookup, Gen.Lit.tsBase, stepTsQ, jsEscape, isLineTerminatorJs]) (by simp [escTs, lookup, Gen.Lit.tsBase]; omega) h (by simp [utf16cp])
  · exact Runs.step1 (out := [13]) (rest := tail) (by simp [escTs, lookup, Gen.Lit.tsBase, stepTsQ, jsEscape, isLineTerminatorJs]) (by simp [escTs, lookup, Gen.Lit.tsBase]; omega) h (by simp [utf16cp])
  · exact Runs.step1 (out := [34]) (rest := tail) (by simp [escTs, lookup, Gen.Lit.tsBase, stepTsQ, jsEscape, isLineTerminatorJs]) (by simp [escTs, lookup, Gen.Lit.tsBase]; omega) h (by simp [utf16cp])
  · rw [escTs_sur false c none h']
    have h16 : c < 65536 := by omega
    refine Runs.step1 (out := [c]) (rest := tail) ?_ (by len_tac) h (by simp [utf16cp, h16])
    have := jsEscape_sur false c tail h'
    simp only [List.cons_append, List.drop_one] at this ⊢
    simp [stepTsQ, this]
  · rw [escTsQ_raw c none h']
    refine Runs.step1 (out := utf16cp c) (rest := tail) ?_ (by len_tac) h rfl
    have : ¬ c = 34 := h'.2.2.2.2.2.2.2.1
    have : ¬ c = 10 := h'.2.2.2.1
    have : ¬ c = 13 := h'.2.2.2.2.2.2.1
    have : ¬ c = 92 := h'.1
    simp [stepTsQ, *]

theorem ts_drop_small (c : Nat) (h16 : c < 65536) : ∀ x ∈ List.drop 1 (fmtHex 4 c), x < 128 := by
  intro x hx
  exact fmtHex4_small c h16 x (List.mem_of_mem_drop hx)

theorem tsq_okSrc (c : Nat) (hc : c < 0x110000) : ∀ x ∈ escTs false c none, okSrc x := by
  intro x hx
  rcases tsq_class c with rfl | rfl | rfl | rfl | rfl | rfl | rfl | rfl | h' | h'
  all_goals try (simp [escTs, lookup, Gen.Lit.tsBase] at hx; exact okSrc_small (by omega))
  · rw [escTs_sur false c none h'] at hx
    simp only [List.mem_cons] at hx
    rcases hx with rfl | rfl | rfl | hx
    · exact okSrc_small (by decide)
    · exact okSrc_small (by decide)
    · exact okSrc_small (by decide)
    · exact okSrc_small (ts_drop_small c (by omega) x hx)
  · rw [escTsQ_raw c none h'] at hx
    simp only [List.mem_singleton] at hx; subst hx
    exact ⟨hc, h'.2.2.2.2.2.2.2.2⟩

/-! ### TypeScript, template form (look-ahead for `${`) -/

theorem tst_class (c : Nat) (nx : Option Nat) :
    c = 92 ∨ c = 8 ∨ c = 9 ∨ c = 10 ∨ c = 11 ∨ c = 12 ∨ c = 13 ∨ c = 96 ∨
    (0xD800 ≤ c ∧ c ≤ 0xDFFF) ∨
    (c = 36 ∧ nx = some 123) ∨ (c = 36 ∧ nx ≠ some 123) ∨
    (c ≠ 92 ∧ c ≠ 8 ∧ c ≠ 9 ∧ c ≠ 10 ∧ c ≠ 11 ∧ c ≠ 12 ∧ c ≠ 13 ∧ c ≠ 96 ∧ c ≠ 36 ∧ ¬ (0xD800 ≤ c ∧ c ≤ 0xDFFF)) := by
  have hA : c = 92 ∨ c = 8 ∨ c = 9 ∨ c = 10 ∨ c = 11 ∨ c = 12 ∨ c = 13 ∨ c = 96 ∨ (0xD800 ≤ c ∧ c ≤ 0xDFFF) ∨ c = 36 ∨
      (c ≠ 92 ∧ c ≠ 8 ∧ c ≠ 9 ∧ c ≠ 10 ∧ c ≠ 11 ∧ c ≠ 12 ∧ c ≠ 13 ∧ c ≠ 96 ∧ c ≠ 36 ∧ ¬ (0xD800 ≤ c ∧ c ≤ 0xDFFF)) := by omega
  rcases hA with h | h | h | h | h | h | h | h | h | h | h
  · exact Or.inl h
  · exact Or.inr (Or.inl h)
  · exact Or.inr (Or.inr (Or.inl h))
  · exact Or.inr (Or.inr (Or.inr (Or.inl h)))
  · exact Or.inr (Or.inr (Or.inr (Or.inr (Or.inl h))))
  · exact Or.inr (Or.inr (Or.inr (Or.inr (Or.inr (Or.inl h)))))
  · exact Or.inr (Or.inr (Or.inr (Or.inr (Or.inr (Or.inr (Or.inl h))))))
  · exact Or.inr (Or.inr (Or.inr (Or.inr (Or.inr (Or.inr (Or.inr (Or.inl h)))))))
  · exact Or.inr (Or.inr (Or.inr (Or.inr (Or.inr (Or.inr (Or.inr (Or.inr (Or.inl h))))))))
  · by_cases hn : nx = some 123
    · exact Or.inr (Or.inr (Or.inr (Or.inr (Or.inr (Or.inr (Or.inr (Or.inr (Or.inr (Or.inl ⟨h, hn⟩)))))))))
    · exact Or.inr (Or.inr (Or.inr (Or.inr (Or.inr (Or.inr (Or.inr (Or.inr (Or.inr (Or.inr (Or.inl ⟨h, hn⟩))))))))))
  · exact Or.inr (Or.inr (Or.inr (Or.inr (Or.inr (Or.inr (Or.inr (Or.inr (Or.inr (Or.inr (Or.inr (h)))))))))))

theorem escTsT_raw (c : Nat) (nx : Option Nat)
    (h : c ≠ 92 ∧ c ≠ 8 ∧ c ≠ 9 ∧ c ≠ 10 ∧ c ≠ 11 ∧ c ≠ 12 ∧ c ≠ 13 ∧ c ≠ 96 ∧ c ≠ 36 ∧ ¬ (0xD800 ≤ c ∧ c ≤ 0xDFFF)) :
    escTs true c nx = [c] := by
  ts_ne c
  have : ¬ c = 96 := by omega
  have : ¬ c = 36 := by omega
  have := h.2.2.2.2.2.2.2.2.2
  simp [escTs, lookup, Gen.Lit.tsBase, *]

theorem escTsT_dollar_raw (nx : Option Nat) (h : nx ≠ some 123) : escTs true 36 nx = [36] := by
  simp [escTs, lookup, Gen.Lit.tsBase, h]

/-- the first character of an escape is `{` only for `{` itself -/
theorem escTsT_head (d : Nat) (nx : Option Nat) : ∃ a r, escTs true d nx = a :: r ∧ (a = 123 → d = 123) := by
  rcases tst_class d nx with rfl | rfl | rfl | rfl | rfl | rfl | rfl | rfl | h' | ⟨rfl, rfl⟩ | ⟨rfl, h'⟩ | h'
  · simp [escTs, lookup, Gen.Lit.tsBase]
  · simp [escTs, lookup, Gen.Lit.tsBase]
  · simp [escTs, lookup, Gen.Lit.tsBase]
  · simp [escTs, lookup, Gen.Lit.tsBase]
  · simp [escTs, lookup, Gen.Lit.tsBase]
  · simp [escTs, lookup, Gen.Lit.tsBase]
  · simp [escTs, lookup, Gen.Lit.tsBase]
  · simp [escTs, lookup, Gen.Lit.tsBase]
  · rw [escTs_sur true d nx h']; exact ⟨92, _, rfl, fun h => absurd h (by decide)⟩
  · simp [escTs, lookup, Gen.Lit.tsBase]
  · rw [escTsT_dollar_raw nx h']; exact ⟨36, [], rfl, fun h => absurd h (by decide)⟩
  · rw [escTsT_raw d nx h']; exact ⟨d, [], rfl, id⟩

theorem tst_head (rest : Text) (a : Nat) (t : Text) (h : tsBody true rest ++ [96] = a :: t) (ha : a = 123) :
    rest.head? = some 123 := by
  cases rest with
  | nil => simp [tsBody] at h; omega
  | cons d rest' =>
    obtain ⟨a', r, he, himp⟩ := escTsT_head d rest'.head?
    simp only [tsBody, he, List.cons_append, List.cons.injEq] at h
    have : d = 123 := himp (by omega)
    simp [this]

theorem tst_char (c : Nat) (rest : Text) (v : List Nat) (hc : c < 0x110000)
    (h : Runs stepTsT (tsBody true rest ++ [96]) v) :
    Runs stepTsT (escTs true c rest.head? ++ (tsBody true rest ++ [96])) (utf16cp c ++ v) := by
  generalize htl : tsBody true rest ++ [96] = tail at h
  rcases tst_class c rest.head? with rfl | rfl | rfl | rfl | rfl | rfl | rfl | rfl | h' | ⟨rfl, hn⟩ | ⟨rfl, hn⟩ | h'
  · exact Runs.step1 (out := [92]) (rest := tail) (by simp [escTs, lookup, Gen.Lit.tsBase, stepTsT, jsEscape, isLineTerminatorJs]) (by simp [escTs, lookup, Gen.Lit.tsBase]; omega) h (by simp [utf16cp])
  · exact Runs.step1 (out := [8]) (rest := tail) (by simp [escTs, lookup, Gen.Lit.tsBase, stepTsT, jsEscape, isLineTerminatorJs]) (by simp [escTs, lookup, Gen.Lit.tsBase]; omega) h (by simp [utf16cp])
  · exact Runs.step1 (out := [9]) (rest := tail) (by simp [escTs, lookup, Gen.Lit.tsBase, stepTsT, jsEscape, isLineTerminatorJs]) (by simp [escTs, lookup, Gen.Lit.tsBase]; omega) h (by simp [utf16cp])
  · exact Runs.step1 (out := [10]) (rest := tail) (by simp [escTs, lookup, Gen.Lit.tsBase, stepTsT, jsEscape, isLineTerminatorJs]) (by simp [escTs, lookup, Gen.Lit.tsBase]; omega) h (by simp [utf16cp])
  · exact Runs.step1 (out := [11]) (rest := tail) (by simp [escTs, lookup, Gen.Lit.tsBase, stepTsT, jsEscape, isLineTerminatorJs]) (by simp [escTs, lookup, Gen.Lit.tsBase]; omega) h (by simp [utf16cp])
  · exact Runs.step1 (out := [12]) (rest := tail) (by simp [escTs, lookup, Gen.Lit.tsBase, stepTsT, jsEscape, isLineTerminatorJs]) (by simp [escTs, lookup, Gen.Lit.tsBase]; omega) h (by simp [utf16cp])
  · exact Runs.step1 (out := [13]) (rest := tail) (by simp [escTs, lookup, Gen.Lit.tsBase, stepTsT, jsEscape, isLineTerminatorJs]) (by simp [escTs, lookup, Gen.Lit.tsBase]; omega) h (by simp [utf16cp])
  · exact Runs.step1 (out := [96]) (rest := tail) (by simp [escTs, lookup, Gen.Lit.tsBase, stepTsT, jsEscape, isLineTerminatorJs, utf16cp]) (by simp [escTs, lookup, Gen.Lit.tsBase]; omega) h (by simp [utf16cp])
  · rw [escTs_sur true c _ h']
    have h16 : c < 65536 := by omega
    refine Runs.step1 (out := [c]) (rest := tail) ?_ (by len_tac) h (by simp [utf16cp, h16])
    have := jsEscape_sur true c tail h'
    simp only [List.cons_append, List.drop_one] at this ⊢
    simp [stepTsT, this]
  · rw [hn]
    exact Runs.step1 (out := [36]) (rest := tail) (by simp [escTs, lookup, Gen.Lit.tsBase, stepTsT, jsEscape, isLineTerminatorJs, utf16cp]) (by simp [escTs, lookup, Gen.Lit.tsBase]; omega) h (by simp [utf16cp])
  · rw [escTsT_dollar_raw _ hn]
    refine Runs.step1 (out := [36]) (rest := tail) ?_ (by len_tac) h (by simp [utf16cp])
    cases htl2 : tail with
    | nil => simp [stepTsT]
    | cons a t =>
      have hne : ¬ a = 123 := fun ha => hn (tst_head rest a t (htl.trans htl2) ha)
      simp [stepTsT, hne]
  · rw [escTsT_raw c _ h']
    refine Runs.step1 (out := utf16cp c) (rest := tail) ?_ (by len_tac) h rfl
    have : ¬ c = 96 := h'.2.2.2.2.2.2.2.1
    have : ¬ c = 36 := h'.2.2.2.2.2.2.2.2.1
    have : ¬ c = 13 := h'.2.2.2.2.2.2.1
    have : ¬ c = 92 := h'.1
    simp [stepTsT, *]

theorem runs_tst (s : Text) (hs : ∀ c ∈ s, c < 0x110000) :
    Runs stepTsT (tsBody true s ++ [96]) (s.flatMap utf16cp) := by
  induction s with
  | nil => exact Runs.done (by simp [tsBody, stepTsT])
  | cons c rest ih =>
    simp only [tsBody, List.flatMap_cons, List.append_assoc]
    exact tst_char c rest _ (hs c (by simp)) (ih (fun x hx => hs x (by simp [hx])))

theorem tst_okSrc_char (c : Nat) (nx : Option Nat) (hc : c < 0x110000) : ∀ x ∈ escTs true c nx, okSrc x := by
  intro x hx
  rcases tst_class c nx with rfl | rfl | rfl | rfl | rfl | rfl | rfl | rfl | h' | ⟨rfl, rfl⟩ | ⟨rfl, hn⟩ | h'
  all_goals try (simp [escTs, lookup, Gen.Lit.tsBase] at hx; exact okSrc_small (by omega))
  · rw [escTs_sur true c nx h'] at hx
    simp only [List.mem_cons] at hx
    rcases hx with rfl | rfl | rfl | hx
    · exact okSrc_small (by decide)
    · exact okSrc_small (by decide)
    · exact okSrc_small (by decide)
    · exact okSrc_small (ts_drop_small c (by omega) x hx)
  · rw [escTsT_dollar_raw nx hn] at hx
    simp only [List.mem_singleton] at hx; subst hx
    exact okSrc_small (by decide)
  · rw [escTsT_raw c nx h'] at hx
    simp only [List.mem_singleton] at hx; subst hx
    exact ⟨hc, h'.2.2.2.2.2.2.2.2.2⟩

theorem tst_okSrc (s : Text) (hs : ∀ c ∈ s, c < 0x110000) : ∀ x ∈ tsBody true s, okSrc x := by
  induction s with
  | nil => intro x hx; simp [tsBody] at hx
  | cons c rest ih =>
    intro x hx
    simp only [tsBody, List.mem_append] at hx
    rcases hx with hx | hx
    · exact tst_okSrc_char c _ (hs c (by simp)) x hx
    · exact ih (fun y hy => hs y (by simp [hy])) x hx

end AasVerif.Lit
