import AasVerif.Lemmas.Lit.Basic
namespace AasVerif.Lit

macro "cpp_ne" c:ident : tactic => `(tactic| (
  have : ¬ $c = 7 := by omega
  have : ¬ $c = 8 := by omega
  have : ¬ $c = 12 := by omega
  have : ¬ $c = 10 := by omega
  have : ¬ $c = 13 := by omega
  have : ¬ $c = 9 := by omega
  have : ¬ $c = 11 := by omega
  have : ¬ $c = 34 := by omega
  have : ¬ $c = 92 := by omega))

theorem cpp_class (c : Nat) :
    c = 7 ∨ c = 8 ∨ c = 12 ∨ c = 10 ∨ c = 13 ∨ c = 9 ∨ c = 11 ∨ c = 34 ∨ c = 92 ∨
    (c < 32 ∧ c ≠ 7 ∧ c ≠ 8 ∧ c ≠ 12 ∧ c ≠ 10 ∧ c ≠ 13 ∧ c ≠ 9 ∧ c ≠ 11) ∨
    (32 ≤ c ∧ c ≤ 127 ∧ c ≠ 34 ∧ c ≠ 92) ∨
    (127 < c ∧ c < 255) ∨
    (0xD800 ≤ c ∧ c ≤ 0xDFFF) ∨
    (255 ≤ c ∧ c < 65536 ∧ ¬ (0xD800 ≤ c ∧ c ≤ 0xDFFF)) ∨
    65536 ≤ c := by omega

theorem escCppW_c0 (c : Nat) (h : c < 32 ∧ c ≠ 7 ∧ c ≠ 8 ∧ c ≠ 12 ∧ c ≠ 10 ∧ c ≠ 13 ∧ c ≠ 9 ∧ c ≠ 11) :
    escCppW c = [92, 48 + c / 64, 48 + c / 8 % 8, 48 + c % 8] := by
  have : ¬ c = 34 := by omega
  have : ¬ c = 92 := by omega
  have : c < 512 := by omega
  simp [escCppW, fmtOct3, *]

theorem escCppW_ascii (c : Nat) (h : 32 ≤ c ∧ c ≤ 127 ∧ c ≠ 34 ∧ c ≠ 92) : escCppW c = [c] := by
  cpp_ne c
  have : ¬ c < 32 := by omega
  simp [escCppW, *]

theorem escCppW_latin (c : Nat) (h : 127 < c ∧ c < 255) :
    escCppW c = [92, 48 + c / 64, 48 + c / 8 % 8, 48 + c % 8] := by
  cpp_ne c
  have : ¬ c < 32 := by omega
  have : ¬ c ≤ 127 := by omega
  have : c < 512 := by omega
  simp [escCppW, fmtOct3, *]

theorem escCppW_sur (c : Nat) (h : 0xD800 ≤ c ∧ c ≤ 0xDFFF) :
    escCppW c = [92, 120] ++ fmtHex 4 c ++ [34, 32, 76, 34] := by
  cpp_ne c
  have : ¬ c < 32 := by omega
  have : ¬ c ≤ 127 := by omega
  have : ¬ (127 < c ∧ c < 255) := by omega
  simp [escCppW, *]

theorem escCppW_bmp (c : Nat) (h : 255 ≤ c ∧ c < 65536 ∧ ¬ (0xD800 ≤ c ∧ c ≤ 0xDFFF)) :
    escCppW c = 92 :: 117 :: fmtHex 4 c := by
  cpp_ne c
  have : ¬ c < 32 := by omega
  have : ¬ c ≤ 127 := by omega
  have : ¬ (127 < c ∧ c < 255) := by omega
  have := h.2.2
  have : 255 ≤ c ∧ c < 65536 := ⟨h.1, h.2.1⟩
  simp [escCppW, *]

theorem escCppW_astral (c : Nat) (h : 65536 ≤ c) : escCppW c = 92 :: 85 :: fmtHex 8 c := by
  cpp_ne c
  have : ¬ c < 32 := by omega
  have : ¬ c ≤ 127 := by omega
  have : ¬ (127 < c ∧ c < 255) := by omega
  have : ¬ (0xD800 ≤ c ∧ c ≤ 0xDFFF) := by omega
  have : ¬ (255 ≤ c ∧ c < 65536) := by omega
  simp [escCppW, *]

theorem octVal_digit : ∀ d, d < 8 → octVal? (48 + d) = some d := by decide

/-- reading a three-digit octal escape -/
theorem stepCpp_oct (wide : Bool) (d1 d2 d3 : Nat) (tail : Text) (h1 : d1 < 4) (h2 : d2 < 8) (h3 : d3 < 8) :
    stepCpp wide 34 (92 :: (48 + d1) :: (48 + d2) :: (48 + d3) :: tail) = .emit [(d1 * 8 + d2) * 8 + d3] tail := by
  have e1 : octVal? (48 + d1) = some d1 := octVal_digit d1 (by omega)
  have e2 : octVal? (48 + d2) = some d2 := octVal_digit d2 h2
  have e3 : octVal? (48 + d3) = some d3 := octVal_digit d3 h3
  have : ¬ 48 + d1 = 39 := by omega
  have : ¬ 48 + d1 = 34 := by omega
  have : ¬ 48 + d1 = 63 := by omega
  have : ¬ 48 + d1 = 92 := by omega
  have : ¬ 48 + d1 = 97 := by omega
  have : ¬ 48 + d1 = 98 := by omega
  have : ¬ 48 + d1 = 102 := by omega
  have : ¬ 48 + d1 = 110 := by omega
  have : ¬ 48 + d1 = 114 := by omega
  have : ¬ 48 + d1 = 116 := by omega
  have : ¬ 48 + d1 = 118 := by omega
  have : ¬ 48 + d1 = 120 := by omega
  have : ¬ (48 + d1 = 117 ∨ 48 + d1 = 85) := by omega
  have hv : (d1 * 8 + d2) * 8 + d3 < 256 := by omega
  simp [stepCpp, takeOctUpTo, *]

theorem takeHexGreedy4 (n c : Nat) (t : Text) (h : c < 65536) :
    takeHexGreedy (n + 5) 0 0 (fmtHex 4 c ++ 34 :: t) = (4, c, 34 :: t) := by
  rw [fmtHex4 c h]
  have h34 : hexVal? 34 = none := by decide
  simp only [List.cons_append, List.nil_append, takeHexGreedy, hexVal_hexDigit_mod, h34]
  congr 2; omega

theorem cppw_char (c : Nat) (tail : Text) (v : List Nat) (hc : c < 0x110000) (h : Runs (stepCpp true 34) tail v) :
    Runs (stepCpp true 34) (escCppW c ++ tail) ([c] ++ v) := by
  rcases cpp_class c with rfl | rfl | rfl | rfl | rfl | rfl | rfl | rfl | rfl | h' | h' | h' | h' | h' | h'
  · exact Runs.step1 (out := [7]) (rest := tail) (by simp [escCppW, stepCpp]) (by simp [escCppW]; omega) h rfl
  · exact Runs.step1 (out := [8]) (rest := tail) (by simp [escCppW, stepCpp]) (by simp [escCppW]; omega) h rfl
  · exact Runs.step1 (out := [12]) (rest := tail) (by simp [escCppW, stepCpp]) (by simp [escCppW]; omega) h rfl
  · exact Runs.step1 (out := [10]) (rest := tail) (by simp [escCppW, stepCpp]) (by simp [escCppW]; omega) h rfl
  · exact Runs.step1 (out := [13]) (rest := tail) (by simp [escCppW, stepCpp]) (by simp [escCppW]; omega) h rfl
  · exact Runs.step1 (out := [9]) (rest := tail) (by simp [escCppW, stepCpp]) (by simp [escCppW]; omega) h rfl
  · exact Runs.step1 (out := [11]) (rest := tail) (by simp [escCppW, stepCpp]) (by simp [escCppW]; omega) h rfl
  · exact Runs.step1 (out := [34]) (rest := tail) (by simp [escCppW, stepCpp]) (by simp [escCppW]; omega) h rfl
  · exact Runs.step1 (out := [92]) (rest := tail) (by simp [escCppW, stepCpp]) (by simp [escCppW]; omega) h rfl
  · rw [escCppW_c0 c h']
    refine Runs.step1 (out := [c]) (rest := tail) ?_ (by len_tac) h rfl
    have := stepCpp_oct true (c / 64) (c / 8 % 8) (c % 8) tail (by omega) (by omega) (by omega)
    simp only [List.cons_append, List.nil_append]
    rw [this]; congr 2; omega
  · rw [escCppW_ascii c h']
    refine Runs.step1 (out := [c]) (rest := tail) ?_ (by len_tac) h rfl
    have : ¬ c = 34 := h'.2.2.1
    have : ¬ c = 92 := h'.2.2.2
    have : ¬ c < 32 := by omega
    simp [stepCpp, *]
  · rw [escCppW_latin c h']
    refine Runs.step1 (out := [c]) (rest := tail) ?_ (by len_tac) h rfl
    have := stepCpp_oct true (c / 64) (c / 8 % 8) (c % 8) tail (by omega) (by omega) (by omega)
    simp only [List.cons_append, List.nil_append]
    rw [this]; congr 2; omega
  · rw [escCppW_sur c h']
    have h16 : c < 65536 := by omega
    have hlen : (fmtHex 4 c ++ [34, 32, 76, 34] ++ tail).length = (tail.length + 3) + 5 := by
      rw [fmtHex4 c h16]; simp
    refine Runs.step1 (out := [c]) (rest := 34 :: 32 :: 76 :: 34 :: tail) ?_ (by len_tac) ?_ rfl
    · have hg := takeHexGreedy4 (tail.length + 3) c (32 :: 76 :: 34 :: tail) h16
      simp only [List.cons_append, List.nil_append, List.append_assoc, stepCpp] at hlen ⊢
      simp [hlen, hg]
      omega
    · exact Runs.step1 (out := []) (rest := tail) (by simp [stepCpp, skipWs]) (by len_tac) h rfl
  · rw [escCppW_bmp c h']
    have h16 : c < 65536 := by omega
    refine Runs.step1 (out := [c]) (rest := tail) ?_ (by len_tac) h rfl
    simp only [List.cons_append, stepCpp]
    have : ¬ c < 160 := by omega
    simp [takeHexN4_fmt c tail h16, isSurrogate, h'.2.2, *]
  · rw [escCppW_astral c h']
    have h32 : c < 4294967296 := by omega
    refine Runs.step1 (out := [c]) (rest := tail) ?_ (by len_tac) h rfl
    simp only [List.cons_append, stepCpp]
    have : ¬ c < 160 := by omega
    have : ¬ (55296 ≤ c ∧ c ≤ 57343) := by omega
    simp [takeHexN8_fmt c tail h32, isSurrogate, *]

theorem cppw_okSrc (c : Nat) (hc : c < 0x110000) : ∀ x ∈ escCppW c, okSrc x := by
  intro x hx
  rcases cpp_class c with rfl | rfl | rfl | rfl | rfl | rfl | rfl | rfl | rfl | h' | h' | h' | h' | h' | h'
  all_goals try (simp [escCppW] at hx; exact okSrc_small (by omega))
  · rw [escCppW_c0 c h'] at hx
    simp only [List.mem_cons, List.not_mem_nil, or_false] at hx
    exact okSrc_small (by omega)
  · rw [escCppW_ascii c h'] at hx
    simp only [List.mem_singleton] at hx; subst hx
    exact okSrc_small (by omega)
  · rw [escCppW_latin c h'] at hx
    simp only [List.mem_cons, List.not_mem_nil, or_false] at hx
    exact okSrc_small (by omega)
  · rw [escCppW_sur c h'] at hx
    simp only [List.mem_append, List.mem_cons, List.not_mem_nil, or_false] at hx
    rcases hx with (hx | hx) | hx
    · exact okSrc_small (by omega)
    · exact okSrc_small (fmtHex4_small c (by omega) x hx)
    · exact okSrc_small (by omega)
  · rw [escCppW_bmp c h'] at hx
    simp only [List.mem_cons] at hx
    rcases hx with rfl | rfl | hx
    · exact okSrc_small (by decide)
    · exact okSrc_small (by decide)
    · exact okSrc_small (fmtHex4_small c (by omega) x hx)
  · rw [escCppW_astral c h'] at hx
    simp only [List.mem_cons] at hx
    rcases hx with rfl | rfl | hx
    · exact okSrc_small (by decide)
    · exact okSrc_small (by decide)
    · exact okSrc_small (fmtHex8_small c (by omega) x hx)

/-! ### narrow literals: ASCII only -/

theorem cppn_eq (c : Nat) (hc : c ≤ 127) : escCppN c = .ok (escCppW c) := by
  rcases cpp_class c with rfl | rfl | rfl | rfl | rfl | rfl | rfl | rfl | rfl | h' | h' | h' | h' | h' | h'
  any_goals rfl
  · rw [escCppW_c0 c h']
    have : ¬ c = 34 := by omega
    have : ¬ c = 92 := by omega
    have : c < 512 := by omega
    simp [escCppN, fmtOct3, *]
  · rw [escCppW_ascii c h']
    cpp_ne c
    have : ¬ c < 32 := by omega
    simp [escCppN, *]
  all_goals omega

theorem mapRes_cppn (s : Text) (hs : ∀ c ∈ s, c ≤ 127) : mapRes escCppN s = .ok (s.flatMap escCppW) := by
  induction s with
  | nil => rfl
  | cons c s ih =>
    simp [mapRes, cppn_eq c (hs c (by simp)), ih (fun x hx => hs x (by simp [hx]))]

theorem cppn_char (c : Nat) (tail : Text) (v : List Nat) (hc : c ≤ 127) (h : Runs (stepCpp false 34) tail v) :
    Runs (stepCpp false 34) (escCppW c ++ tail) ([c] ++ v) := by
  rcases cpp_class c with rfl | rfl | rfl | rfl | rfl | rfl | rfl | rfl | rfl | h' | h' | h' | h' | h' | h'
  · exact Runs.step1 (out := [7]) (rest := tail) (by simp [escCppW, stepCpp]) (by simp [escCppW]; omega) h rfl
  · exact Runs.step1 (out := [8]) (rest := tail) (by simp [escCppW, stepCpp]) (by simp [escCppW]; omega) h rfl
  · exact Runs.step1 (out := [12]) (rest := tail) (by simp [escCppW, stepCpp]) (by simp [escCppW]; omega) h rfl
  · exact Runs.step1 (out := [10]) (rest := tail) (by simp [escCppW, stepCpp]) (by simp [escCppW]; omega) h rfl
  · exact Runs.step1 (out := [13]) (rest := tail) (by simp [escCppW, stepCpp]) (by simp [escCppW]; omega) h rfl
  · exact Runs.step1 (out := [9]) (rest := tail) (by simp [escCppW, stepCpp]) (by simp [escCppW]; omega) h rfl
  · exact Runs.step1 (out := [11]) (rest := tail) (by simp [escCppW, stepCpp]) (by simp [escCppW]; omega) h rfl
  · exact Runs.step1 (out := [34]) (rest := tail) (by simp [escCppW, stepCpp]) (by simp [escCppW]; omega) h rfl
  · exact Runs.step1 (out := [92]) (rest := tail) (by simp [escCppW, stepCpp]) (by simp [escCppW]; omega) h rfl
  · rw [escCppW_c0 c h']
    refine Runs.step1 (out := [c]) (rest := tail) ?_ (by len_tac) h rfl
    have := stepCpp_oct false (c / 64) (c / 8 % 8) (c % 8) tail (by omega) (by omega) (by omega)
    simp only [List.cons_append, List.nil_append]
    rw [this]; congr 2; omega
  · rw [escCppW_ascii c h']
    refine Runs.step1 (out := [c]) (rest := tail) ?_ (by len_tac) h rfl
    have : ¬ c = 34 := h'.2.2.1
    have : ¬ c = 92 := h'.2.2.2
    have : ¬ c < 32 := by omega
    have : c < 128 := by omega
    simp [stepCpp, utf8cp, *]
  all_goals omega

def needsCharCpp (c : Nat) : Bool := needsStepCpp c == some true

theorem cpp_needs_false (c : Nat) (h : needsCharCpp c = false) : escCppW c = [c] := by
  unfold needsCharCpp at h
  rcases cpp_class c with rfl | rfl | rfl | rfl | rfl | rfl | rfl | rfl | rfl | h' | h' | h' | h' | h' | h'
  all_goals try (exact absurd h (by decide))
  · have : ¬ c = 34 := by omega
    have : ¬ c = 92 := by omega
    simp [needsStepCpp, *] at h
  · exact escCppW_ascii c h'
  · cpp_ne c
    have : ¬ c < 32 := by omega
    have : ¬ c ≤ 127 := by omega
    simp [needsStepCpp, *] at h
  · cpp_ne c
    have : ¬ c < 32 := by omega
    have : ¬ c ≤ 127 := by omega
    have : ¬ (127 < c ∧ c < 255) := by omega
    have : 255 ≤ c ∧ c < 65536 := by omega
    simp [needsStepCpp, *] at h
  · cpp_ne c
    have : ¬ c < 32 := by omega
    have : ¬ c ≤ 127 := by omega
    have : ¬ (127 < c ∧ c < 255) := by omega
    have : 255 ≤ c ∧ c < 65536 := by omega
    simp [needsStepCpp, *] at h
  · cpp_ne c
    have : ¬ c < 32 := by omega
    have : ¬ c ≤ 127 := by omega
    have : ¬ (127 < c ∧ c < 255) := by omega
    have : ¬ (255 ≤ c ∧ c < 65536) := by omega
    simp [needsStepCpp, *] at h

theorem cpp_needs_true (c : Nat) (h : needsCharCpp c = true) : 2 ≤ (escCppW c).length := by
  unfold needsCharCpp at h
  rcases cpp_class c with rfl | rfl | rfl | rfl | rfl | rfl | rfl | rfl | rfl | h' | h' | h' | h' | h' | h'
  all_goals try decide
  · rw [escCppW_c0 c h']; simp
  · cpp_ne c
    have : ¬ c < 32 := by omega
    have : c ≤ 127 := by omega
    simp [needsStepCpp, *] at h
  · rw [escCppW_latin c h']; simp
  · rw [escCppW_sur c h']; simp
  · rw [escCppW_bmp c h']; simp
  · rw [escCppW_astral c h']; simp

end AasVerif.Lit
