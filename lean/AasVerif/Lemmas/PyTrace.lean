import AasVerif.Model.EvalOrder
import AasVerif.Lemmas.PyEmit
/-!
C08 (b), evaluation order: the emitted expression performs the same operations, on the same
values, in the same order as the source expression (`trace_preserves`), in every environment.
-/
namespace AasVerif.PyEmit
open AasVerif AasVerif.Expr

@[simp] theorem trace_paren (ρ : Env) (x : PyExpr) : PyExpr.trace ρ (.paren x) = PyExpr.trace ρ x := by
  simp [PyExpr.trace]

@[simp] theorem trace_parenUnless (ρ : Env) (tbl : List Kind) (c : Expr) (x : PyExpr) :
    PyExpr.trace ρ (parenUnless tbl c x) = PyExpr.trace ρ x := by
  unfold parenUnless; split <;> simp

theorem truthy_bool (f : FloatOps) (b : Bool) : Val.truthy f (.bool b) = b := rfl

theorem trace_const (ρ : Env) (c : Const) (h : noNan (.const c) = true) :
    PyExpr.trace ρ (transpileConst c) = [] := by
  cases c with
  | bool b => cases b <;> simp [transpileConst, PyExpr.trace]
  | int i => simp only [transpileConst]; split <;> simp [PyExpr.trace]
  | str s => simp [transpileConst, PyExpr.trace]
  | float r =>
    simp only [noNan] at h
    have key : ∀ t : Text, t ≠ [110, 97, 110] → PyExpr.trace ρ (floatAtom t) = [] := by
      intro t ht; simp [floatAtom, ht, PyExpr.trace]
    simp only [transpileConst]
    match r, h with
    | 45 :: t, h =>
      simp only [floatOK, Bool.and_eq_true, Bool.not_eq_eq_eq_not, Bool.not_true, beq_eq_false_iff_ne] at h
      simp [PyExpr.trace, key t (by simpa using h.1)]
    | [], h => simp [floatAtom, PyExpr.trace]
    | c :: t, h =>
      by_cases hc : c = 45
      · subst hc
        simp only [floatOK, Bool.and_eq_true, Bool.not_eq_eq_eq_not, Bool.not_true, beq_eq_false_iff_ne] at h
        simp [PyExpr.trace, key t (by simpa using h.1)]
      · have h' : (c :: t) ≠ [110, 97, 110] := by
          unfold floatOK at h
          split at h
          · next heq => simp at heq; exact absurd heq.1 hc
          · intro hh; simp [hh] at h
        split
        · next heq => simp at heq; exact absurd heq.1 hc
        · exact key _ h'

theorem trace_name (cfg : Cfg) (vs : List Text) (n : Text) (x : PyExpr)
    (h : transpileName cfg vs n = .ok x) (ρ : Env) : PyExpr.trace ρ x = [evLoad ρ n] := by
  unfold transpileName at h
  split at h
  · split at h
    · cases h
    · cases h; simp [PyExpr.trace]
  · split at h
    · next hs => cases h; subst hs; simp [PyExpr.trace]
    · split at h <;> first | (cases h; simp [PyExpr.trace]) | cases h

theorem traceParts_noFv (ρ : Env) : ∀ ps : List JPart, hasFv ps = false → Expr.traceParts ρ ps = []
  | [], _ => by simp [Expr.traceParts]
  | .lit s :: ps, h => by
    simp only [hasFv] at h
    simp [Expr.traceParts, traceParts_noFv ρ ps h]
  | .fv _ :: ps, h => by simp [hasFv] at h

mutual
  theorem trace_preserves (cfg : Cfg) : ∀ (e : Expr) (vs : List Text) (x : PyExpr), noNan e = true →
      transpile cfg vs e = .ok x → ∀ ρ : Env, PyExpr.trace ρ x = Expr.trace ρ e
    | .name n, vs, x, _, h, ρ => by
      simp only [transpile] at h
      simp only [trace_name cfg vs n x h ρ, Expr.trace]
    | .const c, vs, x, hn, h, ρ => by
      simp only [transpile] at h
      cases h
      simp [trace_const ρ c hn, Expr.trace]
    | .member inst n, vs, x, hn, h, ρ => by
      simp only [transpile, Res.bind_eq_ok] at h
      obtain ⟨i', hi, h⟩ := h
      simp only [noNan] at hn
      split at h
      · cases h
        simp only [PyExpr.trace, Expr.trace, trace_preserves cfg inst vs i' hn hi ρ, preserves cfg inst vs i' hn hi ρ]
      · cases h
    | .index c i, vs, x, hn, h, ρ => by
      simp only [transpile, Res.bind_eq_ok] at h
      obtain ⟨c', hc, i', hi, h⟩ := h
      simp only [noNan, Bool.and_eq_true] at hn
      cases h
      simp only [PyExpr.trace, Expr.trace, trace_parenUnless, eval_parenUnless,
        trace_preserves cfg c vs c' hn.1 hc ρ, trace_preserves cfg i vs i' hn.2 hi ρ,
        preserves cfg c vs c' hn.1 hc ρ, preserves cfg i vs i' hn.2 hi ρ]
    | .cmp l op r, vs, x, hn, h, ρ => by
      simp only [transpile, Res.bind_eq_ok, emitCmp_ok] at h
      obtain ⟨o, ho, l', hl, r', hr, h⟩ := h
      cases ho
      simp only [noNan, Bool.and_eq_true] at hn
      split at h <;> cases h <;>
        simp only [PyExpr.trace, Expr.trace, trace_paren, eval_paren, cmpEvent,
          trace_preserves cfg l vs l' hn.1 hl ρ, trace_preserves cfg r vs r' hn.2 hr ρ,
          preserves cfg l vs l' hn.1 hl ρ, preserves cfg r vs r' hn.2 hr ρ]
    | .isIn m c, vs, x, hn, h, ρ => by
      simp only [transpile, Res.bind_eq_ok] at h
      obtain ⟨m', hm, c', hc, h⟩ := h
      simp only [noNan, Bool.and_eq_true] at hn
      cases h
      simp only [PyExpr.trace, Expr.trace, trace_parenUnless, eval_parenUnless, cmpEvent,
        trace_preserves cfg m vs m' hn.1 hm ρ, trace_preserves cfg c vs c' hn.2 hc ρ,
        preserves cfg m vs m' hn.1 hm ρ, preserves cfg c vs c' hn.2 hc ρ]
    | .impl a c, vs, x, hn, h, ρ => by
      simp only [transpile, Res.bind_eq_ok] at h
      obtain ⟨a', ha, c', hc, h⟩ := h
      simp only [noNan, Bool.and_eq_true] at hn
      cases h
      simp only [PyExpr.trace, PyEmit.traceBool, PyExpr.eval, Expr.trace, trace_parenUnless, eval_parenUnless,
        trace_preserves cfg a vs a' hn.1 ha ρ, trace_preserves cfg c vs c' hn.2 hc ρ,
        preserves cfg a vs a' hn.1 ha ρ]
      cases hA : Expr.eval ρ a with
      | val v =>
        simp only [onVal_val, Out.ofBool, truthy_bool]
        cases ht : v.truthy ρ.fops <;> simp
      | _ => simp [onVal]
    | .methodCall inst n args, vs, x, hn, h, ρ => by
      simp only [transpile, Res.bind_eq_ok] at h
      obtain ⟨i', hi, as', has, h⟩ := h
      simp only [noNan, Bool.and_eq_true] at hn
      cases h
      simp only [PyExpr.trace, Expr.trace, trace_parenUnless, eval_parenUnless,
        trace_preserves cfg inst vs i' hn.1 hi ρ, preserves cfg inst vs i' hn.1 hi ρ,
        trace_preservesArgs cfg args vs as' hn.2 has ρ, preservesArgs cfg args vs as' hn.2 has ρ]
    | .funCall n args, vs, x, hn, h, ρ => by
      simp only [transpile, Res.bind_eq_ok] at h
      obtain ⟨as', has, h⟩ := h
      simp only [noNan] at hn
      have ihA := trace_preservesArgs cfg args vs as' hn has ρ
      have ihE := preservesArgs cfg args vs as' hn has ρ
      split at h
      · cases h
      · cases h; simp only [PyExpr.trace, Expr.trace, ihA, ihE]
      · split at h
        · split at h
          · cases h; simp only [PyExpr.trace, Expr.trace, ihA, ihE]
          · cases h
        · cases h
      · cases h
    | .isNone e, vs, x, hn, h, ρ => by
      simp only [transpile, Res.bind_eq_ok] at h
      obtain ⟨e', he, h⟩ := h
      simp only [noNan] at hn
      cases h
      simp [PyExpr.trace, Expr.trace, cmpEvent, onVal, trace_preserves cfg e vs e' hn he ρ]
      cases PyExpr.eval ρ e' <;> simp [PyExpr.eval]
    | .isNotNone e, vs, x, hn, h, ρ => by
      simp only [transpile, Res.bind_eq_ok] at h
      obtain ⟨e', he, h⟩ := h
      simp only [noNan] at hn
      cases h
      simp [PyExpr.trace, Expr.trace, cmpEvent, onVal, trace_preserves cfg e vs e' hn he ρ]
      cases PyExpr.eval ρ e' <;> simp [PyExpr.eval]
    | .not e, vs, x, hn, h, ρ => by
      simp only [transpile, Res.bind_eq_ok] at h
      obtain ⟨e', he, h⟩ := h
      simp only [noNan] at hn
      cases h
      simp only [PyExpr.trace, Expr.trace, trace_parenUnless, trace_preserves cfg e vs e' hn he ρ]
    | .and es, vs, x, hn, h, ρ => by
      simp only [transpile, Res.bind_eq_ok] at h
      obtain ⟨vals, hv, h⟩ := h
      simp only [noNan] at hn
      have ih := trace_preservesVals cfg true es vs vals hn hv ρ
      split at h
      · cases h
      · cases h; simp only [PyEmit.traceBool] at ih; simp only [Expr.trace]; exact ih
      · cases h; simp only [PyExpr.trace, Expr.trace, trace_paren]; exact ih
    | .or es, vs, x, hn, h, ρ => by
      simp only [transpile, Res.bind_eq_ok] at h
      obtain ⟨vals, hv, h⟩ := h
      simp only [noNan] at hn
      have ih := trace_preservesVals cfg false es vs vals hn hv ρ
      split at h
      · cases h
      · cases h; simp only [PyEmit.traceBool] at ih; simp only [Expr.trace]; exact ih
      · cases h; simp only [PyExpr.trace, Expr.trace, trace_paren]; exact ih
    | .add l r, vs, x, hn, h, ρ => by
      simp only [transpile, Res.bind_eq_ok] at h
      obtain ⟨l', hl, r', hr, h⟩ := h
      simp only [noNan, Bool.and_eq_true] at hn
      cases h
      simp only [PyExpr.trace, Expr.trace, trace_parenUnless, eval_parenUnless,
        trace_preserves cfg l vs l' hn.1 hl ρ, trace_preserves cfg r vs r' hn.2 hr ρ,
        preserves cfg l vs l' hn.1 hl ρ, preserves cfg r vs r' hn.2 hr ρ]
    | .sub l r, vs, x, hn, h, ρ => by
      simp only [transpile, Res.bind_eq_ok] at h
      obtain ⟨l', hl, r', hr, h⟩ := h
      simp only [noNan, Bool.and_eq_true] at hn
      cases h
      simp only [PyExpr.trace, Expr.trace, trace_parenUnless, eval_parenUnless,
        trace_preserves cfg l vs l' hn.1 hl ρ, trace_preserves cfg r vs r' hn.2 hr ρ,
        preserves cfg l vs l' hn.1 hl ρ, preserves cfg r vs r' hn.2 hr ρ]
    | .joinedStr ps, vs, x, hn, h, ρ => by
      simp only [transpile] at h
      simp only [noNan] at hn
      split at h
      · simp only [Res.bind_eq_ok] at h
        obtain ⟨ps', hp, h⟩ := h
        cases h
        simp only [PyExpr.trace, Expr.trace]
        exact trace_preservesParts cfg ps vs ps' hn hp ρ
      · next hf =>
        cases h
        simp only [PyExpr.trace, Expr.trace]
        exact (traceParts_noFv ρ ps (by simpa using hf)).symm
    | .any g c, vs, x, hn, h, ρ => by
      simp only [transpile, Res.bind_eq_ok] at h
      obtain ⟨⟨v, it⟩, hg, c', hc, h⟩ := h
      simp only [noNan, Bool.and_eq_true] at hn
      cases h
      have ihg := preservesGen cfg g vs v it hn.1 hg ρ
      have ihc : ∀ ρ', PyExpr.eval ρ' c' = Expr.eval ρ' c := preserves cfg c (v :: vs) c' hn.2 hc
      have iht : ∀ ρ', PyExpr.trace ρ' c' = Expr.trace ρ' c := trace_preserves cfg c (v :: vs) c' hn.2 hc
      simp only [PyExpr.trace, Expr.trace, ihg, ihc, iht, trace_preservesGen cfg g vs v it hn.1 hg ρ]
      cases PyEmit.evalIter ρ it <;> simp [toGenRes]
    | .all g c, vs, x, hn, h, ρ => by
      simp only [transpile, Res.bind_eq_ok] at h
      obtain ⟨⟨v, it⟩, hg, c', hc, h⟩ := h
      simp only [noNan, Bool.and_eq_true] at hn
      cases h
      have ihg := preservesGen cfg g vs v it hn.1 hg ρ
      have ihc : ∀ ρ', PyExpr.eval ρ' c' = Expr.eval ρ' c := preserves cfg c (v :: vs) c' hn.2 hc
      have iht : ∀ ρ', PyExpr.trace ρ' c' = Expr.trace ρ' c := trace_preserves cfg c (v :: vs) c' hn.2 hc
      simp only [PyExpr.trace, Expr.trace, ihg, ihc, iht, trace_preservesGen cfg g vs v it hn.1 hg ρ]
      cases PyEmit.evalIter ρ it <;> simp [toGenRes]
  theorem trace_preservesGen (cfg : Cfg) : ∀ (g : Gen) (vs : List Text) (v : Text) (it : PyIter), noNanGen g = true →
      transpileGen cfg vs g = .ok (v, it) → ∀ ρ : Env, traceIter ρ it = Expr.traceGen ρ g
    | .forEach y e, vs, v, it, hn, h, ρ => by
      simp only [transpileGen, Res.bind_eq_ok] at h
      obtain ⟨e', he, h⟩ := h
      simp only [noNanGen] at hn
      cases h
      simp only [traceIter, Expr.traceGen, trace_parenUnless, eval_parenUnless,
        trace_preserves cfg e vs e' hn he ρ, preserves cfg e vs e' hn he ρ]
    | .forRange y a b, vs, v, it, hn, h, ρ => by
      simp only [transpileGen, Res.bind_eq_ok] at h
      obtain ⟨a', ha, b', hb, h⟩ := h
      simp only [noNanGen, Bool.and_eq_true] at hn
      cases h
      simp only [traceIter, Expr.traceGen, trace_preserves cfg a vs a' hn.1 ha ρ, trace_preserves cfg b vs b' hn.2 hb ρ,
        preserves cfg a vs a' hn.1 ha ρ, preserves cfg b vs b' hn.2 hb ρ]
  theorem trace_preservesArgs (cfg : Cfg) : ∀ (es : List Expr) (vs : List Text) (xs : List PyExpr), noNanList es = true →
      transpileArgs cfg vs es = .ok xs → ∀ ρ : Env, PyEmit.traceArgs ρ xs = Expr.traceArgs ρ es
    | [], vs, xs, _, h, ρ => by
      simp only [transpileArgs] at h; cases h; simp [PyEmit.traceArgs, Expr.traceArgs]
    | e :: es, vs, xs, hn, h, ρ => by
      simp only [transpileArgs, Res.bind_eq_ok] at h
      obtain ⟨e', he, es', hes, h⟩ := h
      simp only [noNanList, Bool.and_eq_true] at hn
      cases h
      simp only [PyEmit.traceArgs, Expr.traceArgs, trace_preserves cfg e vs e' hn.1 he ρ, preserves cfg e vs e' hn.1 he ρ,
        trace_preservesArgs cfg es vs es' hn.2 hes ρ]
  theorem trace_preservesVals (cfg : Cfg) (isAnd : Bool) : ∀ (es : List Expr) (vs : List Text) (xs : List PyExpr),
      noNanList es = true → transpileVals cfg vs es = .ok xs → ∀ ρ : Env,
      PyEmit.traceBool ρ isAnd xs = (if isAnd then Expr.traceAnd ρ es else Expr.traceOr ρ es)
    | [], vs, xs, _, h, ρ => by
      simp only [transpileVals] at h; cases h; cases isAnd <;> simp [PyEmit.traceBool, Expr.traceAnd, Expr.traceOr]
    | [e], vs, xs, hn, h, ρ => by
      simp only [transpileVals, Res.bind_eq_ok] at h
      obtain ⟨e', he, es', hes, h⟩ := h
      simp only [noNanList, Bool.and_eq_true] at hn
      cases hes; cases h
      simp only [PyEmit.traceBool, trace_parenUnless, trace_preserves cfg e vs e' hn.1 he ρ]
      cases isAnd <;> simp [Expr.traceAnd, Expr.traceOr]
    | e :: e2 :: es, vs, xs, hn, h, ρ => by
      simp only [transpileVals, Res.bind_eq_ok] at h
      obtain ⟨e', he, es', ⟨e2', he2, es2', hes2, h2⟩, h⟩ := h
      simp only [noNanList, Bool.and_eq_true] at hn
      have ih := trace_preservesVals cfg isAnd (e2 :: es) vs es' (by simp [noNanList, hn.2]) (by
        simp only [transpileVals, Res.bind_eq_ok]; exact ⟨e2', he2, es2', hes2, h2⟩) ρ
      cases h2; cases h
      simp only [PyEmit.traceBool, trace_parenUnless, eval_parenUnless, trace_preserves cfg e vs e' hn.1 he ρ,
        preserves cfg e vs e' hn.1 he ρ]
      cases isAnd
      · simp only [Expr.traceOr]
        simp only [Bool.false_eq_true, if_false] at ih
        cases Expr.eval ρ e <;> simp [onVal]
        split <;> simp_all
      · simp only [Expr.traceAnd]
        simp only [if_true] at ih
        cases Expr.eval ρ e <;> simp [onVal]
        split <;> simp_all
  theorem trace_preservesParts (cfg : Cfg) : ∀ (ps : List JPart) (vs : List Text) (xs : List PyPart), noNanParts ps = true →
      transpileParts cfg vs ps = .ok xs → ∀ ρ : Env, PyEmit.traceParts ρ xs = Expr.traceParts ρ ps
    | [], vs, xs, _, h, ρ => by
      simp only [transpileParts] at h; cases h; simp [PyEmit.traceParts, Expr.traceParts]
    | .lit s :: ps, vs, xs, hn, h, ρ => by
      simp only [transpileParts, Res.bind_eq_ok] at h
      obtain ⟨ps', hp, h⟩ := h
      simp only [noNanParts] at hn
      cases h
      simp only [PyEmit.traceParts, Expr.traceParts, trace_preservesParts cfg ps vs ps' hn hp ρ]
    | .fv e :: ps, vs, xs, hn, h, ρ => by
      simp only [transpileParts, Res.bind_eq_ok] at h
      obtain ⟨e', he, h⟩ := h
      simp only [noNanParts, Bool.and_eq_true] at hn
      split at h
      · cases h
      · simp only [Res.bind_eq_ok] at h
        obtain ⟨ps', hp, h⟩ := h
        cases h
        simp only [PyEmit.traceParts, Expr.traceParts, trace_preserves cfg e vs e' hn.1 he ρ, preserves cfg e vs e' hn.1 he ρ,
          trace_preservesParts cfg ps vs ps' hn.2 hp ρ]
end

end AasVerif.PyEmit
