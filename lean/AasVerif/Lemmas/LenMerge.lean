import AasVerif.Lemmas.Len
/-! Lemmas about `Len.merge` (`_merge_len_constraints`). -/
namespace AasVerif.Len

theorem mkLenC_eq_ok {lo hi : Option Int} {c : LenC} (h : mkLenC lo hi = .ok c) : c = ⟨lo, hi⟩ := by
  unfold mkLenC at h
  split at h
  · cases h; rfl
  · cases h

/-- Whenever `merge` returns a constraint, it is the conjunction (no assumption on the arguments). -/
theorem merge_ok_conj (a b c : Option LenC) (h : merge a b = .ok c) (n : Nat) :
    admitsOpt c n ↔ admitsOpt a n ∧ admitsOpt b n := by
  rcases a with _ | ⟨alo, ahi⟩ <;> rcases b with _ | ⟨blo, bhi⟩
  · cases h; simp [admitsOpt]
  · cases h; simp [admitsOpt]
  · cases h; simp [admitsOpt]
  · have hc : c = some ⟨maxOrNone alo blo, minOrNone ahi bhi⟩ := by
      simp only [merge] at h
      split at h
      · split at h
        · cases h
        · split at h
          · rename_i h'; cases h; rw [mkLenC_eq_ok h']
          · cases h
          · cases h
      · split at h
        · rename_i h'; cases h; rw [mkLenC_eq_ok h']
        · cases h
        · cases h
    subst hc
    rcases alo with _ | al <;> rcases blo with _ | bl <;> rcases ahi with _ | ah <;> rcases bhi with _ | bh <;>
      simp only [admitsOpt, LenC.admits, maxOrNone, minOrNone, Option.some.injEq, forall_eq', reduceCtorEq,
        false_implies, implies_true, true_and, and_true] <;> omega


/-- The complete behaviour of `_merge_len_constraints` on constraints that satisfy the invariant `WF`. -/
theorem merge_cases (a b : Option LenC) (ha : wfOpt a) (hb : wfOpt b) :
    (∃ m, merge a b = .err m ∧ ¬ ∃ n : Nat, admitsOpt a n ∧ admitsOpt b n) ∨
    (∃ c, merge a b = .ok c ∧ wfOpt c ∧ ∃ n : Nat, admitsOpt a n ∧ admitsOpt b n) := by
  rcases a with _ | ⟨alo, ahi⟩ <;> rcases b with _ | ⟨blo, bhi⟩
  · right; exact ⟨none, rfl, trivial, 0, trivial, trivial⟩
  · right
    refine ⟨_, rfl, hb, ?_⟩
    obtain ⟨h1, h2, h3⟩ := hb
    rcases blo with _ | bl <;> rcases bhi with _ | bh
    · exact ⟨0, trivial, by simp [admitsOpt, LenC.admits]⟩
    · exact ⟨0, trivial, by have := h2 bh rfl; simp [admitsOpt, LenC.admits]; omega⟩
    · exact ⟨bl.toNat, trivial, by have := h1 bl rfl; simp [admitsOpt, LenC.admits]; omega⟩
    · exact ⟨bl.toNat, trivial, by
        have := h1 bl rfl; have := h3 bl bh rfl rfl; simp [admitsOpt, LenC.admits]; omega⟩
  · right
    refine ⟨_, rfl, ha, ?_⟩
    obtain ⟨h1, h2, h3⟩ := ha
    rcases alo with _ | al <;> rcases ahi with _ | ah
    · exact ⟨0, by simp [admitsOpt, LenC.admits], trivial⟩
    · exact ⟨0, by have := h2 ah rfl; simp [admitsOpt, LenC.admits]; omega, trivial⟩
    · exact ⟨al.toNat, by have := h1 al rfl; simp [admitsOpt, LenC.admits]; omega, trivial⟩
    · exact ⟨al.toNat, by
        have := h1 al rfl; have := h3 al ah rfl rfl; simp [admitsOpt, LenC.admits]; omega, trivial⟩
  · obtain ⟨a1, a2, a3⟩ := ha
    obtain ⟨b1, b2, b3⟩ := hb
    simp only at a1 a2 a3 b1 b2 b3
    rcases alo with _ | al <;> rcases blo with _ | bl <;> rcases ahi with _ | ah <;> rcases bhi with _ | bh <;>
      simp only [merge, maxOrNone, minOrNone]
    all_goals (
      try have ha1 := a1 _ rfl
      try have ha2 := a2 _ rfl
      try have ha3 := a3 _ _ rfl rfl
      try have hb1 := b1 _ rfl
      try have hb2 := b2 _ rfl
      try have hb3 := b3 _ _ rfl rfl)
    all_goals first
      | (split
         · left
           refine ⟨_, rfl, ?_⟩
           rintro ⟨n, hn1, hn2⟩
           simp only [admitsOpt, LenC.admits, Option.some.injEq, forall_eq', reduceCtorEq, false_implies,
             implies_true, true_and, and_true] at hn1 hn2
           omega
         · right
           rw [mkLenC_ok _ _ (by intro l u hl hu; cases hl; cases hu; omega)]
           refine ⟨_, rfl, ⟨(by intro lo h; cases h; omega), (by intro hi h; cases h; omega),
             (by intro lo hi h1 h2; cases h1; cases h2; omega)⟩, ?_⟩
           first
             | exact ⟨(max al bl).toNat, by simp [admitsOpt, LenC.admits] <;> omega⟩
             | exact ⟨al.toNat, by simp [admitsOpt, LenC.admits] <;> omega⟩
             | exact ⟨bl.toNat, by simp [admitsOpt, LenC.admits] <;> omega⟩)
      | (right
         rw [mkLenC_ok _ _ (by intro l u hl hu; simp_all)]
         refine ⟨_, rfl, (by simp [wfOpt, LenC.WF] <;> omega), ?_⟩
         first
           | exact ⟨(max al bl).toNat, by simp [admitsOpt, LenC.admits] <;> omega⟩
           | exact ⟨al.toNat, by simp [admitsOpt, LenC.admits] <;> omega⟩
           | exact ⟨bl.toNat, by simp [admitsOpt, LenC.admits] <;> omega⟩
           | exact ⟨0, by simp [admitsOpt, LenC.admits] <;> omega⟩)

end AasVerif.Len
