import AasVerif.Model.Expr.Conforms
/-!
The value-level operations of the evaluator never produce `noneDeref` (given that the float
parameters do not): `AttributeError` on `None` only arises at a member / method access.
-/
namespace AasVerif.Expr

theorem ofBool_ne (b : Bool) : Out.ofBool b ≠ .noneDeref := by simp [Out.ofBool]

mutual
theorem ord_ne (f : FloatOps) (op : Cmp) (hf : ∀ op a b, f.cmp op a b ≠ .noneDeref) :
    ∀ a b, cmpVals.ord f op a b ≠ .noneDeref := by
  intro a b
  unfold cmpVals.ord
  split <;> try (simp [Out.ofBool]; done)
  · exact ordList_ne f op hf _ _
  · split
    · split
      · simp [Out.ofBool]
      · exact hf _ _ _
    · simp
theorem ordList_ne (f : FloatOps) (op : Cmp) (hf : ∀ op a b, f.cmp op a b ≠ .noneDeref) :
    ∀ as bs, cmpVals.ordList f op as bs ≠ .noneDeref := by
  intro as bs
  unfold cmpVals.ordList
  split <;> try (simp [Out.ofBool]; done)
  split
  · exact ordList_ne f op hf _ _
  · exact ord_ne f op hf _ _
end

theorem cmpVals_ne (f : FloatOps) (op : Cmp) (hf : ∀ op a b, f.cmp op a b ≠ .noneDeref) (a b : Val) :
    cmpVals f op a b ≠ .noneDeref := by
  unfold cmpVals
  cases op <;> first | exact ofBool_ne _ | exact ord_ne f _ hf _ _

theorem arithVals_ne (f : FloatOps) (ad : Bool) (hf : ∀ ad a b, f.arith ad a b ≠ .noneDeref) (a b : Val) :
    arithVals f ad a b ≠ .noneDeref := by
  unfold arithVals
  repeat' split
  all_goals first | (simp; done) | exact hf _ _ _

theorem lenVal_ne (v : Val) : lenVal v ≠ .noneDeref := by
  unfold lenVal; split <;> simp

theorem isInVals_ne (f : FloatOps) (m c : Val) : isInVals f m c ≠ .noneDeref := by
  unfold isInVals
  repeat' split
  all_goals (simp [Out.ofBool]; done)

theorem indexVals_ne (c i : Val) : indexVals c i ≠ .noneDeref := by
  intro h
  unfold indexVals at h
  simp only [] at h
  repeat' split at h
  all_goals (try (simp at h; done))
  all_goals (repeat' split at h)
  all_goals (try (simp at h; done))

theorem fmtVal_ne (ρ : Env) (hf : ∀ v, ρ.fmtOther v ≠ .noneDeref) (v : Val) : fmtVal ρ v ≠ .noneDeref := by
  unfold fmtVal
  split
  all_goals first | (simp; done) | exact hf _

theorem quantLoop_ne (fo : FloatOps) (isAny : Bool) (f : Val → Out) :
    ∀ items : List Val, (∀ x, x ∈ items → f x ≠ .noneDeref) → quantLoop fo isAny f items ≠ .noneDeref
  | [], _ => by simp [quantLoop, Out.ofBool]
  | x :: xs, h => by
    have hx := h x (by simp)
    have ih := quantLoop_ne fo isAny f xs (fun y hy => h y (by simp [hy]))
    unfold quantLoop
    cases hf : f x with
    | val v => simp only; split; exact ofBool_ne _; exact ih
    | noneDeref => exact absurd hf hx
    | _ => simp

theorem rangeLoop_ne (fo : FloatOps) (isAny : Bool) (f : Val → Out) (hf : ∀ i : Int, f (.int i) ≠ .noneDeref) :
    ∀ (n : Nat) (s : Int), rangeLoop fo isAny f s n ≠ .noneDeref
  | 0, _ => by simp [rangeLoop, Out.ofBool]
  | n + 1, s => by
    have ih := rangeLoop_ne fo isAny f hf n (s + 1)
    unfold rangeLoop
    cases h : f (.int s) with
    | val v => simp only; split; exact ofBool_ne _; exact ih
    | noneDeref => exact absurd h (hf s)
    | _ => simp

end AasVerif.Expr
