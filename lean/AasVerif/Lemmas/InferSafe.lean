import AasVerif.Lemmas.InferCases
import AasVerif.Model.Expr.TypeMap
/-!
Soundness of the inferrer for the whole expression language, by mutual structural recursion
over the expression (the fact set is an invariant of the traversal): an accepted expression
evaluates to a value of the inferred type, or raises `IndexError`.

Side conditions (see `Model/Expr/TypeMap.lean`): `e.wf` (`and` / `or` have operands) and no
function or method is used as a first-class value (`vtypes … |>.all valTy`).
-/
namespace AasVerif.Expr

variable {κ : Type} [DecidableEq κ]

variable {key : Expr → κ}

theorem valTy_ok {r : Res Ty} {τ : Ty} (h : r = .ok τ) (hv : valTy (resTy r) = true) : τ.isFn = false := by
  subst h
  simpa [resTy, valTy] using hv

theorem bind_backend (Γ : TEnv) (x : Text) (τ : Ty) : (Γ.bind x τ).backend = Γ.backend := rfl

mutual
theorem safe_expr (hk : KeySound key) :
    ∀ (e : Expr) (Γ : TEnv) (F : Facts κ) (ρ : Env) (τ : Ty), Inv key Γ F ρ → Γ.backend = true → e.wf = true →
      (vtypes key Γ F e).all valTy = true → infer key Γ F e = .ok τ → Good Γ.decls (eval ρ e) τ
  | .member i n, Γ, F, ρ, τ, inv, hb, hw, hv, h => by
    simp only [Expr.wf] at hw
    simp only [vtypes, List.all_cons, Bool.and_eq_true] at hv
    exact member_good inv (fun ti hi => safe_expr hk i Γ F ρ ti inv hb hw hv.2 hi) (valTy_ok h hv.1) h
  | .index c i, Γ, F, ρ, τ, inv, hb, hw, hv, h => by
    simp only [Expr.wf, Bool.and_eq_true] at hw
    simp only [vtypes, List.all_cons, List.all_append, Bool.and_eq_true] at hv
    exact index_good (fun ti hi => safe_expr hk c Γ F ρ ti inv hb hw.1 hv.2.1 hi)
      (fun ti hi => safe_expr hk i Γ F ρ ti inv hb hw.2 hv.2.2 hi) h
  | .cmp l op r, Γ, F, ρ, τ, inv, hb, hw, hv, h => by
    simp only [Expr.wf, Bool.and_eq_true] at hw
    simp only [vtypes, List.all_cons, List.all_append, Bool.and_eq_true] at hv
    exact cmp_good inv (fun ti hi => safe_expr hk l Γ F ρ ti inv hb hw.1 hv.2.1 hi)
      (fun ti hi => safe_expr hk r Γ F ρ ti inv hb hw.2 hv.2.2 hi) h
  | .isIn m c, Γ, F, ρ, τ, inv, hb, hw, hv, h => by
    simp only [Expr.wf, Bool.and_eq_true] at hw
    simp only [vtypes, List.all_cons, List.all_append, Bool.and_eq_true] at hv
    exact isIn_good inv (fun ti hi => safe_expr hk m Γ F ρ ti inv hb hw.1 hv.2.1 hi)
      (fun ti hi => safe_expr hk c Γ F ρ ti inv hb hw.2 hv.2.2 hi) h
  | .impl a c, Γ, F, ρ, τ, inv, hb, hw, hv, h => by
    simp only [Expr.wf, Bool.and_eq_true] at hw
    simp only [vtypes, List.all_cons, List.all_append, Bool.and_eq_true] at hv
    exact impl_good hk inv (fun ti hi => safe_expr hk a Γ F ρ ti inv hb hw.1 hv.2.1 hi)
      (fun ti inv' hi => safe_expr hk c Γ _ ρ ti inv' hb hw.2 hv.2.2 hi) h
  | .methodCall i n args, Γ, F, ρ, τ, inv, hb, hw, hv, h => by
    simp only [Expr.wf, Bool.and_eq_true] at hw
    simp only [vtypes, List.all_cons, List.all_append, Bool.and_eq_true] at hv
    exact methodCall_good inv (fun ti hi => safe_expr hk i Γ F ρ ti inv hb hw.1 hv.2.1 hi)
      (fun ts ha => safe_args hk args Γ F ρ inv hb hw.2 hv.2.2 ts ha) h
  | .name x, Γ, F, ρ, τ, inv, _, _, hv, h => by
    simp only [vtypes, List.all_cons, Bool.and_eq_true] at hv
    exact name_good inv (valTy_ok h hv.1) h
  | .funCall n args, Γ, F, ρ, τ, inv, hb, hw, hv, h => by
    simp only [Expr.wf] at hw
    simp only [vtypes, List.all_cons, Bool.and_eq_true] at hv
    exact funCall_good inv hb (fun ts ha => safe_args hk args Γ F ρ inv hb hw hv.2 ts ha) h
  | .const c, Γ, F, ρ, τ, _, _, _, _, h => const_good h
  | .isNone e, Γ, F, ρ, τ, inv, hb, hw, hv, h => by
    simp only [Expr.wf] at hw
    simp only [vtypes, List.all_cons, Bool.and_eq_true] at hv
    exact isNone_good (fun ti hi => safe_expr hk e Γ F ρ ti inv hb hw hv.2 hi) h
  | .isNotNone e, Γ, F, ρ, τ, inv, hb, hw, hv, h => by
    simp only [Expr.wf] at hw
    simp only [vtypes, List.all_cons, Bool.and_eq_true] at hv
    exact isNotNone_good (fun ti hi => safe_expr hk e Γ F ρ ti inv hb hw hv.2 hi) h
  | .not e, Γ, F, ρ, τ, inv, hb, hw, hv, h => by
    simp only [Expr.wf] at hw
    simp only [vtypes, List.all_cons, Bool.and_eq_true] at hv
    exact not_good (fun ti hi => safe_expr hk e Γ F ρ ti inv hb hw hv.2 hi) h
  | .and es, Γ, F, ρ, τ, inv, hb, hw, hv, h => by
    simp only [Expr.wf, Bool.and_eq_true, Bool.not_eq_true', List.isEmpty_eq_false_iff] at hw
    simp only [vtypes, List.all_cons, Bool.and_eq_true] at hv
    simp only [infer] at h
    cases ha : inferAnd key Γ F es with
    | err xs => simp [ha] at h
    | crash s => simp [ha] at h
    | ok u =>
      simp only [ha, Res.ok.injEq] at h
      subst h
      simp only [eval]
      exact Good.of_boolOrIndex (safe_and hk es Γ F ρ inv hb hw.2 hv.2 hw.1 ha)
  | .or es, Γ, F, ρ, τ, inv, hb, hw, hv, h => by
    simp only [Expr.wf, Bool.and_eq_true, Bool.not_eq_true', List.isEmpty_eq_false_iff] at hw
    simp only [vtypes, List.all_cons, Bool.and_eq_true] at hv
    simp only [infer] at h
    cases ha : inferOr key Γ F es with
    | err xs => simp [ha] at h
    | crash s => simp [ha] at h
    | ok u =>
      simp only [ha, Res.ok.injEq] at h
      subst h
      simp only [eval]
      exact Good.of_boolOrIndex (safe_or hk es Γ F ρ inv hb hw.2 hv.2 hw.1 ha)
  | .add l r, Γ, F, ρ, τ, inv, hb, hw, hv, h => by
    simp only [Expr.wf, Bool.and_eq_true] at hw
    simp only [vtypes, List.all_cons, List.all_append, Bool.and_eq_true] at hv
    exact add_good inv (fun ti hi => safe_expr hk l Γ F ρ ti inv hb hw.1 hv.2.1 hi)
      (fun ti hi => safe_expr hk r Γ F ρ ti inv hb hw.2 hv.2.2 hi) h
  | .sub l r, Γ, F, ρ, τ, inv, hb, hw, hv, h => by
    simp only [Expr.wf, Bool.and_eq_true] at hw
    simp only [vtypes, List.all_cons, List.all_append, Bool.and_eq_true] at hv
    exact sub_good inv (fun ti hi => safe_expr hk l Γ F ρ ti inv hb hw.1 hv.2.1 hi)
      (fun ti hi => safe_expr hk r Γ F ρ ti inv hb hw.2 hv.2.2 hi) h
  | .joinedStr ps, Γ, F, ρ, τ, inv, hb, hw, hv, h => by
    simp only [Expr.wf] at hw
    simp only [vtypes, List.all_cons, Bool.and_eq_true] at hv
    simp only [infer] at h
    cases ha : inferParts key Γ F ps with
    | err xs => simp [ha] at h
    | crash s => simp [ha] at h
    | ok u =>
      simp only [ha, Res.ok.injEq] at h
      subst h
      simp only [eval]
      rcases safe_parts hk ps Γ F ρ inv hb hw hv.2 ha with hs | ⟨s, hs⟩
      · rw [hs]; exact Good.index
      · rw [hs]; exact Good.val (HasTy.str s)
  | .any g c, Γ, F, ρ, τ, inv, hb, hw, hv, h => by
    simp only [Expr.wf, Bool.and_eq_true] at hw
    simp only [vtypes, List.all_cons, List.all_append, Bool.and_eq_true] at hv
    simp only [infer] at h
    cases hg : inferGen key Γ F g with
    | err xs => simp [hg] at h
    | crash s => simp [hg] at h
    | ok xτ =>
      obtain ⟨x, τx⟩ := xτ
      simp only [hg] at h hv
      obtain ⟨hc, hτ⟩ := condRes_ok h
      subst hτ
      obtain ⟨hx, hgen⟩ := safe_gen hk g Γ F ρ x τx inv hb hw.1 hv.2.1 hg
      exact any_good hgen
        (fun item hty => safe_expr hk c (Γ.bind x τx) F (ρ.bind x item) _ (inv.bind hx hty) hb hw.2 hv.2.2 hc)
  | .all g c, Γ, F, ρ, τ, inv, hb, hw, hv, h => by
    simp only [Expr.wf, Bool.and_eq_true] at hw
    simp only [vtypes, List.all_cons, List.all_append, Bool.and_eq_true] at hv
    simp only [infer] at h
    cases hg : inferGen key Γ F g with
    | err xs => simp [hg] at h
    | crash s => simp [hg] at h
    | ok xτ =>
      obtain ⟨x, τx⟩ := xτ
      simp only [hg] at h hv
      obtain ⟨hc, hτ⟩ := condRes_ok h
      subst hτ
      obtain ⟨hx, hgen⟩ := safe_gen hk g Γ F ρ x τx inv hb hw.1 hv.2.1 hg
      exact all_good hgen
        (fun item hty => safe_expr hk c (Γ.bind x τx) F (ρ.bind x item) _ (inv.bind hx hty) hb hw.2 hv.2.2 hc)
theorem safe_gen (hk : KeySound key) :
    ∀ (g : Gen) (Γ : TEnv) (F : Facts κ) (ρ : Env) (x : Text) (τx : Ty), Inv key Γ F ρ → Γ.backend = true →
      wfGen g = true → (vtypesGen key Γ F g).all valTy = true →
      inferGen key Γ F g = .ok (x, τx) → Γ.find x = none ∧ GenGood Γ.decls x τx (evalGen ρ g)
  | .forEach y it, Γ, F, ρ, x, τx, inv, hb, hw, hv, h => by
    simp only [wfGen] at hw
    simp only [vtypesGen] at hv
    exact forEach_good (fun ti hi => safe_expr hk it Γ F ρ ti inv hb hw hv hi) h
  | .forRange y a b, Γ, F, ρ, x, τx, inv, hb, hw, hv, h => by
    simp only [wfGen, Bool.and_eq_true] at hw
    simp only [vtypesGen, List.all_append, Bool.and_eq_true] at hv
    exact forRange_good (fun ti hi => safe_expr hk a Γ F ρ ti inv hb hw.1 hv.1 hi)
      (fun ti hi => safe_expr hk b Γ F ρ ti inv hb hw.2 hv.2 hi) h
theorem safe_and (hk : KeySound key) :
    ∀ (es : List Expr) (Γ : TEnv) (F : Facts κ) (ρ : Env), Inv key Γ F ρ → Γ.backend = true →
      wfList es = true → (vtypesAnd key Γ F es).all valTy = true → es ≠ [] →
      inferAnd key Γ F es = .ok () → BoolOrIndex (evalAnd ρ es)
  | [], _, _, _, _, _, _, _, hne, _ => absurd rfl hne
  | e :: es, Γ, F, ρ, inv, hb, hw, hv, _, h => by
    simp only [wfList, Bool.and_eq_true] at hw
    simp only [vtypesAnd, List.all_append, Bool.and_eq_true] at hv
    exact and_cons_good hk inv (fun ti hi => safe_expr hk e Γ F ρ ti inv hb hw.1 hv.1 hi)
      (fun hne inv' h' => safe_and hk es Γ _ ρ inv' hb hw.2 hv.2 hne h') h
theorem safe_or (hk : KeySound key) :
    ∀ (es : List Expr) (Γ : TEnv) (F : Facts κ) (ρ : Env), Inv key Γ F ρ → Γ.backend = true →
      wfList es = true → (vtypesOr key Γ F es).all valTy = true → es ≠ [] →
      inferOr key Γ F es = .ok () → BoolOrIndex (evalOr ρ es)
  | [], _, _, _, _, _, _, _, hne, _ => absurd rfl hne
  | e :: es, Γ, F, ρ, inv, hb, hw, hv, _, h => by
    simp only [wfList, Bool.and_eq_true] at hw
    simp only [vtypesOr, List.all_append, Bool.and_eq_true] at hv
    exact or_cons_good hk inv (fun ti hi => safe_expr hk e Γ F ρ ti inv hb hw.1 hv.1 hi)
      (fun hne inv' h' => safe_or hk es Γ _ ρ inv' hb hw.2 hv.2 hne h') h
theorem safe_args (hk : KeySound key) :
    ∀ (es : List Expr) (Γ : TEnv) (F : Facts κ) (ρ : Env), Inv key Γ F ρ → Γ.backend = true →
      wfList es = true → (vtypesList key Γ F es).all valTy = true →
      ∀ ts, inferArgs key Γ F es = .ok ts → ArgsGood Γ.decls ts (evalArgs ρ es)
  | [], _, _, _, _, _, _, _, ts, h => by
    simp only [inferArgs, Res.ok.injEq] at h
    subst h
    exact ArgsHave.nil
  | e :: es, Γ, F, ρ, inv, hb, hw, hv, ts, h => by
    simp only [wfList, Bool.and_eq_true] at hw
    simp only [vtypesList, List.all_append, Bool.and_eq_true] at hv
    exact args_cons_good (fun ti hi => safe_expr hk e Γ F ρ ti inv hb hw.1 hv.1 hi)
      (fun ts' h' => safe_args hk es Γ F ρ inv hb hw.2 hv.2 ts' h') h
theorem safe_parts (hk : KeySound key) :
    ∀ (ps : List JPart) (Γ : TEnv) (F : Facts κ) (ρ : Env), Inv key Γ F ρ → Γ.backend = true →
      wfParts ps = true → (vtypesParts key Γ F ps).all valTy = true →
      inferParts key Γ F ps = .ok () → StrOrIndex (evalParts ρ ps)
  | [], _, _, _, _, _, _, _, _ => Or.inr ⟨[], rfl⟩
  | .lit s :: ps, Γ, F, ρ, inv, hb, hw, hv, h => by
    simp only [wfParts] at hw
    simp only [vtypesParts] at hv
    simp only [inferParts] at h
    exact parts_lit_good (safe_parts hk ps Γ F ρ inv hb hw hv h)
  | .fv e :: ps, Γ, F, ρ, inv, hb, hw, hv, h => by
    simp only [wfParts, Bool.and_eq_true] at hw
    simp only [vtypesParts, List.all_append, Bool.and_eq_true] at hv
    exact parts_fv_good inv (fun ti hi => safe_expr hk e Γ F ρ ti inv hb hw.1 hv.1 hi)
      (fun h' => safe_parts hk ps Γ F ρ inv hb hw.2 hv.2 h') h
end

end AasVerif.Expr
