import AasVerif.Lemmas.InferCases
/-!
None-safety of the inferrer for the whole expression language, by mutual structural
recursion over the expression (the fact set is an invariant of the traversal).
-/
namespace AasVerif.Expr

variable {κ : Type} [DecidableEq κ]

variable {key : Expr → κ}

mutual
theorem safe_expr (hk : KeySound key) :
    ∀ (e : Expr) (Γ : TEnv) (F : Facts κ) (ρ : Env) (τ : Ty), Inv key Γ F ρ →
      infer key Γ F e = .ok τ → Good Γ.decls (eval ρ e) τ
  | .member i n, Γ, F, ρ, τ, inv, h =>
    member_good inv (fun ti hi => safe_expr hk i Γ F ρ ti inv hi) h
  | .index c i, Γ, F, ρ, τ, inv, h => by
    exact index_good (fun ti hi => safe_expr hk c Γ F ρ ti inv hi)
      (fun ti hi => safe_expr hk i Γ F ρ ti inv hi) h
  | .cmp l op r, Γ, F, ρ, τ, inv, h => by
    exact cmp_good inv (fun ti hi => safe_expr hk l Γ F ρ ti inv hi)
      (fun ti hi => safe_expr hk r Γ F ρ ti inv hi) h
  | .isIn m c, Γ, F, ρ, τ, inv, h => by
    exact isIn_good inv (fun ti hi => safe_expr hk m Γ F ρ ti inv hi)
      (fun ti hi => safe_expr hk c Γ F ρ ti inv hi) h
  | .impl a c, Γ, F, ρ, τ, inv, h => by
    exact impl_good hk inv (fun ti hi => safe_expr hk a Γ F ρ ti inv hi)
      (fun ti inv' hi => safe_expr hk c Γ _ ρ ti inv' hi) h
  | .methodCall i n args, Γ, F, ρ, τ, inv, h => by
    exact methodCall_good inv (fun ti hi => safe_expr hk i Γ F ρ ti inv hi)
      (fun ha => safe_args hk args Γ F ρ inv ha) h
  | .name x, Γ, F, ρ, τ, inv, h => name_good inv h
  | .funCall n args, Γ, F, ρ, τ, inv, h => by
    exact funCall_good inv (fun ha => safe_args hk args Γ F ρ inv ha) h
  | .const c, Γ, F, ρ, τ, _, h => const_good h
  | .isNone e, Γ, F, ρ, τ, inv, h =>
    isNone_good (fun ti hi => safe_expr hk e Γ F ρ ti inv hi) h
  | .isNotNone e, Γ, F, ρ, τ, inv, h =>
    isNotNone_good (fun ti hi => safe_expr hk e Γ F ρ ti inv hi) h
  | .not e, Γ, F, ρ, τ, inv, h =>
    not_good (fun ti hi => safe_expr hk e Γ F ρ ti inv hi) h
  | .and es, Γ, F, ρ, τ, inv, h => by
    simp only [infer] at h
    cases ha : inferAnd key Γ F es with
    | err xs => simp [ha] at h
    | crash s => simp [ha] at h
    | ok u =>
      simp only [ha, Res.ok.injEq] at h
      subst h
      refine good_loose ?_ (by simp [Ty.bool, Ty.isLoose])
      simpa [eval] using safe_and hk es Γ F ρ inv ha
  | .or es, Γ, F, ρ, τ, inv, h => by
    simp only [infer] at h
    cases ha : inferOr key Γ F es with
    | err xs => simp [ha] at h
    | crash s => simp [ha] at h
    | ok u =>
      simp only [ha, Res.ok.injEq] at h
      subst h
      refine good_loose ?_ (by simp [Ty.bool, Ty.isLoose])
      simpa [eval] using safe_or hk es Γ F ρ inv ha
  | .add l r, Γ, F, ρ, τ, inv, h => by
    exact add_good inv (fun ti hi => safe_expr hk l Γ F ρ ti inv hi)
      (fun ti hi => safe_expr hk r Γ F ρ ti inv hi) h
  | .sub l r, Γ, F, ρ, τ, inv, h => by
    exact sub_good inv (fun ti hi => safe_expr hk l Γ F ρ ti inv hi)
      (fun ti hi => safe_expr hk r Γ F ρ ti inv hi) h
  | .joinedStr ps, Γ, F, ρ, τ, inv, h => by
    simp only [infer] at h
    cases ha : inferParts key Γ F ps with
    | err xs => simp [ha] at h
    | crash s => simp [ha] at h
    | ok u =>
      simp only [ha, Res.ok.injEq] at h
      subst h
      refine good_loose ?_ (by simp [Ty.isLoose])
      simpa [eval] using safe_parts hk ps Γ F ρ inv ha
  | .any g c, Γ, F, ρ, τ, inv, h => by
    simp only [infer] at h
    cases hg : inferGen key Γ F g with
    | err xs => simp [hg] at h
    | crash s => simp [hg] at h
    | ok xτ =>
      obtain ⟨x, τx⟩ := xτ
      simp only [hg] at h
      obtain ⟨hc, hτ⟩ := condRes_ok h
      obtain ⟨hx, hgen⟩ := safe_gen hk g Γ F ρ x τx inv hg
      exact any_good inv hx hgen
        (fun item hty => (safe_expr hk c (Γ.bind x τx) F (ρ.bind x item) _ (inv.bind hx hty) hc).1) hτ
  | .all g c, Γ, F, ρ, τ, inv, h => by
    simp only [infer] at h
    cases hg : inferGen key Γ F g with
    | err xs => simp [hg] at h
    | crash s => simp [hg] at h
    | ok xτ =>
      obtain ⟨x, τx⟩ := xτ
      simp only [hg] at h
      obtain ⟨hc, hτ⟩ := condRes_ok h
      obtain ⟨hx, hgen⟩ := safe_gen hk g Γ F ρ x τx inv hg
      exact all_good inv hx hgen
        (fun item hty => (safe_expr hk c (Γ.bind x τx) F (ρ.bind x item) _ (inv.bind hx hty) hc).1) hτ
theorem safe_gen (hk : KeySound key) :
    ∀ (g : Gen) (Γ : TEnv) (F : Facts κ) (ρ : Env) (x : Text) (τx : Ty), Inv key Γ F ρ →
      inferGen key Γ F g = .ok (x, τx) → Γ.find x = none ∧ GenGood Γ.decls x τx (evalGen ρ g)
  | .forEach y it, Γ, F, ρ, x, τx, inv, h =>
    forEach_good (fun ti hi => safe_expr hk it Γ F ρ ti inv hi) h
  | .forRange y a b, Γ, F, ρ, x, τx, inv, h =>
    forRange_good (fun ti hi => safe_expr hk a Γ F ρ ti inv hi) (fun ti hi => safe_expr hk b Γ F ρ ti inv hi) h
theorem safe_and (hk : KeySound key) :
    ∀ (es : List Expr) (Γ : TEnv) (F : Facts κ) (ρ : Env), Inv key Γ F ρ →
      inferAnd key Γ F es = .ok () → evalAnd ρ es ≠ .noneDeref
  | [], _, _, _, _, _ => by simp [evalAnd]
  | e :: es, Γ, F, ρ, inv, h => by
    exact and_cons_ne hk inv (fun ti hi => safe_expr hk e Γ F ρ ti inv hi)
      (fun inv' h' => safe_and hk es Γ _ ρ inv' h') h
theorem safe_or (hk : KeySound key) :
    ∀ (es : List Expr) (Γ : TEnv) (F : Facts κ) (ρ : Env), Inv key Γ F ρ →
      inferOr key Γ F es = .ok () → evalOr ρ es ≠ .noneDeref
  | [], _, _, _, _, _ => by simp [evalOr]
  | e :: es, Γ, F, ρ, inv, h => by
    exact or_cons_ne hk inv (fun ti hi => safe_expr hk e Γ F ρ ti inv hi)
      (fun inv' h' => safe_or hk es Γ _ ρ inv' h') h
theorem safe_args (hk : KeySound key) :
    ∀ (es : List Expr) (Γ : TEnv) (F : Facts κ) (ρ : Env), Inv key Γ F ρ →
      inferArgs key Γ F es = .ok () → ArgsSafe (evalArgs ρ es)
  | [], _, _, _, _, _ => by simp [evalArgs, ArgsSafe]
  | e :: es, Γ, F, ρ, inv, h => by
    exact args_cons_safe (fun ti hi => safe_expr hk e Γ F ρ ti inv hi)
      (fun h' => safe_args hk es Γ F ρ inv h') h
theorem safe_parts (hk : KeySound key) :
    ∀ (ps : List JPart) (Γ : TEnv) (F : Facts κ) (ρ : Env), Inv key Γ F ρ →
      inferParts key Γ F ps = .ok () → evalParts ρ ps ≠ .noneDeref
  | [], _, _, _, _, _ => by simp [evalParts]
  | .lit s :: ps, Γ, F, ρ, inv, h => by
    simp only [inferParts] at h
    exact parts_lit_ne (safe_parts hk ps Γ F ρ inv h)
  | .fv e :: ps, Γ, F, ρ, inv, h => by
    exact parts_fv_ne inv (fun ti hi => safe_expr hk e Γ F ρ ti inv hi)
      (fun h' => safe_parts hk ps Γ F ρ inv h') h
end

end AasVerif.Expr
