import AasVerif.Lemmas.InferCases
import AasVerif.Model.Expr.Fragment
/-!
None-safety of the inferrer on the fragment without `any` / `all`, by mutual structural
recursion over the expression (the fact set is an invariant of the traversal).
-/
namespace AasVerif.Expr

variable {key : Expr → Text}

mutual
theorem safe_expr (hk : Function.Injective key) :
    ∀ (e : Expr) (Γ : TEnv) (F : Facts) (ρ : Env) (τ : Ty), noQuant e = true → Inv key Γ F ρ →
      infer key Γ F e = .ok τ → Good Γ.decls (eval ρ e) τ
  | .member i n, Γ, F, ρ, τ, hq, inv, h =>
    member_good inv (fun ti hi => safe_expr hk i Γ F ρ ti (by simpa [noQuant] using hq) inv hi) h
  | .index c i, Γ, F, ρ, τ, hq, inv, h => by
    simp only [noQuant, Bool.and_eq_true] at hq
    exact index_good (fun ti hi => safe_expr hk c Γ F ρ ti hq.1 inv hi)
      (fun ti hi => safe_expr hk i Γ F ρ ti hq.2 inv hi) h
  | .cmp l op r, Γ, F, ρ, τ, hq, inv, h => by
    simp only [noQuant, Bool.and_eq_true] at hq
    exact cmp_good inv (fun ti hi => safe_expr hk l Γ F ρ ti hq.1 inv hi)
      (fun ti hi => safe_expr hk r Γ F ρ ti hq.2 inv hi) h
  | .isIn m c, Γ, F, ρ, τ, hq, inv, h => by
    simp only [noQuant, Bool.and_eq_true] at hq
    exact isIn_good inv (fun ti hi => safe_expr hk m Γ F ρ ti hq.1 inv hi)
      (fun ti hi => safe_expr hk c Γ F ρ ti hq.2 inv hi) h
  | .impl a c, Γ, F, ρ, τ, hq, inv, h => by
    simp only [noQuant, Bool.and_eq_true] at hq
    exact impl_good hk inv (fun ti hi => safe_expr hk a Γ F ρ ti hq.1 inv hi)
      (fun ti inv' hi => safe_expr hk c Γ _ ρ ti hq.2 inv' hi) h
  | .methodCall i n args, Γ, F, ρ, τ, hq, inv, h => by
    simp only [noQuant, Bool.and_eq_true] at hq
    exact methodCall_good inv (fun ti hi => safe_expr hk i Γ F ρ ti hq.1 inv hi)
      (fun ha => safe_args hk args Γ F ρ hq.2 inv ha) h
  | .name x, Γ, F, ρ, τ, _, inv, h => name_good inv h
  | .funCall n args, Γ, F, ρ, τ, hq, inv, h => by
    simp only [noQuant] at hq
    exact funCall_good inv (fun ha => safe_args hk args Γ F ρ hq inv ha) h
  | .const c, Γ, F, ρ, τ, _, _, h => const_good h
  | .isNone e, Γ, F, ρ, τ, hq, inv, h =>
    isNone_good (fun ti hi => safe_expr hk e Γ F ρ ti (by simpa [noQuant] using hq) inv hi) h
  | .isNotNone e, Γ, F, ρ, τ, hq, inv, h =>
    isNotNone_good (fun ti hi => safe_expr hk e Γ F ρ ti (by simpa [noQuant] using hq) inv hi) h
  | .not e, Γ, F, ρ, τ, hq, inv, h =>
    not_good (fun ti hi => safe_expr hk e Γ F ρ ti (by simpa [noQuant] using hq) inv hi) h
  | .and es, Γ, F, ρ, τ, hq, inv, h => by
    simp only [noQuant] at hq
    simp only [infer] at h
    cases ha : inferAnd key Γ F es with
    | err xs => simp [ha] at h
    | crash s => simp [ha] at h
    | ok u =>
      simp only [ha, Res.ok.injEq] at h
      subst h
      refine good_loose ?_ (by simp [Ty.bool, Ty.isLoose])
      simpa [eval] using safe_and hk es Γ F ρ hq inv ha
  | .or es, Γ, F, ρ, τ, hq, inv, h => by
    simp only [noQuant] at hq
    simp only [infer] at h
    cases ha : inferOr key Γ F es with
    | err xs => simp [ha] at h
    | crash s => simp [ha] at h
    | ok u =>
      simp only [ha, Res.ok.injEq] at h
      subst h
      refine good_loose ?_ (by simp [Ty.bool, Ty.isLoose])
      simpa [eval] using safe_or hk es Γ F ρ hq inv ha
  | .add l r, Γ, F, ρ, τ, hq, inv, h => by
    simp only [noQuant, Bool.and_eq_true] at hq
    exact add_good inv (fun ti hi => safe_expr hk l Γ F ρ ti hq.1 inv hi)
      (fun ti hi => safe_expr hk r Γ F ρ ti hq.2 inv hi) h
  | .sub l r, Γ, F, ρ, τ, hq, inv, h => by
    simp only [noQuant, Bool.and_eq_true] at hq
    exact sub_good inv (fun ti hi => safe_expr hk l Γ F ρ ti hq.1 inv hi)
      (fun ti hi => safe_expr hk r Γ F ρ ti hq.2 inv hi) h
  | .joinedStr ps, Γ, F, ρ, τ, hq, inv, h => by
    simp only [noQuant] at hq
    simp only [infer] at h
    cases ha : inferParts key Γ F ps with
    | err xs => simp [ha] at h
    | crash s => simp [ha] at h
    | ok u =>
      simp only [ha, Res.ok.injEq] at h
      subst h
      refine good_loose ?_ (by simp [Ty.isLoose])
      simpa [eval] using safe_parts hk ps Γ F ρ hq inv ha
  | .any _ _, _, _, _, _, hq, _, _ => by simp [noQuant] at hq
  | .all _ _, _, _, _, _, hq, _, _ => by simp [noQuant] at hq
theorem safe_and (hk : Function.Injective key) :
    ∀ (es : List Expr) (Γ : TEnv) (F : Facts) (ρ : Env), noQuantList es = true → Inv key Γ F ρ →
      inferAnd key Γ F es = .ok () → evalAnd ρ es ≠ .noneDeref
  | [], _, _, _, _, _, _ => by simp [evalAnd]
  | e :: es, Γ, F, ρ, hq, inv, h => by
    simp only [noQuantList, Bool.and_eq_true] at hq
    exact and_cons_ne hk inv (fun ti hi => safe_expr hk e Γ F ρ ti hq.1 inv hi)
      (fun inv' h' => safe_and hk es Γ _ ρ hq.2 inv' h') h
theorem safe_or (hk : Function.Injective key) :
    ∀ (es : List Expr) (Γ : TEnv) (F : Facts) (ρ : Env), noQuantList es = true → Inv key Γ F ρ →
      inferOr key Γ F es = .ok () → evalOr ρ es ≠ .noneDeref
  | [], _, _, _, _, _, _ => by simp [evalOr]
  | e :: es, Γ, F, ρ, hq, inv, h => by
    simp only [noQuantList, Bool.and_eq_true] at hq
    exact or_cons_ne hk inv (fun ti hi => safe_expr hk e Γ F ρ ti hq.1 inv hi)
      (fun inv' h' => safe_or hk es Γ _ ρ hq.2 inv' h') h
theorem safe_args (hk : Function.Injective key) :
    ∀ (es : List Expr) (Γ : TEnv) (F : Facts) (ρ : Env), noQuantList es = true → Inv key Γ F ρ →
      inferArgs key Γ F es = .ok () → ArgsSafe (evalArgs ρ es)
  | [], _, _, _, _, _, _ => by simp [evalArgs, ArgsSafe]
  | e :: es, Γ, F, ρ, hq, inv, h => by
    simp only [noQuantList, Bool.and_eq_true] at hq
    exact args_cons_safe (fun ti hi => safe_expr hk e Γ F ρ ti hq.1 inv hi)
      (fun h' => safe_args hk es Γ F ρ hq.2 inv h') h
theorem safe_parts (hk : Function.Injective key) :
    ∀ (ps : List JPart) (Γ : TEnv) (F : Facts) (ρ : Env), noQuantParts ps = true → Inv key Γ F ρ →
      inferParts key Γ F ps = .ok () → evalParts ρ ps ≠ .noneDeref
  | [], _, _, _, _, _, _ => by simp [evalParts]
  | .lit s :: ps, Γ, F, ρ, hq, inv, h => by
    simp only [noQuantParts] at hq
    simp only [inferParts] at h
    exact parts_lit_ne (safe_parts hk ps Γ F ρ hq inv h)
  | .fv e :: ps, Γ, F, ρ, hq, inv, h => by
    simp only [noQuantParts, Bool.and_eq_true] at hq
    exact parts_fv_ne inv (fun ti hi => safe_expr hk e Γ F ρ ti hq.1 inv hi)
      (fun h' => safe_parts hk ps Γ F ρ hq.2 inv h') h
end

end AasVerif.Expr
