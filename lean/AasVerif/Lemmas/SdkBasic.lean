import AasVerif.Model.SdkWf
/-! Generic helper lemmas for the C10 proofs: `nodupB`, `lookupLast`, `find?`, the setter state. -/
namespace AasVerif.Sdk

/-! ### `nodupB` -/

theorem nodupB_cons {x : Text} {xs : List Text} :
    nodupB (x :: xs) = true ↔ x ∉ xs ∧ nodupB xs = true := by
  simp [nodupB]

/-- no two different positions of `l` have the same image under `f` -/
theorem inj_of_nodupB_map {α : Type} (f : α → Text) :
    ∀ (l : List α), nodupB (l.map f) = true → ∀ a ∈ l, ∀ b ∈ l, f a = f b → a = b
  | [], _, a, ha, _, _, _ => by cases ha
  | x :: xs, h, a, ha, b, hb, hab => by
    rw [List.map_cons, nodupB_cons] at h
    have ih := inj_of_nodupB_map f xs h.2
    rcases List.mem_cons.mp ha with rfl | ha'
    · rcases List.mem_cons.mp hb with rfl | hb'
      · rfl
      · exact absurd (hab ▸ List.mem_map_of_mem (f := f) hb') h.1
    · rcases List.mem_cons.mp hb with rfl | hb'
      · exact absurd (hab ▸ List.mem_map_of_mem (f := f) ha') h.1
      · exact ih a ha' b hb' hab

/-! ### `lookupLast` -/

theorem lookupLast_some_mem {α : Type} :
    ∀ (l : List (Text × α)) (key : Text) (a : α), lookupLast l key = some a → (key, a) ∈ l
  | [], _, _, h => by simp [lookupLast] at h
  | (k, b) :: rest, key, a, h => by
    simp only [lookupLast] at h
    cases hr : lookupLast rest key with
    | some x =>
      rw [hr] at h
      cases h
      exact List.mem_cons_of_mem _ (lookupLast_some_mem rest key _ hr)
    | none =>
      rw [hr] at h
      by_cases hk : (k == key) = true
      · rw [if_pos hk] at h
        cases h
        have : k = key := by simpa using hk
        subst this
        exact List.mem_cons_self
      · rw [if_neg hk] at h
        cases h

theorem lookupLast_isSome_of_mem {α : Type} :
    ∀ (l : List (Text × α)) (key : Text) (a : α), (key, a) ∈ l → ∃ b, lookupLast l key = some b
  | [], _, _, h => by cases h
  | (k, b) :: rest, key, a, h => by
    simp only [lookupLast]
    cases hr : lookupLast rest key with
    | some x => exact ⟨x, rfl⟩
    | none =>
      rcases List.mem_cons.mp h with heq | hmem
      · cases heq
        exact ⟨b, by simp⟩
      · obtain ⟨b', hb'⟩ := lookupLast_isSome_of_mem rest key a hmem
        rw [hr] at hb'
        cases hb'

/-- with pairwise different keys the lookup finds exactly the entry -/
theorem lookupLast_of_mem_nodup {α : Type} (l : List (Text × α)) (key : Text) (a : α)
    (hn : nodupB (l.map (fun p => p.1)) = true) (h : (key, a) ∈ l) : lookupLast l key = some a := by
  obtain ⟨b, hb⟩ := lookupLast_isSome_of_mem l key a h
  have hm := lookupLast_some_mem l key b hb
  have := inj_of_nodupB_map (fun p : Text × α => p.1) l hn (key, a) h (key, b) hm rfl
  cases this
  exact hb

theorem lookupLast_append_single {α : Type} (l : List (Text × α)) (k key : Text) (a : α) :
    lookupLast (l ++ [(k, a)]) key = if k == key then some a else lookupLast l key := by
  induction l with
  | nil => simp [lookupLast]
  | cons x xs ih =>
    obtain ⟨k', b⟩ := x
    simp only [List.cons_append, lookupLast, ih]
    by_cases hk : (k == key) = true
    · simp [hk]
    · simp [hk]

/-! ### classes / enumerations found by name -/

theorem findClass_some {mm : MM} {c : Name} {cd : ClassDecl} (h : mm.findClass c = some cd) :
    cd ∈ mm.classes ∧ cd.name = c := by
  unfold MM.findClass at h
  refine ⟨List.mem_of_find?_eq_some h, ?_⟩
  have := List.find?_some h
  simpa using this

theorem findEnum_some {mm : MM} {e : Name} {ed : EnumDecl} (h : mm.findEnum e = some ed) :
    ed ∈ mm.enums ∧ ed.name = e := by
  unfold MM.findEnum at h
  refine ⟨List.mem_of_find?_eq_some h, ?_⟩
  have := List.find?_some h
  simpa using this

/-! ### the setter state -/

/-- what the property loop leaves in the state after the members written for `ps`/`fs` -/
def pushAll : List PropDecl → Vals → State → State
  | p :: ps, .cons v vs, st =>
    match v with
    | .none => pushAll ps vs st
    | v => pushAll ps vs ((p.name, v) :: st)
  | _, _, st => st

theorem stGet_pushAll_notin :
    ∀ (ps : List PropDecl) (fs : Vals) (st : State) (n : Name),
      n ∉ ps.map (fun p => p.name) → stGet (pushAll ps fs st) n = stGet st n
  | [], fs, st, n, _ => by cases fs <;> simp [pushAll]
  | p :: ps, .nil, st, n, _ => by simp [pushAll]
  | p :: ps, .cons v vs, st, n, h => by
    have hp : p.name ≠ n := fun e => h (by simp [e])
    have hn : n ∉ ps.map (fun p => p.name) := fun e => h (by simp [e])
    cases v <;> simp only [pushAll] <;> rw [stGet_pushAll_notin ps vs _ n hn] <;>
      simp [stGet, hp]

end AasVerif.Sdk

namespace AasVerif.Sdk

/-- lengths agree and only optional properties hold `None` -/
def fieldsShape : List PropDecl → Vals → Bool
  | [], .nil => true
  | p :: ps, .cons v vs =>
    (match v with
      | .none => p.ty.isOpt
      | _ => true) && fieldsShape ps vs
  | _, _ => false

theorem assemble_pushAll :
    ∀ (ps : List PropDecl) (fs : Vals) (st : State),
      nodupB (ps.map (fun p => p.name)) = true → (∀ p ∈ ps, stGet st p.name = none) →
      fieldsShape ps fs = true → assemble ps (pushAll ps fs st) = .ok fs
  | [], .nil, _, _, _, _ => by simp [assemble, pushAll]
  | [], .cons _ _, _, _, _, h => by simp [fieldsShape] at h
  | _ :: _, .nil, _, _, _, h => by simp [fieldsShape] at h
  | p :: ps, .cons v vs, st, hn, hst, hsh => by
    rw [List.map_cons, nodupB_cons] at hn
    have hpn : p.name ∉ ps.map (fun p => p.name) := hn.1
    have hst' : ∀ q ∈ ps, stGet st q.name = none := fun q hq => hst q (List.mem_cons_of_mem _ hq)
    have hne : ∀ q ∈ ps, p.name ≠ q.name := fun q hq e =>
      hpn (e ▸ List.mem_map_of_mem (f := fun p => p.name) hq)
    have hsh2 : fieldsShape ps vs = true := by
      simp only [fieldsShape, Bool.and_eq_true] at hsh
      exact hsh.2
    by_cases hv : v = .none
    · subst hv
      have hopt : p.ty.isOpt = true := by
        simp only [fieldsShape, Bool.and_eq_true] at hsh
        exact hsh.1
      have ih := assemble_pushAll ps vs st hn.2 hst' hsh2
      simp only [pushAll, assemble]
      rw [stGet_pushAll_notin ps vs st p.name hpn, hst p List.mem_cons_self, ih]
      simp [hopt]
    · have hst2 : ∀ q ∈ ps, stGet ((p.name, v) :: st) q.name = none := by
        intro q hq
        simp only [stGet]
        have : (p.name == q.name) = false := by simpa using hne q hq
        rw [this]
        exact hst' q hq
      have ih := assemble_pushAll ps vs ((p.name, v) :: st) hn.2 hst2 hsh2
      have hpush : pushAll (p :: ps) (.cons v vs) st = pushAll ps vs ((p.name, v) :: st) := by
        cases v <;> first | exact absurd rfl hv | rfl
      rw [hpush]
      simp only [assemble]
      rw [stGet_pushAll_notin ps vs _ p.name hpn]
      simp [stGet, ih]

end AasVerif.Sdk
