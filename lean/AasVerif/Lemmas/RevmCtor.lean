import AasVerif.Lemmas.RevmTop
import AasVerif.Model.Retree.InRange
/-!
The constructors of `InstructionSet` / `InstructionNotSet` / `Range` in the generated `revm.cpp` throw on
empty, unsorted or overlapping ranges (while the program constant is initialised).  For an accepted pattern
without an empty character set (`[]`, which only a defect of the parser produces) they do not.
-/
set_option linter.unusedSimpArgs false
namespace AasVerif.Revm
open AasVerif.Retree

mutual
  /-- no character set without ranges -/
  def neV : Value → Bool
    | .group u => neU u
    | .set _ rs => !rs.isEmpty
    | _ => true
  def neT : Term → Bool
    | .mk v _ => neV v
  def neTs : List Term → Bool
    | [] => true
    | t :: ts => neT t && neTs ts
  def neC : Concat → Bool
    | .mk ts => neTs ts
  def neCs : List Concat → Bool
    | [] => true
    | c :: cs => neC c && neCs cs
  def neU : Union → Bool
    | .mk us => neCs us
end

def NoEmptySets (p : Program) : Prop :=
  ∀ i ∈ p, ∀ rs, (i = .set rs ∨ i = .notSet rs) → rs ≠ []

theorem NoEmptySets.nil : NoEmptySets [] := by intro i hi; simp at hi

theorem NoEmptySets.append {a b : Program} (ha : NoEmptySets a) (hb : NoEmptySets b) : NoEmptySets (a ++ b) := by
  intro i hi rs h
  simp at hi
  rcases hi with h' | h'
  · exact ha i h' rs h
  · exact hb i h' rs h

theorem NoEmptySets.cons {i : Instr} {b : Program} (hi : ∀ rs, (i = .set rs ∨ i = .notSet rs) → rs ≠ [])
    (hb : NoEmptySets b) : NoEmptySets (i :: b) := by
  intro j hj rs h
  simp at hj
  rcases hj with h' | h'
  · subst h'; exact hi rs h
  · exact hb j h' rs h

theorem NoEmptySets.single (i : Instr) (h : ∀ rs, i ≠ .set rs ∧ i ≠ .notSet rs) : NoEmptySets [i] :=
  NoEmptySets.cons (fun rs hh => by
    rcases hh with e | e
    · exact absurd e (h rs).1
    · exact absurd e (h rs).2) NoEmptySets.nil

theorem noEmpty_repAt {f : Nat → Program} {sz} (hf : ∀ b, NoEmptySets (f b)) :
    ∀ k base, NoEmptySets (repAt f sz k base)
  | 0, _ => by simpa [repAt] using NoEmptySets.nil
  | k + 1, base => by
    simp only [repAt]
    exact (hf base).append (noEmpty_repAt hf k _)

theorem noEmpty_optAt {f : Nat → Program} {sz fin} (hf : ∀ b, NoEmptySets (f b)) :
    ∀ k base, NoEmptySets (optAt f sz fin k base)
  | 0, _ => by simpa [optAt] using NoEmptySets.nil
  | k + 1, base => by
    simp only [optAt]
    exact NoEmptySets.cons (by intro rs h; rcases h with h | h <;> cases h)
      ((hf _).append (noEmpty_optAt hf k _))

theorem noEmpty_quantAt {f : Nat → Program} {sz} (hf : ∀ b, NoEmptySets (f b)) (q : Quant) (base : Nat) :
    NoEmptySets (quantAt f sz q base) := by
  unfold quantAt
  split
  · exact hf base
  · split
    · exact (noEmpty_repAt hf _ _).append (noEmpty_optAt hf _ _)
    · split
      · exact NoEmptySets.cons (by intro rs h; rcases h with h | h <;> cases h)
          ((hf _).append (NoEmptySets.single _ (by intro rs; constructor <;> intro h <;> cases h)))
      · exact (noEmpty_repAt hf _ _).append
          ((hf _).append (NoEmptySets.single _ (by intro rs; constructor <;> intro h <;> cases h)))

theorem sortRanges_ne_nil (xs : List Range) (h : xs ≠ []) : sortRanges xs ≠ [] := by
  intro he
  have : (sortRanges xs).length = xs.length := by unfold sortRanges; exact List.length_mergeSort _
  rw [he] at this
  cases xs with
  | nil => exact h rfl
  | cons a as => simp at this

mutual
  theorem neSetsV : (v : Value) → neV v = true → ∀ base, NoEmptySets (compV v base)
    | .group u, h, base => by
      have := neSetsU u (by simpa [neV] using h) base
      simpa [compV] using this
    | .char c, _, _ => by
      simpa [compV] using NoEmptySets.single (.char c.code) (by intro rs; constructor <;> intro h <;> cases h)
    | .set compl rs, h, _ => by
      have hne : sortRanges (rs.map pureRange) ≠ [] := by
        apply sortRanges_ne_nil
        cases rs with
        | nil => simp [neV] at h
        | cons a as => simp
      simp only [compV]
      apply NoEmptySets.cons _ NoEmptySets.nil
      intro rs' hh
      cases compl <;> simp at hh <;> (subst hh; exact hne)
    | .fv _, _, _ => by simpa [compV] using NoEmptySets.nil
    | .sym .start, _, _ => by simpa [compV] using NoEmptySets.nil
    | .sym .stop, _, _ => by
      simpa [compV] using NoEmptySets.single .atEnd (by intro rs; constructor <;> intro h <;> cases h)
    | .sym .dot, _, _ => by
      simpa [compV] using NoEmptySets.single .any (by intro rs; constructor <;> intro h <;> cases h)
  theorem neSetsT : (t : Term) → neT t = true → ∀ base, NoEmptySets (compT t base)
    | .mk v none, h, base => by
      have := neSetsV v (by simpa [neT] using h) base
      simpa [compT] using this
    | .mk v (some q), h, base => by
      simp only [compT]
      exact noEmpty_quantAt (neSetsV v (by simpa [neT] using h)) q base
  theorem neSetsTs : (ts : List Term) → neTs ts = true → ∀ base, NoEmptySets (compTs ts base)
    | [], _, _ => by simpa [compTs] using NoEmptySets.nil
    | t :: ts, h, base => by
      have h' : neT t = true ∧ neTs ts = true := by simpa [neTs] using h
      simp only [compTs]
      exact (neSetsT t h'.1 base).append (neSetsTs ts h'.2 _)
  theorem neSetsC : (c : Concat) → neC c = true → ∀ base, NoEmptySets (compC c base)
    | .mk ts, h, base => by
      have := neSetsTs ts (by simpa [neC] using h) base
      simpa [compC] using this
  theorem neSetsCs : (cs : List Concat) → neCs cs = true → ∀ fin base, NoEmptySets (compCs fin cs base)
    | [], _, _, _ => by simpa [compCs] using NoEmptySets.nil
    | [c], h, _, base => by
      have h' : neC c = true := by simpa [neCs] using h
      simpa [compCs] using neSetsC c h' base
    | c :: c' :: cs, h, fin, base => by
      have h' : neC c = true ∧ neCs (c' :: cs) = true := by simpa [neCs] using h
      simp only [compCs]
      exact NoEmptySets.cons (by intro rs hh; rcases hh with hh | hh <;> cases hh)
        ((neSetsC c h'.1 _).append (NoEmptySets.cons (by intro rs hh; rcases hh with hh | hh <;> cases hh)
          (neSetsCs (c' :: cs) h'.2 _ _)))
  theorem neSetsU : (u : Union) → neU u = true → ∀ base, NoEmptySets (compU u base)
    | .mk us, h, base => by
      simpa [compU] using neSetsCs us (by simpa [neU] using h) _ base
end

theorem neTs_take : ∀ (ts : List Term) (k : Nat), neTs ts = true → neTs (ts.take k) = true
  | [], k, _ => by simp [neTs]
  | t :: ts, 0, _ => by simp [neTs]
  | t :: ts, k + 1, h => by
    have h' : neT t = true ∧ neTs ts = true := by simpa [neTs] using h
    simp [neTs, h'.1, neTs_take ts k h'.2]

theorem neTs_body (t : Term) (ts : List Term) (h : neTs ts = true) : neTs (bodyTerms (t :: ts)) = true := by
  unfold bodyTerms
  simp only [List.drop_succ_cons, List.drop_zero]
  split
  · split
    · exact neTs_take ts _ h
    · exact h
  · exact h

theorem cppSorted_of_rangesSorted : ∀ (rs : List Range), RangesSorted rs →
    cppRangesOk.sorted rs = true ∧ ∀ r ∈ rs, r.first ≤ r.last
  | [], _ => by simp [cppRangesOk.sorted]
  | [a], h => by
    simp only [RangesSorted, rangesSortedB, decide_eq_true_eq] at h
    simp [cppRangesOk.sorted, h]
  | a :: b :: rest, h => by
    simp only [RangesSorted, rangesSortedB, Bool.and_eq_true, decide_eq_true_eq] at h
    have ih := cppSorted_of_rangesSorted (b :: rest) h.2
    refine ⟨?_, ?_⟩
    · simp only [cppRangesOk.sorted, Bool.and_eq_true, Bool.not_eq_true', decide_eq_false_iff_not]
      exact ⟨by omega, ih.1⟩
    · intro r hr
      simp only [List.mem_cons] at hr
      rcases hr with hr | hr
      · subst hr; exact h.1.1
      · exact ih.2 r (by simpa using hr)

theorem cppRangesOk_of_sorted (rs : List Range) (h : RangesSorted rs) (hne : rs ≠ []) : cppRangesOk rs = true := by
  obtain ⟨h1, h2⟩ := cppSorted_of_rangesSorted rs h
  simp only [cppRangesOk, Bool.and_eq_true, List.all_eq_true, decide_eq_true_eq, Bool.not_eq_true']
  refine ⟨⟨?_, h2⟩, h1⟩
  cases rs with
  | nil => exact absurd rfl hne
  | cons a as => rfl

theorem constructible_of (p : Program) (h1 : SetsSorted p) (h2 : NoEmptySets p) : cppConstructible p = true := by
  unfold cppConstructible
  rw [List.all_eq_true]
  intro i hi
  cases i with
  | set rs => exact cppRangesOk_of_sorted rs (h1 _ hi rs (Or.inl rfl)) (h2 _ hi rs (Or.inl rfl))
  | notSet rs => exact cppRangesOk_of_sorted rs (h1 _ hi rs (Or.inr rfl)) (h2 _ hi rs (Or.inr rfl))
  | _ => rfl

/-- The program constant of an accepted pattern without `[]` can be constructed (no constructor throws). -/
theorem translate_constructible (r : Regex) (p : List Leaf) (hr : Accepted r) (hne : neU r = true)
    (hp : translate r = .ok p) : cppConstructible (instrs p) = true := by
  rw [(translate_accepted r p hr hp).1]
  apply constructible_of _ (setsSorted_compileTop r hr)
  obtain ⟨t, ts, l, hrr, _, _, _, _⟩ := accepted_shape r hr
  subst hrr
  have hts : neTs ts = true := by
    simp [neU, neCs, neC, neTs] at hne
    exact hne.2
  simp only [compileTop]
  exact (neSetsTs _ (neTs_body t ts hts) 0).append
    (NoEmptySets.single .matched (by intro rs; constructor <;> intro h <;> cases h))

/-! ### the image of the parser holds no character set without ranges

Since the repair of the parser (a closing bracket in the first position is a member of the set) `inRangeTop`, which
every output of `Retree.parse` satisfies, implies `neU`. -/

mutual
  theorem neV_of_inRange : (v : Value) → inRangeValue v = true → neV v = true
    | .group u, h => by
      simp only [inRangeValue, Bool.and_eq_true] at h
      simpa [neV] using neU_of_inRange u h.1
    | .set _ rs, h => by
      simp only [inRangeValue, inRangeSet, Bool.and_eq_true] at h
      simpa [neV] using h.1.1.1
    | .char _, _ => by simp [neV]
    | .fv _, _ => by simp [neV]
    | .sym _, _ => by simp [neV]
  theorem neTs_of_inRange : (ts : List Term) → inRangeTerms ts = true → neTs ts = true
    | [], _ => by simp [neTs]
    | .mk v q :: ts, h => by
      simp only [inRangeTerms, inRangeTerm, Bool.and_eq_true] at h
      simp [neTs, neT, neV_of_inRange v h.1.1, neTs_of_inRange ts h.2]
  theorem neCs_of_inRange : (cs : List Concat) → inRangeConcats cs = true → neCs cs = true
    | [], _ => by simp [neCs]
    | .mk ts :: cs, h => by
      simp only [inRangeConcats, Bool.and_eq_true] at h
      simp [neCs, neC, neTs_of_inRange ts h.1, neCs_of_inRange cs h.2]
  theorem neU_of_inRange : (u : Union) → inRangeUnion u = true → neU u = true
    | .mk us, h => by
      simp only [inRangeUnion] at h
      simpa [neU] using neCs_of_inRange us h
end

end AasVerif.Revm
