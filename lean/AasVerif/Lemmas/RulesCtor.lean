import AasVerif.Lemmas.RulesBasic
/-! Constructor arguments versus properties: the loop of the checker decides `CtorMatches`. -/
namespace AasVerif.Rules
open AasVerif

theorem sameNames_iff (a b : List Text) :
    sameNames a b = true ↔ (∀ x ∈ a, x ∈ b) ∧ (∀ x ∈ b, x ∈ a) := by
  simp [sameNames, List.all_eq_true]

theorem typeErrors_eq_nil (args : List Arg) (props : List PropDecl) :
    typeErrors args props = [] ↔ ∀ p ∈ props, ∃ a, findArg args p.name = some a ∧ a.ty = p.ty := by
  unfold typeErrors
  rw [report_eq_nil]
  constructor
  · intro h p hp
    have := h p hp
    cases hf : findArg args p.name with
    | none => simp [hf] at this
    | some a =>
      simp only [hf, bne_eq_false_iff_eq] at this
      exact ⟨a, rfl, this⟩
  · intro h p hp
    obtain ⟨a, hf, ht⟩ := h p hp
    simp [hf, ht]

/-- What one round of the loop tests for one class. -/
def ctorOk (cs : List Cls) (c : Cls) : Prop :=
  ¬ (c.props ≠ [] ∧ c.ctor = none) ∧
  sameNames (c.args.map (·.name)) ((stackedProps cs c).map (·.name)) = true ∧
  orderedArgs c.args = orderedProps c.args ((stackedProps cs c).map (·.name)) ∧
  typeErrors c.args (stackedProps cs c) = []

theorem matchLoop_eq_nil (cs : List Cls) (l : List Cls) (errs : List RuleId) :
    matchLoop cs l errs = [] ↔ errs = [] ∧ ∀ c ∈ l, ctorOk cs c := by
  induction l generalizing errs with
  | nil => simp [matchLoop]
  | cons c rest ih =>
    rw [matchLoop]
    simp only [List.mem_cons, forall_eq_or_imp]
    split
    · next h1 =>
      rw [ih]
      constructor
      · rintro ⟨he, _⟩; simp at he
      · rintro ⟨_, hc, _⟩; exact absurd h1 hc.1
    · next h1 =>
      split
      · next h2 =>
        rw [ih]
        constructor
        · rintro ⟨he, _⟩; simp at he
        · rintro ⟨_, hc, _⟩
          have := hc.2.1
          rw [h2] at this
          cases this
      · next h2 =>
        have h2' : sameNames (c.args.map (·.name)) ((stackedProps cs c).map (·.name)) = true := by
          cases hb : sameNames (c.args.map (·.name)) ((stackedProps cs c).map (·.name))
          · exact absurd hb h2
          · rfl
        split
        · next h3 =>
          rw [ih]
          constructor
          · rintro ⟨he, _⟩; simp at he
          · rintro ⟨_, hc, _⟩; exact absurd hc.2.2.1 h3
        · next h3 =>
          have h3' : orderedArgs c.args = orderedProps c.args ((stackedProps cs c).map (·.name)) := by
            exact Classical.byContradiction (fun h => h3 h)
          split
          · next h4 =>
            constructor
            · intro he; exact absurd he h4
            · rintro ⟨he, _⟩; exact absurd he h4
          · next h4 =>
            have h4' : errs = [] := Classical.byContradiction (fun h => h4 h)
            subst h4'
            rw [ih]
            simp only [List.nil_append, true_and]
            constructor
            · rintro ⟨ht, hr⟩
              exact ⟨⟨h1, h2', h3', ht⟩, hr⟩
            · rintro ⟨hc, hr⟩
              exact ⟨hc.2.2.2, hr⟩

theorem ctorOk_iff (cs : List Cls) (c : Cls) : ctorOk cs c ↔ CtorMatches cs c := by
  unfold ctorOk
  rw [sameNames_iff, typeErrors_eq_nil]
  constructor
  · rintro ⟨h1, ⟨h2a, h2b⟩, h3, h4⟩
    refine ⟨?_, ⟨?_, ?_⟩, h3, h4⟩
    · intro hp
      cases hc : c.ctor with
      | none => exact absurd ⟨hp, hc⟩ h1
      | some _ => rfl
    · intro a ha
      exact h2a a.name (List.mem_map.mpr ⟨a, ha, rfl⟩)
    · intro p hp
      exact h2b p.name (List.mem_map.mpr ⟨p, hp, rfl⟩)
  · rintro ⟨h1, ⟨h2a, h2b⟩, h3, h4⟩
    refine ⟨?_, ⟨?_, ?_⟩, h3, h4⟩
    · rintro ⟨hp, hn⟩
      have := h1 hp
      simp [hn] at this
    · intro x hx
      obtain ⟨a, ha, rfl⟩ := List.mem_map.mp hx
      exact h2a a ha
    · intro x hx
      obtain ⟨p, hp, rfl⟩ := List.mem_map.mp hx
      exact h2b p hp

theorem matchErrors_eq_nil (m : MM) : matchErrors m = [] ↔ ∀ c ∈ m.classes, CtorMatches m.classes c := by
  unfold matchErrors
  rw [matchLoop_eq_nil]
  simp only [true_and]
  constructor
  · intro h c hc; exact (ctorOk_iff _ _).mp (h c hc)
  · intro h c hc; exact (ctorOk_iff _ _).mpr (h c hc)

/-- A matching constructor initializes every property (canonical bodies). -/
theorem initErrors_of_matches (m : MM) (h : ∀ c ∈ m.classes, CtorMatches m.classes c) :
    initErrors m = [] := by
  unfold initErrors
  rw [List.flatMap_eq_nil_iff]
  intro c hc
  rw [report_eq_nil]
  intro p hp
  obtain ⟨a, hf, ht⟩ := (h c hc).types p hp
  unfold propInitialized
  simp only [hf, ht]
  cases p.ty.isOpt <;> simp

theorem defaultErrors_eq_nil (m : MM) :
    defaultErrors m = [] ↔ ∀ c ∈ m.classes, ∀ a ∈ c.args, a.ty.isOpt = true → a.dflt = .none := by
  unfold defaultErrors
  rw [List.flatMap_eq_nil_iff]
  constructor
  · intro h c hc a ha ho
    have := (report_eq_nil _ _ _).mp (h c hc) a ha
    simpa [ho] using this
  · intro h c hc
    rw [report_eq_nil]
    intro a ha
    cases ho : a.ty.isOpt
    · simp
    · simp [h c hc a ha ho]

end AasVerif.Rules
