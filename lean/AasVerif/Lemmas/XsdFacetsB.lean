import AasVerif.Model.Xsd
import AasVerif.Lemmas.XsdMatchBRead
/-!
An executable version of the facet validity `Xsd.FacetsValid` (length bounds, and the pattern facet
read by `XsdRe.read` and matched by the executable `XsdRe.matchB`), proved equal to it: the validity
of a text against the written facets — the notion the C14 theorems are stated in — is decidable by the
very matcher the driver runs.
-/
namespace AasVerif.Xsd
open AasVerif AasVerif.XsdPattern

/-- `FacetsValid`, computed -/
def facetsValidB (pattern : Option Text) (mn mx : Option Nat) (s : Text) : Bool :=
  lengthOk mn mx s.length &&
    match pattern with
    | none => true
    | some t =>
      match XsdRe.read t with
      | .ok x => XsdRe.matchB x s
      | .error _ => false

theorem facetsValidB_iff (pattern : Option Text) (mn mx : Option Nat) (s : Text) :
    facetsValidB pattern mn mx s = true ↔ FacetsValid pattern mn mx s := by
  unfold facetsValidB FacetsValid
  rw [Bool.and_eq_true]
  refine and_congr Iff.rfl ?_
  cases pattern with
  | none => simp
  | some t =>
    simp only [Option.some.injEq, forall_eq']
    cases hr : XsdRe.read t with
    | ok x =>
      simp only [Except.ok.injEq, exists_eq_left']
      exact XsdRe.read_matchB_iff hr s
    | error e => simp

instance (pattern : Option Text) (mn mx : Option Nat) (s : Text) : Decidable (FacetsValid pattern mn mx s) :=
  decidable_of_iff _ (facetsValidB_iff pattern mn mx s)

end AasVerif.Xsd
