import AasVerif.Lemmas.RevmSem1
/-!
Correctness of the compositional regex → VM compiler (`Model/RevmCompile.lean`) with respect to
the denotational semantics of the regex tree (`Model/Retree/Sem.lean`):

* `snd_compV … snd_compU` — soundness of every fragment (mutual structural recursion on the tree);
* `cmp_compV … cmp_compU` — completeness of every fragment;
* `compileTop_correct` — for an accepted pattern and a text without line breaks, the VM accepts
  iff the pattern fully matches (including the `.*$` → early `match` shortcut of `bodyTerms`).

(`okU` excludes unions without uniates: `compU (.mk []) = []` accepts the empty word while
`MUnion (.mk [])` matches nothing.)
-/
namespace AasVerif.Revm
open AasVerif.Retree

/-! ## Character sets -/

theorem pureRange_contains (r : Rng) (c : Nat) :
    (decide ((pureRange r).first ≤ c) && decide (c ≤ (pureRange r).last)) = r.contains c := by
  obtain ⟨s, e⟩ := r
  rw [Bool.eq_iff_iff, Bool.and_eq_true]
  cases e with
  | none =>
    simp only [pureRange, Rng.contains, beq_iff_eq]
    exact ⟨fun h => Nat.le_antisymm (of_decide_eq_true h.2) (of_decide_eq_true h.1),
      fun h => ⟨decide_eq_true (Nat.le_of_eq h.symm), decide_eq_true (Nat.le_of_eq h)⟩⟩
  | some e =>
    simp only [pureRange, Rng.contains, Bool.and_eq_true]
    exact ⟨fun h => ⟨decide_eq_true (of_decide_eq_true h.1), decide_eq_true (of_decide_eq_true h.2)⟩,
      fun h => ⟨decide_eq_true (of_decide_eq_true h.1), decide_eq_true (of_decide_eq_true h.2)⟩⟩

theorem inRanges_pure (rs : List Rng) (c : Nat) :
    inRanges (sortRanges (rs.map pureRange)) c = rs.any (·.contains c) := by
  unfold inRanges sortRanges
  rw [(List.mergeSort_perm _ _).any_eq, List.any_map]
  congr 1
  funext r
  exact pureRange_contains r c

theorem setAccepts_true_iff (rs : List Rng) (c : Nat) :
    setAccepts true rs c = true ↔ inRanges (sortRanges (rs.map pureRange)) c = false := by
  rw [inRanges_pure]
  unfold setAccepts
  cases rs.any (·.contains c) <;> simp

theorem setAccepts_false_iff (rs : List Rng) (c : Nat) :
    setAccepts false rs c = true ↔ inRanges (sortRanges (rs.map pureRange)) c = true := by
  rw [inRanges_pure]
  unfold setAccepts
  cases rs.any (·.contains c) <;> simp

/-! ## Small facts about `ok…` -/

theorem okT_quant {v : Value} {q : Quant} (h : okT (.mk v (some q)) = true) :
    okV v = true ∧ quantOk q = true := by
  cases v with
  | sym k => cases k <;> simp_all [okT, okV]
  | _ => simpa [okT] using h

theorem okTs_append (as bs : List Term) : okTs (as ++ bs) = (okTs as && okTs bs) := by
  induction as with
  | nil => simp [okTs]
  | cons a as ih => simp [okTs, ih, Bool.and_assoc]

theorem concat_mk_terms (c : Concat) : Concat.mk c.terms = c := by
  cases c
  rfl

/-! ## Soundness of the fragments -/

mutual
  theorem snd_compV : ∀ (v : Value), okV v = true  → ∀ (p : Program) (base : Nat),
      CodeAt p base (compV v base) →
      Snd p base (base + sizeV v) (fun u y => ∀ pre, MValue v pre u y)
    | .group u, hok, p, base, hc => by
      have h := snd_compU u (by simpa [okV] using hok) p base
        (by simpa [compV] using hc)
      rw [sizeV]
      exact snd_mono h (fun u y hu pre => MValue_group_iff.mpr (hu pre))
    | .char c, _, p, base, hc => by
      rw [compV, codeAt_cons] at hc
      rw [sizeV]
      exact snd_mono (snd_char hc.1) (fun u y hu pre => MValue_char_iff.mpr hu)
    | .set compl rs, _, p, base, hc => by
      simp only [compV, codeAt_cons] at hc
      rw [sizeV]
      cases compl with
      | true =>
        simp only [if_true] at hc
        exact snd_mono (snd_notSet hc.1) (fun u y ⟨c, hu, hin⟩ pre =>
          MValue_set_iff.mpr ⟨c, hu, (setAccepts_true_iff rs c).mpr hin⟩)
      | false =>
        simp only [Bool.false_eq_true, if_false] at hc
        exact snd_mono (snd_set hc.1) (fun u y ⟨c, hu, hin⟩ pre =>
          MValue_set_iff.mpr ⟨c, hu, (setAccepts_false_iff rs c).mpr hin⟩)
    | .fv _, hok, _, _, _ => by simp [okV] at hok
    | .sym .start, hok, _, _, _ => by simp [okV] at hok
    | .sym .stop, _, p, base, hc => by
      rw [compV, codeAt_cons] at hc
      rw [sizeV]
      exact snd_mono (snd_atEnd hc.1) (fun u y hu pre => MValue_stop_iff.mpr ⟨hu.1, .inl hu.2⟩)
    | .sym .dot, _, p, base, hc => by
      rw [compV, codeAt_cons] at hc
      rw [sizeV]
      exact snd_mono (snd_any hc.1) (fun u y hu pre => MValue_dot_iff.mpr hu)
  theorem snd_compT : ∀ (t : Term), okT t = true → ∀ (p : Program) (base : Nat),
      CodeAt p base (compT t base) →
      Snd p base (base + sizeT t) (fun u y => ∀ pre, MTerm t pre u y)
    | .mk v none, hok, p, base, hc => by
      have h := snd_compV v (by simpa [okT] using hok) p base
        (by simpa [compT] using hc)
      rw [sizeT]
      exact snd_mono h (fun u y hu pre => MTerm_plain_iff.mpr (hu pre))
    | .mk v (some q), hok, p, base, hc => by
      obtain ⟨hokv, hq⟩ := okT_quant hok
      rw [compT] at hc
      rw [sizeT]
      have h := (snd_fragLogic p).quantAt (compV_length v)
        (fun b hb => snd_compV v hokv p b hb) q hq base hc
      exact snd_mono h (fun u y hu pre => MTerm_quant_iff.mpr (hu.toMRep pre))
  theorem snd_compTs : ∀ (ts : List Term), okTs ts = true →
      ∀ (p : Program) (base : Nat), CodeAt p base (compTs ts base) →
      Snd p base (base + sizeTs ts) (fun u y => ∀ pre, MTerms ts pre u y)
    | [], _, p, base, _ => by
      rw [sizeTs, Nat.add_zero]
      exact snd_mono (snd_refl p base) (fun u y hu pre => MTerms_nil_iff.mpr hu)
    | t :: ts, hok, p, base, hc => by
      rw [okTs, Bool.and_eq_true] at hok
      rw [compTs, codeAt_append, compT_length] at hc
      have h₁ := snd_compT t hok.1 p base hc.1
      have h₂ := snd_compTs ts hok.2 p (base + sizeT t) hc.2
      rw [sizeTs, ← Nat.add_assoc]
      exact snd_mono (snd_seq h₁ h₂) (fun u y ⟨u₁, u₂, hu, hu₁, hu₂⟩ pre =>
        MTerms_cons_iff.mpr ⟨u₁, u₂, hu, hu₁ pre, hu₂ (pre ++ u₁)⟩)
  theorem snd_compC : ∀ (c : Concat), okC c = true → ∀ (p : Program) (base : Nat),
      CodeAt p base (compC c base) →
      Snd p base (base + sizeC c) (fun u y => ∀ pre, MTerms c.terms pre u y)
    | .mk ts, hok, p, base, hc => by
      rw [sizeC]
      exact snd_compTs ts (by simpa [okC] using hok) p base
        (by simpa [compC] using hc)
  theorem snd_compCs : ∀ (cs : List Concat), cs ≠ [] → okCs cs = true →
      ∀ (p : Program) (base final : Nat), final = base + sizeCs cs →
      CodeAt p base (compCs final cs base) →
      Snd p base final (fun u y => ∀ pre, ∃ ts, Concat.mk ts ∈ cs ∧ MTerms ts pre u y)
    | [], hnil, _, _, _, _, _, _ => absurd rfl hnil
    | [c], _, hok, p, base, final, hfin, hc => by
      rw [okCs, Bool.and_eq_true] at hok
      rw [compCs] at hc
      rw [sizeCs] at hfin
      subst hfin
      exact snd_mono (snd_compC c hok.1 p base hc) (fun u y hu pre =>
        ⟨c.terms, by simp [concat_mk_terms], hu pre⟩)
    | c :: c' :: cs, _, hok, p, base, final, hfin, hc => by
      rw [okCs, Bool.and_eq_true] at hok
      rw [compCs, codeAt_cons, codeAt_append, compC_length, codeAt_cons] at hc
      obtain ⟨hsplit, hbody, hjump, hrest⟩ := hc
      rw [sizeCs] at hfin
      rw [show base + 1 + sizeC c + 1 = base + sizeC c + 2 by omega] at hrest
      have h₁ := snd_compC c hok.1 p (base + 1) hbody
      have h₂ := snd_compCs (c' :: cs) (by simp) hok.2 p (base + sizeC c + 2) final
        (by omega) hrest
      have h₁' := snd_seq h₁ (snd_jump hjump (snd_refl p final))
      refine snd_mono (snd_split hsplit h₁' h₂) (fun u y hu pre => ?_)
      rcases hu with ⟨u₁, u₂, rfl, hu₁, rfl⟩ | hu
      · exact ⟨c.terms, by simp [concat_mk_terms], by simpa using hu₁ pre⟩
      · obtain ⟨ts, hm, hts⟩ := hu pre
        exact ⟨ts, List.mem_cons_of_mem _ hm, hts⟩
  theorem snd_compU : ∀ (u : Union), okU u = true → ∀ (p : Program) (base : Nat),
      CodeAt p base (compU u base) →
      Snd p base (base + sizeU u) (fun s y => ∀ pre, MUnion u pre s y)
    | .mk us, hok, p, base, hc => by
      rw [okU, Bool.and_eq_true] at hok
      have hnil : us ≠ [] := by
        intro h
        subst h
        simp at hok
      rw [compU] at hc
      rw [sizeU]
      exact snd_mono (snd_compCs us hnil hok.2 p base _ rfl hc)
        (fun u y hu pre => MUnion_iff.mpr (hu pre))
end

/-! ## Completeness of the fragments -/

mutual
  theorem cmp_compV : ∀ (v : Value), okV v = true  → ∀ (p : Program) (base : Nat),
      CodeAt p base (compV v base) →
      Cmp p base (base + sizeV v) (fun u y => ∃ pre, MValue v pre u y)
    | .group u, hok, p, base, hc => by
      have h := cmp_compU u (by simpa [okV] using hok) p base
        (by simpa [compV] using hc)
      rw [sizeV]
      exact cmp_mono h (fun u y _ ⟨pre, hu⟩ => ⟨pre, MValue_group_iff.mp hu⟩)
    | .char c, _, p, base, hc => by
      rw [compV, codeAt_cons] at hc
      rw [sizeV]
      exact cmp_mono (cmp_char hc.1) (fun u y _ ⟨pre, hu⟩ => MValue_char_iff.mp hu)
    | .set compl rs, _, p, base, hc => by
      simp only [compV, codeAt_cons] at hc
      rw [sizeV]
      cases compl with
      | true =>
        simp only [if_true] at hc
        refine cmp_mono (cmp_notSet hc.1) (fun u y _ ⟨pre, hu⟩ => ?_)
        obtain ⟨c, hu, hin⟩ := MValue_set_iff.mp hu
        exact ⟨c, hu, (setAccepts_true_iff rs c).mp hin⟩
      | false =>
        simp only [Bool.false_eq_true, if_false] at hc
        refine cmp_mono (cmp_set hc.1) (fun u y _ ⟨pre, hu⟩ => ?_)
        obtain ⟨c, hu, hin⟩ := MValue_set_iff.mp hu
        exact ⟨c, hu, (setAccepts_false_iff rs c).mp hin⟩
    | .fv _, hok, _, _, _ => by simp [okV] at hok
    | .sym .start, hok, _, _, _ => by simp [okV] at hok
    | .sym .stop, _, p, base, hc => by
      rw [compV, codeAt_cons] at hc
      rw [sizeV]
      refine cmp_mono (cmp_atEnd hc.1) (fun u y hnl ⟨pre, hu⟩ => ?_)
      obtain ⟨hu, hy | hy⟩ := MValue_stop_iff.mp hu
      · exact ⟨hu, hy⟩
      · subst hy
        exact absurd rfl (hnl.of_append_right 10 (by simp))
    | .sym .dot, _, p, base, hc => by
      rw [compV, codeAt_cons] at hc
      rw [sizeV]
      refine cmp_mono (cmp_any hc.1) (fun u y _ ⟨pre, hu⟩ => ?_)
      obtain ⟨c, hu, _⟩ := MValue_dot_iff.mp hu
      exact ⟨c, hu⟩
  theorem cmp_compT : ∀ (t : Term), okT t = true → ∀ (p : Program) (base : Nat),
      CodeAt p base (compT t base) →
      Cmp p base (base + sizeT t) (fun u y => ∃ pre, MTerm t pre u y)
    | .mk v none, hok, p, base, hc => by
      have h := cmp_compV v (by simpa [okT] using hok) p base
        (by simpa [compT] using hc)
      rw [sizeT]
      exact cmp_mono h (fun u y _ ⟨pre, hu⟩ => ⟨pre, MTerm_plain_iff.mp hu⟩)
    | .mk v (some q), hok, p, base, hc => by
      obtain ⟨hokv, hq⟩ := okT_quant hok
      rw [compT] at hc
      rw [sizeT]
      have h := (cmp_fragLogic p).quantAt (compV_length v)
        (fun b hb => cmp_compV v hokv p b hb) q hq base hc
      exact cmp_mono h (fun u y _ ⟨pre, hu⟩ => (MTerm_quant_iff.mp hu).toRep2)
  theorem cmp_compTs : ∀ (ts : List Term), okTs ts = true →
      ∀ (p : Program) (base : Nat), CodeAt p base (compTs ts base) →
      Cmp p base (base + sizeTs ts) (fun u y => ∃ pre, MTerms ts pre u y)
    | [], _, p, base, _ => by
      rw [sizeTs, Nat.add_zero]
      exact cmp_mono (cmp_refl p base) (fun u y _ ⟨pre, hu⟩ => MTerms_nil_iff.mp hu)
    | t :: ts, hok, p, base, hc => by
      rw [okTs, Bool.and_eq_true] at hok
      rw [compTs, codeAt_append, compT_length] at hc
      have h₁ := cmp_compT t hok.1 p base hc.1
      have h₂ := cmp_compTs ts hok.2 p (base + sizeT t) hc.2
      rw [sizeTs, ← Nat.add_assoc]
      refine cmp_mono (cmp_seq h₁ h₂) (fun u y _ ⟨pre, hu⟩ => ?_)
      obtain ⟨s₁, s₂, hs, hu₁, hu₂⟩ := MTerms_cons_iff.mp hu
      exact ⟨s₁, s₂, hs, ⟨pre, hu₁⟩, ⟨pre ++ s₁, hu₂⟩⟩
  theorem cmp_compC : ∀ (c : Concat), okC c = true → ∀ (p : Program) (base : Nat),
      CodeAt p base (compC c base) →
      Cmp p base (base + sizeC c) (fun u y => ∃ pre, MTerms c.terms pre u y)
    | .mk ts, hok, p, base, hc => by
      rw [sizeC]
      exact cmp_compTs ts (by simpa [okC] using hok) p base
        (by simpa [compC] using hc)
  theorem cmp_compCs : ∀ (cs : List Concat), cs ≠ [] → okCs cs = true →
      ∀ (p : Program) (base final : Nat), final = base + sizeCs cs →
      CodeAt p base (compCs final cs base) →
      Cmp p base final (fun u y => ∃ pre ts, Concat.mk ts ∈ cs ∧ MTerms ts pre u y)
    | [], hnil, _, _, _, _, _, _ => absurd rfl hnil
    | [c], _, hok, p, base, final, hfin, hc => by
      rw [okCs, Bool.and_eq_true] at hok
      rw [compCs] at hc
      rw [sizeCs] at hfin
      subst hfin
      refine cmp_mono (cmp_compC c hok.1 p base hc) (fun u y _ ⟨pre, ts, hm, hts⟩ => ?_)
      have : c = .mk ts := (List.mem_singleton.mp hm).symm
      subst this
      exact ⟨pre, hts⟩
    | c :: c' :: cs, _, hok, p, base, final, hfin, hc => by
      rw [okCs, Bool.and_eq_true] at hok
      rw [compCs, codeAt_cons, codeAt_append, compC_length, codeAt_cons] at hc
      obtain ⟨hsplit, hbody, hjump, hrest⟩ := hc
      rw [sizeCs] at hfin
      rw [show base + 1 + sizeC c + 1 = base + sizeC c + 2 by omega] at hrest
      have h₁ := cmp_compC c hok.1 p (base + 1) hbody
      have h₂ := cmp_compCs (c' :: cs) (by simp) hok.2 p (base + sizeC c + 2) final
        (by omega) hrest
      have h₁' := cmp_seq h₁ (cmp_jump hjump (cmp_refl p final))
      refine cmp_mono (cmp_split hsplit h₁' h₂) (fun u y _ ⟨pre, ts, hm, hts⟩ => ?_)
      rcases List.mem_cons.mp hm with hm | hm
      · subst hm
        exact .inl ⟨u, [], by simp, ⟨pre, by simpa [Concat.terms] using hts⟩, rfl⟩
      · exact .inr ⟨pre, ts, hm, hts⟩
  theorem cmp_compU : ∀ (u : Union), okU u = true → ∀ (p : Program) (base : Nat),
      CodeAt p base (compU u base) →
      Cmp p base (base + sizeU u) (fun s y => ∃ pre, MUnion u pre s y)
    | .mk us, hok, p, base, hc => by
      rw [okU, Bool.and_eq_true] at hok
      have hnil : us ≠ [] := by
        intro h
        subst h
        simp at hok
      rw [compU] at hc
      rw [sizeU]
      exact cmp_mono (cmp_compCs us hnil hok.2 p base _ rfl hc)
        (fun u y _ ⟨pre, hu⟩ => ⟨pre, MUnion_iff.mp hu⟩)
end

/-! ## The whole program -/

/-- The term `$`. -/
abbrev stopT : Term := .mk (.sym .stop) none

theorem isStopTerm_eq {l : Term} (h : isStopTerm l = true) : l = stopT := by
  unfold isStopTerm at h
  split at h
  · rfl
  · simp at h

theorem isStartTerm_eq {t : Term} (h : isStartTerm t = true) : t = .mk (.sym .start) none := by
  unfold isStartTerm at h
  split at h
  · rfl
  · simp at h

theorem termIsDotStar_eq {d : Term} (h : termIsDotStar d = true) :
    ∃ q : Quant, d = .mk (.sym .dot) (some q) ∧ q.min = 0 ∧ q.max = none := by
  unfold termIsDotStar at h
  split at h
  · rename_i q
    refine ⟨q, rfl, ?_⟩
    simpa using h
  · simp at h

/-- Which terms `transform_regex` translates. -/
theorem bodyTerms_cases (t : Term) (init : List Term) (ht : isStartTerm t = true) :
    bodyTerms (t :: (init ++ [stopT])) = init ++ [stopT] ∨
    ∃ (mid : List Term) (q : Quant), init = mid ++ [.mk (.sym .dot) (some q)] ∧ q.min = 0 ∧
      q.max = none ∧ bodyTerms (t :: (init ++ [stopT])) = mid := by
  have ht' := isStartTerm_eq ht
  subst ht'
  rcases List.eq_nil_or_concat init with rfl | ⟨mid, d, rfl⟩
  · left
    simp [bodyTerms, termIsDotStar]
  · have hlen : (Term.mk (.sym .start) none :: (mid.concat d ++ [stopT])).length = mid.length + 3 := by
      simp
    have hget : (Term.mk (.sym .start) none :: (mid.concat d ++ [stopT]))[mid.length + 1]? = some d := by
      simp
    unfold bodyTerms
    simp only [hlen, show mid.length + 3 ≥ 2 from by omega, if_true,
      show mid.length + 3 - 2 = mid.length + 1 from by omega, hget]
    by_cases hd : termIsDotStar d = true
    · right
      obtain ⟨q, rfl, hmin, hmax⟩ := termIsDotStar_eq hd
      refine ⟨mid, q, by simp, hmin, hmax, ?_⟩
      simp [hd]
    · left
      simp [hd]

theorem MTerms_last_stop {init : List Term} {pre u y : Text}
    (h : MTerms (init ++ [stopT]) pre u y) : y = [] ∨ y = [10] := by
  obtain ⟨s₁, s₂, -, -, h₂⟩ := MTerms_append_iff.mp h
  obtain ⟨t₁, t₂, -, h₃, h₄⟩ := MTerms_cons_iff.mp h₂
  have := MTerms_nil_iff.mp h₄
  subst this
  simpa using (MValue_stop_iff.mp (MTerm_plain_iff.mp h₃)).2

theorem MRep_dot_star {y : Text} (hy : NoLineBreak y) :
    ∀ (pre post : Text), MRep (.sym .dot) 0 none pre y post := by
  induction y with
  | nil => exact fun pre post => .done _ _ _ _
  | cons c y ih =>
    intro pre post
    exact .more (.sym .dot) 0 none pre [c] y post (by simp) (.dot c pre (y ++ post) hy.head)
      (ih hy.of_cons (pre ++ [c]) post)

theorem MTerms_stop (pre : Text) : MTerms [stopT] pre [] [] :=
  MTerms_cons_iff.mpr ⟨[], [], rfl, MTerm_plain_iff.mpr (.stopEnd pre), .nil _ _⟩

/-- The program for the terms `body`, followed by `match`. -/
theorem body_sound {body : List Term} (hok : okTs body = true)
    {s : Text} (hs : NoLineBreak s) {n : Nat}
    (h : accN (compTs body 0 ++ [.matched]) n 0 s = true) :
    ∃ u y, s = u ++ y ∧ ∀ pre, MTerms body pre u y := by
  have hc : CodeAt (compTs body 0 ++ [.matched]) 0 (compTs body 0) := codeAt_self_append _ _
  obtain ⟨u, y, hu, hm, -⟩ :=
    snd_compTs body hok _ 0 hc n (fun _ => True) (fun _ _ _ _ _ => trivial) s hs h
  exact ⟨u, y, hu, hm⟩

theorem body_complete {body : List Term} (hok : okTs body = true)
    {pre u y : Text} (hnl : NoLineBreak (u ++ y)) (h : MTerms body pre u y) :
    ∃ n, accN (compTs body 0 ++ [.matched]) n 0 (u ++ y) = true := by
  have hc : CodeAt (compTs body 0 ++ [.matched]) 0 (compTs body 0) := codeAt_self_append _ _
  have hm : (compTs body 0 ++ [Instr.matched])[sizeTs body]? = some .matched := by
    rw [List.getElem?_append_right (by rw [compTs_length]; exact Nat.le_refl _), compTs_length]
    simp
  exact cmp_compTs body hok _ 0 hc u y ⟨pre, h⟩ hnl 1 (by simp [accN, hm])

theorem top_core (t : Term) (init : List Term) (ht : isStartTerm t = true)
    (hok : okTs (init ++ [stopT]) = true)
    (s : Text) (hs : NoLineBreak s) :
    (∃ n, accN (compTs (bodyTerms (t :: (init ++ [stopT]))) 0 ++ [.matched]) n 0 s = true) ↔
      MTerms (init ++ [stopT]) [] s [] := by
  rcases bodyTerms_cases t init ht with hb | ⟨mid, q, rfl, hmin, hmax, hb⟩
  · rw [hb]
    constructor
    · rintro ⟨n, h⟩
      obtain ⟨u, y, rfl, hm⟩ := body_sound hok hs h
      rcases MTerms_last_stop (hm []) with rfl | rfl
      · simpa using hm []
      · exact absurd rfl (hs.of_append_right 10 (by simp))
    · intro h
      simpa using body_complete hok (by simpa using hs) h
  · rw [hb]
    rw [okTs_append, okTs_append, Bool.and_eq_true, Bool.and_eq_true] at hok
    constructor
    · rintro ⟨n, h⟩
      obtain ⟨u, y, rfl, hm⟩ := body_sound hok.1.1 hs h
      rw [List.append_assoc]
      refine MTerms_append_iff.mpr ⟨u, y, by simp, by simpa using hm [], ?_⟩
      refine MTerms_cons_iff.mpr ⟨y, [], by simp, ?_, MTerms_stop _⟩
      refine MTerm_quant_iff.mpr ?_
      rw [hmin, hmax]
      exact MRep_dot_star hs.of_append_right _ _
    · intro h
      rw [List.append_assoc] at h
      obtain ⟨s₁, s₂, rfl, h₁, -⟩ := MTerms_append_iff.mp h
      exact body_complete hok.1.1 hs (by simpa using h₁)

theorem fullMatch_top (t : Term) (ts : List Term) (ht : isStartTerm t = true) (s : Text) :
    FullMatch (.mk [.mk (t :: ts)]) s ↔ MTerms ts [] s [] := by
  have ht' := isStartTerm_eq ht
  subst ht'
  unfold FullMatch
  rw [MUnion_iff]
  constructor
  · rintro ⟨ts', hm, h⟩
    have : ts' = .mk (.sym .start) none :: ts := by simpa using hm
    subst this
    obtain ⟨s₁, s₂, rfl, h₁, h₂⟩ := MTerms_cons_iff.mp h
    obtain ⟨-, rfl⟩ := MValue_start_iff.mp (MTerm_plain_iff.mp h₁)
    simpa using h₂
  · intro h
    refine ⟨.mk (.sym .start) none :: ts, by simp, MTerms_cons_iff.mpr ⟨[], s, rfl, ?_, by simpa using h⟩⟩
    exact MTerm_plain_iff.mpr (MValue_start_iff.mpr ⟨rfl, rfl⟩)

/-- **Correctness of the compiled program.**  For a pattern accepted by the front end and a text
without line breaks, the VM accepts iff the pattern matches the whole text. -/
theorem compileTop_correct (r : Retree.Regex) (s : Text) (hr : Accepted r) (hs : NoLineBreak s) :
    accepts (compileTop r) s ↔ Retree.FullMatch r s := by
  rw [accepts_iff_accN]
  unfold Accepted acceptedB at hr
  split at hr
  · rename_i t ts
    simp only [Bool.and_eq_true] at hr
    obtain ⟨⟨ht, hlast⟩, hok⟩ := hr
    cases hl : ts.getLast? with
    | none => simp [hl] at hlast
    | some l =>
      rw [hl] at hlast
      have hl' := isStopTerm_eq hlast
      subst hl'
      obtain ⟨init, rfl⟩ := List.getLast?_eq_some_iff.mp hl
      rw [fullMatch_top t _ ht s]
      unfold compileTop
      exact top_core t init ht hok s hs
  · simp at hr

end AasVerif.Revm
