import AasVerif.Lemmas.CacheInv
namespace AasVerif.Cache

/-- only final paths are ever looked at or opened for reading -/
def ReadsFinalOnly (a : Access) : Prop :=
  ∀ q, (a = .look q ∨ a = .read q) → ∃ h, q = .final h

theorem exec_acc (cfg : Cfg) (i : Nat) (p : Proc) (fs : FS) (dir : Bool) (g : GOp) (e : Eff)
    (w : WK) (tc c ld : Bool) (h3 : safeOp g.op w tc c ld = true)
    (he : exec cfg i p fs dir g = some e) : ∀ a ∈ e.acc, ReadsFinalOnly a := by
  unfold exec at he
  cases hop : g.op with
  | «exists» pe =>
    simp only [hop] at he h3
    have hpe : pe = .final := by simpa [safeOp] using h3
    subst hpe
    injection he with he; subst he
    intro a ha q hq
    simp only [List.mem_singleton] at ha
    subst ha
    rcases hq with hq | hq
    · injection hq with hq; exact ⟨_, hq.symm⟩
    · cases hq
  | openR pe =>
    simp only [hop] at he h3
    have hpe : pe = .final := by simpa [safeOp] using h3
    subst hpe
    split at he
    · cases he
    · injection he with he; subst he
      intro a ha q hq
      simp only [List.mem_singleton] at ha
      subst ha
      rcases hq with hq | hq
      · cases hq
      · injection hq with hq; exact ⟨_, hq.symm⟩
  | _ =>
    simp only [hop] at he
    repeat' split at he
    all_goals
      first
      | (cases he; done)
      | (cases he
         intro a ha q hq
         rcases hq with hq | hq <;> subst hq <;> simp at ha)

/-- every look/read in the access log concerns a final path -/
def LogOK (s : St) : Prop := ∀ x ∈ s.log, ReadsFinalOnly x.2

theorem step_LogOK (cfg : Cfg) (s : St) (ev : Event) (h : WF cfg s) (hl : LogOK s) : LogOK (step cfg s ev) := by
  cases ev with
  | spawn text flag => exact hl
  | step i =>
    simp only [step]
    split
    · exact hl
    · next p0 hp0 =>
      split
      · exact hl
      · next g rest htodo =>
        split
        · next e he =>
          have h3 := (head_safe cfg i p0 g rest (h.pure i p0 hp0) htodo).2.2.1
          have hacc := exec_acc cfg i _ s.fs s.dir g e _ _ _ _ h3 he
          intro x hx
          simp only [List.mem_append, List.mem_reverse, List.mem_map] at hx
          rcases hx with ⟨a, ha, rfl⟩ | hx
          · exact hacc a ha
          · exact hl x hx
        · exact hl
  | exc i =>
    simp only [step]
    split
    · exact hl
    · split <;> exact hl
  | kill i =>
    simp only [step]
    split
    · exact hl
    · split <;> exact hl

theorem run_WF_LogOK (cfg : Cfg) (hinj : ∀ a b, cfg.hash a = cfg.hash b → a = b) (hsafe : SafeSkeleton cfg.ops)
    (sched : List Event) (s : St) (h : WF cfg s) (hl : LogOK s) : LogOK (run cfg sched s) := by
  induction sched generalizing s with
  | nil => exact hl
  | cons ev rest ih =>
    exact ih (step cfg s ev) (step_WF cfg hinj hsafe s ev h) (step_LogOK cfg s ev h hl)

end AasVerif.Cache
