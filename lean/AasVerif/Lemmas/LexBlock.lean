import AasVerif.Model.Lex
import AasVerif.Lemmas.DescrPair
/-!
Block comments: scanning a text without `*/` up to the closing `*/`, and the Java
Unicode-escape translation on a text without `\u`.
-/
namespace AasVerif.Lex
open AasVerif.Descr

theorem lexC_block (cfg : Cfg) : ∀ (x acc : Text) (star : Bool) (rest : Text),
    noPair 42 47 star x = true →
    lexC cfg (.block acc star) (x ++ 42 :: 47 :: rest) = .comment (acc.reverse ++ x) :: lexC cfg .code rest
  | [], acc, star, rest, _ => by
    simp [lexC]
  | c :: r, acc, star, rest, h => by
    simp only [noPair, Bool.and_eq_true, Bool.not_eq_true', Bool.and_eq_false_iff] at h
    have hno : ¬ (star = true ∧ c = 47) := by
      intro ⟨h1, h2⟩
      rcases h.1 with h3 | h3
      · rw [h1] at h3; cases h3
      · rw [h2] at h3; simp at h3
    rw [List.cons_append, lexC]
    simp only [hno, if_false]
    rw [lexC_block cfg r (c :: acc) (c == 42) rest h.2]
    simp

theorem javaAux_id : ∀ (x : Text) (e p : Bool), noPair 92 117 p x = true →
    javaAux (.norm e) x = some x
  | [], e, p, _ => by simp [javaAux]
  | [c], e, p, _ => by
    by_cases hc : c = 92
    · subst hc; cases e <;> simp [javaAux]
    · cases e <;> simp [javaAux]
  | c :: d :: r, e, p, h => by
    simp only [noPair, Bool.and_eq_true] at h
    by_cases hc : c = 92
    · subst hc
      by_cases hd : d = 117
      · subst hd
        simp at h
      · have ih := javaAux_id (d :: r) (!e) (92 == 92) (by simp only [noPair, Bool.and_eq_true]; exact h.2)
        cases e
        · simp only [Bool.not_false] at ih
          simp [javaAux, ih]
        · simp only [Bool.not_true] at ih
          rw [javaAux]
          · simp only [Bool.not_true]; rw [ih]; rfl
          all_goals (intros; simp_all)
    · have ih := javaAux_id (d :: r) true (c == 92) (by simp only [noPair, Bool.and_eq_true]; exact h.2)
      rw [javaAux]
      · rw [ih]; rfl
      all_goals (intros; simp_all)

end AasVerif.Lex

namespace AasVerif.Lex
open AasVerif.Descr

/-- The lines of a Javadoc/TSDoc style block. -/
def starLines (e : Text) : Text :=
  ((splitLines e).map fun l => if PyStr.hasNonSpace l then [32, 42, 32] ++ l ++ [10] else [32, 42, 10]).flatten

theorem starLines_inert (a b : Nat) (e : Text) (he : noPair a b false e = true)
    (hpre : Inert a b [32, 42, 32]) (hsuf : Inert a b [10]) (hempty : Inert a b [32, 42, 10]) (x : Text) :
    noPair a b false (starLines e ++ x) = noPair a b false x := by
  unfold starLines
  apply inert_flatten
  intro p hp
  obtain ⟨l, hl, rfl⟩ := List.mem_map.mp hp
  split
  · exact inert_piece a b _ _ l hpre hsuf (noPair_lines a b e he l hl)
  · exact hempty

theorem block_text_eq (e : Text) :
    [47, 42, 42, 10] ++ starLines e ++ [32, 42, 47]
      = 47 :: 42 :: ((42 :: 10 :: (starLines e ++ [32])) ++ 42 :: 47 :: []) := by
  simp

/-- `/**\n` + lines + ` */` is exactly one comment token when the text has no `*/`. -/
theorem block_one_token (cfg : Cfg) (e : Text) (he : noPair 42 47 false e = true) :
    lexC cfg .code ([47, 42, 42, 10] ++ starLines e ++ [32, 42, 47])
      = [.comment (42 :: 10 :: (starLines e ++ [32]))] := by
  rw [block_text_eq]
  have hx : noPair 42 47 false (42 :: 10 :: (starLines e ++ [32])) = true := by
    have := starLines_inert 42 47 e he (by intro p x; simp [noPair]) (by intro p x; simp [noPair])
      (by intro p x; simp [noPair]) [32]
    have h10 : (10 == 42) = false := by decide
    simp only [noPair, h10, this]
    decide
  rw [lexC, lexC_block cfg _ [] false [] hx]
  simp [lexC]

/-- The Unicode-escape translation leaves the block alone when the text has no `\u`. -/
theorem block_unescape_id (e : Text) (he : noPair 92 117 false e = true) :
    javaUnescape ([47, 42, 42, 10] ++ starLines e ++ [32, 42, 47])
      = some ([47, 42, 42, 10] ++ starLines e ++ [32, 42, 47]) := by
  apply javaAux_id _ true false
  have := starLines_inert 92 117 e he (by intro p x; simp [noPair]) (by intro p x; simp [noPair])
    (by intro p x; simp [noPair]) [32, 42, 47]
  rw [List.append_assoc]
  have h10 : (10 == 92) = false := by decide
  simp only [List.cons_append, List.nil_append, noPair, h10, this]
  decide

end AasVerif.Lex
