import AasVerif.Lemmas.Cache
namespace AasVerif.Cache

theorem FS.set_same (fs : FS) (p : Path) (v : Option Content) : (fs.set p v) p = v := by
  simp [FS.set]

theorem FS.set_other (fs : FS) (p q : Path) (v : Option Content) (h : q ≠ p) : (fs.set p v) q = fs q := by
  simp [FS.set, h]

theorem mode_active (cfg : Cfg) (i : Nat) (p : Proc) (g : GOp) (rest : List GOp) (hP : Pure cfg i p)
    (htodo : p.todo = g :: rest) : ∀ o, p.mode ≠ .finished o := by
  intro o ho
  have := hP.settled.2 o ho
  rw [htodo] at this
  cases this

/-- the checker's conjuncts for the op at the head of the run's todo list -/
theorem head_safe (cfg : Cfg) (i : Nat) (p : Proc) (g : GOp) (rest : List GOp) (hP : Pure cfg i p)
    (htodo : p.todo = g :: rest) :
    (g.onHit = true → p.hit = some true) ∧
    (p.mode = .running → g.inTry = true →
      Safe .unwinding p.hit .none (p.tc || wkOf p.w == .dumped) p.computed p.rh.isSome p.loaded.isSome rest = true) ∧
    safeOp g.op (wkOf p.w) p.tc p.computed p.loaded.isSome = true ∧
    (match g.op with
       | .exists _ =>
         Safe p.mode (some true) (wkOf p.w) p.tc p.computed p.rh.isSome p.loaded.isSome rest = true ∧
         Safe p.mode (some false) (wkOf p.w) p.tc p.computed p.rh.isSome p.loaded.isSome rest = true
       | .retCached => True
       | .ret => True
       | o => Safe p.mode p.hit (absNext o (wkOf p.w) p.tc p.computed p.rh.isSome p.loaded.isSome).1
                (absNext o (wkOf p.w) p.tc p.computed p.rh.isSome p.loaded.isSome).2.1
                (absNext o (wkOf p.w) p.tc p.computed p.rh.isSome p.loaded.isSome).2.2.1
                (absNext o (wkOf p.w) p.tc p.computed p.rh.isSome p.loaded.isSome).2.2.2.1
                (absNext o (wkOf p.w) p.tc p.computed p.rh.isSome p.loaded.isSome).2.2.2.2 rest = true) := by
  have hs := hP.safe (mode_active cfg i p g rest hP htodo)
  unfold SafeP at hs
  rw [htodo] at hs
  exact Safe_cons _ _ _ _ _ _ _ _ _ (hP.settled.1 g rest htodo) hs

theorem exec_ok (cfg : Cfg) (hinj : ∀ a b, cfg.hash a = cfg.hash b → a = b) (i : Nat) (p0 : Proc) (g : GOp)
    (rest : List GOp) (fs : FS) (dir : Bool) (e : Eff)
    (hInv : Inv cfg fs) (hP : Pure cfg i p0) (hO : OwnTmp cfg fs i p0) (htodo : p0.todo = g :: rest)
    (he : exec cfg i { p0 with todo := rest } fs dir g = some e) :
    Frame cfg i p0.text fs e.fs ∧ PrePure cfg i e.p ∧ OwnTmp cfg e.fs i e.p ∧ e.p.text = p0.text := by
  obtain ⟨h1, h2, h3, h4⟩ := head_safe cfg i p0 g rest hP htodo
  have hact := mode_active cfg i p0 g rest hP htodo
  have hPP := hP.toPrePure
  unfold exec at he
  cases hop : g.op with
  | readText =>
    simp only [hop] at he h4
    injection he with he; subst he
    refine ⟨Frame_refl _ _ _ _, ⟨?_, hPP.handle, hPP.dumped, hPP.comp, hPP.rh, hPP.loaded, hPP.outcome⟩, hO, rfl⟩
    intro _; simpa [SafeP, absNext] using h4
  | hashText =>
    simp only [hop] at he h4
    injection he with he; subst he
    refine ⟨Frame_refl _ _ _ _, ⟨?_, hPP.handle, hPP.dumped, hPP.comp, hPP.rh, hPP.loaded, hPP.outcome⟩, hO, rfl⟩
    intro _; simpa [SafeP, absNext] using h4
  | freshUid =>
    simp only [hop] at he h4
    injection he with he; subst he
    refine ⟨Frame_refl _ _ _ _, ⟨?_, hPP.handle, hPP.dumped, hPP.comp, hPP.rh, hPP.loaded, hPP.outcome⟩, hO, rfl⟩
    intro _; simpa [SafeP, absNext] using h4
  | tempDir =>
    simp only [hop] at he h4
    injection he with he; subst he
    refine ⟨Frame_refl _ _ _ _, ⟨?_, hPP.handle, hPP.dumped, hPP.comp, hPP.rh, hPP.loaded, hPP.outcome⟩, hO, rfl⟩
    intro _; simpa [SafeP, absNext] using h4
  | mkdir eok =>
    simp only [hop] at he h4
    split at he
    · cases he
    · injection he with he; subst he
      refine ⟨Frame_refl _ _ _ _, ⟨?_, hPP.handle, hPP.dumped, hPP.comp, hPP.rh, hPP.loaded, hPP.outcome⟩, hO, rfl⟩
      intro _; simpa [SafeP, absNext] using h4
  | «exists» pe =>
    simp only [hop] at he h4
    injection he with he; subst he
    refine ⟨Frame_refl _ _ _ _, ⟨?_, hPP.handle, hPP.dumped, hPP.comp, hPP.rh, hPP.loaded, hPP.outcome⟩, hO, rfl⟩
    intro _
    simp only [SafeP]
    cases hb : (fs (pathOf cfg i { p0 with todo := rest } pe)).isSome
    · exact h4.2
    · exact h4.1
  | openR pe =>
    simp only [hop] at he h4 h3
    have hpe : pe = .final := by simpa [safeOp] using h3
    subst hpe
    split at he
    · cases he
    · next c hc =>
      injection he with he; subst he
      have hc' : fs (.final (cfg.hash p0.text)) = some c := hc
      obtain ⟨hc1, hc2, hc3⟩ := hInv _ _ hc'
      have hsrc : c.src = p0.text := hinj _ _ hc2
      refine ⟨Frame_refl _ _ _ _, ⟨?_, hPP.handle, hPP.dumped, hPP.comp, ?_, hPP.loaded, hPP.outcome⟩, hO, rfl⟩
      · intro _; simpa [SafeP, absNext] using h4
      · intro c' hc'
        simp only [Option.some.injEq] at hc'
        subst hc'
        exact ⟨hc1, hsrc, hsrc ▸ hc3⟩
  | load =>
    simp only [hop] at he h4
    split at he
    · cases he
    · next c hc =>
      split at he
      · next hcc =>
        injection he with he; subst he
        have hr := hPP.rh c hc
        refine ⟨Frame_refl _ _ _ _, ⟨?_, hPP.handle, hPP.dumped, hPP.comp, hPP.rh, ?_, hPP.outcome⟩, hO, rfl⟩
        · intro _
          have : p0.rh.isSome = true := by rw [show p0.rh = some c from hc]; rfl
          simpa [SafeP, absNext, this] using h4
        · intro s hs
          simp only [Option.some.injEq] at hs
          subst hs
          exact ⟨hr.2.1, hr.2.2⟩
      · cases he
  | retCached =>
    simp only [hop] at he
    split at he
    · cases he
    · next s hs =>
      injection he with he; subst he
      have hl := hPP.loaded s hs
      refine ⟨Frame_refl _ _ _ _, ⟨?_, hPP.handle, hPP.dumped, hPP.comp, hPP.rh, hPP.loaded, ?_⟩, hO, rfl⟩
      · intro hh; exact absurd rfl (hh _)
      · intro o ho
        simp only [Mode.finished.injEq] at ho
        left
        simp [uncached, hl.2, ← ho, hl.1]
  | compute =>
    simp only [hop] at he h4
    split at he
    · next hv =>
      injection he with he; subst he
      refine ⟨Frame_refl _ _ _ _, ⟨?_, hPP.handle, ?_, ?_, hPP.rh, hPP.loaded, hPP.outcome⟩, hO, rfl⟩
      · intro _; simpa [SafeP, absNext] using h4
      · intro _ _; rfl
      · intro _; exact hv
    · next hv =>
      injection he with he; subst he
      refine ⟨Frame_refl _ _ _ _, ⟨?_, hPP.handle, hPP.dumped, hPP.comp, hPP.rh, hPP.loaded, ?_⟩, hO, rfl⟩
      · intro hh; exact absurd rfl (hh _)
      · intro o ho
        simp only [Mode.finished.injEq] at ho
        left
        simp [uncached, hv, ← ho]
  | openW pe =>
    simp only [hop] at he h4 h3
    have hpe : pe = .tmp ∧ wkOf p0.w = .none := by simpa [safeOp] using h3
    obtain ⟨hpe, hw⟩ := hpe
    subst hpe
    split at he
    · injection he with he; subst he
      refine ⟨?_, ⟨?_, ?_, ?_, hPP.comp, hPP.rh, hPP.loaded, hPP.outcome⟩, ?_, rfl⟩
      · intro q
        by_cases hq : q = tmpOf cfg i p0.text
        · right; left; exact hq
        · left; exact FS.set_other _ _ _ _ hq
      · intro _; simpa [SafeP, absNext, wkOf] using h4
      · intro q d hqd
        simp only [Option.some.injEq, Prod.mk.injEq] at hqd
        exact hqd.1 ▸ rfl
      · intro q hq
        simp at hq
      · intro c hc
        have : c = ⟨p0.text, false⟩ := by
          have := FS.set_same fs (tmpOf cfg i p0.text) (some ⟨p0.text, false⟩)
          simp only [pathOf_tmp] at hc
          rw [this] at hc
          injection hc with hc
          exact hc.symm
        subst this
        simp
    · cases he
  | dump =>
    simp only [hop] at he h4
    split at he
    · next q hq =>
      split at he
      · next hcomp =>
        injection he with he; subst he
        refine ⟨Frame_refl _ _ _ _, ⟨?_, ?_, ?_, hPP.comp, hPP.rh, hPP.loaded, hPP.outcome⟩, hO, rfl⟩
        · intro _
          have hw : wkOf p0.w = .opened := by rw [show p0.w = some (q, false) from hq]; rfl
          rw [hw] at h4
          simpa [SafeP, absNext, wkOf] using h4
        · intro q' d hqd
          simp only [Option.some.injEq, Prod.mk.injEq] at hqd
          exact hqd.1 ▸ hPP.handle q false hq
        · intro _ _; exact hcomp
      · cases he
    · cases he
  | closeW =>
    simp only [hop] at he h4
    split at he
    · next q hq =>
      injection he with he; subst he
      have hq' : p0.w = some (q, true) := hq
      have hqt := hPP.handle q true hq'
      have hcomp := hPP.dumped q hq'
      have hval := hPP.comp hcomp
      refine ⟨?_, ⟨?_, ?_, ?_, hPP.comp, hPP.rh, hPP.loaded, hPP.outcome⟩, ?_, rfl⟩
      · intro q2
        by_cases hq2 : q2 = tmpOf cfg i p0.text
        · right; left; exact hq2
        · left; exact FS.set_other _ _ _ _ (hqt ▸ hq2)
      · intro _
        have hw : wkOf p0.w = .dumped := by rw [hq']; rfl
        rw [hw] at h4
        simpa [SafeP, absNext, wkOf] using h4
      · intro q2 d hqd; simp at hqd
      · intro q2 hqd; simp at hqd
      · intro c hc
        have : c = ⟨p0.text, true⟩ := by
          have := FS.set_same fs q (some ⟨p0.text, true⟩)
          rw [hqt] at this
          simp only at hc
          rw [hqt, this] at hc
          injection hc with hc
          exact hc.symm
        subst this
        simp [hval]
    · next q hq =>
      injection he with he; subst he
      have hq' : p0.w = some (q, false) := hq
      refine ⟨Frame_refl _ _ _ _, ⟨?_, ?_, ?_, hPP.comp, hPP.rh, hPP.loaded, hPP.outcome⟩, hO, rfl⟩
      · intro _
        have hw : wkOf p0.w = .opened := by rw [hq']; rfl
        rw [hw] at h4
        have hne : (WK.opened == WK.dumped) = false := by decide
        simpa [SafeP, absNext, wkOf, hne] using h4
      · intro q2 d hqd; simp at hqd
      · intro q2 hqd; simp at hqd
    · cases he
  | rename sp dp =>
    simp only [hop] at he h4 h3
    have hh : sp = .tmp ∧ dp = .final ∧ p0.tc = true ∧ wkOf p0.w = .none := by
      simpa [safeOp, and_assoc] using h3
    obtain ⟨hs, hd, htc, hw⟩ := hh
    subst hs; subst hd
    split at he
    · cases he
    · next c hc =>
      injection he with he; subst he
      have hc' : fs (tmpOf cfg i p0.text) = some c := hc
      obtain ⟨hsrc, hval, hcomp⟩ := hO c hc'
      have hne : finalOf cfg p0.text ≠ tmpOf cfg i p0.text := by simp [finalOf, tmpOf]
      refine ⟨?_, ⟨?_, hPP.handle, hPP.dumped, hPP.comp, hPP.rh, hPP.loaded, hPP.outcome⟩, ?_, rfl⟩
      · intro q
        by_cases hq : q = tmpOf cfg i p0.text
        · right; left; exact hq
        · by_cases hq2 : q = finalOf cfg p0.text
          · right; right
            refine ⟨hq2, c, ?_, hcomp htc, hsrc, hval (hcomp htc)⟩
            subst hq2
            simp only [pathOf_tmp, pathOf_final]
            rw [FS.set_other _ _ _ _ hne, FS.set_same]
          · left
            simp only [pathOf_tmp, pathOf_final]
            rw [FS.set_other _ _ _ _ hq, FS.set_other _ _ _ _ hq2]
      · intro _; simpa [SafeP, absNext] using h4
      · intro c2 hc2
        simp only [pathOf_tmp, pathOf_final] at hc2
        rw [FS.set_same] at hc2
        cases hc2
  | unlink pe mok =>
    simp only [hop] at he h4 h3
    have hh : pe = .tmp ∧ wkOf p0.w = .none := by simpa [safeOp] using h3
    obtain ⟨hpe, hw⟩ := hh
    subst hpe
    split at he
    · split at he
      · injection he with he; subst he
        refine ⟨Frame_refl _ _ _ _, ⟨?_, hPP.handle, hPP.dumped, hPP.comp, hPP.rh, hPP.loaded, hPP.outcome⟩, hO, rfl⟩
        intro _; simpa [SafeP, absNext] using h4
      · cases he
    · injection he with he; subst he
      refine ⟨?_, ⟨?_, hPP.handle, hPP.dumped, hPP.comp, hPP.rh, hPP.loaded, hPP.outcome⟩, ?_, rfl⟩
      · intro q
        by_cases hq : q = tmpOf cfg i p0.text
        · right; left; exact hq
        · left; exact FS.set_other _ _ _ _ hq
      · intro _; simpa [SafeP, absNext] using h4
      · intro c2 hc2
        simp only [pathOf_tmp] at hc2
        rw [FS.set_same] at hc2
        cases hc2
  | ret =>
    simp only [hop] at he
    split at he
    · next hcomp =>
      injection he with he; subst he
      have hval := hPP.comp hcomp
      refine ⟨Frame_refl _ _ _ _, ⟨?_, hPP.handle, hPP.dumped, hPP.comp, hPP.rh, hPP.loaded, ?_⟩, hO, rfl⟩
      · intro hh; exact absurd rfl (hh _)
      · intro o ho
        simp only [Mode.finished.injEq] at ho
        left
        simp [uncached, hval, ← ho]
    · cases he

set_option linter.unusedSimpArgs false in
theorem raise_ok (cfg : Cfg) (i : Nat) (p0 : Proc) (g : GOp) (rest : List GOp) (fs : FS)
    (hP : Pure cfg i p0) (hO : OwnTmp cfg fs i p0) (htodo : p0.todo = g :: rest) :
    Frame cfg i p0.text fs (raise { p0 with todo := rest } fs g).2 ∧
    PrePure cfg i (raise { p0 with todo := rest } fs g).1 ∧
    OwnTmp cfg (raise { p0 with todo := rest } fs g).2 i (raise { p0 with todo := rest } fs g).1 ∧
    (raise { p0 with todo := rest } fs g).1.text = p0.text := by
  obtain ⟨h1, h2, h3, h4⟩ := head_safe cfg i p0 g rest hP htodo
  have hPP := hP.toPrePure
  have hmode : ∀ (tc' : Bool), tc' = (p0.tc || wkOf p0.w == .dumped) →
      (∀ o, (if (p0.mode == .running && g.inTry) = true then Mode.unwinding else .finished .crashed) ≠ .finished o) →
      Safe (if (p0.mode == .running && g.inTry) = true then Mode.unwinding else .finished .crashed) p0.hit .none tc'
        p0.computed p0.rh.isSome p0.loaded.isSome rest = true := by
    intro tc' htc' hnf
    by_cases hc : (p0.mode == .running && g.inTry) = true
    · simp only [hc, if_true]
      simp only [Bool.and_eq_true, beq_iff_eq] at hc
      rw [htc']
      exact h2 hc.1 hc.2
    · simp only [hc] at hnf
      exact absurd rfl (hnf _)
  have hout : ∀ o, (if (p0.mode == .running && g.inTry) = true then Mode.unwinding else .finished .crashed) = .finished o →
      o = uncached cfg p0.text ∨ o = .crashed ∨ o = .killed := by
    intro o ho
    by_cases hc : (p0.mode == .running && g.inTry) = true
    · simp [hc] at ho
    · simp only [hc] at ho
      injection ho with ho
      right; left; exact ho.symm
  unfold raise
  cases hw : p0.w with
  | none =>
    simp only [hw]
    refine ⟨Frame_refl _ _ _ _, ⟨?_, ?_, ?_, hPP.comp, hPP.rh, hPP.loaded, hout⟩, hO, trivial⟩
    · intro hnf
      simp only [SafeP, wkOf]
      exact hmode p0.tc (by simp [hw, wkOf]) hnf
    · intro q d hqd; simp at hqd
    · intro q hqd; simp at hqd
  | some qd =>
    obtain ⟨q, d⟩ := qd
    cases d with
    | false =>
      simp only [hw]
      refine ⟨Frame_refl _ _ _ _, ⟨?_, ?_, ?_, hPP.comp, hPP.rh, hPP.loaded, hout⟩, hO, trivial⟩
      · intro hnf
        simp only [SafeP, wkOf]
        have hne : (WK.opened == WK.dumped) = false := by decide
        exact hmode p0.tc (by simp [hw, wkOf, hne]) hnf
      · intro q d hqd; simp at hqd
      · intro q hqd; simp at hqd
    | true =>
      simp only [hw]
      have hqt := hPP.handle q true hw
      have hval := hPP.comp (hPP.dumped q hw)
      refine ⟨?_, ⟨?_, ?_, ?_, hPP.comp, hPP.rh, hPP.loaded, hout⟩, ?_, trivial⟩
      · intro q2
        by_cases hq2 : q2 = tmpOf cfg i p0.text
        · right; left; exact hq2
        · left; exact FS.set_other _ _ _ _ (hqt ▸ hq2)
      · intro hnf
        simp only [SafeP, wkOf]
        exact hmode true (by simp [hw, wkOf]) hnf
      · intro q d hqd; simp at hqd
      · intro q hqd; simp at hqd
      · intro c hc
        have : c = ⟨p0.text, true⟩ := by
          have := FS.set_same fs q (some ⟨p0.text, true⟩)
          rw [hqt] at this
          simp only at hc
          rw [hqt, this] at hc
          injection hc with hc
          exact hc.symm
        subst this
        simp [hval]

end AasVerif.Cache
