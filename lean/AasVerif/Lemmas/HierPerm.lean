import AasVerif.Lemmas.HierTopo
/-!
The topological order does not depend on the declaration order of the classes
(C22: determinism of the sort): it is a function of the *set* of classes.
-/
namespace AasVerif.Hier

theorem perm_insertSorted (n : Name) (l : List Name) : (insertSorted n l).Perm (n :: l) := by
  induction l with
  | nil => simp [insertSorted]
  | cons m ms ih =>
    unfold insertSorted
    split
    · exact List.Perm.refl _
    · exact (List.Perm.cons m ih).trans (List.Perm.swap n m ms)

theorem perm_sortNames (l : List Name) : (sortNames l).Perm l := by
  unfold sortNames
  induction l with
  | nil => simp
  | cons n ns ih =>
    simp only [List.foldr_cons]
    exact (perm_insertSorted n _).trans (List.Perm.cons n ih)

theorem sorted_insertSorted (n : Name) (l : List Name) (h : l.Pairwise (· ≤ ·)) :
    (insertSorted n l).Pairwise (· ≤ ·) := by
  induction l with
  | nil => simp [insertSorted]
  | cons m ms ih =>
    have hm := List.pairwise_cons.mp h
    unfold insertSorted
    split
    · next hlt =>
      refine List.pairwise_cons.mpr ⟨?_, h⟩
      intro x hx
      have hnm : n ≤ m := List.le_of_lt hlt
      rcases List.mem_cons.mp hx with rfl | hx'
      · exact hnm
      · exact List.le_trans hnm (hm.1 x hx')
    · next hnlt =>
      refine List.pairwise_cons.mpr ⟨?_, ih hm.2⟩
      intro x hx
      rcases mem_insertSorted.mp hx with rfl | hx'
      · exact List.not_lt.mp hnlt
      · exact hm.1 x hx'

theorem sorted_sortNames (l : List Name) : (sortNames l).Pairwise (· ≤ ·) := by
  unfold sortNames
  induction l with
  | nil => simp
  | cons n ns ih => simp only [List.foldr_cons]; exact sorted_insertSorted n _ ih

theorem sortNames_perm_eq {l l' : List Name} (h : l.Perm l') : sortNames l = sortNames l' := by
  apply List.Perm.eq_of_pairwise (le := (· ≤ ·))
  · intro a b _ _ hab hba
    exact List.le_antisymm hab hba
  · exact sorted_sortNames l
  · exact sorted_sortNames l'
  · exact (perm_sortNames l).trans (h.trans (perm_sortNames l').symm)

theorem find?_perm {cs cs' : List ParsedClass} (h : cs.Perm cs') (hu : UniqueNames cs) (n : Name) :
    find? cs n = find? cs' n := by
  have hn : (names cs).Perm (names cs') := h.map _
  have hu' : UniqueNames cs' := hn.nodup_iff.mp hu
  by_cases hm : n ∈ names cs
  · obtain ⟨c, hc, rfl⟩ := List.mem_map.mp hm
    rw [find?_of_mem hu hc, find?_of_mem hu' (h.mem_iff.mp hc)]
  · have hm' : n ∉ names cs' := fun h' => hm (hn.mem_iff.mpr h')
    have e1 : find? cs n = none := by
      cases hf : find? cs n with
      | none => rfl
      | some c => exact absurd (mem_names_of_find? hf) hm
    have e2 : find? cs' n = none := by
      cases hf : find? cs' n with
      | none => rfl
      | some c => exact absurd (mem_names_of_find? hf) hm'
    rw [e1, e2]

/-- **Permutation invariance**: the computed topological order depends only on the set of classes. -/
theorem topo_perm_invariant' {cs cs' : List ParsedClass} (h : cs.Perm cs') (hu : UniqueNames cs) :
    topo cs = topo cs' := by
  have hpar : parentsOf cs = parentsOf cs' := by
    funext n
    unfold parentsOf
    rw [find?_perm h hu n]
  have hs : sortNames (names cs) = sortNames (names cs') := sortNames_perm_eq (h.map _)
  unfold topo topoState
  rw [hpar, h.length_eq, hs]

end AasVerif.Hier
