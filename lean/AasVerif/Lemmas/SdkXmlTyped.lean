import AasVerif.Lemmas.SdkXmlTotal
import AasVerif.Lemmas.SdkTyped
/-! Whatever `fromXml` accepts is a conforming instance. -/
namespace AasVerif.Sdk

/-- the type a mode promises -/
def XMode.ty : XMode → Ty
  | .prop t => t
  | .item t => t
  | .asElement c => .cls c

theorem xReadPrim_welltyped (mm : MM) (py : PyOracle) (p : Prim) (e : Elem) (v : Val)
    (h : xReadPrim py p e = .ok v) : conformsNN mm (.prim p) v = true := by
  unfold xReadPrim at h
  cases p with
  | bool =>
    rcases xReadText_cases e with ⟨t, ht⟩ | ⟨x, ht⟩ <;> simp only [ht] at h
    · split at h
      · cases h; simp [conformsNN]
      · split at h
        · cases h; simp [conformsNN]
        · cases h
    · cases h
  | int =>
    rcases xReadText_cases e with ⟨t, ht⟩ | ⟨x, ht⟩ <;> simp only [ht] at h
    · cases hi : py.int t with
      | none => rw [hi] at h; cases h
      | some i => rw [hi] at h; cases h; simp [conformsNN]
    · cases h
  | float =>
    rcases xReadText_cases e with ⟨t, ht⟩ | ⟨x, ht⟩ <;> simp only [ht] at h
    · split at h
      · cases h; simp [conformsNN]
      · split at h
        · cases h; simp [conformsNN]
        · split at h
          · cases h; simp [conformsNN]
          · cases hf : py.float t with
            | none => rw [hf] at h; cases h
            | some r => rw [hf] at h; cases h; simp [conformsNN]
    · cases h
  | str =>
    rcases xReadStr_cases e with ⟨t, ht⟩ | ⟨x, ht⟩ <;> simp only [ht] at h
    · cases h; simp [conformsNN]
    · cases h
  | bytes =>
    rcases xReadStr_cases e with ⟨t, ht⟩ | ⟨x, ht⟩ <;> simp only [ht] at h
    · cases hd : Base64.decode t with
      | ok bs =>
        rw [hd] at h
        cases h
        simp only [conformsNN, bytesOk, List.all_eq_true, decide_eq_true_eq]
        exact Base64.decode_bytes hd
      | error err => rw [hd] at h; cases h
    · cases h

theorem xReadEnum_welltyped (mm : MM) (en : Name) (e : Elem) (v : Val)
    (h : xReadEnum mm en e = .ok v) : conformsNN mm (.enum en) v = true := by
  unfold xReadEnum at h
  cases hf : mm.findEnum en with
  | none => rw [hf] at h; cases h
  | some ed =>
    rw [hf] at h
    simp only at h
    rcases xReadStr_cases e with ⟨t, ht⟩ | ⟨x, ht⟩ <;> simp only [ht] at h
    · cases hl : lookupLast (ed.literals.map (fun p => (p.2, p.1))) t with
      | none => rw [hl] at h; cases h
      | some lit =>
        rw [hl] at h
        cases h
        have hm := lookupLast_some_mem _ _ _ hl
        obtain ⟨q, hq, he⟩ := List.mem_map.mp hm
        simp only [Prod.mk.injEq] at he
        simp only [conformsNN, hf, beq_self_eq_true, Bool.true_and]
        exact List.any_eq_true.mpr ⟨q, hq, by simp [he.2]⟩
    · cases h

/-- what a plan means for the value that will be read -/
inductive PlanSound (mm : MM) (mode : XMode) : XPlan → Prop
  | fail (r : Res Val) (h : ∀ v, r ≠ .ok v) : PlanSound mm mode (.fail r)
  | done (v : Val) (h : conformsNN mm mode.ty v = true) : PlanSound mm mode (.done v)
  | seq (c : Name) (cd dd : ClassDecl) (hm : mode.ty = .cls c) (hc : mm.findClass c = some cd)
      (hdd : dd ∈ mm.classes) (hna : dd.abstract = false)
      (hrel : dd = cd ∨ dd.name ∈ cd.concreteDescendants) : PlanSound mm mode (.seq dd)
  | discr (c : Name) (hm : mode = .prop (.cls c)) : PlanSound mm mode (.discr c)
  | items (t : Ty) (hm : mode = .prop (.list t)) : PlanSound mm mode (.items t)

theorem resToPlan_sound (mm : MM) (mode : XMode) (r : Res Val)
    (h : ∀ v, r = .ok v → conformsNN mm mode.ty v = true) : PlanSound mm mode (resToPlan r) := by
  cases r with
  | ok v => exact .done v (h v rfl)
  | err x => exact .fail _ (by intro v h; cases h)
  | crash x => exact .fail _ (by intro v h; cases h)

theorem seqPlan_sound {mm : MM} {mode : XMode} {c : Name} {cd dd : ClassDecl}
    (hm : mode.ty = .cls c) (hc : mm.findClass c = some cd) (hdd : dd ∈ mm.classes)
    (hrel : dd = cd ∨ dd.name ∈ cd.concreteDescendants) (e : Elem) :
    PlanSound mm mode (seqPlan dd e) := by
  unfold seqPlan
  by_cases ha : dd.abstract = true
  · simp only [ha, if_true]; exact .fail _ (by intro v h; cases h)
  · simp only [ha, Bool.false_eq_true, if_false]
    split
    · exact .fail _ (by intro v h; cases h)
    · split
      · exact .fail _ (by intro v h; cases h)
      · exact .seq c cd dd hm hc hdd (by simpa using ha) hrel

theorem asElementPlan_sound {mm : MM} (hwf : mm.wf = true) (ns : Text) {mode : XMode} {c : Name}
    (hm : mode.ty = .cls c) (e : Elem) : PlanSound mm mode (asElementPlan mm ns c e) := by
  unfold asElementPlan
  cases hc : mm.findClass c with
  | none => exact .fail _ (by intro v h; cases h)
  | some cd =>
    have hcd := findClass_some hc
    have hok := okIn_parts ((wf_parts hwf).2.2.1 cd hcd.1)
    simp only
    cases tagIn ns e with
    | none => exact .fail _ (by intro v h; cases h)
    | some tag =>
      simp only
      by_cases hempty : cd.concreteDescendants.isEmpty = true
      · rw [if_pos hempty]
        split
        · exact seqPlan_sound hm hc hcd.1 (Or.inl rfl) e
        · exact .fail _ (by intro v h; cases h)
      · rw [if_neg hempty]
        cases hl : lookupLast (xDispatchEntries cd) tag with
        | none => exact .fail _ (by intro v h; cases h)
        | some d =>
          simp only
          have hmem := lookupLast_some_mem _ _ _ hl
          unfold xDispatchEntries at hmem
          rcases List.mem_append.mp hmem with hmm | hmm
          · by_cases ha : cd.abstract = true
            · simp [ha] at hmm
            · simp only [ha, Bool.false_eq_true, if_false, List.mem_singleton, Prod.mk.injEq] at hmm
              rw [hmm.2, findClass_of_mem hwf hcd.1]
              exact seqPlan_sound hm hc hcd.1 (Or.inl rfl) e
          · obtain ⟨x, hx, he⟩ := List.mem_map.mp hmm
            simp only [Prod.mk.injEq] at he
            obtain ⟨xd, hfx, _⟩ := hok.2.2.2.2.2.1 x hx
            have hxd := findClass_some hfx
            rw [← he.2, hfx]
            exact seqPlan_sound hm hc hxd.1 (Or.inr (by rw [hxd.2]; exact hx)) e

theorem xPlan_sound {mm : MM} (hwf : mm.wf = true) (ns : Text) (py : PyOracle) (mode : XMode)
    (e : Elem) : PlanSound mm mode (xPlan mm ns py mode e) := by
  cases mode with
  | asElement c => exact asElementPlan_sound hwf ns rfl e
  | item t =>
    cases t with
    | prim p => exact resToPlan_sound mm _ _ (fun v h => xReadPrim_welltyped mm py p e v h)
    | enum en => exact resToPlan_sound mm _ _ (fun v h => xReadEnum_welltyped mm en e v h)
    | cls c => exact asElementPlan_sound hwf ns rfl e
    | list t => exact .fail _ (by intro v h; cases h)
    | opt t => exact .fail _ (by intro v h; cases h)
  | prop t =>
    cases t with
    | prim p => exact resToPlan_sound mm _ _ (fun v h => xReadPrim_welltyped mm py p e v h)
    | enum en => exact resToPlan_sound mm _ _ (fun v h => xReadEnum_welltyped mm en e v h)
    | cls c =>
      simp only [xPlan]
      cases hc : mm.findClass c with
      | none => exact .fail _ (by intro v h; cases h)
      | some cd =>
        have hcd := findClass_some hc
        simp only
        split
        · exact seqPlan_sound rfl hc hcd.1 (Or.inl rfl) e
        · exact .discr c rfl
    | list t =>
      simp only [xPlan]
      split
      · exact .fail _ (by intro v h; cases h)
      · exact .items t rfl
    | opt t => exact .fail _ (by intro v h; cases h)

mutual
  theorem xRead_welltyped (mm : MM) (hwf : mm.wf = true) (ns : Text) (py : PyOracle) :
      ∀ (e : Elem) (mode : XMode) (v : Val), xRead mm ns py mode e = .ok v →
        conformsNN mm mode.ty v = true
    | .mk ens name attrs text tail children, mode, v, h => by
      have hp := xPlan_sound hwf ns py mode (.mk ens name attrs text tail children)
      rw [xRead] at h
      cases hp' : xPlan mm ns py mode (.mk ens name attrs text tail children) with
      | fail r =>
        rw [hp'] at h
        simp only at h
        rw [hp'] at hp
        cases hp with
        | fail _ hne => exact absurd h (hne v)
      | done v' =>
        rw [hp'] at h hp
        simp only [Res.ok.injEq] at h
        subst h
        cases hp with
        | done _ hv => exact hv
      | seq dd =>
        rw [hp'] at h hp
        simp only at h
        cases hp with
        | seq c cd _ hm hc hdd hna hrel =>
          cases hr : xReadChildren mm ns py dd.props children [] with
          | ok st =>
            rw [hr] at h
            simp only at h
            cases ha : assemble dd.props st with
            | ok vs =>
              rw [ha] at h
              simp only [Res.ok.injEq] at h
              subst h
              have hst : StOk mm dd.props st :=
                xReadChildren_welltyped mm hwf ns py children dd.props [] st
                  (by intro n x hx; cases hx) hr
              have hok := okIn_parts ((wf_parts hwf).2.2.1 dd hdd)
              have hcf := assemble_welltyped hok.1 hst dd.props vs (fun _ hp => hp) ha
              have hcd := findClass_some hc
              rw [hm]
              simp only [conformsNN, hc, findClass_of_mem hwf hdd, hna, hcf, Bool.not_false,
                Bool.and_self, Bool.and_true]
              rcases hrel with rfl | hrel
              · simp [hcd.2]
              · simp [hrel]
            | err x => rw [ha] at h; cases h
            | crash x => rw [ha] at h; cases h
          | err x => rw [hr] at h; cases h
          | crash x => rw [hr] at h; cases h
      | discr c =>
        rw [hp'] at h hp
        simp only at h
        cases hp with
        | discr _ hm =>
          subst hm
          cases children with
          | nil => cases h
          | cons g gs =>
            cases gs with
            | nil => exact xRead_welltyped mm hwf ns py g (.asElement c) v h
            | cons g2 gs2 => cases h
      | items t =>
        rw [hp'] at h hp
        simp only at h
        cases hp with
        | items _ hm =>
          subst hm
          cases hr : xReadItems mm ns py t children with
          | ok vs =>
            rw [hr] at h
            simp only [Res.ok.injEq] at h
            subst h
            simpa only [XMode.ty, conformsNN] using xReadItems_welltyped mm hwf ns py children t vs hr
          | err x => rw [hr] at h; cases h
          | crash x => rw [hr] at h; cases h
  theorem xReadItems_welltyped (mm : MM) (hwf : mm.wf = true) (ns : Text) (py : PyOracle) :
      ∀ (es : Elems) (t : Ty) (vs : Vals), xReadItems mm ns py t es = .ok vs →
        conformsAll mm t vs = true
    | .nil, _, vs, h => by
      simp only [xReadItems, Res.ok.injEq] at h
      subst h; simp [conformsAll]
    | .cons g gs, t, vs, h => by
      simp only [xReadItems] at h
      cases h1 : xRead mm ns py (.item t) g with
      | ok v =>
        rw [h1] at h
        simp only at h
        cases h2 : xReadItems mm ns py t gs with
        | ok vs' =>
          rw [h2] at h
          simp only [Res.ok.injEq] at h
          subst h
          simp only [conformsAll, Bool.and_eq_true]
          exact ⟨xRead_welltyped mm hwf ns py g (.item t) v h1,
            xReadItems_welltyped mm hwf ns py gs t vs' h2⟩
        | err x => rw [h2] at h; cases h
        | crash x => rw [h2] at h; cases h
      | err x => rw [h1] at h; cases h
      | crash x => rw [h1] at h; cases h
  theorem xReadChildren_welltyped (mm : MM) (hwf : mm.wf = true) (ns : Text) (py : PyOracle) :
      ∀ (es : Elems) (props : List PropDecl) (st st' : State), StOk mm props st →
        xReadChildren mm ns py props es st = .ok st' → StOk mm props st'
    | .nil, _, st, st', hst, h => by
      simp only [xReadChildren, Res.ok.injEq] at h
      subst h; exact hst
    | .cons g gs, props, st, st', hst, h => by
      simp only [xReadChildren] at h
      cases htag : tagIn ns g with
      | none => rw [htag] at h; cases h
      | some tag =>
        rw [htag] at h
        simp only at h
        cases hs : xSetterFor props tag with
        | unknown => rw [hs] at h; cases h
        | prop p =>
          rw [hs] at h
          simp only at h
          have hpm : p ∈ props := by
            unfold xSetterFor at hs
            cases hl : lookupLast (props.map (fun p => (xmlProperty p.name, p))) tag with
            | none => rw [hl] at hs; cases hs
            | some q =>
              rw [hl] at hs
              simp only [XSetter.prop.injEq] at hs
              subst hs
              obtain ⟨r, hr, he⟩ := List.mem_map.mp (lookupLast_some_mem _ _ _ hl)
              simp only [Prod.mk.injEq] at he
              rw [← he.2]; exact hr
          cases hr : xRead mm ns py (.prop p.ty.beneathOpt) g with
          | ok x =>
            rw [hr] at h
            simp only at h
            have hx := xRead_welltyped mm hwf ns py g (.prop p.ty.beneathOpt) x hr
            have hst2 : StOk mm props ((p.name, x) :: st) := by
              intro n y hy
              rcases List.mem_cons.mp hy with he | hy
              · cases he
                exact ⟨p, hpm, rfl, hx⟩
              · exact hst n y hy
            exact xReadChildren_welltyped mm hwf ns py gs props _ st' hst2 h
          | err x => rw [hr] at h; cases h
          | crash x => rw [hr] at h; cases h
end

end AasVerif.Sdk
