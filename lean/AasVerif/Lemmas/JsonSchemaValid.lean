import AasVerif.Model.JsonSchema
/-!
Basic facts about `validates`: what the two definite verdicts mean, and that they are stable under
more fuel.
-/
namespace AasVerif.JsonSchema

theorem allO_true_iff (l : List (Option Bool)) : allO l = some true ↔ ∀ x ∈ l, x = some true := by
  induction l with
  | nil => simp [allO]
  | cons x r ih =>
    cases x with
    | none =>
      simp only [allO, List.mem_cons, forall_eq_or_imp]
      constructor
      · intro h; split at h <;> cases h
      · intro h; cases h.1
    | some b =>
      cases b with
      | false => simp [allO]
      | true => simp [allO, ih]

theorem allO_false_iff (l : List (Option Bool)) : allO l = some false ↔ some false ∈ l := by
  induction l with
  | nil => simp [allO]
  | cons x r ih =>
    cases x with
    | none =>
      simp only [allO, List.mem_cons]
      constructor
      · intro h
        split at h
        · rename_i h'; exact Or.inr (ih.mp h')
        · cases h
      · intro h
        rcases h with h | h
        · cases h
        · rw [ih.mpr h]
    | some b =>
      cases b with
      | false => simp [allO]
      | true => simp [allO, ih]

/-- `r'` knows everything `r` knows -/
def Ext (r r' : Schema → Json → Option Bool) : Prop := ∀ s j b, r s j = some b → r' s j = some b

theorem allO_map_mono {α : Type} (xs : List α) (f g : α → Option Bool)
    (h : ∀ x ∈ xs, ∀ b, f x = some b → g x = some b) (b : Bool)
    (hb : allO (xs.map f) = some b) : allO (xs.map g) = some b := by
  cases b with
  | true =>
    rw [allO_true_iff] at hb ⊢
    intro y hy
    obtain ⟨x, hx, rfl⟩ := List.mem_map.mp hy
    exact h x hx true (hb _ (List.mem_map.mpr ⟨x, hx, rfl⟩))
  | false =>
    rw [allO_false_iff] at hb ⊢
    obtain ⟨x, hx, hfx⟩ := List.mem_map.mp hb
    exact List.mem_map.mpr ⟨x, hx, h x hx false hfx⟩

theorem countO_map_mono {α : Type} (xs : List α) (f g : α → Option Bool)
    (h : ∀ x ∈ xs, ∀ b, f x = some b → g x = some b) (k : Nat)
    (hk : countO (xs.map f) = some k) : countO (xs.map g) = some k := by
  induction xs generalizing k with
  | nil => simpa [countO] using hk
  | cons x r ih =>
    simp only [List.map_cons] at hk ⊢
    cases hfx : f x with
    | none => simp [countO, hfx] at hk
    | some b =>
      rw [hfx] at hk
      have hg := h x (List.mem_cons_self) b hfx
      rw [hg]
      simp only [countO] at hk ⊢
      cases hc : countO (r.map f) with
      | none => simp [hc] at hk
      | some k' =>
        rw [hc] at hk
        rw [ih (fun y hy => h y (List.mem_cons_of_mem _ hy)) k' hc]
        exact hk

theorem validKw_mono (defs : Defs) (r r' : Schema → Json → Option Bool) (h : Ext r r')
    (k : Kw) (j : Json) (b : Bool) (hb : validKw defs r k j = some b) :
    validKw defs r' k j = some b := by
  cases k with
  | properties ps =>
    cases j with
    | obj kvs =>
      simp only [validKw] at hb ⊢
      refine allO_map_mono ps _ _ ?_ b hb
      intro x _ b' hx
      obtain ⟨k, s⟩ := x
      simp only at hx ⊢
      cases hl : lookup k kvs with
      | none => simpa [hl] using hx
      | some v => rw [hl] at hx; exact h _ _ _ hx
    | _ => simpa [validKw] using hb
  | items s =>
    cases j with
    | arr xs =>
      simp only [validKw] at hb ⊢
      exact allO_map_mono xs _ _ (fun x _ b' hx => h _ _ _ hx) b hb
    | _ => simpa [validKw] using hb
  | allOf ss =>
    simp only [validKw] at hb ⊢
    exact allO_map_mono ss _ _ (fun x _ b' hx => h _ _ _ hx) b hb
  | oneOf ss =>
    simp only [validKw] at hb ⊢
    cases hc : countO (ss.map fun s => r s j) with
    | none => simp [hc] at hb
    | some k =>
      rw [hc] at hb
      rw [countO_map_mono ss _ _ (fun x _ b' hx => h _ _ _ hx) k hc]
      exact hb
  | ref name =>
    simp only [validKw] at hb ⊢
    cases hl : lookup name defs with
    | none => simpa [hl] using hb
    | some s => rw [hl] at hb; exact h _ _ _ hb
  | type t => simpa [validKw] using hb
  | required rs => cases j <;> simpa [validKw] using hb
  | const c => cases j <;> simpa [validKw] using hb
  | enum vs => cases j <;> simpa [validKw] using hb
  | minLength n => cases j <;> simpa [validKw] using hb
  | maxLength n => cases j <;> simpa [validKw] using hb
  | minItems n => cases j <;> simpa [validKw] using hb
  | maxItems n => cases j <;> simpa [validKw] using hb
  | pattern re => cases j <;> simpa [validKw] using hb
  | contentEncoding e => simpa [validKw] using hb

theorem validates_succ (defs : Defs) (n : Nat) (kws : List Kw) (j : Json) :
    validates defs (n + 1) (.mk kws) j = allO (kws.map fun k => validKw defs (validates defs n) k j) := rfl

theorem validates_mono (defs : Defs) (n : Nat) : Ext (validates defs n) (validates defs (n + 1)) := by
  induction n with
  | zero => intro s j b h; simp [validates] at h
  | succ n ih =>
    intro s j b h
    obtain ⟨kws⟩ := s
    rw [validates_succ] at h ⊢
    exact allO_map_mono kws _ _ (fun k _ b' hk => validKw_mono defs _ _ ih k j b' hk) b h

theorem validates_le (defs : Defs) {n m : Nat} (hnm : n ≤ m) (s : Schema) (j : Json) (b : Bool)
    (h : validates defs n s j = some b) : validates defs m s j = some b := by
  induction hnm with
  | refl => exact h
  | step _ ih => exact validates_mono defs _ s j b ih

/-- accept and reject exclude each other -/
theorem not_valid_and_invalid (defs : Defs) (s : Schema) (j : Json) :
    ¬ (Valid defs s j ∧ Invalid defs s j) := by
  rintro ⟨⟨n, hn⟩, ⟨m, hm⟩⟩
  have h1 := validates_le defs (Nat.le_max_left n m) s j _ hn
  have h2 := validates_le defs (Nat.le_max_right n m) s j _ hm
  rw [h1] at h2
  cases h2

/-- a schema accepts iff every keyword accepts (with nested schemas accepted with some fuel) -/
theorem validates_true_iff (defs : Defs) (n : Nat) (kws : List Kw) (j : Json) :
    validates defs (n + 1) (.mk kws) j = some true ↔
      ∀ k ∈ kws, validKw defs (validates defs n) k j = some true := by
  rw [validates_succ, allO_true_iff]
  constructor
  · intro h k hk; exact h _ (List.mem_map.mpr ⟨k, hk, rfl⟩)
  · intro h x hx
    obtain ⟨k, hk, rfl⟩ := List.mem_map.mp hx
    exact h k hk

theorem validates_false_iff (defs : Defs) (n : Nat) (kws : List Kw) (j : Json) :
    validates defs (n + 1) (.mk kws) j = some false ↔
      ∃ k ∈ kws, validKw defs (validates defs n) k j = some false := by
  rw [validates_succ, allO_false_iff]
  constructor
  · intro h
    obtain ⟨k, hk, hx⟩ := List.mem_map.mp h
    exact ⟨k, hk, hx⟩
  · rintro ⟨k, hk, hx⟩
    exact List.mem_map.mpr ⟨k, hk, hx⟩

/-- finitely many accepted checks share one fuel -/
theorem common_fuel {α : Type} (defs : Defs) (xs : List α) (s : α → Schema) (j : α → Json)
    (h : ∀ x ∈ xs, ∃ n, validates defs n (s x) (j x) = some true) :
    ∃ n, ∀ x ∈ xs, validates defs n (s x) (j x) = some true := by
  induction xs with
  | nil => exact ⟨0, fun _ hx => by cases hx⟩
  | cons x r ih =>
    obtain ⟨n1, h1⟩ := h x List.mem_cons_self
    obtain ⟨n2, h2⟩ := ih (fun y hy => h y (List.mem_cons_of_mem _ hy))
    refine ⟨max n1 n2, fun y hy => ?_⟩
    rcases List.mem_cons.mp hy with rfl | hy
    · exact validates_le defs (Nat.le_max_left _ _) _ _ _ h1
    · exact validates_le defs (Nat.le_max_right _ _) _ _ _ (h2 y hy)

theorem ext_le (defs : Defs) {n m : Nat} (hnm : n ≤ m) : Ext (validates defs n) (validates defs m) :=
  fun s j b h => validates_le defs hnm s j b h

/-- a keyword accepts, with some fuel for the schemas nested in it -/
def KwValid (defs : Defs) (k : Kw) (j : Json) : Prop :=
  ∃ n, validKw defs (validates defs n) k j = some true

theorem kw_common_fuel (defs : Defs) (kws : List Kw) (j : Json)
    (h : ∀ k ∈ kws, KwValid defs k j) :
    ∃ n, ∀ k ∈ kws, validKw defs (validates defs n) k j = some true := by
  induction kws with
  | nil => exact ⟨0, fun _ hk => by cases hk⟩
  | cons k r ih =>
    obtain ⟨n1, h1⟩ := h k List.mem_cons_self
    obtain ⟨n2, h2⟩ := ih (fun y hy => h y (List.mem_cons_of_mem _ hy))
    refine ⟨max n1 n2, fun y hy => ?_⟩
    rcases List.mem_cons.mp hy with rfl | hy
    · exact validKw_mono defs _ _ (ext_le defs (Nat.le_max_left _ _)) _ _ _ h1
    · exact validKw_mono defs _ _ (ext_le defs (Nat.le_max_right _ _)) _ _ _ (h2 y hy)

/-- **Declarative reading of a schema**: it accepts iff each of its keywords accepts. -/
theorem valid_iff_kws (defs : Defs) (kws : List Kw) (j : Json) :
    Valid defs (.mk kws) j ↔ ∀ k ∈ kws, KwValid defs k j := by
  constructor
  · rintro ⟨m, hm⟩
    cases m with
    | zero => simp [validates] at hm
    | succ n => exact fun k hk => ⟨n, (validates_true_iff defs n kws j).mp hm k hk⟩
  · intro h
    obtain ⟨n, hn⟩ := kw_common_fuel defs kws j h
    exact ⟨n + 1, (validates_true_iff defs n kws j).mpr hn⟩

end AasVerif.JsonSchema
