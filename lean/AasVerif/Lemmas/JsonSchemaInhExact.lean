import AasVerif.Lemmas.JsonSchemaLeaf
/-!
Exact readings of the two definitions that make up a class WITH concrete descendants:

* `inheritable_iff` — the inheritable definition (`_generate_inheritable_definition`: the definition of
  an abstract class, or the `_abstract` twin of a concrete class) accepts a JSON value iff every parent
  definition it references accepts it and the class body holds;
* `concrete_desc_iff` — the concrete definition `X = allOf[X_abstract, {properties: {modelType: const}}]`.

Both rest on `gen_body_iff`, the reading of a class body with an arbitrary `modelType` entry (the leaf
case `concrete_leaf_iff` is the instance "`const` + required iff no parent carries the model type").
-/
namespace AasVerif.JsonSchema
open AasVerif AasVerif.Retree

variable (defs : Defs)

/-- the `properties` mapping with an optional `modelType` entry -/
def withMT (mtS : Option Schema) (props : List (Text × Schema)) : List (Text × Schema) :=
  match mtS with
  | none => props
  | some x => setKey modelTypeKey x props

def reqWith (c : Cls) (reqMT : Bool) : List Text :=
  if reqMT then requiredProps c ++ [modelTypeKey] else requiredProps c

/-- what a class body with the `modelType` entry `mtS` (required iff `reqMT`) demands -/
def GenBodyOK (c : Cls) (mtS : Option Schema) (reqMT : Bool) (j : Json) : Prop :=
  (c.inh = [] → ∃ kvs, j = .obj kvs) ∧
  ∀ kvs, j = .obj kvs →
    (∀ p ∈ c.props, p.own = true → p.optional = false → hasKey p.name kvs = true) ∧
    (∀ x, mtS = some x → ∀ v, lookup modelTypeKey kvs = some v → Valid defs x v) ∧
    (reqMT = true → hasKey modelTypeKey kvs = true) ∧
    (∀ p ∈ c.props, ∀ v, lookup p.name kvs = some v → PropOK defs p v)

theorem gen_body_iff {c : Cls} {props : List (Text × Schema)} (hp : defineProperties c = .ok props)
    (hnd : (c.props.map (·.name)).Nodup) (hnm : ∀ p ∈ c.props, p.name ≠ modelTypeKey)
    (mtS : Option Schema) (reqMT : Bool) (hreq : reqMT = true → ∃ x, mtS = some x) (j : Json) :
    Valid defs (.mk (bodyKws c (withMT mtS props) (reqWith c reqMT))) j ↔ GenBodyOK defs c mtS reqMT j := by
  generalize hP : withMT mtS props = P
  generalize hR : reqWith c reqMT = R
  have hPmem : ∀ pe ∈ P, (∃ x, mtS = some x ∧ pe = (modelTypeKey, x)) ∨
      ∃ p ∈ c.props, p.name = pe.1 ∧ defineProp p = .ok (some pe.2) := by
    intro pe hpe
    obtain ⟨pk, psch⟩ := pe
    have hin : (pk, psch) ∈ props ∨ (∃ x, mtS = some x ∧ (pk, psch) = (modelTypeKey, x)) := by
      rw [← hP] at hpe
      cases mtS with
      | none => exact Or.inl hpe
      | some x =>
        simp only [withMT] at hpe
        rcases mem_setKey_inv hpe with ⟨rfl, rfl⟩ | h'
        · exact Or.inr ⟨_, rfl, rfl⟩
        · exact Or.inl h'
    rcases hin with hin | hin
    · rcases defineProps_entries c.props [] props hp pk psch hin with h' | ⟨p, hpm, hn, hd⟩
      · cases h'
      · exact Or.inr ⟨p, hpm, hn, hd⟩
    · exact Or.inl hin
  have hPof : ∀ p ∈ c.props, ∀ sp, defineProp p = .ok (some sp) → (p.name, sp) ∈ P := by
    intro p hpm sp hd
    have := defineProps_mem c.props [] props p sp hp hpm hd hnd
    rw [← hP]
    cases mtS with
    | none => exact this
    | some x => exact mem_setKey_other this (Ne.symm (hnm p hpm))
  have hPmt : ∀ x, mtS = some x → (modelTypeKey, x) ∈ P := by
    intro x hx; rw [← hP, hx]; exact mem_setKey_self _ _ _
  have hRmem : ∀ r, r ∈ R ↔ (∃ p ∈ c.props, p.own = true ∧ p.optional = false ∧ p.name = r) ∨
      (reqMT = true ∧ r = modelTypeKey) := by
    intro r
    rw [← hR]
    have hreq' : r ∈ requiredProps c ↔ ∃ p ∈ c.props, p.own = true ∧ p.optional = false ∧ p.name = r := by
      simp only [requiredProps, List.mem_map, List.mem_filter, Bool.and_eq_true, Bool.not_eq_true']
      constructor
      · rintro ⟨p, ⟨hpm, ho, hopt⟩, rfl⟩; exact ⟨p, hpm, ho, hopt, rfl⟩
      · rintro ⟨p, hpm, ho, hopt, rfl⟩; exact ⟨p, ⟨hpm, ho, hopt⟩, rfl⟩
    unfold reqWith
    cases reqMT with
    | true => simp [hreq']
    | false => simp [hreq']
  have hRP : P = [] → R = [] := by
    intro hPnil
    cases hRc : R with
    | nil => rfl
    | cons r rs =>
      exfalso
      have hr : r ∈ R := by rw [hRc]; exact List.mem_cons_self
      rcases (hRmem r).mp hr with ⟨p, hpm, hown, _, _⟩ | ⟨hw, _⟩
      · obtain ⟨sp, ho⟩ := own_defineProp_some hp hnd hpm hown
        have := hPof p hpm sp ho; rw [hPnil] at this; cases this
      · obtain ⟨x, hx⟩ := hreq hw
        have := hPmt x hx; rw [hPnil] at this; cases this
  rw [valid_body_iff]
  constructor
  · rintro ⟨hobj, hPR⟩
    refine ⟨?_, ?_⟩
    · intro hroot
      have := hobj hroot
      cases j <;> simp [hasType] at this
      exact ⟨_, rfl⟩
    · intro kvs hj
      subst hj
      have hprops : P ≠ [] → ∀ pe ∈ P, ∀ v, lookup pe.1 kvs = some v → Valid defs pe.2 v := by
        intro hne
        have := (hPR hne).1
        rw [kwv_properties] at this
        exact this kvs rfl
      have hreqs : ∀ r ∈ R, hasKey r kvs = true := by
        intro r hr
        have hne : R ≠ [] := by intro h0; rw [h0] at hr; cases hr
        have hPne : P ≠ [] := fun h0 => hne (hRP h0)
        have := (hPR hPne).2 hne
        rw [kwv_required] at this
        exact this kvs rfl r hr
      refine ⟨?_, ?_, ?_, ?_⟩
      · intro p hpm hown hopt
        exact hreqs _ ((hRmem _).mpr (Or.inl ⟨p, hpm, hown, hopt, rfl⟩))
      · intro x hx v hl
        have hm := hPmt x hx
        have hne : P ≠ [] := by intro h0; rw [h0] at hm; cases hm
        exact hprops hne _ hm v hl
      · intro hw
        exact hreqs _ ((hRmem _).mpr (Or.inr ⟨hw, rfl⟩))
      · intro p hpm v hl
        obtain ⟨o, ho⟩ := defineProps_ok_all c.props [] props hp p hpm
        cases o with
        | some sp =>
          have hm := hPof p hpm sp ho
          have hne : P ≠ [] := by intro h0; rw [h0] at hm; cases hm
          exact (defineProp_some_iff defs ho v).mp (hprops hne _ hm v hl)
        | none =>
          by_cases hown : p.own = true
          · obtain ⟨sp, hsp⟩ := own_defineProp_some hp hnd hpm hown
            rw [ho] at hsp
            cases hsp
          · exact defineProp_none_ok defs ho (by simpa using hown) v
  · rintro ⟨hobj, hbody⟩
    refine ⟨?_, ?_⟩
    · intro hroot
      obtain ⟨kvs, rfl⟩ := hobj hroot
      rfl
    · intro hPne
      constructor
      · rw [kwv_properties]
        intro kvs hj pe hpe v hl
        obtain ⟨_, hmt, _, hpo⟩ := hbody kvs hj
        rcases hPmem pe hpe with ⟨x, hx, rfl⟩ | ⟨p, hpm, hn, hd⟩
        · exact hmt x hx v hl
        · rw [← hn] at hl
          exact (defineProp_some_iff defs hd v).mpr (hpo p hpm v hl)
      · intro _
        rw [kwv_required]
        intro kvs hj r hr
        obtain ⟨hreq', _, hmtk, _⟩ := hbody kvs hj
        rcases (hRmem r).mp hr with ⟨p, hpm, hown, hopt, rfl⟩ | ⟨hw, rfl⟩
        · exact hreq' p hpm hown hopt
        · exact hmtk hw

/-! ### the inheritable definition -/

/-- the class is the top-most carrier of the model type: it has `with_model_type`, no parent has -/
def Cls.topMT (c : Cls) : Bool := c.withModelType && !(c.inh.any (·.withModelType))

/-- what the body of an inheritable definition demands: the members as for any class; `modelType`
(present and one of the model types, `#/definitions/ModelType`) iff the class is the top-most carrier -/
def InhBodyOK (c : Cls) (j : Json) : Prop :=
  GenBodyOK defs c (if c.topMT then some (refTo (ascii "ModelType")) else none) c.topMT j

theorem valid_mk_nil (j : Json) : Valid defs (.mk []) j := by
  rw [valid_iff_kws]; intro k hk; cases hk

/-- **Exact reading of an inheritable definition.** -/
theorem inheritable_iff {c : Cls} {k : Text} {s : Schema} (h : inheritableDefinition c = .ok (k, s))
    (hnd : (c.props.map (·.name)).Nodup) (hnm : ∀ p ∈ c.props, p.name ≠ modelTypeKey) (j : Json) :
    Valid defs s j ↔ (∀ i ∈ c.inh, Valid defs (refTo i.refName) j) ∧ InhBodyOK defs c j := by
  unfold inheritableDefinition at h
  cases hp : defineProperties c with
  | error e => simp [hp] at h
  | ok props =>
    simp only [hp] at h
    split at h
    · cases h
    · simp only [Except.ok.injEq, Prod.mk.injEq] at h
      obtain ⟨_, hs⟩ := h
      -- bring the body into the `withMT` / `reqWith` form
      have hP : (if (c.withModelType && !(c.inh.any (·.withModelType))) = true then
          setKey modelTypeKey (refTo (ascii "ModelType")) props else props) =
          withMT (if c.topMT then some (refTo (ascii "ModelType")) else none) props := by
        unfold Cls.topMT withMT
        cases (c.withModelType && !(c.inh.any (·.withModelType))) <;> rfl
      have hR : (if (c.withModelType && !(c.inh.any (·.withModelType))) = true then
          requiredProps c ++ [modelTypeKey] else requiredProps c) = reqWith c c.topMT := by
        unfold Cls.topMT reqWith
        rfl
      rw [hP, hR] at hs
      have hbody := gen_body_iff defs hp hnd hnm (if c.topMT then some (refTo (ascii "ModelType")) else none)
        c.topMT (by intro ht; rw [ht]; exact ⟨_, rfl⟩) j
      generalize hB : bodyKws c (withMT (if c.topMT then some (refTo (ascii "ModelType")) else none) props)
        (reqWith c c.topMT) = body at hs hbody
      have hX : ∀ X : List Schema, X = (if body.isEmpty = true then [] else [Schema.mk body]) →
          ((∀ s' ∈ X, Valid defs s' j) ↔ Valid defs (.mk body) j) := by
        intro X hXe
        by_cases he : body.isEmpty = true
        · rw [if_pos he] at hXe
          have : body = [] := by simpa [List.isEmpty_iff] using he
          subst hXe
          rw [this]
          simp [valid_mk_nil]
        · rw [if_neg he] at hXe
          subst hXe
          simp
      have hne : inheritanceRefs c ++ (if body.isEmpty = true then [] else [Schema.mk body]) ≠ [] := by
        cases hi : c.inh with
        | nil =>
          have : body ≠ [] := by
            rw [← hB]; simp [bodyKws, hi]
          have he : body.isEmpty = false := by cases body <;> simp_all
          simp [he]
        | cons i is => simp [inheritanceRefs, hi]
      rw [← hs, valid_wrapAllOf_iff defs hne]
      unfold InhBodyOK
      rw [← hbody, ← hX _ rfl]
      constructor
      · intro hall
        refine ⟨fun i hi => hall _ (List.mem_append_left _ (mem_inheritanceRefs hi)),
          fun s' hs' => hall _ (List.mem_append_right _ hs')⟩
      · rintro ⟨hpar, hb⟩ s' hs'
        rcases List.mem_append.mp hs' with hs' | hs'
        · unfold inheritanceRefs at hs'
          obtain ⟨i, hi, rfl⟩ := List.mem_map.mp hs'
          exact hpar i hi
        · exact hb s' hs'

/-! ### the concrete definition of a class with concrete descendants -/

/-- **Exact reading of `X = allOf[X_abstract, {properties: {modelType: {const: X}}}]`.** -/
theorem concrete_desc_iff {c : Cls} {k : Text} {s : Schema} (h : concreteDefinition c = .ok (k, s))
    (hdesc : c.cdesc ≠ []) (j : Json) :
    k = c.mt ∧ c.withModelType = true ∧
    (Valid defs s j ↔ Valid defs (refTo (sfx c.mt "_abstract")) j ∧
      ∀ kvs, j = .obj kvs → ∀ v, lookup modelTypeKey kvs = some v → v = .str c.mt) := by
  unfold concreteDefinition at h
  have hne : c.cdesc.isEmpty = false := by cases hcc : c.cdesc <;> simp_all
  simp only [hne, Bool.not_false, if_true] at h
  cases hw : c.withModelType with
  | false => simp [hw] at h
  | true =>
    simp only [hw, Bool.not_true, Bool.false_eq_true, if_false, Except.ok.injEq, Prod.mk.injEq] at h
    obtain ⟨hk, hs⟩ := h
    refine ⟨hk.symm, rfl, ?_⟩
    rw [← hs, valid_iff_kws]
    simp only [forall_eq, kwv_allOf, List.mem_cons, List.not_mem_nil, or_false, forall_eq_or_imp]
    constructor
    · rintro ⟨h1, h2⟩
      refine ⟨h1, ?_⟩
      intro kvs hj v hl
      rw [valid_iff_kws] at h2
      have := h2 _ (List.mem_singleton.mpr rfl)
      rw [kwv_properties] at this
      have := this kvs hj (modelTypeKey, modelTypeConst c.mt) (List.mem_singleton.mpr rfl) v hl
      simpa [modelTypeConst, valid_iff_kws] using this
    · rintro ⟨h1, h2⟩
      refine ⟨h1, ?_⟩
      rw [valid_iff_kws]
      intro kw hkw
      simp only [List.mem_singleton] at hkw
      subst hkw
      rw [kwv_properties]
      intro kvs hj pe hpe v hl
      simp only [List.mem_singleton] at hpe
      subst hpe
      simp only at hl
      rw [h2 kvs hj v hl]
      simp [modelTypeConst, valid_iff_kws]

end AasVerif.JsonSchema
