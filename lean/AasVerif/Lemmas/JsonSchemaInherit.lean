import AasVerif.Lemmas.JsonSchemaClass
/-!
One step up the inheritance chain: what acceptance by a class definition implies for the definition
its `allOf` references (`_define_all_of_for_inheritance`), and what an inheritable definition
(`_generate_inheritable_definition`: an abstract class, or the `_abstract` twin of a concrete class with
concrete descendants) enforces for its own properties.
-/
namespace AasVerif.JsonSchema
open AasVerif AasVerif.Retree

variable (defs : Defs)

/-- name of the definition a class's `allOf` references for the parent `i` -/
def Inh.refName (i : Inh) : Text := if i.concrete then sfx i.mt "_abstract" else i.mt

theorem mem_inheritanceRefs {c : Cls} {i : Inh} (hi : i ∈ c.inh) : refTo i.refName ∈ inheritanceRefs c := by
  unfold inheritanceRefs Inh.refName
  exact List.mem_map.mpr ⟨i, hi, rfl⟩

/-- shape of `_generate_inheritable_definition` -/
theorem inheritable_shape {c : Cls} {k : Text} {s : Schema} (h : inheritableDefinition c = .ok (k, s)) :
    ∃ props P R X, defineProperties c = .ok props ∧
      (P = props ∨ P = setKey modelTypeKey (refTo (ascii "ModelType")) props) ∧
      k = (if c.abstract then c.mt else sfx c.mt "_abstract") ∧
      s = wrapAllOf (inheritanceRefs c ++ X) ∧
      ((X = [] ∧ bodyKws c P R = []) ∨ X = [.mk (bodyKws c P R)]) := by
  unfold inheritableDefinition at h
  cases hp : defineProperties c with
  | error e => simp [hp] at h
  | ok props =>
    simp only [hp] at h
    by_cases hbad : ((c.withModelType && !(c.inh.any (·.withModelType))) = true ∧ hasKey modelTypeKey props = true)
    · rw [if_pos hbad] at h; cases h
    · rw [if_neg hbad] at h
      simp only [Except.ok.injEq, Prod.mk.injEq] at h
      obtain ⟨hk, hs⟩ := h
      have hP : ∀ (b : Bool), (if b = true then setKey modelTypeKey (refTo (ascii "ModelType")) props else props) = props ∨
          (if b = true then setKey modelTypeKey (refTo (ascii "ModelType")) props else props) =
            setKey modelTypeKey (refTo (ascii "ModelType")) props := by
        intro b; cases b <;> simp
      generalize hPe : (if (c.withModelType && !(c.inh.any (·.withModelType))) = true then
          setKey modelTypeKey (refTo (ascii "ModelType")) props else props) = P at hs
      have hP' := hP (c.withModelType && !(c.inh.any (·.withModelType)))
      rw [hPe] at hP'
      generalize (if (c.withModelType && !(c.inh.any (·.withModelType))) = true then
          requiredProps c ++ [modelTypeKey] else requiredProps c) = R at hs
      by_cases he : (bodyKws c P R).isEmpty = true
      · rw [if_pos he] at hs
        exact ⟨props, P, R, [], rfl, hP', hk.symm, hs.symm,
          Or.inl ⟨rfl, by simpa [List.isEmpty_iff] using he⟩⟩
      · rw [if_neg he] at hs
        exact ⟨props, P, R, [.mk (bodyKws c P R)], rfl, hP', hk.symm, hs.symm, Or.inr rfl⟩

/-- acceptance by a class definition implies acceptance by every definition it inherits from -/
theorem concrete_leaf_parents {c : Cls} {k : Text} {s : Schema} (h : concreteDefinition c = .ok (k, s))
    (hleaf : c.cdesc = []) {j : Json} (hv : Valid defs s j) :
    ∀ i ∈ c.inh, Valid defs (refTo i.refName) j := by
  obtain ⟨props, _, _, rfl⟩ := concrete_leaf_shape h hleaf
  intro i hi
  exact valid_wrapAllOf_elim defs hv _ (List.mem_append_left _ (mem_inheritanceRefs hi))

theorem inheritable_parents {c : Cls} {k : Text} {s : Schema} (h : inheritableDefinition c = .ok (k, s))
    {j : Json} (hv : Valid defs s j) : ∀ i ∈ c.inh, Valid defs (refTo i.refName) j := by
  obtain ⟨props, P, R, X, _, _, _, rfl, _⟩ := inheritable_shape h
  intro i hi
  exact valid_wrapAllOf_elim defs hv _ (List.mem_append_left _ (mem_inheritanceRefs hi))

/-- an inheritable definition checks the values of the class's own properties -/
theorem inheritable_own_property {c : Cls} {k : Text} {s : Schema}
    (h : inheritableDefinition c = .ok (k, s))
    (hnd : (c.props.map (·.name)).Nodup) {p : Prp} (hmem : p ∈ c.props) (hown : p.own = true)
    (hnm : p.name ≠ modelTypeKey) {sp : Schema} (hd : defineType p.ty = .ok sp)
    {kvs : List (Text × Json)} (hv : Valid defs s (.obj kvs)) :
    ∀ v, lookup p.name kvs = some v → Sat defs p.ty v := by
  obtain ⟨props, P, R, X, hp, hP, _, rfl, hX⟩ := inheritable_shape h
  have hin := own_property_defined hp hnd hmem hown hd
  have hin' : (p.name, sp) ∈ P := by
    rcases hP with rfl | rfl
    · exact hin
    · exact mem_setKey_other hin (Ne.symm hnm)
  have hne : P ≠ [] := by
    intro h0; rw [h0] at hin'; cases hin'
  rcases hX with ⟨rfl, hnil⟩ | rfl
  · -- the body cannot be empty: it has `properties`
    cases P with
    | nil => exact absurd rfl hne
    | cons a as => simp [bodyKws] at hnil
  · have hb := valid_wrapAllOf_elim defs hv _ (List.mem_append_right _ (List.mem_singleton.mpr rfl))
    obtain ⟨hprops, _⟩ := body_properties defs hb hne
    rw [kwv_properties] at hprops
    intro v hl
    exact (type_lemma defs p.ty sp hd v).mp (hprops kvs rfl _ hin' v hl)

/-- **a constraint declared in a parent is enforced on the child's documents**: if the child's
definition accepts an object, the parent's inheritable definition is among `defs` under the name the
child references, and `p` is an own property of the parent, then the member value satisfies `Sat`. -/
theorem parent_property_enforced {c par : Cls} {k kp : Text} {s sp : Schema} {i : Inh}
    (h : concreteDefinition c = .ok (k, s)) (hleaf : c.cdesc = []) (hi : i ∈ c.inh)
    (hpar : inheritableDefinition par = .ok (kp, sp)) (hname : i.refName = kp)
    (hunique : ∀ s', lookup kp defs = some s' → s' = sp)
    (hnd : (par.props.map (·.name)).Nodup) {p : Prp} (hmem : p ∈ par.props) (hown : p.own = true)
    (hnm : p.name ≠ modelTypeKey) {spp : Schema} (hd : defineType p.ty = .ok spp)
    {kvs : List (Text × Json)} (hv : Valid defs s (.obj kvs)) :
    ∀ v, lookup p.name kvs = some v → Sat defs p.ty v := by
  have hr := concrete_leaf_parents defs h hleaf hv i hi
  rw [valid_ref_iff, hname] at hr
  obtain ⟨s', hl, hv'⟩ := hr
  rw [hunique s' hl] at hv'
  exact inheritable_own_property defs hpar hnd hmem hown hnm hd hv'

end AasVerif.JsonSchema
