import AasVerif.Model.TargetEval
/-!
Helper lemmas for C09: the relation "the target evaluation is off the modelled domain, or it is
the (coarse) Python outcome", its compatibility with the evaluation combinators, and the shape
of `Expr.eval` through `coarse`.
-/
namespace AasVerif.TargetEmit
open AasVerif AasVerif.Expr

/-- the target outcome `t` is off the modelled domain or equals `p` -/
def R (t p : TOut) : Prop := t = .off ∨ t = p

theorem R.rfl' (p : TOut) : R p p := Or.inr rfl
theorem R.off (p : TOut) : R .off p := Or.inl rfl

theorem R_bind {a p : TOut} {f g : Val → TOut} (h : R a p) (hf : ∀ v, R (f v) (g v)) :
    R (a.bind f) (p.bind g) := by
  rcases h with h | h
  · subst h; exact Or.inl rfl
  · subst h
    cases a with
    | val v => exact hf v
    | raised => exact Or.inr rfl
    | off => exact Or.inl rfl

theorem R_bind2 {a p b q : TOut} {f g : Val → Val → TOut} (ha : R a p) (hb : R b q)
    (hf : ∀ x y, R (f x y) (g x y)) : R (a.bind2 b f) (p.bind2 q g) := by
  rcases ha with ha | ha
  · subst ha; exact Or.inl (by cases b <;> rfl)
  · subst ha
    rcases hb with hb | hb
    · subst hb; exact Or.inl (by cases a <;> rfl)
    · subst hb
      cases a <;> cases b <;> first | exact hf _ _ | exact Or.inr rfl | exact Or.inl rfl

/-- `bind2` does not depend on the order of its (strict) operands -/
theorem bind2_swap (a b : TOut) (f : Val → Val → TOut) :
    a.bind2 b f = b.bind2 a (fun y x => f x y) := by
  cases a <;> cases b <;> rfl

theorem R_ofOpt {o : Option Out} {p : Out} (h : ∀ x, o = some x → x = p) : R (ofOpt o) (coarse p) := by
  cases o with
  | none => exact Or.inl rfl
  | some x => rw [h x rfl]; exact Or.inr rfl

/-- argument lists -/
def RA (t : TArgs) (p : Args) : Prop :=
  match t, p with
  | .off, _ => True
  | .ok vs, .ok ws => vs = ws
  | .raised, .err _ => True
  | _, _ => False

def coarseArgs : Args → TArgs
  | .ok vs => .ok vs
  | .err _ => .raised

theorem RA_bind {t : TArgs} {p : Args} {f g : List Val → TOut} (h : RA t p) (hf : ∀ vs, R (f vs) (g vs)) :
    R (t.bind f) ((coarseArgs p).bind g) := by
  cases t <;> cases p <;> simp only [RA] at h
  · subst h; exact hf _
  · exact Or.inr rfl
  · exact Or.inl rfl
  · exact Or.inl rfl

/-- The semantics of a language agrees with Python wherever it is defined. -/
structure SemSound (sem : Sem) : Prop where
  truthy : ∀ f v b, sem.truthy f v = some b → b = v.truthy f
  lastOperand : ∀ f v w, sem.lastOperand f v = some w → w = v
  cmp : ∀ f op lb rb a b o, sem.cmp f op lb rb a b = some o → o = cmpVals f op a b
  arith : ∀ f ad a b o, sem.arith f ad a b = some o → o = arithVals f ad a b
  len : ∀ k v o, sem.len k v = some o → o = lenVal v
  contains : ∀ f k c m o, sem.contains f k c m = some o → o = isInVals f m c
  index : ∀ k c i o, sem.index k c i = some o → o = indexVals c i
  unwrap : ∀ k v o, sem.unwrap k v = some o → o = .val v
  isNull : ∀ k v b, sem.isNull k v = some b → b = (match v with | .none => true | _ => false)
  iter : ∀ v l, sem.iter v = some l → iterItems v = some l
  fmt : ∀ l c ρ v o, sem.fmt l c ρ v = some o → o = fmtVal ρ v

/-! ## `Expr.eval` through `coarse` -/

macro "crunch" : tactic =>
  `(tactic| ((repeat' (first | rfl | split)) <;> (try subst_vars) <;> (try simp_all [coarse, TOut.bind, TOut.bind2, TArgs.bind, Out.ofBool])))

theorem evalArgs_err (ρ : Env) : ∀ (es : List Expr) (o : Out), Expr.evalArgs ρ es = .err o → ∀ v, o ≠ .val v
  | [], o, h => by simp [Expr.evalArgs] at h
  | e :: es, o, h => by
    simp only [Expr.evalArgs] at h
    cases he : Expr.eval ρ e <;> simp only [he] at h
    · cases hes : Expr.evalArgs ρ es <;> simp only [hes] at h
      · cases h
      · cases h; exact evalArgs_err ρ es _ hes
    all_goals (cases h; intro v hv; cases hv)

theorem coarse_name (ρ : Env) (x : Text) : coarse (Expr.eval ρ (.name x)) = coarse (nameVal ρ x) := by
  simp only [Expr.eval, nameVal]
  cases lookup x ρ.vars <;> rfl

theorem coarse_member (ρ : Env) (e : Expr) (n : Text) :
    coarse (Expr.eval ρ (.member e n)) = (coarse (Expr.eval ρ e)).bind fun v => coarse (memberVal v n) := by
  simp only [Expr.eval]
  cases h : Expr.eval ρ e with
  | val v => cases v <;> simp only [coarse, TOut.bind, memberVal] <;> crunch
  | _ => simp [coarse, TOut.bind]

theorem coarse_index (ρ : Env) (c i : Expr) :
    coarse (Expr.eval ρ (.index c i)) =
      (coarse (Expr.eval ρ c)).bind2 (coarse (Expr.eval ρ i)) fun a b => coarse (indexVals a b) := by
  simp only [Expr.eval]
  cases Expr.eval ρ c <;> cases Expr.eval ρ i <;> simp [coarse, TOut.bind2]

theorem coarse_cmp (ρ : Env) (l r : Expr) (op : Cmp) :
    coarse (Expr.eval ρ (.cmp l op r)) =
      (coarse (Expr.eval ρ l)).bind2 (coarse (Expr.eval ρ r)) fun a b => coarse (cmpVals ρ.fops op a b) := by
  simp only [Expr.eval]
  cases Expr.eval ρ l <;> cases Expr.eval ρ r <;> simp [coarse, TOut.bind2]

theorem coarse_isIn (ρ : Env) (m c : Expr) :
    coarse (Expr.eval ρ (.isIn m c)) =
      (coarse (Expr.eval ρ m)).bind2 (coarse (Expr.eval ρ c)) fun a b => coarse (isInVals ρ.fops a b) := by
  simp only [Expr.eval]
  cases Expr.eval ρ m <;> cases Expr.eval ρ c <;> simp [coarse, TOut.bind2]

theorem coarse_add (ρ : Env) (l r : Expr) :
    coarse (Expr.eval ρ (.add l r)) =
      (coarse (Expr.eval ρ l)).bind2 (coarse (Expr.eval ρ r)) fun a b => coarse (arithVals ρ.fops true a b) := by
  simp only [Expr.eval]
  cases Expr.eval ρ l <;> cases Expr.eval ρ r <;> simp [coarse, TOut.bind2]

theorem coarse_sub (ρ : Env) (l r : Expr) :
    coarse (Expr.eval ρ (.sub l r)) =
      (coarse (Expr.eval ρ l)).bind2 (coarse (Expr.eval ρ r)) fun a b => coarse (arithVals ρ.fops false a b) := by
  simp only [Expr.eval]
  cases Expr.eval ρ l <;> cases Expr.eval ρ r <;> simp [coarse, TOut.bind2]

theorem coarse_impl (ρ : Env) (a c : Expr) :
    coarse (Expr.eval ρ (.impl a c)) =
      (coarse (Expr.eval ρ a)).bind fun av =>
        if av.truthy ρ.fops then coarse (Expr.eval ρ c) else .val (.bool true) := by
  simp only [Expr.eval]
  cases Expr.eval ρ a <;> simp only [coarse, TOut.bind] <;> crunch

theorem coarse_isNone (ρ : Env) (e : Expr) :
    coarse (Expr.eval ρ (.isNone e)) =
      (coarse (Expr.eval ρ e)).bind fun v => .val (.bool (match v with | .none => true | _ => false)) := by
  simp only [Expr.eval]
  cases Expr.eval ρ e with
  | val v => cases v <;> simp [coarse, TOut.bind, Out.ofBool]
  | _ => simp [coarse, TOut.bind]

theorem coarse_isNotNone (ρ : Env) (e : Expr) :
    coarse (Expr.eval ρ (.isNotNone e)) =
      (coarse (Expr.eval ρ e)).bind fun v => .val (.bool (!(match v with | .none => true | _ => false))) := by
  simp only [Expr.eval]
  cases Expr.eval ρ e with
  | val v => cases v <;> simp [coarse, TOut.bind, Out.ofBool]
  | _ => simp [coarse, TOut.bind]

theorem coarse_not (ρ : Env) (e : Expr) :
    coarse (Expr.eval ρ (.not e)) =
      (coarse (Expr.eval ρ e)).bind fun v => .val (.bool (!v.truthy ρ.fops)) := by
  simp only [Expr.eval]
  cases Expr.eval ρ e <;> simp [coarse, TOut.bind, Out.ofBool]

theorem coarseArgs_nil (ρ : Env) : coarseArgs (Expr.evalArgs ρ []) = .ok [] := by
  simp [Expr.evalArgs, coarseArgs]

theorem coarseArgs_cons (ρ : Env) (e : Expr) (es : List Expr) :
    coarseArgs (Expr.evalArgs ρ (e :: es)) = TArgs.cons (coarse (Expr.eval ρ e)) (coarseArgs (Expr.evalArgs ρ es)) := by
  simp only [Expr.evalArgs]
  cases Expr.eval ρ e <;> cases Expr.evalArgs ρ es <;> simp [coarse, coarseArgs, TArgs.cons]

theorem RA_coarse {t : TArgs} {p : Args} : RA t p ↔ (t = .off ∨ t = coarseArgs p) := by
  cases t <;> cases p <;> simp [RA, coarseArgs]

theorem RA_cons {a : TOut} {t : TArgs} {e : Expr} {es : List Expr} {ρ : Env}
    (ha : R a (coarse (Expr.eval ρ e))) (ht : RA t (Expr.evalArgs ρ es)) :
    RA (TArgs.cons a t) (Expr.evalArgs ρ (e :: es)) := by
  rw [RA_coarse] at ht ⊢
  rw [coarseArgs_cons]
  rcases ha with ha | ha
  · subst ha; left; cases t <;> rfl
  · rw [ha]
    rcases ht with ht | ht
    · subst ht; left; cases coarse (Expr.eval ρ e) <;> rfl
    · rw [ht]; right; rfl

theorem coarse_of_err {o : Out} (h : ∀ v, o ≠ .val v) : coarse o = .raised := by
  cases o <;> first | rfl | exact absurd rfl (h _)

theorem coarse_methodCall (ρ : Env) (inst : Expr) (n : Text) (args : List Expr) :
    coarse (Expr.eval ρ (.methodCall inst n args)) =
      (coarse (Expr.eval ρ inst)).bind fun recv =>
        (coarseArgs (Expr.evalArgs ρ args)).bind fun vs => coarse (methodVals ρ recv n vs) := by
  simp only [Expr.eval]
  cases Expr.eval ρ inst with
  | val v =>
    cases hA : Expr.evalArgs ρ args with
    | ok vs => cases v <;> simp only [coarse, TOut.bind, methodVals, coarseArgs, TArgs.bind] <;> crunch
    | err o =>
      have ho := coarse_of_err (evalArgs_err ρ args o hA)
      cases v <;> simp only [TOut.bind, methodVals, coarseArgs, TArgs.bind] <;>
        first
        | rfl
        | (generalize ρ.meths _ n = mm
           cases mm <;> first | rfl | exact ho)
  | _ => simp [coarse, TOut.bind]

theorem coarse_funCall (ρ : Env) (n : Text) (args : List Expr) :
    coarse (Expr.eval ρ (.funCall n args)) =
      (coarseArgs (Expr.evalArgs ρ args)).bind fun vs => coarse (callFunVals ρ n vs) := by
  simp only [Expr.eval, callFunVals]
  cases hA : Expr.evalArgs ρ args with
  | ok vs =>
    simp only [coarseArgs, TArgs.bind]
    cases lookup n ρ.vars with
    | some v => rfl
    | none =>
      cases ρ.funs n with
      | some f => rfl
      | none =>
        by_cases hn : n = [108, 101, 110]
        · simp only [hn, if_true]
          match vs with
          | [] => rfl
          | [v] => rfl
          | _ :: _ :: _ => rfl
        · simp only [hn, if_false]
  | err o =>
    have ho := coarse_of_err (evalArgs_err ρ args o hA)
    simp only [coarseArgs, TArgs.bind]
    cases lookup n ρ.vars with
    | some v => exact ho
    | none =>
      cases ρ.funs n with
      | some f => exact ho
      | none =>
        by_cases hn : n = [108, 101, 110]
        · simp only [hn, if_true]; exact ho
        · simp only [hn, if_false]; rfl

/-- `len` is the built-in: neither a variable nor a verification function of that name -/
def LenBuiltin (ρ : Env) : Prop := lookup lenName ρ.vars = none ∧ ρ.funs lenName = none

theorem coarse_len (ρ : Env) (h : LenBuiltin ρ) (a : Expr) :
    coarse (Expr.eval ρ (.funCall lenName [a])) = (coarse (Expr.eval ρ a)).bind fun v => coarse (lenVal v) := by
  have h1 : lookup [108, 101, 110] ρ.vars = none := h.1
  have h2 : ρ.funs [108, 101, 110] = none := h.2
  simp only [Expr.eval, lenName, h1, h2, Expr.evalArgs]
  cases Expr.eval ρ a <;> simp [coarse, TOut.bind]

theorem coarse_evalAnd_one (ρ : Env) (e : Expr) : Expr.evalAnd ρ [e] = Expr.eval ρ e := by
  simp [Expr.evalAnd]

theorem coarse_evalOr_one (ρ : Env) (e : Expr) : Expr.evalOr ρ [e] = Expr.eval ρ e := by
  simp [Expr.evalOr]

theorem coarse_evalAnd_cons (ρ : Env) (e e2 : Expr) (es : List Expr) :
    coarse (Expr.evalAnd ρ (e :: e2 :: es)) =
      (coarse (Expr.eval ρ e)).bind fun v =>
        if v.truthy ρ.fops then coarse (Expr.evalAnd ρ (e2 :: es)) else .val v := by
  simp only [Expr.evalAnd]
  cases Expr.eval ρ e <;> simp only [coarse, TOut.bind] <;> crunch

theorem coarse_evalOr_cons (ρ : Env) (e e2 : Expr) (es : List Expr) :
    coarse (Expr.evalOr ρ (e :: e2 :: es)) =
      (coarse (Expr.eval ρ e)).bind fun v =>
        if v.truthy ρ.fops then .val v else coarse (Expr.evalOr ρ (e2 :: es)) := by
  simp only [Expr.evalOr]
  cases Expr.eval ρ e <;> simp only [coarse, TOut.bind] <;> crunch

/-- quantifier loops -/
theorem R_quantLoop {tr : Val → Option Bool} {fo : FloatOps} (htr : ∀ v b, tr v = some b → b = v.truthy fo)
    (isAny : Bool) {f : Val → TOut} {g : Val → Out} (hf : ∀ x, R (f x) (coarse (g x))) :
    ∀ xs, R (quantLoopT tr isAny f xs) (coarse (quantLoop fo isAny g xs))
  | [] => by simp [quantLoopT, quantLoop, coarse, Out.ofBool, R]
  | x :: xs => by
    simp only [quantLoopT, quantLoop]
    rcases hf x with h | h
    · rw [h]; exact Or.inl rfl
    · rw [h]
      cases hg : g x with
      | val v =>
        simp only [coarse]
        cases ht : tr v with
        | none => exact Or.inl rfl
        | some b =>
          have := htr v b ht
          subst this
          simp only []
          split
          · exact Or.inr (by simp [coarse, Out.ofBool])
          · exact R_quantLoop htr isAny hf xs
      | _ => exact Or.inr (by simp [coarse])

theorem R_rangeLoop {tr : Val → Option Bool} {fo : FloatOps} (htr : ∀ v b, tr v = some b → b = v.truthy fo)
    (isAny : Bool) {f : Val → TOut} {g : Val → Out} (hf : ∀ x, R (f x) (coarse (g x))) :
    ∀ (n : Nat) (s : Int), R (rangeLoopT tr isAny f s n) (coarse (rangeLoop fo isAny g s n))
  | 0, s => by simp [rangeLoopT, rangeLoop, coarse, Out.ofBool, R]
  | n + 1, s => by
    simp only [rangeLoopT, rangeLoop]
    rcases hf (.int s) with h | h
    · rw [h]; exact Or.inl rfl
    · rw [h]
      cases hg : g (.int s) with
      | val v =>
        simp only [coarse]
        cases ht : tr v with
        | none => exact Or.inl rfl
        | some b =>
          have := htr v b ht
          subst this
          simp only []
          split
          · exact Or.inr (by simp [coarse, Out.ofBool])
          · exact R_rangeLoop htr isAny hf n (s + 1)
      | _ => exact Or.inr (by simp [coarse])

/-- generators -/
def RI (x : Text) (t : TIterRes) (g : GenRes) : Prop :=
  match t, g with
  | .off, _ => True
  | .items vs, .items y ws => x = y ∧ vs = ws
  | .range s n, .range y s' n' => x = y ∧ s = s' ∧ n = n'
  | .raised, .err _ => True
  | _, _ => False

theorem coarse_quant (ρ : Env) (isAny : Bool) (g : Gen) (c : Expr) :
    coarse (Expr.eval ρ (if isAny then .any g c else .all g c)) =
      (match Expr.evalGen ρ g with
       | .items x items => coarse (quantLoop ρ.fops isAny (fun item => Expr.eval (ρ.bind x item) c) items)
       | .range x s n => coarse (rangeLoop ρ.fops isAny (fun i => Expr.eval (ρ.bind x i) c) s n)
       | .err o => coarse o) := by
  cases isAny <;> simp only [Expr.eval, if_true, if_false, Bool.false_eq_true] <;>
    cases Expr.evalGen ρ g <;> rfl

end AasVerif.TargetEmit
