import AasVerif.Model.Cache
/-! Runs without the flag only execute ops that touch nothing but the model file (C23). -/
namespace AasVerif.Cache

/-- without the flag the skeleton consists of `readText`, `compute`, `ret` only -/
def QuietSkeleton (ops : List GOp) : Prop := ∀ g ∈ program ops false, pureOp g.op = true

def Quiet (p : Proc) : Prop := p.flag = false → (∀ g ∈ p.todo, pureOp g.op = true) ∧ p.w = none

def AllQuiet (s : St) : Prop := ∀ i p, s.procs i = some p → Quiet p

theorem mem_dropSkipped (m : Mode) (hit : Option Bool) (l : List GOp) (g : GOp)
    (h : g ∈ dropSkipped m hit l) : g ∈ l := by
  induction l with
  | nil => simp [dropSkipped] at h
  | cons x xs ih =>
    unfold dropSkipped at h
    split at h
    · exact List.mem_cons_of_mem _ (ih h)
    · exact h

theorem settle_todo_sub (p : Proc) (g : GOp) (h : g ∈ (settle p).todo) : g ∈ p.todo := by
  unfold settle at h
  split at h
  · simp at h
  · split at h
    · simp at h
    · exact mem_dropSkipped _ _ _ _ h

theorem settle_w' (p : Proc) : (settle p).w = p.w := by
  unfold settle; split <;> (try split) <;> rfl
theorem settle_flag' (p : Proc) : (settle p).flag = p.flag := by
  unfold settle; split <;> (try split) <;> rfl

theorem Quiet_settle (p : Proc) (h : Quiet p) : Quiet (settle p) := by
  intro hf
  rw [settle_flag'] at hf
  obtain ⟨h1, h2⟩ := h hf
  exact ⟨fun g hg => h1 g (settle_todo_sub p g hg), by rw [settle_w']; exact h2⟩

theorem exec_pure (cfg : Cfg) (i : Nat) (p : Proc) (fs : FS) (dir : Bool) (g : GOp) (e : Eff)
    (hp : pureOp g.op = true) (he : exec cfg i p fs dir g = some e) :
    e.fs = fs ∧ e.dir = dir ∧ e.acc = [] ∧ e.p.w = p.w ∧ e.p.flag = p.flag ∧ e.p.todo = p.todo := by
  unfold exec at he
  cases hop : g.op <;> simp only [hop, pureOp] at hp he <;> (try cases hp)
  · cases he; simp
  · split at he <;> (cases he; simp)
  · split at he
    · cases he; simp
    · cases he

theorem raise_quiet (p : Proc) (fs : FS) (g : GOp) (hw : p.w = none) :
    (raise p fs g).2 = fs ∧ (raise p fs g).1.w = none ∧ (raise p fs g).1.flag = p.flag ∧
    (raise p fs g).1.todo = p.todo := by
  unfold raise
  simp [hw]

/-- a step of a run without the flag changes neither the file system, nor the cache directory,
nor the access log (no probe of the temp directory, no look, no read, no write) -/
theorem quiet_effect (cfg : Cfg) (s : St) (i : Nat) (p : Proc) (hp : s.procs i = some p)
    (hf : p.flag = false) (hq : Quiet p) (ev : Event) (hev : ev = .step i ∨ ev = .exc i ∨ ev = .kill i) :
    (step cfg s ev).fs = s.fs ∧ (step cfg s ev).dir = s.dir ∧ (step cfg s ev).log = s.log := by
  obtain ⟨hpure, hw⟩ := hq hf
  rcases hev with rfl | rfl | rfl
  · simp only [step, hp]
    split
    · exact ⟨rfl, rfl, rfl⟩
    · next g rest htodo =>
      have hg : pureOp g.op = true := hpure g (by rw [htodo]; simp)
      split
      · next e he =>
        obtain ⟨h1, h2, h3, _⟩ := exec_pure cfg i _ s.fs s.dir g e hg he
        simp [h1, h2, h3]
      · have := raise_quiet { p with todo := rest } s.fs g hw
        simp [this.1]
  · simp only [step, hp]
    split
    · exact ⟨rfl, rfl, rfl⟩
    · next g rest htodo =>
      have := raise_quiet { p with todo := rest } s.fs g hw
      simp [this.1]
  · simp only [step, hp]
    split <;> exact ⟨rfl, rfl, rfl⟩

theorem step_AllQuiet (cfg : Cfg) (hq : QuietSkeleton cfg.ops) (s : St) (ev : Event) (h : AllQuiet s) :
    AllQuiet (step cfg s ev) := by
  have upd : ∀ (s' : St) (i : Nat) (p1 : Proc), s'.procs = setProc s i p1 → Quiet p1 → AllQuiet s' := by
    intro s' i p1 hs' hp1 j p hj
    rw [hs'] at hj
    unfold setProc at hj
    split at hj
    · injection hj with hj; subst hj; exact hp1
    · exact h j p hj
  cases ev with
  | spawn text flag =>
    refine upd _ s.n (spawnProc cfg text flag) rfl ?_
    unfold spawnProc
    apply Quiet_settle
    intro hf
    simp only at hf
    subst hf
    exact ⟨hq, rfl⟩
  | step i =>
    simp only [step]
    split
    · exact h
    · next p0 hp0 =>
      split
      · exact h
      · next g rest htodo =>
        have hq0 := h i p0 hp0
        split
        · next e he =>
          refine upd _ i (settle e.p) rfl (Quiet_settle _ ?_)
          intro hf
          by_cases hf0 : p0.flag = false
          · obtain ⟨hpure, hw⟩ := hq0 hf0
            have hg : pureOp g.op = true := hpure g (by rw [htodo]; simp)
            obtain ⟨_, _, _, h4, _, h6⟩ := exec_pure cfg i _ s.fs s.dir g e hg he
            refine ⟨?_, by rw [h4]; exact hw⟩
            intro g' hg'
            rw [h6] at hg'
            exact hpure g' (by rw [htodo]; exact List.mem_cons_of_mem _ hg')
          · exfalso
            -- the flag of a run never changes
            have : e.p.flag = p0.flag := by
              unfold exec at he
              cases hop : g.op <;> simp only [hop] at he <;> (repeat' split at he) <;>
                first | (cases he; done) | (cases he; rfl)
            exact hf0 (this ▸ hf)
        · refine upd _ i (settle (raise { p0 with todo := rest } s.fs g).1) rfl (Quiet_settle _ ?_)
          intro hf
          have hfl : (raise { p0 with todo := rest } s.fs g).1.flag = p0.flag := by unfold raise; rfl
          obtain ⟨hpure, hw⟩ := hq0 (hfl ▸ hf)
          have := raise_quiet { p0 with todo := rest } s.fs g hw
          refine ⟨?_, this.2.1⟩
          intro g' hg'
          rw [this.2.2.2] at hg'
          exact hpure g' (by rw [htodo]; exact List.mem_cons_of_mem _ hg')
  | exc i =>
    simp only [step]
    split
    · exact h
    · next p0 hp0 =>
      split
      · exact h
      · next g rest htodo =>
        have hq0 := h i p0 hp0
        refine upd _ i (settle { (raise { p0 with todo := rest } s.fs g).1 with faulted := true }) rfl (Quiet_settle _ ?_)
        intro hf
        have hfl : (raise { p0 with todo := rest } s.fs g).1.flag = p0.flag := by unfold raise; rfl
        obtain ⟨hpure, hw⟩ := hq0 (hfl ▸ hf)
        have := raise_quiet { p0 with todo := rest } s.fs g hw
        refine ⟨?_, this.2.1⟩
        intro g' hg'
        have hg'' : g' ∈ (raise { p0 with todo := rest } s.fs g).1.todo := hg'
        rw [this.2.2.2] at hg''
        exact hpure g' (by rw [htodo]; exact List.mem_cons_of_mem _ hg'')
  | kill i =>
    simp only [step]
    split
    · exact h
    · next p0 hp0 =>
      split
      · exact h
      · refine upd _ i _ rfl ?_
        intro _
        exact ⟨by intro g hg; simp at hg, rfl⟩

theorem run_AllQuiet (cfg : Cfg) (hq : QuietSkeleton cfg.ops) (sched : List Event) (s : St) (h : AllQuiet s) :
    AllQuiet (run cfg sched s) := by
  induction sched generalizing s with
  | nil => exact h
  | cons ev rest ih => exact ih (step cfg s ev) (step_AllQuiet cfg hq s ev h)

theorem AllQuiet_init : AllQuiet St.init := by
  intro i p hp; simp [St.init] at hp

end AasVerif.Cache
