import AasVerif.Model.Rules
/-!
# The depth-first search of stage 5 finds a cycle iff there is one

For every list of classes — parents may be undeclared (they are skipped) or listed twice,
class names may repeat (the first class of a name is the one `must_find_class` returns).
-/
namespace AasVerif.Rules
open AasVerif

theorem Reach.snoc {cs : List Cls} {a b c : Text} (h : Reach cs a b) (e : Edge cs b c) : Reach cs a c := by
  induction h with
  | step e' => exact .cons e' (.step e)
  | cons e' _ ih => exact .cons e' (ih e)

theorem Reach.trans {cs : List Cls} {a b c : Text} (h : Reach cs a b) (h' : Reach cs b c) : Reach cs a c := by
  induction h with
  | step e => exact .cons e h'
  | cons e _ ih => exact .cons e (ih h')

theorem findCls_some_mem {cs : List Cls} {n : Text} {c : Cls} (h : findCls cs n = some c) :
    c ∈ cs ∧ c.name = n := by
  unfold findCls at h
  have h1 := List.mem_of_find?_eq_some h
  have h2 := List.find?_some h
  exact ⟨h1, by simpa using h2⟩

theorem mem_names_of_findCls {cs : List Cls} {n : Text} (h : (findCls cs n).isSome) :
    n ∈ cs.map (·.name) := by
  cases hc : findCls cs n with
  | none => simp [hc] at h
  | some c =>
    have := findCls_some_mem hc
    exact List.mem_map.mpr ⟨c, this.1, this.2⟩

theorem edge_target_declared {cs : List Cls} {a b : Text} (e : Edge cs a b) : b ∈ cs.map (·.name) := by
  unfold Edge parentsOf at e
  cases hc : findCls cs a with
  | none => simp [hc] at e
  | some c =>
    simp only [hc, List.mem_filter] at e
    exact mem_names_of_findCls e.2

theorem edge_source_declared {cs : List Cls} {a b : Text} (e : Edge cs a b) : a ∈ cs.map (·.name) := by
  unfold Edge parentsOf at e
  cases hc : findCls cs a with
  | none => simp [hc] at e
  | some c => exact mem_names_of_findCls (by simp [hc])

theorem reach_source_declared {cs : List Cls} {a b : Text} (h : Reach cs a b) : a ∈ cs.map (·.name) := by
  cases h with
  | step e => exact edge_source_declared e
  | cons e _ => exact edge_source_declared e

/-! ## Permanent marks are topologically ordered -/

/-- Every element's parents occur later in the list. -/
def Topo (cs : List Cls) : List Text → Prop
  | [] => True
  | x :: l => (∀ p, Edge cs x p → p ∈ l) ∧ Topo cs l

theorem topo_closed {cs : List Cls} {l : List Text} (h : Topo cs l) :
    ∀ a ∈ l, ∀ b, Edge cs a b → b ∈ l := by
  induction l with
  | nil => intro a ha; cases ha
  | cons x l ih =>
    intro a ha b e
    rcases List.mem_cons.mp ha with rfl | ha
    · exact List.mem_cons_of_mem _ (h.1 b e)
    · exact List.mem_cons_of_mem _ (ih h.2 a ha b e)

theorem topo_reach_closed {cs : List Cls} {l : List Text} (h : Topo cs l) {a b : Text}
    (ha : a ∈ l) (r : Reach cs a b) : b ∈ l := by
  induction r with
  | step e => exact topo_closed h _ ha _ e
  | cons e _ ih => exact ih (topo_closed h _ ha _ e)

theorem topo_acyclic {cs : List Cls} {l : List Text} (h : Topo cs l) :
    ∀ a ∈ l, ¬ Reach cs a a := by
  induction l with
  | nil => intro a ha; cases ha
  | cons x l ih =>
    intro a ha r
    by_cases hal : a ∈ l
    · exact ih h.2 a hal r
    · rcases List.mem_cons.mp ha with rfl | ha'
      · cases r with
        | step e => exact hal (h.1 _ e)
        | cons e r' => exact hal (topo_reach_closed h.2 (h.1 _ e) r')
      · exact hal ha'

/-! ## `ok` results -/

def OkVisit (cs : List Cls) (fuel : Nat) : Prop :=
  ∀ path perm n perm', visit cs fuel path perm n = .ok perm' → Topo cs perm →
    Topo cs perm' ∧ (∀ x ∈ perm, x ∈ perm') ∧ n ∈ perm'

def OkVisitAll (cs : List Cls) (fuel : Nat) : Prop :=
  ∀ ps path perm perm', visitAll cs fuel path perm ps = .ok perm' → Topo cs perm →
    Topo cs perm' ∧ (∀ x ∈ perm, x ∈ perm') ∧ ∀ p ∈ ps, p ∈ perm'

theorem okVisitAll_of_okVisit {cs : List Cls} {fuel : Nat} (h : OkVisit cs fuel) : OkVisitAll cs fuel := by
  intro ps
  induction ps with
  | nil =>
    intro path perm perm' hv ht
    simp only [visitAll, Dfs.ok.injEq] at hv
    subst hv
    exact ⟨ht, fun _ hx => hx, fun _ hp => by cases hp⟩
  | cons p ps ih =>
    intro path perm perm' hv ht
    rw [visitAll] at hv
    cases hvp : visit cs fuel path perm p with
    | ok perm1 =>
      simp only [hvp] at hv
      obtain ⟨t1, s1, m1⟩ := h path perm p perm1 hvp ht
      obtain ⟨t2, s2, m2⟩ := ih path perm1 perm' hv t1
      refine ⟨t2, fun x hx => s2 x (s1 x hx), ?_⟩
      intro q hq
      rcases List.mem_cons.mp hq with rfl | hq
      · exact s2 _ m1
      · exact m2 q hq
    | cycle m => simp [hvp] at hv
    | fuel => simp [hvp] at hv

theorem okVisit (cs : List Cls) : ∀ fuel, OkVisit cs fuel := by
  intro fuel
  induction fuel with
  | zero =>
    intro path perm n perm' hv
    simp [visit] at hv
  | succ fuel ih =>
    intro path perm n perm' hv ht
    rw [visit] at hv
    by_cases h1 : n ∈ perm
    · simp only [h1, if_true, Dfs.ok.injEq] at hv
      subst hv
      exact ⟨ht, fun _ hx => hx, h1⟩
    · by_cases h2 : n ∈ path
      · simp [h1, h2] at hv
      · simp only [h1, h2, if_false] at hv
        cases hva : visitAll cs fuel (n :: path) perm (parentsOf cs n) with
        | ok perm1 =>
          simp only [hva, Dfs.ok.injEq] at hv
          subst hv
          obtain ⟨t1, s1, m1⟩ := okVisitAll_of_okVisit ih _ _ _ _ hva ht
          refine ⟨⟨fun p e => m1 p e, t1⟩, fun x hx => List.mem_cons_of_mem _ (s1 x hx), List.mem_cons_self⟩
        | cycle m => simp [hva] at hv
        | fuel => simp [hva] at hv

/-- If the search ends without finding a cycle there is none. -/
theorem dfs_ok_acyclic {cs : List Cls} {perm : List Text} (h : dfsCycle cs = .ok perm) :
    ∀ n, ¬ Reach cs n n := by
  intro n r
  obtain ⟨t, _, m⟩ := okVisitAll_of_okVisit (okVisit cs _) _ _ _ _ h (by trivial : Topo cs [])
  exact topo_acyclic t n (m n (reach_source_declared r)) r

/-! ## `cycle` results -/

def CyVisit (cs : List Cls) (fuel : Nat) : Prop :=
  ∀ path perm n m, visit cs fuel path perm n = .cycle m → (∀ x ∈ path, Reach cs x n) → Reach cs m m

def CyVisitAll (cs : List Cls) (fuel : Nat) : Prop :=
  ∀ ps path perm m, visitAll cs fuel path perm ps = .cycle m →
    (∀ p ∈ ps, ∀ x ∈ path, Reach cs x p) → Reach cs m m

theorem cyVisitAll_of_cyVisit {cs : List Cls} {fuel : Nat} (h : CyVisit cs fuel) : CyVisitAll cs fuel := by
  intro ps
  induction ps with
  | nil =>
    intro path perm m hv
    simp [visitAll] at hv
  | cons p ps ih =>
    intro path perm m hv hp
    rw [visitAll] at hv
    cases hvp : visit cs fuel path perm p with
    | ok perm1 =>
      simp only [hvp] at hv
      exact ih path perm1 m hv (fun q hq => hp q (List.mem_cons_of_mem _ hq))
    | cycle m' =>
      simp only [hvp, Dfs.cycle.injEq] at hv
      subst hv
      exact h path perm p m' hvp (hp p List.mem_cons_self)
    | fuel => simp [hvp] at hv

theorem cyVisit (cs : List Cls) : ∀ fuel, CyVisit cs fuel := by
  intro fuel
  induction fuel with
  | zero =>
    intro path perm n m hv
    simp [visit] at hv
  | succ fuel ih =>
    intro path perm n m hv hp
    rw [visit] at hv
    by_cases h1 : n ∈ perm
    · simp [h1] at hv
    · by_cases h2 : n ∈ path
      · simp only [h1, h2, if_true, if_false, Dfs.cycle.injEq] at hv
        subst hv
        exact hp n h2
      · simp only [h1, h2, if_false] at hv
        cases hva : visitAll cs fuel (n :: path) perm (parentsOf cs n) with
        | ok perm1 => simp [hva] at hv
        | cycle m' =>
          simp only [hva, Dfs.cycle.injEq] at hv
          subst hv
          refine cyVisitAll_of_cyVisit ih _ _ _ _ hva ?_
          intro p hpe x hx
          rcases List.mem_cons.mp hx with rfl | hx
          · exact .step hpe
          · exact (hp x hx).snoc hpe
        | fuel => simp [hva] at hv

/-- A reported class really lies on a cycle. -/
theorem dfs_cycle_real {cs : List Cls} {m : Text} (h : dfsCycle cs = .cycle m) : Reach cs m m :=
  cyVisitAll_of_cyVisit (cyVisit cs _) _ _ _ _ h (fun _ _ _ hx => by cases hx)

/-! ## The fuel suffices -/

theorem nodup_length_le {l m : List Text} (hn : l.Nodup) (hs : ∀ x ∈ l, x ∈ m) : l.length ≤ m.length := by
  induction l generalizing m with
  | nil => simp
  | cons x l ih =>
    have hx : x ∈ m := hs x List.mem_cons_self
    have hn' := List.nodup_cons.mp hn
    have := ih (m := m.erase x) hn'.2 (fun y hy => by
      have hne : y ≠ x := fun e => hn'.1 (e ▸ hy)
      exact (List.mem_erase_of_ne hne).mpr (hs y (List.mem_cons_of_mem _ hy)))
    rw [List.length_erase_of_mem hx] at this
    have hpos : 0 < m.length := List.length_pos_of_mem hx
    simp only [List.length_cons]
    omega

def FuVisit (cs : List Cls) (fuel : Nat) : Prop :=
  ∀ path perm n, path.Nodup → (∀ x ∈ path, x ∈ cs.map (·.name)) → n ∈ cs.map (·.name) →
    path.length + fuel = cs.length + 1 → visit cs fuel path perm n ≠ .fuel

def FuVisitAll (cs : List Cls) (fuel : Nat) : Prop :=
  ∀ ps path perm, path.Nodup → (∀ x ∈ path, x ∈ cs.map (·.name)) → (∀ p ∈ ps, p ∈ cs.map (·.name)) →
    path.length + fuel = cs.length + 1 → visitAll cs fuel path perm ps ≠ .fuel

theorem fuVisitAll_of_fuVisit {cs : List Cls} {fuel : Nat} (h : FuVisit cs fuel) : FuVisitAll cs fuel := by
  intro ps
  induction ps with
  | nil =>
    intro path perm _ _ _ _
    simp [visitAll]
  | cons p ps ih =>
    intro path perm hn hs hp hl
    rw [visitAll]
    cases hvp : visit cs fuel path perm p with
    | ok perm1 =>
      simp only []
      exact ih path perm1 hn hs (fun q hq => hp q (List.mem_cons_of_mem _ hq)) hl
    | cycle m => simp
    | fuel => exact absurd hvp (h path perm p hn hs (hp p List.mem_cons_self) hl)

theorem fuVisit (cs : List Cls) : ∀ fuel, FuVisit cs fuel := by
  intro fuel
  induction fuel with
  | zero =>
    intro path perm n hn hs _ hl
    exfalso
    have := nodup_length_le hn hs
    simp only [List.length_map] at this
    omega
  | succ fuel ih =>
    intro path perm n hn hs hnm hl
    rw [visit]
    by_cases h1 : n ∈ perm
    · simp [h1]
    · by_cases h2 : n ∈ path
      · simp [h1, h2]
      · simp only [h1, h2, if_false]
        have hfa := fuVisitAll_of_fuVisit ih (parentsOf cs n) (n :: path) perm
          (List.nodup_cons.mpr ⟨h2, hn⟩)
          (fun x hx => by
            rcases List.mem_cons.mp hx with rfl | hx
            · exact hnm
            · exact hs x hx)
          (fun p hp => edge_target_declared (cs := cs) (a := n) hp)
          (by simp only [List.length_cons]; omega)
        cases hva : visitAll cs fuel (n :: path) perm (parentsOf cs n) with
        | ok perm1 => simp
        | cycle m => simp
        | fuel => exact absurd hva hfa

/-- The recursion never runs out of the fuel `dfsCycle` supplies. -/
theorem dfs_fuel_suffices (cs : List Cls) : dfsCycle cs ≠ .fuel :=
  fuVisitAll_of_fuVisit (fuVisit cs _) _ _ _ List.nodup_nil (fun _ hx => by cases hx)
    (fun _ hp => hp) (by simp)

/-! ## The centrepiece -/

/-- The search reports a cycle iff some class reaches itself through the transitive
closure of `parent` — for every list of classes. -/
theorem cycle_detected_iff (cs : List Cls) :
    (∃ m, dfsCycle cs = .cycle m) ↔ ∃ n, Reach cs n n := by
  constructor
  · rintro ⟨m, h⟩
    exact ⟨m, dfs_cycle_real h⟩
  · rintro ⟨n, r⟩
    cases h : dfsCycle cs with
    | ok perm => exact absurd r (dfs_ok_acyclic h n)
    | cycle m => exact ⟨m, rfl⟩
    | fuel => exact absurd h (dfs_fuel_suffices cs)

theorem dfs_ok_iff_acyclic (cs : List Cls) :
    (∃ perm, dfsCycle cs = .ok perm) ↔ ∀ n, ¬ Reach cs n n := by
  constructor
  · rintro ⟨perm, h⟩
    exact dfs_ok_acyclic h
  · intro hac
    cases h : dfsCycle cs with
    | ok perm => exact ⟨perm, rfl⟩
    | cycle m => exact absurd (dfs_cycle_real h) (hac m)
    | fuel => exact absurd h (dfs_fuel_suffices cs)

end AasVerif.Rules
