import AasVerif.Lemmas.RevmEq6
/-!
`translate r` of an accepted pattern succeeds and is exactly the clean program `compileTop r`.
-/
set_option linter.unusedSimpArgs false
namespace AasVerif.Revm
open AasVerif.Retree

theorem isStartTerm_eq' (t : Term) (h : isStartTerm t = true) : t = .mk (.sym .start) none := by
  unfold isStartTerm at h
  split at h
  · rfl
  · simp at h

theorem isStopTerm_eq' (t : Term) (h : isStopTerm t = true) : t = .mk (.sym .stop) none := by
  unfold isStopTerm at h
  split at h
  · rfl
  · simp at h

theorem getLast?_getD_cons (t : Term) (ts : List Term) (l : Term) (h : ts.getLast? = some l) :
    (t :: ts).getLast?.getD t = l := by
  cases ts with
  | nil => simp at h
  | cons a as =>
    simp [List.getLast?_cons_cons] at h ⊢
    simp [h]

theorem transformRegex_accepted (t : Term) (ts : List Term) (l : Term)
    (ht : isStartTerm t = true) (hl : ts.getLast? = some l) (hs : isStopTerm l = true) (hok : okTs ts = true) :
    ∃ xs n', transformRegex (.mk [.mk (t :: ts)]) 0 = .ok (.node (xs ++ [lf .matched]), n') ∧
      Frag (linearizeList xs) (InRange 0 n') (compTs (bodyTerms (t :: ts))) (sizeTs (bodyTerms (t :: ts))) := by
  have ht' := isStartTerm_eq' t ht
  have hs' := isStopTerm_eq' l hs
  have hfv := noFvTs ts hok
  obtain ⟨xs, n', h1, _, hF⟩ := specTs (bodyTerms (t :: ts)) (okTs_body t ts hok) 0
  refine ⟨xs, n', ?_, hF⟩
  have hlast := getLast?_getD_cons t ts l hl
  subst ht' hs'
  unfold transformRegex
  simp only [hasFvU, hasFvCs, hasFvC, hasFvTs, hasFvT, hasFvV, hfv.1, Bool.or_false, Bool.false_eq_true,
    if_false, hasNonGreedyU, hasNonGreedyCs, hasNonGreedyC, hasNonGreedyTs, hasNonGreedyT, hasNonGreedyV, hfv.2]
  simp only [hlast, termIsSym, List.isEmpty_nil, Bool.not_true, beq_self_eq_true, Bool.or_self,
    Bool.false_eq_true, if_false]
  simp [h1]

theorem translate_eq (r : Regex) (h : Accepted r) :
    ∃ ls, translate r = .ok ls ∧ instrs ls = compileTop r ∧ LabelsAreIndices 0 ls := by
  obtain ⟨t, ts, l, hr, ht, hl, hs, hok⟩ := accepted_shape r h
  subst hr
  obtain ⟨xs, n', htr, hF⟩ := transformRegex_accepted t ts l ht hl hs hok
  have hclosed : ∀ x ∈ targetsOf (linearizeList xs ++ [⟨.matched, none⟩]),
      x ∈ labelsOf (linearizeList xs ++ [⟨.matched, none⟩]) := by
    intro x hx
    simp [targetsOf, Instr.targets] at hx
    simp [hF.closed x hx]
  obtain ⟨ls', p, h1, h2, h3, h4⟩ := relabel_strip (linearizeList xs) ⟨.matched, none⟩ rfl hclosed
  refine ⟨p, ?_, ?_, h4⟩
  · unfold translate translateFrom
    simp [htr, h1, h2]
  · rw [h3, strip_append]
    have hg : Good (pos (linearizeList xs ++ [⟨.matched, none⟩])) 0 (linearizeList xs) := by
      intro l' hl'
      rw [pos_append, if_pos hl']
      simp
    rw [hF.code 0 _ hg]
    simp [strip, Leaf.real, Instr.isNoop, Instr.mapT, compileTop]

end AasVerif.Revm
