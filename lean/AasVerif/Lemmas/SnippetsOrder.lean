import AasVerif.Model.Snippets
/-! Order lemmas for `sorted(paths)`: the lexicographic orders are total, transitive and
antisymmetric, hence sorting a permutation of a listing gives the same list. -/
namespace AasVerif.Snippets

structure StrictTotal {α : Type} (lt : α → α → Bool) : Prop where
  irrefl : ∀ a, lt a a = false
  trans : ∀ a b c, lt a b = true → lt b c = true → lt a c = true
  tri : ∀ a b, lt a b = true ∨ a = b ∨ lt b a = true

variable {α : Type} [DecidableEq α] {lt : α → α → Bool}

theorem lexLe_refl (lt : α → α → Bool) (l : List α) : lexLe lt l l = true := by
  induction l with
  | nil => simp [lexLe]
  | cons x xs ih => simp [lexLe, ih]

theorem lexLe_trans (h : StrictTotal lt) :
    ∀ a b c : List α, lexLe lt a b = true → lexLe lt b c = true → lexLe lt a c = true := by
  intro a
  induction a with
  | nil => intros; simp [lexLe]
  | cons x xs ih =>
    intro b c hab hbc
    cases b with
    | nil => simp [lexLe] at hab
    | cons y ys =>
      cases c with
      | nil => simp [lexLe] at hbc
      | cons z zs =>
        simp only [lexLe, Bool.or_eq_true, Bool.and_eq_true, decide_eq_true_eq] at hab hbc ⊢
        rcases hab with hxy | ⟨rfl, hxs⟩
        · rcases hbc with hyz | ⟨rfl, _⟩
          · left; exact h.trans _ _ _ hxy hyz
          · left; exact hxy
        · rcases hbc with hyz | ⟨rfl, hys⟩
          · left; exact hyz
          · right; exact ⟨rfl, ih _ _ hxs hys⟩

theorem lexLe_antisymm (h : StrictTotal lt) :
    ∀ a b : List α, lexLe lt a b = true → lexLe lt b a = true → a = b := by
  intro a
  induction a with
  | nil => intro b hab hba; cases b with
    | nil => rfl
    | cons y ys => simp [lexLe] at hba
  | cons x xs ih =>
    intro b hab hba
    cases b with
    | nil => simp [lexLe] at hab
    | cons y ys =>
      simp only [lexLe, Bool.or_eq_true, Bool.and_eq_true, decide_eq_true_eq] at hab hba
      rcases hab with hxy | ⟨rfl, hxs⟩
      · rcases hba with hyx | ⟨rfl, _⟩
        · have := h.trans _ _ _ hxy hyx
          rw [h.irrefl] at this; cases this
        · rw [h.irrefl] at hxy; cases hxy
      · rcases hba with hyx | ⟨_, hys⟩
        · rw [h.irrefl] at hyx; cases hyx
        · rw [ih _ hxs hys]

theorem lexLe_total (h : StrictTotal lt) :
    ∀ a b : List α, lexLe lt a b = true ∨ lexLe lt b a = true := by
  intro a
  induction a with
  | nil => intro b; left; simp [lexLe]
  | cons x xs ih =>
    intro b
    cases b with
    | nil => right; simp [lexLe]
    | cons y ys =>
      simp only [lexLe, Bool.or_eq_true, Bool.and_eq_true, decide_eq_true_eq]
      rcases h.tri x y with hxy | rfl | hyx
      · left; left; exact hxy
      · rcases ih ys with h1 | h1
        · left; right; exact ⟨rfl, h1⟩
        · right; right; exact ⟨rfl, h1⟩
      · right; left; exact hyx

/-- The strict order belonging to `lexLe`. -/
def lexLt (lt : α → α → Bool) (a b : List α) : Bool := lexLe lt a b && !decide (a = b)

theorem lexLt_strictTotal (h : StrictTotal lt) : StrictTotal (lexLt lt) where
  irrefl a := by simp [lexLt]
  trans a b c hab hbc := by
    simp only [lexLt, Bool.and_eq_true, Bool.not_eq_true', decide_eq_false_iff_not] at hab hbc ⊢
    refine ⟨lexLe_trans h _ _ _ hab.1 hbc.1, ?_⟩
    intro hac
    subst hac
    exact hab.2 (lexLe_antisymm h _ _ hab.1 hbc.1)
  tri a b := by
    by_cases hab : a = b
    · right; left; exact hab
    · rcases lexLe_total h a b with h1 | h1
      · left; simp [lexLt, h1, hab]
      · right; right
        have : ¬ b = a := fun h' => hab h'.symm
        simp [lexLt, h1, this]

theorem natLt_strictTotal : StrictTotal natLt where
  irrefl a := by simp [natLt]
  trans a b c := by simp only [natLt, decide_eq_true_eq]; omega
  tri a b := by simp only [natLt, decide_eq_true_eq]; omega

theorem textLt_eq : textLt = lexLt natLt := rfl

theorem textLt_strictTotal : StrictTotal textLt := by
  rw [textLt_eq]; exact lexLt_strictTotal natLt_strictTotal

theorem relLe_trans (a b c : List Text) : relLe a b = true → relLe b c = true → relLe a c = true :=
  lexLe_trans textLt_strictTotal a b c

theorem relLe_total (a b : List Text) : relLe a b = true ∨ relLe b a = true :=
  lexLe_total textLt_strictTotal a b

theorem relLe_antisymm (a b : List Text) : relLe a b = true → relLe b a = true → a = b :=
  lexLe_antisymm textLt_strictTotal a b

theorem entryLe_trans (a b c : Entry) : entryLe a b = true → entryLe b c = true → entryLe a c = true :=
  relLe_trans _ _ _

theorem entryLe_total (a b : Entry) : (entryLe a b || entryLe b a) = true := by
  rcases relLe_total a.rel b.rel with h | h <;> simp [entryLe, h]

/-- Paths of a directory listing are unique: two entries with the same relative path are the same entry. -/
def RelFunctional (es : List Entry) : Prop := ∀ a ∈ es, ∀ b ∈ es, a.rel = b.rel → a = b

theorem sortEntries_sorted (es : List Entry) : (sortEntries es).Pairwise (fun a b => entryLe a b = true) :=
  List.pairwise_mergeSort entryLe_trans entryLe_total es

theorem sortEntries_perm (es : List Entry) : (sortEntries es).Perm es := List.mergeSort_perm es _

theorem mem_sortEntries {e : Entry} {es : List Entry} : e ∈ sortEntries es ↔ e ∈ es := List.mem_mergeSort

/-- `sorted(...)` forgets the order in which the file system listed the paths. -/
theorem sortEntries_eq_of_perm {es es' : List Entry} (hp : es.Perm es') (wf : RelFunctional es) :
    sortEntries es = sortEntries es' := by
  apply List.Perm.eq_of_pairwise (le := fun a b => entryLe a b = true)
  · intro a b ha hb hab hba
    rw [mem_sortEntries] at ha hb
    exact wf a ha b (hp.mem_iff.mpr hb) (relLe_antisymm _ _ hab hba)
  · exact sortEntries_sorted es
  · exact sortEntries_sorted es'
  · exact (sortEntries_perm es).trans (hp.trans (sortEntries_perm es').symm)

/-- Sorting `e :: es` inserts `e` somewhere into the sorted `es`. -/
theorem sortEntries_cons (e : Entry) (es : List Entry) :
    ∃ l₁ l₂, sortEntries (e :: es) = l₁ ++ e :: l₂ ∧ sortEntries es = l₁ ++ l₂ := by
  obtain ⟨l₁, l₂, h1, h2, _⟩ := List.mergeSort_cons (le := entryLe) entryLe_trans entryLe_total e es
  exact ⟨l₁, l₂, h1, h2⟩

end AasVerif.Snippets
