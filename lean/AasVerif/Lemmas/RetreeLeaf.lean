import AasVerif.Lemmas.RetreeBasic
/-!
`Good` outcomes of the non-recursive parts of the parser: escapes, range characters,
quantifiers, character literals.
-/
namespace AasVerif.Retree

theorem lookup_mem (e v : Nat) (l : List (Nat × Nat)) (h : lookup e l = some v) : v ∈ l.map (·.2) := by
  induction l with
  | nil => simp [lookup] at h
  | cons p l ih =>
    obtain ⟨a, b⟩ := p
    simp only [lookup] at h
    split at h
    · injection h with h; subst h; simp
    · simp [ih h]

/-- A character produced by an escape: encoded ones are code points, plain ones come from the table. -/
def EscChr (simple : List (Nat × Nat)) (c : Chr) : Prop :=
  if c.enc then c.code < 0x110000 else c.code ∈ simple.map (·.2)

theorem parseHex_good (simple : List (Nat × Nat)) (n : Nat) (astral : Bool) (r : List Tok)
    (hn : astral = true ∨ 16 ^ n ≤ 0x110000) :
    Good (fun c _ => EscChr simple c) r.length False (parseHex n astral r) := by
  unfold parseHex
  cases h : takeChars n r with
  | none => simp [Good]
  | some p =>
    obtain ⟨cs, r'⟩ := p
    obtain ⟨hlen, hr⟩ := takeChars_spec n r cs r' h
    have hr' : r'.length ≤ r.length := by rw [hr]; simp
    simp only
    cases hv : hexVal cs with
    | none => simpa [Good] using hr'
    | some code =>
      simp only
      split
      · simpa [Good] using hr'
      · next hne =>
        refine ⟨hr', ?_⟩
        simp only [EscChr, if_true]
        have hb := hexVal_lt cs code hv
        rw [hlen] at hb
        cases hn with
        | inl ha =>
          subst ha
          simp only [Bool.true_and, Bool.or_eq_true, decide_eq_true_eq, not_or] at hne
          omega
        | inr hb' => omega

theorem parseEscape_good (simple : List (Nat × Nat)) (classes : List Nat) (r : List Tok) :
    Good (fun c _ => EscChr simple c) r.length False (parseEscape simple classes r) := by
  unfold parseEscape
  split
  · next e r' =>
    have h1 : r'.length ≤ (Tok.ch e :: r').length := by simp
    split
    · exact (parseHex_good simple 2 false r' (Or.inr (by decide))).mono (fun _ _ _ h => h) h1 id
    · split
      · exact (parseHex_good simple 4 false r' (Or.inr (by decide))).mono (fun _ _ _ h => h) h1 id
      · split
        · exact (parseHex_good simple 8 true r' (Or.inl rfl)).mono (fun _ _ _ h => h) h1 id
        · split
          · next v hv =>
            refine ⟨h1, ?_⟩
            simp only [EscChr, Bool.false_eq_true, if_false]
            exact lookup_mem e v simple hv
          · split <;> simp [Good]
  · simp [Good]

theorem parseRangeChar_good (ts : List Tok) (hne : ts ≠ []) (hd : ∀ r, ts ≠ .ch 45 :: r) :
    Good (fun c r => inRangeChrSet c = true ∧ r.length < ts.length) ts.length False (parseRangeChar ts) := by
  unfold parseRangeChar
  split
  · exact absurd rfl hne
  · next c r =>
    split
    · next h => subst h; exact absurd rfl (hd r)
    · split
      · have := parseEscape_good rangeEscapes rangeClasses r
        refine this.mono ?_ (by simp) id
        intro c' r' hr' hc
        refine ⟨?_, by simp; omega⟩
        unfold EscChr at hc
        unfold inRangeChrSet
        split <;> simp_all
      · simp [Good, inRangeChrSet]
  · simp [Good]

/-! ### quantifiers -/

theorem mkQuant_good (ng : Bool) (mn : Nat) (mx : Option Nat) (r : List Tok) (n : Nat) (hr : r.length ≤ n)
    (hmn : mn < tooLargeCount) (h : ∀ m, mx = some m → mn ≤ m ∧ m < tooLargeCount) :
    Good (fun q r' => (∀ x, q = some x → inRangeQuant x = true) ∧ r' = r ∧ q.isSome) n False (mkQuant ng mn mx r) := by
  cases mx with
  | none => simp [mkQuant, Good, hr, inRangeQuant, hmn]
  | some m =>
    have := h m rfl
    have h' : ¬ (mn > m) := by omega
    simp [mkQuant, Good, hr, inRangeQuant, h', this, hmn]

theorem dropComma_length (r : List Tok) : (dropComma r).length ≤ r.length := by
  unfold dropComma; split <;> simp

theorem quantBounds_length (r : List Tok) : (quantBounds r).2.2.2.length ≤ r.length := by
  unfold quantBounds
  simp only
  have l0 := skipWs_length r
  have l1 := parseNat_length (skipWs r)
  have l1' := skipWs_length (parseNat (skipWs r)).2
  have h2 := dropComma_length (skipWs (parseNat (skipWs r)).2)
  have l2 := skipWs_length (dropComma (skipWs (parseNat (skipWs r)).2))
  have l3 := parseNat_length (skipWs (dropComma (skipWs (parseNat (skipWs r)).2)))
  have l3' := skipWs_length (parseNat (skipWs (dropComma (skipWs (parseNat (skipWs r)).2)))).2
  omega

theorem closeQuant_good (mn0 : Nat) (mx' : Option Nat) (r3 : List Tok) (n : Nat) (hlen : r3.length ≤ n)
    (hmn : mn0 < tooLargeCount) (h : ∀ m, mx' = some m → mn0 ≤ m ∧ m < tooLargeCount) :
    Good (fun q _ => (∀ x, q = some x → inRangeQuant x = true) ∧ q.isSome) n False (closeQuant mn0 mx' r3) := by
  unfold closeQuant
  split
  · exact (mkQuant_good _ _ _ _ n (by simp only [List.length_cons] at hlen; omega) hmn h).mono
      (fun _ _ _ hh => ⟨hh.1, hh.2.2⟩) (Nat.le_refl _) id
  · exact (mkQuant_good _ _ _ _ n (by simp only [List.length_cons] at hlen; omega) hmn h).mono
      (fun _ _ _ hh => ⟨hh.1, hh.2.2⟩) (Nat.le_refl _) id
  · exact hlen

theorem countTooLarge_false (o : Option Nat) (h : countTooLarge o = false) : ∀ m, o = some m → m < tooLargeCount := by
  intro m hm
  subst hm
  simp only [countTooLarge, decide_eq_false_iff_not] at h
  omega

/-- `parseQuant`: a quantifier consumes at least one token. -/
theorem parseQuant_good (ts : List Tok) :
    Good (fun q r => (∀ x, q = some x → inRangeQuant x = true) ∧ (q = none → r = ts)) ts.length False (parseQuant ts) := by
  have weaken : ∀ {n : Nat} {x : Res (Option Quant × List Tok)}, n ≤ ts.length →
      Good (fun q _ => (∀ x, q = some x → inRangeQuant x = true) ∧ q.isSome) n False x →
      Good (fun q r => (∀ x, q = some x → inRangeQuant x = true) ∧ (q = none → r = ts)) ts.length False x := by
    intro n x hn hx
    refine hx.mono ?_ hn id
    intro q r' _ ⟨h1, h3⟩
    refine ⟨h1, ?_⟩
    intro hq; subst hq; simp at h3
  have mk : ∀ (ng : Bool) (mn : Nat) (mx : Option Nat) (r : List Tok), r.length ≤ ts.length → mn < tooLargeCount →
      (∀ m, mx = some m → mn ≤ m ∧ m < tooLargeCount) →
      Good (fun q r => (∀ x, q = some x → inRangeQuant x = true) ∧ (q = none → r = ts)) ts.length False (mkQuant ng mn mx r) := by
    intro ng mn mx r hr hmn h
    exact weaken (Nat.le_refl _) ((mkQuant_good ng mn mx r _ hr hmn h).mono (fun _ _ _ hh => ⟨hh.1, hh.2.2⟩) (Nat.le_refl _) id)
  unfold parseQuant
  split
  · exact mk _ _ _ _ (by simp; omega) (by decide) (by simp)
  · exact mk _ _ _ _ (by simp; omega) (by decide) (by simp)
  · exact mk _ _ _ _ (by simp; omega) (by decide) (by simp [tooLargeCount])
  · exact mk _ _ _ _ (by simp) (by decide) (by simp)
  · exact mk _ _ _ _ (by simp) (by decide) (by simp)
  · exact mk _ _ _ _ (by simp) (by decide) (by simp [tooLargeCount])
  · next r =>
    have hlen := quantBounds_length r
    generalize quantBounds r = b at hlen
    obtain ⟨mn, comma, mx, r3⟩ := b
    simp only at hlen ⊢
    split
    · simp only [Good, List.length_cons]; omega
    · split
      · simp only [Good, List.length_cons]; omega
      · next hbig =>
        simp only [Bool.or_eq_true, not_or, Bool.not_eq_true] at hbig
        have hmnlt := countTooLarge_false mn hbig.1
        have hmxlt := countTooLarge_false mx hbig.2
        have hmn0 : mn.getD 0 < tooLargeCount := by
          cases mn with
          | none => decide
          | some a => exact hmnlt a rfl
        have hmx' : ∀ m, (if comma = true then mx else mn) = some m → m < tooLargeCount := by
          intro m hm
          split at hm
          · exact hmxlt m hm
          · exact hmnlt m hm
        generalize (if comma = true then mx else mn) = mx' at hmx'
        cases mx' with
        | none =>
          simp only [Bool.false_eq_true, if_false]
          exact weaken (by simp) (closeQuant_good _ _ _ r.length hlen hmn0 (by simp))
        | some m =>
          simp only [decide_eq_true_eq]
          split
          · simp only [Good, List.length_cons]; omega
          · exact weaken (by simp) (closeQuant_good _ _ _ r.length hlen hmn0
              (by intro m' hm'; injection hm' with hm'; have := hmx' m rfl; omega))
  · exact ⟨Nat.le_refl _, by simp, fun _ => rfl⟩

end AasVerif.Retree
