import AasVerif.Model.PatternShape
import AasVerif.Model.Retree.InRange
import AasVerif.Lemmas.XsdSemConv
/-!
What the front end's pattern check guarantees: a parsed pattern without errors, checked with at most one
`^` and at most one `$`, is `^ body $` with no anchor inside `body` — the hypothesis of the converse
pattern theorem (`XsdSemConv.conv_anchored`).
-/
namespace AasVerif.PatternShape
open AasVerif AasVerif.Retree AasVerif.XsdPattern

theorem cntTerms_append (k : SymKind) (a b : List Term) :
    cntTerms k (a ++ b) = cntTerms k a + cntTerms k b := by
  induction a with
  | nil => simp [cntTerms]
  | cons t ts ih =>
    obtain ⟨v, q⟩ := t
    simp only [List.cons_append, cntTerms, ih]
    omega

mutual
  theorem na_of_cnt_value : (v : Value) → cntValue .start v = 0 → cntValue .stop v = 0 → naValue v = true
    | .group u, h1, h2 => by
      simp only [cntValue] at h1 h2
      simp only [naValue]
      exact na_of_cnt_union u h1 h2
    | .char _, _, _ => rfl
    | .set _ _, _, _ => rfl
    | .fv _, _, _ => rfl
    | .sym .dot, _, _ => rfl
    | .sym .start, h1, _ => by simp [cntValue] at h1
    | .sym .stop, _, h2 => by simp [cntValue] at h2
  theorem na_of_cnt_terms : (ts : List Term) → cntTerms .start ts = 0 → cntTerms .stop ts = 0 → naTerms ts = true
    | [], _, _ => rfl
    | .mk v q :: ts, h1, h2 => by
      simp only [cntTerms] at h1 h2
      simp only [naTerms, Bool.and_eq_true]
      exact ⟨na_of_cnt_value v (by omega) (by omega), na_of_cnt_terms ts (by omega) (by omega)⟩
  theorem na_of_cnt_concats : (cs : List Concat) → cntConcats .start cs = 0 → cntConcats .stop cs = 0 →
      naConcats cs = true
    | [], _, _ => rfl
    | .mk ts :: cs, h1, h2 => by
      simp only [cntConcats] at h1 h2
      simp only [naConcats, Bool.and_eq_true]
      exact ⟨na_of_cnt_terms ts (by omega) (by omega), na_of_cnt_concats cs (by omega) (by omega)⟩
  theorem na_of_cnt_union : (u : Union) → cntUnion .start u = 0 → cntUnion .stop u = 0 → naUnion u = true
    | .mk us, h1, h2 => by
      simp only [cntUnion] at h1 h2
      simp only [naUnion]
      exact na_of_cnt_concats us h1 h2
end

theorem inRangeTerms_append (a b : List Term) :
    inRangeTerms (a ++ b) = (inRangeTerms a && inRangeTerms b) := by
  induction a with
  | nil => simp [inRangeTerms]
  | cons t ts ih => simp [inRangeTerms, ih, Bool.and_assoc]

theorem anchor_term_no_quant {v : Value} {q : Option Quant} (h : inRangeTerm (.mk v q) = true)
    (ha : isAnchor v = true) : q = none := by
  cases q with
  | none => rfl
  | some q => simp [inRangeTerm, ha] at h

theorem isStart_eq {v : Value} (h : isStart v = true) : v = .sym .start := by
  cases v with
  | sym k => cases k <;> simp [isStart] at h ⊢
  | _ => simp [isStart] at h

theorem isStop_eq {v : Value} (h : isStop v = true) : v = .sym .stop := by
  cases v with
  | sym k => cases k <;> simp [isStop] at h ⊢
  | _ => simp [isStop] at h

/-- **The front end's guarantee.** If the checks hold at most one `^` and at most one `$` to account,
a tree the parser can return and for which no error is reported is `^ body $` with no anchor in `body`. -/
theorem shape_ok_anchored (checks : List Check)
    (hc1 : Check.count .start 1 ∈ checks) (hc2 : Check.count .stop 1 ∈ checks)
    (r : Regex) (hin : inRangeTop r = true) (h : shapeErrors checks r = []) :
    ∃ body, r = anchoredAround body ∧ naTerms body = true := by
  obtain ⟨us⟩ := r
  unfold shapeErrors at h
  split at h
  · cases h
  · cases h
  · next t ts rest heq =>
    injection heq with heq
    subst heq
    split at h
    · next hcond =>
      simp only [Bool.and_eq_true, List.isEmpty_iff] at hcond
      obtain ⟨⟨hrest, hst⟩, hsp⟩ := hcond
      subst hrest
      have hall := List.flatMap_eq_nil_iff.mp h
      have h1 := hall _ hc1
      have h2 := hall _ hc2
      simp only [runCheck, cntUnion, cntConcats, Nat.add_zero] at h1 h2
      have h1' : cntTerms .start (t :: ts) ≤ 1 := by
        by_cases hgt : cntTerms .start (t :: ts) > 1
        · simp [hgt] at h1
        · omega
      have h2' : cntTerms .stop (t :: ts) ≤ 1 := by
        by_cases hgt : cntTerms .stop (t :: ts) > 1
        · simp [hgt] at h2
        · omega
      -- the trees of the parser: no quantifier on an anchor
      unfold inRangeTop at hin
      simp only [inRangeUnion, inRangeConcats, Bool.and_true] at hin
      have hterms : inRangeTerms (t :: ts) = true := by simpa using hin
      obtain ⟨v, q⟩ := t
      simp only [Term.value] at hst
      have hv := isStart_eq hst
      subst hv
      simp only [inRangeTerms, Bool.and_eq_true] at hterms
      have hq := anchor_term_no_quant hterms.1 rfl
      subst hq
      -- the last term is another one
      by_cases hne : ts = []
      · subst hne
        simp [Term.value, isStop] at hsp
      · 
        have hlast : (Term.mk (.sym .start) none :: ts).getLast (List.cons_ne_nil _ _) = ts.getLast hne :=
          List.getLast_cons hne
        rw [hlast] at hsp
        have hsplit : ts = ts.dropLast ++ [ts.getLast hne] := (List.dropLast_concat_getLast hne).symm
        generalize hl : ts.getLast hne = l at hsp hsplit
        obtain ⟨lv, lq⟩ := l
        simp only [Term.value] at hsp
        have hlv := isStop_eq hsp
        subst hlv
        have hti := hterms.2
        rw [hsplit, inRangeTerms_append] at hti
        simp only [Bool.and_eq_true, inRangeTerms, Bool.and_true] at hti
        have hlq := anchor_term_no_quant hti.2 rfl
        subst hlq
        refine ⟨ts.dropLast, ?_, ?_⟩
        · unfold anchoredAround
          rw [← hsplit]
        · rw [hsplit] at h1' h2'
          simp only [cntTerms, cntTerms_append, cntValue] at h1' h2'
          simp at h1' h2'
          exact na_of_cnt_terms _ (by omega) (by omega)
    · cases h

end AasVerif.PatternShape
