import AasVerif.Model.Expr.Conforms
/-!
The value-level operations of the evaluator on operands of the types that the inferrer demands:
no `TypeError`.  (Inversion lemmas for `HasTy`, subsumption along `passable`, then one lemma per
operation: comparison, `+`/`-`, `len`, `in`, index, formatting, the quantifier loops.)
-/
namespace AasVerif.Expr

/-! ## Inversion -/

theorem HasTy.inv_bool {D : Decls} {v : Val} (h : HasTy D v (.prim .bool)) : ∃ b, v = .bool b := by
  cases h; exact ⟨_, rfl⟩

theorem HasTy.inv_int {D : Decls} {v : Val} (h : HasTy D v (.prim .int)) : ∃ i, v = .int i := by
  cases h; exact ⟨_, rfl⟩

theorem HasTy.inv_length {D : Decls} {v : Val} (h : HasTy D v (.prim .length)) : ∃ i, v = .int i := by
  cases h; exact ⟨_, rfl⟩

theorem HasTy.inv_float {D : Decls} {v : Val} (h : HasTy D v (.prim .float)) : ∃ r, v = .float r := by
  cases h; exact ⟨_, rfl⟩

theorem HasTy.inv_str {D : Decls} {v : Val} (h : HasTy D v (.prim .str)) : ∃ s, v = .str s := by
  cases h; exact ⟨_, rfl⟩

theorem HasTy.inv_bytes {D : Decls} {v : Val} (h : HasTy D v (.prim .bytearray)) : ∃ s, v = .bytes s := by
  cases h; exact ⟨_, rfl⟩

theorem HasTy.inv_list {D : Decls} {v : Val} {τ : Ty} (h : HasTy D v (.list τ)) :
    ∃ items, v = .list items ∧ ∀ x, x ∈ items → HasTy D x τ := by
  cases h with
  | list hall => exact ⟨_, rfl, hall⟩

theorem HasTy.inv_set {D : Decls} {v : Val} {τ : Ty} (h : HasTy D v (.set τ)) :
    ∃ items, v = .set items ∧ ∀ x, x ∈ items → HasTy D x τ := by
  cases h with
  | set hall => exact ⟨_, rfl, hall⟩

/-- a number is an `int` or a `float` value -/
theorem HasTy.inv_number {D : Decls} {v : Val} {p : Prim} (h : HasTy D v (.prim p)) (hp : p.isNumber = true) :
    (∃ i, v = .int i) ∨ (∃ r, v = .float r) := by
  cases h <;> simp [Prim.isNumber] at hp
  · exact Or.inl ⟨_, rfl⟩
  · exact Or.inl ⟨_, rfl⟩
  · exact Or.inr ⟨_, rfl⟩

/-- a value of a constrained primitive is a value of its constrainee -/
theorem HasTy.of_cprim {D : Decls} {v : Val} {n : Text} {p : Prim} {k : Bool} {ds : List Text}
    (h : HasTy D v (.our n)) (hn : D.findOur n = some (.cprim p k ds)) : HasTy D v (.prim p) := by
  cases h with
  | enumLit h1 _ => rw [hn] at h1; cases h1
  | inst h1 _ _ => rw [hn] at h1; cases h1
  | cprim h1 _ hv => rw [hn] at h1; cases h1; exact hv

/-- `try_primitive_type`: beneath a constrained primitive its primitive type counts -/
theorem HasTy.tryPrim {D : Decls} {v : Val} {τ : Ty} {p : Prim} (h : HasTy D v τ) (hp : D.tryPrim τ = some p) :
    HasTy D v (.prim p) := by
  cases τ with
  | prim q => simp only [Decls.tryPrim, Option.some.injEq] at hp; subst hp; exact h
  | our n =>
    simp only [Decls.tryPrim] at hp
    cases hn : D.findOur n with
    | none => simp [hn] at hp
    | some d =>
      cases d with
      | cprim q k ds => simp only [hn, Option.some.injEq] at hp; subst hp; exact h.of_cprim hn
      | cls cd => simp [hn] at hp
      | enum ls => simp [hn] at hp
  | _ => simp [Decls.tryPrim] at hp

theorem isBool_inv {D : Decls} {v : Val} {τ : Ty} (h : HasTy D v τ) (hb : D.isBool τ = true) : ∃ b, v = .bool b := by
  have : D.tryPrim τ = some .bool := by simpa [Decls.isBool] using hb
  exact (h.tryPrim this).inv_bool

/-- the static class of an instance can be weakened to an ancestor -/
theorem HasTy.to_ancestor {D : Decls} (wf : D.WF) {v : Val} {t c : Text} {cd : ClassDecl}
    (h : HasTy D v (.our c)) (ht : D.findOur t = some (.cls cd)) (hc : c ∈ cd.descendants) : HasTy D v (.our t) := by
  obtain ⟨cd', hcd', hprops⟩ := wf.sub t cd c ht hc
  cases h with
  | enumLit h1 _ => rw [hcd'] at h1; cases h1
  | cprim h1 _ _ => rw [hcd'] at h1; cases h1
  | inst h1 h2 h3 =>
    rw [hcd'] at h1; cases h1
    exact HasTy.inst ht (fun p τ hp => h2 p τ (hprops p τ hp)) (fun p τ w hp hw => h3 p τ w (hprops p τ hp) hw)

/-! ## Subsumption: an argument that can be passed has the declared type of the parameter -/

theorem HasTy.not_list_prim {D : Decls} {l : List Val} {p : Prim} (h : HasTy D (.list l) (.prim p)) : False := by
  cases h

theorem HasTy.not_list_our {D : Decls} {l : List Val} {n : Text} (h : HasTy D (.list l) (.our n)) : False := by
  cases h with
  | cprim _ _ hv => cases hv

theorem assignable_sound {D : Decls} (wf : D.WF) {σ τ : Ty} {v : Val} (ha : assignable D σ τ = true)
    (h : HasTy D v τ) : HasTy D v σ := by
  cases σ with
  | prim p =>
    cases τ with
    | prim q =>
      simp only [assignable, beq_iff_eq] at ha
      subst ha; exact h
    | our c =>
      simp only [assignable] at ha
      cases hc : D.findOur c with
      | none => simp [hc] at ha
      | some d =>
        cases d with
        | cprim q k ds =>
          simp only [hc, beq_iff_eq] at ha
          subst ha
          exact h.of_cprim hc
        | cls cd => simp [hc] at ha
        | enum ls => simp [hc] at ha
    | _ => simp [assignable] at ha
  | our t =>
    cases ht : D.findOur t with
    | none => cases τ <;> simp [assignable, ht] at ha
    | some d =>
      cases d with
      | enum ls =>
        have : τ = .our t := by cases τ <;> simp_all [assignable]
        subst this; exact h
      | cprim q k ds =>
        have hq : q ≠ .none := wf.cprim t q k ds ht
        cases τ with
        | prim r =>
          simp only [assignable, ht, Bool.and_eq_true, beq_iff_eq] at ha
          obtain ⟨_, rfl⟩ := ha
          exact HasTy.cprim ht hq h
        | our c =>
          simp only [assignable, ht] at ha
          cases hc : D.findOur c with
          | none => simp [hc] at ha
          | some d' =>
            cases d' with
            | cprim r k' ds' =>
              simp only [hc, Bool.and_eq_true, beq_iff_eq] at ha
              obtain ⟨rfl, _⟩ := ha
              exact HasTy.cprim ht hq (h.of_cprim hc)
            | cls cd => simp [hc] at ha
            | enum ls => simp [hc] at ha
        | _ => simp [assignable, ht] at ha
      | cls cd =>
        cases τ with
        | our c =>
          simp only [assignable, ht] at ha
          cases hc : D.findOur c with
          | none => simp [hc] at ha
          | some d' =>
            cases d' with
            | cls cd' =>
              simp only [hc, Bool.or_eq_true, beq_iff_eq, List.contains_iff_mem] at ha
              rcases ha with rfl | hmem
              · exact h
              · exact h.to_ancestor wf ht hmem
            | cprim r k' ds' => simp [hc] at ha
            | enum ls => simp [hc] at ha
        | _ => simp [assignable, ht] at ha
  | _ => simp [assignable] at ha

theorem passable_sound {D : Decls} (wf : D.WF) : ∀ {σ τ : Ty} {v : Val}, passable D σ τ = true →
    HasTy D v τ → HasTy D v σ := by
  intro σ
  induction σ with
  | opt p ih =>
    intro τ v hp h
    cases τ with
    | opt a =>
      simp only [passable] at hp
      cases h with
      | optNone _ => exact HasTy.optNone _
      | optSome h' => exact HasTy.optSome (ih hp h')
    | _ =>
      simp only [passable] at hp
      exact HasTy.optSome (ih hp h)
  | list p ih =>
    intro τ v hp h
    cases τ with
    | list a =>
      simp only [passable] at hp
      obtain ⟨items, rfl, hall⟩ := h.inv_list
      exact HasTy.list (fun x hx => ih hp (hall x hx))
    | _ => simp [passable] at hp
  | prim p =>
    intro τ v hp h
    cases τ with
    | opt a => simp [passable] at hp
    | enumType e => cases p <;> simp [passable] at hp
    | prim q =>
      by_cases hpq : p = .int ∧ q = .length
      · obtain ⟨rfl, rfl⟩ := hpq
        obtain ⟨i, rfl⟩ := h.inv_length
        exact HasTy.int i
      · have : assignable D (.prim p) (.prim q) = true := by
          cases p <;> cases q <;> simp_all [passable]
        exact assignable_sound wf this h
    | our c =>
      have : assignable D (.prim p) (.our c) = true := by
        cases p <;> simpa [passable] using hp
      exact assignable_sound wf this h
    | verif _ _ => cases p <;> simp [passable, assignable] at hp
    | builtin _ _ => cases p <;> simp [passable, assignable] at hp
    | method _ _ => cases p <;> simp [passable, assignable] at hp
    | list _ => cases p <;> simp [passable, assignable] at hp
    | set _ => cases p <;> simp [passable, assignable] at hp
  | our t =>
    intro τ v hp h
    have : assignable D (.our t) τ = true := by
      cases τ <;> first | (simp [passable] at hp; done) | simpa [passable] using hp
    exact assignable_sound wf this h
  | verif n r _ =>
    intro τ v hp h
    cases τ <;> simp [passable, assignable] at hp
  | builtin n r _ =>
    intro τ v hp h
    cases τ <;> simp [passable, assignable] at hp
  | method n r _ =>
    intro τ v hp h
    cases τ <;> simp [passable, assignable] at hp
  | set i _ =>
    intro τ v hp h
    cases τ <;> simp [passable, assignable] at hp
  | enumType e =>
    intro τ v hp h
    cases τ <;> simp [passable, assignable] at hp

theorem passErrs_sound {D : Decls} (wf : D.WF) : ∀ {ps ts : List Ty} {vs : List Val},
    passErrs D ps ts = [] → ts.length = ps.length → ArgsHave D vs ts → ArgsHave D vs ps
  | [], [], _, _, _, h => by cases h; exact ArgsHave.nil
  | [], _ :: _, _, _, hl, _ => by simp at hl
  | _ :: _, [], _, _, hl, _ => by simp at hl
  | p :: ps, t :: ts, vs, he, hl, h => by
    cases h with
    | cons hv hrest =>
      simp only [passErrs, List.append_eq_nil_iff] at he
      have hp : passable D p t = true := by
        by_cases hpt : passable D p t = true
        · exact hpt
        · simp [hpt] at he
      exact ArgsHave.cons (passable_sound wf hp hv) (passErrs_sound wf he.2 (by simpa using hl) hrest)

theorem checkArgs_sound {D : Decls} (wf : D.WF) {ps ts : List Ty} {vs : List Val}
    (he : checkArgs D ps ts = []) (h : ArgsHave D vs ts) : ArgsHave D vs ps := by
  unfold checkArgs at he
  split at he
  · cases he
  · rename_i hl
    exact passErrs_sound wf he (by simpa using hl) h

/-! ## The operations -/

theorem cmpVals_eq_bool (f : FloatOps) (a b : Val) : ∃ r, cmpVals f .eq a b = .val (.bool r) := by
  simp [cmpVals, Out.ofBool]

theorem cmpVals_ne_bool (f : FloatOps) (a b : Val) : ∃ r, cmpVals f .ne a b = .val (.bool r) := by
  simp [cmpVals, Out.ofBool]

/-- ordering two numbers -/
theorem ord_numbers {ρ : Env} (hok : EnvOK ρ) (op : Cmp) {a b : Val}
    (ha : (∃ i, a = .int i) ∨ (∃ r, a = .float r)) (hb : (∃ i, b = .int i) ∨ (∃ r, b = .float r)) :
    ∃ r, cmpVals.ord ρ.fops op a b = .val (.bool r) := by
  rcases ha with ⟨i, rfl⟩ | ⟨x, rfl⟩ <;> rcases hb with ⟨j, rfl⟩ | ⟨y, rfl⟩
  · simp [cmpVals.ord, Val.isNum, Val.asInt, Out.ofBool]
  · simpa [cmpVals.ord, Val.isNum, Val.asInt] using hok.cmp op (.int i) (.float y) rfl rfl
  · simpa [cmpVals.ord, Val.isNum, Val.asInt] using hok.cmp op (.float x) (.int j) rfl rfl
  · simpa [cmpVals.ord, Val.isNum, Val.asInt] using hok.cmp op (.float x) (.float y) rfl rfl

theorem cmpVals_typed {D : Decls} {ρ : Env} (hok : EnvOK ρ) {op : Cmp} {lt rt : Ty} {lv rv : Val}
    (hl : HasTy D lv lt) (hr : HasTy D rv rt)
    (hchk : (op.isOrdering && !orderable D lt rt) = false) : ∃ r, cmpVals ρ.fops op lv rv = .val (.bool r) := by
  cases op with
  | eq => exact cmpVals_eq_bool _ _ _
  | ne => exact cmpVals_ne_bool _ _ _
  | lt | le | gt | ge =>
    all_goals
      have ho : orderable D lt rt = true := by simpa [Cmp.isOrdering] using hchk
      unfold orderable at ho
      cases ha : D.tryPrim lt with
      | none => simp [ha] at ho
      | some a =>
        cases hb : D.tryPrim rt with
        | none => simp [ha, hb] at ho
        | some b =>
          simp only [ha, hb, Bool.or_eq_true, Bool.and_eq_true, beq_iff_eq] at ho
          have hl' := hl.tryPrim ha
          have hr' := hr.tryPrim hb
          simp only [cmpVals]
          rcases ho with (⟨h1, h2⟩ | ⟨rfl, rfl⟩) | ⟨rfl, rfl⟩
          · exact ord_numbers hok _ (hl'.inv_number h1) (hr'.inv_number h2)
          · obtain ⟨x, rfl⟩ := hl'.inv_str
            obtain ⟨y, rfl⟩ := hr'.inv_str
            simp [cmpVals.ord, Out.ofBool]
          · obtain ⟨x, rfl⟩ := hl'.inv_bytes
            obtain ⟨y, rfl⟩ := hr'.inv_bytes
            simp [cmpVals.ord, Out.ofBool]

/-- `+` / `-` on the operand types that `_transform_add_or_sub` lets through -/
theorem arithVals_typed {D : Decls} {ρ : Env} (hok : EnvOK ρ) (ad : Bool) {lt rt τ : Ty} {lv rv : Val}
    (hl : HasTy D lv lt) (hr : HasTy D rv rt) (h : arithTy lt rt = .ok τ) :
    ∃ v, arithVals ρ.fops ad lv rv = .val v ∧ HasTy D v τ := by
  unfold arithTy at h
  split at h
  all_goals first | (simp at h; done) | skip
  all_goals simp only [Res.ok.injEq] at h; subst h
  · obtain ⟨i, rfl⟩ := hl.inv_length; obtain ⟨j, rfl⟩ := hr.inv_int
    exact ⟨.int (if ad then i + j else i - j), by simp [arithVals, Val.isNum, Val.asInt], HasTy.length _⟩
  · obtain ⟨i, rfl⟩ := hl.inv_length; obtain ⟨j, rfl⟩ := hr.inv_length
    exact ⟨.int (if ad then i + j else i - j), by simp [arithVals, Val.isNum, Val.asInt], HasTy.length _⟩
  · obtain ⟨i, rfl⟩ := hl.inv_int; obtain ⟨j, rfl⟩ := hr.inv_length
    exact ⟨.int (if ad then i + j else i - j), by simp [arithVals, Val.isNum, Val.asInt], HasTy.length _⟩
  · obtain ⟨i, rfl⟩ := hl.inv_int; obtain ⟨j, rfl⟩ := hr.inv_int
    exact ⟨.int (if ad then i + j else i - j), by simp [arithVals, Val.isNum, Val.asInt], HasTy.int _⟩
  · obtain ⟨x, rfl⟩ := hl.inv_float; obtain ⟨y, rfl⟩ := hr.inv_float
    obtain ⟨r, hr⟩ := hok.arith ad x y
    exact ⟨.float r, by simpa [arithVals, Val.isNum, Val.asInt] using hr, HasTy.float _⟩

theorem lenVal_typed {D : Decls} {τ : Ty} {v : Val} (h : HasTy D v τ) (hl : lenable D τ = true) :
    ∃ i, lenVal v = .val (.int i) := by
  unfold lenable at hl
  split at hl
  · obtain ⟨items, rfl, _⟩ := h.inv_list
    exact ⟨_, rfl⟩
  · simp only [Bool.or_eq_true, beq_iff_eq] at hl
    rcases hl with hs | hb
    · obtain ⟨s, rfl⟩ := (h.tryPrim hs).inv_str
      exact ⟨_, rfl⟩
    · obtain ⟨s, rfl⟩ := (h.tryPrim hb).inv_bytes
      exact ⟨_, rfl⟩

theorem isInVals_typed {D : Decls} (f : FloatOps) {mt ct τ : Ty} {m c : Val} (hm : HasTy D m mt) (hc : HasTy D c ct)
    (h : isInCheck D mt ct = .ok τ) : ∃ r, isInVals f m c = .val (.bool r) := by
  unfold isInCheck at h
  split at h
  · obtain ⟨items, rfl, _⟩ := hc.inv_list
    simp [isInVals, Out.ofBool]
  · obtain ⟨items, rfl, _⟩ := hc.inv_set
    split at h
    · -- a primitive: not a list
      cases m with
      | list l => exact absurd hm.not_list_prim id
      | _ => simp [isInVals, Out.ofBool]
    · cases m with
      | list l => exact absurd hm.not_list_our id
      | _ => simp [isInVals, Out.ofBool]
    · cases h
  · split at h
    · rename_i hs
      split at h
      · rename_i hms
        obtain ⟨s, rfl⟩ := (hc.tryPrim hs).inv_str
        obtain ⟨a, rfl⟩ := (hm.tryPrim hms).inv_str
        simp [isInVals, Out.ofBool]
      · cases h
    · rename_i hs
      split at h
      · rename_i hms
        obtain ⟨s, rfl⟩ := (hc.tryPrim hs).inv_bytes
        obtain ⟨a, rfl⟩ := (hm.tryPrim hms).inv_bytes
        simp [isInVals, Out.ofBool]
      · cases h
    · cases h

theorem indexVals_typed {D : Decls} {τ it : Ty} {c i : Val} (hc : HasTy D c (.list τ)) (hi : HasTy D i it)
    (hint : it.isIntLike = true) : indexVals c i = .indexError ∨ ∃ x, indexVals c i = .val x ∧ HasTy D x τ := by
  obtain ⟨items, rfl, hall⟩ := hc.inv_list
  have hiv : ∃ k, i = .int k := by
    cases it with
    | prim p =>
      cases p <;> simp [Ty.isIntLike] at hint
      · exact hi.inv_int
      · exact hi.inv_length
    | _ => simp [Ty.isIntLike] at hint
  obtain ⟨k, rfl⟩ := hiv
  simp only [indexVals, Val.asInt]
  repeat' split
  all_goals first
    | exact Or.inl rfl
    | exact Or.inr ⟨_, rfl, hall _ (List.mem_of_getElem? (by assumption))⟩

theorem fmtVal_typed {ρ : Env} (hok : EnvOK ρ) (v : Val) : ∃ s, fmtVal ρ v = .val (.str s) := by
  unfold fmtVal
  split
  all_goals first | exact ⟨_, rfl⟩ | exact hok.fmt _

/-- a loop outcome: a `bool` or `IndexError` -/
def BoolOrIndex (o : Out) : Prop := o = .indexError ∨ ∃ b, o = .val (.bool b)

theorem quantLoop_typed (fo : FloatOps) (isAny : Bool) (f : Val → Out) :
    ∀ items : List Val, (∀ x, x ∈ items → f x = .indexError ∨ ∃ v, f x = .val v) →
      BoolOrIndex (quantLoop fo isAny f items)
  | [], _ => Or.inr ⟨_, rfl⟩
  | x :: xs, h => by
    have ih := quantLoop_typed fo isAny f xs (fun y hy => h y (by simp [hy]))
    unfold quantLoop
    rcases h x (by simp) with hx | ⟨v, hx⟩
    · rw [hx]; exact Or.inl rfl
    · rw [hx]
      simp only
      split
      · exact Or.inr ⟨_, rfl⟩
      · exact ih

theorem rangeLoop_typed (fo : FloatOps) (isAny : Bool) (f : Val → Out)
    (hf : ∀ i : Int, f (.int i) = .indexError ∨ ∃ v, f (.int i) = .val v) :
    ∀ (n : Nat) (s : Int), BoolOrIndex (rangeLoop fo isAny f s n)
  | 0, _ => Or.inr ⟨_, rfl⟩
  | n + 1, s => by
    have ih := rangeLoop_typed fo isAny f hf n (s + 1)
    unfold rangeLoop
    rcases hf s with hx | ⟨v, hx⟩
    · rw [hx]; exact Or.inl rfl
    · rw [hx]
      simp only
      split
      · exact Or.inr ⟨_, rfl⟩
      · exact ih

end AasVerif.Expr
