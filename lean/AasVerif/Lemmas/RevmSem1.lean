import AasVerif.Model.RevmSpec
import AasVerif.Lemmas.RetreeSemRevm
/-!
VM-level part of the correctness proof of the regex → VM compiler (`Model/RevmCompile.lean`):

* `accN_mono`, `accepts_iff_accN` — the fuel-indexed interpreter is the thread semantics;
* `CodeAt` — "the program contains this code at this address", and the length of compiled code;
* `Snd p a e L` (soundness: every run from `a` passes through `e` after consuming some `u ∈ L`)
  and `Cmp p a e L` (completeness: every `u ∈ L` can be consumed from `a` to `e`) with their
  composition rules; both are instances of `FragLogic`, from which the rules for `repAt`,
  `optAt`, `quantAt` are derived once.

Languages are relations `L u y` between the consumed part `u` and the rest `y` of the input.
-/
namespace AasVerif.Revm
open AasVerif.Retree

/-! ## `NoLineBreak` -/

theorem NoLineBreak.nil : NoLineBreak [] := by
  intro c hc
  simp at hc

theorem NoLineBreak.of_append_right {u y : Text} (h : NoLineBreak (u ++ y)) : NoLineBreak y :=
  fun c hc => h c (by simp [hc])

theorem NoLineBreak.of_append_left {u y : Text} (h : NoLineBreak (u ++ y)) : NoLineBreak u :=
  fun c hc => h c (by simp [hc])

theorem NoLineBreak.of_cons {d : Nat} {y : Text} (h : NoLineBreak (d :: y)) : NoLineBreak y :=
  fun c hc => h c (by simp [hc])

theorem NoLineBreak.head {d : Nat} {y : Text} (h : NoLineBreak (d :: y)) : d ≠ 10 :=
  h d (by simp)

/-! ## The fuel-indexed interpreter -/

theorem accN_zero (p : Program) (pc : Nat) (x : Text) : accN p 0 pc x = false := by
  simp [accN]

theorem accN_mono (p : Program) :
    ∀ n m pc x, accN p n pc x = true → n ≤ m → accN p m pc x = true := by
  intro n
  induction n with
  | zero =>
    intro m pc x h
    simp [accN] at h
  | succ n ih =>
    intro m pc x h hle
    obtain ⟨m, rfl⟩ : ∃ k, m = k + 1 := ⟨m - 1, by omega⟩
    have ih' : ∀ pc x, accN p n pc x = true → accN p m pc x = true :=
      fun pc x h => ih m pc x h (by omega)
    cases hp : p[pc]? with
    | none => simp [accN, hp] at h
    | some i =>
      cases i <;> cases x <;> simp only [accN, hp] at h ⊢ <;>
        try simp only [Bool.and_eq_true, Bool.or_eq_true, Bool.false_eq_true] at h ⊢
      all_goals first
        | exact h
        | exact ⟨h.1, ih' _ _ h.2⟩
        | exact ih' _ _ h
        | exact h.imp (ih' _ _) (ih' _ _)

theorem steps_trans {p : Program} {a b c : Nat × Text} (h₁ : Steps p a b) (h₂ : Steps p b c) :
    Steps p a c := by
  induction h₁ with
  | refl => exact h₂
  | head a b _ hab _ ih => exact .head a b c hab (ih h₂)

theorem accN_of_steps {p : Program} {a c : Nat × Text} (h : Steps p a c)
    (hm : p[c.1]? = some .matched) : ∃ n, accN p n a.1 a.2 = true := by
  induction h with
  | refl a => exact ⟨1, by simp [accN, hm]⟩
  | head a b c hab _ ih =>
    obtain ⟨n, hn⟩ := ih hm
    refine ⟨n + 1, ?_⟩
    cases hab with
    | char pc c s hp => simpa [accN, hp] using hn
    | set pc c rs s hp hin => simpa [accN, hp, hin] using hn
    | notSet pc c rs s hp hin => simpa [accN, hp, hin] using hn
    | any pc c s hp => simpa [accN, hp] using hn
    | jump pc t s hp => simpa [accN, hp] using hn
    | split1 pc a b s hp => simp [accN, hp]; exact .inl hn
    | split2 pc a b s hp => simp [accN, hp]; exact .inr hn
    | atEnd pc hp => simpa [accN, hp] using hn

theorem steps_of_accN (p : Program) :
    ∀ n pc x, accN p n pc x = true →
      ∃ pc' rest, Steps p (pc, x) (pc', rest) ∧ p[pc']? = some .matched := by
  intro n
  induction n with
  | zero =>
    intro pc x h
    simp [accN] at h
  | succ n ih =>
    intro pc x h
    cases hp : p[pc]? with
    | none => simp [accN, hp] at h
    | some i =>
      cases i with
      | char c =>
        cases x with
        | nil => simp [accN, hp] at h
        | cons d y =>
          simp [accN, hp] at h
          obtain ⟨rfl, h⟩ := h
          obtain ⟨pc', rest, hs, hm⟩ := ih _ _ h
          exact ⟨pc', rest, .head _ _ _ (.char pc d y hp) hs, hm⟩
      | set rs =>
        cases x with
        | nil => simp [accN, hp] at h
        | cons d y =>
          simp [accN, hp] at h
          obtain ⟨hin, h⟩ := h
          obtain ⟨pc', rest, hs, hm⟩ := ih _ _ h
          exact ⟨pc', rest, .head _ _ _ (.set pc d rs y hp hin) hs, hm⟩
      | notSet rs =>
        cases x with
        | nil => simp [accN, hp] at h
        | cons d y =>
          simp [accN, hp] at h
          obtain ⟨hin, h⟩ := h
          obtain ⟨pc', rest, hs, hm⟩ := ih _ _ h
          exact ⟨pc', rest, .head _ _ _ (.notSet pc d rs y hp hin) hs, hm⟩
      | any =>
        cases x with
        | nil => simp [accN, hp] at h
        | cons d y =>
          simp [accN, hp] at h
          obtain ⟨pc', rest, hs, hm⟩ := ih _ _ h
          exact ⟨pc', rest, .head _ _ _ (.any pc d y hp) hs, hm⟩
      | matched => exact ⟨pc, x, .refl _, hp⟩
      | jump t =>
        simp [accN, hp] at h
        obtain ⟨pc', rest, hs, hm⟩ := ih _ _ h
        exact ⟨pc', rest, .head _ _ _ (.jump pc t x hp) hs, hm⟩
      | split a b =>
        simp [accN, hp] at h
        rcases h with h | h
        · obtain ⟨pc', rest, hs, hm⟩ := ih _ _ h
          exact ⟨pc', rest, .head _ _ _ (.split1 pc a b x hp) hs, hm⟩
        · obtain ⟨pc', rest, hs, hm⟩ := ih _ _ h
          exact ⟨pc', rest, .head _ _ _ (.split2 pc a b x hp) hs, hm⟩
      | atEnd =>
        cases x with
        | nil =>
          simp [accN, hp] at h
          obtain ⟨pc', rest, hs, hm⟩ := ih _ _ h
          exact ⟨pc', rest, .head _ _ _ (.atEnd pc hp) hs, hm⟩
        | cons d y => simp [accN, hp] at h
      | noop => simp [accN, hp] at h

/-- The thread semantics and the fuel-indexed reference interpreter accept the same texts. -/
theorem accepts_iff_accN (p : Program) (s : Text) : accepts p s ↔ ∃ n, accN p n 0 s = true := by
  constructor
  · rintro ⟨pc, rest, hs, hm⟩
    exact accN_of_steps hs hm
  · rintro ⟨n, h⟩
    exact steps_of_accN p n 0 s h

/-! ## Code at an address -/

/-- The program `p` contains the code `c` at address `base`. -/
def CodeAt (p : Program) (base : Nat) (c : Program) : Prop :=
  ∀ i (h : i < c.length), p[base + i]? = some c[i]

theorem codeAt_nil (p : Program) (base : Nat) : CodeAt p base [] := by
  intro i h
  simp at h

theorem codeAt_cons {p : Program} {base : Nat} {a : Instr} {c : Program} :
    CodeAt p base (a :: c) ↔ p[base]? = some a ∧ CodeAt p (base + 1) c := by
  constructor
  · intro h
    have h0 := h 0 (by simp)
    rw [List.getElem_cons_zero] at h0
    refine ⟨by simpa using h0, fun i hi => ?_⟩
    have := h (i + 1) (by simpa using hi)
    simpa [Nat.add_assoc, Nat.add_comm 1 i] using this
  · rintro ⟨h0, h1⟩ i hi
    cases i with
    | zero => simpa using h0
    | succ i =>
      have := h1 i (by simpa using hi)
      simpa [Nat.add_assoc, Nat.add_comm 1 i] using this

theorem codeAt_append {p : Program} {a b : Program} :
    ∀ {base : Nat}, CodeAt p base (a ++ b) ↔ CodeAt p base a ∧ CodeAt p (base + a.length) b := by
  induction a with
  | nil => intro base; simp [codeAt_nil]
  | cons x a ih =>
    intro base
    simp only [List.cons_append, codeAt_cons, ih, List.length_cons, and_assoc]
    have : base + 1 + a.length = base + (a.length + 1) := by omega
    rw [this]

theorem codeAt_self_append (c t : Program) : CodeAt (c ++ t) 0 c := by
  intro i h
  simp [List.getElem?_append_left h]

/-! ## Length of the compiled code -/

theorem repAt_length (f : Nat → Program) (sz : Nat) (hf : ∀ b, (f b).length = sz) :
    ∀ k base, (repAt f sz k base).length = k * sz := by
  intro k
  induction k with
  | zero => intro base; simp [repAt]
  | succ k ih =>
    intro base
    simp [repAt, hf, ih, Nat.succ_mul]
    omega

theorem optAt_length (f : Nat → Program) (sz final : Nat) (hf : ∀ b, (f b).length = sz) :
    ∀ k base, (optAt f sz final k base).length = k * (sz + 1) := by
  intro k
  induction k with
  | zero => intro base; simp [optAt]
  | succ k ih =>
    intro base
    simp [optAt, hf, ih, Nat.succ_mul]
    omega

theorem quantAt_length (f : Nat → Program) (sz : Nat) (hf : ∀ b, (f b).length = sz)
    (q : Quant) (base : Nat) : (quantAt f sz q base).length = quantSize sz q := by
  obtain ⟨ng, mn, mx⟩ := q
  unfold quantAt quantSize
  simp only
  split
  · exact hf _
  · cases mx with
    | some m => simp [repAt_length f sz hf, optAt_length f sz _ hf]
    | none =>
      simp only
      split
      · simp [hf]
      · obtain ⟨k, rfl⟩ : ∃ k, mn = k + 1 := ⟨mn - 1, by omega⟩
        simp [repAt_length f sz hf, hf, Nat.succ_mul]
        omega

mutual
  theorem compV_length : ∀ (v : Value) (base : Nat), (compV v base).length = sizeV v
    | .group u, base => by simpa [compV, sizeV] using compU_length u base
    | .char _, _ => by simp [compV, sizeV]
    | .set _ _, _ => by simp [compV, sizeV]
    | .fv _, _ => by simp [compV, sizeV]
    | .sym .start, _ => by simp [compV, sizeV]
    | .sym .stop, _ => by simp [compV, sizeV]
    | .sym .dot, _ => by simp [compV, sizeV]
  theorem compT_length : ∀ (t : Term) (base : Nat), (compT t base).length = sizeT t
    | .mk v none, base => by simpa [compT, sizeT] using compV_length v base
    | .mk v (some q), base => by
      simpa [compT, sizeT] using quantAt_length (compV v) (sizeV v) (compV_length v) q base
  theorem compTs_length : ∀ (ts : List Term) (base : Nat), (compTs ts base).length = sizeTs ts
    | [], _ => by simp [compTs, sizeTs]
    | t :: ts, base => by
      simp [compTs, sizeTs, compT_length t base, compTs_length ts (base + sizeT t)]
  theorem compC_length : ∀ (c : Concat) (base : Nat), (compC c base).length = sizeC c
    | .mk ts, base => by simpa [compC, sizeC] using compTs_length ts base
  theorem compCs_length (final : Nat) :
      ∀ (cs : List Concat) (base : Nat), (compCs final cs base).length = sizeCs cs
    | [], _ => by simp [compCs, sizeCs]
    | [c], base => by simpa [compCs, sizeCs] using compC_length c base
    | c :: c' :: cs, base => by
      simp [compCs, sizeCs, compC_length c (base + 1),
        compCs_length final (c' :: cs) (base + sizeC c + 2)]
      omega
  theorem compU_length : ∀ (u : Union) (base : Nat), (compU u base).length = sizeU u
    | .mk us, base => by simpa [compU, sizeU] using compCs_length _ us base
end

/-! ## Soundness and completeness of code fragments -/

/-- Every accepting run that starts at `a` leaves the fragment at `e` after consuming some `u`
with `L u y` (`y` = the rest of the input at `e`); `K` is the continuation. -/
def Snd (p : Program) (a e : Nat) (L : Text → Text → Prop) : Prop :=
  ∀ n (K : Text → Prop),
    (∀ m, m ≤ n → ∀ y, NoLineBreak y → accN p m e y = true → K y) →
    ∀ x, NoLineBreak x → accN p n a x = true → ∃ u y, x = u ++ y ∧ L u y ∧ K y

/-- Every `u` with `L u y` can be consumed on the way from `a` to `e`. -/
def Cmp (p : Program) (a e : Nat) (L : Text → Text → Prop) : Prop :=
  ∀ u y, L u y → NoLineBreak (u ++ y) →
    ∀ n, accN p n e y = true → ∃ n', accN p n' a (u ++ y) = true

/-- The composition rules shared by `Snd p` and `Cmp p`. -/
structure FragLogic (p : Program) (F : Nat → Nat → (Text → Text → Prop) → Prop) : Prop where
  congr : ∀ {a e : Nat} {L L' : Text → Text → Prop}, (∀ u y, L u y ↔ L' u y) → F a e L → F a e L'
  refl : ∀ (a : Nat), F a a (fun u _ => u = [])
  seq : ∀ {a b c : Nat} {L₁ L₂ : Text → Text → Prop}, F a b L₁ → F b c L₂ →
    F a c (fun u y => ∃ u₁ u₂, u = u₁ ++ u₂ ∧ L₁ u₁ (u₂ ++ y) ∧ L₂ u₂ y)
  split : ∀ {a a₁ a₂ e : Nat} {L₁ L₂ : Text → Text → Prop}, p[a]? = some (.split a₁ a₂) →
    F a₁ e L₁ → F a₂ e L₂ → F a e (fun u y => L₁ u y ∨ L₂ u y)
  jump : ∀ {a t e : Nat} {L : Text → Text → Prop}, p[a]? = some (.jump t) → F t e L → F a e L
  star : ∀ {l b e f : Nat} {P : Text → Text → Prop}, p[l]? = some (.split b f) → F b e P →
    p[e]? = some (.jump l) → F l f (Rep2 P 0 none)
  plus : ∀ {b e f : Nat} {P : Text → Text → Prop}, F b e P → p[e]? = some (.split b f) →
    F b f (Rep2 P 1 none)

/-! ### Rules for `Snd` -/

theorem snd_mono {p : Program} {a e : Nat} {L L' : Text → Text → Prop}
    (h : Snd p a e L) (hL : ∀ u y, L u y → L' u y) : Snd p a e L' := by
  intro n K hK x hx hacc
  obtain ⟨u, y, rfl, hu, hy⟩ := h n K hK x hx hacc
  exact ⟨u, y, rfl, hL u y hu, hy⟩

theorem snd_refl (p : Program) (a : Nat) : Snd p a a (fun u _ => u = []) := by
  intro n K hK x hx hacc
  exact ⟨[], x, rfl, rfl, hK n (Nat.le_refl n) x hx hacc⟩

theorem snd_seq {p : Program} {a b c : Nat} {L₁ L₂ : Text → Text → Prop}
    (h₁ : Snd p a b L₁) (h₂ : Snd p b c L₂) :
    Snd p a c (fun u y => ∃ u₁ u₂, u = u₁ ++ u₂ ∧ L₁ u₁ (u₂ ++ y) ∧ L₂ u₂ y) := by
  intro n K hK x hx hacc
  obtain ⟨u₁, y₁, rfl, hL₁, u₂, y, rfl, hL₂, hKy⟩ :=
    h₁ n (fun y₁ => ∃ u₂ y, y₁ = u₂ ++ y ∧ L₂ u₂ y ∧ K y)
      (fun m hm y₁ hy₁ hacc₁ => h₂ m K (fun m' hm' => hK m' (by omega)) y₁ hy₁ hacc₁) x hx hacc
  exact ⟨u₁ ++ u₂, y, by simp, ⟨u₁, u₂, rfl, hL₁, hL₂⟩, hKy⟩

theorem snd_split {p : Program} {a a₁ a₂ e : Nat} {L₁ L₂ : Text → Text → Prop}
    (hp : p[a]? = some (.split a₁ a₂)) (h₁ : Snd p a₁ e L₁) (h₂ : Snd p a₂ e L₂) :
    Snd p a e (fun u y => L₁ u y ∨ L₂ u y) := by
  intro n K hK x hx hacc
  cases n with
  | zero => simp [accN] at hacc
  | succ n =>
    simp only [accN, hp, Bool.or_eq_true] at hacc
    rcases hacc with hacc | hacc
    · obtain ⟨u, y, rfl, hu, hy⟩ := h₁ n K (fun m hm => hK m (by omega)) x hx hacc
      exact ⟨u, y, rfl, .inl hu, hy⟩
    · obtain ⟨u, y, rfl, hu, hy⟩ := h₂ n K (fun m hm => hK m (by omega)) x hx hacc
      exact ⟨u, y, rfl, .inr hu, hy⟩

theorem snd_jump {p : Program} {a t e : Nat} {L : Text → Text → Prop}
    (hp : p[a]? = some (.jump t)) (h : Snd p t e L) : Snd p a e L := by
  intro n K hK x hx hacc
  cases n with
  | zero => simp [accN] at hacc
  | succ n =>
    simp only [accN, hp] at hacc
    exact h n K (fun m hm => hK m (by omega)) x hx hacc

theorem snd_star {p : Program} {l b e f : Nat} {P : Text → Text → Prop}
    (hp : p[l]? = some (.split b f)) (hb : Snd p b e P) (hj : p[e]? = some (.jump l)) :
    Snd p l f (Rep2 P 0 none) := by
  intro n
  induction n using Nat.strongRecOn with
  | _ n ih =>
    intro K hK x hx hacc
    cases n with
    | zero => simp [accN] at hacc
    | succ n =>
      simp only [accN, hp, Bool.or_eq_true] at hacc
      rcases hacc with hacc | hacc
      · obtain ⟨u, y₁, rfl, hu, u₂, z, rfl, hu₂, hz⟩ :=
          hb n (fun y₁ => ∃ u₂ z, y₁ = u₂ ++ z ∧ Rep2 P 0 none u₂ z ∧ K z)
            (fun m hm y₁ hy₁ hacc₁ => by
              cases m with
              | zero => simp [accN] at hacc₁
              | succ m =>
                simp only [accN, hj] at hacc₁
                exact ih m (by omega) K (fun m' hm' => hK m' (by omega)) y₁ hy₁ hacc₁)
            x hx hacc
        exact ⟨u ++ u₂, z, by simp, .more 0 none u u₂ z (by simp) hu hu₂, hz⟩
      · exact ⟨[], x, rfl, .done _ _, hK n (by omega) x hx hacc⟩

theorem snd_plus {p : Program} {b e f : Nat} {P : Text → Text → Prop}
    (hb : Snd p b e P) (hs : p[e]? = some (.split b f)) : Snd p b f (Rep2 P 1 none) := by
  intro n
  induction n using Nat.strongRecOn with
  | _ n ih =>
    intro K hK x hx hacc
    obtain ⟨u, y₁, rfl, hu, u₂, z, rfl, hu₂, hz⟩ :=
      hb n (fun y₁ => ∃ u₂ z, y₁ = u₂ ++ z ∧ Rep2 P 0 none u₂ z ∧ K z)
        (fun m hm y₁ hy₁ hacc₁ => by
          cases m with
          | zero => simp [accN] at hacc₁
          | succ m =>
            simp only [accN, hs, Bool.or_eq_true] at hacc₁
            rcases hacc₁ with hacc₁ | hacc₁
            · obtain ⟨u₂, z, rfl, hu₂, hz⟩ :=
                ih m (by omega) K (fun m' hm' => hK m' (by omega)) y₁ hy₁ hacc₁
              exact ⟨u₂, z, rfl, hu₂.min_le 0 (by omega), hz⟩
            · exact ⟨[], y₁, rfl, .done _ _, hK m (by omega) y₁ hy₁ hacc₁⟩)
        x hx hacc
    exact ⟨u ++ u₂, z, by simp, .more 1 none u u₂ z (by simp) hu hu₂, hz⟩

theorem snd_fragLogic (p : Program) : FragLogic p (Snd p) where
  congr h hs := snd_mono hs (fun u y => (h u y).mp)
  refl := snd_refl p
  seq := snd_seq
  split := snd_split
  jump := snd_jump
  star := snd_star
  plus := snd_plus

theorem snd_char {p : Program} {a c : Nat} (hp : p[a]? = some (.char c)) :
    Snd p a (a + 1) (fun u _ => u = [c]) := by
  intro n K hK x hx hacc
  cases n with
  | zero => simp [accN] at hacc
  | succ n =>
    cases x with
    | nil => simp [accN, hp] at hacc
    | cons d y =>
      simp only [accN, hp, Bool.and_eq_true, beq_iff_eq] at hacc
      obtain ⟨rfl, hacc⟩ := hacc
      exact ⟨[d], y, rfl, rfl, hK n (by omega) y hx.of_cons hacc⟩

theorem snd_set {p : Program} {a : Nat} {rs : List Range} (hp : p[a]? = some (.set rs)) :
    Snd p a (a + 1) (fun u _ => ∃ c, u = [c] ∧ inRanges rs c = true) := by
  intro n K hK x hx hacc
  cases n with
  | zero => simp [accN] at hacc
  | succ n =>
    cases x with
    | nil => simp [accN, hp] at hacc
    | cons d y =>
      simp only [accN, hp, Bool.and_eq_true] at hacc
      exact ⟨[d], y, rfl, ⟨d, rfl, hacc.1⟩, hK n (by omega) y hx.of_cons hacc.2⟩

theorem snd_notSet {p : Program} {a : Nat} {rs : List Range} (hp : p[a]? = some (.notSet rs)) :
    Snd p a (a + 1) (fun u _ => ∃ c, u = [c] ∧ inRanges rs c = false) := by
  intro n K hK x hx hacc
  cases n with
  | zero => simp [accN] at hacc
  | succ n =>
    cases x with
    | nil => simp [accN, hp] at hacc
    | cons d y =>
      simp only [accN, hp, Bool.and_eq_true, Bool.not_eq_true'] at hacc
      exact ⟨[d], y, rfl, ⟨d, rfl, hacc.1⟩, hK n (by omega) y hx.of_cons hacc.2⟩

theorem snd_any {p : Program} {a : Nat} (hp : p[a]? = some .any) :
    Snd p a (a + 1) (fun u _ => ∃ c, u = [c] ∧ c ≠ 10) := by
  intro n K hK x hx hacc
  cases n with
  | zero => simp [accN] at hacc
  | succ n =>
    cases x with
    | nil => simp [accN, hp] at hacc
    | cons d y =>
      simp only [accN, hp] at hacc
      exact ⟨[d], y, rfl, ⟨d, rfl, hx.head⟩, hK n (by omega) y hx.of_cons hacc⟩

theorem snd_atEnd {p : Program} {a : Nat} (hp : p[a]? = some .atEnd) :
    Snd p a (a + 1) (fun u y => u = [] ∧ y = []) := by
  intro n K hK x hx hacc
  cases n with
  | zero => simp [accN] at hacc
  | succ n =>
    cases x with
    | nil =>
      simp only [accN, hp] at hacc
      exact ⟨[], [], rfl, ⟨rfl, rfl⟩, hK n (by omega) [] hx hacc⟩
    | cons d y => simp [accN, hp] at hacc

/-! ### Rules for `Cmp` -/

theorem cmp_mono {p : Program} {a e : Nat} {L L' : Text → Text → Prop}
    (h : Cmp p a e L) (hL : ∀ u y, NoLineBreak (u ++ y) → L' u y → L u y) : Cmp p a e L' :=
  fun u y hu hnl => h u y (hL u y hnl hu) hnl

theorem cmp_refl (p : Program) (a : Nat) : Cmp p a a (fun u _ => u = []) := by
  rintro u y rfl _ n hacc
  exact ⟨n, by simpa using hacc⟩

theorem cmp_seq {p : Program} {a b c : Nat} {L₁ L₂ : Text → Text → Prop}
    (h₁ : Cmp p a b L₁) (h₂ : Cmp p b c L₂) :
    Cmp p a c (fun u y => ∃ u₁ u₂, u = u₁ ++ u₂ ∧ L₁ u₁ (u₂ ++ y) ∧ L₂ u₂ y) := by
  rintro u y ⟨u₁, u₂, rfl, hL₁, hL₂⟩ hnl n hacc
  rw [List.append_assoc] at hnl ⊢
  obtain ⟨n₁, hn₁⟩ := h₂ u₂ y hL₂ hnl.of_append_right n hacc
  exact h₁ u₁ (u₂ ++ y) hL₁ hnl n₁ hn₁

theorem cmp_split {p : Program} {a a₁ a₂ e : Nat} {L₁ L₂ : Text → Text → Prop}
    (hp : p[a]? = some (.split a₁ a₂)) (h₁ : Cmp p a₁ e L₁) (h₂ : Cmp p a₂ e L₂) :
    Cmp p a e (fun u y => L₁ u y ∨ L₂ u y) := by
  rintro u y (hu | hu) hnl n hacc
  · obtain ⟨n', hn'⟩ := h₁ u y hu hnl n hacc
    exact ⟨n' + 1, by simp [accN, hp, hn']⟩
  · obtain ⟨n', hn'⟩ := h₂ u y hu hnl n hacc
    exact ⟨n' + 1, by simp [accN, hp, hn']⟩

theorem cmp_jump {p : Program} {a t e : Nat} {L : Text → Text → Prop}
    (hp : p[a]? = some (.jump t)) (h : Cmp p t e L) : Cmp p a e L := by
  intro u y hu hnl n hacc
  obtain ⟨n', hn'⟩ := h u y hu hnl n hacc
  exact ⟨n' + 1, by simp [accN, hp, hn']⟩

theorem cmp_star {p : Program} {l b e f : Nat} {P : Text → Text → Prop}
    (hp : p[l]? = some (.split b f)) (hb : Cmp p b e P) (hj : p[e]? = some (.jump l)) :
    Cmp p l f (Rep2 P 0 none) := by
  have aux : ∀ mn mx u y, Rep2 P mn mx u y → mx = none → NoLineBreak (u ++ y) →
      ∀ n, accN p n f y = true → ∃ n', accN p n' l (u ++ y) = true := by
    intro mn mx u y h
    induction h with
    | done mx post =>
      intro _ _ n hacc
      exact ⟨n + 1, by simp [accN, hp, hacc]⟩
    | more mn mx s₁ s₂ post hmx hv _ ih =>
      intro hnone hnl n hacc
      subst hnone
      rw [List.append_assoc] at hnl ⊢
      obtain ⟨n₁, hn₁⟩ := ih rfl hnl.of_append_right n hacc
      have hn₁' : accN p (n₁ + 1) e (s₂ ++ post) = true := by simp [accN, hj, hn₁]
      obtain ⟨n₂, hn₂⟩ := hb s₁ (s₂ ++ post) hv hnl (n₁ + 1) hn₁'
      exact ⟨n₂ + 1, by simp [accN, hp, hn₂]⟩
  intro u y hu
  exact aux 0 none u y hu rfl

theorem cmp_plus {p : Program} {b e f : Nat} {P : Text → Text → Prop}
    (hb : Cmp p b e P) (hs : p[e]? = some (.split b f)) : Cmp p b f (Rep2 P 1 none) := by
  have aux : ∀ mn mx u y, Rep2 P mn mx u y → mx = none → NoLineBreak (u ++ y) →
      ∀ n, accN p n f y = true → ∃ n', accN p n' e (u ++ y) = true := by
    intro mn mx u y h
    induction h with
    | done mx post =>
      intro _ _ n hacc
      exact ⟨n + 1, by simp [accN, hs, hacc]⟩
    | more mn mx s₁ s₂ post hmx hv _ ih =>
      intro hnone hnl n hacc
      subst hnone
      rw [List.append_assoc] at hnl ⊢
      obtain ⟨n₁, hn₁⟩ := ih rfl hnl.of_append_right n hacc
      obtain ⟨n₂, hn₂⟩ := hb s₁ (s₂ ++ post) hv hnl n₁ hn₁
      exact ⟨n₂ + 1, by simp [accN, hs, hn₂]⟩
  intro u y hu hnl n hacc
  obtain ⟨s₁, s₂, rfl, hv, hr⟩ := (@Rep2.succ_iff P 0 none u y).mp hu
  rw [List.append_assoc] at hnl ⊢
  obtain ⟨n₁, hn₁⟩ := aux 0 none s₂ y hr rfl hnl.of_append_right n hacc
  exact hb s₁ (s₂ ++ y) hv hnl n₁ hn₁

theorem cmp_fragLogic (p : Program) : FragLogic p (Cmp p) where
  congr h hs := cmp_mono hs (fun u y _ => (h u y).mpr)
  refl := cmp_refl p
  seq := cmp_seq
  split := cmp_split
  jump := cmp_jump
  star := cmp_star
  plus := cmp_plus

theorem cmp_char {p : Program} {a c : Nat} (hp : p[a]? = some (.char c)) :
    Cmp p a (a + 1) (fun u _ => u = [c]) := by
  rintro u y rfl _ n hacc
  exact ⟨n + 1, by simp [accN, hp, hacc]⟩

theorem cmp_set {p : Program} {a : Nat} {rs : List Range} (hp : p[a]? = some (.set rs)) :
    Cmp p a (a + 1) (fun u _ => ∃ c, u = [c] ∧ inRanges rs c = true) := by
  rintro u y ⟨c, rfl, hc⟩ _ n hacc
  exact ⟨n + 1, by simp [accN, hp, hacc, hc]⟩

theorem cmp_notSet {p : Program} {a : Nat} {rs : List Range} (hp : p[a]? = some (.notSet rs)) :
    Cmp p a (a + 1) (fun u _ => ∃ c, u = [c] ∧ inRanges rs c = false) := by
  rintro u y ⟨c, rfl, hc⟩ _ n hacc
  exact ⟨n + 1, by simp [accN, hp, hacc, hc]⟩

theorem cmp_any {p : Program} {a : Nat} (hp : p[a]? = some .any) :
    Cmp p a (a + 1) (fun u _ => ∃ c, u = [c]) := by
  rintro u y ⟨c, rfl⟩ _ n hacc
  exact ⟨n + 1, by simp [accN, hp, hacc]⟩

theorem cmp_atEnd {p : Program} {a : Nat} (hp : p[a]? = some .atEnd) :
    Cmp p a (a + 1) (fun u y => u = [] ∧ y = []) := by
  rintro u y ⟨rfl, rfl⟩ _ n hacc
  exact ⟨n + 1, by simpa [accN, hp] using hacc⟩

/-! ### Derived rules: `repAt`, `optAt`, `quantAt` -/

section Derived
variable {p : Program} {F : Nat → Nat → (Text → Text → Prop) → Prop} (hF : FragLogic p F)
variable {f : Nat → Program} {sz : Nat} {P : Text → Text → Prop}
include hF

/-- `k` mandatory copies followed by a fragment for `{mn,mx}` give `{mn+k,mx+k}`. -/
theorem FragLogic.repAt (hlen : ∀ b, (f b).length = sz)
    (hf : ∀ base, CodeAt p base (f base) → F base (base + sz) P) :
    ∀ (k base e mn : Nat) (mx : Option Nat), CodeAt p base (repAt f sz k base) →
      F (base + k * sz) e (Rep2 P mn mx) → F base e (Rep2 P (mn + k) (mx.map (· + k))) := by
  intro k
  induction k with
  | zero =>
    intro base e mn mx _ h
    have : mx.map (· + 0) = mx := by cases mx <;> simp
    simpa [this] using h
  | succ k ih =>
    intro base e mn mx hc h
    rw [Revm.repAt, codeAt_append, hlen] at hc
    have h₁ := hf base hc.1
    have h₂ := ih (base + sz) e mn mx hc.2
      (by rw [Nat.succ_mul] at h; rwa [show base + sz + k * sz = base + (k * sz + sz) by omega])
    refine hF.congr (fun u y => ?_) (hF.seq h₁ h₂)
    have hmx : mx.map (· + (k + 1)) = (mx.map (· + k)).map (· + 1) := by
      cases mx <;> simp [Nat.add_assoc]
    rw [← Nat.add_assoc, hmx, Rep2.succ_iff]

/-- `k` nested optional copies give `{0,k}`. -/
theorem FragLogic.optAt (hlen : ∀ b, (f b).length = sz)
    (hf : ∀ base, CodeAt p base (f base) → F base (base + sz) P) :
    ∀ (k base final : Nat), final = base + k * (sz + 1) →
      CodeAt p base (optAt f sz final k base) → F base final (Rep2 P 0 (some k)) := by
  intro k
  induction k with
  | zero =>
    intro base final hfin _
    have : final = base := by simpa using hfin
    subst this
    exact hF.congr (fun u y => Rep2.zero_some_zero_iff.symm) (hF.refl _)
  | succ k ih =>
    intro base final hfin hc
    rw [Revm.optAt, codeAt_cons, codeAt_append, hlen] at hc
    obtain ⟨hsplit, hbody, hrest⟩ := hc
    have h₁ := hf (base + 1) hbody
    have h₂ := ih (base + 1 + sz) final (by rw [hfin, Nat.succ_mul]; omega) hrest
    refine hF.congr (fun u y => ?_) (hF.split hsplit (hF.seq h₁ h₂) (hF.refl final))
    rw [Rep2.zero_some_succ_iff, or_comm]

/-- The code of a quantified term recognises the repetitions of the body. -/
theorem FragLogic.quantAt (hlen : ∀ b, (f b).length = sz)
    (hf : ∀ base, CodeAt p base (f base) → F base (base + sz) P)
    (q : Quant) (hq : quantOk q = true) (base : Nat)
    (hc : CodeAt p base (quantAt f sz q base)) :
    F base (base + quantSize sz q) (Rep2 P q.min q.max) := by
  obtain ⟨ng, mn, mx⟩ := q
  unfold Revm.quantAt at hc
  unfold quantSize
  simp only at hc ⊢
  split at hc
  · rename_i h11
    rw [if_pos h11, h11.1, h11.2]
    exact hF.congr (fun u y => Rep2.one_one_iff.symm) (hf base hc)
  · rename_i h11
    rw [if_neg h11]
    cases mx with
    | some m =>
      simp only at hc ⊢
      have hq' : ng = false ∧ mn ≤ m := by simpa [quantOk] using hq
      have hle : mn ≤ m := hq'.2
      rw [codeAt_append, repAt_length f sz hlen] at hc
      have h₂ := hF.optAt hlen hf (m - mn) (base + mn * sz) _ rfl hc.2
      have h := hF.repAt hlen hf mn base _ 0 (some (m - mn)) hc.1 h₂
      have e₁ : (some (m - mn)).map (· + mn) = some m := by simp; omega
      rw [e₁, Nat.zero_add] at h
      rwa [show base + (mn * sz + (m - mn) * (sz + 1)) = base + mn * sz + (m - mn) * (sz + 1) by omega]
    | none =>
      simp only at hc ⊢
      split at hc
      · rename_i h0
        subst h0
        rw [if_pos rfl]
        rw [codeAt_cons, codeAt_append, hlen, codeAt_cons] at hc
        obtain ⟨hsplit, hbody, hjump, _⟩ := hc
        have := hF.star hsplit (hf (base + 1) hbody) hjump
        rwa [show base + (sz + 2) = base + sz + 2 by omega]
      · rename_i h0
        rw [if_neg h0]
        obtain ⟨k, rfl⟩ : ∃ k, mn = k + 1 := ⟨mn - 1, by omega⟩
        simp only [Nat.add_sub_cancel] at hc
        rw [codeAt_append, repAt_length f sz hlen, codeAt_append, hlen, codeAt_cons] at hc
        obtain ⟨hrep, hbody, hsplit, _⟩ := hc
        have h₂ := hF.plus (hf (base + k * sz) hbody) hsplit
        have h := hF.repAt hlen hf k base _ 1 none hrep h₂
        rw [Nat.succ_mul]
        rw [show base + (k * sz + sz + 1) = base + k * sz + sz + 1 by omega]
        simpa [Nat.add_comm 1 k] using h

end Derived

end AasVerif.Revm
