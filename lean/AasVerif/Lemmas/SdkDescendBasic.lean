import AasVerif.Model.SdkDescend
/-!
Helper lemmas for `Props/C29.lean`: the unroller never produces an empty block for a descendable type,
conformance inversions, monad plumbing of `Except`.
-/
namespace AasVerif.SdkDescend
open AasVerif AasVerif.Sdk

theorem isCls_descendable {t : Ty} (h : isCls t = true) : descendable t = true := by
  cases t <;> simp_all [isCls, descendable]

/-- `unroll` yields no statement exactly for the non-descendable annotations. -/
theorem unroll_isEmpty (r : Bool) (t : Ty) : (unroll r t).isEmpty = !descendable t := by
  induction t with
  | prim p => simp [unroll, descendable]
  | enum e => simp [unroll, descendable]
  | cls c => cases r <;> simp [unroll, descendable]
  | list t ih =>
    simp only [unroll, descendable]
    split
    · next h =>
      simp only [Bool.and_eq_true, Bool.not_eq_eq_eq_not, Bool.not_true] at h
      simp [isCls_descendable h.2]
    · split
      · next h => rw [← ih]; simp [h]
      · next h => rw [← ih]; simp at h ⊢; exact h
  | opt t ih =>
    simp only [unroll, descendable]
    split
    · next h => rw [← ih]; simp [h]
    · next h => rw [← ih]; simp at h ⊢; exact h

theorem unroll_eq_nil {r : Bool} {t : Ty} (h : descendable t = false) : unroll r t = [] := by
  have := unroll_isEmpty r t
  rw [h] at this
  simpa using this

theorem unroll_ne_nil {r : Bool} {t : Ty} (h : descendable t = true) : (unroll r t).isEmpty = false := by
  rw [unroll_isEmpty, h]; rfl

/-- The block of a property is the unrolled annotation; the generator's `assert len(roots) > 0` holds. -/
theorem propBlock_eq (r : Bool) (t : Ty) : propBlock r t = .ok (unroll r t) := by
  unfold propBlock
  cases h : descendable t
  · simp [unroll_eq_nil h]
  · simp [unroll_ne_nil h]

theorem flatMap_congr' {α β} {l : List α} {f g : α → List β} (h : ∀ x ∈ l, f x = g x) :
    l.flatMap f = l.flatMap g := by
  induction l with
  | nil => rfl
  | cons a l ih =>
    simp only [List.flatMap_cons]
    rw [h a (by simp), ih (fun x hx => h x (by simp [hx]))]

/-! ### `Except` plumbing -/

theorem bind_pure_append_nil (x : Out) :
    (do let a ← x; let b ← (Except.ok [] : Out); pure (a ++ b)) = x := by
  cases x <;> simp [bind, Except.bind, pure, Except.pure]

theorem execNodes_single (cb : Val → Out) (n : Node) (v : Val) :
    execNodes cb [n] v = execNode cb n v := by
  simp only [execNodes]
  exact bind_pure_append_nil _

theorem execNodes_nil (cb : Val → Out) (v : Val) : execNodes cb [] v = .ok [] := by
  simp [execNodes]

/-! ### conformance inversions -/

theorem conformsNN_not_opt {mm : MM} {t : Ty} {v : Val} : conformsNN mm (.opt t) v = false := by
  cases v <;> simp [conformsNN]

theorem conformsNN_none {mm : MM} {t : Ty} : conformsNN mm t .none = false := by
  cases t with
  | prim p => cases p <;> simp [conformsNN]
  | _ => simp [conformsNN]

theorem conforms_of_conformsNN {mm : MM} {t : Ty} {v : Val} (h : conformsNN mm t v = true) :
    conforms mm t v = true := by
  cases t with
  | opt t => simp [conformsNN_not_opt] at h
  | _ => simpa [conforms] using h

theorem strip_of_conformsNN {mm : MM} {t : Ty} {v : Val} (h : conformsNN mm t v = true) : strip t = t := by
  cases t with
  | opt t => simp [conformsNN_not_opt] at h
  | _ => simp [strip]

/-- a non-`None` value of an optional (or plain) annotation conforms to the stripped annotation -/
theorem conformsNN_strip {mm : MM} {t : Ty} {v : Val} (h : conforms mm t v = true) (hv : v ≠ .none) :
    conformsNN mm (strip t) v = true := by
  cases t with
  | opt t =>
    have h' : conformsNN mm t v = true := by
      cases v <;> simp_all [conforms]
    simp only [strip]
    rw [strip_of_conformsNN h']; exact h'
  | _ => simpa [conforms, strip] using h

theorem conforms_none_isOpt {mm : MM} {t : Ty} (h : conforms mm t .none = true) : t.isOpt = true := by
  cases t with
  | opt t => rfl
  | _ => simp [conforms, conformsNN_none] at h

end AasVerif.SdkDescend
