import AasVerif.Model.Snippets
/-! Strict UTF-8: the decoder is the exact inverse of the encoder on scalar values. -/
namespace AasVerif.Snippets

theorem isCont_iff (b : Nat) : isCont b = true ↔ 0x80 ≤ b ∧ b ≤ 0xBF := by
  simp [isCont]

theorem utf8Encode_cons (c : Nat) (t : Text) : utf8Encode (c :: t) = utf8EncodeChar c ++ utf8Encode t := by
  simp [utf8Encode]

/-! ### decoding steps -/

theorem dec1 (b0 : Nat) (r : List Nat) (h : b0 < 0x80) :
    utf8Decode (b0 :: r) = (utf8Decode r).map (b0 :: ·) := by
  rw [utf8Decode.eq_def]
  simp only [if_pos h]

theorem dec2 (b0 b1 : Nat) (r : List Nat) (h0 : 0xC2 ≤ b0) (h0' : b0 ≤ 0xDF) (h1 : 0x80 ≤ b1) (h1' : b1 ≤ 0xBF) :
    utf8Decode (b0 :: b1 :: r) = (utf8Decode r).map (((b0 - 0xC0) * 64 + (b1 - 0x80)) :: ·) := by
  rw [utf8Decode.eq_def]
  simp only
  rw [if_neg (by omega), if_pos ⟨h0, h0'⟩, if_pos ((isCont_iff b1).mpr ⟨h1, h1'⟩)]

theorem dec3 (b0 b1 b2 : Nat) (r : List Nat) (h0 : 0xE0 ≤ b0) (h0' : b0 ≤ 0xEF)
    (h1 : 0x80 ≤ b1) (h1' : b1 ≤ 0xBF) (h2 : 0x80 ≤ b2) (h2' : b2 ≤ 0xBF)
    (hA : b0 = 0xE0 → 0xA0 ≤ b1) (hB : b0 = 0xED → b1 ≤ 0x9F) :
    utf8Decode (b0 :: b1 :: b2 :: r) =
      (utf8Decode r).map (((b0 - 0xE0) * 4096 + (b1 - 0x80) * 64 + (b2 - 0x80)) :: ·) := by
  rw [utf8Decode.eq_def]
  simp only
  rw [if_neg (by omega), if_neg (by omega), if_pos ⟨h0, h0'⟩, if_pos ⟨(isCont_iff b1).mpr ⟨h1, h1'⟩, (isCont_iff b2).mpr ⟨h2, h2'⟩, hA, hB⟩]

theorem dec4 (b0 b1 b2 b3 : Nat) (r : List Nat) (h0 : 0xF0 ≤ b0) (h0' : b0 ≤ 0xF4)
    (h1 : 0x80 ≤ b1) (h1' : b1 ≤ 0xBF) (h2 : 0x80 ≤ b2) (h2' : b2 ≤ 0xBF) (h3 : 0x80 ≤ b3) (h3' : b3 ≤ 0xBF)
    (hA : b0 = 0xF0 → 0x90 ≤ b1) (hB : b0 = 0xF4 → b1 ≤ 0x8F) :
    utf8Decode (b0 :: b1 :: b2 :: b3 :: r) =
      (utf8Decode r).map
        (((b0 - 0xF0) * 262144 + (b1 - 0x80) * 4096 + (b2 - 0x80) * 64 + (b3 - 0x80)) :: ·) := by
  rw [utf8Decode.eq_def]
  simp only
  rw [if_neg (by omega), if_neg (by omega), if_neg (by omega), if_pos ⟨h0, h0'⟩, if_pos ⟨(isCont_iff b1).mpr ⟨h1, h1'⟩, (isCont_iff b2).mpr ⟨h2, h2'⟩, (isCont_iff b3).mpr ⟨h3, h3'⟩, hA, hB⟩]

/-! ### round trip: decode ∘ encode -/

theorem isScalar_iff (c : Nat) : isScalar c = true ↔ c < 0xD800 ∨ (0xE000 ≤ c ∧ c < 0x110000) := by
  simp [isScalar]

theorem utf8Decode_encodeChar_append (c : Nat) (r : List Nat) (h : isScalar c = true) :
    utf8Decode (utf8EncodeChar c ++ r) = (utf8Decode r).map (c :: ·) := by
  rw [isScalar_iff] at h
  unfold utf8EncodeChar
  split
  · next h1 => simpa using dec1 c r h1
  · split
    · next h1 h2 =>
      have := dec2 (0xC0 + c / 64) (0x80 + c % 64) r (by omega) (by omega) (by omega) (by omega)
      have e : (0xC0 + c / 64 - 0xC0) * 64 + (0x80 + c % 64 - 0x80) = c := by omega
      rw [e] at this
      simpa using this
    · split
      · next h1 h2 h3 =>
        have := dec3 (0xE0 + c / 4096) (0x80 + c / 64 % 64) (0x80 + c % 64) r
          (by omega) (by omega) (by omega) (by omega) (by omega) (by omega) (by omega) (by omega)
        have e : (0xE0 + c / 4096 - 0xE0) * 4096 + (0x80 + c / 64 % 64 - 0x80) * 64 + (0x80 + c % 64 - 0x80) = c := by omega
        rw [e] at this
        simpa using this
      · next h1 h2 h3 =>
        have := dec4 (0xF0 + c / 262144) (0x80 + c / 4096 % 64) (0x80 + c / 64 % 64) (0x80 + c % 64) r
          (by omega) (by omega) (by omega) (by omega) (by omega) (by omega) (by omega) (by omega) (by omega) (by omega)
        have e : (0xF0 + c / 262144 - 0xF0) * 262144 + (0x80 + c / 4096 % 64 - 0x80) * 4096
            + (0x80 + c / 64 % 64 - 0x80) * 64 + (0x80 + c % 64 - 0x80) = c := by omega
        rw [e] at this
        simpa using this

theorem utf8Decode_encode (t : Text) (h : ∀ c ∈ t, isScalar c = true) :
    utf8Decode (utf8Encode t) = some t := by
  induction t with
  | nil => simp [utf8Encode, utf8Decode]
  | cons c cs ih =>
    rw [utf8Encode_cons, utf8Decode_encodeChar_append c _ (h c (by simp)),
      ih (fun x hx => h x (by simp [hx]))]
    rfl

/-! ### encode ∘ decode: whatever decodes is the encoding of scalar values -/

theorem enc1 (b0 : Nat) (h : b0 < 0x80) : utf8EncodeChar b0 = [b0] ∧ isScalar b0 = true := by
  refine ⟨by unfold utf8EncodeChar; rw [if_pos h], ?_⟩
  rw [isScalar_iff]; omega

theorem enc2 (b0 b1 : Nat) (h0 : 0xC2 ≤ b0) (h0' : b0 ≤ 0xDF) (h1 : 0x80 ≤ b1) (h1' : b1 ≤ 0xBF) :
    utf8EncodeChar ((b0 - 0xC0) * 64 + (b1 - 0x80)) = [b0, b1] ∧
      isScalar ((b0 - 0xC0) * 64 + (b1 - 0x80)) = true := by
  refine ⟨?_, by rw [isScalar_iff]; omega⟩
  unfold utf8EncodeChar
  rw [if_neg (by omega), if_pos (by omega)]
  have e1 : 0xC0 + ((b0 - 0xC0) * 64 + (b1 - 0x80)) / 64 = b0 := by omega
  have e2 : 0x80 + ((b0 - 0xC0) * 64 + (b1 - 0x80)) % 64 = b1 := by omega
  rw [e1, e2]

theorem enc3 (b0 b1 b2 : Nat) (h0 : 0xE0 ≤ b0) (h0' : b0 ≤ 0xEF)
    (h1 : 0x80 ≤ b1) (h1' : b1 ≤ 0xBF) (h2 : 0x80 ≤ b2) (h2' : b2 ≤ 0xBF)
    (hA : b0 = 0xE0 → 0xA0 ≤ b1) (hB : b0 = 0xED → b1 ≤ 0x9F) :
    utf8EncodeChar ((b0 - 0xE0) * 4096 + (b1 - 0x80) * 64 + (b2 - 0x80)) = [b0, b1, b2] ∧
      isScalar ((b0 - 0xE0) * 4096 + (b1 - 0x80) * 64 + (b2 - 0x80)) = true := by
  refine ⟨?_, by rw [isScalar_iff]; omega⟩
  unfold utf8EncodeChar
  rw [if_neg (by omega), if_neg (by omega), if_pos (by omega)]
  have e1 : 0xE0 + ((b0 - 0xE0) * 4096 + (b1 - 0x80) * 64 + (b2 - 0x80)) / 4096 = b0 := by omega
  have e2 : 0x80 + ((b0 - 0xE0) * 4096 + (b1 - 0x80) * 64 + (b2 - 0x80)) / 64 % 64 = b1 := by omega
  have e3 : 0x80 + ((b0 - 0xE0) * 4096 + (b1 - 0x80) * 64 + (b2 - 0x80)) % 64 = b2 := by omega
  rw [e1, e2, e3]

theorem enc4 (b0 b1 b2 b3 : Nat) (h0 : 0xF0 ≤ b0) (h0' : b0 ≤ 0xF4)
    (h1 : 0x80 ≤ b1) (h1' : b1 ≤ 0xBF) (h2 : 0x80 ≤ b2) (h2' : b2 ≤ 0xBF) (h3 : 0x80 ≤ b3) (h3' : b3 ≤ 0xBF)
    (hA : b0 = 0xF0 → 0x90 ≤ b1) (hB : b0 = 0xF4 → b1 ≤ 0x8F) :
    utf8EncodeChar ((b0 - 0xF0) * 262144 + (b1 - 0x80) * 4096 + (b2 - 0x80) * 64 + (b3 - 0x80)) = [b0, b1, b2, b3] ∧
      isScalar ((b0 - 0xF0) * 262144 + (b1 - 0x80) * 4096 + (b2 - 0x80) * 64 + (b3 - 0x80)) = true := by
  refine ⟨?_, by rw [isScalar_iff]; omega⟩
  unfold utf8EncodeChar
  rw [if_neg (by omega), if_neg (by omega), if_neg (by omega)]
  have e1 : 0xF0 + ((b0 - 0xF0) * 262144 + (b1 - 0x80) * 4096 + (b2 - 0x80) * 64 + (b3 - 0x80)) / 262144 = b0 := by omega
  have e2 : 0x80 + ((b0 - 0xF0) * 262144 + (b1 - 0x80) * 4096 + (b2 - 0x80) * 64 + (b3 - 0x80)) / 4096 % 64 = b1 := by omega
  have e3 : 0x80 + ((b0 - 0xF0) * 262144 + (b1 - 0x80) * 4096 + (b2 - 0x80) * 64 + (b3 - 0x80)) / 64 % 64 = b2 := by omega
  have e4 : 0x80 + ((b0 - 0xF0) * 262144 + (b1 - 0x80) * 4096 + (b2 - 0x80) * 64 + (b3 - 0x80)) % 64 = b3 := by omega
  rw [e1, e2, e3, e4]

theorem map_cons_eq_some {o : Option Text} {c : Nat} {t : Text} (h : o.map (c :: ·) = some t) :
    ∃ t', o = some t' ∧ t = c :: t' := by
  cases o with
  | none => simp at h
  | some t' => simp at h; exact ⟨t', rfl, h.symm⟩

theorem utf8Encode_of_decode : ∀ (n : Nat) (bs : List Nat) (t : Text), bs.length ≤ n →
    utf8Decode bs = some t → utf8Encode t = bs ∧ ∀ c ∈ t, isScalar c = true := by
  intro n
  induction n with
  | zero =>
    intro bs t hl h
    have : bs = [] := List.eq_nil_of_length_eq_zero (by omega)
    subst this
    simp [utf8Decode] at h
    subst h
    simp [utf8Encode]
  | succ n ih =>
    intro bs t hl h
    cases bs with
    | nil =>
      simp [utf8Decode] at h
      subst h
      simp [utf8Encode]
    | cons b0 bs =>
      rw [utf8Decode.eq_def] at h
      simp only at h
      split at h
      · next h0 =>
        obtain ⟨t', ht', rfl⟩ := map_cons_eq_some h
        obtain ⟨e, sc⟩ := ih bs t' (by simp at hl; omega) ht'
        obtain ⟨e1, s1⟩ := enc1 b0 h0
        refine ⟨by rw [utf8Encode_cons, e1, e]; simp, ?_⟩
        intro c hc
        rcases List.mem_cons.mp hc with hc | hc
        · rw [hc]; exact s1
        · exact sc c hc
      · split at h
        · next h0 =>
          cases bs with
          | nil => simp at h
          | cons b1 r =>
            simp only at h
            split at h
            · next hc1 =>
              rw [isCont_iff] at hc1
              obtain ⟨t', ht', rfl⟩ := map_cons_eq_some h
              obtain ⟨e, sc⟩ := ih r t' (by simp at hl; omega) ht'
              obtain ⟨e1, s1⟩ := enc2 b0 b1 h0.1 h0.2 hc1.1 hc1.2
              refine ⟨by rw [utf8Encode_cons, e1, e]; simp, ?_⟩
              intro c hc
              rcases List.mem_cons.mp hc with hc | hc
              · rw [hc]; exact s1
              · exact sc c hc
            · cases h
        · split at h
          · next h0 =>
            match bs, h, hl with
            | [], h, _ => simp at h
            | [_], h, _ => simp at h
            | b1 :: b2 :: r, h, hl =>
              simp only at h
              split at h
              · next hc =>
                obtain ⟨hc1, hc2, hA, hB⟩ := hc
                rw [isCont_iff] at hc1 hc2
                obtain ⟨t', ht', rfl⟩ := map_cons_eq_some h
                obtain ⟨e, sc⟩ := ih r t' (by simp at hl; omega) ht'
                obtain ⟨e1, s1⟩ := enc3 b0 b1 b2 h0.1 h0.2 hc1.1 hc1.2 hc2.1 hc2.2 hA hB
                refine ⟨by rw [utf8Encode_cons, e1, e]; simp, ?_⟩
                intro c hc
                rcases List.mem_cons.mp hc with hc | hc
                · rw [hc]; exact s1
                · exact sc c hc
              · cases h
          · split at h
            · next h0 =>
              match bs, h, hl with
              | [], h, _ => simp at h
              | [_], h, _ => simp at h
              | [_, _], h, _ => simp at h
              | b1 :: b2 :: b3 :: r, h, hl =>
                simp only at h
                split at h
                · next hc =>
                  obtain ⟨hc1, hc2, hc3, hA, hB⟩ := hc
                  rw [isCont_iff] at hc1 hc2 hc3
                  obtain ⟨t', ht', rfl⟩ := map_cons_eq_some h
                  obtain ⟨e, sc⟩ := ih r t' (by simp at hl; omega) ht'
                  obtain ⟨e1, s1⟩ := enc4 b0 b1 b2 b3 h0.1 h0.2 hc1.1 hc1.2 hc2.1 hc2.2 hc3.1 hc3.2 hA hB
                  refine ⟨by rw [utf8Encode_cons, e1, e]; simp, ?_⟩
                  intro c hc
                  rcases List.mem_cons.mp hc with hc | hc
                  · rw [hc]; exact s1
                  · exact sc c hc
                · cases h
            · cases h

end AasVerif.Snippets
