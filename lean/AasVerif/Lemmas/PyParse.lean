import AasVerif.Lemmas.PyParseLift
/-!
**The reader reads every printed expression back**: for `parenOK x` (every operand binds at
least as tightly as Python's grammar requires at its position, or is parenthesised),
`parse (print x) = .ok (strip x) []` — the tree read from the token sequence is the
expression with the `paren` nodes removed.  Mutual structural induction over `PyExpr`.
-/
namespace AasVerif.PyEmit
open AasVerif AasVerif.Expr

theorem readOp_opToks (op : PyCmp) (r : List Tok) (h : ∀ ts, r ≠ .kwNot :: ts) :
    readOp (opToks op ++ r) = .op op r := by
  cases op with
  | cmp c => rfl
  | in_ => rfl
  | isNot => rfl
  | is_ =>
    match r, h with
    | [], _ => rfl
    | t :: ts, h => cases t <;> simp [readOp, opToks] at h ⊢

theorem stops_opToks (op : PyCmp) (r : List Tok) : stops 5 (opToks op ++ r) = true := by
  cases op <;> rfl

theorem boolKw_true : boolKw true = .kwAnd := rfl
theorem boolKw_false : boolKw false = .kwOr := rfl

theorem pArgs_nonrpar (n : Nat) {t : Tok} (r : List Tok) (h : starter t = true) :
    pArgs (n + 1) (t :: r) = pArgs1 n (t :: r) := by
  cases t <;> simp [pArgs, starter] at h ⊢

theorem pIter_nonrange (n : Nat) {t : Tok} (r : List Tok) (h : starter t = true) :
    pIter (n + 1) (t :: r) = (wrapB (isAnd := false) (pOrList n (t :: r))).bind fun e r' => .ok (.each e) r' := by
  cases t <;> simp [pIter, starter] at h ⊢

theorem pArgs1_comma (n : Nat) {ts : List Tok} {a : PyExpr} {t : Tok} (r : List Tok) (h : starter t = true)
    (hp : wrapB (isAnd := false) (pOrList n ts) = .ok a (.comma :: t :: r)) :
    pArgs1 (n + 1) ts = (pArgs1 n (t :: r)).bind fun as r'' => .ok (a :: as) r'' := by
  simp only [pArgs1, hp, PR.bind_ok]
  cases t <;> simp [starter] at h ⊢

theorem pAtom_int (n k : Nat) (r : List Tok) (h : r.head? ≠ some .dot) :
    pAtom (n + 1) (.int k :: r) = .ok (.int k) r := by
  match r, h with
  | [], _ => simp [pAtom]
  | t :: r', h => cases t <;> simp [pAtom] at h ⊢

mutual
  theorem reads_print : ∀ (x : PyExpr), parenOK x = true → Reads x
    | .that, h => reads_of7 h rfl (p7_atom rfl rfl (fun n r _ => by simp [pAtom]))
    | .var _, h => reads_of7 h rfl (p7_atom rfl rfl (fun n r _ => by simp [pAtom]))
    | .constRef _, h => reads_of7 h rfl (p7_atom rfl rfl (fun n r _ => by simp [pAtom]))
    | .enumRef _, h => reads_of7 h rfl (p7_atom rfl rfl (fun n r _ => by simp [pAtom]))
    | .funRef _, h => reads_of7 h rfl (p7_atom rfl rfl (fun n r _ => by simp [pAtom]))
    | .noneC, h => reads_of7 h rfl (p7_atom rfl rfl (fun n r _ => by simp [pAtom]))
    | .tru, h => reads_of7 h rfl (p7_atom rfl rfl (fun n r _ => by simp [pAtom]))
    | .fls, h => reads_of7 h rfl (p7_atom rfl rfl (fun n r _ => by simp [pAtom]))
    | .int k, h => reads_of7 h rfl (p7_atom rfl rfl (fun n r hd => pAtom_int n k r (hd rfl)))
    | .float _, h => reads_of7 h rfl (p7_atom rfl rfl (fun n r _ => by simp [pAtom]))
    | .str _, h => reads_of7 h rfl (p7_atom rfl rfl (fun n r _ => by simp [pAtom]))
    | .neg e, h0 => by
      have h := h0
      simp only [parenOK, Bool.and_eq_true, decide_eq_true_eq] at h
      have ge := reads_print e h.2
      refine reads_of6 h0 rfl ?_
      intro rest n hs hn
      simp only [print, List.length_cons] at hn
      obtain ⟨n', rfl⟩ : ∃ n', n = n' + 1 := ⟨n - 1, by omega⟩
      simp only [print, List.cons_append, pFactor, ge.p6 h.1 rest n' hs (by omega), PR.bind_ok, strip]
    | .attr e k nm, h0 => by
      have h := h0
      simp only [parenOK, Bool.and_eq_true, decide_eq_true_eq, Bool.not_eq_eq_eq_not, Bool.not_true] at h
      have ge := reads_print e h.2
      refine reads_of7 h0 rfl ?_
      intro rest n _ hn
      simp only [print, List.length_append, List.length_cons, List.length_nil, List.append_assoc,
        List.cons_append, List.nil_append] at hn ⊢
      obtain ⟨m, hm1, hm2⟩ := ge.p7 h.1.1 (.dot :: .attrName k nm :: rest) n (by simp [h.1.2]) (by omega)
      obtain ⟨m', rfl⟩ : ∃ m', m = m' + 1 := ⟨m - 1, by omega⟩
      refine ⟨m', by omega, ?_⟩
      rw [hm2]
      simp only [pTrailers, strip]
    | .subscript e i, h0 => by
      have h := h0
      simp only [parenOK, Bool.and_eq_true, decide_eq_true_eq] at h
      have ge := reads_print e h.1.2
      have gi := reads_print i h.2
      refine reads_of7 h0 rfl ?_
      intro rest n _ hn
      simp only [print, List.length_append, List.length_cons, List.length_nil, List.append_assoc,
        List.cons_append, List.nil_append] at hn ⊢
      obtain ⟨m, hm1, hm2⟩ := ge.p7 h.1.1 (.lbrack :: (print i ++ .rbrack :: rest)) n (by simp) (by omega)
      obtain ⟨m', rfl⟩ : ∃ m', m = m' + 1 := ⟨m - 1, by omega⟩
      refine ⟨m', by omega, ?_⟩
      rw [hm2]
      simp only [pTrailers, gi.p1 (.rbrack :: rest) m' rfl (by omega), PR.bind_ok, strip]
    | .callMethod e mth args, h0 => by
      have h := h0
      simp only [parenOK, Bool.and_eq_true, decide_eq_true_eq, Bool.not_eq_eq_eq_not, Bool.not_true] at h
      have ge := reads_print e h.1.2
      have ga := readsArgs args h.2
      refine reads_of7 h0 rfl ?_
      intro rest n _ hn
      simp only [print, List.length_append, List.length_cons, List.append_assoc,
        List.cons_append] at hn ⊢
      obtain ⟨m, hm1, hm2⟩ := ge.p7 h.1.1.1 (.dot :: .attrName .method mth :: .lpar :: (printArgs args ++ rest)) n
        (by simp [h.1.1.2]) (by omega)
      obtain ⟨m', rfl⟩ : ∃ m', m = m' + 2 := ⟨m - 2, by omega⟩
      refine ⟨m', by omega, ?_⟩
      rw [hm2]
      simp only [pTrailers, ga rest m' (by omega), PR.bind_ok, mkCall, strip]
    | .callFun f args, h0 => by
      have h := h0
      simp only [parenOK] at h
      have ga := readsArgs args h
      refine reads_of7 h0 rfl ?_
      intro rest n _ hn
      simp only [print, List.length_cons, List.cons_append] at hn ⊢
      obtain ⟨n', rfl⟩ : ∃ n', n = n' + 3 := ⟨n - 3, by omega⟩
      refine ⟨n' + 1, by omega, ?_⟩
      simp only [pPrimary, pAtom, PR.bind_ok, pTrailers, ga rest (n' + 1) (by omega), mkCall, strip]
    | .compare l op r, h0 => by
      have h := h0
      simp only [parenOK, Bool.and_eq_true, decide_eq_true_eq] at h
      have gl := reads_print l h.1.2
      have gr := reads_print r h.2
      refine reads_of4 h0 rfl ?_
      intro rest n hs hn
      have hop : 1 ≤ (opToks op).length := by cases op <;> simp [opToks]
      simp only [print, List.length_append, List.append_assoc] at hn ⊢
      obtain ⟨n', rfl⟩ : ∃ n', n = n' + 1 := ⟨n - 1, by omega⟩
      obtain ⟨m, hm1, hm2⟩ := gl.p5 h.1.1.1 (opToks op ++ (print r ++ rest)) n'
        (stops_mono (by decide) (stops_opToks op _)) (by omega)
      obtain ⟨m', rfl⟩ : ∃ m', m = m' + 1 := ⟨m - 1, by omega⟩
      obtain ⟨m2, hm3, hm4⟩ := gr.p5 h.1.1.2 rest n' (stops_mono (by decide) hs) (by omega)
      obtain ⟨m2', rfl⟩ : ∃ m2', m2 = m2' + 1 := ⟨m2 - 1, by omega⟩
      obtain ⟨t, ts, hp, st⟩ := head_print r h.2
      have hnot : ∀ ts', print r ++ rest ≠ .kwNot :: ts' := by
        intro ts' e
        rw [hp, List.cons_append, List.cons.injEq] at e
        have := st.notK e.1
        omega
      simp only [pCmp, hm2, pArithRest_stop _ _ (stops_opToks op _), PR.bind_ok, readOp_opToks op _ hnot,
        hm4, pArithRest_stop _ _ (stops_mono (by decide) hs), readOp_stop hs, strip]
    | .not e, h0 => by
      have h := h0
      simp only [parenOK, Bool.and_eq_true, decide_eq_true_eq] at h
      have ge := reads_print e h.2
      refine reads_of3 h0 rfl ?_
      intro rest n hs hn
      simp only [print, List.length_cons] at hn
      obtain ⟨n', rfl⟩ : ∃ n', n = n' + 1 := ⟨n - 1, by omega⟩
      simp only [print, List.cons_append, pNot, ge.p3 h.1 rest n' hs (by omega), PR.bind_ok, strip]
    | .boolop true [], h => by simp [parenOK] at h
    | .boolop true (v :: vs), h0 => by
      have h := h0
      simp only [parenOK, parenOKList, Bool.and_eq_true, decide_eq_true_eq, List.length_cons] at h
      have gv := reads_print v h.2.1.2
      refine reads_of2 h0 rfl ?_
      intro rest n hs hn
      simp only [print, printVals, boolKw_true, List.length_append, List.append_assoc] at hn ⊢
      rw [readsAndTail vs h.2.2 v h.2.1.2 h.2.1.1 gv rest n hs (by omega)]
      match vs, h.1 with
      | [], h1 => simp at h1
      | w :: ws, _ => simp [strip, stripList]
    | .boolop false [], h => by simp [parenOK] at h
    | .boolop false (v :: vs), h0 => by
      have h := h0
      simp only [parenOK, parenOKList, Bool.and_eq_true, decide_eq_true_eq, List.length_cons] at h
      have gv := reads_print v h.2.1.2
      refine reads_of1 rfl ?_
      intro rest n hs hn
      simp only [print, printVals, boolKw_false, List.length_append, List.append_assoc] at hn ⊢
      rw [readsOrTail vs h.2.2 v h.2.1.2 h.2.1.1 gv rest n hs (by omega)]
      match vs, h.1 with
      | [], h1 => simp at h1
      | w :: ws, _ => simp [strip, stripList]
    | .binop a l r, h0 => by
      have h := h0
      simp only [parenOK, Bool.and_eq_true, decide_eq_true_eq] at h
      have gl := reads_print l h.1.2
      have gr := reads_print r h.2
      refine reads_of5 h0 rfl ?_
      intro rest n hs hn
      simp only [print, List.length_append, List.length_cons, List.append_assoc, List.cons_append] at hn ⊢
      obtain ⟨m, hm1, hm2⟩ := gl.p5 h.1.1.1 ((if a = true then Tok.plus else Tok.minus) :: (print r ++ rest)) n
        (by cases a <;> rfl) (by omega)
      obtain ⟨m', rfl⟩ : ∃ m', m = m' + 1 := ⟨m - 1, by omega⟩
      refine ⟨m', by omega, ?_⟩
      rw [hm2]
      cases a <;> simp only [pArithRest, gr.p6 h.1.1.2 rest m' hs (by omega), PR.bind_ok, strip,
        Bool.false_eq_true, ↓reduceIte]
    | .fstring ps, h0 => by
      have h := h0
      simp only [parenOK] at h
      have gp := readsParts ps h
      refine reads_of7 h0 rfl ?_
      intro rest n _ hn
      simp only [print, List.length_cons, List.cons_append] at hn ⊢
      obtain ⟨n', rfl⟩ : ∃ n', n = n' + 2 := ⟨n - 2, by omega⟩
      refine ⟨n' + 1, by omega, ?_⟩
      simp only [pPrimary, pAtom, gp rest n' (by omega), PR.bind_ok, strip]
    | .quant a elt v it, h0 => by
      have h := h0
      simp only [parenOK, Bool.and_eq_true] at h
      have ge := reads_print elt h.1
      have gi := readsIter it h.2
      refine reads_of7 h0 rfl ?_
      intro rest n _ hn
      simp only [print, List.length_append, List.length_cons, List.length_nil, List.append_assoc,
        List.cons_append, List.nil_append] at hn ⊢
      obtain ⟨n', rfl⟩ : ∃ n', n = n' + 4 := ⟨n - 4, by omega⟩
      refine ⟨n' + 3, by omega, ?_⟩
      cases a <;> simp only [pPrimary, pAtom, pQuant, Bool.false_eq_true, ↓reduceIte,
        ge.p1 (.kwFor :: .var v :: .kwIn :: (printIter it ++ .rpar :: rest)) (n' + 1) rfl (by omega),
        gi (.rpar :: rest) (n' + 1) rfl (by omega), PR.bind_ok, strip]
    | .paren e, h0 => by
      have h := h0
      simp only [parenOK] at h
      have ge := reads_print e h
      refine reads_of7 h0 rfl ?_
      intro rest n _ hn
      simp only [print, List.length_append, List.length_cons, List.length_nil, List.append_assoc,
        List.cons_append, List.nil_append] at hn ⊢
      obtain ⟨n', rfl⟩ : ∃ n', n = n' + 2 := ⟨n - 2, by omega⟩
      refine ⟨n' + 1, by omega, ?_⟩
      simp only [pPrimary, pAtom, ge.p1 (.rpar :: rest) n' rfl (by omega), PR.bind_ok, strip]
  theorem readsAndTail : ∀ (vs : List PyExpr), parenOKList 3 vs = true → ∀ (v : PyExpr), parenOK v = true →
      3 ≤ v.level → Reads v → ∀ (rest : List Tok) (n : Nat), stops 2 rest = true →
      20 * ((print v).length + (printValsTail .kwAnd vs).length) ≤ n + 1 →
      pAndList n (print v ++ (printValsTail .kwAnd vs ++ rest)) = .ok (strip v :: stripList vs) rest
    | [], _, v, hv, hl, gv, rest, n, hs, hn => by
      have hpos := print_pos v hv
      simp only [printValsTail, List.nil_append, List.length_nil] at hn ⊢
      obtain ⟨n', rfl⟩ : ∃ n', n = n' + 1 := ⟨n - 1, by omega⟩
      rw [pAndList_single (gv.p3 hl rest n' (stops_mono (by decide) hs) (by omega)) hs]
      simp [stripList]
    | w :: ws, h, v, hv, hl, gv, rest, n, hs, hn => by
      have hpos := print_pos v hv
      simp only [parenOKList, Bool.and_eq_true, decide_eq_true_eq] at h
      have gw := reads_print w h.1.2
      have hposw := print_pos w h.1.2
      simp only [printValsTail, List.length_cons, List.length_append, List.cons_append, List.append_assoc] at hn ⊢
      obtain ⟨n', rfl⟩ : ∃ n', n = n' + 1 := ⟨n - 1, by omega⟩
      have h3 := gv.p3 hl (.kwAnd :: (print w ++ (printValsTail .kwAnd ws ++ rest))) n' rfl (by omega)
      have ih := readsAndTail ws h.2 w h.1.2 h.1.1 gw rest n' hs (by omega)
      simp only [pAndList, h3, PR.bind_ok, ih, stripList]
  theorem readsOrTail : ∀ (vs : List PyExpr), parenOKList 2 vs = true → ∀ (v : PyExpr), parenOK v = true →
      2 ≤ v.level → Reads v → ∀ (rest : List Tok) (n : Nat), stops 1 rest = true →
      20 * ((print v).length + (printValsTail .kwOr vs).length) ≤ n →
      pOrList n (print v ++ (printValsTail .kwOr vs ++ rest)) = .ok (strip v :: stripList vs) rest
    | [], _, v, hv, hl, gv, rest, n, hs, hn => by
      have hpos := print_pos v hv
      simp only [printValsTail, List.nil_append, List.length_nil] at hn ⊢
      obtain ⟨n', rfl⟩ : ∃ n', n = n' + 1 := ⟨n - 1, by omega⟩
      rw [pOrList_single (gv.p2 hl rest n' (stops_mono (by decide) hs) (by omega)) hs]
      simp [stripList]
    | w :: ws, h, v, hv, hl, gv, rest, n, hs, hn => by
      have hpos := print_pos v hv
      simp only [parenOKList, Bool.and_eq_true, decide_eq_true_eq] at h
      have gw := reads_print w h.1.2
      have hposw := print_pos w h.1.2
      simp only [printValsTail, List.length_cons, List.length_append, List.cons_append, List.append_assoc] at hn ⊢
      obtain ⟨n', rfl⟩ : ∃ n', n = n' + 1 := ⟨n - 1, by omega⟩
      have h2 := gv.p2 hl (.kwOr :: (print w ++ (printValsTail .kwOr ws ++ rest))) n' rfl (by omega)
      have ih := readsOrTail ws h.2 w h.1.2 h.1.1 gw rest n' hs (by omega)
      simp only [pOrList, h2, PR.bind_ok, ih, stripList]
  theorem readsArgs : ∀ (args : List PyExpr), parenOKList 1 args = true → ∀ (rest : List Tok) (n : Nat),
      20 * (printArgs args).length ≤ n → pArgs n (printArgs args ++ rest) = .ok (stripList args) rest
    | [], _, rest, n, hn => by
      simp only [printArgs, List.length_cons, List.length_nil] at hn
      obtain ⟨n', rfl⟩ : ∃ n', n = n' + 1 := ⟨n - 1, by omega⟩
      simp [printArgs, pArgs, stripList]
    | e :: es, h, rest, n, hn => by
      simp only [parenOKList, Bool.and_eq_true, decide_eq_true_eq] at h
      have ge := reads_print e h.1.2
      have hpos := print_pos e h.1.2
      obtain ⟨t, ts, hp, st⟩ := head_print e h.1.2
      simp only [printArgs, List.length_append, List.append_assoc] at hn ⊢
      obtain ⟨n', rfl⟩ : ∃ n', n = n' + 1 := ⟨n - 1, by omega⟩
      have := readsArgs1 es h.2 e h.1.2 ge rest n' (by omega)
      rw [hp] at this ⊢
      rw [List.cons_append, pArgs_nonrpar _ _ st.st, ← List.cons_append, this]
      simp [stripList]
  theorem readsArgs1 : ∀ (es : List PyExpr), parenOKList 1 es = true → ∀ (e : PyExpr), parenOK e = true → Reads e →
      ∀ (rest : List Tok) (n : Nat), 20 * ((print e).length + (printArgsTail es).length) ≤ n + 1 →
      pArgs1 n (print e ++ (printArgsTail es ++ rest)) = .ok (strip e :: stripList es) rest
    | [], _, e, he, ge, rest, n, hn => by
      have hpos := print_pos e he
      simp only [printArgsTail, List.length_cons, List.length_nil, List.cons_append, List.nil_append] at hn ⊢
      obtain ⟨n', rfl⟩ : ∃ n', n = n' + 1 := ⟨n - 1, by omega⟩
      simp only [pArgs1, ge.p1 (.rpar :: rest) n' rfl (by omega), PR.bind_ok, stripList]
    | w :: ws, h, e, he, ge, rest, n, hn => by
      have hpos := print_pos e he
      simp only [parenOKList, Bool.and_eq_true, decide_eq_true_eq] at h
      have gw := reads_print w h.1.2
      simp only [printArgsTail, List.length_cons, List.length_append, List.cons_append, List.append_assoc] at hn ⊢
      obtain ⟨n', rfl⟩ : ∃ n', n = n' + 1 := ⟨n - 1, by omega⟩
      have ih := readsArgs1 ws h.2 w h.1.2 gw rest n' (by omega)
      have h1 := ge.p1 (.comma :: (print w ++ (printArgsTail ws ++ rest))) n' rfl (by omega)
      obtain ⟨t, ts, hp, st⟩ := head_print w h.1.2
      rw [hp, List.cons_append] at h1 ih
      rw [hp, List.cons_append, pArgs1_comma _ _ st.st h1, ih]
      simp [stripList]
  theorem readsParts : ∀ (ps : List PyPart), parenOKParts ps = true → ∀ (rest : List Tok) (n : Nat),
      20 * (printParts ps).length ≤ n → pParts n (printParts ps ++ rest) = .ok (stripParts ps) rest
    | [], _, rest, n, hn => by
      simp only [printParts, List.length_cons, List.length_nil] at hn
      obtain ⟨n', rfl⟩ : ∃ n', n = n' + 1 := ⟨n - 1, by omega⟩
      simp [printParts, pParts, stripParts]
    | .lit s :: ps, h, rest, n, hn => by
      simp only [parenOKParts] at h
      simp only [printParts, List.length_cons, List.cons_append] at hn ⊢
      obtain ⟨n', rfl⟩ : ∃ n', n = n' + 1 := ⟨n - 1, by omega⟩
      simp only [pParts, readsParts ps h rest n' (by omega), PR.bind_ok, stripParts]
    | .fv e :: ps, h, rest, n, hn => by
      simp only [parenOKParts, Bool.and_eq_true] at h
      have ge := reads_print e h.1
      simp only [printParts, List.length_cons, List.length_append, List.cons_append, List.append_assoc] at hn ⊢
      obtain ⟨n', rfl⟩ : ∃ n', n = n' + 1 := ⟨n - 1, by omega⟩
      simp only [pParts, ge.p1 (.rbrace :: (printParts ps ++ rest)) n' rfl (by omega), PR.bind_ok,
        readsParts ps h.2 rest n' (by omega), stripParts]
  theorem readsIter : ∀ (it : PyIter), parenOKIter it = true → ∀ (rest : List Tok) (n : Nat), stops 1 rest = true →
      20 * (printIter it).length + 1 ≤ n → pIter n (printIter it ++ rest) = .ok (stripIter it) rest
    | .each e, h, rest, n, hs, hn => by
      simp only [parenOKIter] at h
      have ge := reads_print e h
      have hpos := print_pos e h
      obtain ⟨t, ts, hp, st⟩ := head_print e h
      simp only [printIter] at hn ⊢
      obtain ⟨n', rfl⟩ : ∃ n', n = n' + 1 := ⟨n - 1, by omega⟩
      have := ge.p1 rest n' hs (by omega)
      rw [hp] at this ⊢
      rw [List.cons_append, pIter_nonrange _ _ st.st, ← List.cons_append, this]
      simp [stripIter]
    | .range a b, h, rest, n, _, hn => by
      simp only [parenOKIter, Bool.and_eq_true] at h
      have ga := reads_print a h.1
      have gb := reads_print b h.2
      simp only [printIter, List.length_cons, List.length_append, List.length_nil, List.cons_append,
        List.append_assoc, List.nil_append] at hn ⊢
      obtain ⟨n', rfl⟩ : ∃ n', n = n' + 1 := ⟨n - 1, by omega⟩
      simp only [pIter, ga.p1 (.comma :: (print b ++ .rpar :: rest)) n' rfl (by omega), PR.bind_ok,
        gb.p1 (.rpar :: rest) n' rfl (by omega), stripIter]
end

/-- **Round trip.** The token sequence printed for an expression whose omitted parentheses are
justified (`parenOK`) is read by Python's grammar as that expression (parentheses leave no
node). -/
theorem parse_print (x : PyExpr) (h : parenOK x = true) : parse (print x) = .ok (strip x) [] := by
  have := (reads_print x h).p1 [] (20 * (print x).length) rfl (Nat.le_refl _)
  simp only [List.append_nil] at this
  simp only [parse, pExpr, this]

end AasVerif.PyEmit
