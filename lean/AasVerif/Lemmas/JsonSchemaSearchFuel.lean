import AasVerif.Lemmas.JsonSchemaSearchSem
/-!
The continuation-passing matcher of `Model/JsonSchemaMatch.lean`, part 2: the fuel `fuelFor r s`
which `searchB` (and so `validates` and the driver) supplies is ENOUGH — the answer is never `out`.

Fuel is spent per level of the tree (a continuation captures the fuel of the place where it was
built, not what is left when it is called) and per iteration of a quantifier; an iteration beyond
the minimum must consume input, so a quantifier runs at most `q.min + rest.length` iterations.
`needX L x` is an upper bound of the fuel node `x` needs on texts of length `≤ L`; it is linear in
the size of the tree times `L + 2`, which is what `fuelFor` provides.
-/
namespace AasVerif.JsonSchema
open AasVerif AasVerif.Retree

mutual
  def needValue (L : Nat) : Value → Nat
    | .group u => 1 + needUnion L u
    | _ => 1
  def needTerm (L : Nat) : Term → Nat
    | .mk v none => 1 + needValue L v
    | .mk v (some q) => q.min + L + 2 + needValue L v
  def needTerms (L : Nat) : List Term → Nat
    | [] => 1
    | t :: ts => 1 + needTerm L t + needTerms L ts
  def needConcats (L : Nat) : List Concat → Nat
    | [] => 1
    | .mk ts :: cs => 1 + needTerms L ts + needConcats L cs
  def needUnion (L : Nat) : Union → Nat
    | .mk us => 1 + needConcats L us
end

/-- the continuation never runs out of fuel on the texts it can be called with -/
def KOk (k : K) (bound : Nat) : Prop := ∀ p r, r.length ≤ bound → k p r ≠ .out

theorem KOk.mono {k : K} {a b : Nat} (h : KOk k b) (hab : a ≤ b) : KOk k a :=
  fun p r hr => h p r (Nat.le_trans hr hab)

/-- what is known at fuel `n` (texts of length `≤ L`) -/
structure Fuel (L n : Nat) : Prop where
  oV : ∀ v pre rest k, needValue L v ≤ n → rest.length ≤ L → KOk k rest.length → mValue n v pre rest k ≠ .out
  oR : ∀ v mn mx pre rest k, mn + rest.length + 1 + needValue L v ≤ n → rest.length ≤ L → KOk k rest.length →
    mRep n v mn mx pre rest k ≠ .out
  oT : ∀ t pre rest k, needTerm L t ≤ n → rest.length ≤ L → KOk k rest.length → mTerm n t pre rest k ≠ .out
  oTs : ∀ ts pre rest k, needTerms L ts ≤ n → rest.length ≤ L → KOk k rest.length → mTerms n ts pre rest k ≠ .out
  oA : ∀ cs pre rest k, needConcats L cs ≤ n → rest.length ≤ L → KOk k rest.length → mAlts n cs pre rest k ≠ .out
  oU : ∀ u pre rest k, needUnion L u ≤ n → rest.length ≤ L → KOk k rest.length → mUnion n u pre rest k ≠ .out

theorem needValue_pos (L : Nat) (v : Value) : 1 ≤ needValue L v := by
  cases v <;> simp [needValue]

theorem needTerm_pos (L : Nat) (t : Term) : 1 ≤ needTerm L t := by
  obtain ⟨v, q⟩ := t
  cases q <;> simp only [needTerm] <;> omega

theorem needTerms_pos (L : Nat) (ts : List Term) : 1 ≤ needTerms L ts := by
  cases ts <;> simp only [needTerms] <;> omega

theorem needConcats_pos (L : Nat) (cs : List Concat) : 1 ≤ needConcats L cs := by
  cases cs with
  | nil => simp [needConcats]
  | cons c cs => obtain ⟨ts⟩ := c; simp only [needConcats]; omega

theorem needUnion_pos (L : Nat) (u : Union) : 1 ≤ needUnion L u := by
  obtain ⟨us⟩ := u; simp only [needUnion]; omega

theorem fuel_zero (L : Nat) : Fuel L 0 := by
  constructor
  · intro v _ _ _ h; have := needValue_pos L v; omega
  · intro v mn _ _ rest _ h; omega
  · intro t _ _ _ h; have := needTerm_pos L t; omega
  · intro ts _ _ _ h; have := needTerms_pos L ts; omega
  · intro cs _ _ _ h; have := needConcats_pos L cs; omega
  · intro u _ _ _ h; have := needUnion_pos L u; omega

theorem oV_step {L n : Nat} (ih : Fuel L n) (v : Value) (pre rest : Text) (k : K)
    (hn : needValue L v ≤ n + 1) (hL : rest.length ≤ L) (hk : KOk k rest.length) :
    mValue (n + 1) v pre rest k ≠ .out := by
  cases v with
  | group u =>
    simp only [needValue] at hn
    simp only [mValue]
    exact ih.oU u pre rest k (by omega) hL hk
  | char c =>
    simp only [mValue]
    cases rest with
    | nil => simp
    | cons x r =>
      simp only
      split
      · exact hk _ r (by simp)
      · simp
  | set compl rs =>
    simp only [mValue]
    cases rest with
    | nil => simp
    | cons x r =>
      simp only
      split
      · exact hk _ r (by simp)
      · simp
  | fv i => simp [mValue]
  | sym sk =>
    cases sk with
    | dot =>
      simp only [mValue]
      cases rest with
      | nil => simp
      | cons x r =>
        simp only
        split
        · exact hk _ r (by simp)
        · simp
    | start =>
      simp only [mValue]
      split
      · exact hk _ rest (Nat.le_refl _)
      · simp
    | stop =>
      simp only [mValue]
      split
      · exact hk _ rest (Nat.le_refl _)
      · simp

theorem oR_step {L n : Nat} (ih : Fuel L n) (v : Value) (mn : Nat) (mx : Option Nat) (pre rest : Text) (k : K)
    (hn : mn + rest.length + 1 + needValue L v ≤ n + 1) (hL : rest.length ≤ L) (hk : KOk k rest.length) :
    mRep (n + 1) v mn mx pre rest k ≠ .out := by
  simp only [mRep]
  apply orElse_ne_out
  · split
    · simp
    · apply ih.oV v pre rest _ (by omega) hL
      intro p r hr
      show (if mn = 0 ∧ r.length = rest.length then R.no else mRep n v (mn - 1) (decMax mx) p r k) ≠ .out
      split
      · simp
      · next hc =>
        apply ih.oR v _ _ p r k _ (by omega) (hk.mono hr)
        by_cases hmn : mn = 0
        · have : r.length ≠ rest.length := fun h => hc ⟨hmn, h⟩
          omega
        · omega
  · split
    · exact hk _ rest (Nat.le_refl _)
    · simp

theorem oT_step {L n : Nat} (ih : Fuel L n) (t : Term) (pre rest : Text) (k : K)
    (hn : needTerm L t ≤ n + 1) (hL : rest.length ≤ L) (hk : KOk k rest.length) :
    mTerm (n + 1) t pre rest k ≠ .out := by
  obtain ⟨v, q⟩ := t
  cases q with
  | none =>
    simp only [needTerm] at hn
    simp only [mTerm]
    exact ih.oV v pre rest k (by omega) hL hk
  | some q =>
    simp only [needTerm] at hn
    simp only [mTerm]
    exact ih.oR v _ _ pre rest k (by omega) hL hk

theorem oTs_step {L n : Nat} (ih : Fuel L n) (ts : List Term) (pre rest : Text) (k : K)
    (hn : needTerms L ts ≤ n + 1) (hL : rest.length ≤ L) (hk : KOk k rest.length) :
    mTerms (n + 1) ts pre rest k ≠ .out := by
  cases ts with
  | nil =>
    simp only [mTerms]
    exact hk _ rest (Nat.le_refl _)
  | cons t ts =>
    simp only [needTerms] at hn
    simp only [mTerms]
    apply ih.oT t pre rest _ (by omega) hL
    intro p r hr
    exact ih.oTs ts p r k (by omega) (by omega) (hk.mono hr)

theorem oA_step {L n : Nat} (ih : Fuel L n) (cs : List Concat) (pre rest : Text) (k : K)
    (hn : needConcats L cs ≤ n + 1) (hL : rest.length ≤ L) (hk : KOk k rest.length) :
    mAlts (n + 1) cs pre rest k ≠ .out := by
  cases cs with
  | nil => simp [mAlts]
  | cons c cs =>
    obtain ⟨ts⟩ := c
    simp only [needConcats] at hn
    simp only [mAlts]
    apply orElse_ne_out
    · exact ih.oTs ts pre rest k (by omega) hL hk
    · exact ih.oA cs pre rest k (by omega) hL hk

theorem oU_step {L n : Nat} (ih : Fuel L n) (u : Union) (pre rest : Text) (k : K)
    (hn : needUnion L u ≤ n + 1) (hL : rest.length ≤ L) (hk : KOk k rest.length) :
    mUnion (n + 1) u pre rest k ≠ .out := by
  obtain ⟨us⟩ := u
  simp only [needUnion] at hn
  simp only [mUnion]
  exact ih.oA us pre rest k (by omega) hL hk

/-- **With `needX` fuel no function answers `out`.** -/
theorem fuel_all (L : Nat) : ∀ n, Fuel L n
  | 0 => fuel_zero L
  | n + 1 =>
    have ih := fuel_all L n
    ⟨oV_step ih, oR_step ih, oT_step ih, oTs_step ih, oA_step ih, oU_step ih⟩

/-! ### `fuelFor` is at least the need -/

mutual
  theorem needValue_le (K : Nat) (hK : 2 ≤ K) : (v : Value) → needValue (K - 2) v + 1 ≤ sizeValue v * K
    | .group u => by
      have := needUnion_le K hK u
      simp only [needValue, sizeValue, Nat.add_mul, Nat.one_mul]
      omega
    | .char _ => by simp only [needValue, sizeValue]; omega
    | .set _ _ => by simp only [needValue, sizeValue]; omega
    | .fv _ => by simp only [needValue, sizeValue]; omega
    | .sym _ => by simp only [needValue, sizeValue]; omega
  theorem needTerms_le (K : Nat) (hK : 2 ≤ K) : (ts : List Term) → needTerms (K - 2) ts + 1 ≤ sizeTerms ts * K
    | [] => by simp only [needTerms, sizeTerms]; omega
    | .mk v none :: ts => by
      have h1 := needValue_le K hK v
      have h2 := needTerms_le K hK ts
      simp only [needTerms, needTerm, sizeTerms, sizeTerm, Nat.add_mul, Nat.one_mul]
      omega
    | .mk v (some q) :: ts => by
      have h1 := needValue_le K hK v
      have h2 := needTerms_le K hK ts
      have h3 : q.min ≤ q.min * K := Nat.le_mul_of_pos_right _ (by omega)
      simp only [needTerms, needTerm, sizeTerms, sizeTerm, Nat.add_mul]
      omega
  theorem needConcats_le (K : Nat) (hK : 2 ≤ K) : (cs : List Concat) → needConcats (K - 2) cs + 1 ≤ sizeConcats cs * K
    | [] => by simp only [needConcats, sizeConcats]; omega
    | .mk ts :: cs => by
      have h1 := needTerms_le K hK ts
      have h2 := needConcats_le K hK cs
      simp only [needConcats, sizeConcats, Nat.add_mul, Nat.one_mul]
      omega
  theorem needUnion_le (K : Nat) (hK : 2 ≤ K) : (u : Union) → needUnion (K - 2) u + 1 ≤ sizeUnion u * K
    | .mk us => by
      have := needConcats_le K hK us
      simp only [needUnion, sizeUnion, Nat.add_mul, Nat.one_mul]
      omega
end

theorem need_le_fuelFor (r : Regex) (s : Text) : needUnion s.length r ≤ fuelFor r s := by
  have h := needUnion_le (s.length + 2) (by omega) r
  simp only [Nat.add_sub_cancel] at h
  unfold fuelFor
  have h2 : sizeUnion r * (s.length + 2) ≤ 6 * (sizeUnion r + 1) * (s.length + 2) := by
    apply Nat.mul_le_mul_right
    omega
  omega

end AasVerif.JsonSchema
