import AasVerif.Lemmas.HierSpec
/-!
What an accepted run of `translate` returns: the named components evaluated at `topo cs`.
-/
namespace AasVerif.Hier

/-- the record `translate` builds for one class -/
def classOut (cs : List ParsedClass) (c : ParsedClass) : ClassOut :=
  { name := c.name
    ancestors := ancestorsOf cs (topo cs) c.name
    descendants := descendantsOf cs (topo cs) c.name
    concreteDescendants := concreteDescendantsOf cs (topo cs) c.name
    props := propsOf cs (topo cs) c.name
    invs := invsOf cs (topo cs) c.name
    methods := methodsOf cs (topo cs) c.name
    inlined := inlineAll cs c.name
    hasInterface := hasInterfaceOf cs (topo cs) c
    withModelType := wmtOf cs (topo cs) c.name }

/-- the checks an accepted hierarchy has passed -/
structure Accepted (cs : List ParsedClass) : Prop where
  parentsExist : ParentsExist cs
  noCycle : (topoState cs).cycle = none
  serOk : (stackSer (parentsOf cs) (ownWmt cs) (topo cs)).2 = false
  methodsOk : (stackMethods (parentsOf cs) (ownItems cs (·.ownMethods)) (topo cs)).2 = false
  constructionOk : constructionErrors cs = false
  propNamesNodup : ∀ c ∈ topo cs, ((propsOf cs (topo cs) c).map (·.2)).Nodup
  initialized : ∀ c ∈ cs, uninitialized (propsOf cs (topo cs) c.name) (inlineAll cs c.name) = false
  argsMatch : ∀ c ∈ cs, c.args = (propsOf cs (topo cs) c.name).map (·.2)
  invDescriptionsNodup : ∀ c ∈ cs, ((invsOf cs (topo cs) c.name).map (·.2)).Nodup

/-- `translate` after the topological sort, with the shared intermediate results written out
through the named components -/
def translateTail (cs : List ParsedClass) : Res :=
  if (firstNotTopo (parentsOf cs) [] (topo cs)).isSome then .crash "ViolationError" else
  if decide (¬ (topo cs).Nodup) then .crash "ViolationError" else
  if ontologyErrors cs (ontAnc (parentsOf cs) (topo cs)) then .err "ontology" else
  if constructionErrors cs then .err "construction" else
  if (firstNameClash (topo cs) (propsOf cs (topo cs))).isSome then .crash "ViolationError" else
  if (stackSer (parentsOf cs) (ownWmt cs) (topo cs)).2
      || (stackMethods (parentsOf cs) (ownItems cs (·.ownMethods)) (topo cs)).2 then .err "translate" else
  if cs.any (fun c => uninitialized (propsOf cs (topo cs) c.name) (inlineAll cs c.name)) then .err "translate" else
  if cs.any (fun c => c.args != (propsOf cs (topo cs) c.name).map (·.2)) then .err "translate" else
  if cs.any (fun c => decide (¬ ((invsOf cs (topo cs) c.name).map (·.2)).Nodup)) then .err "translate" else
  .ok { topo := topo cs, classes := cs.map (classOut cs) }

def translateSpec (cs : List ParsedClass) : Res :=
  if !parentsExist cs then .crash "KeyError" else
  if (topoState cs).outOfFuel then .crash "RecursionError" else
  match (topoState cs).cycle with
  | some c => .cycle c
  | none => translateTail cs

theorem translate_eq_spec (cs : List ParsedClass) : translate cs = translateSpec cs := rfl

theorem translateTail_ok {cs : List ParsedClass} {o : Out} (h : translateTail cs = .ok o) :
    o = { topo := topo cs, classes := cs.map (classOut cs) }
    ∧ (stackSer (parentsOf cs) (ownWmt cs) (topo cs)).2 = false
    ∧ (stackMethods (parentsOf cs) (ownItems cs (·.ownMethods)) (topo cs)).2 = false
    ∧ constructionErrors cs = false
    ∧ (firstNameClash (topo cs) (propsOf cs (topo cs))).isSome = false
    ∧ cs.any (fun c => uninitialized (propsOf cs (topo cs) c.name) (inlineAll cs c.name)) = false
    ∧ cs.any (fun c => c.args != (propsOf cs (topo cs) c.name).map (·.2)) = false
    ∧ cs.any (fun c => decide (¬ ((invsOf cs (topo cs) c.name).map (·.2)).Nodup)) = false := by
  unfold translateTail at h
  by_cases h1 : (firstNotTopo (parentsOf cs) [] (topo cs)).isSome = true
  · rw [if_pos h1] at h; cases h
  rw [if_neg h1] at h
  by_cases h2 : decide (¬ (topo cs).Nodup) = true
  · rw [if_pos h2] at h; cases h
  rw [if_neg h2] at h
  by_cases h3 : ontologyErrors cs (ontAnc (parentsOf cs) (topo cs)) = true
  · rw [if_pos h3] at h; cases h
  rw [if_neg h3] at h
  by_cases h4 : constructionErrors cs = true
  · rw [if_pos h4] at h; cases h
  rw [if_neg h4] at h
  by_cases h5 : (firstNameClash (topo cs) (propsOf cs (topo cs))).isSome = true
  · rw [if_pos h5] at h; cases h
  rw [if_neg h5] at h
  by_cases h6 : ((stackSer (parentsOf cs) (ownWmt cs) (topo cs)).2
      || (stackMethods (parentsOf cs) (ownItems cs (·.ownMethods)) (topo cs)).2) = true
  · rw [if_pos h6] at h; cases h
  rw [if_neg h6] at h
  by_cases h7 : cs.any (fun c => uninitialized (propsOf cs (topo cs) c.name) (inlineAll cs c.name)) = true
  · rw [if_pos h7] at h; cases h
  rw [if_neg h7] at h
  by_cases h8 : cs.any (fun c => c.args != (propsOf cs (topo cs) c.name).map (·.2)) = true
  · rw [if_pos h8] at h; cases h
  rw [if_neg h8] at h
  by_cases h9 : cs.any (fun c => decide (¬ ((invsOf cs (topo cs) c.name).map (·.2)).Nodup)) = true
  · rw [if_pos h9] at h; cases h
  rw [if_neg h9] at h
  injection h with h
  simp only [Bool.or_eq_true, not_or, Bool.not_eq_true] at h6
  exact ⟨h.symm, h6.1, h6.2, by simpa using h4, by simpa using h5, by simpa using h7, by simpa using h8, by simpa using h9⟩

theorem translate_ok {cs : List ParsedClass} {o : Out} (h : translate cs = .ok o) :
    o = { topo := topo cs, classes := cs.map (classOut cs) } ∧ Accepted cs := by
  rw [translate_eq_spec] at h
  unfold translateSpec at h
  by_cases h1 : (!parentsExist cs) = true
  · rw [if_pos h1] at h; cases h
  rw [if_neg h1] at h
  by_cases h2 : (topoState cs).outOfFuel = true
  · rw [if_pos h2] at h; cases h
  rw [if_neg h2] at h
  cases hc : (topoState cs).cycle with
  | some c => rw [hc] at h; cases h
  | none =>
    rw [hc] at h
    obtain ⟨ho, hser, hm, hcon, hclash, hun, hargs, hinv⟩ := translateTail_ok h
    refine ⟨ho, ⟨by simpa [ParentsExist] using h1, hc, hser, hm, hcon, ?_, ?_, ?_, ?_⟩⟩
    · intro c hc'
      simp only [firstNameClash, Option.isSome_eq_false_iff, Option.isNone_iff_eq_none,
        List.find?_eq_none, decide_eq_true_eq, Decidable.not_not] at hclash
      exact hclash c hc'
    · intro c hc'
      have := (List.any_eq_false.mp hun) c hc'
      simpa using this
    · intro c hc'
      have := (List.any_eq_false.mp hargs) c hc'
      simpa using this
    · intro c hc'
      have := (List.any_eq_false.mp hinv) c hc'
      simpa using this

end AasVerif.Hier
