import AasVerif.Model.SdkXml
import AasVerif.Lemmas.SdkTotal
/-! `fromXml` never ends in `crash` (element trees, any shape). -/
namespace AasVerif.Sdk

def modeKnown (mm : MM) : XMode → Bool
  | .prop t => tyKnown mm t
  | .item t => t.atomic && tyKnown mm t
  | .asElement c => (mm.findClass c).isSome

theorem xReadText_cases (e : Elem) : (∃ t, xReadText e = .ok t) ∨ (∃ x, xReadText e = .err x) := by
  unfold xReadText
  split
  · exact Or.inr ⟨_, rfl⟩
  · split
    · exact Or.inr ⟨_, rfl⟩
    · split
      · exact Or.inr ⟨_, rfl⟩
      · exact Or.inl ⟨_, rfl⟩

theorem xReadStr_cases (e : Elem) : (∃ t, xReadStr e = .ok t) ∨ (∃ x, xReadStr e = .err x) := by
  unfold xReadStr
  split
  · exact Or.inr ⟨_, rfl⟩
  · exact Or.inl ⟨_, rfl⟩

theorem xReadPrim_total (py : PyOracle) (p : Prim) (e : Elem) (exc : String) :
    xReadPrim py p e ≠ .crash exc := by
  unfold xReadPrim
  cases p with
  | bool =>
    rcases xReadText_cases e with ⟨t, h⟩ | ⟨x, h⟩ <;> simp only [h]
    · split
      · intro c; cases c
      · split <;> (intro c; cases c)
    · intro c; cases c
  | int =>
    rcases xReadText_cases e with ⟨t, h⟩ | ⟨x, h⟩ <;> simp only [h]
    · cases py.int t <;> (intro c; cases c)
    · intro c; cases c
  | float =>
    rcases xReadText_cases e with ⟨t, h⟩ | ⟨x, h⟩ <;> simp only [h]
    · split
      · intro c; cases c
      · split
        · intro c; cases c
        · split
          · intro c; cases c
          · cases py.float t <;> (intro c; cases c)
    · intro c; cases c
  | str =>
    rcases xReadStr_cases e with ⟨t, h⟩ | ⟨x, h⟩ <;> simp only [h] <;> (intro c; cases c)
  | bytes =>
    rcases xReadStr_cases e with ⟨t, h⟩ | ⟨x, h⟩ <;> simp only [h]
    · cases Base64.decode t <;> (intro c; cases c)
    · intro c; cases c

theorem xReadEnum_total {mm : MM} {en : Name} (h : (mm.findEnum en).isSome = true) (e : Elem)
    (exc : String) : xReadEnum mm en e ≠ .crash exc := by
  unfold xReadEnum
  cases hf : mm.findEnum en with
  | none => rw [hf] at h; cases h
  | some ed =>
    simp only
    rcases xReadStr_cases e with ⟨t, h⟩ | ⟨x, h⟩ <;> simp only [h]
    · cases lookupLast (ed.literals.map (fun p => (p.2, p.1))) t <;> (intro c; cases c)
    · intro c; cases c

/-- what a plan can be under `wf` -/
inductive PlanOk (mm : MM) : XPlan → Prop
  | err (x : String) : PlanOk mm (.fail (.err x))
  | done (v : Val) : PlanOk mm (.done v)
  | seq (cd : ClassDecl) (h : cd ∈ mm.classes) : PlanOk mm (.seq cd)
  | discr (c : Name) (h : (mm.findClass c).isSome = true) : PlanOk mm (.discr c)
  | items (t : Ty) (ha : t.atomic = true) (hk : tyKnown mm t = true) : PlanOk mm (.items t)

theorem resToPlan_ok (mm : MM) (r : Res Val) (h : ∀ exc, r ≠ .crash exc) : PlanOk mm (resToPlan r) := by
  cases r with
  | ok v => exact .done v
  | err x => exact .err x
  | crash x => exact absurd rfl (h x)

theorem seqPlan_ok {mm : MM} {cd : ClassDecl} (hcd : cd ∈ mm.classes) (hna : cd.abstract = false)
    (e : Elem) : PlanOk mm (seqPlan cd e) := by
  unfold seqPlan
  simp only [hna, Bool.false_eq_true, if_false]
  split
  · exact .err _
  · split
    · exact .err _
    · exact .seq cd hcd

theorem asElementPlan_ok {mm : MM} (hwf : mm.wf = true) (ns : Text) {c : Name}
    (h : (mm.findClass c).isSome = true) (e : Elem) : PlanOk mm (asElementPlan mm ns c e) := by
  unfold asElementPlan
  cases hc : mm.findClass c with
  | none => rw [hc] at h; cases h
  | some cd =>
    have hcd := findClass_some hc
    have hok := okIn_parts ((wf_parts hwf).2.2.1 cd hcd.1)
    simp only
    cases tagIn ns e with
    | none => exact .err _
    | some tag =>
      simp only
      by_cases hempty : cd.concreteDescendants.isEmpty = true
      · rw [if_pos hempty]
        have hna : cd.abstract = false := by
          cases ha : cd.abstract with
          | false => rfl
          | true => exact absurd (by simpa using hempty) (hok.2.2.2.2.2.2 ha)
        split
        · exact seqPlan_ok hcd.1 hna e
        · exact .err _
      · rw [if_neg hempty]
        cases hl : lookupLast (xDispatchEntries cd) tag with
        | none => exact .err _
        | some d =>
          simp only
          have hmem := lookupLast_some_mem _ _ _ hl
          unfold xDispatchEntries at hmem
          rcases List.mem_append.mp hmem with hm | hm
          · by_cases ha : cd.abstract = true
            · simp [ha] at hm
            · simp only [ha, Bool.false_eq_true, if_false, List.mem_singleton, Prod.mk.injEq] at hm
              rw [hm.2, findClass_of_mem hwf hcd.1]
              exact seqPlan_ok hcd.1 (by simpa using ha) e
          · obtain ⟨x, hx, he⟩ := List.mem_map.mp hm
            simp only [Prod.mk.injEq] at he
            obtain ⟨xd, hfx, hxa⟩ := hok.2.2.2.2.2.1 x hx
            rw [← he.2, hfx]
            exact seqPlan_ok (findClass_some hfx).1 hxa e

theorem xPlan_ok {mm : MM} (hwf : mm.wf = true) (ns : Text) (py : PyOracle) (mode : XMode)
    (hm : modeKnown mm mode = true) (e : Elem) : PlanOk mm (xPlan mm ns py mode e) := by
  cases mode with
  | asElement c => exact asElementPlan_ok hwf ns hm e
  | item t =>
    simp only [modeKnown, Bool.and_eq_true] at hm
    cases t with
    | prim p => exact resToPlan_ok mm _ (xReadPrim_total py p e)
    | enum en => exact resToPlan_ok mm _ (xReadEnum_total (by simpa [tyKnown] using hm.2) e)
    | cls c => exact asElementPlan_ok hwf ns (by simpa [tyKnown] using hm.2) e
    | list t => simp [Ty.atomic] at hm
    | opt t => simp [Ty.atomic] at hm
  | prop t =>
    simp only [modeKnown] at hm
    cases t with
    | prim p => exact resToPlan_ok mm _ (xReadPrim_total py p e)
    | enum en => exact resToPlan_ok mm _ (xReadEnum_total (by simpa [tyKnown] using hm) e)
    | cls c =>
      simp only [xPlan]
      cases hc : mm.findClass c with
      | none => simp [tyKnown, hc] at hm
      | some cd =>
        have hcd := findClass_some hc
        have hok := okIn_parts ((wf_parts hwf).2.2.1 cd hcd.1)
        simp only
        by_cases hempty : cd.concreteDescendants.isEmpty = true
        · rw [if_pos hempty]
          have hna : cd.abstract = false := by
            cases ha : cd.abstract with
            | false => rfl
            | true => exact absurd (by simpa using hempty) (hok.2.2.2.2.2.2 ha)
          exact seqPlan_ok hcd.1 hna e
        · rw [if_neg hempty]
          exact .discr c (by simp [hc])
    | list t =>
      have hit := tyKnown_list_item hm
      simp only [xPlan]
      split
      · exact .err _
      · exact .items t hit.1 hit.2
    | opt t => simp [tyKnown] at hm

mutual
  theorem xRead_total (mm : MM) (hwf : mm.wf = true) (ns : Text) (py : PyOracle) :
      ∀ (e : Elem) (mode : XMode), modeKnown mm mode = true → ∀ exc,
        xRead mm ns py mode e ≠ .crash exc
    | .mk ens name attrs text tail children, mode, hm, exc => by
      have hp := xPlan_ok hwf ns py mode hm (.mk ens name attrs text tail children)
      rw [xRead]
      cases hp' : xPlan mm ns py mode (.mk ens name attrs text tail children) with
      | fail r =>
        rw [hp'] at hp
        cases hp
        intro c; cases c
      | done v => intro c; cases c
      | seq cd =>
        rw [hp'] at hp
        cases hp with
        | seq _ hcd =>
          simp only
          have hl := xReadChildren_total mm hwf ns py children cd.props [] (props_known hwf hcd)
          cases hr : xReadChildren mm ns py cd.props children [] with
          | ok st =>
            simp only
            cases ha : assemble cd.props st with
            | ok vs => intro c; cases c
            | err x => intro c; cases c
            | crash x => exact absurd ha (assemble_total _ _ x)
          | err x => intro c; cases c
          | crash x => exact absurd hr (hl x)
      | discr c =>
        rw [hp'] at hp
        cases hp with
        | discr _ hc =>
          simp only
          cases children with
          | nil => intro c; cases c
          | cons g gs =>
            cases gs with
            | nil => exact xRead_total mm hwf ns py g (.asElement c) (by simpa [modeKnown] using hc) exc
            | cons g2 gs2 => intro c; cases c
      | items t =>
        rw [hp'] at hp
        cases hp with
        | items _ ha hk =>
          simp only
          have hl := xReadItems_total mm hwf ns py children t ha hk
          cases hr : xReadItems mm ns py t children with
          | ok vs => intro c; cases c
          | err x => intro c; cases c
          | crash x => exact absurd hr (hl x)
  theorem xReadItems_total (mm : MM) (hwf : mm.wf = true) (ns : Text) (py : PyOracle) :
      ∀ (es : Elems) (t : Ty), t.atomic = true → tyKnown mm t = true → ∀ exc,
        xReadItems mm ns py t es ≠ .crash exc
    | .nil, _, _, _, _ => by simp [xReadItems]
    | .cons g gs, t, ha, hk, exc => by
      have h1 := xRead_total mm hwf ns py g (.item t) (by simp [modeKnown, ha, hk])
      have h2 := xReadItems_total mm hwf ns py gs t ha hk
      simp only [xReadItems]
      cases hr1 : xRead mm ns py (.item t) g with
      | ok v =>
        simp only
        cases hr2 : xReadItems mm ns py t gs with
        | ok vs => intro c; cases c
        | err x => intro c; cases c
        | crash x => exact absurd hr2 (h2 x)
      | err x => intro c; cases c
      | crash x => exact absurd hr1 (h1 x)
  theorem xReadChildren_total (mm : MM) (hwf : mm.wf = true) (ns : Text) (py : PyOracle) :
      ∀ (es : Elems) (props : List PropDecl) (st : State),
        (∀ p ∈ props, tyKnown mm p.ty.beneathOpt = true) → ∀ exc,
        xReadChildren mm ns py props es st ≠ .crash exc
    | .nil, _, _, _, _ => by simp [xReadChildren]
    | .cons g gs, props, st, hp, exc => by
      simp only [xReadChildren]
      cases tagIn ns g with
      | none => intro c; cases c
      | some tag =>
        simp only
        cases hs : xSetterFor props tag with
        | unknown => intro c; cases c
        | prop p =>
          simp only
          have hpm : p ∈ props := by
            unfold xSetterFor at hs
            cases hl : lookupLast (props.map (fun p => (xmlProperty p.name, p))) tag with
            | none => rw [hl] at hs; cases hs
            | some q =>
              rw [hl] at hs
              simp only [XSetter.prop.injEq] at hs
              subst hs
              obtain ⟨r, hr, he⟩ := List.mem_map.mp (lookupLast_some_mem _ _ _ hl)
              simp only [Prod.mk.injEq] at he
              rw [← he.2]; exact hr
          have h1 := xRead_total mm hwf ns py g (.prop p.ty.beneathOpt)
            (by simpa [modeKnown] using hp p hpm)
          cases hr : xRead mm ns py (.prop p.ty.beneathOpt) g with
          | ok x => exact xReadChildren_total mm hwf ns py gs props _ hp exc
          | err x => intro c; cases c
          | crash x => exact absurd hr (h1 x)
end

end AasVerif.Sdk
