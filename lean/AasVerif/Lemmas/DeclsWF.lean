import AasVerif.Model.Expr.Conforms
/-!
The decidable well-formedness check of declarations (`Decls.wfb`, evaluated by the harness on
the declarations of every real symbol table) implies the hypothesis `Decls.WF` of the theorems.
-/
namespace AasVerif.Expr

theorem assoc_mem {α : Type} {k : Text} {v : α} : ∀ {l : List (Text × α)}, assoc k l = some v → (k, v) ∈ l
  | [], h => by simp [assoc] at h
  | (k', v') :: tl, h => by
    simp only [assoc] at h
    split at h
    · rename_i hk
      cases h
      subst hk
      exact List.mem_cons_self
    · exact List.mem_cons_of_mem _ (assoc_mem h)

theorem Decls.wfb_sound {D : Decls} (h : D.wfb = true) : D.WF := by
  unfold Decls.wfb at h
  rw [List.all_eq_true] at h
  refine ⟨?_, ?_, ?_⟩
  · intro c cd p τ hc hp
    have := h (c, .cls cd) (assoc_mem hc)
    simp only [Bool.and_eq_true, List.all_eq_true] at this
    exact this.1 (p, τ) (assoc_mem hp)
  · intro t cd c ht hc
    have := h (t, .cls cd) (assoc_mem ht)
    simp only [Bool.and_eq_true, List.all_eq_true] at this
    have hc' := this.2 c hc
    cases hf : D.findOur c with
    | none => simp [hf] at hc'
    | some d =>
      cases d with
      | cls cd' =>
        simp only [hf, List.all_eq_true] at hc'
        refine ⟨cd', rfl, ?_⟩
        intro p τ hp
        have := hc' (p, τ) (assoc_mem hp)
        simpa using this
      | enum ls => simp [hf] at hc'
      | cprim q k ds => simp [hf] at hc'
  · intro n q k ds hn
    have := h (n, .cprim q k ds) (assoc_mem hn)
    simpa using this

end AasVerif.Expr
