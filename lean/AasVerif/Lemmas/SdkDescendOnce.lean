import AasVerif.Lemmas.SdkDescendBasic
/-!
`descend_once`: the unrolled statements of a property, run on a conforming attribute value, yield
exactly the class instances directly inside the value.
-/
namespace AasVerif.SdkDescend
open AasVerif AasVerif.Sdk

/-- list-style induction over the `Vals` half of the mutual pair -/
theorem Vals.induction_on {P : Vals → Prop} (nil : P .nil)
    (cons : ∀ v vs, P vs → P (.cons v vs)) : ∀ vs, P vs := by
  intro vs
  induction vs using Vals.rec (motive_1 := fun _ => True) with
  | nil => exact nil
  | cons v vs _ ih => exact cons v vs ih
  | _ => trivial

/-- a conforming value of a non-descendable annotation contains no instance at all -/
theorem nothing_inside_of_not_descendable (mm : MM) :
    ∀ (t : Ty) (v : Val), descendable t = false → conformsNN mm t v = true →
      pre v = [] ∧ direct v = [] := by
  intro t
  induction t with
  | prim p => intro v _ h; cases v <;> cases p <;> simp_all [conformsNN, pre, direct]
  | enum e => intro v _ h; cases v <;> simp_all [conformsNN, pre, direct]
  | cls c => intro v hd; simp [descendable] at hd
  | opt t _ => intro v _ h; simp [conformsNN_not_opt] at h
  | list t ih =>
    intro v hd h
    simp only [descendable] at hd
    cases v with
    | list vs =>
      simp only [conformsNN] at h
      simp only [pre, direct]
      have : ∀ (ws : Vals), conformsAll mm t ws = true → preAll ws = [] ∧ directAll ws = [] := by
        intro ws
        induction ws using Vals.induction_on with
        | nil => intro _; simp [preAll, directAll]
        | cons w ws ihws =>
          intro hc
          simp only [conformsAll, Bool.and_eq_true] at hc
          simp [preAll, directAll, ih w hd hc.1, ihws hc.2]
      exact this vs h
    | _ => simp [conformsNN] at h

/-- the items of a conforming list of a class are the instances themselves -/
theorem directAll_of_cls (mm : MM) (c : Name) :
    ∀ vs : Vals, conformsAll mm (.cls c) vs = true → directAll vs = vs.toList := by
  intro vs
  induction vs using Vals.induction_on with
  | nil => intro _; simp [directAll, Vals.toList]
  | cons v vs ih =>
    intro h
    simp only [conformsAll, Bool.and_eq_true] at h
    cases v with
    | inst d fs => simp [directAll, direct, Vals.toList, ih h.2]
    | _ => simp [conformsNN] at h

/-- the `for` loop over conforming items, when the body computes `direct` on each -/
theorem forItems_direct (mm : MM) (t : Ty) (f : Val → Out)
    (hf : ∀ v, conformsNN mm t v = true → f v = .ok (direct v)) :
    ∀ vs : Vals, conformsAll mm t vs = true → forItems f vs.toList = .ok (directAll vs) := by
  intro vs
  induction vs using Vals.induction_on with
  | nil => intro _; simp [forItems, Vals.toList, directAll]
  | cons v vs ih =>
    intro h
    simp only [conformsAll, Bool.and_eq_true] at h
    simp [forItems, Vals.toList, directAll, hf v h.1, ih h.2, bind, Except.bind, pure, Except.pure]

/-- The statements `_DescendBodyUnroller(recurse=False)` writes for an annotation yield, on a conforming
value, exactly the directly nested instances (in list order); the call-back is never used. -/
theorem exec_once (mm : MM) (cb : Val → Out) :
    ∀ (t : Ty) (v : Val), conforms mm t v = true →
      execNodes cb (unroll false t) v = .ok (direct v) := by
  intro t
  induction t with
  | prim p =>
    intro v h
    have := (nothing_inside_of_not_descendable mm (.prim p) v rfl (by
      cases v <;> simp_all [conforms])).2
    simp [unroll, execNodes, this]
  | enum e =>
    intro v h
    have := (nothing_inside_of_not_descendable mm (.enum e) v rfl (by
      cases v <;> simp_all [conforms])).2
    simp [unroll, execNodes, this]
  | cls c =>
    intro v h
    cases v with
    | inst d fs => simp [unroll, execNodes, execNode, direct, bind, Except.bind, pure, Except.pure]
    | _ => simp [conforms, conformsNN] at h
  | list t ih =>
    intro v h
    cases v with
    | list vs =>
      have hall : conformsAll mm t vs = true := by simpa [conforms, conformsNN] using h
      simp only [unroll, direct]
      split
      · next hc =>
        simp only [Bool.not_false, Bool.true_and] at hc
        cases t with
        | cls c =>
          rw [execNodes_single]
          simp [execNode, directAll_of_cls mm c vs hall]
        | _ => simp [isCls] at hc
      · split
        · next he =>
          have hd : descendable t = false := by
            have := unroll_isEmpty false t
            rw [he] at this; simpa using this.symm
          have : directAll vs = [] := by
            have := (nothing_inside_of_not_descendable mm (.list t) (.list vs) (by simpa [descendable] using hd)
              (by simpa [conformsNN] using hall)).2
            simpa [direct] using this
          simp [execNodes, this]
        · rw [execNodes_single]
          simp only [execNode]
          exact forItems_direct mm t _ (fun v hv => ih v (conforms_of_conformsNN hv)) vs hall
    | _ => simp [conforms, conformsNN] at h
  | opt t ih =>
    intro v h
    simp only [unroll]
    by_cases hv : v = .none
    · subst hv
      split
      · simp [execNodes, direct]
      · rw [execNodes_single]; simp [execNode, direct]
    · have hc : conforms mm t v = true := by
        have := conformsNN_strip h hv
        simp only [strip] at this
        have h2 : conformsNN mm t v = true := by
          cases v <;> simp_all [conforms]
        exact conforms_of_conformsNN h2
      have := ih v hc
      split
      · next he =>
        have hnil : unroll false t = [] := by simpa using he
        rw [hnil] at this
        exact this
      · rw [execNodes_single]
        cases v with
        | none => exact absurd rfl hv
        | _ => simpa [execNode] using this

/-- all property blocks of a class on conforming attribute values -/
theorem execProps_once (mm : MM) (cb : Val → Out) :
    ∀ (fs : Vals) (ps : List PropDecl), conformsFields mm ps fs = true →
      execProps false cb ps fs = .ok (directAll fs) := by
  intro fs
  induction fs using Vals.induction_on with
  | nil =>
    intro ps h
    cases ps with
    | nil => simp [execProps, directAll]
    | cons p ps => simp [conformsFields] at h
  | cons f fs ih =>
    intro ps h
    cases ps with
    | nil => simp [conformsFields] at h
    | cons p ps =>
      simp only [conformsFields, Bool.and_eq_true] at h
      simp [execProps, propBlock_eq, exec_once mm cb p.ty f h.1, ih ps h.2, directAll,
        bind, Except.bind, pure, Except.pure]

end AasVerif.SdkDescend
