import AasVerif.Lemmas.JsonSchemaLeaf
/-!
Tightening steps (`tightening_steps_from_other_to_that_constraints`, length and patterns): what the
parent imposes (`other`) together with the steps the child adds (`tightening that other`) implies the
child's full constraint (`that`).  With it: the MERGED constraint of an inherited property is
enforced on the child's documents.
-/
namespace AasVerif.JsonSchema
open AasVerif AasVerif.Retree

theorem patsOK_of_parts {other rest that : List Text} (hsub : ∀ p ∈ that, p ∈ other ∨ p ∈ rest) (s : Text)
    (h1 : PatsOK (some other) s) (h2 : rest ≠ [] → PatsOK (some rest) s) : PatsOK (some that) s := by
  intro ps hps p hp
  cases hps
  rcases hsub p hp with h | h
  · exact h1 other rfl p h
  · exact h2 (by intro h0; rw [h0] at h; cases h) rest rfl p h

theorem tightenLen_sound {that other : Cons} {l : Option LenC} (h : tightenLen that other = .ok l)
    (f : Int → Int) (n : Nat) (h1 : LenIn other.len f n) (h2 : LenIn l f n) : LenIn that.len f n := by
  unfold tightenLen at h
  cases hol : other.len with
  | none => simp only [hol, Except.ok.injEq] at h; rw [h]; exact h2
  | some ol =>
    simp only [hol] at h
    cases htl : that.len with
    | none => simp [htl] at h
    | some tl =>
      simp only [htl, Except.ok.injEq] at h
      by_cases heq : tl = ol
      · subst heq; rw [hol] at h1; exact h1
      · rw [if_neg heq] at h; rw [h]; exact h2

theorem tightenPats_sound {that other : Cons} {ps : Option (List Text)} (h : tightenPats that other = .ok ps)
    (s : Text) (h1 : PatsOK other.pats s) (h2 : PatsOK ps s) : PatsOK that.pats s := by
  unfold tightenPats at h
  cases hop : other.pats with
  | none => simp only [hop, Except.ok.injEq] at h; rw [h]; exact h2
  | some ops =>
    simp only [hop] at h
    cases htp : that.pats with
    | none => simp [htp] at h
    | some tps =>
      simp only [htp] at h
      by_cases hall : (ops.all (tps.contains ·)) = true
      · rw [if_pos hall] at h
        simp only [Except.ok.injEq] at h
        rw [hop] at h1
        refine patsOK_of_parts (rest := tps.filter (fun p => !ops.contains p)) ?_ s h1 ?_
        · intro p hp
          by_cases hc : p ∈ ops
          · exact Or.inl hc
          · exact Or.inr (List.mem_filter.mpr ⟨hp, by simpa using hc⟩)
        · intro hne
          have : (tps.filter (fun p => !ops.contains p)).isEmpty = false := by
            cases hf : tps.filter (fun p => !ops.contains p) with
            | nil => exact absurd hf hne
            | cons a as => rfl
          rw [this] at h
          simp only [Bool.false_eq_true, if_false] at h
          rw [h]; exact h2
      · rw [if_neg hall] at h; cases h

/-- **soundness of the tightening steps**: parent's constraints ∧ steps ⇒ child's constraints -/
theorem tightening_sound {that other t : Cons} (h : tightening that (some other) = .ok t)
    (sh : Shape) (j : Json) (ho : TransSpec sh other j) (ht : TransSpec sh t j) : TransSpec sh that j := by
  simp only [tightening] at h
  cases hl : tightenLen that other with
  | error e => simp [hl] at h
  | ok l =>
    simp only [hl] at h
    cases hp : tightenPats that other with
    | error e => simp [hp] at h
    | ok ps =>
      simp only [hp, Except.ok.injEq] at h
      subst h
      cases sh with
      | prim p =>
        cases p <;> simp only [TransSpec] at * <;> try trivial
        · intro s hs
          exact ⟨tightenLen_sound hl id s.length (ho s hs).1 (ht s hs).1,
            tightenPats_sound hp s (ho s hs).2 (ht s hs).2⟩
        · intro s hs; exact tightenLen_sound hl base64Len s.length (ho s hs) (ht s hs)
      | list =>
        simp only [TransSpec] at *
        intro xs hxs; exact tightenLen_sound hl id xs.length (ho xs hxs) (ht xs hxs)
      | other => trivial

theorem tightenLen_cases {that other : Cons} {l : Option LenC} (h : tightenLen that other = .ok l) :
    l = none ∨ l = that.len := by
  unfold tightenLen at h
  cases hol : other.len with
  | none => simp only [hol, Except.ok.injEq] at h; exact Or.inr h.symm
  | some ol =>
    simp only [hol] at h
    cases htl : that.len with
    | none => simp [htl] at h
    | some tl =>
      simp only [htl, Except.ok.injEq] at h
      by_cases heq : tl = ol
      · rw [if_pos heq] at h; exact Or.inl h.symm
      · rw [if_neg heq] at h; exact Or.inr h.symm

theorem tightenPats_subset {that other : Cons} {ps : List Text} (h : tightenPats that other = .ok (some ps)) :
    ∃ tps, that.pats = some tps ∧ ∀ p ∈ ps, p ∈ tps := by
  unfold tightenPats at h
  cases hop : other.pats with
  | none => simp only [hop, Except.ok.injEq] at h; exact ⟨ps, h, fun p hp => hp⟩
  | some ops =>
    simp only [hop] at h
    cases htp : that.pats with
    | none => simp [htp] at h
    | some tps =>
      simp only [htp] at h
      by_cases hall : (ops.all (tps.contains ·)) = true
      · rw [if_pos hall] at h
        simp only [Except.ok.injEq] at h
        refine ⟨tps, rfl, ?_⟩
        split at h
        · cases h
        · simp only [Option.some.injEq] at h
          intro p hp
          rw [← h] at hp
          exact (List.mem_filter.mp hp).1
      · rw [if_neg hall] at h; cases h

/-- the steps from a single parent survive `_common_tightening_steps` with the complete constraints -/
theorem commonSteps_single {full other t : Cons} (h : tightening full (some other) = .ok t)
    (sh : Shape) (j : Json) (hc : TransSpec sh (commonSteps full t) j) : TransSpec sh t j := by
  simp only [tightening] at h
  cases hl : tightenLen full other with
  | error e => simp [hl] at h
  | ok l =>
    simp only [hl] at h
    cases hp : tightenPats full other with
    | error e => simp [hp] at h
    | ok ps =>
      simp only [hp, Except.ok.injEq] at h
      subst h
      have hlen : (commonSteps full ⟨l, ps⟩).len = l := by
        simp only [commonSteps]
        rcases tightenLen_cases hl with rfl | rfl
        · rfl
        · cases full.len <;> rfl
      have hpats : ∀ s, PatsOK (commonSteps full ⟨l, ps⟩).pats s → PatsOK ps s := by
        intro s hok
        cases ps with
        | none => intro qs hqs; cases hqs
        | some op =>
          obtain ⟨tps, htps, hsub⟩ := tightenPats_subset hp
          intro qs hqs p hpm
          cases hqs
          simp only [commonSteps, htps] at hok
          have hin : p ∈ tps.filter (op.contains ·) :=
            List.mem_filter.mpr ⟨hsub p hpm, by simpa using hpm⟩
          have hne : (tps.filter (op.contains ·)).isEmpty = false := by
            cases hf : tps.filter (op.contains ·) with
            | nil => rw [hf] at hin; cases hin
            | cons a as => rfl
          simp only [hne, Bool.false_eq_true, if_false] at hok
          exact hok _ rfl p hin
      cases sh with
      | prim q =>
        cases q <;> simp only [TransSpec] at * <;> try trivial
        · intro s hs; exact ⟨hlen ▸ (hc s hs).1, hpats s (hc s hs).2⟩
        · intro s hs; exact hlen ▸ hc s hs
      | list => simp only [TransSpec] at *; intro xs hxs; exact hlen ▸ hc xs hxs
      | other => trivial

/-- the top node's part of `Sat` -/
theorem sat_top (defs : Defs) (τ : TA) (v : Json) (h : Sat defs τ v) :
    ∀ cs, τ.cons = some cs → TransSpec τ.shape cs v := by
  intro cs hcs
  cases τ with
  | enum mt => simp [TA.cons] at hcs
  | cls mt ch => simp [TA.cons] at hcs
  | prim p c =>
    simp only [TA.cons] at hcs
    subst hcs
    obtain ⟨_, hc⟩ := h
    cases p <;> simp only [TA.shape, TransSpec] <;> try trivial
    · intro s hs; exact (hc cs rfl s hs).1 rfl
    · intro s hs; exact (hc cs rfl s hs).2 rfl
  | list items c =>
    simp only [TA.cons] at hcs
    subst hcs
    obtain ⟨xs, rfl, _, hl⟩ := h
    simp only [TA.shape, TransSpec]
    intro ys hys
    cases hys
    simpa using hl

/-- **the merged constraint of an inherited property is enforced** (single parent): the child's
definition accepts the object, the parent's inheritable definition is in `defs`, `q` is the parent's
own declaration of the property and `p` the child's inherited view of it (`p.parents = [q.ty.cons]`,
same shape); then the member value satisfies the child's FULL top-node constraint `cs` — the
parent's part through the `allOf` reference, the child's tightening through its own `properties`. -/
theorem inherited_constraint_enforced (defs : Defs) {c par : Cls} {k kp : Text} {s sp : Schema} {i : Inh}
    (h : concreteDefinition c = .ok (k, s)) (hleaf : c.cdesc = []) (hi : i ∈ c.inh)
    (hpar : inheritableDefinition par = .ok (kp, sp)) (hname : i.refName = kp)
    (hunique : ∀ s', lookup kp defs = some s' → s' = sp)
    (hndc : (c.props.map (·.name)).Nodup) (hnmc : ∀ p ∈ c.props, p.name ≠ modelTypeKey)
    (hndp : (par.props.map (·.name)).Nodup)
    {p q : Prp} (hp : p ∈ c.props) (hpown : p.own = false)
    (hq : q ∈ par.props) (hqown : q.own = true) (hqn : q.name = p.name)
    (hshape : q.ty.shape = p.ty.shape) (hparents : p.parents = [q.ty.cons])
    {sq : Schema} (hd : defineType q.ty = .ok sq)
    {kvs : List (Text × Json)} (hv : Valid defs s (.obj kvs)) {v : Json} (hl : lookup p.name kvs = some v) :
    ∀ cs, p.ty.cons = some cs → TransSpec p.ty.shape cs v := by
  intro cs hcs
  -- the parent's part
  have hsat : Sat defs q.ty v :=
    parent_property_enforced defs h hleaf hi hpar hname hunique hndp hq hqown
      (by rw [hqn]; exact hnmc p hp) hd hv v (by rw [hqn]; exact hl)
  -- the child's part
  have hbody := ((concrete_leaf_iff defs h hleaf hndc hnmc (.obj kvs)).mp hv).2
  have hprop := (hbody.2 kvs rfl).2.2.2 p hp v hl
  unfold PropOK at hprop
  simp only [hpown, Bool.false_eq_true, if_false] at hprop
  -- `_define_properties` succeeded, so the tightening steps did not crash
  obtain ⟨props, hprops, _, _⟩ := concrete_leaf_shape h hleaf
  obtain ⟨o, ho⟩ := defineProps_ok_all c.props [] props hprops p hp
  have htok : ∃ t, tightenAll cs p.parents = .ok t := by
    unfold defineProp at ho
    simp only [hpown, Bool.false_eq_true, if_false, hcs] at ho
    cases ht : tightenAll cs p.parents with
    | error e => simp [ht] at ho
    | ok t => exact ⟨t, rfl⟩
  obtain ⟨t, ht⟩ := htok
  have hts := hprop cs t hcs ht
  rw [hparents] at ht
  cases hqc : q.ty.cons with
  | none =>
    simp only [hqc, tightenAll, tightenLoop, Except.ok.injEq] at ht
    rw [ht]; exact hts
  | some qc =>
    simp only [hqc, tightenAll, tightenLoop] at ht
    cases hti : tightening cs (some qc) with
    | error e => simp [hti] at ht
    | ok t' =>
      simp only [hti, Except.ok.injEq] at ht
      subst ht
      have hoth : TransSpec p.ty.shape qc v := hshape ▸ sat_top defs q.ty v hsat qc hqc
      exact tightening_sound hti p.ty.shape v hoth (commonSteps_single hti p.ty.shape v hts)

end AasVerif.JsonSchema
