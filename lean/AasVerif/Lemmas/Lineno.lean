import AasVerif.Model.Lineno
/-!
Specification functions for the table of `LinenoColumner` and the lemmas relating the loop
(`positionsAux`) to them.
-/
namespace AasVerif.Lineno

/-- 1-based line of offset `i`: one more than the number of newlines before `i`. -/
def lineOf (nl : Nat) (t : Text) (i : Nat) : Nat := 1 + (t.take i).count nl

/-- Offset of the first character of the line of offset `i`: the index after the last newline
before `i` (scanning backwards from `i`), `0` if there is none. -/
def lineStart (nl : Nat) (t : Text) : Nat → Nat
  | 0 => 0
  | i + 1 => if t[i]? = some nl then i + 1 else lineStart nl t i

/-- 1-based column of offset `i`. -/
def colOf (nl : Nat) (t : Text) (i : Nat) : Nat := i - lineStart nl t i + 1

theorem lineStart_le (nl : Nat) (t : Text) (i : Nat) : lineStart nl t i ≤ i := by
  induction i with
  | zero => simp [lineStart]
  | succ i ih => simp only [lineStart]; split <;> omega

/-- `lineStart` is a line start: offset 0 or just after a newline. -/
theorem lineStart_boundary (nl : Nat) (t : Text) (i : Nat) :
    lineStart nl t i = 0 ∨ t[lineStart nl t i - 1]? = some nl := by
  induction i with
  | zero => simp [lineStart]
  | succ i ih =>
    simp only [lineStart]
    split
    · next h => right; simpa using h
    · exact ih

/-- … and there is no newline between it and `i`. -/
theorem lineStart_no_newline (nl : Nat) (t : Text) (i j : Nat)
    (h1 : lineStart nl t i ≤ j) (h2 : j < i) : t[j]? ≠ some nl := by
  induction i with
  | zero => omega
  | succ i ih =>
    simp only [lineStart] at h1
    split at h1
    · omega
    · next hne =>
      by_cases hj : j = i
      · subst hj; exact hne
      · exact ih h1 (by omega)

theorem positionsAux_length (nl l c : Nat) (t : Text) : (positionsAux nl l c t).length = t.length := by
  induction t generalizing l c with
  | nil => rfl
  | cons x xs ih => simp only [positionsAux, List.length_cons]; split <;> simp [ih]

theorem positionsAux_zero (nl l c x : Nat) (xs : Text) :
    (positionsAux nl l c (x :: xs))[0]? = some (l, c + 1) := by
  simp [positionsAux]

/-- One step of the loop, read off the table: entry `i+1` from entry `i` and character `i`. -/
theorem positionsAux_succ (nl : Nat) (t : Text) (l c i : Nat) (h : i + 1 < t.length) :
    ∃ li ci ch, (positionsAux nl l c t)[i]? = some (li, ci) ∧ t[i]? = some ch ∧
      (positionsAux nl l c t)[i + 1]? = some (if ch = nl then (li + 1, 1) else (li, ci + 1)) := by
  induction t generalizing l c i with
  | nil => simp at h
  | cons x xs ih =>
    cases i with
    | zero =>
      cases xs with
      | nil => simp at h
      | cons y ys =>
        refine ⟨l, c + 1, x, by simp [positionsAux], by simp, ?_⟩
        by_cases hx : x = nl <;> simp [positionsAux, hx]
    | succ j =>
      simp only [List.length_cons] at h
      by_cases hx : x = nl
      · obtain ⟨li, ci, ch, h1, h2, h3⟩ := ih (l + 1) 0 j (by omega)
        exact ⟨li, ci, ch, by simpa [positionsAux, hx] using h1, by simpa using h2,
          by simpa [positionsAux, hx] using h3⟩
      · obtain ⟨li, ci, ch, h1, h2, h3⟩ := ih l (c + 1) j (by omega)
        exact ⟨li, ci, ch, by simpa [positionsAux, hx] using h1, by simpa using h2,
          by simpa [positionsAux, hx] using h3⟩

theorem lineOf_succ (nl : Nat) (t : Text) (i ch : Nat) (h : t[i]? = some ch) :
    lineOf nl t (i + 1) = lineOf nl t i + (if ch = nl then 1 else 0) := by
  unfold lineOf
  rw [List.take_add_one, h]
  by_cases hc : ch = nl <;> simp [List.count_append, hc] <;> omega

/-- The table against the specification functions. -/
theorem positions_get (nl : Nat) (t : Text) (i : Nat) (h : i < t.length) :
    (positions nl t)[i]? = some (lineOf nl t i, colOf nl t i) := by
  induction i with
  | zero =>
    cases t with
    | nil => simp at h
    | cons x xs => simp [positions, positionsAux, lineOf, colOf, lineStart]
  | succ i ih =>
    obtain ⟨li, ci, ch, h1, h2, h3⟩ := positionsAux_succ nl t 1 0 i h
    have hi := ih (by omega)
    unfold positions at hi ⊢
    rw [hi] at h1
    simp only [Option.some.injEq, Prod.mk.injEq] at h1
    obtain ⟨hl, hc⟩ := h1
    rw [h3, lineOf_succ nl t i ch h2]
    have hle := lineStart_le nl t i
    by_cases hch : ch = nl
    · subst hch
      simp [colOf, lineStart, h2, ← hl]
    · have hne : t[i]? ≠ some nl := by rw [h2]; simpa using hch
      simp only [hch, if_false, colOf, lineStart, hne, Option.some.injEq, Prod.mk.injEq]
      unfold colOf at hc
      omega

end AasVerif.Lineno

namespace AasVerif.Lineno

theorem isSpace_of_isLineBreak (c : Nat) (h : isLineBreak c = true) : isSpace c = true := by
  simp only [isLineBreak, Bool.or_eq_true, decide_eq_true_eq] at h
  simp only [isSpace, Bool.or_eq_true, Bool.and_eq_true, decide_eq_true_eq]
  omega

/-- The first line produced by `splitlines` starts with what was already collected. -/
theorem splitLinesAux_head (cur t : Text) (h : cur ≠ []) :
    ∃ r ls, splitLinesAux cur t = (cur.reverse ++ r) :: ls := by
  fun_induction splitLinesAux cur t with
  | case1 cur he => cases cur <;> simp_all
  | case2 cur he => exact ⟨[], [], by simp⟩
  | case3 cur cs ih => exact ⟨[13, 10], _, rfl⟩
  | case4 cur c cs hne hlb ih => exact ⟨[c], _, rfl⟩
  | case5 cur c cs hne hlb ih =>
    obtain ⟨r, ls, e⟩ := ih (by simp)
    exact ⟨c :: r, ls, by rw [e]; simp⟩

/-- `textwrap.indent` puts the prefix in front of a text that starts with a non-space character. -/
theorem indent_head (ind : Text) (c : Nat) (cs : Text) (hc : isSpace c = false) :
    ∃ rest, indent ind (c :: cs) = ind ++ c :: rest := by
  have hlb : isLineBreak c = false := by
    cases h : isLineBreak c with
    | false => rfl
    | true => rw [isSpace_of_isLineBreak c h] at hc; cases hc
  have h13 : c ≠ 13 := by intro h; subst h; simp [isSpace] at hc
  obtain ⟨r, ls, e⟩ := splitLinesAux_head [c] cs (by simp)
  have hsplit : splitLines (c :: cs) = ([c] ++ r) :: ls := by
    unfold splitLines
    rw [splitLinesAux.eq_3 _ _ _ (by intro cs' h; exact absurd h h13)]
    simp only [hlb, Bool.false_eq_true, if_false]
    simpa using e
  refine ⟨r ++ (ls.map fun line => if line.all isSpace then line else ind ++ line).flatten, ?_⟩
  unfold indent
  rw [hsplit]
  simp [hc]

end AasVerif.Lineno

/-! ## `textwrap.indent` keeps a location prefix at the start of its line -/

namespace AasVerif.Lineno

theorem decimal_digit (n d : Nat) (h : d ∈ decimal n) : 48 ≤ d ∧ d ≤ 57 := by
  unfold decimal at h
  obtain ⟨c, hc, rfl⟩ := List.mem_map.1 h
  have := Nat.isDigit_of_mem_toDigits (by decide) (by decide) hc
  simp only [Char.isDigit, Bool.and_eq_true, decide_eq_true_eq] at this
  obtain ⟨h1, h2⟩ := this
  have e : c.toNat = c.val.toNat := rfl
  rw [e]
  constructor
  · have := UInt32.le_iff_toNat_le.1 h1; simpa using this
  · have := UInt32.le_iff_toNat_le.1 h2; simpa using this

theorem splitLinesAux_append_noBreak (P cur m : Text) (h : ∀ c ∈ P, isLineBreak c = false) :
    splitLinesAux cur (P ++ m) = splitLinesAux (P.reverse ++ cur) m := by
  induction P generalizing cur with
  | nil => rfl
  | cons c P ih =>
    have hc := h c (by simp)
    have h13 : c ≠ 13 := by intro e; subst e; simp [isLineBreak] at hc
    rw [List.cons_append, splitLinesAux.eq_3 _ _ _ (by intro cs' e; exact absurd e h13)]
    simp only [hc, Bool.false_eq_true, if_false]
    rw [ih (c :: cur) (fun x hx => h x (by simp [hx]))]
    simp

theorem indent_prefix (ind P m : Text) (c0 : Nat) (P' : Text) (hP : P = c0 :: P')
    (hc0 : isSpace c0 = false) (h : ∀ c ∈ P, isLineBreak c = false) :
    ∃ rest, indent ind (P ++ m) = ind ++ P ++ rest := by
  have hne : P.reverse ≠ [] := by subst hP; simp
  obtain ⟨r, ls, e⟩ := splitLinesAux_head P.reverse m hne
  have hsplit : splitLines (P ++ m) = (P ++ r) :: ls := by
    unfold splitLines
    rw [splitLinesAux_append_noBreak P [] m h]
    simpa using e
  refine ⟨r ++ (ls.map fun line => if line.all isSpace then line else ind ++ line).flatten, ?_⟩
  unfold indent
  rw [hsplit]
  subst hP
  simp [hc0]

end AasVerif.Lineno

namespace AasVerif.Lineno

/-- The location prefix of the current source as text. -/
def atLine (l c : Nat) : Text :=
  Text.ofString "At line " ++ decimal l ++ Text.ofString " and column " ++ decimal c ++ Text.ofString ": "

theorem atLine_no_break (l c : Nat) : ∀ x ∈ atLine l c, isLineBreak x = false := by
  intro x hx
  unfold atLine at hx
  simp only [List.mem_append] at hx
  rcases hx with (((h | h) | h) | h) | h
  · revert x; decide
  · have := decimal_digit l x h; simp [isLineBreak]; omega
  · revert x; decide
  · have := decimal_digit c x h; simp [isLineBreak]; omega
  · revert x; decide

theorem atLine_head (l c : Nat) : ∃ P', atLine l c = 65 :: P' := ⟨_, rfl⟩

/-- A located error inside the text renders as its location prefix, its message and a rest. -/
theorem errorMessage_located (tpl : List Piece) (ind : Text) (nl : Nat) (t : Text) (s : Nat)
    (msg : Text) (und : List Err) (m : Text) (hs : s < t.length)
    (h : errorMessage tpl ind (positions nl t) (.mk (some s) msg und) = .ok m) :
    ∃ rest, m = renderTemplate tpl (lineOf nl t s) (colOf nl t s) ++ (msg ++ rest) := by
  rw [errorMessage] at h
  have hp : locPrefix tpl (positions nl t) (some s)
      = .ok (renderTemplate tpl (lineOf nl t s) (colOf nl t s)) := by
    simp [locPrefix, positions_get nl t s hs]
  rw [hp] at h
  simp only [Res.bind] at h
  cases und with
  | nil => simp only [Res.ok.injEq] at h; exact ⟨[], by rw [← h]; simp⟩
  | cons u us =>
    simp only at h
    cases hu : underlyingText tpl ind (positions nl t) (u :: us) with
    | crash site => rw [hu] at h; simp at h
    | ok body =>
      rw [hu] at h
      simp only [Res.ok.injEq] at h
      exact ⟨10 :: body, by rw [← h]; simp⟩

end AasVerif.Lineno

namespace AasVerif.Lineno

/-- In the text of the loop over `underlying`, every located error (offset inside the text) starts
a line with the indentation followed by its own location prefix. -/
theorem underlyingText_keeps_prefix (tpl : List Piece) (ind : Text) (nl : Nat) (t : Text)
    (P : Nat → Nat → Text) (hP : ∀ l c, renderTemplate tpl l c = P l c)
    (hPb : ∀ l c, ∀ x ∈ P l c, isLineBreak x = false)
    (hPh : ∀ l c, ∃ c0 P', P l c = c0 :: P' ∧ isSpace c0 = false)
    (us1 : List Err) (s : Nat) (msg : Text) (und us2 : List Err) (body : Text) (hs : s < t.length)
    (h : underlyingText tpl ind (positions nl t) (us1 ++ Err.mk (some s) msg und :: us2) = .ok body) :
    ∃ a b, body = a ++ (ind ++ P (lineOf nl t s) (colOf nl t s)) ++ b ∧ (a = [] ∨ ∃ a', a = a' ++ [10]) := by
  induction us1 generalizing body with
  | nil =>
    simp only [List.nil_append, underlyingText] at h
    cases hm : errorMessage tpl ind (positions nl t) (Err.mk (some s) msg und) with
    | crash site => rw [hm] at h; simp [Res.bind] at h
    | ok m =>
      rw [hm] at h
      simp only [Res.bind] at h
      obtain ⟨rest, hrest⟩ := errorMessage_located tpl ind nl t s msg und m hs hm
      rw [hP] at hrest
      obtain ⟨c0, P', hc0, hsp⟩ := hPh (lineOf nl t s) (colOf nl t s)
      obtain ⟨r, hr⟩ := indent_prefix ind (P (lineOf nl t s) (colOf nl t s)) (msg ++ rest) c0 P' hc0 hsp
        (hPb _ _)
      rw [← hrest] at hr
      cases us2 with
      | nil =>
        simp only [Res.ok.injEq] at h
        exact ⟨[], r, by rw [← h, hr]; simp, Or.inl rfl⟩
      | cons v vs =>
        simp only at h
        cases hv : underlyingText tpl ind (positions nl t) (v :: vs) with
        | crash site => rw [hv] at h; simp at h
        | ok rest' =>
          rw [hv] at h
          simp only [Res.ok.injEq] at h
          exact ⟨[], r ++ 10 :: rest', by rw [← h, hr]; simp, Or.inl rfl⟩
  | cons v vs ih =>
    simp only [List.cons_append, underlyingText] at h
    cases hm : errorMessage tpl ind (positions nl t) v with
    | crash site => rw [hm] at h; simp [Res.bind] at h
    | ok m =>
      rw [hm] at h
      simp only [Res.bind] at h
      cases htail : vs ++ Err.mk (some s) msg und :: us2 with
      | nil => simp at htail
      | cons w ws =>
        rw [htail] at h ih
        simp only at h
        cases hv : underlyingText tpl ind (positions nl t) (w :: ws) with
        | crash site => rw [hv] at h; simp at h
        | ok rest' =>
          rw [hv] at h
          simp only [Res.ok.injEq] at h
          obtain ⟨a, b, hab, ha⟩ := ih rest' hv
          refine ⟨indent ind m ++ 10 :: a, b, by rw [← h, hab]; simp, Or.inr ?_⟩
          rcases ha with ha | ⟨a', ha⟩
          · exact ⟨indent ind m, by rw [ha]⟩
          · exact ⟨indent ind m ++ 10 :: a', by rw [ha]; simp⟩

end AasVerif.Lineno
