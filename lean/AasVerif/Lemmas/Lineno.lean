import AasVerif.Model.Lineno
/-!
Specification functions for the table of `LinenoColumner` and the lemmas relating the loop
(`positionsAux`) to them.
-/
namespace AasVerif.Lineno

/-- 1-based line of offset `i`: one more than the number of newlines before `i`. -/
def lineOf (nl : Nat) (t : Text) (i : Nat) : Nat := 1 + (t.take i).count nl

/-- Offset of the first character of the line of offset `i`: the index after the last newline
before `i` (scanning backwards from `i`), `0` if there is none. -/
def lineStart (nl : Nat) (t : Text) : Nat → Nat
  | 0 => 0
  | i + 1 => if t[i]? = some nl then i + 1 else lineStart nl t i

/-- 1-based column of offset `i`. -/
def colOf (nl : Nat) (t : Text) (i : Nat) : Nat := i - lineStart nl t i + 1

theorem lineStart_le (nl : Nat) (t : Text) (i : Nat) : lineStart nl t i ≤ i := by
  induction i with
  | zero => simp [lineStart]
  | succ i ih => simp only [lineStart]; split <;> omega

/-- `lineStart` is a line start: offset 0 or just after a newline. -/
theorem lineStart_boundary (nl : Nat) (t : Text) (i : Nat) :
    lineStart nl t i = 0 ∨ t[lineStart nl t i - 1]? = some nl := by
  induction i with
  | zero => simp [lineStart]
  | succ i ih =>
    simp only [lineStart]
    split
    · next h => right; simpa using h
    · exact ih

/-- … and there is no newline between it and `i`. -/
theorem lineStart_no_newline (nl : Nat) (t : Text) (i j : Nat)
    (h1 : lineStart nl t i ≤ j) (h2 : j < i) : t[j]? ≠ some nl := by
  induction i with
  | zero => omega
  | succ i ih =>
    simp only [lineStart] at h1
    split at h1
    · omega
    · next hne =>
      by_cases hj : j = i
      · subst hj; exact hne
      · exact ih h1 (by omega)

theorem positionsAux_length (nl l c : Nat) (t : Text) : (positionsAux nl l c t).length = t.length := by
  induction t generalizing l c with
  | nil => rfl
  | cons x xs ih => simp only [positionsAux, List.length_cons]; split <;> simp [ih]

theorem positionsAux_zero (nl l c x : Nat) (xs : Text) :
    (positionsAux nl l c (x :: xs))[0]? = some (l, c + 1) := by
  simp [positionsAux]

/-- One step of the loop, read off the table: entry `i+1` from entry `i` and character `i`. -/
theorem positionsAux_succ (nl : Nat) (t : Text) (l c i : Nat) (h : i + 1 < t.length) :
    ∃ li ci ch, (positionsAux nl l c t)[i]? = some (li, ci) ∧ t[i]? = some ch ∧
      (positionsAux nl l c t)[i + 1]? = some (if ch = nl then (li + 1, 1) else (li, ci + 1)) := by
  induction t generalizing l c i with
  | nil => simp at h
  | cons x xs ih =>
    cases i with
    | zero =>
      cases xs with
      | nil => simp at h
      | cons y ys =>
        refine ⟨l, c + 1, x, by simp [positionsAux], by simp, ?_⟩
        by_cases hx : x = nl <;> simp [positionsAux, hx]
    | succ j =>
      simp only [List.length_cons] at h
      by_cases hx : x = nl
      · obtain ⟨li, ci, ch, h1, h2, h3⟩ := ih (l + 1) 0 j (by omega)
        exact ⟨li, ci, ch, by simpa [positionsAux, hx] using h1, by simpa using h2,
          by simpa [positionsAux, hx] using h3⟩
      · obtain ⟨li, ci, ch, h1, h2, h3⟩ := ih l (c + 1) j (by omega)
        exact ⟨li, ci, ch, by simpa [positionsAux, hx] using h1, by simpa using h2,
          by simpa [positionsAux, hx] using h3⟩

theorem lineOf_succ (nl : Nat) (t : Text) (i ch : Nat) (h : t[i]? = some ch) :
    lineOf nl t (i + 1) = lineOf nl t i + (if ch = nl then 1 else 0) := by
  unfold lineOf
  rw [List.take_add_one, h]
  by_cases hc : ch = nl <;> simp [List.count_append, hc] <;> omega

/-- The table against the specification functions. -/
theorem positions_get (nl : Nat) (t : Text) (i : Nat) (h : i < t.length) :
    (positions nl t)[i]? = some (lineOf nl t i, colOf nl t i) := by
  induction i with
  | zero =>
    cases t with
    | nil => simp at h
    | cons x xs => simp [positions, positionsAux, lineOf, colOf, lineStart]
  | succ i ih =>
    obtain ⟨li, ci, ch, h1, h2, h3⟩ := positionsAux_succ nl t 1 0 i h
    have hi := ih (by omega)
    unfold positions at hi ⊢
    rw [hi] at h1
    simp only [Option.some.injEq, Prod.mk.injEq] at h1
    obtain ⟨hl, hc⟩ := h1
    rw [h3, lineOf_succ nl t i ch h2]
    have hle := lineStart_le nl t i
    by_cases hch : ch = nl
    · subst hch
      simp [colOf, lineStart, h2, ← hl]
    · have hne : t[i]? ≠ some nl := by rw [h2]; simpa using hch
      simp only [hch, if_false, colOf, lineStart, hne, Option.some.injEq, Prod.mk.injEq]
      unfold colOf at hc
      omega

end AasVerif.Lineno

namespace AasVerif.Lineno

theorem isSpace_of_isLineBreak (c : Nat) (h : isLineBreak c = true) : isSpace c = true := by
  simp only [isLineBreak, Bool.or_eq_true, decide_eq_true_eq] at h
  simp only [isSpace, Bool.or_eq_true, Bool.and_eq_true, decide_eq_true_eq]
  omega

/-- The first line produced by `splitlines` starts with what was already collected. -/
theorem splitLinesAux_head (cur t : Text) (h : cur ≠ []) :
    ∃ r ls, splitLinesAux cur t = (cur.reverse ++ r) :: ls := by
  fun_induction splitLinesAux cur t with
  | case1 cur he => cases cur <;> simp_all
  | case2 cur he => exact ⟨[], [], by simp⟩
  | case3 cur cs ih => exact ⟨[13, 10], _, rfl⟩
  | case4 cur c cs hne hlb ih => exact ⟨[c], _, rfl⟩
  | case5 cur c cs hne hlb ih =>
    obtain ⟨r, ls, e⟩ := ih (by simp)
    exact ⟨c :: r, ls, by rw [e]; simp⟩

/-- `textwrap.indent` puts the prefix in front of a text that starts with a non-space character. -/
theorem indent_head (ind : Text) (c : Nat) (cs : Text) (hc : isSpace c = false) :
    ∃ rest, indent ind (c :: cs) = ind ++ c :: rest := by
  have hlb : isLineBreak c = false := by
    cases h : isLineBreak c with
    | false => rfl
    | true => rw [isSpace_of_isLineBreak c h] at hc; cases hc
  have h13 : c ≠ 13 := by intro h; subst h; simp [isSpace] at hc
  obtain ⟨r, ls, e⟩ := splitLinesAux_head [c] cs (by simp)
  have hsplit : splitLines (c :: cs) = ([c] ++ r) :: ls := by
    unfold splitLines
    rw [splitLinesAux.eq_3 _ _ _ (by intro cs' h; exact absurd h h13)]
    simp only [hlb, Bool.false_eq_true, if_false]
    simpa using e
  refine ⟨r ++ (ls.map fun line => if line.all isSpace then line else ind ++ line).flatten, ?_⟩
  unfold indent
  rw [hsplit]
  simp [hc]

end AasVerif.Lineno
