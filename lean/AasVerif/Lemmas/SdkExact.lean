import AasVerif.Lemmas.SdkVerify
/-!
C08 (c): the errors of `verify` over a whole (nested) instance are the reports of its
*targets* — every reachable class instance with the stacked invariants of its class and every
reachable constrained-primitive value with the stacked invariants of its type — at the path
that leads to it.
-/
namespace AasVerif.SdkV
open AasVerif AasVerif.Expr

/-- a value that verification looks at: where, the value, whose invariants -/
structure Target where
  path : Path
  self : Val
  invs : List Inv

def Target.pre (segs : Path) (t : Target) : Target := { t with path := segs ++ t.path }

def cprimTargets (m : MM) (segs : Path) (n : Text) (v : Val) : List Target :=
  match m.findCPrim n with
  | some cp => [⟨segs, v, cp.invs⟩]
  | none => []

mutual
  /-- the targets below (and including) an instance, in verification order -/
  def targetsInst (m : MM) : Val → List Target
    | .inst oid cn fields =>
      match m.findCls cn with
      | none => []
      | some c =>
        ⟨[], .inst oid cn fields, c.invs⟩ :: (c.props.map (fun p => targetsField m p fields)).flatten
    | _ => []
  def targetsField (m : MM) (p : PropDef) : List (Text × Val) → List Target
    | [] => []
    | (k, v) :: rest =>
      if k = p.name then
        match p.ty with
        | .prim => []
        | .enum => []
        | .cprim n =>
          match v with
          | .none => if p.optional then [] else cprimTargets m [.prop p.name] n .none
          | v => cprimTargets m [.prop p.name] n v
        | .cls =>
          match v with
          | .none => []
          | v => (targetsInst m v).map (Target.pre [.prop p.name])
        | .listOf item =>
          match item with
          | .prim => []
          | .enum => []
          | .listOf _ => []
          | item =>
            match v with
            | .list items => targetsItems m p.name item 0 items
            | _ => []
      else targetsField m p rest
  def targetsItems (m : MM) (pn : Text) (item : PTy) (i : Nat) : List Val → List Target
    | [] => []
    | v :: vs =>
      (match item with
        | .cprim n => cprimTargets m [.prop pn, .idx i] n v
        | .cls => (targetsInst m v).map (Target.pre [.prop pn, .idx i])
        | _ => []) ++ targetsItems m pn item (i + 1) vs
end

/-- what is reported for one target -/
def reportErrors (ρ : Env) (t : Target) : List (Text × Path) :=
  (verifyInvs ρ t.self t.invs).errors.map (fun (d, q) => (d, t.path ++ q))

def allErrors (ρ : Env) (ts : List Target) : List (Text × Path) := (ts.map (reportErrors ρ)).flatten

theorem seq_raised_none {a b : VRes} (h : (a.seq b).raised = none) : a.raised = none ∧ b.raised = none := by
  unfold VRes.seq at h
  cases ha : a.raised <;> simp_all

theorem seq_errors {a b : VRes} (ha : a.raised = none) : (a.seq b).errors = a.errors ++ b.errors := by
  unfold VRes.seq; simp [ha]

theorem seqAll_raised_none : ∀ {rs : List VRes}, (VRes.seqAll rs).raised = none → ∀ r ∈ rs, r.raised = none
  | [], _, r, hr => by simp at hr
  | a :: rs, h, r, hr => by
    simp only [VRes.seqAll] at h
    obtain ⟨h1, h2⟩ := seq_raised_none h
    rcases List.mem_cons.mp hr with rfl | hr
    · exact h1
    · exact seqAll_raised_none h2 r hr

theorem seqAll_errors : ∀ {rs : List VRes}, (VRes.seqAll rs).raised = none →
    (VRes.seqAll rs).errors = (rs.map (·.errors)).flatten
  | [], _ => by simp [VRes.seqAll, VRes.nil]
  | a :: rs, h => by
    simp only [VRes.seqAll] at h ⊢
    obtain ⟨h1, h2⟩ := seq_raised_none h
    rw [seq_errors h1, seqAll_errors h2]
    simp

theorem prepend_raised (segs : Path) (r : VRes) : (VRes.prepend segs r).raised = r.raised := rfl

theorem prepend_errors (segs : Path) (r : VRes) :
    (VRes.prepend segs r).errors = r.errors.map (fun (d, p) => (d, segs ++ p)) := rfl

theorem allErrors_pre (ρ : Env) (segs : Path) (ts : List Target) :
    allErrors ρ (ts.map (Target.pre segs)) = (allErrors ρ ts).map (fun (d, p) => (d, segs ++ p)) := by
  induction ts with
  | nil => simp [allErrors]
  | cons t ts ih =>
    simp only [allErrors, List.map_cons, List.flatten_cons, List.map_append] at ih ⊢
    rw [ih]
    congr 1
    simp [reportErrors, Target.pre, List.append_assoc]

theorem allErrors_append (ρ : Env) (a b : List Target) : allErrors ρ (a ++ b) = allErrors ρ a ++ allErrors ρ b := by
  simp [allErrors]

theorem cprim_errors (m : MM) (ρ : Env) (segs : Path) (n : Text) (v : Val)
    (h : (verifyCPrim m ρ n v).raised = none) :
    (VRes.prepend segs (verifyCPrim m ρ n v)).errors = allErrors ρ (cprimTargets m segs n v) := by
  unfold verifyCPrim at h ⊢
  unfold cprimTargets
  cases hf : m.findCPrim n with
  | none => simp [hf, VRes.raise] at h
  | some cp => simp [prepend_errors, allErrors, reportErrors]

theorem flatten_map_congr {α β} (l : List α) (f g : α → List β) (h : ∀ a ∈ l, f a = g a) :
    (l.map f).flatten = (l.map g).flatten := by
  induction l with
  | nil => rfl
  | cons a l ih =>
    simp only [List.map_cons, List.flatten_cons]
    rw [h a (List.mem_cons_self), ih (fun b hb => h b (List.mem_cons_of_mem _ hb))]

theorem allErrors_flatten (ρ : Env) (tss : List (List Target)) :
    allErrors ρ tss.flatten = (tss.map (allErrors ρ)).flatten := by
  induction tss with
  | nil => simp [allErrors]
  | cons a l ih => simp [allErrors_append, ih]

mutual
  theorem inst_errors (m : MM) (ρ : Env) : ∀ v : Val, (verifyInst m ρ v).raised = none →
      (verifyInst m ρ v).errors = allErrors ρ (targetsInst m v)
    | .inst oid cn fields, h => by
      unfold verifyInst at h ⊢
      unfold targetsInst
      cases hc : m.findCls cn with
      | none => simp [hc, VRes.raise] at h
      | some c =>
        simp only [hc] at h ⊢
        obtain ⟨h1, h2⟩ := seq_raised_none h
        rw [seq_errors h1, seqAll_errors h2]
        have hf : ∀ p ∈ c.props, (verifyField m ρ p fields).errors = allErrors ρ (targetsField m p fields) :=
          fun p hp => field_errors m ρ p fields (seqAll_raised_none h2 _ (List.mem_map_of_mem hp))
        have e1 : allErrors ρ (⟨[], .inst oid cn fields, c.invs⟩ :: (c.props.map (fun p => targetsField m p fields)).flatten)
            = (verifyInvs ρ (.inst oid cn fields) c.invs).errors
              ++ allErrors ρ (c.props.map (fun p => targetsField m p fields)).flatten := by
          have : allErrors ρ [⟨[], .inst oid cn fields, c.invs⟩] = (verifyInvs ρ (.inst oid cn fields) c.invs).errors := by
            simp [allErrors, reportErrors]
          rw [← this, ← allErrors_append]
          rfl
        rw [e1, allErrors_flatten]
        congr 1
        simp only [List.map_map]
        exact flatten_map_congr _ _ _ (fun p hp => by simpa using hf p hp)
    | .none, h => by simp [verifyInst, VRes.raise] at h
    | .bool _, h => by simp [verifyInst, VRes.raise] at h
    | .int _, h => by simp [verifyInst, VRes.raise] at h
    | .float _, h => by simp [verifyInst, VRes.raise] at h
    | .str _, h => by simp [verifyInst, VRes.raise] at h
    | .bytes _, h => by simp [verifyInst, VRes.raise] at h
    | .list _, h => by simp [verifyInst, VRes.raise] at h
    | .enumLit _ _, h => by simp [verifyInst, VRes.raise] at h
    | .enumCls _ _, h => by simp [verifyInst, VRes.raise] at h
    | .set _, h => by simp [verifyInst, VRes.raise] at h
  theorem field_errors (m : MM) (ρ : Env) (p : PropDef) : ∀ fields : List (Text × Val),
      (verifyField m ρ p fields).raised = none →
      (verifyField m ρ p fields).errors = allErrors ρ (targetsField m p fields)
    | [], h => by simp [verifyField, VRes.raise] at h
    | (k, v) :: rest, h => by
      unfold verifyField at h ⊢
      unfold targetsField
      by_cases hk : k = p.name
      · simp only [hk, if_true] at h ⊢
        have ihv := inst_errors m ρ v
        cases hty : p.ty with
        | prim => simp [VRes.nil, allErrors]
        | enum => simp [VRes.nil, allErrors]
        | cprim n =>
          simp only [hty] at h ⊢
          cases v <;> first
            | (by_cases ho : p.optional = true
               · simp [ho, VRes.nil, allErrors]
               · simp only [ho, if_false] at h ⊢
                 exact cprim_errors m ρ _ n _ h)
            | exact cprim_errors m ρ _ n _ h
        | cls =>
          simp only [hty] at h ⊢
          cases v <;> first
            | (by_cases ho : p.optional = true
               · simp [ho, VRes.nil, allErrors]
               · simp [ho, VRes.raise] at h)
            | (rw [prepend_errors, ihv h, allErrors_pre])
        | listOf item =>
          simp only [hty] at h ⊢
          cases item with
          | prim => simp [VRes.nil, allErrors]
          | enum => simp [VRes.nil, allErrors]
          | listOf _ => simp [VRes.raise] at h
          | cprim n =>
            cases v <;> first
              | exact items_errors m ρ p.name _ 0 _ h
              | (by_cases ho : p.optional = true
                 · simp [ho, VRes.nil, allErrors]
                 · simp [ho, VRes.raise] at h)
              | simp [VRes.raise] at h
          | cls =>
            cases v <;> first
              | exact items_errors m ρ p.name _ 0 _ h
              | (by_cases ho : p.optional = true
                 · simp [ho, VRes.nil, allErrors]
                 · simp [ho, VRes.raise] at h)
              | simp [VRes.raise] at h
      · simp only [hk, if_false] at h ⊢
        exact field_errors m ρ p rest h
  theorem items_errors (m : MM) (ρ : Env) (pn : Text) (item : PTy) : ∀ (i : Nat) (vs : List Val),
      (verifyItems m ρ pn item i vs).raised = none →
      (verifyItems m ρ pn item i vs).errors = allErrors ρ (targetsItems m pn item i vs)
    | i, [], h => by simp [verifyItems, targetsItems, VRes.nil, allErrors]
    | i, v :: vs, h => by
      unfold verifyItems at h ⊢
      unfold targetsItems
      obtain ⟨h1, h2⟩ := seq_raised_none h
      rw [seq_errors h1, allErrors_append, items_errors m ρ pn item (i + 1) vs h2]
      congr 1
      have ihv := inst_errors m ρ v
      cases item with
      | cprim n => exact cprim_errors m ρ _ n v h1
      | cls => rw [prepend_errors, ihv h1, allErrors_pre]
      | prim => simp [VRes.nil, allErrors]
      | enum => simp [VRes.nil, allErrors]
      | listOf _ => simp [VRes.nil, allErrors]
end

/-- none of the targets raises -/
def AllQuiet (ρ : Env) (ts : List Target) : Prop := ∀ t ∈ ts, (verifyInvs ρ t.self t.invs).raised = none

theorem allQuiet_pre (ρ : Env) (segs : Path) (ts : List Target) (h : AllQuiet ρ ts) :
    AllQuiet ρ (ts.map (Target.pre segs)) := by
  intro t ht
  obtain ⟨t0, ht0, rfl⟩ := List.mem_map.mp ht
  exact h t0 ht0

theorem allQuiet_append (ρ : Env) (a b : List Target) (ha : AllQuiet ρ a) (hb : AllQuiet ρ b) :
    AllQuiet ρ (a ++ b) := by
  intro t ht
  rcases List.mem_append.mp ht with h | h
  · exact ha t h
  · exact hb t h

theorem allQuiet_nil (ρ : Env) : AllQuiet ρ [] := by intro t ht; simp at ht

theorem allQuiet_cprim (m : MM) (ρ : Env) (segs : Path) (n : Text) (v : Val)
    (h : (verifyCPrim m ρ n v).raised = none) : AllQuiet ρ (cprimTargets m segs n v) := by
  unfold verifyCPrim at h
  unfold cprimTargets
  cases hf : m.findCPrim n with
  | none => exact allQuiet_nil ρ
  | some cp =>
    simp only [hf] at h
    intro t ht
    simp at ht
    subst ht
    exact h

mutual
  theorem inst_quiet (m : MM) (ρ : Env) : ∀ v : Val, (verifyInst m ρ v).raised = none →
      AllQuiet ρ (targetsInst m v)
    | .inst oid cn fields, h => by
      unfold verifyInst at h
      unfold targetsInst
      cases hc : m.findCls cn with
      | none => exact allQuiet_nil ρ
      | some c =>
        simp only [hc] at h ⊢
        obtain ⟨h1, h2⟩ := seq_raised_none h
        intro t ht
        rcases List.mem_cons.mp ht with rfl | ht
        · exact h1
        · obtain ⟨ts, hts, htt⟩ := List.mem_flatten.mp ht
          obtain ⟨p, hp, rfl⟩ := List.mem_map.mp hts
          exact field_quiet m ρ p fields (seqAll_raised_none h2 _ (List.mem_map_of_mem hp)) t htt
    | .none, _ => by simp [targetsInst, allQuiet_nil]
    | .bool _, _ => by simp [targetsInst, allQuiet_nil]
    | .int _, _ => by simp [targetsInst, allQuiet_nil]
    | .float _, _ => by simp [targetsInst, allQuiet_nil]
    | .str _, _ => by simp [targetsInst, allQuiet_nil]
    | .bytes _, _ => by simp [targetsInst, allQuiet_nil]
    | .list _, _ => by simp [targetsInst, allQuiet_nil]
    | .enumLit _ _, _ => by simp [targetsInst, allQuiet_nil]
    | .enumCls _ _, _ => by simp [targetsInst, allQuiet_nil]
    | .set _, _ => by simp [targetsInst, allQuiet_nil]
  theorem field_quiet (m : MM) (ρ : Env) (p : PropDef) : ∀ fields : List (Text × Val),
      (verifyField m ρ p fields).raised = none → AllQuiet ρ (targetsField m p fields)
    | [], _ => by simp [targetsField, allQuiet_nil]
    | (k, v) :: rest, h => by
      unfold verifyField at h
      unfold targetsField
      by_cases hk : k = p.name
      · simp only [hk, if_true] at h ⊢
        have ihv := inst_quiet m ρ v
        cases hty : p.ty with
        | prim => exact allQuiet_nil ρ
        | enum => exact allQuiet_nil ρ
        | cprim n =>
          simp only [hty] at h ⊢
          cases v <;> first
            | (by_cases ho : p.optional = true
               · simp [ho, allQuiet_nil]
               · simp only [ho, if_false] at h ⊢
                 exact allQuiet_cprim m ρ _ n _ h)
            | exact allQuiet_cprim m ρ _ n _ h
        | cls =>
          simp only [hty] at h ⊢
          cases v <;> first
            | exact allQuiet_nil ρ
            | exact allQuiet_pre ρ _ _ (ihv h)
        | listOf item =>
          simp only [hty] at h ⊢
          cases item with
          | prim => exact allQuiet_nil ρ
          | enum => exact allQuiet_nil ρ
          | listOf _ => exact allQuiet_nil ρ
          | cprim n =>
            cases v <;> first
              | exact items_quiet m ρ p.name _ 0 _ h
              | exact allQuiet_nil ρ
          | cls =>
            cases v <;> first
              | exact items_quiet m ρ p.name _ 0 _ h
              | exact allQuiet_nil ρ
      · simp only [hk, if_false] at h ⊢
        exact field_quiet m ρ p rest h
  theorem items_quiet (m : MM) (ρ : Env) (pn : Text) (item : PTy) : ∀ (i : Nat) (vs : List Val),
      (verifyItems m ρ pn item i vs).raised = none → AllQuiet ρ (targetsItems m pn item i vs)
    | i, [], _ => by simp [targetsItems, allQuiet_nil]
    | i, v :: vs, h => by
      unfold verifyItems at h
      unfold targetsItems
      obtain ⟨h1, h2⟩ := seq_raised_none h
      refine allQuiet_append ρ _ _ ?_ (items_quiet m ρ pn item (i + 1) vs h2)
      have ihv := inst_quiet m ρ v
      cases item with
      | cprim n => exact allQuiet_cprim m ρ _ n v h1
      | cls => exact allQuiet_pre ρ _ _ (ihv h1)
      | prim => exact allQuiet_nil ρ
      | enum => exact allQuiet_nil ρ
      | listOf _ => exact allQuiet_nil ρ
end

/-- **verify_exact.** When verification of an instance does not raise, `(d, p)` is reported
exactly when some reachable value (a class instance, or a value typed by a constrained
primitive) at path `p` falsifies one of the invariants of its class / constrained primitive
(own and inherited) whose description is `d`. -/
theorem verify_exact_targets (m : MM) (ρ : Env) (v : Val) (h : (verify m ρ v).raised = none)
    (d : Text) (p : Path) :
    (d, p) ∈ (verify m ρ v).errors ↔
      ∃ t ∈ targetsInst m v, t.path = p ∧ ∃ inv ∈ t.invs, inv.description = d ∧ Falsified ρ t.self inv := by
  unfold verify at h ⊢
  rw [inst_errors m ρ v h]
  have hq := inst_quiet m ρ v h
  simp only [allErrors, List.mem_flatten, List.mem_map]
  constructor
  · rintro ⟨l, ⟨t, ht, rfl⟩, hmem⟩
    simp only [reportErrors, List.mem_map] at hmem
    obtain ⟨⟨d', q⟩, hdq, heq⟩ := hmem
    simp only [Prod.mk.injEq] at heq
    obtain ⟨rfl, rfl⟩ := heq
    obtain ⟨hq0, inv, hinv, hd, hf⟩ := (verifyInvs_exact ρ t.self t.invs (hq t ht) d' q).mp hdq
    subst hq0
    exact ⟨t, ht, by simp, inv, hinv, hd, hf⟩
  · rintro ⟨t, ht, rfl, inv, hinv, hd, hf⟩
    refine ⟨reportErrors ρ t, ⟨t, ht, rfl⟩, ?_⟩
    simp only [reportErrors, List.mem_map]
    refine ⟨(d, []), (verifyInvs_exact ρ t.self t.invs (hq t ht) d []).mpr ⟨rfl, inv, hinv, hd, hf⟩, by simp⟩

end AasVerif.SdkV
