import AasVerif.Model.PyEmit
/-!
Helper lemmas for C08 (b): the transpiled expression means what the source expression means.
-/
namespace AasVerif.PyEmit
open AasVerif AasVerif.Expr

def floatOK (r : Text) : Bool :=
  match r with
  | 45 :: t => !(t == [110, 97, 110]) && !(t.head? == some 45)
  | t => !(t == [110, 97, 110])

mutual
  /-- the float constants are `repr` texts of floats a literal can denote: not `nan` (there is
  no literal for it) and at most one leading minus sign -/
  def noNan : Expr → Bool
    | .const (.float r) => floatOK r
    | .const _ => true
    | .name _ => true
    | .member e _ => noNan e
    | .index a b | .cmp a _ b | .isIn a b | .impl a b | .add a b | .sub a b => noNan a && noNan b
    | .methodCall e _ args => noNan e && noNanList args
    | .funCall _ args => noNanList args
    | .isNone e | .isNotNone e | .not e => noNan e
    | .and es | .or es => noNanList es
    | .joinedStr ps => noNanParts ps
    | .any g c | .all g c => noNanGen g && noNan c
  def noNanList : List Expr → Bool
    | [] => true
    | e :: es => noNan e && noNanList es
  def noNanParts : List JPart → Bool
    | [] => true
    | .lit _ :: ps => noNanParts ps
    | .fv e :: ps => noNan e && noNanParts ps
  def noNanGen : Gen → Bool
    | .forEach _ it => noNan it
    | .forRange _ a b => noNan a && noNan b
end

@[simp] theorem eval_paren (ρ : Env) (x : PyExpr) : PyExpr.eval ρ (.paren x) = PyExpr.eval ρ x := by
  simp [PyExpr.eval]

@[simp] theorem eval_parenUnless (ρ : Env) (tbl : List Kind) (c : Expr) (x : PyExpr) :
    PyExpr.eval ρ (parenUnless tbl c x) = PyExpr.eval ρ x := by
  unfold parenUnless; split <;> simp

/-- the operator table maps every comparator to the Python operator of the same meaning -/
theorem emitCmp_ok (op : Cmp) : emitCmp op = .ok (.cmp op) := by
  cases op <;> rfl

theorem eval_const (ρ : Env) (c : Const) (h : noNan (.const c) = true) :
    PyExpr.eval ρ (transpileConst c) = .val (constVal c) := by
  cases c with
  | bool b => cases b <;> simp [transpileConst, PyExpr.eval, constVal]
  | int i =>
    simp only [transpileConst]
    split
    · simp [PyExpr.eval, negVal, constVal]; omega
    · simp [PyExpr.eval, constVal]; omega
  | str s => simp [transpileConst, PyExpr.eval, constVal]
  | float r =>
    simp only [noNan] at h
    simp only [transpileConst, constVal]
    match r, h with
    | 45 :: t, h =>
      simp only [floatOK, Bool.and_eq_true, Bool.not_eq_eq_eq_not, Bool.not_true, beq_eq_false_iff_ne] at h
      have h1 : floatAtom t = .float t := by simp [floatAtom, h.1]
      have h2 : negText t = 45 :: t := by
        cases t with
        | nil => rfl
        | cons c u =>
          have : c ≠ 45 := by simpa using h.2
          simp [negText, this]
      simp [h1, PyExpr.eval, negVal, h2]
    | [], h => simp [floatAtom, PyExpr.eval]
    | c :: t, h =>
      by_cases hc : c = 45
      · subst hc
        simp only [floatOK, Bool.and_eq_true, Bool.not_eq_eq_eq_not, Bool.not_true, beq_eq_false_iff_ne] at h
        have h1 : floatAtom t = .float t := by simp [floatAtom, h.1]
        have h2 : negText t = 45 :: t := by
          cases t with
          | nil => rfl
          | cons c u =>
            have : c ≠ 45 := by simpa using h.2
            simp [negText, this]
        simp [h1, PyExpr.eval, negVal, h2]
      · have h' : (c :: t) ≠ [110, 97, 110] := by
          unfold floatOK at h
          split at h
          · next heq => simp at heq; exact absurd heq.1 hc
          · intro hh; simp [hh] at h
        have h1 : floatAtom (c :: t) = .float (c :: t) := by simp [floatAtom, h']
        split
        · next heq => simp at heq; exact absurd heq.1 hc
        · rw [h1]; simp [PyExpr.eval]

def toGenRes (x : Text) : IterRes → GenRes
  | .items vs => .items x vs
  | .range s n => .range x s n
  | .err o => .err o

theorem eval_name (cfg : Cfg) (vs : List Text) (n : Text) (x : PyExpr)
    (h : transpileName cfg vs n = .ok x) (ρ : Env) : PyExpr.eval ρ x = Expr.eval ρ (.name n) := by
  unfold transpileName at h
  split at h
  · split at h
    · cases h
    · cases h; simp only [PyExpr.eval, Expr.eval]; cases lookup n ρ.vars <;> rfl
  · split at h
    · next hs => cases h; subst hs; simp only [PyExpr.eval, Expr.eval]; cases lookup selfName ρ.vars <;> rfl
    · split at h <;> first | (cases h; simp only [PyExpr.eval, Expr.eval]; cases lookup n ρ.vars <;> rfl) | cases h

/-- an f-string without formatted values is the concatenation of its literal parts -/
theorem evalParts_noFv (ρ : Env) : ∀ ps : List JPart, hasFv ps = false →
    Expr.evalParts ρ ps = .val (.str (litsOf ps))
  | [], _ => by simp [Expr.evalParts, litsOf]
  | .lit s :: ps, h => by
    simp only [hasFv] at h
    simp [Expr.evalParts, litsOf, evalParts_noFv ρ ps h]
  | .fv _ :: ps, h => by simp [hasFv] at h

/-- closes goals whose two sides are the same cascade of matches compiled to different matchers -/
macro "same_matches" : tactic =>
  `(tactic| (repeat' (first | rfl | split)) <;> simp_all)

mutual
  theorem preserves (cfg : Cfg) : ∀ (e : Expr) (vs : List Text) (x : PyExpr), noNan e = true →
      transpile cfg vs e = .ok x → ∀ ρ : Env, PyExpr.eval ρ x = Expr.eval ρ e
    | .name n, vs, x, _, h, ρ => by
      simp only [transpile] at h
      exact eval_name cfg vs n x h ρ
    | .const c, vs, x, hn, h, ρ => by
      simp only [transpile] at h
      cases h
      simp [eval_const ρ c hn, Expr.eval]
    | .member inst n, vs, x, hn, h, ρ => by
      simp only [transpile, Res.bind_eq_ok] at h
      obtain ⟨i', hi, h⟩ := h
      simp only [noNan] at hn
      have ih := preserves cfg inst vs i' hn hi ρ
      split at h
      · cases h; simp only [PyExpr.eval, Expr.eval, ih]; same_matches
      · cases h
    | .index c i, vs, x, hn, h, ρ => by
      simp only [transpile, Res.bind_eq_ok] at h
      obtain ⟨c', hc, i', hi, h⟩ := h
      simp only [noNan, Bool.and_eq_true] at hn
      cases h
      simp only [PyExpr.eval, Expr.eval, eval_parenUnless, preserves cfg c vs c' hn.1 hc ρ, preserves cfg i vs i' hn.2 hi ρ]
      same_matches
    | .cmp l op r, vs, x, hn, h, ρ => by
      simp only [transpile, Res.bind_eq_ok, emitCmp_ok] at h
      obtain ⟨o, ho, l', hl, r', hr, h⟩ := h
      cases ho
      simp only [noNan, Bool.and_eq_true] at hn
      split at h <;> cases h <;>
        simp only [PyExpr.eval, Expr.eval, eval_paren, preserves cfg l vs l' hn.1 hl ρ, preserves cfg r vs r' hn.2 hr ρ] <;>
        same_matches
    | .isIn m c, vs, x, hn, h, ρ => by
      simp only [transpile, Res.bind_eq_ok] at h
      obtain ⟨m', hm, c', hc, h⟩ := h
      simp only [noNan, Bool.and_eq_true] at hn
      cases h
      simp only [PyExpr.eval, Expr.eval, eval_parenUnless, preserves cfg m vs m' hn.1 hm ρ, preserves cfg c vs c' hn.2 hc ρ]
      same_matches
    | .impl a c, vs, x, hn, h, ρ => by
      simp only [transpile, Res.bind_eq_ok] at h
      obtain ⟨a', ha, c', hc, h⟩ := h
      simp only [noNan, Bool.and_eq_true] at hn
      cases h
      simp only [PyExpr.eval, PyEmit.evalBool, Expr.eval, eval_parenUnless, preserves cfg a vs a' hn.1 ha ρ, preserves cfg c vs c' hn.2 hc ρ]
      cases hA : Expr.eval ρ a <;> simp [Val.truthy, Out.ofBool] <;> same_matches
    | .methodCall inst n args, vs, x, hn, h, ρ => by
      simp only [transpile, Res.bind_eq_ok] at h
      obtain ⟨i', hi, as', has, h⟩ := h
      simp only [noNan, Bool.and_eq_true] at hn
      cases h
      simp only [PyExpr.eval, Expr.eval, eval_parenUnless, preserves cfg inst vs i' hn.1 hi ρ, preservesArgs cfg args vs as' hn.2 has ρ]
      same_matches
    | .funCall n args, vs, x, hn, h, ρ => by
      simp only [transpile, Res.bind_eq_ok] at h
      obtain ⟨as', has, h⟩ := h
      simp only [noNan] at hn
      have ihA := preservesArgs cfg args vs as' hn has ρ
      split at h
      · cases h
      · cases h; simp only [PyExpr.eval, Expr.eval, ihA]; same_matches
      · split at h
        · split at h
          · cases h; simp only [PyExpr.eval, Expr.eval, ihA]; same_matches
          · cases h
        · cases h
      · cases h
    | .isNone e, vs, x, hn, h, ρ => by
      simp only [transpile, Res.bind_eq_ok] at h
      obtain ⟨e', he, h⟩ := h
      simp only [noNan] at hn
      cases h
      simp only [PyExpr.eval, Expr.eval, eval_parenUnless, preserves cfg e vs e' hn he ρ]
      same_matches
    | .isNotNone e, vs, x, hn, h, ρ => by
      simp only [transpile, Res.bind_eq_ok] at h
      obtain ⟨e', he, h⟩ := h
      simp only [noNan] at hn
      cases h
      simp only [PyExpr.eval, Expr.eval, eval_parenUnless, preserves cfg e vs e' hn he ρ]
      same_matches
    | .not e, vs, x, hn, h, ρ => by
      simp only [transpile, Res.bind_eq_ok] at h
      obtain ⟨e', he, h⟩ := h
      simp only [noNan] at hn
      cases h
      simp only [PyExpr.eval, Expr.eval, eval_parenUnless, preserves cfg e vs e' hn he ρ]
      same_matches
    | .and es, vs, x, hn, h, ρ => by
      simp only [transpile, Res.bind_eq_ok] at h
      obtain ⟨vals, hv, h⟩ := h
      simp only [noNan] at hn
      have ih := preservesVals cfg true es vs vals hn hv ρ
      split at h
      · cases h
      · cases h; simp only [PyEmit.evalBool] at ih; simp only [Expr.eval]; exact ih
      · cases h; simp only [PyExpr.eval, Expr.eval]; exact ih
    | .or es, vs, x, hn, h, ρ => by
      simp only [transpile, Res.bind_eq_ok] at h
      obtain ⟨vals, hv, h⟩ := h
      simp only [noNan] at hn
      have ih := preservesVals cfg false es vs vals hn hv ρ
      split at h
      · cases h
      · cases h; simp only [PyEmit.evalBool] at ih; simp only [Expr.eval]; exact ih
      · cases h; simp only [PyExpr.eval, Expr.eval]; exact ih
    | .add l r, vs, x, hn, h, ρ => by
      simp only [transpile, Res.bind_eq_ok] at h
      obtain ⟨l', hl, r', hr, h⟩ := h
      simp only [noNan, Bool.and_eq_true] at hn
      cases h
      simp only [PyExpr.eval, Expr.eval, eval_parenUnless, preserves cfg l vs l' hn.1 hl ρ, preserves cfg r vs r' hn.2 hr ρ]
      same_matches
    | .sub l r, vs, x, hn, h, ρ => by
      simp only [transpile, Res.bind_eq_ok] at h
      obtain ⟨l', hl, r', hr, h⟩ := h
      simp only [noNan, Bool.and_eq_true] at hn
      cases h
      simp only [PyExpr.eval, Expr.eval, eval_parenUnless, preserves cfg l vs l' hn.1 hl ρ, preserves cfg r vs r' hn.2 hr ρ]
      same_matches
    | .joinedStr ps, vs, x, hn, h, ρ => by
      simp only [transpile] at h
      simp only [noNan] at hn
      split at h
      · simp only [Res.bind_eq_ok] at h
        obtain ⟨ps', hp, h⟩ := h
        cases h
        simp only [PyExpr.eval, Expr.eval]
        exact preservesParts cfg ps vs ps' hn hp ρ
      · next hf =>
        cases h
        simp only [PyExpr.eval, Expr.eval]
        exact (evalParts_noFv ρ ps (by simpa using hf)).symm
    | .any g c, vs, x, hn, h, ρ => by
      simp only [transpile, Res.bind_eq_ok] at h
      obtain ⟨⟨v, it⟩, hg, c', hc, h⟩ := h
      simp only [noNan, Bool.and_eq_true] at hn
      cases h
      have ihg := preservesGen cfg g vs v it hn.1 hg ρ
      have ihc : ∀ ρ', PyExpr.eval ρ' c' = Expr.eval ρ' c := preserves cfg c (v :: vs) c' hn.2 hc
      simp only [PyExpr.eval, Expr.eval, ihg, ihc]
      cases PyEmit.evalIter ρ it <;> simp [toGenRes]
    | .all g c, vs, x, hn, h, ρ => by
      simp only [transpile, Res.bind_eq_ok] at h
      obtain ⟨⟨v, it⟩, hg, c', hc, h⟩ := h
      simp only [noNan, Bool.and_eq_true] at hn
      cases h
      have ihg := preservesGen cfg g vs v it hn.1 hg ρ
      have ihc : ∀ ρ', PyExpr.eval ρ' c' = Expr.eval ρ' c := preserves cfg c (v :: vs) c' hn.2 hc
      simp only [PyExpr.eval, Expr.eval, ihg, ihc]
      cases PyEmit.evalIter ρ it <;> simp [toGenRes]
  theorem preservesGen (cfg : Cfg) : ∀ (g : Gen) (vs : List Text) (v : Text) (it : PyIter), noNanGen g = true →
      transpileGen cfg vs g = .ok (v, it) → ∀ ρ : Env, Expr.evalGen ρ g = toGenRes v (PyEmit.evalIter ρ it)
    | .forEach y e, vs, v, it, hn, h, ρ => by
      simp only [transpileGen, Res.bind_eq_ok] at h
      obtain ⟨e', he, h⟩ := h
      simp only [noNanGen] at hn
      cases h
      simp only [PyEmit.evalIter, Expr.evalGen, eval_parenUnless, preserves cfg e vs e' hn he ρ]
      cases Expr.eval ρ e <;> (try simp [toGenRes]) <;> (try (split <;> simp_all [toGenRes]))
    | .forRange y a b, vs, v, it, hn, h, ρ => by
      simp only [transpileGen, Res.bind_eq_ok] at h
      obtain ⟨a', ha, b', hb, h⟩ := h
      simp only [noNanGen, Bool.and_eq_true] at hn
      cases h
      simp only [PyEmit.evalIter, Expr.evalGen, preserves cfg a vs a' hn.1 ha ρ, preserves cfg b vs b' hn.2 hb ρ]
      cases Expr.eval ρ a <;> (try simp [toGenRes])
      cases Expr.eval ρ b <;> (try simp [toGenRes])
      split <;> (split <;> simp_all [toGenRes]) <;> (first | omega | (obtain ⟨h1, h2⟩ := ‹_ ∧ _›; subst h1; exact h2))
  theorem preservesArgs (cfg : Cfg) : ∀ (es : List Expr) (vs : List Text) (xs : List PyExpr), noNanList es = true →
      transpileArgs cfg vs es = .ok xs → ∀ ρ : Env, PyEmit.evalArgs ρ xs = Expr.evalArgs ρ es
    | [], vs, xs, _, h, ρ => by
      simp only [transpileArgs] at h; cases h; simp [PyEmit.evalArgs, Expr.evalArgs]
    | e :: es, vs, xs, hn, h, ρ => by
      simp only [transpileArgs, Res.bind_eq_ok] at h
      obtain ⟨e', he, es', hes, h⟩ := h
      simp only [noNanList, Bool.and_eq_true] at hn
      cases h
      simp only [PyEmit.evalArgs, Expr.evalArgs, preserves cfg e vs e' hn.1 he ρ, preservesArgs cfg es vs es' hn.2 hes ρ]
      same_matches
  theorem preservesVals (cfg : Cfg) (isAnd : Bool) : ∀ (es : List Expr) (vs : List Text) (xs : List PyExpr), noNanList es = true →
      transpileVals cfg vs es = .ok xs → ∀ ρ : Env,
      PyEmit.evalBool ρ isAnd xs = (if isAnd then Expr.evalAnd ρ es else Expr.evalOr ρ es)
    | [], vs, xs, _, h, ρ => by
      simp only [transpileVals] at h; cases h; cases isAnd <;> simp [PyEmit.evalBool, Expr.evalAnd, Expr.evalOr]
    | [e], vs, xs, hn, h, ρ => by
      simp only [transpileVals, Res.bind_eq_ok] at h
      obtain ⟨e', he, es', hes, h⟩ := h
      simp only [noNanList, Bool.and_eq_true] at hn
      cases hes; cases h
      simp only [PyEmit.evalBool, eval_parenUnless, preserves cfg e vs e' hn.1 he ρ]
      cases isAnd <;> simp [Expr.evalAnd, Expr.evalOr]
    | e :: e2 :: es, vs, xs, hn, h, ρ => by
      simp only [transpileVals, Res.bind_eq_ok] at h
      obtain ⟨e', he, es', ⟨e2', he2, es2', hes2, h2⟩, h⟩ := h
      simp only [noNanList, Bool.and_eq_true] at hn
      have ih := preservesVals cfg isAnd (e2 :: es) vs es' (by simp [noNanList, hn.2]) (by
        simp only [transpileVals, Res.bind_eq_ok]; exact ⟨e2', he2, es2', hes2, h2⟩) ρ
      cases h2; cases h
      simp only [PyEmit.evalBool, eval_parenUnless, preserves cfg e vs e' hn.1 he ρ]
      cases isAnd
      · simp only [Expr.evalOr]
        simp only [Bool.false_eq_true, if_false] at ih
        cases Expr.eval ρ e <;> simp
        split <;> simp_all
      · simp only [Expr.evalAnd]
        simp only [if_true] at ih
        cases Expr.eval ρ e <;> simp
        split <;> simp_all
  theorem preservesParts (cfg : Cfg) : ∀ (ps : List JPart) (vs : List Text) (xs : List PyPart), noNanParts ps = true →
      transpileParts cfg vs ps = .ok xs → ∀ ρ : Env, PyEmit.evalParts ρ xs = Expr.evalParts ρ ps
    | [], vs, xs, _, h, ρ => by
      simp only [transpileParts] at h; cases h; simp [PyEmit.evalParts, Expr.evalParts]
    | .lit s :: ps, vs, xs, hn, h, ρ => by
      simp only [transpileParts, Res.bind_eq_ok] at h
      obtain ⟨ps', hp, h⟩ := h
      simp only [noNanParts] at hn
      cases h
      simp only [PyEmit.evalParts, Expr.evalParts, preservesParts cfg ps vs ps' hn hp ρ]
      same_matches
    | .fv e :: ps, vs, xs, hn, h, ρ => by
      simp only [transpileParts, Res.bind_eq_ok] at h
      obtain ⟨e', he, h⟩ := h
      simp only [noNanParts, Bool.and_eq_true] at hn
      split at h
      · cases h
      · simp only [Res.bind_eq_ok] at h
        obtain ⟨ps', hp, h⟩ := h
        cases h
        simp only [PyEmit.evalParts, Expr.evalParts, preserves cfg e vs e' hn.1 he ρ, preservesParts cfg ps vs ps' hn.2 hp ρ]
        same_matches
end

end AasVerif.PyEmit
