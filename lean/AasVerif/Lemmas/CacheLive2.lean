import AasVerif.Lemmas.CacheLive
namespace AasVerif.Cache

theorem final_ne_tmp (cfg : Cfg) (i t : Nat) : finalOf cfg t ≠ tmpOf cfg i t := by simp [finalOf, tmpOf]
theorem tmp_ne_final (cfg : Cfg) (i t : Nat) : tmpOf cfg i t ≠ finalOf cfg t := by simp [finalOf, tmpOf]

theorem exec_facts (cfg : Cfg) (i : Nat) (p0 : Proc) (g : GOp) (rest : List GOp) (fs : FS) (dir : Bool) (e : Eff)
    (hP : Pure cfg i p0) (htodo : p0.todo = g :: rest)
    (he : exec cfg i { p0 with todo := rest } fs dir g = some e)
    (hhit : p0.hit = some true → (fs (finalOf cfg p0.text)).isSome = true)
    (hmkd : p0.mkd = true → dir = true)
    (hte : p0.te = true → (fs (tmpOf cfg i p0.text)).isSome = true) :
    (e.p.hit = some true → (e.fs (finalOf cfg p0.text)).isSome = true) ∧
    (e.p.mkd = true → e.dir = true) ∧
    (e.p.te = true → (e.fs (tmpOf cfg i p0.text)).isSome = true) := by
  obtain ⟨_, _, h3, _⟩ := head_safe cfg i p0 g rest hP htodo
  have hh := hP.handle
  unfold exec at he
  cases hop : g.op with
  | «exists» pe =>
    simp only [hop] at he h3
    have hpe : pe = .final := by simpa [safeOp] using h3
    subst hpe
    cases he
    refine ⟨?_, hmkd, hte⟩
    intro hb
    simpa [pathOf_final] using hb
  | openW pe =>
    simp only [hop] at he h3
    have hpe : pe = .tmp ∧ wkOf p0.w = .none := by simpa [safeOp] using h3
    obtain ⟨hpe, _⟩ := hpe
    subst hpe
    split at he
    · cases he
      refine ⟨?_, hmkd, ?_⟩
      · intro hb
        simp only [pathOf_tmp]
        rw [FS.set_other _ _ _ _ (final_ne_tmp cfg i p0.text)]
        exact hhit hb
      · intro _
        simp only [pathOf_tmp]
        rw [FS.set_same]; rfl
    · cases he
  | closeW =>
    simp only [hop] at he
    split at he
    · next q hq =>
      cases he
      have hqt : q = tmpOf cfg i p0.text := hh q true hq
      subst hqt
      refine ⟨?_, hmkd, ?_⟩
      · intro hb
        simp only
        rw [FS.set_other _ _ _ _ (final_ne_tmp cfg i p0.text)]
        exact hhit hb
      · intro _
        simp only
        rw [FS.set_same]; rfl
    · cases he; exact ⟨hhit, hmkd, hte⟩
    · cases he
  | rename sp dp =>
    simp only [hop] at he h3
    have hs : sp = .tmp ∧ dp = .final := by
      have : sp = .tmp ∧ dp = .final ∧ p0.tc = true ∧ wkOf p0.w = .none := by simpa [safeOp, and_assoc] using h3
      exact ⟨this.1, this.2.1⟩
    obtain ⟨hs, hd⟩ := hs
    subst hs; subst hd
    split at he
    · cases he
    · next c hc =>
      cases he
      refine ⟨?_, hmkd, ?_⟩
      · intro _
        simp only [pathOf_tmp, pathOf_final]
        rw [FS.set_other _ _ _ _ (final_ne_tmp cfg i p0.text), FS.set_same]; rfl
      · intro hb; simp at hb
  | unlink pe mok =>
    simp only [hop] at he h3
    have hpe : pe = .tmp := by
      have : pe = .tmp ∧ wkOf p0.w = .none := by simpa [safeOp] using h3
      exact this.1
    subst hpe
    split at he
    · split at he
      · cases he
        refine ⟨hhit, hmkd, ?_⟩
        intro hb; simp at hb
      · cases he
    · cases he
      refine ⟨?_, hmkd, ?_⟩
      · intro hb
        simp only [pathOf_tmp]
        rw [FS.set_other _ _ _ _ (final_ne_tmp cfg i p0.text)]
        exact hhit hb
      · intro hb; simp at hb
  | mkdir eok =>
    simp only [hop] at he
    split at he
    · cases he
    · cases he
      exact ⟨hhit, fun _ => rfl, hte⟩
  | _ =>
    simp only [hop] at he
    repeat' split at he
    all_goals
      first
      | (cases he; done)
      | (cases he; exact ⟨hhit, hmkd, hte⟩)

end AasVerif.Cache
