import AasVerif.Lemmas.RevmEq9
import AasVerif.Lemmas.RevmSem
/-!
Assembly of the three parts (label resolution, fragment semantics, `Match` loop) for C18.
-/
set_option linter.unusedSimpArgs false
namespace AasVerif.Revm
open AasVerif.Retree

theorem dropLast_getLast? {α} : ∀ (l : List α) (a : α), l.getLast? = some a → l = l.dropLast ++ [a]
  | [], a, h => by simp at h
  | [x], a, h => by simp at h; simp [h]
  | x :: y :: rest, a, h => by
    have := dropLast_getLast? (y :: rest) a (by simpa [List.getLast?_cons_cons] using h)
    simp [List.dropLast]
    exact this

/-- For an anchored pattern and a text without line breaks `re.match` and `re.fullmatch` agree. -/
theorem prefixMatch_iff_fullMatch (r : Regex) (s : Text) (hr : Accepted r) (hs : NoLineBreak s) :
    PrefixMatch r s ↔ FullMatch r s := by
  constructor
  · rintro ⟨s₁, s₂, hsplit, hm⟩
    obtain ⟨t, ts, l, hrr, ht, hl, hstop, _⟩ := accepted_shape r hr
    subst hrr
    have ht' := isStartTerm_eq ht
    have hl' := isStopTerm_eq hstop
    subst ht' hl'
    obtain ⟨ts', hmem, hts⟩ := MUnion_iff.mp hm
    simp at hmem
    subst hmem
    obtain ⟨a, b, hab, h1, h2⟩ := MTerms_cons_iff.mp hts
    have ha := (MValue_start_iff.mp (MTerm_plain_iff.mp h1)).2
    subst ha
    have hdec : ts = ts.dropLast ++ [stopT] := dropLast_getLast? ts stopT hl
    rw [hdec] at h2
    have hy := MTerms_last_stop h2
    have hs2 : s₂ = [] := by
      rcases hy with h | h
      · exact h
      · exfalso
        have : (10 : Nat) ∈ s := by rw [hsplit, h]; simp
        exact hs 10 this rfl
    subst hs2
    simp at hsplit
    subst hsplit
    exact hm
  · intro h
    exact ⟨s, [], by simp, h⟩

/-- The translated program of an accepted pattern: well-formed, exact search, equal to the clean program. -/
theorem translate_accepted (r : Regex) (p : List Leaf) (hr : Accepted r) (hp : translate r = .ok p) :
    instrs p = compileTop r ∧ WfProg (instrs p) ∧ SearchOk (instrs p) := by
  obtain ⟨p', h1, h2, _⟩ := translate_eq r hr
  rw [hp] at h1
  have : p = p' := by simpa using h1
  subst this
  refine ⟨h2, (translate_props r p hp).1, ?_⟩
  rw [h2]
  exact searchOk_of_sorted _ (setsSorted_compileTop r hr)

end AasVerif.Revm
