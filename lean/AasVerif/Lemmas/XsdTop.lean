import AasVerif.Lemmas.XsdReadTree
import AasVerif.Lemmas.XsdSem
/-!
From the parser's image (`inRangeUnion`) to the readable trees (`rdUnion`), and the assembly of
the two halves of the pattern theorem.
-/
namespace AasVerif.XsdPattern
open AasVerif AasVerif.Retree

theorem raConcats_isEmpty (cs : List Concat) : (raConcats cs).isEmpty = cs.isEmpty := by
  cases cs with
  | nil => rfl
  | cons c cs => obtain ⟨ts⟩ := c; rfl

mutual
  theorem rd_of_value : (v : Value) → inRangeValue v = true → fvValue v = false → isAnchor v = false →
      rdValue (raValue v) = true
    | .group u, h, hf, _ => by
      simp only [inRangeValue, Bool.and_eq_true] at h
      simp only [fvValue] at hf
      simp only [raValue, rdValue, Bool.and_eq_true]
      refine ⟨rd_of_union u h.1 hf, ?_⟩
      obtain ⟨us⟩ := u
      simpa [raUnion, Union.uniates, raConcats_isEmpty] using h.2
    | .char _, _, _, _ => by simp [raValue, rdValue]
    | .set compl rs, h, _, _ => by simpa [raValue, rdValue, inRangeValue] using h
    | .fv _, _, hf, _ => by simp [fvValue] at hf
    | .sym .dot, _, _, _ => by simp [raValue, rdValue]
    | .sym .start, _, _, ha => by simp [isAnchor] at ha
    | .sym .stop, _, _, ha => by simp [isAnchor] at ha
  theorem rd_of_terms : (ts : List Term) → inRangeTerms ts = true → fvTerms ts = false →
      rdTerms (raTerms ts) = true
    | [], _, _ => by simp [raTerms, rdTerms]
    | .mk v q :: ts, h, hf => by
      simp only [inRangeTerms, inRangeTerm, Bool.and_eq_true] at h
      simp only [fvTerms, Bool.or_eq_false_iff] at hf
      simp only [raTerms]
      split
      · exact rd_of_terms ts h.2 hf.2
      · next ha =>
        have ha' : isAnchor v = false := by simpa using ha
        simp only [rdTerms, Bool.and_eq_true]
        refine ⟨⟨rd_of_value v h.1.1 hf.1 ha', ?_⟩, rd_of_terms ts h.2 hf.2⟩
        cases q with
        | none => rfl
        | some q =>
          have := h.1.2
          simp only [Bool.and_eq_true] at this
          exact this.1
  theorem rd_of_concats : (cs : List Concat) → inRangeConcats cs = true → fvConcats cs = false →
      rdConcats (raConcats cs) = true
    | [], _, _ => by simp [raConcats, rdConcats]
    | .mk ts :: cs, h, hf => by
      simp only [inRangeConcats, Bool.and_eq_true] at h
      simp only [fvConcats, Bool.or_eq_false_iff] at hf
      simp only [raConcats, rdConcats, Bool.and_eq_true]
      exact ⟨rd_of_terms ts h.1 hf.1, rd_of_concats cs h.2 hf.2⟩
  theorem rd_of_union : (u : Union) → inRangeUnion u = true → fvUnion u = false → rdUnion (raUnion u) = true
    | .mk us, h, hf => by
      simp only [inRangeUnion] at h
      simp only [fvUnion] at hf
      simp only [raUnion, rdUnion]
      exact rd_of_concats us h hf
end

/-- what `_translate_pattern` writes is read by an XSD processor as the normalised, anchor-free tree -/
theorem read_translateTree (lit rng : EscTable) (hl : shapeOk metaLit lit = true) (hs : SetLemma rng)
    (r : Regex) (hin : inRangeUnion r = true) (hne : r.uniates ≠ []) (t : Text)
    (ht : translateTree lit rng r = .ok t) : XsdRe.read t = .ok (normUnion (raUnion r)) := by
  unfold translateTree at ht
  split at ht
  · cases ht
  · split at ht
    · cases ht
    · next hfv =>
      injection ht with ht
      subst ht
      have hfv' : fvUnion r = false := by simpa using hfv
      refine read_render lit rng hl hs _ (rd_of_union r hin hfv') ?_
      obtain ⟨us⟩ := r
      intro h
      apply hne
      have : (raConcats us).isEmpty = true := by simpa [raUnion, Union.uniates] using h
      rw [raConcats_isEmpty] at this
      simpa [Union.uniates] using this

end AasVerif.XsdPattern
