import AasVerif.Lemmas.HierStack
/-!
In-lining of the constructors (declaration order, de-duplicated by statement identity):
for constructors written the canonical way — call the parents' constructors in the order of the
inheritance list, then assign the own properties in their order — the in-lined statements assign
exactly the stacked properties, each once, in the order of the properties.
-/
namespace AasVerif.Hier

/-- `(owner, target)` of an in-lined assignment: the property it assigns -/
def InlStmt.item (s : InlStmt) : Item := (s.owner, s.target)

/-- the own assignments of a class as in-lined statements, numbered from `k` -/
def ownStmts (c : ParsedClass) (k : Nat) : List InlStmt :=
  (c.ownProps.zipIdx k).map (fun xi => ⟨c.name, xi.2, xi.1⟩)

/-- parents whose constructor is called -/
def calledParents (called : Name → Bool) (c : ParsedClass) : List Name := c.parents.filter called

/-- the constructor as a modeller writes it -/
def CanonicalCtor (called : Name → Bool) (c : ParsedClass) : Prop :=
  c.ctor = (calledParents called c).map Stmt.callSuper ++ c.ownProps.map Stmt.assign

/-- the loop body of `inlineOne` -/
def inlStep (st : Name → List InlStmt) (cname : Name) (acc : List InlStmt) (si : Stmt × Nat) : List InlStmt :=
  match si.1 with
  | .callSuper p => addAll acc (st p)
  | .assign x => acc ++ [⟨cname, si.2, x⟩]

theorem inlineOne_eq (st : Name → List InlStmt) (c : ParsedClass) :
    inlineOne st c = (c.ctor.zipIdx).foldl (inlStep st c.name) [] := rfl

theorem foldl_supers (st : Name → List InlStmt) (cname : Name) :
    ∀ (S : List Name) (k : Nat) (acc : List InlStmt),
      ((S.map Stmt.callSuper).zipIdx k).foldl (inlStep st cname) acc = addAll acc (S.flatMap st) := by
  intro S
  induction S with
  | nil => intro k acc; simp [addAll_nil]
  | cons p S ih =>
    intro k acc
    simp only [List.map_cons, List.zipIdx_cons, List.foldl_cons, List.flatMap_cons]
    rw [ih, addAll_append]
    rfl

theorem foldl_assigns (st : Name → List InlStmt) (c : ParsedClass) :
    ∀ (xs : List Name) (k : Nat) (acc : List InlStmt),
      ((xs.map Stmt.assign).zipIdx k).foldl (inlStep st c.name) acc
        = acc ++ (xs.zipIdx k).map (fun xi => ⟨c.name, xi.2, xi.1⟩) := by
  intro xs
  induction xs with
  | nil => intro k acc; simp
  | cons x xs ih =>
    intro k acc
    simp only [List.map_cons, List.zipIdx_cons, List.foldl_cons]
    rw [ih]
    simp [inlStep]

theorem inlineOne_canonical (st : Name → List InlStmt) (called : Name → Bool) (c : ParsedClass)
    (h : CanonicalCtor called c) :
    inlineOne st c = addAll [] ((calledParents called c).flatMap st) ++ ownStmts c (calledParents called c).length := by
  rw [inlineOne_eq, h, List.zipIdx_append, List.foldl_append, foldl_supers, foldl_assigns]
  simp [ownStmts]

theorem map_item_ownStmts (c : ParsedClass) (k : Nat) :
    (ownStmts c k).map InlStmt.item = c.ownProps.map (fun x => (c.name, x)) := by
  unfold ownStmts
  generalize c.ownProps = xs
  induction xs generalizing k with
  | nil => simp
  | cons x xs ih =>
    simp only [List.zipIdx_cons, List.map_cons, List.cons.injEq]
    exact ⟨rfl, ih (k + 1)⟩

theorem zipIdx_fst_inj {xs : List Name} (hnd : xs.Nodup) :
    ∀ (k : Nat) (a b : Name × Nat), a ∈ xs.zipIdx k → b ∈ xs.zipIdx k → a.1 = b.1 → a = b := by
  induction xs with
  | nil => intro k a b ha; simp at ha
  | cons x xs ih =>
    intro k a b ha hb hab
    have hx := List.nodup_cons.mp hnd
    simp only [List.zipIdx_cons, List.mem_cons] at ha hb
    have fstmem : ∀ (c : Name × Nat) (j : Nat), c ∈ xs.zipIdx j → c.1 ∈ xs := by
      intro c j hc
      have := List.mem_zipIdx hc
      rw [this.2.2]
      exact List.getElem_mem _
    rcases ha with rfl | ha <;> rcases hb with rfl | hb
    · rfl
    · exfalso; apply hx.1; have := fstmem b _ hb; rw [← hab] at this; exact this
    · exfalso; apply hx.1; have := fstmem a _ ha; rw [hab] at this; exact this
    · exact ih hx.2 (k + 1) a b ha hb hab

/-- `map` commutes with the de-duplicating loop when the function is injective on what is looped over -/
theorem map_addAll_of_inj {α β : Type} [DecidableEq α] [DecidableEq β] (f : α → β) :
    ∀ (L acc : List α), (∀ a ∈ acc ++ L, ∀ b ∈ acc ++ L, f a = f b → a = b) →
      (addAll acc L).map f = addAll (acc.map f) (L.map f) := by
  intro L
  induction L with
  | nil => intro acc _; simp [addAll_nil]
  | cons x L ih =>
    intro acc hinj
    rw [addAll_cons, List.map_cons, addAll_cons]
    have hmem : x ∈ acc ↔ f x ∈ acc.map f := by
      constructor
      · intro h; exact List.mem_map.mpr ⟨x, h, rfl⟩
      · intro h
        obtain ⟨y, hy, hyx⟩ := List.mem_map.mp h
        have := hinj y (by simp [hy]) x (by simp) hyx
        rw [← this]; exact hy
    have hpush : (pushNew acc x).map f = pushNew (acc.map f) (f x) := by
      unfold pushNew
      by_cases hx : x ∈ acc
      · simp [hx, hmem.mp hx]
      · have : f x ∉ acc.map f := fun h => hx (hmem.mpr h)
        simp [hx, this]
    rw [← hpush]
    apply ih
    intro a ha b hb hab
    apply hinj a _ b _ hab
    · simp only [List.mem_append, mem_pushNew, List.mem_cons] at ha ⊢
      rcases ha with (h | h) | h
      · exact Or.inl h
      · exact Or.inr (Or.inl h)
      · exact Or.inr (Or.inr h)
    · simp only [List.mem_append, mem_pushNew, List.mem_cons] at hb ⊢
      rcases hb with (h | h) | h
      · exact Or.inl h
      · exact Or.inr (Or.inl h)
      · exact Or.inr (Or.inr h)

/-- every class is declared after its parents (a Python-legal declaration order) -/
def DeclaredParentsFirst (cs : List ParsedClass) : Prop := TopoSorted (parentsOf cs) (names cs)

/-- Every constructor is canonical; a parent's constructor may be left out only if the parent has
nothing to initialise. -/
structure CtorsWellFormed (cs : List ParsedClass) (called : Name → Bool) (order : List Name) : Prop where
  canonical : ∀ c ∈ cs, CanonicalCtor called c
  skipped : ∀ p, called p = false → propsOf cs order p = []

/-- the classes whose constructor a constructor calls -/
def supersOf (c : ParsedClass) : List Name :=
  c.ctor.filterMap (fun s => match s with | .callSuper p => some p | .assign _ => none)

theorem mem_supersOf {c : ParsedClass} {p : Name} : p ∈ supersOf c ↔ Stmt.callSuper p ∈ c.ctor := by
  unfold supersOf
  simp only [List.mem_filterMap]
  constructor
  · rintro ⟨s, hs, h⟩
    cases s with
    | callSuper q => simp at h; subst h; exact hs
    | assign x => simp at h
  · intro h
    exact ⟨_, h, rfl⟩

theorem inlineOne_congr (st st' : Name → List InlStmt) (c : ParsedClass)
    (h : ∀ p ∈ supersOf c, st p = st' p) : inlineOne st c = inlineOne st' c := by
  rw [inlineOne_eq, inlineOne_eq]
  have key : ∀ (l : List (Stmt × Nat)) (acc : List InlStmt),
      (∀ si ∈ l, ∀ p, si.1 = Stmt.callSuper p → st p = st' p) →
      l.foldl (inlStep st c.name) acc = l.foldl (inlStep st' c.name) acc := by
    intro l
    induction l with
    | nil => intro acc _; rfl
    | cons si l ih =>
      intro acc hl
      simp only [List.foldl_cons]
      have e : inlStep st c.name acc si = inlStep st' c.name acc si := by
        unfold inlStep
        cases hsi : si.1 with
        | callSuper p => simp only []; rw [hl si (by simp) p hsi]
        | assign y => rfl
      rw [e]
      exact ih _ (fun sj hsj p hp => hl sj (by simp [hsj]) p hp)
  apply key
  intro si hsi p hp
  apply h p
  rw [mem_supersOf, ← hp]
  have := List.mem_zipIdx hsi
  rw [this.2.2]
  exact List.getElem_mem _

section
variable {cs : List ParsedClass} {order : List Name} {called : Name → Bool}

theorem supersOf_canonical {c : ParsedClass} (h : CanonicalCtor called c) {p : Name} (hp : p ∈ supersOf c) :
    p ∈ calledParents called c := by
  rw [mem_supersOf, h] at hp
  simp only [List.mem_append, List.mem_map, reduceCtorEq, and_false, exists_false, or_false,
    Stmt.callSuper.injEq, exists_eq_right] at hp
  exact hp

theorem inlineAll_eq (hu : UniqueNames cs) (hd : DeclaredParentsFirst cs) (hw : CtorsWellFormed cs called order)
    {c : ParsedClass} (hc : c ∈ cs) :
    inlineAll cs c.name = inlineOne (inlineAll cs) c := by
  unfold inlineAll inlineL
  apply foldUpd_spec (κ := ParsedClass) (·.name) (fun _ => ([] : List InlStmt)) inlineOne supersOf cs hu
  · intro x st st' h
    exact inlineOne_congr st st' x h
  · intro l1 x l2 hs p hp
    have hx : x ∈ cs := by rw [hs]; simp
    have hpc := supersOf_canonical (hw.canonical x hx) hp
    have hpp : p ∈ parentsOf cs x.name := by
      rw [parentsOf_of_find? (find?_of_mem hu hx)]
      exact (List.mem_filter.mp hpc).1
    have hsn : names cs = l1.map (·.name) ++ x.name :: l2.map (·.name) := by simp [names, hs]
    have := hd.not_after hu hsn hpp
    simpa using this
  · exact hc

/-- an in-lined statement is one of the own assignments of the class it names as owner -/
def FromOwn (cs : List ParsedClass) (called : Name → Bool) (s : InlStmt) : Prop :=
  ∃ cl ∈ cs, cl.name = s.owner ∧ s ∈ ownStmts cl (calledParents called cl).length

theorem fromOwn_inj (hu : UniqueNames cs) (hown : ∀ c ∈ cs, c.ownProps.Nodup) {a b : InlStmt}
    (ha : FromOwn cs called a) (hb : FromOwn cs called b) (hab : a.item = b.item) : a = b := by
  obtain ⟨ca, hca, hna, hma⟩ := ha
  obtain ⟨cb, hcb, hnb, hmb⟩ := hb
  have ho : a.owner = b.owner := congrArg Prod.fst hab
  have ht : a.target = b.target := congrArg Prod.snd hab
  have hcc : ca = cb := by
    have h1 := find?_of_mem hu hca
    have h2 := find?_of_mem hu hcb
    rw [hna, ho, ← hnb] at h1
    rw [h1] at h2
    exact Option.some.inj h2
  subst hcc
  unfold ownStmts at hma hmb
  obtain ⟨xa, hxa, rfl⟩ := List.mem_map.mp hma
  obtain ⟨xb, hxb, rfl⟩ := List.mem_map.mp hmb
  have := zipIdx_fst_inj (hown ca hca) _ xa xb hxa hxb ht
  rw [this]

theorem flatMap_filter_of_nil {β : Type} (f : Name → List β) (called : Name → Bool)
    (h : ∀ p, called p = false → f p = []) (l : List Name) : l.flatMap f = (l.filter called).flatMap f := by
  induction l with
  | nil => rfl
  | cons x l ih =>
    simp only [List.flatMap_cons, List.filter_cons]
    cases hx : called x with
    | true => simp [ih]
    | false => simp [h x hx, ih]

/-- **Constructor in-lining.** For canonical constructors in a Python-legal declaration order the in-lined
statements of every class assign exactly its stacked properties, each once, in their order. -/
theorem inlineAll_spec (hu : UniqueNames cs) (ho : IsTopoOrder cs order)
    (hd : DeclaredParentsFirst cs) (hown : ∀ c ∈ cs, c.ownProps.Nodup) (hw : CtorsWellFormed cs called order) :
    ∀ n ∈ names cs, (inlineAll cs n).map InlStmt.item = propsOf cs order n
      ∧ ∀ s ∈ inlineAll cs n, FromOwn cs called s := by
  refine topo_induction (P := fun n => (inlineAll cs n).map InlStmt.item = propsOf cs order n
      ∧ ∀ s ∈ inlineAll cs n, FromOwn cs called s) hd ?_
  intro n hn ih
  obtain ⟨c, hc, rfl⟩ := List.mem_map.mp hn
  have hfind := find?_of_mem hu hc
  have hpar : parentsOf cs c.name = c.parents := parentsOf_of_find? hfind
  have hcalled : ∀ p ∈ calledParents called c, p ∈ parentsOf cs c.name := by
    intro p hp'
    rw [hpar]
    exact (List.mem_filter.mp hp').1
  have heq : inlineAll cs c.name
      = addAll [] ((calledParents called c).flatMap (inlineAll cs)) ++ ownStmts c (calledParents called c).length := by
    rw [inlineAll_eq hu hd hw hc, inlineOne_canonical _ called c (hw.canonical c hc)]
  have hfrom : ∀ s ∈ inlineAll cs c.name, FromOwn cs called s := by
    intro s hs
    rw [heq, List.mem_append, mem_addAll] at hs
    rcases hs with (h | h) | h
    · simp at h
    · obtain ⟨p, hp', hsp⟩ := List.mem_flatMap.mp h
      exact (ih p (hcalled p hp')).2 s hsp
    · exact ⟨c, hc, by
        unfold ownStmts at h
        obtain ⟨x, _, rfl⟩ := List.mem_map.mp h
        rfl, h⟩
  refine ⟨?_, hfrom⟩
  rw [heq, List.map_append, map_item_ownStmts]
  have hinj : ∀ a ∈ ([] : List InlStmt) ++ (calledParents called c).flatMap (inlineAll cs),
      ∀ b ∈ ([] : List InlStmt) ++ (calledParents called c).flatMap (inlineAll cs), a.item = b.item → a = b := by
    intro a ha b hb hab
    simp only [List.nil_append] at ha hb
    obtain ⟨pa, hpa, hsa⟩ := List.mem_flatMap.mp ha
    obtain ⟨pb, hpb, hsb⟩ := List.mem_flatMap.mp hb
    exact fromOwn_inj hu hown ((ih pa (hcalled pa hpa)).2 a hsa) ((ih pb (hcalled pb hpb)).2 b hsb) hab
  rw [map_addAll_of_inj InlStmt.item _ [] hinj]
  unfold propsOf
  rw [stackAll_eq _ (ho.nodup hu) ho.sorted (ho.mem.mpr hn), hpar]
  have e1 : ((calledParents called c).flatMap (inlineAll cs)).map InlStmt.item
      = c.parents.flatMap (stackAll (parentsOf cs) (ownItems cs (·.ownProps)) order) := by
    rw [List.map_flatMap]
    have := flatMap_filter_of_nil (propsOf cs order) called hw.skipped c.parents
    unfold propsOf at this
    rw [this]
    apply flatMap_congr'
    intro p hp'
    exact (ih p (hcalled p hp')).1
  rw [e1]
  have e2 : ownItems cs (·.ownProps) c.name = c.ownProps.map (fun x => (c.name, x)) := by
    unfold ownItems ownOf
    rw [hfind]
  rw [e2]
  rfl

end

end AasVerif.Hier
