import AasVerif.Lemmas.SdkTotal
/-! Whatever `fromJson` accepts is a conforming instance (no mistyped value gets through). -/
namespace AasVerif

namespace Base64

theorem consOk_ok {b : Nat} {r : Except DecErr (List Nat)} {out : List Nat}
    (h : consOk b r = .ok out) : ∃ l, r = .ok l ∧ out = b :: l := by
  cases r with
  | ok l => simp only [consOk, Except.ok.injEq] at h; exact ⟨l, rfl, h.symm⟩
  | error e => simp [consOk] at h

theorem loop_bytes : ∀ (cs : List Nat) (qp left pads : Nat) (out : List Nat),
    loop qp left pads cs = .ok out → ∀ x ∈ out, x < 256
  | [], qp, left, pads, out, h => by
    rw [loop] at h
    split at h
    · cases h; intro x hx; cases hx
    · split at h <;> cases h
  | c :: cs, qp, left, pads, out, h => by
    rw [loop] at h
    by_cases hp : c = pad
    · rw [if_pos hp] at h
      by_cases h2 : 2 ≤ qp
      · rw [if_pos h2] at h
        by_cases h4 : 4 ≤ qp + (pads + 1)
        · rw [if_pos h4] at h; cases h; intro x hx; cases hx
        · rw [if_neg h4] at h; exact loop_bytes cs _ _ _ out h
      · rw [if_neg h2] at h; exact loop_bytes cs _ _ _ out h
    · rw [if_neg hp] at h
      cases hd : decChar c with
      | none => rw [hd] at h; exact loop_bytes cs _ _ _ out h
      | some v =>
        rw [hd] at h
        simp only at h
        by_cases h0 : qp = 0
        · rw [if_pos h0] at h; exact loop_bytes cs _ _ _ out h
        · rw [if_neg h0] at h
          by_cases h1 : qp = 1
          · rw [if_pos h1] at h
            obtain ⟨l, hl, rfl⟩ := consOk_ok h
            intro x hx
            rcases List.mem_cons.mp hx with rfl | hx
            · exact Nat.mod_lt _ (by decide)
            · exact loop_bytes cs _ _ _ l hl x hx
          · rw [if_neg h1] at h
            by_cases h2 : qp = 2
            · rw [if_pos h2] at h
              obtain ⟨l, hl, rfl⟩ := consOk_ok h
              intro x hx
              rcases List.mem_cons.mp hx with rfl | hx
              · exact Nat.mod_lt _ (by decide)
              · exact loop_bytes cs _ _ _ l hl x hx
            · rw [if_neg h2] at h
              obtain ⟨l, hl, rfl⟩ := consOk_ok h
              intro x hx
              rcases List.mem_cons.mp hx with rfl | hx
              · exact Nat.mod_lt _ (by decide)
              · exact loop_bytes cs _ _ _ l hl x hx

theorem decode_bytes {t out : List Nat} (h : decode t = .ok out) : ∀ x ∈ out, x < 256 := by
  unfold decode at h
  split at h
  · exact loop_bytes t 0 0 0 out h
  · cases h

end Base64

namespace Sdk

theorem conforms_of_beneath {mm : MM} {t : Ty} {v : Val}
    (h : conformsNN mm t.beneathOpt v = true) : conforms mm t v = true := by
  cases t with
  | opt t => cases v <;> first | rfl | simpa [conforms, Ty.beneathOpt] using h
  | prim p => cases v <;> simpa [conforms, Ty.beneathOpt] using h
  | enum e => cases v <;> simpa [conforms, Ty.beneathOpt] using h
  | cls c => cases v <;> simpa [conforms, Ty.beneathOpt] using h
  | list t => cases v <;> simpa [conforms, Ty.beneathOpt] using h

theorem readPrim_welltyped (mm : MM) (p : Prim) (j : Json) (v : Val) (h : readPrim p j = .ok v) :
    conformsNN mm (.prim p) v = true := by
  unfold readPrim at h
  by_cases hk : (primAccepts p).contains j.kind = true
  · rw [if_pos hk] at h
    cases p with
    | bytes =>
      cases j with
      | str s =>
        simp only at h
        cases hd : Base64.decode s with
        | ok bs =>
          rw [hd] at h
          simp only [Res.ok.injEq] at h
          subst h
          simp only [conformsNN, bytesOk, List.all_eq_true, decide_eq_true_eq]
          exact Base64.decode_bytes hd
        | error err =>
          rw [hd] at h
          cases err <;> simp [raisedIn] at h <;> split at h <;> cases h
      | null => simp at h
      | bool _ => simp at h
      | int _ => simp at h
      | float _ => simp at h
      | arr _ => simp at h
      | obj _ => simp at h
    | bool =>
      simp only [Res.ok.injEq] at h
      subst h
      cases j <;> simp [primAccepts, Gen.SdkJson.boolAccepts, Json.kind] at hk <;> simp [rawVal, conformsNN]
    | int =>
      simp only [Res.ok.injEq] at h
      subst h
      cases j <;> simp [primAccepts, Gen.SdkJson.intAccepts, Json.kind] at hk <;> simp [rawVal, conformsNN]
    | float =>
      simp only [Res.ok.injEq] at h
      subst h
      cases j <;> simp [primAccepts, Gen.SdkJson.floatAccepts, Json.kind] at hk <;> simp [rawVal, conformsNN]
    | str =>
      simp only [Res.ok.injEq] at h
      subst h
      cases j <;> simp [primAccepts, Gen.SdkJson.strAccepts, Json.kind] at hk <;> simp [rawVal, conformsNN]
  · rw [if_neg hk] at h
    cases h

theorem readEnum_welltyped (mm : MM) (e : Name) (j : Json) (v : Val) (h : readEnum mm e j = .ok v) :
    conformsNN mm (.enum e) v = true := by
  unfold readEnum at h
  cases hf : mm.findEnum e with
  | none => rw [hf] at h; cases h
  | some ed =>
    rw [hf] at h
    simp only at h
    cases j with
    | str s =>
      simp only at h
      cases hl : lookupLast (ed.literals.map (fun p => (p.2, p.1))) s with
      | none => rw [hl] at h; cases h
      | some lit =>
        rw [hl] at h
        simp only [Res.ok.injEq] at h
        subst h
        have hm := lookupLast_some_mem _ _ _ hl
        obtain ⟨q, hq, he⟩ := List.mem_map.mp hm
        simp only [Prod.mk.injEq] at he
        simp only [conformsNN, hf, beq_self_eq_true, Bool.true_and]
        exact List.any_eq_true.mpr ⟨q, hq, by simp [he.2]⟩
    | null => cases h
    | bool _ => cases h
    | int _ => cases h
    | float _ => cases h
    | arr _ => cases h
    | obj _ => cases h

/-- every value stored by the property loop has the (non-optional) type of its property -/
def StOk (mm : MM) (props : List PropDecl) (st : State) : Prop :=
  ∀ n x, (n, x) ∈ st → ∃ p ∈ props, p.name = n ∧ conformsNN mm p.ty.beneathOpt x = true

theorem stGet_mem : ∀ (st : State) (n : Name) (v : Val), stGet st n = some v → (n, v) ∈ st
  | [], _, _, h => by simp [stGet] at h
  | (k, x) :: rest, n, v, h => by
    simp only [stGet] at h
    by_cases hk : (k == n) = true
    · rw [if_pos hk] at h
      cases h
      have : k = n := by simpa using hk
      subst this
      exact List.mem_cons_self
    · rw [if_neg hk] at h
      exact List.mem_cons_of_mem _ (stGet_mem rest n v h)

theorem assemble_welltyped {mm : MM} {all : List PropDecl} {st : State}
    (hn : nodupB (all.map (fun p => p.name)) = true) (hst : StOk mm all st) :
    ∀ (ps : List PropDecl) (vs : Vals), (∀ p ∈ ps, p ∈ all) → assemble ps st = .ok vs →
      conformsFields mm ps vs = true
  | [], vs, _, h => by
    simp only [assemble, Res.ok.injEq] at h
    subst h; simp [conformsFields]
  | p :: ps, vs, hsub, h => by
    have hsub' : ∀ q ∈ ps, q ∈ all := fun q hq => hsub q (List.mem_cons_of_mem _ hq)
    simp only [assemble] at h
    cases hg : stGet st p.name with
    | some v =>
      rw [hg] at h
      simp only at h
      cases ha : assemble ps st with
      | ok vs' =>
        rw [ha] at h
        simp only [Res.ok.injEq] at h
        subst h
        obtain ⟨q, hq, hqn, hqc⟩ := hst _ _ (stGet_mem st p.name v hg)
        have : q = p := inj_of_nodupB_map (fun p : PropDecl => p.name) all hn q hq p
          (hsub p List.mem_cons_self) hqn
        subst this
        simp only [conformsFields, Bool.and_eq_true]
        exact ⟨conforms_of_beneath hqc, assemble_welltyped hn hst ps vs' hsub' ha⟩
      | err e => rw [ha] at h; cases h
      | crash e => rw [ha] at h; cases h
    | none =>
      rw [hg] at h
      simp only at h
      by_cases ho : p.ty.isOpt = true
      · rw [if_pos ho] at h
        cases ha : assemble ps st with
        | ok vs' =>
          rw [ha] at h
          simp only [Res.ok.injEq] at h
          subst h
          simp only [conformsFields, Bool.and_eq_true]
          refine ⟨?_, assemble_welltyped hn hst ps vs' hsub' ha⟩
          cases hty : p.ty with
          | opt t => simp [conforms]
          | prim _ => rw [hty] at ho; cases ho
          | enum _ => rw [hty] at ho; cases ho
          | cls _ => rw [hty] at ho; cases ho
          | list _ => rw [hty] at ho; cases ho
        | err e => rw [ha] at h; cases h
        | crash e => rw [ha] at h; cases h
      · rw [if_neg ho] at h
        cases h

mutual
  theorem readVal_welltyped (mm : MM) (hwf : mm.wf = true) :
      ∀ (j : Json) (t : Ty) (v : Val), readVal mm t j = .ok v → conformsNN mm t v = true
    | j, .prim p, v, h => readPrim_welltyped mm p j v (by simpa [readVal] using h)
    | j, .enum e, v, h => readEnum_welltyped mm e j v (by simpa [readVal] using h)
    | _, .opt _, _, h => by simp [readVal] at h
    | .arr items, .list t, v, h => by
      simp only [readVal] at h
      cases hr : readItems mm t items with
      | ok vs =>
        rw [hr] at h
        simp only [Res.ok.injEq] at h
        subst h
        simpa only [conformsNN] using readItems_welltyped mm hwf items t vs hr
      | err e => rw [hr] at h; cases h
      | crash e => rw [hr] at h; cases h
    | .null, .list t, _, h => by simp [readVal] at h
    | .bool _, .list t, _, h => by simp [readVal] at h
    | .int _, .list t, _, h => by simp [readVal] at h
    | .float _, .list t, _, h => by simp [readVal] at h
    | .str _, .list t, _, h => by simp [readVal] at h
    | .obj _, .list t, _, h => by simp [readVal] at h
    | .obj ms, .cls c, v, h => by
      cases hc : mm.findClass c with
      | none => simp [readVal, classPlan, hc] at h
      | some cd =>
        have hcd := findClass_some hc
        simp only [readVal] at h
        rcases classPlan_cases hwf hc (.obj ms) with ⟨e, hp⟩ | ⟨dd, hp, hdd, hna, hrel⟩
        · rw [hp] at h; cases h
        · rw [hp] at h
          simp only at h
          cases hr : readMembers mm dd.props ms [] with
          | ok st =>
            rw [hr] at h
            simp only at h
            cases ha : assemble dd.props st with
            | ok vs =>
              rw [ha] at h
              simp only [Res.ok.injEq] at h
              subst h
              have hst : StOk mm dd.props st :=
                readMembers_welltyped mm hwf ms dd.props [] st (by intro n x hx; cases hx) hr
              have hok := okIn_parts ((wf_parts hwf).2.2.1 dd hdd)
              have hcf := assemble_welltyped hok.1 hst dd.props vs (fun _ hp => hp) ha
              simp only [conformsNN, hc, findClass_of_mem hwf hdd, hna, hcf, Bool.not_false,
                Bool.and_self, Bool.and_true]
              rcases hrel with rfl | hrel
              · simp [hcd.2]
              · simp [hrel]
            | err e => rw [ha] at h; cases h
            | crash e => rw [ha] at h; cases h
          | err e => rw [hr] at h; cases h
          | crash e => rw [hr] at h; cases h
    | .null, .cls c, v, h => by
      simp only [readVal] at h
      cases hp : classPlan mm c .null with
      | fail r =>
        rw [hp] at h
        simp only [classPlan, leafPlan] at hp
        split at hp
        · cases hp; cases h
        · split at hp <;> (try split at hp) <;> cases hp <;> cases h
      | read dd => rw [hp] at h; cases h
    | .bool b, .cls c, v, h => by
      simp only [readVal] at h
      cases hp : classPlan mm c (.bool b) with
      | fail r =>
        rw [hp] at h
        simp only [classPlan, leafPlan] at hp
        split at hp
        · cases hp; cases h
        · split at hp <;> (try split at hp) <;> cases hp <;> cases h
      | read dd => rw [hp] at h; cases h
    | .int i, .cls c, v, h => by
      simp only [readVal] at h
      cases hp : classPlan mm c (.int i) with
      | fail r =>
        rw [hp] at h
        simp only [classPlan, leafPlan] at hp
        split at hp
        · cases hp; cases h
        · split at hp <;> (try split at hp) <;> cases hp <;> cases h
      | read dd => rw [hp] at h; cases h
    | .float r, .cls c, v, h => by
      simp only [readVal] at h
      cases hp : classPlan mm c (.float r) with
      | fail r =>
        rw [hp] at h
        simp only [classPlan, leafPlan] at hp
        split at hp
        · cases hp; cases h
        · split at hp <;> (try split at hp) <;> cases hp <;> cases h
      | read dd => rw [hp] at h; cases h
    | .str s, .cls c, v, h => by
      simp only [readVal] at h
      cases hp : classPlan mm c (.str s) with
      | fail r =>
        rw [hp] at h
        simp only [classPlan, leafPlan] at hp
        split at hp
        · cases hp; cases h
        · split at hp <;> (try split at hp) <;> cases hp <;> cases h
      | read dd => rw [hp] at h; cases h
    | .arr a, .cls c, v, h => by
      simp only [readVal] at h
      cases hp : classPlan mm c (.arr a) with
      | fail r =>
        rw [hp] at h
        simp only [classPlan, leafPlan] at hp
        split at hp
        · cases hp; cases h
        · split at hp <;> (try split at hp) <;> cases hp <;> cases h
      | read dd => rw [hp] at h; cases h
  theorem readItems_welltyped (mm : MM) (hwf : mm.wf = true) :
      ∀ (js : Jsons) (t : Ty) (vs : Vals), readItems mm t js = .ok vs → conformsAll mm t vs = true
    | .nil, _, vs, h => by
      simp only [readItems, Res.ok.injEq] at h
      subst h; simp [conformsAll]
    | .cons j js, t, vs, h => by
      cases t with
      | list x => simp [readItems] at h
      | prim p =>
        simp only [readItems] at h
        cases h1 : readVal mm (.prim p) j with
        | ok v =>
          rw [h1] at h
          simp only at h
          cases h2 : readItems mm (.prim p) js with
          | ok vs' =>
            rw [h2] at h
            simp only [Res.ok.injEq] at h
            subst h
            simp only [conformsAll, Bool.and_eq_true]
            exact ⟨readVal_welltyped mm hwf j (.prim p) v h1, readItems_welltyped mm hwf js (.prim p) vs' h2⟩
          | err e => rw [h2] at h; cases h
          | crash e => rw [h2] at h; cases h
        | err e => rw [h1] at h; cases h
        | crash e => rw [h1] at h; cases h
      | enum e =>
        simp only [readItems] at h
        cases h1 : readVal mm (.enum e) j with
        | ok v =>
          rw [h1] at h
          simp only at h
          cases h2 : readItems mm (.enum e) js with
          | ok vs' =>
            rw [h2] at h
            simp only [Res.ok.injEq] at h
            subst h
            simp only [conformsAll, Bool.and_eq_true]
            exact ⟨readVal_welltyped mm hwf j (.enum e) v h1, readItems_welltyped mm hwf js (.enum e) vs' h2⟩
          | err e => rw [h2] at h; cases h
          | crash e => rw [h2] at h; cases h
        | err e => rw [h1] at h; cases h
        | crash e => rw [h1] at h; cases h
      | cls c =>
        simp only [readItems] at h
        cases h1 : readVal mm (.cls c) j with
        | ok v =>
          rw [h1] at h
          simp only at h
          cases h2 : readItems mm (.cls c) js with
          | ok vs' =>
            rw [h2] at h
            simp only [Res.ok.injEq] at h
            subst h
            simp only [conformsAll, Bool.and_eq_true]
            exact ⟨readVal_welltyped mm hwf j (.cls c) v h1, readItems_welltyped mm hwf js (.cls c) vs' h2⟩
          | err e => rw [h2] at h; cases h
          | crash e => rw [h2] at h; cases h
        | err e => rw [h1] at h; cases h
        | crash e => rw [h1] at h; cases h
      | opt x =>
        simp only [readItems] at h
        cases h1 : readVal mm (.opt x) j with
        | ok v =>
          rw [h1] at h
          simp only at h
          cases h2 : readItems mm (.opt x) js with
          | ok vs' =>
            rw [h2] at h
            simp only [Res.ok.injEq] at h
            subst h
            simp only [conformsAll, Bool.and_eq_true]
            exact ⟨readVal_welltyped mm hwf j (.opt x) v h1, readItems_welltyped mm hwf js (.opt x) vs' h2⟩
          | err e => rw [h2] at h; cases h
          | crash e => rw [h2] at h; cases h
        | err e => rw [h1] at h; cases h
        | crash e => rw [h1] at h; cases h
  theorem readMembers_welltyped (mm : MM) (hwf : mm.wf = true) :
      ∀ (ms : Members) (props : List PropDecl) (st st' : State), StOk mm props st →
        readMembers mm props ms st = .ok st' → StOk mm props st'
    | .nil, _, st, st', hst, h => by
      simp only [readMembers, Res.ok.injEq] at h
      subst h; exact hst
    | .cons k v ms, props, st, st', hst, h => by
      simp only [readMembers] at h
      cases hs : setterFor props k with
      | unknown => rw [hs] at h; cases h
      | ignore =>
        rw [hs] at h
        exact readMembers_welltyped mm hwf ms props st st' hst h
      | prop p =>
        rw [hs] at h
        simp only at h
        cases hr : readVal mm p.ty.beneathOpt v with
        | ok x =>
          rw [hr] at h
          simp only at h
          have hx := readVal_welltyped mm hwf v p.ty.beneathOpt x hr
          have hst2 : StOk mm props ((p.name, x) :: st) := by
            intro n y hy
            rcases List.mem_cons.mp hy with he | hy
            · cases he
              exact ⟨p, setterFor_mem hs, rfl, hx⟩
            · exact hst n y hy
          exact readMembers_welltyped mm hwf ms props _ st' hst2 h
        | err e => rw [hr] at h; cases h
        | crash e => rw [hr] at h; cases h
end

end Sdk
end AasVerif
