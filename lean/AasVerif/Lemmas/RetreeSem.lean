import AasVerif.Model.Retree.Sem
/-!
Structural facts about the shared regex semantics (`Model/Retree/Sem.lean`): one inversion
("unfolding") lemma per constructor, append lemmas for term lists, and induction principles for
the repetition relation `MRep` (the relations are mutually inductive, so the `induction` tactic
does not apply to them).  Written for reuse by every property that talks about `Sem`.
-/
namespace AasVerif.Retree

variable {pre s post : Text}

/-! ### Values -/

theorem MValue_char_iff {c : Chr} : MValue (.char c) pre s post ↔ s = [c.code] := by
  constructor
  · intro h; cases h; rfl
  · rintro rfl; exact .char c pre post

theorem MValue_set_iff {compl : Bool} {rs : List Rng} :
    MValue (.set compl rs) pre s post ↔ ∃ c, s = [c] ∧ setAccepts compl rs c = true := by
  constructor
  · intro h; cases h with | set _ _ c _ _ hc => exact ⟨c, rfl, hc⟩
  · rintro ⟨c, rfl, hc⟩; exact .set compl rs c pre post hc

theorem MValue_dot_iff : MValue (.sym .dot) pre s post ↔ ∃ c, s = [c] ∧ c ≠ 10 := by
  constructor
  · intro h; cases h with | dot c _ _ hc => exact ⟨c, rfl, hc⟩
  · rintro ⟨c, rfl, hc⟩; exact .dot c pre post hc

theorem MValue_start_iff : MValue (.sym .start) pre s post ↔ pre = [] ∧ s = [] := by
  constructor
  · intro h; cases h; exact ⟨rfl, rfl⟩
  · rintro ⟨rfl, rfl⟩; exact .start post

theorem MValue_stop_iff : MValue (.sym .stop) pre s post ↔ s = [] ∧ (post = [] ∨ post = [10]) := by
  constructor
  · intro h
    cases h with
    | stopEnd => exact ⟨rfl, .inl rfl⟩
    | stopNl => exact ⟨rfl, .inr rfl⟩
  · rintro ⟨rfl, rfl | rfl⟩
    · exact .stopEnd pre
    · exact .stopNl pre

theorem MValue_fv_iff {i : Nat} : MValue (.fv i) pre s post ↔ False := by
  constructor
  · intro h; cases h
  · exact False.elim

theorem MValue_group_iff {u : Union} : MValue (.group u) pre s post ↔ MUnion u pre s post := by
  constructor
  · intro h; cases h with | group _ _ _ _ hu => exact hu
  · intro h; exact .group u pre s post h

/-! ### Terms, term lists, unions -/

theorem MTerm_plain_iff {v : Value} : MTerm (.mk v none) pre s post ↔ MValue v pre s post := by
  constructor
  · intro h; cases h with | plain _ _ _ _ hv => exact hv
  · intro h; exact .plain v pre s post h

theorem MTerm_quant_iff {v : Value} {q : Quant} :
    MTerm (.mk v (some q)) pre s post ↔ MRep v q.min q.max pre s post := by
  constructor
  · intro h; cases h with | quant _ _ _ _ _ hr => exact hr
  · intro h; exact .quant v q pre s post h

theorem MTerms_nil_iff : MTerms [] pre s post ↔ s = [] := by
  constructor
  · intro h; cases h; rfl
  · rintro rfl; exact .nil pre post

theorem MTerms_cons_iff {t : Term} {ts : List Term} :
    MTerms (t :: ts) pre s post ↔
      ∃ s₁ s₂, s = s₁ ++ s₂ ∧ MTerm t pre s₁ (s₂ ++ post) ∧ MTerms ts (pre ++ s₁) s₂ post := by
  constructor
  · intro h
    cases h with | cons _ _ _ s₁ s₂ _ h1 h2 => exact ⟨s₁, s₂, rfl, h1, h2⟩
  · rintro ⟨s₁, s₂, rfl, h1, h2⟩; exact .cons t ts pre s₁ s₂ post h1 h2

theorem MTerms_single_iff {t : Term} : MTerms [t] pre s post ↔ MTerm t pre s post := by
  rw [MTerms_cons_iff]
  constructor
  · rintro ⟨s₁, s₂, rfl, h1, h2⟩
    rw [MTerms_nil_iff] at h2
    subst h2
    simpa using h1
  · intro h
    exact ⟨s, [], by simp, by simpa using h, MTerms_nil_iff.mpr rfl⟩

theorem MTerms_append_iff {ts₁ ts₂ : List Term} :
    MTerms (ts₁ ++ ts₂) pre s post ↔
      ∃ s₁ s₂, s = s₁ ++ s₂ ∧ MTerms ts₁ pre s₁ (s₂ ++ post) ∧ MTerms ts₂ (pre ++ s₁) s₂ post := by
  induction ts₁ generalizing pre s with
  | nil =>
    simp only [List.nil_append, MTerms_nil_iff]
    constructor
    · intro h; exact ⟨[], s, by simp, rfl, by simpa using h⟩
    · rintro ⟨s₁, s₂, rfl, rfl, h⟩; simpa using h
  | cons t ts ih =>
    simp only [List.cons_append, MTerms_cons_iff]
    constructor
    · rintro ⟨a, b, rfl, h1, h2⟩
      rw [ih] at h2
      obtain ⟨b₁, b₂, rfl, h3, h4⟩ := h2
      refine ⟨a ++ b₁, b₂, by simp, ⟨a, b₁, rfl, ?_, h3⟩, ?_⟩
      · simpa using h1
      · simpa using h4
    · rintro ⟨s₁, s₂, rfl, ⟨a, b₁, rfl, h1, h3⟩, h4⟩
      refine ⟨a, b₁ ++ s₂, by simp, by simpa using h1, ?_⟩
      rw [ih]
      exact ⟨b₁, s₂, rfl, h3, by simpa using h4⟩

theorem MUnion_iff {us : List Concat} :
    MUnion (.mk us) pre s post ↔ ∃ ts, Concat.mk ts ∈ us ∧ MTerms ts pre s post := by
  constructor
  · intro h; cases h with | mk _ ts _ _ _ hm ht => exact ⟨ts, hm, ht⟩
  · rintro ⟨ts, hm, ht⟩; exact .mk us ts pre s post hm ht

/-! ### Repetition -/

theorem MRep_iff {v : Value} {mn : Nat} {mx : Option Nat} :
    MRep v mn mx pre s post ↔
      (mn = 0 ∧ s = []) ∨
      ∃ s₁ s₂, s = s₁ ++ s₂ ∧ mx ≠ some 0 ∧ MValue v pre s₁ (s₂ ++ post) ∧
        MRep v (mn - 1) (decMax mx) (pre ++ s₁) s₂ post := by
  constructor
  · intro h
    cases h with
    | done => exact .inl ⟨rfl, rfl⟩
    | more _ _ _ _ s₁ s₂ _ h0 h1 h2 => exact .inr ⟨s₁, s₂, rfl, h0, h1, h2⟩
  · rintro (⟨rfl, rfl⟩ | ⟨s₁, s₂, rfl, h0, h1, h2⟩)
    · exact .done v mx pre post
    · exact .more v mn mx pre s₁ s₂ post h0 h1 h2

/-- Induction over a derivation of `MRep` (the value matches inside are plain hypotheses). -/
theorem MRep.induct {P : Value → Nat → Option Nat → Text → Text → Text → Prop}
    (done : ∀ v mx pre post, P v 0 mx pre [] post)
    (more : ∀ v mn mx pre s₁ s₂ post, mx ≠ some 0 → MValue v pre s₁ (s₂ ++ post) →
      MRep v (mn - 1) (decMax mx) (pre ++ s₁) s₂ post →
      P v (mn - 1) (decMax mx) (pre ++ s₁) s₂ post → P v mn mx pre (s₁ ++ s₂) post)
    {v : Value} {mn : Nat} {mx : Option Nat} {pre s post : Text}
    (h : MRep v mn mx pre s post) : P v mn mx pre s post :=
  MRep.rec
    (motive_1 := fun _ _ _ _ _ => True)
    (motive_2 := fun v mn mx pre s post _ => P v mn mx pre s post)
    (motive_3 := fun _ _ _ _ _ => True)
    (motive_4 := fun _ _ _ _ _ => True)
    (motive_5 := fun _ _ _ _ _ => True)
    (fun _ _ _ => trivial) (fun _ _ _ _ _ _ => trivial) (fun _ _ _ _ => trivial)
    (fun _ => trivial) (fun _ => trivial) (fun _ => trivial)
    (fun _ _ _ _ _ _ => trivial)
    (fun v mx pre post => done v mx pre post)
    (fun v mn mx pre s₁ s₂ post h0 h1 h2 _ ih => more v mn mx pre s₁ s₂ post h0 h1 h2 ih)
    (fun _ _ _ _ _ _ => trivial) (fun _ _ _ _ _ _ _ => trivial)
    (fun _ _ => trivial) (fun _ _ _ _ _ _ _ _ _ _ => trivial)
    (fun _ _ _ _ _ _ _ _ => trivial)
    h

end AasVerif.Retree
