import AasVerif.Model.Xml
import AasVerif.Model.Descr
namespace AasVerif.Xml
open AasVerif.Descr

theorem saxEscape_cons (c : Nat) (r : Text) :
    saxEscape (c :: r) = (if c = 38 then [38, 97, 109, 112, 59] else if c = 62 then [38, 103, 116, 59]
      else if c = 60 then [38, 108, 116, 59] else [c]) ++ saxEscape r := by
  simp [saxEscape]

/-- The escaped text never starts with `]>`-closing material: no raw `>` at the second place after `]`. -/
theorem saxEscape_head2 (y : Text) : ∀ r', saxEscape y ≠ 93 :: 62 :: r' := by
  intro r' h
  match y with
  | [] => simp [saxEscape] at h
  | c :: y' =>
    rw [saxEscape_cons] at h
    by_cases h1 : c = 38
    · simp [h1] at h
    · by_cases h2 : c = 62
      · simp [h2] at h
      · by_cases h3 : c = 60
        · simp [h3] at h
        · simp only [h1, h2, h3, if_false, List.singleton_append, List.cons.injEq] at h
          obtain ⟨hc, h⟩ := h
          match y' with
          | [] => simp [saxEscape] at h
          | d :: y'' =>
            rw [saxEscape_cons] at h
            by_cases g1 : d = 38
            · simp [g1] at h
            · by_cases g2 : d = 62
              · simp [g2] at h
              · by_cases g3 : d = 60
                · simp [g3] at h
                · simp only [g1, g2, g3, if_false, List.singleton_append, List.cons.injEq] at h
                  exact h.1

theorem content_plain (c : Nat) (x : Text) (h1 : c ≠ 38) (h2 : c ≠ 60) (h3 : isChar c = true)
    (h4 : ∀ r', x ≠ 93 :: 62 :: r') : content (c :: x) = (content x).map (c :: ·) := by
  rw [content]
  · simp [h1, h2, h3]
  all_goals (intros; simp_all)

end AasVerif.Xml

namespace AasVerif.Xml
open AasVerif.Descr

/-- Sanitised text: every code point is an XML `Char`. -/
theorem content_escape (ranges : List (Nat × Nat)) (repl : Text)
    (hr : ∀ c, inRanges ranges c = true → isChar c = true)
    (hrepl : ∀ y, content (saxEscape repl ++ y) = (content y).map (repl ++ ·)) :
    ∀ t, content (saxEscape (csSanitize ranges repl t)) = some (csSanitize ranges repl t)
  | [] => by simp [csSanitize, saxEscape, content]
  | c :: r => by
    have ih := content_escape ranges repl hr hrepl r
    have hs : csSanitize ranges repl (c :: r) = (if inRanges ranges c then [c] else repl) ++ csSanitize ranges repl r := by
      simp [csSanitize]
    have happ : ∀ a b : Text, saxEscape (a ++ b) = saxEscape a ++ saxEscape b := by
      intro a b; simp [saxEscape]
    rw [hs, happ]
    by_cases hin : inRanges ranges c = true
    · simp only [hin, if_true]
      have hch := hr c hin
      have hse := saxEscape_cons c []
      simp only [show saxEscape [] = [] from rfl, List.append_nil] at hse
      rw [hse]
      by_cases h1 : c = 38
      · subst h1; simp [content, ih]
      · by_cases h2 : c = 62
        · subst h2; simp [content, ih]
        · by_cases h3 : c = 60
          · subst h3; simp [content, ih]
          · simp only [h1, h2, h3, if_false, List.singleton_append]
            rw [content_plain c _ h1 h3 hch (saxEscape_head2 _), ih]
            rfl
    · simp only [hin, Bool.false_eq_true, if_false]
      rw [hrepl, ih]
      rfl

end AasVerif.Xml
