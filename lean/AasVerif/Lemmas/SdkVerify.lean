import AasVerif.Model.SdkVerify
/-!
Helper lemmas for C08 (c): what the emitted `if not …: yield Error(…)` blocks report.
-/
namespace AasVerif.SdkV
open AasVerif AasVerif.Expr

/-- the invariant evaluates to a falsy value on `self` -/
def Falsified (ρ : Env) (self : Val) (inv : Inv) : Prop :=
  ∃ v, eval (ρ.bind selfName self) inv.body = .val v ∧ v.truthy ρ.fops = false

/-- evaluating the invariant on `self` raises `o` -/
def Raises (ρ : Env) (self : Val) (inv : Inv) (o : Out) : Prop :=
  eval (ρ.bind selfName self) inv.body = o ∧ ∀ v, o ≠ .val v

theorem seq_single_errors (d : Text) (r : VRes) :
    (VRes.seq ⟨[(d, [])], none⟩ r).errors = (d, []) :: r.errors := by
  simp [VRes.seq]

theorem seq_single_raised (d : Text) (r : VRes) :
    (VRes.seq ⟨[(d, [])], none⟩ r).raised = r.raised := by
  simp [VRes.seq]

/-- If no invariant raises, exactly the falsified invariants are reported, each with its
description verbatim and the empty path. -/
theorem verifyInvs_exact (ρ : Env) (self : Val) :
    ∀ invs : List Inv, (verifyInvs ρ self invs).raised = none →
      ∀ d p, (d, p) ∈ (verifyInvs ρ self invs).errors ↔
        (p = [] ∧ ∃ inv ∈ invs, inv.description = d ∧ Falsified ρ self inv)
  | [], _, d, p => by simp [verifyInvs, VRes.nil]
  | inv :: rest, h, d, p => by
    unfold verifyInvs at h ⊢
    cases hev : eval (ρ.bind selfName self) inv.body with
    | val v =>
      simp only [hev] at h ⊢
      by_cases ht : v.truthy ρ.fops = true
      · simp only [ht, if_true] at h ⊢
        rw [verifyInvs_exact ρ self rest h d p]
        constructor
        · rintro ⟨hp, i, hi, hd, hf⟩
          exact ⟨hp, i, List.mem_cons_of_mem _ hi, hd, hf⟩
        · rintro ⟨hp, i, hi, hd, hf⟩
          rcases List.mem_cons.mp hi with rfl | hi
          · obtain ⟨w, hw, hwf⟩ := hf
            rw [hev] at hw; cases hw
            rw [ht] at hwf; cases hwf
          · exact ⟨hp, i, hi, hd, hf⟩
      · have ht' : v.truthy ρ.fops = false := by simpa using ht
        simp only [ht', Bool.false_eq_true, if_false] at h ⊢
        rw [seq_single_raised] at h
        rw [seq_single_errors, List.mem_cons, verifyInvs_exact ρ self rest h d p]
        constructor
        · rintro (heq | ⟨hp, i, hi, hd, hf⟩)
          · cases heq
            exact ⟨rfl, inv, List.mem_cons_self, rfl, v, hev, ht'⟩
          · exact ⟨hp, i, List.mem_cons_of_mem _ hi, hd, hf⟩
        · rintro ⟨hp, i, hi, hd, hf⟩
          rcases List.mem_cons.mp hi with rfl | hi
          · left; rw [hp, hd]
          · right; exact ⟨hp, i, hi, hd, hf⟩
    | typeError => simp [hev, VRes.raise] at h
    | noneDeref => simp [hev, VRes.raise] at h
    | indexError => simp [hev, VRes.raise] at h
    | otherError => simp [hev, VRes.raise] at h

/-- Verification of the invariants raises only an exception that evaluating one of the
invariants raises. -/
theorem verifyInvs_raises (ρ : Env) (self : Val) :
    ∀ (invs : List Inv) (o : Out), (verifyInvs ρ self invs).raised = some o →
      ∃ inv ∈ invs, Raises ρ self inv o
  | [], o, h => by simp [verifyInvs, VRes.nil] at h
  | inv :: rest, o, h => by
    unfold verifyInvs at h
    cases hev : eval (ρ.bind selfName self) inv.body with
    | val v =>
      simp only [hev] at h
      have hr : (verifyInvs ρ self rest).raised = some o := by
        by_cases ht : v.truthy ρ.fops = true
        · simpa [ht] using h
        · have ht' : v.truthy ρ.fops = false := by simpa using ht
          simpa [ht', seq_single_raised] using h
      obtain ⟨i, hi, hR⟩ := verifyInvs_raises ρ self rest o hr
      exact ⟨i, List.mem_cons_of_mem _ hi, hR⟩
    | typeError => simp [hev, VRes.raise] at h; subst h; exact ⟨inv, List.mem_cons_self, hev, by intro v; simp⟩
    | noneDeref => simp [hev, VRes.raise] at h; subst h; exact ⟨inv, List.mem_cons_self, hev, by intro v; simp⟩
    | indexError => simp [hev, VRes.raise] at h; subst h; exact ⟨inv, List.mem_cons_self, hev, by intro v; simp⟩
    | otherError => simp [hev, VRes.raise] at h; subst h; exact ⟨inv, List.mem_cons_self, hev, by intro v; simp⟩

end AasVerif.SdkV
