import AasVerif.Model.XsdPattern
import AasVerif.Lemmas.RetreeSem
/-!
The executable matcher of the XSD flavour (`XsdRe.matchB`, the one the driver runs on every
correspondence input) against the denotational semantics the C13/C14 theorems are stated in
(`XsdRe.Matches x s := MUnion x [] s []`).

The matcher computes *remainder sets*: `remX x s` is the list of the texts `r` that are left
after node `x` matched at the beginning of `s`.  The invariant is

  `r ∈ remX x s  ↔  ∃ s₁, s = s₁ ++ r ∧ M x pre s₁ post`      (any context `pre`, `post`)

* `→` (soundness) holds for every tree;
* `←` (completeness) holds for the trees without `Value.sym` nodes (`nsUnion`): the matcher
  knows neither anchors nor the Python dot — `XsdRe.read` never produces them
  (`Lemmas/XsdMatchBRead.lean`), the dot of XML Schema being the set `[^\n\r]`.

The repetition `repAll` runs `s.length + q.min` rounds at most; that this is enough is the
pumping argument `Iter.pump`: iterations that consume nothing can be dropped as long as the
minimum stays reached.
-/
namespace AasVerif.XsdPattern
open AasVerif AasVerif.Retree
namespace XsdRe

/-! ### Lists of remainders -/

theorem mem_dedup {x : Text} {l : List Text} : x ∈ dedup l ↔ x ∈ l := by
  unfold dedup
  induction l with
  | nil => simp
  | cons a l ih =>
    simp only [List.foldr_cons, List.mem_cons]
    split
    · next h =>
      rw [List.contains_iff_mem] at h
      constructor
      · intro hx; exact .inr (ih.mp hx)
      · rintro (rfl | hx)
        · exact h
        · exact ih.mpr hx
    · simp only [List.mem_cons, ih]

theorem mem_thenAll {f : Text → List Text} {rs : List Text} {r : Text} :
    r ∈ thenAll f rs ↔ ∃ a, a ∈ rs ∧ r ∈ f a := by
  unfold thenAll
  rw [mem_dedup, List.mem_flatMap]

/-- `Iter f j a r`: `r` is reached from `a` by `j` rounds of the remainder function `f` -/
inductive Iter (f : Text → List Text) : Nat → Text → Text → Prop where
  | zero (a : Text) : Iter f 0 a a
  | succ {j : Nat} {a b c : Text} : b ∈ f a → Iter f j b c → Iter f (j + 1) a c

theorem Iter.zero_iff {f : Text → List Text} {a r : Text} : Iter f 0 a r ↔ a = r := by
  constructor
  · intro h; cases h; rfl
  · rintro rfl; exact .zero a

theorem Iter.succ_iff {f : Text → List Text} {j : Nat} {a r : Text} :
    Iter f (j + 1) a r ↔ ∃ b, b ∈ f a ∧ Iter f j b r := by
  constructor
  · intro h; cases h with | succ h1 h2 => exact ⟨_, h1, h2⟩
  · rintro ⟨b, h1, h2⟩; exact .succ h1 h2

/-- the bound of a quantifier -/
def leMax (j : Nat) : Option Nat → Prop
  | none => True
  | some m => j ≤ m

theorem leMax_succ {j : Nat} {mx : Option Nat} : leMax (j + 1) mx ↔ mx ≠ some 0 ∧ leMax j (decMax mx) := by
  cases mx with
  | none => simp [leMax, decMax]
  | some m => simp only [leMax, decMax, ne_eq, Option.some.injEq]; omega

theorem leMax_zero_of_some_zero {j : Nat} (h : leMax j (some 0)) : j = 0 := by
  simp only [leMax] at h; omega

/-- **What `repAll` computes**: the texts reached from a start in `rs` by `j` rounds, `j` between the
minimum and the maximum, and `j ≤ fuel`. -/
theorem mem_repAll {f : Text → List Text} {r : Text} : ∀ (fuel mn : Nat) (mx : Option Nat) (rs : List Text),
    r ∈ repAll f fuel mn mx rs ↔ ∃ j a, a ∈ rs ∧ Iter f j a r ∧ j ≤ fuel ∧ mn ≤ j ∧ leMax j mx := by
  intro fuel
  induction fuel with
  | zero =>
    intro mn mx rs
    simp only [repAll]
    constructor
    · intro h
      split at h
      · next h0 => exact ⟨0, r, h, .zero r, Nat.le_refl _, by omega, by cases mx <;> simp [leMax]⟩
      · cases h
    · rintro ⟨j, a, ha, hi, hj, hmn, _⟩
      have : j = 0 := by omega
      subst this
      rw [Iter.zero_iff] at hi
      subst hi
      rw [if_pos (by omega)]
      exact ha
  | succ fuel ih =>
    intro mn mx rs
    simp only [repAll]
    by_cases h0 : mx = some 0
    · rw [if_pos h0]
      subst h0
      constructor
      · intro h
        split at h
        · exact ⟨0, r, h, .zero r, Nat.zero_le _, by omega, by simp [leMax]⟩
        · cases h
      · rintro ⟨j, a, ha, hi, _, hmn, hmx⟩
        have := leMax_zero_of_some_zero hmx
        subst this
        rw [Iter.zero_iff] at hi
        subst hi
        rw [if_pos (by omega)]
        exact ha
    · rw [if_neg h0, List.mem_append, ih]
      constructor
      · rintro (h | ⟨j, b, hb, hi, hj, hmn, hmx⟩)
        · split at h
          · exact ⟨0, r, h, .zero r, Nat.zero_le _, by omega, by cases mx <;> simp [leMax]⟩
          · cases h
        · rw [mem_thenAll] at hb
          obtain ⟨a, ha, hab⟩ := hb
          exact ⟨j + 1, a, ha, .succ hab hi, by omega, by omega, leMax_succ.mpr ⟨h0, hmx⟩⟩
      · rintro ⟨j, a, ha, hi, hj, hmn, hmx⟩
        cases j with
        | zero =>
          rw [Iter.zero_iff] at hi
          subst hi
          left
          rw [if_pos (by omega)]
          exact ha
        | succ j =>
          rw [Iter.succ_iff] at hi
          obtain ⟨b, hab, hi⟩ := hi
          right
          exact ⟨j, b, mem_thenAll.mpr ⟨a, ha, hab⟩, hi, by omega, by omega, (leMax_succ.mp hmx).2⟩

/-- **Enough rounds.** When every round leaves a suffix, a text reached in `j ≥ mn` rounds is reached
in at most `a.length + mn` rounds: a round that consumes nothing is dropped unless the minimum needs it. -/
theorem Iter.pump {f : Text → List Text} (hsuf : ∀ a b, b ∈ f a → ∃ s₁, a = s₁ ++ b)
    {j : Nat} {a r : Text} (h : Iter f j a r) :
    ∀ mn, mn ≤ j → ∃ j', Iter f j' a r ∧ mn ≤ j' ∧ j' ≤ j ∧ j' ≤ a.length + mn := by
  induction h with
  | zero a => intro mn hmn; exact ⟨0, .zero a, hmn, Nat.le_refl _, Nat.zero_le _⟩
  | @succ j a b c hab hi ih =>
    intro mn hmn
    obtain ⟨j', hi', h1, h2, h3⟩ := ih (mn - 1) (by omega)
    obtain ⟨s₁, hs⟩ := hsuf a b hab
    have hlen : a.length = s₁.length + b.length := by rw [hs, List.length_append]
    by_cases he : s₁ = []
    · subst he
      simp only [List.nil_append] at hs
      subst hs
      by_cases hm : mn = 0
      · subst hm
        exact ⟨j', hi', Nat.zero_le _, by omega, by omega⟩
      · exact ⟨j' + 1, .succ hab hi', by omega, by omega, by omega⟩
    · have : 0 < s₁.length := List.length_pos_iff.mpr he
      exact ⟨j' + 1, .succ hab hi', by omega, by omega, by omega⟩

/-! ### Repetition: rounds of the remainder function against `MRep` -/

/-- soundness of the rounds: `j` rounds, each of which is a match of `v`, are a repetition -/
theorem Iter.toRep {f : Text → List Text} {v : Value}
    (hf : ∀ a b, b ∈ f a → ∃ s₁, a = s₁ ++ b ∧ ∀ pre post, MValue v pre s₁ post)
    {j : Nat} {a r : Text} (h : Iter f j a r) :
    ∀ mn mx, mn ≤ j → leMax j mx → ∃ s₁, a = s₁ ++ r ∧ ∀ pre post, MRep v mn mx pre s₁ post := by
  induction h with
  | zero a =>
    intro mn mx hmn _
    have : mn = 0 := by omega
    subst this
    exact ⟨[], rfl, fun pre post => .done v mx pre post⟩
  | @succ j a b c hab _ ih =>
    intro mn mx hmn hmx
    obtain ⟨s₁, hs₁, hv⟩ := hf a b hab
    obtain ⟨h0, hmx'⟩ := leMax_succ.mp hmx
    obtain ⟨s₂, hs₂, hr⟩ := ih (mn - 1) (decMax mx) (by omega) hmx'
    refine ⟨s₁ ++ s₂, by rw [hs₁, hs₂, List.append_assoc], fun pre post => ?_⟩
    exact .more v mn mx pre s₁ s₂ post h0 (hv _ _) (hr _ _)

/-- completeness of the rounds: a repetition is a number of rounds within the bounds -/
theorem rep_toIter {f : Text → List Text} {v : Value}
    (hf : ∀ pre s₁ post r, MValue v pre s₁ post → r ∈ f (s₁ ++ r))
    {mn : Nat} {mx : Option Nat} {pre s post : Text} (h : MRep v mn mx pre s post) :
    v = v → ∀ r, ∃ j, Iter f j (s ++ r) r ∧ mn ≤ j ∧ leMax j mx := by
  refine MRep.induct (P := fun v' mn mx _ s _ => v' = v → ∀ r, ∃ j, Iter f j (s ++ r) r ∧ mn ≤ j ∧ leMax j mx)
    ?_ ?_ h
  · intro v' mx pre post _ r
    exact ⟨0, .zero r, Nat.le_refl _, by cases mx <;> simp [leMax]⟩
  · intro v' mn mx pre s₁ s₂ post h0 h1 _ ih hvv r
    subst hvv
    obtain ⟨j, hi, hmn, hmx⟩ := ih rfl r
    refine ⟨j + 1, ?_, by omega, leMax_succ.mpr ⟨h0, hmx⟩⟩
    rw [List.append_assoc]
    exact .succ (hf _ _ _ _ h1) hi

/-! ### Soundness: every remainder the matcher reports comes from a match (all trees) -/

mutual
  theorem sound_value : (v : Value) → ∀ (s r : Text), r ∈ remValue v s →
      ∃ s₁, s = s₁ ++ r ∧ ∀ pre post, MValue v pre s₁ post
    | .group u, s, r, h => by
      simp only [remValue] at h
      obtain ⟨s₁, hs, hm⟩ := sound_union u s r h
      exact ⟨s₁, hs, fun pre post => MValue_group_iff.mpr (hm pre post)⟩
    | .char c, s, r, h => by
      simp only [remValue] at h
      cases s with
      | nil => simp at h
      | cons x t =>
        simp only at h
        split at h
        · next hx =>
          simp only [List.mem_singleton] at h
          subst h; subst hx
          exact ⟨[c.code], rfl, fun pre post => .char c pre post⟩
        · simp at h
    | .set compl rs, s, r, h => by
      simp only [remValue] at h
      cases s with
      | nil => simp at h
      | cons x t =>
        simp only at h
        split at h
        · next hx =>
          simp only [List.mem_singleton] at h
          subst h
          exact ⟨[x], rfl, fun pre post => .set compl rs x pre post hx⟩
        · simp at h
    | .fv _, s, r, h => by simp [remValue] at h
    | .sym _, s, r, h => by simp [remValue] at h
  theorem sound_terms : (ts : List Term) → ∀ (s r : Text), r ∈ remTerms ts s →
      ∃ s₁, s = s₁ ++ r ∧ ∀ pre post, MTerms ts pre s₁ post
    | [], s, r, h => by
      simp only [remTerms, List.mem_singleton] at h
      subst h
      exact ⟨[], rfl, fun pre post => .nil pre post⟩
    | .mk v none :: ts, s, r, h => by
      simp only [remTerms] at h
      rw [mem_thenAll] at h
      obtain ⟨a, ha, hr⟩ := h
      obtain ⟨s₁, hs₁, hv⟩ := sound_value v s a ha
      obtain ⟨s₂, hs₂, ht⟩ := sound_terms ts a r hr
      refine ⟨s₁ ++ s₂, by rw [hs₁, hs₂, List.append_assoc], fun pre post => ?_⟩
      exact .cons _ ts pre s₁ s₂ post (.plain v _ _ _ (hv _ _)) (ht _ _)
    | .mk v (some q) :: ts, s, r, h => by
      simp only [remTerms] at h
      rw [mem_thenAll] at h
      obtain ⟨a, ha, hr⟩ := h
      rw [mem_dedup, mem_repAll] at ha
      obtain ⟨j, a0, ha0, hi, _, hmn, hmx⟩ := ha
      simp only [List.mem_singleton] at ha0
      subst ha0
      obtain ⟨s₁, hs₁, hv⟩ := hi.toRep (v := v) (fun a b hab => sound_value v a b hab) q.min q.max hmn hmx
      obtain ⟨s₂, hs₂, ht⟩ := sound_terms ts a r hr
      refine ⟨s₁ ++ s₂, by rw [hs₁, hs₂, List.append_assoc], fun pre post => ?_⟩
      exact .cons _ ts pre s₁ s₂ post (.quant v q _ _ _ (hv _ _)) (ht _ _)
  theorem sound_concats : (cs : List Concat) → ∀ (s r : Text), r ∈ remConcats cs s →
      ∃ s₁ ts, s = s₁ ++ r ∧ Concat.mk ts ∈ cs ∧ ∀ pre post, MTerms ts pre s₁ post
    | [], s, r, h => by simp [remConcats] at h
    | .mk ts :: cs, s, r, h => by
      simp only [remConcats, List.mem_append] at h
      rcases h with h | h
      · obtain ⟨s₁, hs, ht⟩ := sound_terms ts s r h
        exact ⟨s₁, ts, hs, List.mem_cons_self, ht⟩
      · obtain ⟨s₁, ts', hs, hm, ht⟩ := sound_concats cs s r h
        exact ⟨s₁, ts', hs, List.mem_cons_of_mem _ hm, ht⟩
  theorem sound_union : (u : Union) → ∀ (s r : Text), r ∈ remUnion u s →
      ∃ s₁, s = s₁ ++ r ∧ ∀ pre post, MUnion u pre s₁ post
    | .mk us, s, r, h => by
      simp only [remUnion] at h
      rw [mem_dedup] at h
      obtain ⟨s₁, ts, hs, hm, ht⟩ := sound_concats us s r h
      exact ⟨s₁, hs, fun pre post => .mk us ts pre s₁ post hm (ht pre post)⟩
end

/-! ### Completeness: every match is found (trees without `sym` nodes) -/

mutual
  /-- no `^`, `$` or Python dot anywhere in the tree -/
  def nsValue : Value → Bool
    | .group u => nsUnion u
    | .sym _ => false
    | _ => true
  def nsTerms : List Term → Bool
    | [] => true
    | .mk v _ :: ts => nsValue v && nsTerms ts
  def nsConcats : List Concat → Bool
    | [] => true
    | .mk ts :: cs => nsTerms ts && nsConcats cs
  def nsUnion : Union → Bool
    | .mk us => nsConcats us
end

mutual
  theorem complete_value : (v : Value) → nsValue v = true →
      ∀ (pre s₁ post r : Text), MValue v pre s₁ post → r ∈ remValue v (s₁ ++ r)
    | .group u, hns, pre, s₁, post, r, h => by
      simp only [nsValue] at hns
      simp only [remValue]
      exact complete_union u hns pre s₁ post r (MValue_group_iff.mp h)
    | .char c, _, pre, s₁, post, r, h => by
      rw [MValue_char_iff] at h
      subst h
      simp [remValue]
    | .set compl rs, _, pre, s₁, post, r, h => by
      rw [MValue_set_iff] at h
      obtain ⟨c, rfl, hc⟩ := h
      simp [remValue, hc]
    | .fv _, _, pre, s₁, post, r, h => by exact absurd h (by rw [MValue_fv_iff]; exact id)
    | .sym _, hns, _, _, _, _, _ => by simp [nsValue] at hns
  theorem complete_terms : (ts : List Term) → nsTerms ts = true →
      ∀ (pre s₁ post r : Text), MTerms ts pre s₁ post → r ∈ remTerms ts (s₁ ++ r)
    | [], _, pre, s₁, post, r, h => by
      rw [MTerms_nil_iff] at h
      subst h
      simp [remTerms]
    | .mk v none :: ts, hns, pre, s, post, r, h => by
      simp only [nsTerms, Bool.and_eq_true] at hns
      rw [MTerms_cons_iff] at h
      obtain ⟨s₁, s₂, rfl, h1, h2⟩ := h
      simp only [remTerms]
      rw [mem_thenAll]
      refine ⟨s₂ ++ r, ?_, complete_terms ts hns.2 _ s₂ post r h2⟩
      rw [List.append_assoc]
      exact complete_value v hns.1 _ s₁ _ (s₂ ++ r) (MTerm_plain_iff.mp h1)
    | .mk v (some q) :: ts, hns, pre, s, post, r, h => by
      simp only [nsTerms, Bool.and_eq_true] at hns
      rw [MTerms_cons_iff] at h
      obtain ⟨s₁, s₂, rfl, h1, h2⟩ := h
      simp only [remTerms]
      rw [mem_thenAll]
      refine ⟨s₂ ++ r, ?_, complete_terms ts hns.2 _ s₂ post r h2⟩
      rw [mem_dedup, mem_repAll, List.append_assoc]
      obtain ⟨j, hi, hmn, hmx⟩ := rep_toIter (f := remValue v)
        (fun pre s₁ post r hv => complete_value v hns.1 pre s₁ post r hv) (MTerm_quant_iff.mp h1) rfl (s₂ ++ r)
      obtain ⟨j', hi', h1', h2', h3'⟩ := hi.pump
        (fun a b hab => (sound_value v a b hab).imp fun _ hx => hx.1) q.min hmn
      refine ⟨j', _, List.mem_singleton.mpr rfl, hi', by omega, h1', ?_⟩
      cases hq : q.max with
      | none => trivial
      | some m => rw [hq] at hmx; simp only [leMax] at hmx ⊢; omega
  theorem complete_concats : (cs : List Concat) → nsConcats cs = true →
      ∀ (ts : List Term), Concat.mk ts ∈ cs →
      ∀ (pre s₁ post r : Text), MTerms ts pre s₁ post → r ∈ remConcats cs (s₁ ++ r)
    | [], _, _, hm, _, _, _, _, _ => by simp at hm
    | .mk ts0 :: cs, hns, ts, hm, pre, s₁, post, r, h => by
      simp only [nsConcats, Bool.and_eq_true] at hns
      simp only [remConcats, List.mem_append]
      rcases List.mem_cons.mp hm with hm | hm
      · injection hm with hm
        subst hm
        exact .inl (complete_terms ts hns.1 pre s₁ post r h)
      · exact .inr (complete_concats cs hns.2 ts hm pre s₁ post r h)
  theorem complete_union : (u : Union) → nsUnion u = true →
      ∀ (pre s₁ post r : Text), MUnion u pre s₁ post → r ∈ remUnion u (s₁ ++ r)
    | .mk us, hns, pre, s₁, post, r, h => by
      simp only [nsUnion] at hns
      rw [MUnion_iff] at h
      obtain ⟨ts, hm, ht⟩ := h
      simp only [remUnion]
      rw [mem_dedup]
      exact complete_concats us hns ts hm pre s₁ post r ht
end

/-! ### The matcher against the semantics -/

/-- **The invariant of the remainder sets** (context independent). -/
theorem mem_remUnion_iff (x : Union) (hns : nsUnion x = true) (pre post s r : Text) :
    r ∈ remUnion x s ↔ ∃ s₁, s = s₁ ++ r ∧ MUnion x pre s₁ post := by
  constructor
  · intro h
    obtain ⟨s₁, hs, hm⟩ := sound_union x s r h
    exact ⟨s₁, hs, hm pre post⟩
  · rintro ⟨s₁, rfl, hm⟩
    exact complete_union x hns pre s₁ post r hm

/-- soundness of the executable matcher, for every tree -/
theorem matchB_sound (x : Union) (s : Text) (h : matchB x s = true) : Matches x s := by
  unfold matchB at h
  rw [List.contains_iff_mem] at h
  obtain ⟨s₁, hs, hm⟩ := sound_union x s [] h
  rw [List.append_nil] at hs
  subst hs
  exact hm [] []

/-- completeness of the executable matcher, for trees without `sym` nodes -/
theorem matchB_complete (x : Union) (hns : nsUnion x = true) (s : Text) (h : Matches x s) :
    matchB x s = true := by
  unfold matchB
  rw [List.contains_iff_mem]
  have := complete_union x hns [] s [] [] h
  rwa [List.append_nil] at this

theorem matchB_iff (x : Union) (hns : nsUnion x = true) (s : Text) : matchB x s = true ↔ Matches x s :=
  ⟨matchB_sound x s, matchB_complete x hns s⟩

/-- a tree without `sym` nodes matches independently of the context -/
theorem ns_context_free (x : Union) (hns : nsUnion x = true) (pre s post pre' post' : Text)
    (h : MUnion x pre s post) : MUnion x pre' s post' := by
  have := complete_union x hns pre s post [] h
  obtain ⟨s₁, hs, hm⟩ := sound_union x _ [] this
  rw [List.append_nil, List.append_nil] at hs
  subst hs
  exact hm pre' post'

end XsdRe
end AasVerif.XsdPattern
