import AasVerif.Lemmas.SdkPlan
/-! `fromJson` never crashes and never accepts a mistyped value (mutual inductions over `Json`). -/
namespace AasVerif.Sdk

/-- the generator has emitted a reader for the (non-optional) type -/
def tyKnown (mm : MM) : Ty → Bool
  | .prim _ => true
  | .enum e => (mm.findEnum e).isSome
  | .cls c => (mm.findClass c).isSome
  | .list t => t.atomic && (match t with
      | .prim _ => true
      | .enum e => (mm.findEnum e).isSome
      | .cls c => (mm.findClass c).isSome
      | _ => false)
  | .opt _ => false

theorem dispatchOkFor_known {mm : MM} {c : Name} (h : mm.dispatchOkFor c = true) :
    (mm.findClass c).isSome = true := by
  unfold MM.dispatchOkFor at h
  cases hf : mm.findClass c with
  | none => rw [hf] at h; cases h
  | some _ => rfl

theorem tyReadable_known {mm : MM} {t : Ty} (h : mm.tyReadable t = true) : tyKnown mm t = true := by
  cases t with
  | prim p => rfl
  | enum e => simpa [MM.tyReadable, tyKnown] using h
  | cls c => exact dispatchOkFor_known (by simpa [MM.tyReadable] using h)
  | opt t => simp [MM.tyReadable] at h
  | list t =>
    cases t with
    | prim p => rfl
    | enum e => simpa [MM.tyReadable, tyKnown] using h
    | cls c =>
      simp only [MM.tyReadable, Bool.and_eq_true] at h
      simp [tyKnown, Ty.atomic, dispatchOkFor_known h.2]
    | opt t => simp [MM.tyReadable, Ty.atomic] at h
    | list t => simp [MM.tyReadable, Ty.atomic] at h

theorem tyKnown_list_item {mm : MM} {t : Ty} (h : tyKnown mm (.list t) = true) :
    t.atomic = true ∧ tyKnown mm t = true := by
  cases t with
  | prim p => simp [tyKnown, Ty.atomic]
  | enum e => simpa [tyKnown, Ty.atomic] using h
  | cls c => simpa [tyKnown, Ty.atomic] using h
  | list t => simp [tyKnown, Ty.atomic] at h
  | opt t => simp [tyKnown, Ty.atomic] at h

theorem props_known {mm : MM} (hwf : mm.wf = true) {cd : ClassDecl} (hcd : cd ∈ mm.classes) :
    ∀ p ∈ cd.props, tyKnown mm p.ty.beneathOpt = true :=
  fun p hp => tyReadable_known ((okIn_parts ((wf_parts hwf).2.2.1 cd hcd)).2.2.2.1 p hp)

theorem findClass_of_mem {mm : MM} (hwf : mm.wf = true) {cd : ClassDecl} (hcd : cd ∈ mm.classes) :
    mm.findClass cd.name = some cd := by
  cases hf : mm.findClass cd.name with
  | none =>
    unfold MM.findClass at hf
    have := List.find?_eq_none.mp hf cd hcd
    simp at this
  | some cd' =>
    have h' := findClass_some hf
    rw [class_eq_of_name hwf h'.1 hcd h'.2]

/-! ### what the plan can be -/

/-- the outcomes of the dispatch chain under `wf` -/
theorem resolve_cases {mm : MM} (hwf : mm.wf = true) {cd : ClassDecl} (hcd : cd ∈ mm.classes)
    (mt : Text) (n : Nat) :
    resolve mm (n + 2) cd mt = .unexpected
    ∨ (∃ dd, (resolve mm (n + 2) cd mt = .body dd ∨ resolve mm (n + 2) cd mt = .leaf dd)
        ∧ dd ∈ mm.classes ∧ dd.abstract = false ∧ (dd = cd ∨ dd.name ∈ cd.concreteDescendants)) := by
  rw [show n + 2 = (n + 1) + 1 from rfl, resolve]
  cases hl : lookupLast (dispatchEntries cd) mt with
  | none => left; rfl
  | some tgt =>
    right
    have hmem := lookupLast_some_mem _ _ _ hl
    rcases mem_dispatchEntries hmem with ⟨hna, _, rfl⟩ | ⟨x, hx, hmt, rfl⟩
    · exact ⟨cd, Or.inl rfl, hcd, hna, Or.inl rfl⟩
    · obtain ⟨xd, hfx, hxa⟩ := (okIn_parts ((wf_parts hwf).2.2.1 cd hcd)).2.2.2.2.2.1 x hx
      have hxd := findClass_some hfx
      simp only [hfx]
      by_cases hempty : xd.concreteDescendants.isEmpty = true
      · refine ⟨xd, Or.inr (by simp [hempty]), hxd.1, hxa, Or.inr (by rw [hxd.2]; exact hx)⟩
      · simp only [hempty, Bool.false_eq_true, if_false]
        rw [resolve]
        cases hl2 : lookupLast (dispatchEntries xd) mt with
        | none =>
          -- the own entry of `xd` has the key `mt`
          have hown : (mt, (none : Option Name)) ∈ dispatchEntries xd := by
            unfold dispatchEntries
            rw [hmt, ← hxd.2]
            simp [hxa]
          obtain ⟨b, hb⟩ := lookupLast_isSome_of_mem _ _ _ hown
          rw [hl2] at hb
          cases hb
        | some tgt2 =>
          have hmem2 := lookupLast_some_mem _ _ _ hl2
          rcases mem_dispatchEntries hmem2 with ⟨_, _, rfl⟩ | ⟨y, hy, hmt2, rfl⟩
          · exact ⟨xd, Or.inl rfl, hxd.1, hxa, Or.inr (by rw [hxd.2]; exact hx)⟩
          · -- `y` would be `xd` itself among its own descendants
            exfalso
            obtain ⟨yd, hfy, _⟩ := (okIn_parts ((wf_parts hwf).2.2.1 xd hxd.1)).2.2.2.2.2.1 y hy
            have hyd := findClass_some hfy
            have : yd = xd := class_eq_of_modelType hwf hyd.1 hxd.1 (by rw [hyd.2, hxd.2, ← hmt2, hmt])
            have hyx : y = xd.name := by rw [← hyd.2, this]
            exact (okIn_parts ((wf_parts hwf).2.2.1 xd hxd.1)).2.2.2.2.1 (hyx ▸ hy)

theorem leafPlan_cases (cd : ClassDecl) (j : Json) (hna : cd.abstract = false) :
    leafPlan cd j = .read cd ∨ ∃ e, leafPlan cd j = .fail (.err e) := by
  unfold leafPlan
  simp only [hna, Bool.false_eq_true, if_false]
  cases j with
  | obj ms =>
    simp only
    by_cases hw : cd.withModelType = true
    · simp only [hw, if_true]
      cases hg : getLast ms modelTypeKey with
      | none => right; exact ⟨_, rfl⟩
      | some x =>
        cases x with
        | str mt =>
          simp only
          by_cases he : (mt == jsonModelType cd.name) = true
          · left; simp [he]
          · right; simp [he]
        | null => right; exact ⟨_, rfl⟩
        | bool _ => right; exact ⟨_, rfl⟩
        | int _ => right; exact ⟨_, rfl⟩
        | float _ => right; exact ⟨_, rfl⟩
        | arr _ => right; exact ⟨_, rfl⟩
        | obj _ => right; exact ⟨_, rfl⟩
    · left; simp [hw]
  | null => right; exact ⟨_, rfl⟩
  | bool _ => right; exact ⟨_, rfl⟩
  | int _ => right; exact ⟨_, rfl⟩
  | float _ => right; exact ⟨_, rfl⟩
  | str _ => right; exact ⟨_, rfl⟩
  | arr _ => right; exact ⟨_, rfl⟩

/-- Under `wf` the part of `c_from_jsonable` before the property loop either raises
`DeserializationException` or settles on a concrete class that is `c` or one of its concrete
descendants. -/
theorem classPlan_cases {mm : MM} (hwf : mm.wf = true) {c : Name} {cd : ClassDecl}
    (hc : mm.findClass c = some cd) (j : Json) :
    (∃ e, classPlan mm c j = .fail (.err e))
    ∨ (∃ dd, classPlan mm c j = .read dd ∧ dd ∈ mm.classes ∧ dd.abstract = false
        ∧ (dd = cd ∨ dd.name ∈ cd.concreteDescendants)) := by
  have hcd := findClass_some hc
  have hok := okIn_parts ((wf_parts hwf).2.2.1 cd hcd.1)
  unfold classPlan
  rw [hc]
  simp only
  by_cases hempty : cd.concreteDescendants.isEmpty = true
  · rw [if_pos hempty]
    have hna : cd.abstract = false := by
      cases ha : cd.abstract with
      | false => rfl
      | true => exact absurd (by simpa using hempty) (hok.2.2.2.2.2.2 ha)
    rcases leafPlan_cases cd j hna with h | ⟨e, h⟩
    · right; exact ⟨cd, h, hcd.1, hna, Or.inl rfl⟩
    · left; exact ⟨e, h⟩
  · rw [if_neg hempty]
    cases j with
    | obj ms =>
      simp only
      cases hg : getLast ms modelTypeKey with
      | none => left; exact ⟨_, rfl⟩
      | some x =>
        cases x with
        | str mt =>
          simp only
          rcases resolve_cases hwf hcd.1 mt mm.classes.length with hr | ⟨dd, hr, hdd, hna, hrel⟩
          · left; rw [hr]; exact ⟨_, rfl⟩
          · rcases hr with hr | hr
            · right; rw [hr]; exact ⟨dd, rfl, hdd, hna, hrel⟩
            · rw [hr]
              simp only
              rcases leafPlan_cases dd (.obj ms) hna with h | ⟨e, h⟩
              · right; exact ⟨dd, h, hdd, hna, hrel⟩
              · left; exact ⟨e, h⟩
        | null => left; exact ⟨_, rfl⟩
        | bool _ => left; exact ⟨_, rfl⟩
        | int _ => left; exact ⟨_, rfl⟩
        | float _ => left; exact ⟨_, rfl⟩
        | arr _ => left; exact ⟨_, rfl⟩
        | obj _ => left; exact ⟨_, rfl⟩
    | null => left; exact ⟨_, rfl⟩
    | bool _ => left; exact ⟨_, rfl⟩
    | int _ => left; exact ⟨_, rfl⟩
    | float _ => left; exact ⟨_, rfl⟩
    | str _ => left; exact ⟨_, rfl⟩
    | arr _ => left; exact ⟨_, rfl⟩

/-! ### totality -/

theorem raisedIn_bytes_total (mro : List String)
    (h : mro.any (fun c => Gen.SdkJson.bytesCatches.contains c) = true) (exc : String) :
    raisedIn Gen.SdkJson.bytesCatches mro ≠ .crash exc := by
  unfold raisedIn
  rw [if_pos h]
  intro e; cases e

theorem readPrim_total (p : Prim) (j : Json) (exc : String) : readPrim p j ≠ .crash exc := by
  unfold readPrim
  by_cases hk : (primAccepts p).contains j.kind = true
  · rw [if_pos hk]
    cases p with
    | bytes =>
      cases j with
      | str s =>
        simp only
        cases hd : Base64.decode s with
        | ok bs => intro e; cases e
        | error err =>
          cases err with
          | nonAscii => exact raisedIn_bytes_total _ (by decide) exc
          | oneChar => exact raisedIn_bytes_total _ (by decide) exc
          | padding => exact raisedIn_bytes_total _ (by decide) exc
      | null => simp [primAccepts, Gen.SdkJson.bytesAccepts, Json.kind] at hk
      | bool _ => simp [primAccepts, Gen.SdkJson.bytesAccepts, Json.kind] at hk
      | int _ => simp [primAccepts, Gen.SdkJson.bytesAccepts, Json.kind] at hk
      | float _ => simp [primAccepts, Gen.SdkJson.bytesAccepts, Json.kind] at hk
      | arr _ => simp [primAccepts, Gen.SdkJson.bytesAccepts, Json.kind] at hk
      | obj _ => simp [primAccepts, Gen.SdkJson.bytesAccepts, Json.kind] at hk
    | bool => intro e; cases e
    | int => intro e; cases e
    | float => intro e; cases e
    | str => intro e; cases e
  · rw [if_neg hk]
    intro e; cases e

theorem readEnum_total {mm : MM} {e : Name} (h : (mm.findEnum e).isSome = true) (j : Json)
    (exc : String) : readEnum mm e j ≠ .crash exc := by
  unfold readEnum
  cases hf : mm.findEnum e with
  | none => rw [hf] at h; cases h
  | some ed =>
    simp only
    cases j with
    | str s =>
      simp only
      cases lookupLast (ed.literals.map (fun p => (p.2, p.1))) s with
      | none => intro e; cases e
      | some l => intro e; cases e
    | null => intro e; cases e
    | bool _ => intro e; cases e
    | int _ => intro e; cases e
    | float _ => intro e; cases e
    | arr _ => intro e; cases e
    | obj _ => intro e; cases e

theorem assemble_total : ∀ (ps : List PropDecl) (st : State) (exc : String),
    assemble ps st ≠ .crash exc
  | [], _, _ => by simp [assemble]
  | p :: ps, st, exc => by
    have ih := assemble_total ps st
    simp only [assemble]
    cases stGet st p.name with
    | some v =>
      simp only
      cases ha : assemble ps st with
      | ok vs => intro e; cases e
      | err e' => intro e; cases e
      | crash e' => exact absurd ha (ih e')
    | none =>
      simp only
      by_cases ho : p.ty.isOpt = true
      · rw [if_pos ho]
        cases ha : assemble ps st with
        | ok vs => intro e; cases e
        | err e' => intro e; cases e
        | crash e' => exact absurd ha (ih e')
      · rw [if_neg ho]
        intro e; cases e

theorem setterFor_mem {props : List PropDecl} {k : Text} {p : PropDecl}
    (h : setterFor props k = .prop p) : p ∈ props := by
  unfold setterFor at h
  cases hl : lookupLast (props.map (fun p => (jsonProperty p.name, Setter.prop p)) ++ [(modelTypeKey, Setter.ignore)]) k with
  | none => rw [hl] at h; cases h
  | some s =>
    rw [hl] at h
    simp only at h
    subst h
    have hm := lookupLast_some_mem _ _ _ hl
    rcases List.mem_append.mp hm with hm | hm
    · obtain ⟨q, hq, he⟩ := List.mem_map.mp hm
      simp only [Prod.mk.injEq, Setter.prop.injEq] at he
      rw [← he.2]; exact hq
    · simp at hm

mutual
  theorem readVal_total (mm : MM) (hwf : mm.wf = true) :
      ∀ (j : Json) (t : Ty), tyKnown mm t = true → ∀ exc, readVal mm t j ≠ .crash exc
    | j, .prim p, _, exc => by simpa [readVal] using readPrim_total p j exc
    | j, .enum e, hk, exc => by
      simpa [readVal] using readEnum_total (by simpa [tyKnown] using hk) j exc
    | _, .opt _, hk, _ => by simp [tyKnown] at hk
    | .arr items, .list t, hk, exc => by
      have hit := tyKnown_list_item hk
      have := readItems_total mm hwf items t hit.1 hit.2
      simp only [readVal]
      cases hr : readItems mm t items with
      | ok vs => intro e; cases e
      | err e' => intro e; cases e
      | crash e' => exact absurd hr (this e')
    | .null, .list t, _, _ => by simp [readVal]
    | .bool _, .list t, _, _ => by simp [readVal]
    | .int _, .list t, _, _ => by simp [readVal]
    | .float _, .list t, _, _ => by simp [readVal]
    | .str _, .list t, _, _ => by simp [readVal]
    | .obj _, .list t, _, _ => by simp [readVal]
    | .obj ms, .cls c, hk, exc => by
      cases hc : mm.findClass c with
      | none => simp [tyKnown, hc] at hk
      | some cd =>
        simp only [readVal]
        rcases classPlan_cases hwf hc (.obj ms) with ⟨e, h⟩ | ⟨dd, h, hdd, _, _⟩
        · rw [h]; intro e; cases e
        · rw [h]
          simp only
          have hm := readMembers_total mm hwf ms dd.props [] (props_known hwf hdd)
          cases hr : readMembers mm dd.props ms [] with
          | ok st =>
            simp only
            cases ha : assemble dd.props st with
            | ok vs => intro e; cases e
            | err e' => intro e; cases e
            | crash e' => exact absurd ha (assemble_total _ _ e')
          | err e' => intro e; cases e
          | crash e' => exact absurd hr (hm e')
    | .null, .cls c, hk, exc => by
      cases hc : mm.findClass c with
      | none => simp [tyKnown, hc] at hk
      | some cd =>
        simp only [readVal]
        rcases classPlan_cases hwf hc .null with ⟨e, h⟩ | ⟨dd, h, _, _, _⟩
        · rw [h]; intro e; cases e
        · rw [h]; intro e; cases e
    | .bool b, .cls c, hk, exc => by
      cases hc : mm.findClass c with
      | none => simp [tyKnown, hc] at hk
      | some cd =>
        simp only [readVal]
        rcases classPlan_cases hwf hc (.bool b) with ⟨e, h⟩ | ⟨dd, h, _, _, _⟩
        · rw [h]; intro e; cases e
        · rw [h]; intro e; cases e
    | .int i, .cls c, hk, exc => by
      cases hc : mm.findClass c with
      | none => simp [tyKnown, hc] at hk
      | some cd =>
        simp only [readVal]
        rcases classPlan_cases hwf hc (.int i) with ⟨e, h⟩ | ⟨dd, h, _, _, _⟩
        · rw [h]; intro e; cases e
        · rw [h]; intro e; cases e
    | .float r, .cls c, hk, exc => by
      cases hc : mm.findClass c with
      | none => simp [tyKnown, hc] at hk
      | some cd =>
        simp only [readVal]
        rcases classPlan_cases hwf hc (.float r) with ⟨e, h⟩ | ⟨dd, h, _, _, _⟩
        · rw [h]; intro e; cases e
        · rw [h]; intro e; cases e
    | .str s, .cls c, hk, exc => by
      cases hc : mm.findClass c with
      | none => simp [tyKnown, hc] at hk
      | some cd =>
        simp only [readVal]
        rcases classPlan_cases hwf hc (.str s) with ⟨e, h⟩ | ⟨dd, h, _, _, _⟩
        · rw [h]; intro e; cases e
        · rw [h]; intro e; cases e
    | .arr a, .cls c, hk, exc => by
      cases hc : mm.findClass c with
      | none => simp [tyKnown, hc] at hk
      | some cd =>
        simp only [readVal]
        rcases classPlan_cases hwf hc (.arr a) with ⟨e, h⟩ | ⟨dd, h, _, _, _⟩
        · rw [h]; intro e; cases e
        · rw [h]; intro e; cases e
  theorem readItems_total (mm : MM) (hwf : mm.wf = true) :
      ∀ (js : Jsons) (t : Ty), t.atomic = true → tyKnown mm t = true →
        ∀ exc, readItems mm t js ≠ .crash exc
    | .nil, _, _, _, _ => by simp [readItems]
    | .cons j js, t, ha, hk, exc => by
      have h1 := readVal_total mm hwf j t hk
      have h2 := readItems_total mm hwf js t ha hk
      cases t with
      | list t' => simp [Ty.atomic] at ha
      | opt t' => simp [Ty.atomic] at ha
      | prim p =>
        simp only [readItems]
        cases hr1 : readVal mm (.prim p) j with
        | ok v =>
          simp only
          cases hr2 : readItems mm (.prim p) js with
          | ok vs => intro e; cases e
          | err e' => intro e; cases e
          | crash e' => exact absurd hr2 (h2 e')
        | err e' => intro e; cases e
        | crash e' => exact absurd hr1 (h1 e')
      | enum e =>
        simp only [readItems]
        cases hr1 : readVal mm (.enum e) j with
        | ok v =>
          simp only
          cases hr2 : readItems mm (.enum e) js with
          | ok vs => intro e; cases e
          | err e' => intro e; cases e
          | crash e' => exact absurd hr2 (h2 e')
        | err e' => intro e; cases e
        | crash e' => exact absurd hr1 (h1 e')
      | cls c =>
        simp only [readItems]
        cases hr1 : readVal mm (.cls c) j with
        | ok v =>
          simp only
          cases hr2 : readItems mm (.cls c) js with
          | ok vs => intro e; cases e
          | err e' => intro e; cases e
          | crash e' => exact absurd hr2 (h2 e')
        | err e' => intro e; cases e
        | crash e' => exact absurd hr1 (h1 e')
  theorem readMembers_total (mm : MM) (hwf : mm.wf = true) :
      ∀ (ms : Members) (props : List PropDecl) (st : State),
        (∀ p ∈ props, tyKnown mm p.ty.beneathOpt = true) →
        ∀ exc, readMembers mm props ms st ≠ .crash exc
    | .nil, _, _, _, _ => by simp [readMembers]
    | .cons k v ms, props, st, hp, exc => by
      simp only [readMembers]
      cases hs : setterFor props k with
      | unknown => intro e; cases e
      | ignore => exact readMembers_total mm hwf ms props st hp exc
      | prop p =>
        simp only
        have h1 := readVal_total mm hwf v p.ty.beneathOpt (hp p (setterFor_mem hs))
        cases hr : readVal mm p.ty.beneathOpt v with
        | ok x => exact readMembers_total mm hwf ms props _ hp exc
        | err e' => intro e; cases e
        | crash e' => exact absurd hr (h1 e')
end

end AasVerif.Sdk
