import AasVerif.Model.RevmSpec
/-!
Label resolution: basic notions for proving that `translate` (fresh labels, `_relabel_in_place`,
`_remove_noop_in_place`) produces exactly the clean compositional program `compileTop`.
-/
namespace AasVerif.Revm

/-- Total version of `labelPos`: number of real leaves before the first leaf carrying `l`
(all of them when the label is absent). -/
def pos : List Leaf → Nat → Nat
  | [], _ => 0
  | x :: rest, l => if x.label = some l then 0 else (if x.real then 1 else 0) + pos rest l

def Instr.mapT (ρ : Nat → Nat) : Instr → Instr
  | .jump t => .jump (ρ t)
  | .split a b => .split (ρ a) (ρ b)
  | i => i

def Instr.targets : Instr → List Nat
  | .jump t => [t]
  | .split a b => [a, b]
  | _ => []

def targetsOf : List Leaf → List Nat
  | [] => []
  | x :: rest => x.instr.targets ++ targetsOf rest

/-- Real leaves with resolved targets. -/
def strip (ρ : Nat → Nat) : List Leaf → Program
  | [] => []
  | x :: rest => if x.real then x.instr.mapT ρ :: strip ρ rest else strip ρ rest

@[simp] theorem labelsOf_nil : labelsOf [] = [] := rfl
@[simp] theorem targetsOf_nil : targetsOf [] = [] := rfl
@[simp] theorem strip_nil (ρ) : strip ρ [] = [] := rfl
@[simp] theorem countReal_nil : countReal [] = 0 := rfl
@[simp] theorem pos_nil (l) : pos [] l = 0 := rfl

theorem labelsOf_cons (x : Leaf) (rest : List Leaf) :
    labelsOf (x :: rest) = (match x.label with | some l => [l] | none => []) ++ labelsOf rest := by
  cases x with | mk i lab => cases lab <;> simp [labelsOf]

@[simp] theorem labelsOf_append (a b : List Leaf) : labelsOf (a ++ b) = labelsOf a ++ labelsOf b := by
  induction a with
  | nil => simp
  | cons x rest ih => simp [labelsOf_cons, ih]

@[simp] theorem targetsOf_append (a b : List Leaf) : targetsOf (a ++ b) = targetsOf a ++ targetsOf b := by
  induction a with
  | nil => simp
  | cons x rest ih => simp [targetsOf, ih]

@[simp] theorem strip_append (ρ) (a b : List Leaf) : strip ρ (a ++ b) = strip ρ a ++ strip ρ b := by
  induction a with
  | nil => simp
  | cons x rest ih => by_cases h : x.real <;> simp [strip, h, ih]

@[simp] theorem countReal_append (a b : List Leaf) : countReal (a ++ b) = countReal a + countReal b := by
  simp [countReal]

theorem countReal_cons (x : Leaf) (rest : List Leaf) :
    countReal (x :: rest) = (if x.real then 1 else 0) + countReal rest := by
  by_cases h : x.real <;> simp [countReal, List.filter, h] <;> omega

theorem length_strip (ρ) (ls : List Leaf) : (strip ρ ls).length = countReal ls := by
  induction ls with
  | nil => simp
  | cons x rest ih => by_cases h : x.real <;> simp [strip, countReal_cons, h, ih] <;> omega

theorem pos_append (a b : List Leaf) (l : Nat) :
    pos (a ++ b) l = if l ∈ labelsOf a then pos a l else countReal a + pos b l := by
  induction a with
  | nil => simp
  | cons x rest ih =>
    by_cases hx : x.label = some l
    · simp [pos, hx, labelsOf_cons]
    · have : l ∉ (match x.label with | some l => [l] | none => []) := by
        cases hl : x.label with
        | none => simp
        | some l' => simp; intro h; apply hx; rw [hl, h]
      simp only [List.cons_append, pos, hx, if_false, ih, labelsOf_cons, List.mem_append, this, false_or,
        countReal_cons]
      by_cases hm : l ∈ labelsOf rest <;> simp only [hm, if_true, if_false] <;> omega

theorem pos_of_not_mem (a : List Leaf) (l : Nat) (h : l ∉ labelsOf a) : pos a l = countReal a := by
  have := pos_append a [] l
  simp [h] at this
  exact this

/-- `labelPos` is `pos` on attached labels. -/
theorem labelPos_eq (ls : List Leaf) (l : Nat) :
    labelPos ls l = if l ∈ labelsOf ls then some (pos ls l) else none := by
  induction ls with
  | nil => simp [labelPos]
  | cons x rest ih =>
    by_cases hx : x.label = some l
    · simp [labelPos, pos, hx, labelsOf_cons]
    · have : l ∉ (match x.label with | some l => [l] | none => []) := by
        cases hl : x.label with
        | none => simp
        | some l' => simp; intro h; apply hx; rw [hl, h]
      simp only [labelPos, hx, if_false, ih, labelsOf_cons, List.mem_append, this, false_or, pos]
      by_cases hm : l ∈ labelsOf rest <;> simp [hm] <;> omega

/-- "`ρ` resolves the labels attached in `ls` when `ls` starts at address `base`". -/
def Good (ρ : Nat → Nat) (base : Nat) (ls : List Leaf) : Prop :=
  ∀ l ∈ labelsOf ls, ρ l = base + pos ls l

/-- Resolution restricted to a middle part of the list. -/
theorem Good.mid {ρ base} {pre mid post : List Leaf} (h : Good ρ base (pre ++ mid ++ post))
    (hd : ∀ l ∈ labelsOf mid, l ∉ labelsOf pre) : Good ρ (base + countReal pre) mid := by
  intro l hl
  have := h l (by simp [hl])
  rw [this, List.append_assoc, pos_append, if_neg (hd l hl), pos_append, if_pos hl]
  omega

/-- A closed fragment: labels in `L`, all targets attached inside, resolved code = `code base`. -/
structure Frag (ls : List Leaf) (L : Nat → Prop) (code : Nat → Program) (sz : Nat) : Prop where
  labs : ∀ l ∈ labelsOf ls, L l
  closed : ∀ t ∈ targetsOf ls, t ∈ labelsOf ls
  count : countReal ls = sz
  code : ∀ base ρ, Good ρ base ls → strip ρ ls = code base

theorem Frag.weaken {ls L L' code sz} (h : Frag ls L code sz) (hl : ∀ l, L l → L' l) : Frag ls L' code sz :=
  ⟨fun l hm => hl l (h.labs l hm), h.closed, h.count, h.code⟩

theorem Frag.nil (L) : Frag [] L (fun _ => []) 0 :=
  ⟨by simp, by simp, rfl, by simp⟩

/-- Sequential composition of closed fragments with disjoint label sets. -/
theorem Frag.append {a b La Lb ca cb sa sb} (ha : Frag a La ca sa) (hb : Frag b Lb cb sb)
    (hd : ∀ l, La l → Lb l → False) :
    Frag (a ++ b) (fun l => La l ∨ Lb l) (fun base => ca base ++ cb (base + sa)) (sa + sb) := by
  refine ⟨?_, ?_, ?_, ?_⟩
  · intro l hl
    simp at hl
    rcases hl with h | h
    · exact Or.inl (ha.labs l h)
    · exact Or.inr (hb.labs l h)
  · intro t ht
    simp at ht ⊢
    rcases ht with h | h
    · exact Or.inl (ha.closed t h)
    · exact Or.inr (hb.closed t h)
  · simp [ha.count, hb.count]
  · intro base ρ hg
    rw [strip_append]
    have h1 : Good ρ base a := by
      intro l hl
      have := hg l (by simp [hl])
      rw [this, pos_append, if_pos hl]
    have h2 : Good ρ (base + sa) b := by
      have := Good.mid (pre := a) (mid := b) (post := []) (by simpa using hg)
        (fun l hl hla => hd l (ha.labs l hla) (hb.labs l hl))
      rw [ha.count] at this
      exact this
    rw [ha.code base ρ h1, hb.code _ ρ h2]

/-- Label ranges allocated between two states of `_next_label`. -/
def InRange (n n' : Nat) : Nat → Prop := fun l => n ≤ l ∧ l < n'

end AasVerif.Revm
