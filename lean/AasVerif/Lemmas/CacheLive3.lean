import AasVerif.Lemmas.CacheLive2
namespace AasVerif.Cache
set_option linter.unusedSimpArgs false

theorem wkOf_opened (w : Option (Path × Bool)) (h : wkOf w = .opened) : ∃ q, w = some (q, false) := by
  cases w with
  | none => simp [wkOf] at h
  | some qd => obtain ⟨q, d⟩ := qd; cases d <;> simp [wkOf] at h ⊢

theorem wkOf_none (w : Option (Path × Bool)) (h : wkOf w = .none) : w = none := by
  cases w with
  | none => rfl
  | some qd => obtain ⟨q, d⟩ := qd; cases d <;> simp [wkOf] at h

theorem exec_alive (cfg : Cfg) (i : Nat) (p0 : Proc) (g : GOp) (rest : List GOp) (fs : FS) (dir : Bool)
    (hP : Pure cfg i p0) (htodo : p0.todo = g :: rest) (hm : p0.mode = .running) (hl : LiveOf p0)
    (hhit : p0.hit = some true → (fs (finalOf cfg p0.text)).isSome = true)
    (hmkd : p0.mkd = true → dir = true)
    (hte : p0.te = true → (fs (tmpOf cfg i p0.text)).isSome = true) :
    ∃ e, exec cfg i { p0 with todo := rest } fs dir g = some e ∧
      ((e.p.mode = .running ∧ LiveOf e.p) ∨ e.p.mode = .finished (uncached cfg p0.text)) := by
  obtain ⟨_, _, h3, _⟩ := head_safe cfg i p0 g rest hP htodo
  have hsk : skip .running p0.hit g = false := by
    have := hP.settled.1 g rest htodo
    rwa [hm] at this
  unfold LiveOf at hl
  rw [htodo] at hl
  obtain ⟨hlo, hcont⟩ := Live_cons _ _ _ _ _ _ _ _ _ hsk hl
  unfold exec
  cases hop : g.op with
  | readText =>
    simp only [hop] at hcont ⊢
    exact ⟨_, rfl, Or.inl ⟨hm, hcont⟩⟩
  | hashText =>
    simp only [hop] at hcont ⊢
    exact ⟨_, rfl, Or.inl ⟨hm, hcont⟩⟩
  | freshUid =>
    simp only [hop] at hcont ⊢
    exact ⟨_, rfl, Or.inl ⟨hm, hcont⟩⟩
  | tempDir =>
    simp only [hop] at hcont ⊢
    exact ⟨_, rfl, Or.inl ⟨hm, hcont⟩⟩
  | «exists» pe =>
    simp only [hop] at hcont ⊢
    refine ⟨_, rfl, Or.inl ⟨hm, ?_⟩⟩
    simp only [LiveOf]
    cases (fs (pathOf cfg i { p0 with todo := rest } pe)).isSome
    · exact hcont.2
    · exact hcont.1
  | openR pe =>
    simp only [hop] at hcont hlo h3 ⊢
    have hpe : pe = .final := by simpa [safeOp] using h3
    subst hpe
    have hh : p0.hit = some true := by simpa [liveOp] using hlo
    have hs := hhit hh
    simp only [pathOf_final]
    cases hc : fs (finalOf cfg p0.text) with
    | none => rw [hc] at hs; simp at hs
    | some c =>
      simp only
      exact ⟨_, rfl, Or.inl ⟨hm, by simpa [LiveOf] using hcont⟩⟩
  | load =>
    simp only [hop] at hcont hlo ⊢
    have hrd : p0.rh.isSome = true := by simpa [liveOp] using hlo
    cases hr : p0.rh with
    | none => rw [hr] at hrd; simp at hrd
    | some c =>
      have hc := (hP.rh c hr).1
      simp only [hr, hc, if_true]
      exact ⟨_, rfl, Or.inl ⟨hm, by simpa [LiveOf, hr] using hcont⟩⟩
  | retCached =>
    simp only [hop] at hlo ⊢
    have hld : p0.loaded.isSome = true := by simpa [liveOp] using hlo
    cases hr : p0.loaded with
    | none => rw [hr] at hld; simp at hld
    | some s =>
      have hs := hP.loaded s hr
      simp only [hr]
      refine ⟨_, rfl, Or.inr ?_⟩
      simp [uncached, hs.1, hs.2]
  | compute =>
    simp only [hop] at hcont ⊢
    by_cases hv : cfg.valid p0.text = true
    · simp only [hv, if_true]
      exact ⟨_, rfl, Or.inl ⟨hm, by simpa [LiveOf] using hcont⟩⟩
    · simp only [hv]
      refine ⟨_, rfl, Or.inr ?_⟩
      simp [uncached, hv]
  | mkdir eok =>
    simp only [hop] at hcont hlo ⊢
    have he : eok = true := by simpa [liveOp] using hlo
    subst he
    simp only [Bool.not_true, Bool.and_false, Bool.false_eq_true, if_false]
    exact ⟨_, rfl, Or.inl ⟨hm, by simpa [LiveOf] using hcont⟩⟩
  | openW pe =>
    simp only [hop] at hcont hlo h3 ⊢
    have hpe : pe = .tmp ∧ wkOf p0.w = .none := by simpa [safeOp] using h3
    obtain ⟨hpe, _⟩ := hpe
    subst hpe
    have hmk : p0.mkd = true := by
      have : p0.mkd = true ∧ wkOf p0.w = .none := by simpa [liveOp] using hlo
      exact this.1
    have hd := hmkd hmk
    simp only [hd, if_true]
    exact ⟨_, rfl, Or.inl ⟨hm, by simpa [LiveOf, wkOf] using hcont⟩⟩
  | dump =>
    simp only [hop] at hcont hlo ⊢
    have hw : wkOf p0.w = .opened ∧ p0.computed = true := by simpa [liveOp] using hlo
    obtain ⟨q, hq⟩ := wkOf_opened _ hw.1
    simp only [hq, hw.2, if_true]
    exact ⟨_, rfl, Or.inl ⟨hm, by simpa [LiveOf, wkOf, hw.2] using hcont⟩⟩
  | closeW =>
    simp only [hop] at hcont hlo ⊢
    have hw : wkOf p0.w ≠ .none := by simpa [liveOp] using hlo
    cases hq : p0.w with
    | none => rw [hq] at hw; simp [wkOf] at hw
    | some qd =>
      obtain ⟨q, d⟩ := qd
      cases d
      · simp only
        exact ⟨_, rfl, Or.inl ⟨hm, by simpa [LiveOf, wkOf] using hcont⟩⟩
      · simp only
        exact ⟨_, rfl, Or.inl ⟨hm, by simpa [LiveOf, wkOf] using hcont⟩⟩
  | rename sp dp =>
    simp only [hop] at hcont hlo h3 ⊢
    have hs : sp = .tmp := by
      have : sp = .tmp ∧ dp = .final ∧ p0.tc = true ∧ wkOf p0.w = .none := by simpa [safeOp, and_assoc] using h3
      exact this.1
    subst hs
    have ht : p0.te = true := by simpa [liveOp] using hlo
    have hs := hte ht
    simp only [pathOf_tmp]
    cases hc : fs (tmpOf cfg i p0.text) with
    | none => rw [hc] at hs; simp at hs
    | some c =>
      simp only
      exact ⟨_, rfl, Or.inl ⟨hm, by simpa [LiveOf] using hcont⟩⟩
  | unlink pe mok =>
    simp only [hop] at hcont hlo h3 ⊢
    have hpe : pe = .tmp := by
      have : pe = .tmp ∧ wkOf p0.w = .none := by simpa [safeOp] using h3
      exact this.1
    subst hpe
    simp only [pathOf_tmp]
    cases hc : fs (tmpOf cfg i p0.text) with
    | none =>
      have hmok : mok = true := by
        have : mok = true ∨ p0.te = true := by simpa [liveOp] using hlo
        rcases this with h | h
        · exact h
        · have := hte h; rw [hc] at this; simp at this
      simp only [hmok, if_true]
      exact ⟨_, rfl, Or.inl ⟨hm, by simpa [LiveOf] using hcont⟩⟩
    | some c =>
      simp only
      exact ⟨_, rfl, Or.inl ⟨hm, by simpa [LiveOf] using hcont⟩⟩
  | ret =>
    simp only [hop] at hlo ⊢
    have hc : p0.computed = true := by simpa [liveOp] using hlo
    have hv := hP.comp hc
    simp only [hc, if_true]
    refine ⟨_, rfl, Or.inr ?_⟩
    simp [uncached, hv]

end AasVerif.Cache
