import AasVerif.Lemmas.XsdRead
import AasVerif.Lemmas.RetreeSem
/-!
Semantic half of the pattern theorem: dropping the anchors and normalising a tree can only
enlarge the language on texts without line breaks.
-/
namespace AasVerif.XsdPattern
open AasVerif AasVerif.Retree

/-- a text without line breaks (`\n`, `\r`) -/
def NoLB (s : Text) : Prop := ∀ c ∈ s, c ≠ 10 ∧ c ≠ 13

theorem NoLB.left {a b : Text} (h : NoLB (a ++ b)) : NoLB a := fun c hc => h c (List.mem_append_left b hc)
theorem NoLB.right {a b : Text} (h : NoLB (a ++ b)) : NoLB b := fun c hc => h c (List.mem_append_right a hc)

theorem contains_normRng (r : Rng) (c : Nat) : (normRng r).contains c = r.contains c := by
  obtain ⟨s, e⟩ := r
  cases e <;> rfl

theorem setAccepts_norm (compl : Bool) (rs : List Rng) (c : Nat) :
    setAccepts compl (rs.map normRng) c = setAccepts compl rs c := by
  simp only [setAccepts, List.any_map]
  congr 2
  funext r
  exact contains_normRng r c

theorem anchor_rep_empty {v : Value} {mn : Nat} {mx : Option Nat} {pre s post : Text}
    (h : MRep v mn mx pre s post) : isAnchor v = true → s = [] := by
  refine MRep.induct (P := fun v _ _ _ s _ => isAnchor v = true → s = []) ?_ ?_ h
  · intros; rfl
  · intro v mn mx pre s₁ s₂ post _ hv _ ih ha
    have h1 : s₁ = [] := by
      cases v with
      | sym k =>
        cases k with
        | start => exact (MValue_start_iff.mp hv).2
        | stop => exact (MValue_stop_iff.mp hv).1
        | dot => simp [isAnchor] at ha
      | _ => simp [isAnchor] at ha
    rw [h1, ih ha]; rfl

theorem anchor_term_empty {v : Value} {q : Option Quant} {pre s post : Text}
    (h : MTerm (.mk v q) pre s post) (ha : isAnchor v = true) : s = [] := by
  cases q with
  | none =>
    have hv := MTerm_plain_iff.mp h
    cases v with
    | sym k =>
      cases k with
      | start => exact (MValue_start_iff.mp hv).2
      | stop => exact (MValue_stop_iff.mp hv).1
      | dot => simp [isAnchor] at ha
    | _ => simp [isAnchor] at ha
  | some q => exact anchor_rep_empty (MTerm_quant_iff.mp h) ha

theorem rep_transfer {v w : Value}
    (hv : ∀ pre s post pre' post', MValue v pre s post → NoLB s → MValue w pre' s post')
    {mn : Nat} {mx : Option Nat} {pre s post : Text} (h : MRep v mn mx pre s post) :
    v = v → NoLB s → ∀ pre' post', MRep w mn mx pre' s post' := by
  refine MRep.induct (P := fun v' mn mx _ s _ => v' = v → NoLB s → ∀ pre' post', MRep w mn mx pre' s post') ?_ ?_ h
  · intro v' mx pre post _ _ pre' post'
    exact .done w mx pre' post'
  · intro v' mn mx pre s₁ s₂ post h0 h1 _ ih hvv hn pre' post'
    subst hvv
    exact .more w mn mx pre' s₁ s₂ post' h0 (hv _ _ _ _ _ h1 hn.left) (ih rfl hn.right _ _)

mutual
  theorem sem_value : (v : Value) → isAnchor v = false →
      ∀ (pre s post pre' post' : Text), MValue v pre s post → NoLB s → MValue (normValue (raValue v)) pre' s post'
    | .group u, _, pre, s, post, pre', post', h, hn => by
      simp only [raValue, normValue]
      exact MValue_group_iff.mpr (sem_union u pre s post pre' post' (MValue_group_iff.mp h) hn)
    | .char c, _, pre, s, post, pre', post', h, _ => by
      simp only [raValue, normValue]
      rw [MValue_char_iff] at h ⊢
      exact h
    | .set compl rs, _, pre, s, post, pre', post', h, _ => by
      simp only [raValue, normValue]
      rw [MValue_set_iff] at h ⊢
      obtain ⟨c, hs, hc⟩ := h
      exact ⟨c, hs, by rw [setAccepts_norm]; exact hc⟩
    | .fv i, _, pre, s, post, pre', post', h, _ => by
      exact absurd h (by rw [MValue_fv_iff]; exact id)
    | .sym .dot, _, pre, s, post, pre', post', h, hn => by
      simp only [raValue, normValue, XsdRe.dotSet]
      rw [MValue_dot_iff] at h
      obtain ⟨c, hs, hc⟩ := h
      subst hs
      have h13 := (hn c (by simp)).2
      rw [MValue_set_iff]
      exact ⟨c, rfl, by simp [setAccepts, Rng.contains, hc, h13]⟩
    | .sym .start, ha, _, _, _, _, _, _, _ => by simp [isAnchor] at ha
    | .sym .stop, ha, _, _, _, _, _, _, _ => by simp [isAnchor] at ha
  theorem sem_terms : (ts : List Term) →
      ∀ (pre s post pre' post' : Text), MTerms ts pre s post → NoLB s → MTerms (normTerms (raTerms ts)) pre' s post'
    | [], pre, s, post, pre', post', h, _ => by
      simp only [raTerms, normTerms]
      rw [MTerms_nil_iff] at h ⊢
      exact h
    | .mk v q :: ts, pre, s, post, pre', post', h, hn => by
      rw [MTerms_cons_iff] at h
      obtain ⟨s₁, s₂, hs, h1, h2⟩ := h
      subst hs
      simp only [raTerms]
      split
      · next ha =>
        have := anchor_term_empty h1 ha
        subst this
        simpa using sem_terms ts _ s₂ post pre' post' h2 hn.right
      · next ha =>
        have ha' : isAnchor v = false := by simpa using ha
        simp only [normTerms]
        rw [MTerms_cons_iff]
        refine ⟨s₁, s₂, rfl, ?_, sem_terms ts _ s₂ post _ post' h2 hn.right⟩
        cases q with
        | none =>
          simp only [Option.map_none]
          exact MTerm_plain_iff.mpr (sem_value v ha' _ _ _ _ _ (MTerm_plain_iff.mp h1) hn.left)
        | some q =>
          simp only [Option.map_some]
          rw [MTerm_quant_iff]
          exact rep_transfer (sem_value v ha') (MTerm_quant_iff.mp h1) rfl hn.left _ _
  theorem sem_concats : (cs : List Concat) → ∀ (ts : List Term), Concat.mk ts ∈ cs →
      ∀ (pre s post pre' post' : Text), MTerms ts pre s post → NoLB s →
        ∃ ts', Concat.mk ts' ∈ normConcats (raConcats cs) ∧ MTerms ts' pre' s post'
    | [], _, h, _, _, _, _, _, _, _ => by cases h
    | .mk ts0 :: cs, ts, h, pre, s, post, pre', post', ht, hn => by
      simp only [raConcats, normConcats]
      rcases List.mem_cons.mp h with h | h
      · injection h with h
        subst h
        exact ⟨_, List.mem_cons_self, sem_terms ts pre s post pre' post' ht hn⟩
      · obtain ⟨ts', hm, ht'⟩ := sem_concats cs ts h pre s post pre' post' ht hn
        exact ⟨ts', List.mem_cons_of_mem _ hm, ht'⟩
  theorem sem_union : (u : Union) →
      ∀ (pre s post pre' post' : Text), MUnion u pre s post → NoLB s → MUnion (normUnion (raUnion u)) pre' s post'
    | .mk us, pre, s, post, pre', post', h, hn => by
      simp only [raUnion, normUnion]
      rw [MUnion_iff] at h ⊢
      obtain ⟨ts, hm, ht⟩ := h
      exact sem_concats us ts hm pre s post pre' post' ht hn
end

end AasVerif.XsdPattern
