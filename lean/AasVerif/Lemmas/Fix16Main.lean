import AasVerif.Lemmas.Fix16Leaves
/-!
The induction over the regex tree: `fix` produces a tree whose matcher on UTF-16 units is
`Good` for the matcher of the original tree on code points, provided the tree has no `.`,
no complemented set and no surrogate code points (`b = false`) or the text is BMP-only (`b = true`).
-/
namespace AasVerif.Fix16
open AasVerif.Retree

theorem good_fixChar {b : Bool} {c : Chr} {q : Option Quant} {ts' : List Term}
    (h : fixChar c q = .ok ts') (hn : b = false → isSurrogate c.code = false) :
    Good b (MTerms [.mk (.char c) q]) (MTerms ts') := by
  unfold fixChar at h
  gen_consts
  split at h
  · next hlt =>
    cases h
    exact Good.term (good_char_same hlt hn) q
  · next hge =>
    split at h
    · cases h
    · next hi lo hcv =>
      obtain ⟨h1, h2, hp⟩ := convert_ok_iff.mp hcv
      have e1 : hi = (surrogates c.code).1 := by rw [← hp]
      have e2 : lo = (surrogates c.code).2 := by rw [← hp]
      subst e1 e2
      split at h
      · next q' =>
        cases h
        exact Good.term (good_astral_group h1 h2) (some q')
      · cases h
        exact good_astral_plain h1 h2

theorem good_fixSet {b : Bool} {compl : Bool} {rs : List Rng} {q : Option Quant} {ts' : List Term}
    (h : fixSet compl rs q = .ok ts')
    (hn : b = false → compl = false ∧ rs.all rngNoSurrogate = true) :
    Good b (MTerms [.mk (.set compl rs) q]) (MTerms ts') := by
  unfold fixSet at h
  split at h
  · next hemp =>
    cases h
    exact Good.term (good_set_same (List.isEmpty_iff.mp hemp) hn) q
  · split at h
    · cases h
    · next hcompl =>
      split at h
      · cases h
      · next ps hps =>
        cases h
        have hc : compl = false := by simpa using hcompl
        subst hc
        exact Good.term (good_set_group hps (fun hb => (hn hb).2)) q

/-- The cleanliness hypothesis of a node: outside BMP-only text the node has no `.`, no
complemented set and covers no surrogate code point. -/
abbrev CleanOr (b : Bool) (ndc nsl : Bool) : Prop := b = false → ndc = true ∧ nsl = true

mutual
  theorem good_union (b : Bool) : ∀ (u u' : Union), fixUnion u = .ok u' →
      CleanOr b (ndcUnion u) (nslUnion u) → Good b (MUnion u) (MUnion u')
    | .mk us, u', h, hc => by
      simp only [fixUnion] at h
      split at h
      · cases h
      · next us' hus =>
        cases h
        have := good_concats b us us' hus (by simpa [CleanOr, ndcUnion, nslUnion] using hc)
        exact Good.union this.1 this.2
  theorem good_concats (b : Bool) : ∀ (cs cs' : List Concat), fixConcats cs = .ok cs' →
      CleanOr b (ndcConcats cs) (nslConcats cs) →
      (∀ ts', Concat.mk ts' ∈ cs' → ∃ ts, Concat.mk ts ∈ cs ∧ Good b (MTerms ts) (MTerms ts')) ∧
      (∀ ts, Concat.mk ts ∈ cs → ∃ ts', Concat.mk ts' ∈ cs' ∧ Good b (MTerms ts) (MTerms ts'))
    | [], cs', h, _ => by
      simp only [fixConcats] at h
      cases h
      simp
    | c :: cs, cs', h, hc => by
      simp only [fixConcats] at h
      split at h
      · cases h
      · next c' hc' =>
        split at h
        · cases h
        · next cs'' hcs =>
          cases h
          have hcl : CleanOr b (ndcConcat c) (nslConcat c) ∧ CleanOr b (ndcConcats cs) (nslConcats cs) := by
            have key : b = false → (ndcConcat c = true ∧ ndcConcats cs = true) ∧
                nslConcat c = true ∧ nslConcats cs = true := by
              intro hb; simpa only [ndcConcats, nslConcats, Bool.and_eq_true] using hc hb
            exact ⟨fun hb => ⟨(key hb).1.1, (key hb).2.1⟩, fun hb => ⟨(key hb).1.2, (key hb).2.2⟩⟩
          have ih := good_concats b cs cs'' hcs hcl.2
          obtain ⟨ts, rfl⟩ : ∃ ts, c = .mk ts := by cases c; exact ⟨_, rfl⟩
          obtain ⟨ts', rfl, hg⟩ := good_concat b ts c' hc' hcl.1
          constructor
          · intro ts0' hm
            simp only [List.mem_cons, Concat.mk.injEq] at hm
            rcases hm with rfl | hm
            · exact ⟨ts, by simp, hg⟩
            · obtain ⟨ts0, hm0, hg0⟩ := ih.1 ts0' hm
              exact ⟨ts0, by simp [hm0], hg0⟩
          · intro ts0 hm
            simp only [List.mem_cons, Concat.mk.injEq] at hm
            rcases hm with rfl | hm
            · exact ⟨ts', by simp, hg⟩
            · obtain ⟨ts0', hm0, hg0⟩ := ih.2 ts0 hm
              exact ⟨ts0', by simp [hm0], hg0⟩
  theorem good_concat (b : Bool) : ∀ (ts : List Term) (c' : Concat), fixConcat (.mk ts) = .ok c' →
      CleanOr b (ndcConcat (.mk ts)) (nslConcat (.mk ts)) →
      ∃ ts', c' = .mk ts' ∧ Good b (MTerms ts) (MTerms ts')
    | ts, c', h, hc => by
      simp only [fixConcat] at h
      split at h
      · cases h
      · split at h
        · cases h
        · next ts' hts =>
          cases h
          exact ⟨ts', rfl, good_terms b ts ts' hts (by simpa [CleanOr, ndcConcat, nslConcat] using hc)⟩
  theorem good_terms (b : Bool) : ∀ (ts ts' : List Term), fixTerms ts = .ok ts' →
      CleanOr b (ndcTerms ts) (nslTerms ts) → Good b (MTerms ts) (MTerms ts')
    | [], ts', h, _ => by
      simp only [fixTerms] at h
      cases h
      exact Good.nil
    | t :: ts, ts', h, hc => by
      simp only [fixTerms] at h
      split at h
      · cases h
      · next t' ht =>
        split at h
        · cases h
        · next ts'' hts =>
          cases h
          have hcl : CleanOr b (ndcTerm t) (nslTerm t) ∧ CleanOr b (ndcTerms ts) (nslTerms ts) := by
            have key : b = false → (ndcTerm t = true ∧ ndcTerms ts = true) ∧
                nslTerm t = true ∧ nslTerms ts = true := by
              intro hb; simpa only [ndcTerms, nslTerms, Bool.and_eq_true] using hc hb
            exact ⟨fun hb => ⟨(key hb).1.1, (key hb).2.1⟩, fun hb => ⟨(key hb).1.2, (key hb).2.2⟩⟩
          have h1 := good_term b t t' ht hcl.1
          have h2 := good_terms b ts ts'' hts hcl.2
          exact Good.terms_append (ts₁ := [t]) h1 h2
  theorem good_term (b : Bool) : ∀ (t : Term) (ts' : List Term), fixTerm t = .ok ts' →
      CleanOr b (ndcTerm t) (nslTerm t) → Good b (MTerms [t]) (MTerms ts')
    | .mk (.group u) q, ts', h, hc => by
      simp only [fixTerm] at h
      split at h
      · cases h
      · next u' hu =>
        cases h
        have := good_union b u u' hu (by simpa [CleanOr, ndcTerm, nslTerm, ndcValue, nslValue] using hc)
        exact Good.term (Good.group this) q
    | .mk (.char c) q, ts', h, hc => by
      simp only [fixTerm] at h
      refine good_fixChar h ?_
      intro hb
      have := (hc hb).2
      simpa [nslTerm, nslValue] using this
    | .mk (.set compl rs) q, ts', h, hc => by
      simp only [fixTerm] at h
      refine good_fixSet h ?_
      intro hb
      have := hc hb
      simpa [ndcTerm, nslTerm, ndcValue, nslValue] using this
    | .mk (.fv i) q, ts', h, _ => by
      simp only [fixTerm] at h
      cases h
      exact Good.term good_fv q
    | .mk (.sym k) q, ts', h, hc => by
      simp only [fixTerm] at h
      cases h
      cases k with
      | start => exact Good.term good_start q
      | stop => exact Good.term good_stop q
      | dot =>
        have hb : b = true := by
          cases b with
          | true => rfl
          | false => have := (hc rfl).1; simp [ndcTerm, ndcValue] at this
        exact Good.term (good_dot hb) q
end

end AasVerif.Fix16
