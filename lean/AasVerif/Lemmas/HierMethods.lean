import AasVerif.Lemmas.HierSer
import AasVerif.Lemmas.HierStack
/-!
Methods: if the stacking of methods reports no conflict, the methods of every class have the same
shape as its properties and invariants (inherited along the linearisation of the ancestors, then own),
and the inherited ones do not even share a *name*.
-/
namespace AasVerif.Hier

/-- the loop body over the parents' methods: inherited so far, names seen, conflict reported -/
def mstep (r : List Item × List Name × Bool) (m : Item) : List Item × List Name × Bool :=
  if r.2.1.contains m.2 then (r.1, r.2.1, true) else (r.1 ++ [m], r.2.1 ++ [m.2], r.2.2)

theorem methodsF_eq (par : Name → List Name) (own : Name → List Item) (st : Name → List Item) (c : Name) :
    methodsF par own st c =
      (if (own c).any (fun m => (((par c).flatMap st).foldl mstep ([], [], false)).2.1.contains m.2) then (none, true)
       else (some ((((par c).flatMap st).foldl mstep ([], [], false)).1 ++ own c),
             (((par c).flatMap st).foldl mstep ([], [], false)).2.2)) := rfl

theorem mfold_flag_mono : ∀ (L : List Item) (r : List Item × List Name × Bool), r.2.2 = true →
    (L.foldl mstep r).2.2 = true := by
  intro L
  induction L with
  | nil => intro r h; exact h
  | cons m L ih =>
    intro r h
    simp only [List.foldl_cons]
    apply ih
    unfold mstep
    split <;> simp [h]

theorem mfold_ok : ∀ (L : List Item) (r : List Item × List Name × Bool), (L.foldl mstep r).2.2 = false →
    (L.foldl mstep r).1 = r.1 ++ L ∧ (∀ m ∈ L, m.2 ∉ r.2.1) ∧ (L.map (·.2)).Nodup := by
  intro L
  induction L with
  | nil => intro r _; simp
  | cons m L ih =>
    intro r h
    simp only [List.foldl_cons] at h ⊢
    by_cases hm : r.2.1.contains m.2 = true
    · exfalso
      have hmem : m.2 ∈ r.2.1 := by simpa using hm
      have : (mstep r m).2.2 = true := by unfold mstep; simp [hmem]
      have := mfold_flag_mono L _ this
      rw [h] at this
      cases this
    · have hm' : m.2 ∉ r.2.1 := by simpa using hm
      have e : mstep r m = (r.1 ++ [m], r.2.1 ++ [m.2], r.2.2) := by unfold mstep; simp [hm']
      rw [e] at h ⊢
      obtain ⟨h1, h2, h3⟩ := ih _ h
      refine ⟨by rw [h1]; simp, ?_, ?_⟩
      · intro x hx
        rcases List.mem_cons.mp hx with rfl | hx'
        · exact hm'
        · intro hmem
          exact h2 x hx' (by simp [hmem])
      · simp only [List.map_cons, List.nodup_cons]
        refine ⟨?_, h3⟩
        intro hmem
        obtain ⟨x, hx, hxm⟩ := List.mem_map.mp hmem
        exact h2 x hx (by simp [hxm])

theorem nodup_of_map_nodup {α β : Type} (f : α → β) {l : List α} (h : (l.map f).Nodup) : l.Nodup := by
  induction l with
  | nil => simp
  | cons x xs ih =>
    simp only [List.map_cons, List.nodup_cons] at h ⊢
    exact ⟨fun hx => h.1 (List.mem_map.mpr ⟨x, hx, rfl⟩), ih h.2⟩

section
variable {par : Name → List Name} {own : Name → List Item} {order : List Name}

theorem methodsF_local (x : Name) (st st' : Name → List Item) (h : ∀ p ∈ par x, st p = st' p) :
    methodsF par own st x = methodsF par own st' x := by
  rw [methodsF_eq, methodsF_eq, flatMap_congr' h]

/-- no conflict reported ⇒ methods are stacked exactly like properties, and inherited names are unique -/
theorem methods_spec (hnd : order.Nodup) (hts : TopoSorted par order)
    (hok : (stackMethods par own order).2 = false) :
    ∀ c ∈ order, get own (stackMethods par own order).1 c = stackAll par own order c
      ∧ (((par c).flatMap (stackAll par own order)).map (·.2)).Nodup := by
  unfold stackMethods at *
  have spec := foldUpdE_spec own (methodsF par own) par order hnd (fun x st st' h => methodsF_local x st st' h)
    (fun l1 x l2 hs q hq => hts.not_after hnd hs hq) hok
  generalize hfin : get own (foldUpdE own (methodsF par own) order).1 = fin at *
  refine topo_induction (P := fun c => fin c = stackAll par own order c
      ∧ (((par c).flatMap (stackAll par own order)).map (·.2)).Nodup) hts ?_
  intro c hc ih
  obtain ⟨hflag, hval⟩ := spec c hc
  rw [methodsF_eq] at hflag hval
  have hcongr : (par c).flatMap fin = (par c).flatMap (stackAll par own order) :=
    flatMap_congr' (fun p hp => (ih p hp).1)
  by_cases hov : (own c).any (fun m => (((par c).flatMap fin).foldl mstep ([], [], false)).2.1.contains m.2) = true
  · rw [if_pos hov] at hflag
    cases hflag
  · rw [if_neg hov] at hflag hval
    obtain ⟨h1, _, h3⟩ := mfold_ok _ _ hflag
    replace h1 : (((par c).flatMap fin).foldl mstep ([], [], false)).1 = (par c).flatMap fin := by simpa using h1
    rw [hcongr] at h1 h3
    refine ⟨?_, h3⟩
    rw [hval, stackAll_eq own hnd hts hc]
    simp only [Option.getD_some]
    rw [hcongr, h1, addAll_fresh (nodup_of_map_nodup _ h3) (by simp)]
    simp

end

end AasVerif.Hier
