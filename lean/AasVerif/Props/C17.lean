import AasVerif.Model.Fix16
namespace AasVerif.Props.C17
open AasVerif AasVerif.Retree AasVerif.Fix16

/-- The pair computed by `_convert_to_surrogates` is a high and a low surrogate and determines
the code point. -/
theorem surrogates_spec (c : Nat) (h1 : 0x10000 ≤ c) (h2 : c ≤ 0x10FFFF) :
    0xD800 ≤ (surrogates c).1 ∧ (surrogates c).1 ≤ 0xDBFF ∧
    0xDC00 ≤ (surrogates c).2 ∧ (surrogates c).2 ≤ 0xDFFF ∧
    ((surrogates c).1 - 0xD800) * 0x400 + ((surrogates c).2 - 0xDC00) + 0x10000 = c := by
  simp only [surrogates, Gen.Fix16.hiSub, Gen.Fix16.hiDiv, Gen.Fix16.hiBase, Gen.Fix16.loSub,
    Gen.Fix16.loMod, Gen.Fix16.loBase]
  omega

end AasVerif.Props.C17
