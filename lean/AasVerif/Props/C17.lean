import AasVerif.Lemmas.Fix16Main
import AasVerif.Lemmas.Fix16Total
import AasVerif.Lemmas.Fix16Idem
/-!
# C17 — UTF-16 regex rewriting preserves the language

Theorems about `Fix16.fix` (model of `retree._fix._FixForUTF16Regex` after the `fix:` commit that
splits ranges straddling U+FFFF/U+10000), the shared denotational semantics `Retree.Sem` and
`Fix16.utf16` (code points → UTF-16 code units).  Numerals: 65536 = U+10000, 1114111 = U+10FFFF,
55296 = U+D800, 56319 = U+DBFF, 56320 = U+DC00, 57343 = U+DFFF.
-/
namespace AasVerif.Props.C17
open AasVerif AasVerif.Retree AasVerif.Fix16

/-! ## Surrogates -/

/-- The pair computed by `_convert_to_surrogates` is a high and a low surrogate and determines
the code point. -/
theorem surrogates_spec (c : Nat) (h1 : 0x10000 ≤ c) (h2 : c ≤ 0x10FFFF) :
    0xD800 ≤ (surrogates c).1 ∧ (surrogates c).1 ≤ 0xDBFF ∧
    0xDC00 ≤ (surrogates c).2 ∧ (surrogates c).2 ≤ 0xDFFF ∧
    ((surrogates c).1 - 0xD800) * 0x400 + ((surrogates c).2 - 0xDC00) + 0x10000 = c := by
  simp only [surrogates_fst, surrogates_snd]
  omega

/-- The `@ensure` of `_convert_to_surrogates` never fires, and the `@require` fires exactly
outside U+10000..U+10FFFF. -/
theorem surrogates_post_never (c : Nat) :
    convert c ≠ .error .surrogatesPost ∧
    (convert c = .error .surrogatesPre ↔ ¬ (0x10000 ≤ c ∧ c ≤ 0x10FFFF)) := by
  constructor
  · intro h; have := (convert_error h).1; cases this
  · constructor
    · intro h; exact (convert_error h).2
    · intro h
      cases hc : convert c with
      | error e => rw [(convert_error hc).1]
      | ok p => exact absurd ⟨(convert_ok_iff.mp hc).1, (convert_ok_iff.mp hc).2.1⟩ h

/-! ## The heart: one astral range -/

/-- `range_split`: the union emitted for a range (`rangePieces`: `hi[lo-lo']`, or
`hi[lo-DFFF] | hi+1[DC00-DFFF] or [hi+1-hi'-1][DC00-DFFF] | hi'[DC00-lo']`) matches the UTF-16
encoding of an astral code point `c` exactly when `c` is in the range — in any context. -/
theorem range_split {r : Rng} {pcs : List Concat} (h : rangePieces r = .ok pcs)
    (c : Nat) (h1 : 0x10000 ≤ c) (h2 : c ≤ 0x10FFFF) (pre post : Text) :
    r.contains c = true ↔ MUnion (.mk pcs) pre (utf16 [c]) post := by
  rw [MUnion_iff, pieces_match_iff (rangePieces_isPair h), utf16_single_astral h1]
  simp only [rangePieces_acc h]
  constructor
  · intro hc
    refine ⟨_, _, rfl, ?_, ?_, ?_⟩
    · rw [surrogates_fst]; omega
    · rw [surrogates_snd]; omega
    · rw [combine_surrogates h1]; exact hc
  · rintro ⟨x, y, hxy, _, _, hc⟩
    simp only [List.cons.injEq, and_true] at hxy
    rw [← hxy.1, ← hxy.2, combine_surrogates h1] at hc
    exact hc

/-- …and it matches nothing but such encodings: whatever the union matches is the surrogate
pair of a code point of the range. -/
theorem range_split_only {r : Rng} {pcs : List Concat} (h : rangePieces r = .ok pcs)
    {pre u post : Text} (hm : MUnion (.mk pcs) pre u post) :
    ∃ c, 0x10000 ≤ c ∧ c ≤ 0x10FFFF ∧ r.contains c = true ∧ u = utf16 [c] := by
  rw [MUnion_iff, pieces_match_iff (rangePieces_isPair h)] at hm
  obtain ⟨x, y, rfl, hacc⟩ := hm
  obtain ⟨hx, hy, hc⟩ := (rangePieces_acc h x y).mp hacc
  obtain ⟨hs, h1, h2⟩ := surrogates_combine hx hy
  refine ⟨combine x y, h1, h2, hc, ?_⟩
  rw [utf16_single_astral h1, hs]

/-- For an ordered range of astral code points the expansion never crashes
(the form of `range_split` in DESIGN.md). -/
theorem range_split_ab (a b : Nat) (ea eb : Bool) (ha : 0x10000 ≤ a) (hab : a ≤ b)
    (hb : b ≤ 0x10FFFF) :
    ∃ pcs, rangePieces ⟨⟨a, ea⟩, some ⟨b, eb⟩⟩ = .ok pcs ∧
      ∀ c, 0x10000 ≤ c → c ≤ 0x10FFFF → ∀ pre post,
        ((a ≤ c ∧ c ≤ b) ↔ MUnion (.mk pcs) pre (utf16 [c]) post) := by
  have hca : convert a = .ok (surrogates a) := convert_ok_iff.mpr ⟨ha, by omega, rfl⟩
  have hcb : convert b = .ok (surrogates b) := convert_ok_iff.mpr ⟨by omega, hb, rfl⟩
  have hex : ∃ pcs, rangePieces ⟨⟨a, ea⟩, some ⟨b, eb⟩⟩ = .ok pcs := by
    unfold rangePieces
    simp only [hca, hcb]
    by_cases hab' : a = b
    · simp [hab']
    · have : a < b := by omega
      simp [hab', this]
  obtain ⟨pcs, hp⟩ := hex
  refine ⟨pcs, hp, fun c h1 h2 pre post => ?_⟩
  rw [← range_split hp c h1 h2 pre post, contains_some rfl]

/-! ## Language preservation

Full strength (FALSE for the faithful model, see `fix_full_fails`):

    theorem fix_preserves (r r' : Regex) (h : fix r = .ok r') (s : Text) (hs : Scalar s) :
        FullMatch r' (utf16 s) ↔ FullMatch r s
-/

/-- `^[^a]$` -/
def witness : Regex :=
  .mk [.mk [.mk (.sym .start) none, .mk (.set true [⟨⟨97, false⟩, none⟩]) none, .mk (.sym .stop) none]]

theorem witness_match (u : Text) : FullMatch witness u ↔ ∃ c, u = [c] ∧ c ≠ 97 := by
  simp [FullMatch, witness, MUnion_iff, MTerms_cons_iff, MTerms_nil_iff, MTerm_plain_iff,
    MValue_start_iff, MValue_set_iff, MValue_stop_iff, setAccepts, Rng.contains]
  constructor
  · rintro ⟨s₁, s₂, rfl, rfl, c, rfl, hc⟩; exact ⟨c, rfl, hc⟩
  · rintro ⟨c, rfl, hc⟩; exact ⟨[], [c], rfl, rfl, c, rfl, hc⟩

/-- The full-strength statement fails: `^[^a]$` is left unchanged by the rewriting, it matches
the scalar text "😀" (U+1F600), but not the two UTF-16 units D83D DE00 of that text. -/
theorem fix_full_fails :
    ¬ (∀ (r r' : Regex), fix r = .ok r' → ∀ s : Text, Scalar s →
        (FullMatch r' (utf16 s) ↔ FullMatch r s)) := by
  intro h
  have hfix : fix witness = .ok witness := by rfl
  have hs : Scalar [0x1F600] := by decide
  have h1 : FullMatch witness [0x1F600] := (witness_match _).mpr ⟨0x1F600, rfl, by decide⟩
  have h2 := (h witness witness hfix [0x1F600] hs).mpr h1
  have hu : utf16 [0x1F600] = [0xD83D, 0xDE00] := by decide
  rw [hu, witness_match] at h2
  obtain ⟨c, hc, _⟩ := h2
  simp at hc

/-- **Preservation, partial.**  If the rewriting does not crash, then for every scalar text `s`
(Unicode scalar values, no lone surrogates) the rewritten tree matches the UTF-16 code units of
`s` exactly when the original tree matches `s` — provided the tree has no `.`, no complemented
set and no literal/range covering surrogate code points, or `s` lies in the Basic Multilingual
Plane.  The excluded region is exactly the known findings C17-F1 and C17-F2. -/
theorem fix_preserves_partial (r r' : Regex) (h : fix r = .ok r') (s : Text) (hs : Scalar s)
    (hyp : (NoDotNoComplement r ∧ NoSurrogateLiterals r) ∨ BmpOnly s) :
    FullMatch r' (utf16 s) ↔ FullMatch r s := by
  have main : ∀ b : Bool, (b = false → ndcUnion r = true ∧ nslUnion r = true) →
      (b = true → BmpOnly s) → (FullMatch r' (utf16 s) ↔ FullMatch r s) := by
    intro b hclean hbmp
    have hg := good_union b r r' h hclean
    have hok : Ok b [] s := by
      intro c hc
      simp only [List.nil_append] at hc
      exact ⟨(hs c hc).1, (hs c hc).2, fun hb => hbmp hb c hc⟩
    have := hg [] s (utf16 s) [] hok (by simp)
    unfold FullMatch
    rw [show ([] : Text) = utf16 [] from rfl] at this ⊢
    simp only [utf16_nil] at this ⊢
    rw [this]
    constructor
    · rintro ⟨s₀, post, e1, _, e3, hm⟩
      have hp : post = [] := utf16_eq_nil_iff.mp e3.symm
      subst hp
      simp only [List.append_nil] at e1
      subst e1
      exact hm
    · intro hm
      exact ⟨s, [], by simp, rfl, rfl, hm⟩
  rcases hyp with ⟨h1, h2⟩ | h3
  · exact main false (fun _ => ⟨h1, h2⟩) (fun hb => by cases hb)
  · exact main true (fun hb => by cases hb) (fun _ => h3)

/-- The same for every position, not only whole-text matches: inside any well-formed context
the rewritten tree, started at a character boundary, stops only at character boundaries and
consumes the encoding of exactly what the original tree consumes. -/
theorem fix_preserves_positions (r r' : Regex) (h : fix r = .ok r')
    (hyp : NoDotNoComplement r ∧ NoSurrogateLiterals r)
    (pre rest : Text) (hpre : Scalar pre) (hrest : Scalar rest) (u post' : List Nat)
    (hu : utf16 rest = u ++ post') :
    MUnion r' (utf16 pre) u post' ↔
      ∃ s post, rest = s ++ post ∧ u = utf16 s ∧ post' = utf16 post ∧ MUnion r pre s post := by
  refine good_union false r r' h (fun _ => hyp) pre rest u post' ?_ hu
  intro c hc
  rcases List.mem_append.mp hc with hc | hc
  · exact ⟨(hpre c hc).1, (hpre c hc).2, fun hb => by cases hb⟩
  · exact ⟨(hrest c hc).1, (hrest c hc).2, fun hb => by cases hb⟩

/-! ## Totality -/

/-- On every tree the parser can produce (code points ≤ U+10FFFF, ordered ranges, complemented sets
with BMP ranges only — `FixWF`) no crash site of the rewriting is reachable: neither the contracts
of `_convert_to_surrogates`, nor the two `assert`s of `_expand_char_set_to_surrogates_if_necessary`. -/
theorem fix_never_crashes (r : Regex) (h : FixWF r) : ∃ r', fix r = .ok r' :=
  fixUnion_ok r h

/-- Totality and preservation together, for parser-shaped trees. -/
theorem fix_total_and_preserves (r : Regex) (h : FixWF r)
    (hyp : NoDotNoComplement r ∧ NoSurrogateLiterals r) :
    ∃ r', fix r = .ok r' ∧ ∀ s : Text, Scalar s → (FullMatch r' (utf16 s) ↔ FullMatch r s) := by
  obtain ⟨r', hr⟩ := fix_never_crashes r h
  exact ⟨r', hr, fun s hs => fix_preserves_partial r r' hr s hs (.inl hyp)⟩

/-- The rewriting is idempotent.  The Python visitor visits the nodes it has just created
(`for concatenant in new_concatenants: self.visit(concatenant)`); the model does not — this theorem
is why that makes no difference: a pass over an already rewritten tree neither changes it nor
crashes. -/
theorem fix_idempotent (r r' : Regex) (h : fix r = .ok r') : fix r' = .ok r' :=
  fix_idem h

/-! ### Non-vacuity -/



/-- `^[a-z\U0001F600-\U0001F64F]+\U00010000$` -/
def sample : Regex :=
  .mk [.mk [.mk (.sym .start) none,
    .mk (.set false [⟨⟨97, false⟩, some ⟨122, false⟩⟩, ⟨⟨0x1F600, true⟩, some ⟨0x1F64F, true⟩⟩])
      (some ⟨false, 1, none⟩),
    .mk (.char ⟨0x10000, false⟩) none, .mk (.sym .stop) none]]

example : FixWF sample ∧ FixWF witness := by decide

/-- The first disjunct is satisfiable by a tree with an astral range under a quantifier and an
astral literal; the rewriting changes it; the text has astral characters. -/
example : (∃ r', fix sample = .ok r' ∧ r' ≠ sample) ∧
    (NoDotNoComplement sample ∧ NoSurrogateLiterals sample) ∧
    Scalar [0x1F600, 97, 0x10000] ∧ ¬ BmpOnly [0x1F600, 97, 0x10000] := by
  refine ⟨⟨_, rfl, ?_⟩, by decide, by decide, by decide⟩
  intro h; cases h

/-- The second disjunct: `^[^a]$` (excluded from the first one) on BMP text. -/
example : fix witness = .ok witness ∧ ¬ NoDotNoComplement witness ∧
    Scalar [98] ∧ BmpOnly [98] ∧ FullMatch witness [98] := by
  refine ⟨rfl, by decide, by decide, by decide, (witness_match _).mpr ⟨98, rfl, by decide⟩⟩

/-- A straddling range `[a-\U00010000]` is split at U+FFFF/U+10000 (the `fix:` commit). -/
example : fix (.mk [.mk [.mk (.set false [⟨⟨97, false⟩, some ⟨0x10000, true⟩⟩]) none]]) =
    .ok (.mk [.mk [.mk (.group (.mk [.mk [.mk (.set false [⟨⟨97, false⟩, some ⟨0xFFFF, true⟩⟩]) none],
      charChar 0xD800 0xDC00])) none]]) := by rfl

/-- Crash sites that remain reachable on trees (not on parser output): a complemented set with an
astral range, and an ill-ordered range. -/
example : fix (.mk [.mk [.mk (.set true [⟨⟨0x1F600, true⟩, none⟩]) none]]) = .error .complementAstral := by rfl
example : fix (.mk [.mk [.mk (.set false [⟨⟨0x1F601, true⟩, some ⟨0x1F600, true⟩⟩]) none]]) = .error .rangeOrder := by rfl

end AasVerif.Props.C17
