import AasVerif.Gen.ExitPaths
/-!
# C03 / C02 / C28 — exit-path contract over the regenerated skeletons

`Gen.ExitPaths` is rewritten from the current source of every `execute` function on every
run; these are *table* theorems (`decide`) over that complete finite table.
-/
namespace AasVerif.Props.C03Exit
open AasVerif.Gen.ExitPaths

/-- One exit path obeys the contract: a literal non-zero status is preceded by a write to
stderr in its own block; status 0 is not, and (where the function has a stdout) directly
follows the `Code generated to: <output dir>` line; nothing but literal statuses and
delegations to a target's `execute` is returned. -/
def pathOk (hasStdout : Bool) (p : Path) : Bool :=
  match p.rc with
  | some 0 => !p.wroteStderr && (p.doneLine || !hasStdout) && p.delegate == ""
  | some _ => p.wroteStderr && !p.doneLine && p.delegate == ""
  | none => p.delegate != "?" && p.delegate != "" && !p.wroteStderr

def skeletonOk (s : Skeleton) : Bool :=
  s.paths.all (pathOk s.hasStdout) && !s.fallsOffEnd && s.uncoveredStderrWrites.isEmpty &&
  s.multilineHeadlines.isEmpty && s.paths.any (fun p => p.rc == some 0 || p.rc == none)

/-- Every exit path of the eight generators, of `main.execute` and of the smoke tool obeys the
exit-status contract; every stderr write is on a path to a non-zero status; headlines are one line. -/
theorem exit_contract : (root :: smoke :: targetMains).all skeletonOk = true := by decide

/-- `main.execute` dispatches every member of `Target` to that target's `execute`
(no member falls through to `assert_never`), and all eight targets are present. -/
theorem dispatch_total :
    targetEnum.all (fun t => root.paths.any (fun p => p.delegate == t)) = true ∧
    targetMains.length = targetEnum.length := by decide

end AasVerif.Props.C03Exit
